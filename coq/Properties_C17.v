(* C17 -- the continuous wirelength solver honours real-valued net weights.
   Model: coq/Quad.v (NetModel::addNet, MatrixCreator::addPin/addBipoint/addClique/addStar/addB2B/addLightStar/
   addPenalty/finalize of /repo/src/place_global/net_model.cpp over Q); proofs: coq/QuadProofs.v.
   Labels: [F] proved for all inputs; [R] refuted for the faithful model of the UNCHANGED tree (finding F12:
   net_model.hpp declares std::vector<int> netWeight_); the [F] theorems are about the repaired tree
   (std::vector<float>, /repo c70f3ac), whose addNet stores the weight unchanged.  The models also follow the repairs of
   F22 (/repo 7251876: normalize() before finalize(), solver_input / fsolver_input) and of F25 (no star point for a net whose
   pins are all on one cell: bip_like / fbip_like).
   The binary32 (Flocq) part -- "exactly for powers of two" for the assembly -- is the second half of this file
   (c17_float_*, model coq/QuadFloat.v).
   Not here (validated by runs of checks/c17.py, not proved): what Eigen's single-precision conjugate gradient returns
   for these systems (bitwise equality under factors 2^k, closeness under 2.5 and 7). *)
From Coq Require Import List ZArith QArith Lia Reals Lra.
From Flocq Require Import Core BinarySingleNaN.
Require Import CV.Quad CV.QuadProofs CV.QuadFloat CV.QuadFloatProofs.
Import ListNotations.
Open Scope Q_scope.

(* [F] homogeneity of the assembly.  nm' has the nets of nm with every weight multiplied by k (nm_scaled); then every
   triplet and every right-hand-side entry produced by createStar(topo), addBipoint/addClique on every net, and
   create(topo, pl, eps, model) for the four models B2B/Star/Clique/LightStar around any placement is multiplied by k
   (same rows, columns, order, initial guess), also after addPenalty with strengths multiplied by k. *)
Theorem c17_assembly_homogeneous : forall k nm' nm, nm_scaled k nm' nm ->
  sys_scaled k (create_star0 nm') (create_star0 nm) /\
  sys_scaled k (create_bipoint0 nm') (create_bipoint0 nm) /\
  sys_scaled k (create_clique0 nm') (create_clique0 nm) /\
  (forall m pl eps, sys_scaled k (create m nm' pl eps) (create m nm pl eps)) /\
  (forall m pl eps tg st' st cutoff, vec_scaled k st' st ->
     sys_scaled k (add_penalty pl tg st' cutoff (create m nm' pl eps)) (add_penalty pl tg st cutoff (create m nm pl eps))).
Proof. exact assembly_homogeneous. Qed.

(* [F] the repaired addNet (3- and 5-argument forms) stores the weight it is given: the same calls with weights k*w
   build a NetModel that is nm_scaled *)
Theorem c17_add_net_stores_weight : forall k n nets' nets,
  Forall2 (fun e' e : list Z * list Q * option (Q * Q) * Q => fst e' = fst e /\ snd e' == k * snd e) nets' nets ->
  nm_scaled k (build_nm n nets') (build_nm n nets).
Proof. exact build_nm_scaled. Qed.

(* [F] the linear-algebra consequence: for k > 0 the systems handed to the solver by solveStar(params), solve /
   solveStar(pl) / solveB2B(pl) and solveWithPenalty (after finalize(), whose 1e-8 regularisation is NOT scaled) have
   exactly the same solutions over Q.  nm_ok is what NetModel::check() enforces (cells in [-1, nbCells)). *)
Theorem c17_solution_set_invariant : forall k nm' nm, 0 < k -> nm_ok nm -> nm_scaled k nm' nm ->
  (forall x, solves (system_star0 nm') x <-> solves (system_star0 nm) x) /\
  (forall m pl eps x, solves (system m nm' pl eps) x <-> solves (system m nm pl eps) x) /\
  (forall m pl eps tg st' st cutoff x, vec_scaled k st' st -> (length pl <= nm_cells nm)%nat ->
     solves (system_penalty m nm' pl eps tg st' cutoff) x <-> solves (system_penalty m nm pl eps tg st cutoff) x).
Proof. exact solution_set_invariant. Qed.

(* [F] the pull on a cell (row i of M x - b, at any x) is proportional to the common weight factor *)
Theorem c17_pull_proportional_to_weight : forall k nm' nm, nm_scaled k nm' nm ->
  (forall x i, row_sum i (s_mat (create_star0 nm')) x - nth (Z.to_nat i) (s_rhs (create_star0 nm')) 0 ==
               k * (row_sum i (s_mat (create_star0 nm)) x - nth (Z.to_nat i) (s_rhs (create_star0 nm)) 0)) /\
  (forall m pl eps x i, row_sum i (s_mat (create m nm' pl eps)) x - nth (Z.to_nat i) (s_rhs (create m nm' pl eps)) 0 ==
               k * (row_sum i (s_mat (create m nm pl eps)) x - nth (Z.to_nat i) (s_rhs (create m nm pl eps)) 0)).
Proof. exact pull_proportional. Qed.

(* [F] two-pin nets (addBipoint): the assembled (M, b) is the normal-equation system of
   E(x) = sum_n w_n/2 (x_a + o_a - x_b - o_b)^2: E(x+h) = E(x) + h.(M x - b) + E_flat(h) exactly, where E_flat is the
   same energy without offsets (so M x - b is the gradient and M the Hessian) ... *)
Theorem c17_bipoint_normal_equations : forall nm x h, nm_ok nm -> length x = nm_cells nm -> length h = nm_cells nm ->
  bipoint_energy nm (vadd x h) == bipoint_energy nm x + lin (create_bipoint0 nm) h x + bipoint_energy (nm_flat nm) h.
Proof. exact bipoint_expansion. Qed.

(* [F] ... hence every solution of the system is a weighted least-squares optimum (weights >= 0) *)
Theorem c17_bipoint_least_squares : forall nm x h, nm_ok nm -> (forall n, In n (nm_nets nm) -> 0 <= n_weight n) ->
  length x = nm_cells nm -> length h = nm_cells nm -> solves (create_bipoint0 nm) x ->
  bipoint_energy nm x <= bipoint_energy nm (vadd x h).
Proof. exact bipoint_optimum. Qed.

(* [F] and conversely every minimiser solves the system: the solver's system characterises the optimum exactly *)
Theorem c17_bipoint_least_squares_conv : forall nm x, nm_ok nm -> (forall n, In n (nm_nets nm) -> 0 <= n_weight n) -> length x = nm_cells nm ->
  (forall h, length h = nm_cells nm -> bipoint_energy nm x <= bipoint_energy nm (vadd x h)) ->
  solves (create_bipoint0 nm) x.
Proof. exact bipoint_optimum_conv. Qed.

(* [F] the initial star model (createStar(topo), used by solveStar(params)): unknowns are the cells followed by one
   star point per net of more than two pins; same two statements for
   E(x, s) = sum_{2-pin nets} w/2 (..)^2 + sum_{other nets} w/(2 nb) sum_i (x_i + o_i - s_net)^2 *)
Theorem c17_star_normal_equations : forall nm x h, nm_ok nm -> length x = star_size nm -> length h = star_size nm ->
  star_energy nm (vadd x h) == star_energy nm x + lin (create_star0 nm) h x + star_energy (nm_flat nm) h.
Proof. exact star_expansion. Qed.

Theorem c17_star_least_squares : forall nm x h, nm_ok nm -> (forall n, In n (nm_nets nm) -> 0 <= n_weight n) ->
  length x = star_size nm -> length h = star_size nm -> solves (create_star0 nm) x ->
  star_energy nm x <= star_energy nm (vadd x h).
Proof. exact star_optimum. Qed.

Theorem c17_star_least_squares_conv : forall nm x, nm_ok nm -> (forall n, In n (nm_nets nm) -> 0 <= n_weight n) -> length x = star_size nm ->
  (forall h, length h = star_size nm -> star_energy nm x <= star_energy nm (vadd x h)) ->
  solves (create_star0 nm) x.
Proof. exact star_optimum_conv. Qed.

(* [F for sequences of addPin calls from the empty system] whatever the sequence, the assembled system is the
   normal-equation system of the sum of w/2 (pos1 - pos2)^2 over the calls.  This WOULD cover B2B, Clique around a
   placement (whose weights w depend on the placement) and addPenalty, but no lemma writes `create m ..` / `add_penalty`
   as an apply_ops sequence from sys_empty (only create_bipoint0_ops and star0_ops_from exist), and Star / LightStar
   interleave add_cell, so they are not of that form: the link to those models is not proved. *)
Theorem c17_addpin_sequence_least_squares : forall n ops x h, Forall (op_ok n) ops -> (forall o, In o ops -> 0 <= p_w o) ->
  length x = n -> length h = n -> solves (apply_ops ops (sys_empty n)) x ->
  ops_energy ops x <= ops_energy ops (vadd x h).
Proof. exact ops_optimum. Qed.

Theorem c17_addpin_sequence_least_squares_conv : forall n ops x, Forall (op_ok n) ops -> (forall o, In o ops -> 0 <= p_w o) -> length x = n ->
  (forall h, length h = n -> ops_energy ops x <= ops_energy ops (vadd x h)) ->
  solves (apply_ops ops (sys_empty n)) x.
Proof. exact ops_optimum_conv. Qed.

(* [F] finalize() only regularises rows that no net touched: a solution of the finalized system solves (M, b) *)
Theorem c17_finalize_keeps_equations : forall s x, sys_inv s -> solves (finalize s) x -> solves s x.
Proof. exact solves_finalize_weaken. Qed.

(* [F] MatrixCreator::normalize() (repair of finding F22, /repo 7251876): solve() hands finalize(normalize(s)) to Eigen; the
   multiplication by the power of two 2^-e does not change the solutions (the 1e-8 regularisation sits on rows without
   equations: sys_inv, which every assembled system satisfies) *)
Theorem c17_normalize_keeps_solution_set : forall s, sys_inv s -> forall x, solves (solver_input s) x <-> solves (finalize s) x.
Proof. exact normalize_solution_set. Qed.

(* [F] finding F25 (repair: no star point for a net whose pins are all on one cell): such a net adds nothing to the system, in
   every model; a circuit made of such nets assembles to the empty system, every row of which finalize() regularises *)
Theorem c17_single_cell_net_is_noop : forall n, single_cell (n_pins n) = true ->
  (forall m pl eps s, add_net_model m pl eps s n = s) /\ (forall s, add_star n s = s) /\
  (forall s, add_bipoint n s = s) /\ (forall s, add_clique n s = s).
Proof. exact single_cell_net_noop. Qed.

Theorem c17_single_cell_nets_regularised : forall nm, (forall n, In n (nm_nets nm) -> single_cell (n_pins n) = true) ->
  (forall m pl eps, create m nm pl eps = sys_empty (nm_cells nm)) /\ create_star0 nm = sys_empty (nm_cells nm) /\
  s_mat (finalize (sys_empty (nm_cells nm))) = reg_trips (repeat false (nm_cells nm)).
Proof. exact single_cell_nets_regularised. Qed.

(* [R] BEFORE the repair of F25 (create_star_old: a star point for every net of more than two pins): one movable cell with two
   nets on it: the rows of the cell and of the two star points are marked non-empty (no regularisation) and the finalized
   matrix annihilates (0, 1, 1, 1): singular; Eigen's conjugate gradient returns NaN for every cell on it (corpus/C17) *)
Theorem c17_star_single_cell_singular_refuted_before_repair :
  s_nz (create_star_old f25_nm [0; 0] 10) = [false; true; true; true] /\
  (forall i, (i < 4)%nat -> row_sum (Z.of_nat i) (s_mat (finalize (create_star_old f25_nm [0; 0] 10))) [0; 1; 1; 1] == 0) /\
  create Star f25_nm [0; 0] 10 = sys_empty 2.
Proof. exact star_single_cell_singular_before_repair. Qed.

(* [R] unchanged tree, netWeight_ is std::vector<int> (add_net_int truncates): all three clauses fail for a net of
   weight 1/2 between cell 0 and a fixed pin at 4 (finding F12) *)
Theorem c17_homogeneity_refuted_for_int_container :
  exists k cells offs w, 0 < k /\
    ~ sys_scaled k (create_star0 (add_net_int cells offs (k * w) (nm_empty 1))) (create_star0 (add_net_int cells offs w (nm_empty 1))).
Proof. exact truncating_homogeneity_refuted. Qed.

Theorem c17_solution_set_refuted_for_int_container :
  exists k cells offs w x, 0 < k /\
    solves (system_star0 (add_net_int cells offs w (nm_empty 1))) x /\
    ~ solves (system_star0 (add_net_int cells offs (k * w) (nm_empty 1))) x.
Proof. exact truncating_solution_set_refuted. Qed.

Theorem c17_least_squares_refuted_for_int_container :
  exists cells offs w x h,
    solves (system_star0 (add_net_int cells offs w (nm_empty 1))) x /\
    ~ star_energy (add_net cells offs w (nm_empty 1)) x <= star_energy (add_net cells offs w (nm_empty 1)) (vadd x h).
Proof. exact truncating_not_least_squares. Qed.

(* ---------------------------------------------------------------- non-vacuity: the hypotheses are satisfiable on
   non-trivial values (fractional weights below 1, fixed pins, a 3-pin net, a star point) *)

(* two cells; net A: cells 0,1 + fixed extent [0,8], weight 1/2; net B: cells 0,1,1, weight 3/4 *)
Definition ex_nets (k : Q) : list (list Z * list Q * option (Q * Q) * Q) :=
  [([0%Z; 1%Z], [0; 1], Some (0, 8), k * (1 # 2)); ([0%Z; 1%Z; 1%Z], [0; 0; 2], None, k * (3 # 4))].
Definition ex_nm := build_nm 2 (ex_nets 1).
Definition ex_nm5 := build_nm 2 (ex_nets (5 # 2)).

Example ex_ok : nm_ok ex_nm.
Proof. apply nm_okb_ok. vm_compute. reflexivity. Qed.

Example ex_add_net_stores_weight : nm_scaled (5 # 2) ex_nm5 ex_nm.
Proof. apply c17_add_net_stores_weight. repeat constructor; simpl; ring. Qed.

Example ex_assembly_homogeneous : sys_scaled (5 # 2) (create B2B ex_nm5 [3; 7] (1 # 10)) (create B2B ex_nm [3; 7] (1 # 10)).
Proof. apply (c17_assembly_homogeneous (5 # 2) ex_nm5 ex_nm ex_add_net_stores_weight). Qed.

Example ex_solution_set_invariant : forall x,
  solves (system_penalty LightStar ex_nm5 [3; 7] (1 # 10) [1; 2] [(5 # 2) * (1 # 3); (5 # 2) * 2] 1) x <->
  solves (system_penalty LightStar ex_nm [3; 7] (1 # 10) [1; 2] [1 # 3; 2] 1) x.
Proof.
  intros x. apply (c17_solution_set_invariant (5 # 2) ex_nm5 ex_nm); [reflexivity|exact ex_ok|exact ex_add_net_stores_weight| |simpl; auto].
  repeat constructor; ring.
Qed.

Example ex_pull : forall x i,
  row_sum i (s_mat (create_star0 ex_nm5)) x - nth (Z.to_nat i) (s_rhs (create_star0 ex_nm5)) 0 ==
  (5 # 2) * (row_sum i (s_mat (create_star0 ex_nm)) x - nth (Z.to_nat i) (s_rhs (create_star0 ex_nm)) 0).
Proof. apply (c17_pull_proportional_to_weight (5 # 2) ex_nm5 ex_nm ex_add_net_stores_weight). Qed.

(* cell 0 tied to a fixed pin at 4 with weight 1/2, cell 1 (offset 0) tied to cell 0 (offset 1) with weight 3/4: x = (4, 5) *)
Definition ex_bip := build_nm 2 [([0%Z], [0], Some (4, 4), 1 # 2); ([1%Z; 0%Z], [0; 1], None, 3 # 4)].
Example ex_bip_solves : solves (create_bipoint0 ex_bip) [4; 5].
Proof. apply solves_rows. intros [|[|i]] Hi; [vm_compute; reflexivity|vm_compute; reflexivity|vm_compute in Hi; lia]. Qed.
Example ex_bipoint_normal_equations : forall a b,
  bipoint_energy ex_bip (vadd [4; 5] [a; b]) == bipoint_energy ex_bip [4; 5] + lin (create_bipoint0 ex_bip) [a; b] [4; 5] + bipoint_energy (nm_flat ex_bip) [a; b].
Proof. intros. apply c17_bipoint_normal_equations; [apply nm_okb_ok; vm_compute| |]; reflexivity. Qed.
Example ex_bipoint_least_squares : forall a b, bipoint_energy ex_bip [4; 5] <= bipoint_energy ex_bip (vadd [4; 5] [a; b]).
Proof.
  intros. apply c17_bipoint_least_squares; try reflexivity; [apply nm_okb_ok; vm_compute; reflexivity| |exact ex_bip_solves].
  intros n [E|[E|[]]]; subst n; vm_compute; discriminate.
Qed.

(* converse on the same instance: whatever minimises the energy of ex_bip solves its system; instantiated at the
   minimiser (4, 5) the hypothesis is ex_bipoint_least_squares *)
Example ex_bipoint_least_squares_conv : solves (create_bipoint0 ex_bip) [4; 5].
Proof.
  apply c17_bipoint_least_squares_conv; try reflexivity; [apply nm_okb_ok; vm_compute; reflexivity| |].
  - intros n [E|[E|[]]]; subst n; vm_compute; discriminate.
  - intros [|a [|b [|c r]]] Hh; simpl in Hh; try discriminate. apply ex_bipoint_least_squares.
Qed.

(* one net of weight 1/2 with cell 0 and fixed pins at 0 and 6: three pins, one star point; x = 3, s = 3 *)
Definition ex_star := build_nm 1 [([0%Z], [0], Some (0, 6), 1 # 2)].
Example ex_star_solves : solves (create_star0 ex_star) [3; 3].
Proof. apply solves_rows. intros [|[|i]] Hi; [vm_compute; reflexivity|vm_compute; reflexivity|vm_compute in Hi; lia]. Qed.
Example ex_star_normal_equations : forall a b,
  star_energy ex_star (vadd [3; 3] [a; b]) == star_energy ex_star [3; 3] + lin (create_star0 ex_star) [a; b] [3; 3] + star_energy (nm_flat ex_star) [a; b].
Proof. intros. apply c17_star_normal_equations; [apply nm_okb_ok; vm_compute| |]; reflexivity. Qed.
Example ex_star_least_squares : forall a b, star_energy ex_star [3; 3] <= star_energy ex_star (vadd [3; 3] [a; b]).
Proof.
  intros. apply c17_star_least_squares; try reflexivity; [apply nm_okb_ok; vm_compute; reflexivity| |exact ex_star_solves].
  intros n [E|[]]; subst n; vm_compute; discriminate.
Qed.
Example ex_star_least_squares_conv : solves (create_star0 ex_star) [3; 3].
Proof.
  apply c17_star_least_squares_conv; try reflexivity; [apply nm_okb_ok; vm_compute; reflexivity| |].
  - intros n [E|[]]; subst n; vm_compute; discriminate.
  - intros [|a [|b [|c r]]] Hh; simpl in Hh; try discriminate. apply ex_star_least_squares.
Qed.
Example ex_addpin_sequence : forall a,
  ops_energy [mkOp 0 (-1) 0 4 (1 # 2)] [4] <= ops_energy [mkOp 0 (-1) 0 4 (1 # 2)] (vadd [4] [a]).
Proof.
  intros. apply (c17_addpin_sequence_least_squares 1); try reflexivity.
  - repeat constructor; simpl; lia.
  - intros o [E|[]]; subst o; vm_compute; discriminate.
  - apply solves_rows. intros [|i] Hi; [vm_compute; reflexivity|vm_compute in Hi; lia].
Qed.
Example ex_addpin_sequence_conv : solves (apply_ops [mkOp 0 (-1) 0 4 (1 # 2)] (sys_empty 1)) [4].
Proof.
  apply c17_addpin_sequence_least_squares_conv; try reflexivity.
  - repeat constructor; simpl; lia.
  - intros o [E|[]]; subst o; vm_compute; discriminate.
  - intros [|a [|b r]] Hh; simpl in Hh; try discriminate. apply ex_addpin_sequence.
Qed.
Example ex_finalize : solves (finalize (create_star0 ex_star)) [3; 3] -> solves (create_star0 ex_star) [3; 3].
Proof. apply c17_finalize_keeps_equations. apply create_star0_inv. apply nm_okb_ok. vm_compute. reflexivity. Qed.
(* the repaired addNet on the refuting witness: weight 1/2 is kept, the system for weight 1 is twice the one for 1/2 *)
Example ex_repaired_witness :
  sys_scaled 2 (create_star0 (add_net wit_cells wit_offs (2 * (1 # 2)) (nm_empty 1))) (create_star0 (add_net wit_cells wit_offs (1 # 2) (nm_empty 1))).
Proof. apply c17_assembly_homogeneous. apply add_net_scaled; [split; simpl; auto|reflexivity]. Qed.

(* ================================================================ "exactly for powers of two", in binary32 ===========
   Model: coq/QuadFloat.v -- the same assembly functions with every C++ `float` operator replaced by the correctly rounded
   IEEE-754 binary32 operation of Flocq (BinarySingleNaN, prec 24, emax 128, round to nearest even), in the operation
   order of net_model.cpp; proofs: coq/QuadFloatProofs.v; tie: checks/c17.py (FASM stream: the compiled assembly against
   this model evaluated by vm_compute, bit for bit).
   These theorems use Flocq over the real numbers of the standard library; Print Assumptions lists the standard
   library's axioms that the real numbers and Flocq bring in: ClassicalDedekindReals.sig_forall_dec,
   ClassicalDedekindReals.sig_not_dec, FunctionalExtensionality.functional_extensionality_dep, Classical_Prop.classic
   (no other axiom; the 16 theorems above stay closed under the global context).

   sc k x y           : x, y finite, B2R y = 2^k * B2R x, same sign (also of a zero) -- "y is x times 2^k, exactly"
   fsys_sc k s s'     : same rows/columns/order of the triplets, same initial guess and flags; every triplet value and
                        right-hand-side entry sc k
   fs_ok s (boolean computed along the assembly from the inputs): every rounded operation with an operand that depends
                        on a net weight or penalty strength returned a FINITE value that is an exact zero or of
                        magnitude > 2^-126 = FLT_MIN (no overflow, no result in the subnormal range, no underflow). *)

(* [F] round-to-nearest-even in binary32 commutes with the multiplication by 2^k when neither the argument nor its
   multiple is below 2^-126 (any k in Z, any real x) *)
Theorem c17_float_round_pow2 : forall (k : Z) (x : R),
  (bpow radix2 (-126) <= Rabs x)%R -> (bpow radix2 (-126) <= Rabs (bpow radix2 k * x))%R ->
  rnd32 (bpow radix2 k * x) = (bpow radix2 k * rnd32 x)%R.
Proof. exact rnd32_scale. Qed.

(* [F] hence each operation of the assembly that touches a scaled quantity maps exactly scaled operands to an exactly
   scaled result when the side condition holds in both runs: a * d, d * a, a / d (d the same in both runs), a + b, -a *)
Theorem c17_float_ops_pow2_exact : forall k a a' b b' d, sc k a a' -> sc k b b' ->
  (ok_mul a d (fmul a d) = true -> ok_mul a' d (fmul a' d) = true -> sc k (fmul a d) (fmul a' d)) /\
  (ok_mul a d (fmul d a) = true -> ok_mul a' d (fmul d a') = true -> sc k (fmul d a) (fmul d a')) /\
  (ok_div a d (fdiv a d) = true -> ok_div a' d (fdiv a' d) = true -> sc k (fdiv a d) (fdiv a' d)) /\
  (ok_add (fadd a b) = true -> ok_add (fadd a' b') = true -> sc k (fadd a b) (fadd a' b')) /\
  sc k (fopp a) (fopp a').
Proof. exact fops_pow2_exact. Qed.

(* [F] THE CLAUSE, for the assembly: nm' has the nets of nm with every weight multiplied by 2^k exactly (fnm_sc), the
   penalty strengths likewise; if the side condition holds in the run on nm and in the run on nm', then every triplet
   and every right-hand-side entry of the system built by createStar(topo), addBipoint/addClique on every net,
   create(topo, pl, eps, model) for B2B/Star/Clique/LightStar around ANY placement (any floats, also NaN/infinite: they
   are the same in both runs), and addPenalty after it, is multiplied by 2^k EXACTLY (same pattern, same initial guess).
   No bound on k, on the number of nets/pins or on the values. *)
Theorem c17_float_assembly_pow2_exact : forall k nm nm', fnm_sc k nm nm' ->
  (fs_ok (fcreate_star0 nm) = true -> fs_ok (fcreate_star0 nm') = true -> fsys_sc k (fcreate_star0 nm) (fcreate_star0 nm')) /\
  (fs_ok (fcreate_bipoint0 nm) = true -> fs_ok (fcreate_bipoint0 nm') = true -> fsys_sc k (fcreate_bipoint0 nm) (fcreate_bipoint0 nm')) /\
  (fs_ok (fcreate_clique0 nm) = true -> fs_ok (fcreate_clique0 nm') = true -> fsys_sc k (fcreate_clique0 nm) (fcreate_clique0 nm')) /\
  (forall m pl eps, fs_ok (fcreate m nm pl eps) = true -> fs_ok (fcreate m nm' pl eps) = true ->
     fsys_sc k (fcreate m nm pl eps) (fcreate m nm' pl eps)) /\
  (forall m pl eps tg st st' cutoff, Forall2 (sc k) st st' ->
     fs_ok (fadd_penalty pl tg st cutoff (fcreate m nm pl eps)) = true ->
     fs_ok (fadd_penalty pl tg st' cutoff (fcreate m nm' pl eps)) = true ->
     fsys_sc k (fadd_penalty pl tg st cutoff (fcreate m nm pl eps)) (fadd_penalty pl tg st' cutoff (fcreate m nm' pl eps))).
Proof. exact fassembly_pow2_exact. Qed.

(* [F] how the side condition is discharged: an operation satisfies it when its EXACT result is 0 or of magnitude in
   [2^-125, 2^127] (finite operands); so fs_ok holds whenever every product weight * offset difference, every quotient
   weight / distance (or / nb, / (nb-1), / (nb (nb-1))) and every partial sum of a right-hand-side entry is 0 or in that
   range, in both runs *)
Theorem c17_float_side_condition_by_range : forall a b d : f32, is_finite a = true -> is_finite b = true -> is_finite d = true ->
  ((B2R a * B2R d = 0 \/ bpow radix2 (-125) <= Rabs (B2R a * B2R d) <= bpow radix2 127)%R ->
     ok_mul a d (fmul a d) = true /\ ok_mul a d (fmul d a) = true) /\
  (B2R d <> 0%R -> (B2R a = 0 \/ bpow radix2 (-125) <= Rabs (B2R a / B2R d) <= bpow radix2 127)%R -> ok_div a d (fdiv a d) = true) /\
  ((B2R a + B2R b = 0 \/ bpow radix2 (-125) <= Rabs (B2R a + B2R b) <= bpow radix2 127)%R -> ok_add (fadd a b) = true).
Proof. exact fops_side_condition_by_range. Qed.

(* [F] bit patterns: "exactly 2^k times" means ldexp(., k): the scaled system is the original one with std::ldexp(v, k)
   applied to every triplet value and right-hand-side entry *)
Theorem c17_float_scaled_system_is_ldexp :
  (forall k v v', sc k v v' -> v' = fldexp v k) /\ (forall k s s', fsys_sc k s s' -> fsys_ldexp k s s').
Proof. exact fscaled_is_ldexp. Qed.

(* [F] finalize() alone (before normalize(), i.e. what the solver received before the repair of F22; with normalize() see
   c17_float_solver_input_pow2_identical): the two finalized systems are (A + D, b) and (2^k A + D, 2^k b) with the SAME diagonal D of
   1.0e-8f entries on the rows that no addPin call touched (the regularisation is not scaled) *)
Theorem c17_float_finalize_regularisation_not_scaled : forall k s s', fsys_sc k s s' ->
  exists reg, fs_mat (ffinalize s) = fs_mat s ++ reg /\ fs_mat (ffinalize s') = fs_mat s' ++ reg /\
              reg = freg_trips (fs_nz s) /\
              Forall2 (sc k) (fs_rhs (ffinalize s)) (fs_rhs (ffinalize s')) /\ fs_init (ffinalize s') = fs_init (ffinalize s).
Proof. exact ffinalize_sc. Qed.

(* [F] normalize() in binary32 (exact ldexp scaling by 2^-e, e = ilogb(max|b_i|) raised to ilogb(max|A_ij|) - 64): two exactly
   2^k-scaled systems with a non-zero right-hand side are normalised to THE SAME system, bit for bit; so is what solve()
   hands to Eigen (fsolver_input = ffinalize o fnormalize) *)
Theorem c17_float_normalize_scaled_identical : forall k s s', fsys_sc k s s' -> fs_ok s' = fs_ok s ->
  fltb fzero (fmaxabs (fs_rhs s)) = true -> fnormalize s' = fnormalize s /\ fsolver_input s' = fsolver_input s.
Proof. exact fnormalize_scaled_identical. Qed.

(* [F] the strongest form of the power-of-two clause up to Eigen: inside the window of c17_float_assembly_pow2_exact (fs_ok in
   both runs) and for a non-zero right-hand side, MatrixCreator::solve passes THE SAME triplets, right-hand side and initial
   guess to the conjugate gradient for weights/strengths w and 2^k w (for b = 0 Eigen returns x = 0 in both runs) *)
Theorem c17_float_solver_input_pow2_identical : forall k nm nm', fnm_sc k nm nm' ->
  (forall m pl eps, fs_ok (fcreate m nm pl eps) = true -> fs_ok (fcreate m nm' pl eps) = true ->
     fltb fzero (fmaxabs (fs_rhs (fcreate m nm pl eps))) = true ->
     fsolver_input (fcreate m nm' pl eps) = fsolver_input (fcreate m nm pl eps)) /\
  (forall m pl eps tg st st' cutoff, Forall2 (sc k) st st' ->
     fs_ok (fadd_penalty pl tg st cutoff (fcreate m nm pl eps)) = true ->
     fs_ok (fadd_penalty pl tg st' cutoff (fcreate m nm' pl eps)) = true ->
     fltb fzero (fmaxabs (fs_rhs (fadd_penalty pl tg st cutoff (fcreate m nm pl eps)))) = true ->
     fsolver_input (fadd_penalty pl tg st' cutoff (fcreate m nm' pl eps)) = fsolver_input (fadd_penalty pl tg st cutoff (fcreate m nm pl eps))) /\
  (fs_ok (fcreate_star0 nm) = true -> fs_ok (fcreate_star0 nm') = true ->
     fltb fzero (fmaxabs (fs_rhs (fcreate_star0 nm))) = true -> fsolver_input (fcreate_star0 nm') = fsolver_input (fcreate_star0 nm)).
Proof. exact fsolver_input_pow2_identical. Qed.

(* [F] finding F25 in binary32: a net on a single cell adds nothing (values and flag) in the Star, Clique and LightStar models and
   in the builders without placement (B2B: minPin() returns cell -1 when a pin position is NaN; not covered) *)
Theorem c17_float_single_cell_net_is_noop : forall n, fsingle_cell (fn_pins n) = true ->
  (forall m pl eps s, m <> B2B -> fadd_net_model m pl eps s n = s) /\ (forall s, fadd_star n s = s) /\
  (forall s, fadd_bipoint n s = s) /\ (forall s, fadd_clique n s = s).
Proof. exact fsingle_cell_net_noop. Qed.

(* [R] finding F30: the penalty anchor lost in binary32.  Three cells WITHOUT any fixed pin, two nets of weight 1 between cells 0 and 1,
   lower-bound placement at 0, penalty targets around 2^22 (strength 1/16, so strength / distance = 1.5e-8 against a net stiffness of 1):
   in the matrix that Eigen builds from the triplets handed over by solve() (duplicates summed in binary32: fentry) the two penalties
   have VANISHED from the diagonal: rows 0 and 1 are (a, -a, 0) and (-a, a, 0) while b_0, b_1 > 0: (1,1,0).M = 0 and (1,1,0).b > 0, the
   system has no solution (on the C++ the single-precision conjugate gradient returns NaN for every cell: corpus/C17).  For every net
   model.  Over Q the same system keeps its anchors.  Repaired in /repo by solving in double precision (the entries stay binary32) *)
Theorem c17_float_penalty_anchor_lost_refuted : forall m,
  let M := fs_mat (f30_fsys m) in let b := fs_rhs (f30_fsys m) in
  fpositive (fentry 0 0 M) = true /\
  B2SF (fentry 0 1 M) = B2SF (fopp (fentry 0 0 M)) /\ B2SF (fentry 1 0 M) = B2SF (fopp (fentry 0 0 M)) /\
  B2SF (fentry 1 1 M) = B2SF (fentry 0 0 M) /\
  fis_zero (fentry 0 2 M) = true /\ fis_zero (fentry 1 2 M) = true /\ fis_zero (fentry 2 0 M) = true /\ fis_zero (fentry 2 1 M) = true /\
  fpositive (nth 0 b fzero) = true /\ fpositive (nth 1 b fzero) = true /\
  (0 < row_sum 0 (s_mat (f30_sys m)) [1; 1; 0] + row_sum 1 (s_mat (f30_sys m)) [1; 1; 0])%Q.
Proof. exact fpenalty_anchor_lost. Qed.

(* [R] the side condition cannot be dropped: underflow breaks exactness.  One cell, one net {cell 0, fixed pin at 0.375}
   of weight (2^23+1) 2^-23, k = -126 (the scaled weight (2^23+1) 2^-149 is a binary32 number): the product
   weight * 0.375 of the scaled run falls below 2^-126 and is rounded at 2^-149 instead of 24 bits.  This is NOT a
   violation of C17 by /repo for weights of moderate size; it delimits the clause (common factors down to about
   2^-126 / (smallest weight * smallest distance)) *)
Theorem c17_float_pow2_exact_refuted_under_underflow :
  fnm_sc (-126) (uf_nm uf_w) (uf_nm uf_w') /\
  fs_ok (fcreate_bipoint0 (uf_nm uf_w)) = true /\ fs_ok (fcreate_bipoint0 (uf_nm uf_w')) = false /\
  ~ fsys_sc (-126) (fcreate_bipoint0 (uf_nm uf_w)) (fcreate_bipoint0 (uf_nm uf_w')).
Proof. exact fassembly_underflow_witness. Qed.

(* ---------------------------------------------------------------- non-vacuity (binary32): three cells; net A: cells 0, 1, 2
   at offsets 0.5, 0, -1.25, weight 0.3f; net B: cell 1 at offset 0.1f and a fixed pin at 7.3f, weight 1.7f; placement
   (1.25, 7.5, -3.1f), epsilon 0.1f; penalty targets (2, 3, 4), strengths (0.3f, 1.7f, 0.1f), cutoff 0.1f; k = 5 *)
Definition exf_pins1 : list (Z * f32) := [(0%Z, f_of_me 1 (-1)); (1%Z, fzero); (2%Z, f_of_me (-5) (-2))].
Definition exf_pins2 : list (Z * f32) := [(1%Z, f_of_me 13421773 (-27)); ((-1)%Z, f_of_me 15309210 (-21))].
Definition exf_nm (k : Z) : fnetmodel :=
  fbuild_nm 3 [(f_of_me 10066330 (-25 + k), exf_pins1); (f_of_me 14260634 (-23 + k), exf_pins2)].
Definition exf_pl : list f32 := [f_of_me 5 (-2); f_of_me 15 (-1); f_of_me (-13002342) (-22)].
Definition exf_eps : f32 := f_of_me 13421773 (-27).
Definition exf_tg : list f32 := [f_of_Z 2; f_of_Z 3; f_of_Z 4].
Definition exf_st (k : Z) : list f32 := [f_of_me 10066330 (-25 + k); f_of_me 14260634 (-23 + k); f_of_me 13421773 (-27 + k)].

Example exf_scaled : fnm_sc 5 (exf_nm 0) (exf_nm 5).
Proof.
  split; [reflexivity|]. constructor; [|constructor; [|constructor]]; (split; [reflexivity|]).
  - apply (sc_by_SF 5 _ _ false 10066330 (-25)); vm_compute; reflexivity.
  - apply (sc_by_SF 5 _ _ false 14260634 (-23)); vm_compute; reflexivity.
Qed.
Example exf_strengths_scaled : Forall2 (sc 5) (exf_st 0) (exf_st 5).
Proof.
  constructor; [|constructor; [|constructor; [|constructor]]].
  - apply (sc_by_SF 5 _ _ false 10066330 (-25)); vm_compute; reflexivity.
  - apply (sc_by_SF 5 _ _ false 14260634 (-23)); vm_compute; reflexivity.
  - apply (sc_by_SF 5 _ _ false 13421773 (-27)); vm_compute; reflexivity.
Qed.
Example exf_assembly_star0 : fsys_sc 5 (fcreate_star0 (exf_nm 0)) (fcreate_star0 (exf_nm 5)).
Proof. apply (c17_float_assembly_pow2_exact 5 _ _ exf_scaled); vm_compute; reflexivity. Qed.
Example exf_assembly_models : forall m, fsys_sc 5 (fcreate m (exf_nm 0) exf_pl exf_eps) (fcreate m (exf_nm 5) exf_pl exf_eps).
Proof. intros m. apply (c17_float_assembly_pow2_exact 5 _ _ exf_scaled); destruct m; vm_compute; reflexivity. Qed.
Example exf_assembly_penalty : forall m,
  fsys_sc 5 (fadd_penalty exf_pl exf_tg (exf_st 0) exf_eps (fcreate m (exf_nm 0) exf_pl exf_eps))
            (fadd_penalty exf_pl exf_tg (exf_st 5) exf_eps (fcreate m (exf_nm 5) exf_pl exf_eps)).
Proof.
  intros m. apply (c17_float_assembly_pow2_exact 5 _ _ exf_scaled); [exact exf_strengths_scaled| |]; destruct m; vm_compute; reflexivity.
Qed.
(* the rounding is real on this instance: the B2B system has entries that are not dyadic multiples of the inputs, and
   its bit pattern at weights * 32 is ldexp(., 5) of the one at weights * 1 *)
Example exf_bits : fsys_ldexp 5 (fcreate B2B (exf_nm 0) exf_pl exf_eps) (fcreate B2B (exf_nm 5) exf_pl exf_eps).
Proof. apply c17_float_scaled_system_is_ldexp. apply exf_assembly_models. Qed.
Example exf_round_pow2 : rnd32 (bpow radix2 7 * 3)%R = (bpow radix2 7 * rnd32 3)%R.
Proof.
  apply c17_float_round_pow2.
  - rewrite Rabs_pos_eq by lra. apply Rle_trans with (bpow radix2 0); [apply bpow_le; lia|simpl; lra].
  - rewrite Rabs_pos_eq by (simpl; lra). apply Rle_trans with (bpow radix2 0); [apply bpow_le; lia|simpl; lra].
Qed.

(* the side condition discharged from ranges on a non-trivial instance: 2 * 0.5 = 1, 2 / 0.5 = 4, 2 + 0.5 = 2.5 *)
Example exf_side_condition :
  ok_mul ftwo fhalf (fmul ftwo fhalf) = true /\ ok_div ftwo fhalf (fdiv ftwo fhalf) = true /\ ok_add (fadd ftwo fhalf) = true.
Proof.
  assert (E2 : B2R ftwo = 2%R) by (unfold ftwo, B2R, F2R; simpl; lra).
  assert (Eh : B2R fhalf = (/ 2)%R) by (unfold fhalf, B2R, F2R; simpl; lra).
  assert (L : (bpow radix2 (-125) <= 1)%R) by (apply Rle_trans with (bpow radix2 0); [apply bpow_le; lia|simpl; lra]).
  assert (U : (4 <= bpow radix2 127)%R) by (apply Rle_trans with (bpow radix2 2); [simpl; lra|apply bpow_le; lia]).
  destruct (c17_float_side_condition_by_range ftwo fhalf fhalf eq_refl eq_refl eq_refl) as (M & D & A).
  split; [|split].
  - apply M. right. rewrite E2, Eh. replace (2 * / 2)%R with 1%R by lra. rewrite Rabs_R1. lra.
  - apply D; [rewrite Eh; lra|]. right. rewrite E2, Eh. replace (2 / / 2)%R with 4%R by (unfold Rdiv; rewrite Rinv_inv; lra).
    rewrite Rabs_pos_eq by lra. lra.
  - apply A. right. rewrite E2, Eh. rewrite Rabs_pos_eq by lra. lra.
Qed.

(* normalize(), F25 *)
Example ex_normalize : forall x, solves (solver_input (create B2B ex_nm [3; 7] (1 # 10))) x <-> solves (system B2B ex_nm [3; 7] (1 # 10)) x.
Proof. intros x. apply c17_normalize_keeps_solution_set. apply create_inv. exact ex_ok. Qed.
Example ex_normalize_scales : norm_exp (create B2B ex_nm [3; 7] (1 # 10)) = Some 3%Z.
Proof. vm_compute. reflexivity. Qed.
Example ex_single_cell : create LightStar f25_nm [0; 0] 10 = sys_empty 2.
Proof. apply c17_single_cell_nets_regularised. intros n [<-|[<-|[]]]; reflexivity. Qed.
Example exf_solver_input : forall m, fsolver_input (fcreate m (exf_nm 5) exf_pl exf_eps) = fsolver_input (fcreate m (exf_nm 0) exf_pl exf_eps).
Proof. intros m. apply (c17_float_solver_input_pow2_identical 5 _ _ exf_scaled); destruct m; vm_compute; reflexivity. Qed.
Example exf_single_cell : fadd_net_model Star exf_pl exf_eps (fsys_empty 3) (mkFNet (f_of_Z 1) [(1%Z, fzero); (1%Z, f_of_Z 2); (1%Z, f_of_Z (-3))]) = fsys_empty 3.
Proof. apply c17_float_single_cell_net_is_noop; [reflexivity|discriminate]. Qed.

Print Assumptions c17_assembly_homogeneous.
Print Assumptions c17_add_net_stores_weight.
Print Assumptions c17_solution_set_invariant.
Print Assumptions c17_pull_proportional_to_weight.
Print Assumptions c17_bipoint_normal_equations.
Print Assumptions c17_bipoint_least_squares.
Print Assumptions c17_bipoint_least_squares_conv.
Print Assumptions c17_star_normal_equations.
Print Assumptions c17_star_least_squares.
Print Assumptions c17_star_least_squares_conv.
Print Assumptions c17_addpin_sequence_least_squares.
Print Assumptions c17_addpin_sequence_least_squares_conv.
Print Assumptions c17_finalize_keeps_equations.
Print Assumptions c17_homogeneity_refuted_for_int_container.
Print Assumptions c17_solution_set_refuted_for_int_container.
Print Assumptions c17_least_squares_refuted_for_int_container.
Print Assumptions c17_float_round_pow2.
Print Assumptions c17_float_ops_pow2_exact.
Print Assumptions c17_float_assembly_pow2_exact.
Print Assumptions c17_float_scaled_system_is_ldexp.
Print Assumptions c17_float_finalize_regularisation_not_scaled.
Print Assumptions c17_float_pow2_exact_refuted_under_underflow.
Print Assumptions c17_float_side_condition_by_range.
Print Assumptions c17_normalize_keeps_solution_set.
Print Assumptions c17_single_cell_net_is_noop.
Print Assumptions c17_single_cell_nets_regularised.
Print Assumptions c17_star_single_cell_singular_refuted_before_repair.
Print Assumptions c17_float_normalize_scaled_identical.
Print Assumptions c17_float_solver_input_pow2_identical.
Print Assumptions c17_float_single_cell_net_is_noop.
Print Assumptions c17_float_penalty_anchor_lost_refuted.
