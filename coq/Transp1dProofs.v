(* C14 -- proofs about the model of transportation_1d.cpp (coq/Transp1d.v).
   A. prefix sums            B. computeSolution: interval sweep (sums, visited pairs)
   C. flushPositions / run: invariants of the positions p
   D. sorter: permutation facts, plans mapped back to the original indices, solve_valid
   E. computeAssignment / convertAssignmentBack at machine level (no out-of-bounds access), assign theorems,
      F11 witness for the unchanged convertAssignmentBack
   Termination of the push loop is in Transp1dTerm.v, the optimality certificate in Transp1dCert.v. *)
From Coq Require Import List ZArith Lia Bool Arith.
Import ListNotations.
Require Import CV.Transp1d.
Local Open Scope Z_scope.

(* ================================================================== A. helpers, prefix sums *)
Lemma zn_nth_error l i x : nth_error l i = Some x -> zn l i = x.
Proof. intros H. unfold zn. apply nth_error_nth. exact H. Qed.

Lemma nth_error_zn l i : (i < length l)%nat -> nth_error l i = Some (zn l i).
Proof. intros H. unfold zn. apply nth_error_nth'. exact H. Qed.

Lemma nth_error_nn l i : (i < length l)%nat -> nth_error l i = Some (nn l i).
Proof. intros H. unfold nn. apply nth_error_nth'. exact H. Qed.

Lemma psums_length l : forall a, length (psums a l) = S (length l).
Proof. induction l as [|x r IH]; intros a; cbn [psums length]; [reflexivity|]. rewrite IH. reflexivity. Qed.

Lemma psums_0 l a : zn (psums a l) 0 = a.
Proof. destruct l; reflexivity. Qed.

Lemma psums_S l : forall a k, (k < length l)%nat -> zn (psums a l) (S k) = zn (psums a l) k + zn l k.
Proof.
  induction l as [|x r IH]; intros a k Hk; cbn [length] in Hk; [lia|].
  destruct k as [|k].
  - cbn [psums]. unfold zn at 1 2. cbn [nth]. fold (zn (psums (a + x) r) 0). rewrite psums_0. reflexivity.
  - cbn [psums]. unfold zn at 1 2 3. cbn [nth]. apply (IH (a + x) k). lia.
Qed.

Lemma total_fold l : forall a, fold_left Z.add l a = a + fold_left Z.add l 0.
Proof. induction l as [|x r IH]; intros a; cbn [fold_left]; [lia|]. rewrite IH, (IH (0 + x)). lia. Qed.

Lemma total_cons x l : total (x :: l) = x + total l.
Proof. unfold total. cbn [fold_left]. rewrite total_fold. lia. Qed.

Lemma psums_last l : forall a, zn (psums a l) (length l) = a + total l.
Proof.
  induction l as [|x r IH]; intros a.
  - cbn. unfold total. cbn. lia.
  - cbn [length psums]. unfold zn. cbn [nth]. fold (zn (psums (a + x) r) (length r)). rewrite IH, total_cons. lia.
Qed.

(* ================================================================== B. computeSolution *)
Fixpoint src_sum (sol : list triple) (i : nat) : Z :=
  match sol with [] => 0 | (i', _, a) :: r => (if Nat.eqb i' i then a else 0) + src_sum r i end.
Fixpoint snk_sum (sol : list triple) (j : nat) : Z :=
  match sol with [] => 0 | (_, j', a) :: r => (if Nat.eqb j' j then a else 0) + snk_sum r j end.

Lemma src_sum_app a b i : src_sum (a ++ b) i = src_sum a i + src_sum b i.
Proof. induction a as [|[[i' j'] x] r IH]; cbn [app src_sum]; [lia|]. rewrite IH. lia. Qed.
Lemma snk_sum_app a b j : snk_sum (a ++ b) j = snk_sum a j + snk_sum b j.
Proof. induction a as [|[[i' j'] x] r IH]; cbn [app snk_sum]; [lia|]. rewrite IH. lia. Qed.

(* the interval of source i on the cumulative-demand axis: [bI, eI) *)
Definition bI (P : sprob) (p : list Z) (i : nat) : Z := Sx P i + zn p i.
Definition eI (P : sprob) (p : list Z) (i : nat) : Z := Sx P (i + 1) + zn p i.
(* overlap of source i and sink j *)
Definition ovl (P : sprob) (p : list Z) (i j : nat) : Z :=
  Z.min (eI P p i) (Dx P (j + 1)) - Z.max (bI P p i) (Dx P j).

(* what computeSolution needs to know about the positions: disjoint, ordered source intervals of
   positive length inside [0, D_m); sinks of positive length tiling [0, D_m) *)
Record geom (P : sprob) (p : list Z) : Prop := {
  g_s : forall i, (i < length p)%nat -> bI P p i < eI P p i;
  g_mono : forall i, (i + 1 < length p)%nat -> eI P p i <= bI P p (i + 1);
  g_last : forall i, (i < length p)%nat -> eI P p i <= Dx P (n_snk P);
  g_b0 : forall i, (i < length p)%nat -> 0 <= bI P p i;
  g_D0 : Dx P 0 = 0;
  g_d : forall j, (j < n_snk P)%nat -> Dx P j < Dx P (j + 1) }.

Section Sweep.
Variables (P : sprob) (p : list Z).
Hypothesis G : geom P p.
Notation n := (length p).
Notation m := (n_snk P).
Notation b := (bI P p).
Notation e := (eI P p).
Notation D := (Dx P).

Lemma e_le_b i k : (i < k)%nat -> (k < n)%nat -> e i <= b k.
Proof.
  intros Hik Hk. induction k as [|k IH]; [lia|].
  destruct (Nat.eq_dec i k) as [->|Hne].
  - replace (S k) with (k + 1)%nat by lia. apply (g_mono _ _ G). lia.
  - assert (e i <= b k) by (apply IH; lia).
    assert (b k < e k) by (apply (g_s _ _ G); lia).
    assert (e k <= b (k + 1)) by (apply (g_mono _ _ G); lia).
    replace (S k) with (k + 1)%nat by lia. lia.
Qed.

Lemma D_mono j k : (j <= k)%nat -> (k <= m)%nat -> D j <= D k.
Proof.
  intros Hjk Hk. induction k as [|k IH].
  - replace j with O by lia. lia.
  - destruct (Nat.eq_dec j (S k)) as [->|Hne]; [lia|].
    assert (D j <= D k) by (apply IH; lia).
    assert (D k < D (k + 1)) by (apply (g_d _ _ G); lia).
    replace (S k) with (k + 1)%nat by lia. lia.
Qed.

Lemma sweep_valid_triples : forall fuel i j i' j' a,
  In (i', j', a) (sweep P p fuel i j) -> (i' < n)%nat /\ (j' < m)%nat /\ 0 < a /\ a = ovl P p i' j' /\ (i <= i')%nat /\ (j <= j')%nat.
Proof.
  induction fuel as [|f IH]; intros i j i' j' a H; cbn [sweep] in H; [contradiction|].
  destruct (Nat.ltb i n && Nat.ltb j m) eqn:C; [|contradiction].
  apply andb_prop in C. destruct C as [C1 C2]. apply Nat.ltb_lt in C1, C2.
  apply in_app_or in H. destruct H as [H|H].
  - fold (b i) in H. fold (e i) in H.
    destruct (0 <? Z.min (e i) (D (j + 1)) - Z.max (b i) (D j)) eqn:Ca; [|contradiction].
    destruct H as [H|[]]. inversion H; subst. apply Z.ltb_lt in Ca. unfold ovl. repeat split; try lia.
  - fold (e i) in H. destruct (e i <? D (j + 1)).
    + apply IH in H. intuition lia.
    + apply IH in H. intuition lia.
Qed.

(* the sums of what the sweep emits from state (i, j) *)
Lemma sweep_sums : forall fuel i j,
  (n - i + (m - j) <= fuel)%nat -> (i <= n)%nat -> (j <= m)%nat ->
  ((i < n)%nat -> D j <= e i) ->
  let out := sweep P p fuel i j in
  (forall i', (i' < i)%nat -> src_sum out i' = 0) /\
  ((i < n)%nat -> src_sum out i = e i - Z.max (b i) (D j)) /\
  (forall i', (i < i')%nat -> (i' < n)%nat -> src_sum out i' = e i' - b i') /\
  (forall j', (j' < j)%nat -> snk_sum out j' = 0) /\
  ((j < m)%nat -> (i < n)%nat -> snk_sum out j <= Z.max 0 (D (j + 1) - Z.max (D j) (b i))) /\
  ((i = n)%nat -> forall j', snk_sum out j' = 0) /\
  (forall j', (j < j')%nat -> (j' < m)%nat -> snk_sum out j' <= D (j' + 1) - D j').
Proof.
  induction fuel as [|f IH]; intros i j Hf Hi Hj Hinv out.
  - (* no fuel: i = n and j = m *)
    subst out. cbn [sweep src_sum snk_sum].
    assert (i = n) by lia. assert (j = m) by lia.
    repeat split; intros; try lia.
  - subst out. cbn [sweep].
    destruct (Nat.ltb i n && Nat.ltb j m) eqn:C.
    + apply andb_prop in C. destruct C as [C1 C2]. apply Nat.ltb_lt in C1, C2.
      fold (b i). fold (e i).
      set (a := Z.min (e i) (D (j + 1)) - Z.max (b i) (D j)).
      set (emit := if 0 <? a then [(i, j, a)] else []).
      assert (Hes : forall i', src_sum emit i' = if Nat.eqb i i' then Z.max 0 a else 0).
      { intros i'. subst emit. destruct (0 <? a) eqn:Ca; cbn [src_sum].
        - apply Z.ltb_lt in Ca. destruct (Nat.eqb i i'); lia.
        - apply Z.ltb_ge in Ca. destruct (Nat.eqb i i'); lia. }
      assert (Hek : forall j', snk_sum emit j' = if Nat.eqb j j' then Z.max 0 a else 0).
      { intros j'. subst emit. destruct (0 <? a) eqn:Ca; cbn [snk_sum].
        - apply Z.ltb_lt in Ca. destruct (Nat.eqb j j'); lia.
        - apply Z.ltb_ge in Ca. destruct (Nat.eqb j j'); lia. }
      assert (Hbi : b i < e i) by (apply (g_s _ _ G); lia).
      assert (Hei : e i <= D m) by (apply (g_last _ _ G); lia).
      assert (Hdj : D j < D (j + 1)) by (apply (g_d _ _ G); lia).
      specialize (Hinv C1).
      destruct (e i <? D (j + 1)) eqn:Cmp.
      * (* the source ends first: i+1 *)
        apply Z.ltb_lt in Cmp.
        assert (Hinv' : (i + 1 < n)%nat -> D j <= e (i + 1)).
        { intros H1. assert (e i <= b (i + 1)) by (apply (g_mono _ _ G); lia).
          assert (b (i + 1) < e (i + 1)) by (apply (g_s _ _ G); lia). lia. }
        destruct (IH (i + 1)%nat j ltac:(lia) ltac:(lia) ltac:(lia) Hinv') as (R1 & R2 & R3 & R4 & R5 & R5' & R6).
        repeat split.
        -- intros i' Hi'. rewrite src_sum_app, Hes, R1 by lia. destruct (Nat.eqb_spec i i'); lia.
        -- intros _. rewrite src_sum_app, Hes, R1 by lia. rewrite Nat.eqb_refl. subst a. lia.
        -- intros i' H1 H2. rewrite src_sum_app, Hes. destruct (Nat.eqb_spec i i'); [lia|].
           destruct (Nat.eq_dec i' (i + 1)) as [->|Hne].
           ++ rewrite R2 by lia. assert (e i <= b (i + 1)) by (apply (g_mono _ _ G); lia). lia.
           ++ rewrite R3 by lia. lia.
        -- intros j' Hj'. rewrite snk_sum_app, Hek, R4 by lia. destruct (Nat.eqb_spec j j'); lia.
        -- intros _ _. rewrite snk_sum_app, Hek, Nat.eqb_refl.
           destruct (Nat.eq_dec (i + 1) n) as [E|E].
           ++ rewrite (R5' E). subst a. lia.
           ++ assert (e i <= b (i + 1)) by (apply (g_mono _ _ G); lia).
              specialize (R5 C2 ltac:(lia)). subst a. lia.
        -- intros E. lia.
        -- intros j' H1 H2. rewrite snk_sum_app, Hek. destruct (Nat.eqb_spec j j'); [lia|].
           specialize (R6 j' H1 H2). lia.
      * (* the sink ends first: j+1 *)
        apply Z.ltb_ge in Cmp.
        destruct (IH i (j + 1)%nat ltac:(lia) ltac:(lia) ltac:(lia) ltac:(intros _; lia)) as (R1 & R2 & R3 & R4 & R5 & R5' & R6).
        repeat split.
        -- intros i' Hi'. rewrite src_sum_app, Hes, R1 by lia. destruct (Nat.eqb_spec i i'); lia.
        -- intros _. rewrite src_sum_app, Hes, R2 by lia. rewrite Nat.eqb_refl. subst a. lia.
        -- intros i' H1 H2. rewrite src_sum_app, Hes, R3 by lia. destruct (Nat.eqb_spec i i'); lia.
        -- intros j' Hj'. rewrite snk_sum_app, Hek, R4 by lia. destruct (Nat.eqb_spec j j'); lia.
        -- intros _ _. rewrite snk_sum_app, Hek, Nat.eqb_refl, R4 by lia. subst a. lia.
        -- intros E. lia.
        -- intros j' H1 H2. rewrite snk_sum_app, Hek. destruct (Nat.eqb_spec j j'); [lia|].
           destruct (Nat.eq_dec j' (j + 1)) as [->|Hne].
           ++ assert (D (j + 1) < D (j + 1 + 1)) by (apply (g_d _ _ G); lia).
              specialize (R5 ltac:(lia) C1). lia.
           ++ specialize (R6 j' ltac:(lia) H2). lia.
    + (* i = n or j = m: nothing is emitted *)
      cbn [src_sum snk_sum].
      apply andb_false_iff in C.
      repeat split; intros; try lia.
      * (* source i still open: then j = m and e i = D m *)
        assert (j = m). { destruct C as [C|C]; apply Nat.ltb_ge in C; lia. }
        subst j. assert (e i <= D m) by (apply (g_last _ _ G); lia).
        assert (b i < e i) by (apply (g_s _ _ G); lia). specialize (Hinv ltac:(lia)). lia.
      * (* a later source would not fit *)
        assert (j = m). { destruct C as [C|C]; apply Nat.ltb_ge in C; lia. }
        subst j. assert (e i <= D m) by (apply (g_last _ _ G); lia). specialize (Hinv ltac:(lia)).
        assert (e i <= b i') by (apply e_le_b; lia).
        assert (e i' <= D m) by (apply (g_last _ _ G); lia).
        assert (b i' < e i') by (apply (g_s _ _ G); lia). lia.
      * assert (D j' < D (j' + 1)) by (apply (g_d _ _ G); lia). lia.
Qed.

(* every pair (source, sink) whose intervals overlap is emitted *)
Lemma sweep_visits : forall fuel i j k j',
  (n - i + (m - j) <= fuel)%nat ->
  ((i < n)%nat -> D j <= e i) ->
  (i <= k)%nat -> (k < n)%nat -> (j <= j')%nat -> (j' < m)%nat ->
  0 < ovl P p k j' ->
  In (k, j', ovl P p k j') (sweep P p fuel i j).
Proof.
  induction fuel as [|f IH]; intros i j k j' Hf Hinv Hik Hk Hjj Hj' Ho; [lia|].
  cbn [sweep].
  assert (C1 : (i < n)%nat) by lia. assert (C2 : (j < m)%nat) by lia.
  destruct (Nat.ltb_spec i n); [|lia]. destruct (Nat.ltb_spec j m); [|lia]. cbn [andb].
  fold (b i). fold (e i). specialize (Hinv C1).
  assert (Hbi : b i < e i) by (apply (g_s _ _ G); lia).
  apply in_or_app.
  destruct (Nat.eq_dec k i) as [->|Hki]; [destruct (Nat.eq_dec j' j) as [->|Hjj']|].
  - left. unfold ovl in Ho |- *. fold (b i) in *. fold (e i) in *.
    destruct (0 <? Z.min (e i) (D (j + 1)) - Z.max (b i) (D j)) eqn:Ca; [left; reflexivity|].
    apply Z.ltb_ge in Ca. lia.
  - right. pose proof Ho as Ho'. unfold ovl in Ho'. fold (b i) in Ho'. fold (e i) in Ho'.
    assert (D (j + 1) <= D j') by (apply D_mono; lia).
    destruct (e i <? D (j + 1)) eqn:Cmp.
    + apply Z.ltb_lt in Cmp. lia.
    + apply Z.ltb_ge in Cmp. apply IH; try lia.
  - right. destruct (e i <? D (j + 1)) eqn:Cmp.
    + apply Z.ltb_lt in Cmp. apply IH; try lia.
      intros H1. assert (e i <= b (i + 1)) by (apply (g_mono _ _ G); lia).
      assert (b (i + 1) < e (i + 1)) by (apply (g_s _ _ G); lia). lia.
    + apply Z.ltb_ge in Cmp.
      destruct (Nat.eq_dec j' j) as [->|Hjj'].
      * assert (e i <= b k) by (apply e_le_b; lia). unfold ovl in Ho. fold (b k) in Ho. fold (e k) in Ho. lia.
      * apply IH; try lia.
Qed.

(* computeSolution meets every supply exactly and exceeds no demand *)
Lemma compute_solution_sums :
  let sol := compute_solution P p in
  (forall i, (i < n)%nat -> src_sum sol i = e i - b i) /\
  (forall j, (j < m)%nat -> snk_sum sol j <= D (j + 1) - D j).
Proof.
  intros sol. subst sol. unfold compute_solution.
  assert (H0 : (0 < n)%nat -> D 0 <= e 0).
  { intros H. rewrite (g_D0 _ _ G). assert (0 <= b 0) by (apply (g_b0 _ _ G); lia).
    assert (b 0 < e 0) by (apply (g_s _ _ G); lia). lia. }
  destruct (sweep_sums (n + m) 0 0 ltac:(lia) ltac:(lia) ltac:(lia) H0) as (R1 & R2 & R3 & R4 & R5 & R5' & R6).
  split.
  - intros i Hi. destruct i as [|i].
    + rewrite R2 by lia. rewrite (g_D0 _ _ G). assert (0 <= b 0) by (apply (g_b0 _ _ G); lia). lia.
    + apply R3; lia.
  - intros j Hj. destruct j as [|j].
    + destruct (Nat.eq_dec n 0) as [E|E].
      * rewrite R5' by lia. assert (D 0 < D (0 + 1)) by (apply (g_d _ _ G); lia). lia.
      * specialize (R5 Hj ltac:(lia)). rewrite (g_D0 _ _ G) in *.
        assert (0 <= b 0) by (apply (g_b0 _ _ G); lia).
        assert (D 0 < D (0 + 1)) by (apply (g_d _ _ G); lia). rewrite (g_D0 _ _ G) in *. lia.
    + apply R6; lia.
Qed.

Lemma compute_solution_triples i j a :
  In (i, j, a) (compute_solution P p) -> (i < n)%nat /\ (j < m)%nat /\ 0 < a /\ a = ovl P p i j.
Proof. intros H. apply sweep_valid_triples in H. intuition. Qed.

Lemma compute_solution_visits i j :
  (i < n)%nat -> (j < m)%nat -> 0 < ovl P p i j -> In (i, j, ovl P p i j) (compute_solution P p).
Proof.
  intros Hi Hj Ho. unfold compute_solution. apply sweep_visits; try lia.
  intros H. rewrite (g_D0 _ _ G). assert (0 <= b 0) by (apply (g_b0 _ _ G); lia).
  assert (b 0 < e 0) by (apply (g_s _ _ G); lia). lia.
Qed.
End Sweep.

(* ================================================================== C. flushPositions and run *)
Fixpoint nondec (l : list Z) : Prop :=
  match l with
  | x :: r => match r with y :: _ => x <= y | [] => True end /\ nondec r
  | [] => True
  end.

Lemma flush_length mx p : length (flush mx p) = length p.
Proof. induction p as [|x r IH]; cbn [flush length]; [reflexivity|]. rewrite IH. reflexivity. Qed.

Lemma flush_props mx p :
  (forall x, In x p -> 0 <= x) -> 0 <= mx ->
  nondec (flush mx p) /\ (forall x, In x (flush mx p) -> 0 <= x <= mx).
Proof.
  intros Hp Hmx. induction p as [|x r IH]; cbn [flush]; [split; [exact I|intros ? []]|].
  destruct IH as [IH1 IH2]; [intros y Hy; apply Hp; right; exact Hy|].
  assert (Hx : 0 <= x) by (apply Hp; left; reflexivity).
  destruct (flush mx r) as [|y t] eqn:E.
  - split; [cbn; auto|]. intros z [<-|[]]. lia.
  - assert (Hy : 0 <= y <= mx) by (apply IH2; left; reflexivity).
    split.
    + cbn [nondec]. split; [lia|exact IH1].
    + intros z [<-|Hz]; [lia|apply IH2; exact Hz].
Qed.

Lemma nondec_zn l : nondec l -> forall i, (i + 1 < length l)%nat -> zn l i <= zn l (i + 1).
Proof.
  induction l as [|x r IH]; intros H i Hi; cbn [length] in Hi; [lia|].
  destruct H as [H1 H2]. destruct i as [|i].
  - destruct r as [|y t]; [cbn in Hi; lia|]. exact H1.
  - unfold zn. cbn [nth Nat.add]. apply (IH H2 i). lia.
Qed.

Lemma zn_In l i : (i < length l)%nat -> In (zn l i) l.
Proof. intros H. unfold zn. apply nth_In. exact H. Qed.

(* ---- projections of the state operations *)
Lemma pnse_proj P i s : let s' := push_new_source_events P i s in lp s' = lp s /\ lo s' = lo s /\ os s' = os s /\ pp s' = pp s.
Proof. destruct i; cbn; auto. Qed.

Lemma pnk_proj P i j s : let s' := push_new_sink_events P i j s in lp s' = lp s /\ os s' = os s /\ pp s' = pp s.
Proof. unfold push_new_sink_events. destruct (Nat.leb j (lo s)); cbn; auto. Qed.

Lemma get_slope_proj pop s : let s' := snd (get_slope pop s) in lp s' = lp s /\ lo s' = lo s /\ os s' = os s /\ pp s' = pp s.
Proof. unfold get_slope. destruct (pop_at (lp s) (ev s)) as [sl evs]. cbn. auto. Qed.

Lemma ptls_proj P i s : let s' := push_to_last_sink P i s in 0 <= lp s' /\ lo s' = lo s /\ os s' = os s /\ pp s' = pp s.
Proof.
  unfold push_to_last_sink. pose proof (get_slope_proj true s) as H.
  destruct (get_slope true s) as [sl s1]. cbn [snd] in H. destruct H as (H1 & H2 & H3 & H4).
  cbn. repeat split; try assumption. destruct (ev s1) as [|[x d] t]; lia.
Qed.

Lemma push_once_proj P i s : 0 <= lp s -> let s' := push_once P i s in 0 <= lp s' /\ pp s' = pp s.
Proof.
  intros H0. unfold push_once.
  destruct (Nat.eqb (lo s) (n_snk P - 1)).
  - pose proof (ptls_proj P i s) as H. cbn in H. intuition.
  - destruct (lp s =? 0).
    + unfold push_to_new_sink. pose proof (pnk_proj P i (lo s + 1) s) as H. cbn in H. destruct H as (H1 & H2 & H3).
      cbn. rewrite H1, H3. auto.
    + pose proof (get_slope_proj false s) as H. destruct (get_slope false s) as [sl s1]. cbn [snd] in H.
      destruct H as (H1 & H2 & H3 & H4).
      destruct (cost P i (lo s + 1) <=? sl + cost P i (lo s)).
      * unfold push_to_new_sink. pose proof (pnk_proj P i (lo s1 + 1) s1) as H. cbn in H. destruct H as (K1 & K2 & K3).
        cbn. rewrite K1, K3, H1, H4. auto.
      * pose proof (ptls_proj P i s1) as H. cbn in H. destruct H as (K1 & K2 & K3 & K4). cbn. rewrite K4, H4. auto.
Qed.

Lemma push_loop_proj P i : forall fuel s s', 0 <= lp s -> push_loop P i fuel s = Some s' -> 0 <= lp s' /\ pp s' = pp s.
Proof.
  induction fuel as [|f IH]; intros s s' H0 H; cbn [push_loop] in H.
  - destruct (Dx P (lo s + 1) - Sx P (i + 1) <? lp s); [discriminate|]. inversion H; subst. auto.
  - destruct (Dx P (lo s + 1) - Sx P (i + 1) <? lp s).
    + pose proof (push_once_proj P i s H0) as K. cbn in K. destruct K as [K1 K2].
      destruct (IH _ _ K1 H) as [R1 R2]. rewrite R2, K2. auto.
    + inversion H; subst. auto.
Qed.

Lemma push_proj P i s s' : 0 <= lp s -> push P i s = Some s' -> 0 <= lp s' /\ pp s' = pp s ++ [lp s'].
Proof.
  intros H0 H. unfold push in H.
  match type of H with context [push_loop P i ?f ?s4] => destruct (push_loop P i f s4) as [s5|] eqn:E; [|discriminate]; set (s4' := s4) in * end.
  inversion H; subst; clear H. cbn [lp pp].
  assert (K : 0 <= lp s4' /\ pp s4' = pp s).
  { subst s4'.
    match goal with |- context [push_new_sink_events P i ?j ?s3] => pose proof (pnk_proj P i j s3) as K end.
    cbn in K. destruct K as (K1 & K2 & K3).
    match goal with |- context [push_new_source_events P i ?s1] => pose proof (pnse_proj P i s1) as Q end.
    cbn in Q. destruct Q as (Q1 & Q2 & Q3 & Q4).
    split.
    - cbn in K1 |- *. rewrite K1. lia.
    - cbn in K3 |- *. rewrite K3. exact Q4. }
  destruct K as [K1 K2]. destruct (push_loop_proj _ _ _ _ _ K1 E) as [R1 R2].
  split; [exact R1|]. rewrite R2, K2. reflexivity.
Qed.

Lemma push_all_proj P : forall is_ s s', 0 <= lp s -> (forall x, In x (pp s) -> 0 <= x) -> push_all P is_ s = Some s' ->
  0 <= lp s' /\ (forall x, In x (pp s') -> 0 <= x) /\ length (pp s') = (length (pp s) + length is_)%nat.
Proof.
  induction is_ as [|i r IH]; intros s s' H0 Hp H; cbn [push_all] in H.
  - inversion H; subst. cbn [length]. repeat split; auto.
  - destruct (push P i s) as [s1|] eqn:E; [|discriminate].
    destruct (push_proj _ _ _ _ H0 E) as [K1 K2].
    assert (Hp1 : forall x, In x (pp s1) -> 0 <= x).
    { intros x Hx. rewrite K2 in Hx. apply in_app_or in Hx. destruct Hx as [Hx|[<-|[]]]; [apply Hp; exact Hx|exact K1]. }
    destruct (IH _ _ K1 Hp1 H) as (R1 & R2 & R3). repeat split; auto.
    rewrite R3, K2, app_length. cbn [length]. lia.
Qed.

(* well-formed sorted problem, as produced by the sorter from a problem that passes check() *)
Record wf_sprob (P : sprob) : Prop := {
  w_ls : length (ss P) = length (su P);
  w_ld : length (sd P) = length (sv P);
  w_S : sS P = psums 0 (ss P);
  w_D : sD P = psums 0 (sd P);
  w_s : forall x, In x (ss P) -> 0 < x;
  w_d : forall x, In x (sd P) -> 0 < x;
  w_tot : total (ss P) <= total (sd P) }.

Lemma Sx_step P : wf_sprob P -> forall i, (i < n_src P)%nat -> Sx P i < Sx P (i + 1).
Proof.
  intros W i Hi. unfold Sx. rewrite (w_S _ W). replace (i + 1)%nat with (S i) by lia.
  unfold n_src in Hi. rewrite <- (w_ls _ W) in Hi.
  rewrite psums_S by exact Hi. assert (0 < zn (ss P) i) by (apply (w_s _ W), zn_In; exact Hi). lia.
Qed.

Lemma Dx_step P : wf_sprob P -> forall j, (j < n_snk P)%nat -> Dx P j < Dx P (j + 1).
Proof.
  intros W j Hj. unfold Dx. rewrite (w_D _ W). replace (j + 1)%nat with (S j) by lia.
  unfold n_snk in Hj. rewrite <- (w_ld _ W) in Hj.
  rewrite psums_S by exact Hj. assert (0 < zn (sd P) j) by (apply (w_d _ W), zn_In; exact Hj). lia.
Qed.

Lemma Sx_mono P : wf_sprob P -> forall i k, (i <= k)%nat -> (k <= n_src P)%nat -> Sx P i <= Sx P k.
Proof.
  intros W i k Hik Hk. induction k as [|k IH]; [replace i with O by lia; lia|].
  destruct (Nat.eq_dec i (S k)) as [->|Hne]; [lia|].
  assert (Sx P i <= Sx P k) by (apply IH; lia).
  assert (Sx P k < Sx P (k + 1)) by (apply Sx_step; [exact W|lia]).
  replace (S k) with (k + 1)%nat by lia. lia.
Qed.

Lemma Sx_0 P : wf_sprob P -> Sx P 0 = 0.
Proof. intros W. unfold Sx. rewrite (w_S _ W). apply psums_0. Qed.
Lemma Dx_0 P : wf_sprob P -> Dx P 0 = 0.
Proof. intros W. unfold Dx. rewrite (w_D _ W). apply psums_0. Qed.
Lemma Sx_n P : wf_sprob P -> Sx P (n_src P) = total (ss P).
Proof. intros W. unfold Sx, n_src. rewrite (w_S _ W), <- (w_ls _ W), psums_last. lia. Qed.
Lemma Dx_m P : wf_sprob P -> Dx P (n_snk P) = total (sd P).
Proof. intros W. unfold Dx, n_snk. rewrite (w_D _ W), <- (w_ld _ W), psums_last. lia. Qed.

(* the positions returned by run() have the geometry computeSolution/computeAssignment rely on *)
Theorem run_geom P p : wf_sprob P -> run P = Some p -> length p = n_src P /\ geom P p.
Proof.
  intros W H. unfold run in H.
  destruct (push_all P (seq 0 (n_src P)) init_st) as [s|] eqn:E; [|discriminate].
  inversion H; subst; clear H.
  assert (I1 : 0 <= lp init_st) by (cbn; lia).
  assert (I2 : forall x, In x (pp init_st) -> 0 <= x) by (cbn; intros ? []).
  destruct (push_all_proj P _ _ _ I1 I2 E) as (R1 & R2 & R3).
  cbn [init_st pp length] in R3. rewrite seq_length in R3. cbn [Nat.add] in R3.
  set (mx := zn (sD P) (n_snk P) - Sx P (length (pp s))).
  assert (Hmx : 0 <= mx).
  { subst mx. rewrite R3. fold (Dx P (n_snk P)). rewrite Sx_n, Dx_m by exact W. pose proof (w_tot _ W). lia. }
  destruct (flush_props mx (pp s) R2 Hmx) as [F1 F2].
  pose proof (flush_length mx (pp s)) as FL.
  set (p := flush mx (pp s)) in *.
  assert (Ln : length p = n_src P) by lia.
  split; [exact Ln|].
  assert (Hin : forall i, (i < length p)%nat -> 0 <= zn p i <= mx) by (intros i Hi; apply F2, zn_In; exact Hi).
  constructor.
  - intros i Hi. unfold bI, eI. assert (Sx P i < Sx P (i + 1)) by (apply Sx_step; [exact W|lia]). lia.
  - intros i Hi. unfold bI, eI. assert (zn p i <= zn p (i + 1)) by (apply nondec_zn; assumption). lia.
  - intros i Hi. unfold eI. assert (Sx P (i + 1) <= Sx P (n_src P)) by (apply Sx_mono; [exact W|lia|lia]).
    specialize (Hin i Hi). subst mx. rewrite R3 in Hin. fold (Dx P (n_snk P)) in Hin. lia.
  - intros i Hi. unfold bI. assert (Sx P 0 <= Sx P i) by (apply Sx_mono; [exact W|lia|lia]).
    rewrite Sx_0 in H by exact W. specialize (Hin i Hi). lia.
  - apply Dx_0. exact W.
  - apply Dx_step. exact W.
Qed.

(* ================================================================== D. the sorter *)
From Coq Require Import Permutation.

Lemma ins_pair_perm x l : Permutation (ins_pair x l) (x :: l).
Proof.
  induction l as [|y r IH]; cbn [ins_pair]; [apply Permutation_refl|].
  destruct (pair_lt x y); [apply Permutation_refl|].
  eapply Permutation_trans; [apply perm_skip, IH|apply perm_swap].
Qed.

Lemma sort_pairs_perm l : Permutation (sort_pairs l) l.
Proof.
  induction l as [|x r IH]; cbn [sort_pairs fold_right]; [apply Permutation_refl|].
  eapply Permutation_trans; [apply ins_pair_perm|apply perm_skip, IH].
Qed.

Lemma pos_pairs_in pos : forall amt i0 x k,
  In (x, k) (pos_pairs pos amt i0) ->
  (i0 <= k)%nat /\ (k - i0 < length pos)%nat /\ (k - i0 < length amt)%nat /\ x = zn pos (k - i0) /\ 0 < zn amt (k - i0).
Proof.
  induction pos as [|p pr IH]; intros amt i0 x k H; cbn [pos_pairs] in H; [contradiction|].
  destruct amt as [|a ar]; [contradiction|].
  apply in_app_or in H. destruct H as [H|H].
  - destruct (0 <? a) eqn:C; [|contradiction]. destruct H as [H|[]]. inversion H; subst.
    apply Z.ltb_lt in C. replace (k - k)%nat with O by lia. cbn. repeat split; try lia.
  - apply IH in H. destruct H as (H1 & H2 & H3 & H4 & H5).
    replace (k - i0)%nat with (S (k - S i0)) by lia. cbn [length]. unfold zn in *. cbn [nth]. repeat split; try lia; assumption.
Qed.

Lemma pos_pairs_complete pos : forall amt i0 k,
  (k < length pos)%nat -> (k < length amt)%nat -> 0 < zn amt k -> In (zn pos k, (i0 + k)%nat) (pos_pairs pos amt i0).
Proof.
  induction pos as [|p pr IH]; intros amt i0 k H1 H2 H3; cbn [length] in H1; [lia|].
  destruct amt as [|a ar]; [cbn in H2; lia|]. cbn [pos_pairs]. apply in_or_app.
  destruct k as [|k].
  - left. unfold zn in *. cbn [nth] in *. apply Z.ltb_lt in H3. rewrite H3. left. f_equal. lia.
  - right. unfold zn in *. cbn [nth length] in *. replace (i0 + S k)%nat with (S i0 + k)%nat by lia.
    apply IH; lia.
Qed.

Lemma pos_pairs_nodup pos : forall amt i0, NoDup (map snd (pos_pairs pos amt i0)).
Proof.
  induction pos as [|p pr IH]; intros amt i0; cbn [pos_pairs]; [constructor|].
  destruct amt as [|a ar]; [constructor|].
  rewrite map_app. destruct (0 <? a); cbn [map app]; [|apply IH].
  constructor; [|apply IH].
  intros H. apply in_map_iff in H. destruct H as [[x k] [E H]]. cbn in E. subst k.
  apply pos_pairs_in in H. lia.
Qed.

Lemma pos_pairs_total pos : forall amt i0 full,
  length pos = length amt -> (forall k, (k < length amt)%nat -> zn full (i0 + k) = zn amt k) ->
  (forall x, In x amt -> 0 <= x) ->
  total (map (zn full) (map snd (pos_pairs pos amt i0))) = total amt.
Proof.
  induction pos as [|p pr IH]; intros amt i0 full HL Hf Hnn; destruct amt as [|a ar]; try discriminate; [reflexivity|].
  cbn [pos_pairs]. rewrite !map_app.
  assert (IH' : total (map (zn full) (map snd (pos_pairs pr ar (S i0)))) = total ar).
  { apply IH; [cbn in HL; lia| |intros x Hx; apply Hnn; right; exact Hx].
    intros k Hk. replace (S i0 + k)%nat with (i0 + S k)%nat by lia. rewrite Hf by (cbn; lia). reflexivity. }
  rewrite total_cons.
  destruct (0 <? a) eqn:C; cbn [map app snd].
  - rewrite total_cons, IH'. specialize (Hf O ltac:(cbn; lia)). rewrite Nat.add_0_r in Hf. rewrite Hf. reflexivity.
  - rewrite IH'. apply Z.ltb_ge in C. assert (0 <= a) by (apply Hnn; left; reflexivity). lia.
Qed.

Lemma total_perm l l' : Permutation l l' -> total l = total l'.
Proof.
  induction 1; [reflexivity| | |congruence].
  - rewrite !total_cons. lia.
  - rewrite !total_cons. lia.
Qed.

(* what check() = None says *)
Record checked (pb : prob) : Prop := {
  c_ls : length (pb_s pb) = length (pb_u pb);
  c_ld : length (pb_d pb) = length (pb_v pb);
  c_s : forall x, In x (pb_s pb) -> 0 <= x;
  c_d : forall x, In x (pb_d pb) -> 0 <= x;
  c_tot : total (pb_s pb) <= total (pb_d pb) }.

Lemma existsb_neg_false l : existsb (fun c => c <? 0) l = false -> forall x, In x l -> 0 <= x.
Proof.
  intros H x Hx. destruct (Z.ltb_spec x 0); [|assumption].
  assert (existsb (fun c => c <? 0) l = true) by (apply existsb_exists; exists x; split; [exact Hx|apply Z.ltb_lt; lia]).
  congruence.
Qed.

Lemma check_none pb : check pb = None -> checked pb.
Proof.
  unfold check. intros H.
  destruct (Nat.eqb_spec (length (pb_s pb)) (nb_sources pb)); cbn [negb] in H; [|discriminate].
  destruct (Nat.eqb_spec (length (pb_d pb)) (nb_sinks pb)); cbn [negb] in H; [|discriminate].
  destruct (existsb (fun c => c <? 0) (pb_s pb)) eqn:E1; [discriminate|].
  destruct (existsb (fun c => c <? 0) (pb_d pb)) eqn:E2; [discriminate|].
  destruct (total (pb_d pb) <? total (pb_s pb)) eqn:E3; [discriminate|].
  apply Z.ltb_ge in E3.
  constructor; auto; apply existsb_neg_false; assumption.
Qed.

Definition src_sorted (pb : prob) := sort_pairs (pos_pairs (pb_u pb) (pb_s pb) 0).
Definition snk_sorted (pb : prob) := sort_pairs (pos_pairs (pb_v pb) (pb_d pb) 0).

Lemma order_spec pos amt : length amt = length pos ->
  let order := map snd (sort_pairs (pos_pairs pos amt 0)) in
  NoDup order /\ (forall k, In k order <-> (k < length pos)%nat /\ 0 < zn amt k).
Proof.
  intros HL order.
  assert (Pm : Permutation order (map snd (pos_pairs pos amt 0))) by (apply Permutation_map, sort_pairs_perm).
  split.
  - eapply Permutation_NoDup; [apply Permutation_sym, Pm|apply pos_pairs_nodup].
  - intros k. split.
    + intros H. apply (Permutation_in _ Pm) in H. apply in_map_iff in H. destruct H as [[x k'] [E H]]. cbn in E. subst k'.
      apply pos_pairs_in in H. rewrite Nat.sub_0_r in H. intuition.
    + intros [H1 H2]. apply (Permutation_in _ (Permutation_sym Pm)). apply in_map_iff.
      exists (zn pos k, k). split; [reflexivity|]. apply (pos_pairs_complete pos amt 0 k); [exact H1|lia|exact H2].
Qed.

Lemma zn_map_nn (f : list Z) order k : (k < length order)%nat -> zn (map (zn f) order) k = zn f (nn order k).
Proof.
  intros H. unfold zn at 1. rewrite nth_indep with (d' := zn f O) by (rewrite map_length; exact H).
  rewrite map_nth. reflexivity.
Qed.

Lemma order_total pos amt : length amt = length pos -> (forall x, In x amt -> 0 <= x) ->
  total (map (zn amt) (map snd (sort_pairs (pos_pairs pos amt 0)))) = total amt.
Proof.
  intros HL Hnn.
  rewrite (total_perm _ (map (zn amt) (map snd (pos_pairs pos amt 0)))).
  - apply pos_pairs_total; [lia| |exact Hnn]. intros k _. reflexivity.
  - apply Permutation_map, Permutation_map, sort_pairs_perm.
Qed.

Lemma convert_wf pb : checked pb -> wf_sprob (convert (mk_sorter pb) pb).
Proof.
  intros C. unfold convert, mk_sorter. cbn [srcOrder snkOrder].
  destruct (order_spec (pb_u pb) (pb_s pb) (c_ls _ C)) as [N1 I1].
  destruct (order_spec (pb_v pb) (pb_d pb) (c_ld _ C)) as [N2 I2].
  constructor; cbn [su sv ss sd sS sD].
  - rewrite !map_length. reflexivity.
  - rewrite !map_length. reflexivity.
  - reflexivity.
  - reflexivity.
  - intros x Hx. apply in_map_iff in Hx. destruct Hx as [k [<- Hk]]. apply I1 in Hk. tauto.
  - intros x Hx. apply in_map_iff in Hx. destruct Hx as [k [<- Hk]]. apply I2 in Hk. tauto.
  - rewrite (order_total _ _ (c_ls _ C) (c_s _ C)), (order_total _ _ (c_ld _ C) (c_d _ C)). exact (c_tot _ C).
Qed.

(* ---- plans *)
Definition valid_plan (pb : prob) (sol : list triple) : Prop :=
  (forall i j a, In (i, j, a) sol -> (i < nb_sources pb)%nat /\ (j < nb_sinks pb)%nat /\ 0 < a) /\
  (forall i, (i < nb_sources pb)%nat -> src_sum sol i = zn (pb_s pb) i) /\
  (forall j, (j < nb_sinks pb)%nat -> snk_sum sol j <= zn (pb_d pb) j).

Definition relabel (f g : nat -> nat) (sol : list triple) : list triple :=
  map (fun '(i, j, a) => (f i, g j, a)) sol.

Lemma relabel_in f g sol i j a : In (i, j, a) (relabel f g sol) <-> exists k l, In (k, l, a) sol /\ i = f k /\ j = g l.
Proof.
  unfold relabel. rewrite in_map_iff. split.
  - intros [[[k l] a'] [E H]]. inversion E; subst. exists k, l. auto.
  - intros (k & l & H & -> & ->). exists (k, l, a). auto.
Qed.

Lemma src_sum_relabel f g N sol k0 :
  (forall i j a, In (i, j, a) sol -> (i < N)%nat) -> (k0 < N)%nat ->
  (forall k k', (k < N)%nat -> (k' < N)%nat -> f k = f k' -> k = k') ->
  src_sum (relabel f g sol) (f k0) = src_sum sol k0.
Proof.
  intros Hr Hk Hinj. induction sol as [|[[i j] a] r IH]; [reflexivity|].
  cbn [relabel map src_sum]. fold (relabel f g r). rewrite IH by (intros; eapply Hr; right; eassumption).
  assert (Hi : (i < N)%nat) by (eapply Hr; left; reflexivity).
  destruct (Nat.eqb_spec (f i) (f k0)) as [E|E]; destruct (Nat.eqb_spec i k0) as [E'|E']; try reflexivity.
  - exfalso. apply E'. apply Hinj; assumption.
  - exfalso. apply E. rewrite E'. reflexivity.
Qed.

Lemma src_sum_relabel_none f g sol x :
  (forall i j a, In (i, j, a) sol -> f i <> x) -> src_sum (relabel f g sol) x = 0.
Proof.
  intros H. induction sol as [|[[i j] a] r IH]; [reflexivity|].
  cbn [relabel map src_sum]. fold (relabel f g r). rewrite IH by (intros; eapply H; right; eassumption).
  destruct (Nat.eqb_spec (f i) x) as [E|E]; [|reflexivity]. exfalso. eapply H; [left; reflexivity|exact E].
Qed.

Lemma snk_sum_relabel f g N sol k0 :
  (forall i j a, In (i, j, a) sol -> (j < N)%nat) -> (k0 < N)%nat ->
  (forall k k', (k < N)%nat -> (k' < N)%nat -> g k = g k' -> k = k') ->
  snk_sum (relabel f g sol) (g k0) = snk_sum sol k0.
Proof.
  intros Hr Hk Hinj. induction sol as [|[[i j] a] r IH]; [reflexivity|].
  cbn [relabel map snk_sum]. fold (relabel f g r). rewrite IH by (intros; eapply Hr; right; eassumption).
  assert (Hi : (j < N)%nat) by (eapply Hr; left; reflexivity).
  destruct (Nat.eqb_spec (g j) (g k0)) as [E|E]; destruct (Nat.eqb_spec j k0) as [E'|E']; try reflexivity.
  - exfalso. apply E'. apply Hinj; assumption.
  - exfalso. apply E. rewrite E'. reflexivity.
Qed.

Lemma snk_sum_relabel_none f g sol x :
  (forall i j a, In (i, j, a) sol -> g j <> x) -> snk_sum (relabel f g sol) x = 0.
Proof.
  intros H. induction sol as [|[[i j] a] r IH]; [reflexivity|].
  cbn [relabel map snk_sum]. fold (relabel f g r). rewrite IH by (intros; eapply H; right; eassumption).
  destruct (Nat.eqb_spec (g j) x) as [E|E]; [|reflexivity]. exfalso. eapply H; [left; reflexivity|exact E].
Qed.

Lemma nodup_nn_inj l : NoDup l -> forall k k', (k < length l)%nat -> (k' < length l)%nat -> nn l k = nn l k' -> k = k'.
Proof. intros N k k' H1 H2 E. unfold nn in E. eapply NoDup_nth; eassumption. Qed.

Lemma in_nn l x : In x l -> exists k, (k < length l)%nat /\ nn l k = x.
Proof. intros H. apply (In_nth l x O) in H. destruct H as [k [H1 H2]]. exists k. auto. Qed.

Lemma nn_in l k : (k < length l)%nat -> In (nn l k) l.
Proof. intros H. unfold nn. apply nth_In. exact H. Qed.

Lemma convert_solution_back_relabel so sol :
  convert_solution_back so sol = relabel (nn (srcOrder so)) (nn (snkOrder so)) sol.
Proof. reflexivity. Qed.

(* sizes of the sorted problem *)
Lemma convert_sizes pb : let so := mk_sorter pb in let P := convert so pb in
  n_src P = length (srcOrder so) /\ n_snk P = length (snkOrder so).
Proof. cbn. unfold n_src, n_snk. cbn. rewrite !map_length. auto. Qed.

Lemma convert_ss pb k : let so := mk_sorter pb in let P := convert so pb in
  (k < length (srcOrder so))%nat -> Sx P (k + 1) - Sx P k = zn (pb_s pb) (nn (srcOrder so) k).
Proof.
  intros so P Hk. unfold Sx. subst P. unfold convert. cbn [sS]. replace (k + 1)%nat with (S k) by lia.
  rewrite psums_S by (rewrite map_length; exact Hk). rewrite zn_map_nn by exact Hk. lia.
Qed.

Lemma convert_sd pb k : let so := mk_sorter pb in let P := convert so pb in
  (k < length (snkOrder so))%nat -> Dx P (k + 1) - Dx P k = zn (pb_d pb) (nn (snkOrder so) k).
Proof.
  intros so P Hk. unfold Dx. subst P. unfold convert. cbn [sD]. replace (k + 1)%nat with (S k) by lia.
  rewrite psums_S by (rewrite map_length; exact Hk). rewrite zn_map_nn by exact Hk. lia.
Qed.

(* G1: the plan returned by solve() is valid -- for every input that passes check() *)
Theorem solve_valid pb sol : solve pb = Ok sol -> valid_plan pb sol.
Proof.
  unfold solve. destruct (check pb) eqn:Ck; [discriminate|]. apply check_none in Ck.
  set (so := mk_sorter pb). set (P := convert so pb).
  destruct (run P) as [p|] eqn:R; [|discriminate]. intros H. inversion H; subst sol; clear H.
  pose proof (convert_wf pb Ck) as W. fold so in W. fold P in W.
  destruct (run_geom P p W R) as [Ln G].
  destruct (compute_solution_sums P p G) as [SS SK]. cbn zeta in SS, SK.
  pose proof (compute_solution_triples P p) as TR.
  destruct (order_spec (pb_u pb) (pb_s pb) (c_ls _ Ck)) as [N1 I1].
  destruct (order_spec (pb_v pb) (pb_d pb) (c_ld _ Ck)) as [N2 I2].
  change (map snd (sort_pairs (pos_pairs (pb_u pb) (pb_s pb) 0))) with (srcOrder so) in N1, I1.
  change (map snd (sort_pairs (pos_pairs (pb_v pb) (pb_d pb) 0))) with (snkOrder so) in N2, I2.
  destruct (convert_sizes pb) as [Z1 Z2]. fold so in Z1, Z2. fold P in Z1, Z2.
  rewrite convert_solution_back_relabel.
  repeat split.
  - apply relabel_in in H. destruct H as (k & l & H & -> & ->). apply TR in H.
    unfold nb_sources. apply I1. apply nn_in. lia.
  - apply relabel_in in H. destruct H as (k & l & H & -> & ->). apply TR in H.
    unfold nb_sinks. apply I2. apply nn_in. lia.
  - apply relabel_in in H. destruct H as (k & l & H & -> & ->). apply TR in H. tauto.
  - intros i Hi. unfold nb_sources in Hi.
    destruct (in_dec Nat.eq_dec i (srcOrder so)) as [Hin|Hout].
    + apply in_nn in Hin. destruct Hin as [k0 [Hk0 <-]].
      rewrite (src_sum_relabel _ _ (length (srcOrder so))).
      * rewrite SS by lia. unfold eI, bI. pose proof (convert_ss pb k0 Hk0) as E. fold so in E. fold P in E. lia.
      * intros k l a H. apply TR in H. lia.
      * exact Hk0.
      * apply nodup_nn_inj. exact N1.
    + rewrite src_sum_relabel_none.
      * assert (~ 0 < zn (pb_s pb) i) by (intros H; apply Hout, I1; auto).
        assert (0 <= zn (pb_s pb) i) by (apply (c_s _ Ck), zn_In; rewrite (c_ls _ Ck); exact Hi). lia.
      * intros k l a H E. apply TR in H. apply Hout. rewrite <- E. apply nn_in. lia.
  - intros j Hj. unfold nb_sinks in Hj.
    destruct (in_dec Nat.eq_dec j (snkOrder so)) as [Hin|Hout].
    + apply in_nn in Hin. destruct Hin as [k0 [Hk0 <-]].
      rewrite (snk_sum_relabel _ _ (length (snkOrder so))).
      * specialize (SK k0 ltac:(lia)). pose proof (convert_sd pb k0 Hk0) as E. fold so in E. fold P in E. lia.
      * intros k l a H. apply TR in H. lia.
      * exact Hk0.
      * apply nodup_nn_inj. exact N2.
    + rewrite snk_sum_relabel_none.
      * apply (c_d _ Ck), zn_In. rewrite (c_ld _ Ck). exact Hj.
      * intros k l a H E. apply TR in H. apply Hout. rewrite <- E. apply nn_in. lia.
Qed.

(* ================================================================== E. computeAssignment / convertAssignmentBack (machine level) *)
Lemma upd_some {A} (l : list A) : forall i x, (i < length l)%nat ->
  exists l', upd l i x = Some l' /\ length l' = length l /\ nth_error l' i = Some x /\
             (forall k, k <> i -> nth_error l' k = nth_error l k).
Proof.
  induction l as [|y r IH]; intros i x Hi; cbn [length] in Hi; [lia|].
  destruct i as [|i]; cbn [upd].
  - exists (x :: r). repeat split. intros k Hk. destruct k; [lia|reflexivity].
  - destruct (IH i x ltac:(lia)) as (r' & E & L & N1 & N2). rewrite E. exists (y :: r'). cbn [length nth_error].
    repeat split; [lia|exact N1|]. intros k Hk. destruct k; [reflexivity|]. cbn [nth_error]. apply N2. lia.
Qed.

Lemma upd_none {A} (l : list A) : forall i x, upd l i x = None -> (length l <= i)%nat.
Proof.
  induction l as [|y r IH]; intros i x H; cbn [length]; [lia|].
  destruct i as [|i]; cbn [upd] in H; [discriminate|].
  destruct (upd r i x) eqn:E; [discriminate|]. apply IH in E. lia.
Qed.

Lemma skipn_cons_inv (l : list Z) : forall k x r, skipn k l = x :: r -> (k < length l)%nat /\ zn l k = x /\ skipn (S k) l = r.
Proof.
  induction l as [|y t IH]; intros k x r H.
  - destruct k; discriminate.
  - destruct k as [|k].
    + cbn in H. inversion H; subst. cbn. repeat split; lia.
    + cbn [skipn] in H. apply IH in H. destruct H as (H1 & H2 & H3). cbn [length]. unfold zn in *. cbn [nth]. repeat split; [lia|exact H2|exact H3].
Qed.

Lemma skipn_nil_inv (l : list Z) k : skipn k l = [] -> (length l <= k)%nat.
Proof.
  revert k. induction l as [|y t IH]; intros k H; cbn [length]; [lia|].
  destruct k; [discriminate|]. cbn [skipn] in H. apply IH in H. lia.
Qed.

Lemma scan_D_spec Dl pos : forall Dt cs, Dt = skipn (cs + 1) Dl ->
  match scan_D Dt cs pos with
  | Some (cs', Dt') => Dt' = skipn (cs' + 1) Dl /\ (cs <= cs')%nat /\ (cs' + 1 < length Dl)%nat /\ pos < zn Dl (cs' + 1)
                       /\ ((cs < cs')%nat -> zn Dl cs' <= pos)
  | None => forall k, (cs + 1 <= k)%nat -> (k < length Dl)%nat -> zn Dl k <= pos
  end.
Proof.
  induction Dt as [|x r IH]; intros cs E0; cbn [scan_D].
  - intros k H1 H2. symmetry in E0. apply skipn_nil_inv in E0. lia.
  - pose proof (eq_sym E0) as E. apply skipn_cons_inv in E. destruct E as (E1 & E2 & E3).
    destruct (x <=? pos) eqn:C.
    + apply Z.leb_le in C. specialize (IH (S cs)). replace (S cs + 1)%nat with (S (cs + 1)) in IH by lia.
      specialize (IH (eq_sym E3)).
      destruct (scan_D r (S cs) pos) as [[cs' Dt']|].
      * destruct IH as (I1 & I2 & I3 & I4 & I5). repeat split; try lia; try assumption.
        intros _. destruct (Nat.eq_dec cs' (S cs)) as [->|Hne]; [|apply I5; lia].
        replace (S cs) with (cs + 1)%nat by lia. lia.
      * intros k H1 H2. destruct (Nat.eq_dec k (cs + 1)) as [->|Hne]; [lia|]. apply IH; lia.
    + apply Z.leb_gt in C. repeat split; try lia. exact E0.
Qed.

(* the middle of source i on the cumulative-demand axis, and "the sink whose interval contains it" *)
Definition mid (P : sprob) (p : list Z) (i : nat) : Z := zn p i + Sx P i + Z.quot (zn (ss P) i) 2.
Definition in_sink (P : sprob) (p : list Z) (i j : nat) : Prop :=
  (j < n_snk P)%nat /\ Dx P j <= mid P p i < Dx P (j + 1).

Lemma nn_nth_error l k x : nth_error l k = Some x -> nn l k = x.
Proof. intros H. unfold nn. apply nth_error_nth. exact H. Qed.

Lemma mid_bounds P p i : wf_sprob P -> (i < n_src P)%nat -> bI P p i <= mid P p i < eI P p i.
Proof.
  intros W Hi. unfold mid, bI, eI.
  assert (E : Sx P (i + 1) = Sx P i + zn (ss P) i).
  { unfold Sx. rewrite (w_S _ W). replace (i + 1)%nat with (S i) by lia. apply psums_S. rewrite (w_ls _ W). exact Hi. }
  assert (0 < zn (ss P) i) by (apply (w_s _ W), zn_In; rewrite (w_ls _ W); exact Hi).
  assert (0 <= Z.quot (zn (ss P) i) 2) by (apply Z.quot_pos; lia).
  assert (Z.quot (zn (ss P) i) 2 < zn (ss P) i) by (apply Z.quot_lt; lia).
  lia.
Qed.

Lemma sD_length P : wf_sprob P -> length (sD P) = S (n_snk P).
Proof. intros W. rewrite (w_D _ W), psums_length, (w_ld _ W). reflexivity. Qed.
Lemma sS_length P : wf_sprob P -> length (sS P) = S (n_src P).
Proof. intros W. rewrite (w_S _ W), psums_length, (w_ls _ W). reflexivity. Qed.

Lemma assign_loop_spec P p : wf_sprob P -> geom P p -> length p = n_src P ->
  forall c i ret cs Dt,
  (i + c = length p)%nat -> length ret = length p -> Dt = skipn (cs + 1) (sD P) ->
  ((i < length p)%nat -> (cs < n_snk P)%nat /\ Dx P cs <= bI P p i) ->
  exists a, assign_loop P p (seq i c) ret cs Dt = Some a /\ length a = length p /\
            (forall k, (k < i)%nat -> nth_error a k = nth_error ret k) /\
            (forall k, (i <= k)%nat -> (k < length p)%nat -> in_sink P p k (nn a k)).
Proof.
  intros W G Ln. induction c as [|c IH]; intros i ret cs Dt Hic Hr HDt Hinv; cbn [seq assign_loop].
  - exists ret. repeat split; auto; exfalso; lia.
  - assert (Hi : (i < length p)%nat) by lia. destruct (Hinv Hi) as [Hcs Hb].
    rewrite (nth_error_zn p i Hi).
    rewrite (nth_error_zn (sS P) i) by (rewrite sS_length by exact W; lia).
    rewrite (nth_error_zn (ss P) i) by (rewrite (w_ls _ W); unfold n_src in Ln; lia).
    fold (Sx P i). fold (mid P p i).
    pose proof (mid_bounds P p i W ltac:(lia)) as Hm.
    assert (He : eI P p i <= Dx P (n_snk P)) by (apply (g_last _ _ G); exact Hi).
    pose proof (scan_D_spec (sD P) (mid P p i) Dt cs HDt) as Sp.
    destruct (scan_D Dt cs (mid P p i)) as [[cs' Dt']|].
    + destruct Sp as (S1 & S2 & S3 & S4 & S5). rewrite sD_length in S3 by exact W.
      fold (Dx P (cs' + 1)) in S4. fold (Dx P cs') in S5.
      assert (Hlow : Dx P cs' <= mid P p i).
      { destruct (Nat.eq_dec cs cs') as [<-|Hne]; [lia|apply S5; lia]. }
      destruct (upd_some ret i cs' ltac:(lia)) as (ret' & U1 & U2 & U3 & U4). rewrite U1.
      destruct (IH (S i) ret' cs' Dt' ltac:(lia) ltac:(lia) S1) as (a & A1 & A2 & A3 & A4).
      { intros H1. split; [lia|]. assert (eI P p i <= bI P p (i + 1)) by (apply (g_mono _ _ G); lia).
        replace (S i) with (i + 1)%nat by lia. lia. }
      exists a. repeat split; try assumption.
      * intros k Hk. rewrite A3 by lia. apply U4. lia.
      * destruct (Nat.eq_dec k i) as [->|Hne].
        -- rewrite (nn_nth_error a i cs') by (rewrite A3 by lia; exact U3). lia.
        -- apply A4; lia.
      * destruct (Nat.eq_dec k i) as [->|Hne].
        -- rewrite (nn_nth_error a i cs') by (rewrite A3 by lia; exact U3). lia.
        -- apply A4; lia.
      * destruct (Nat.eq_dec k i) as [->|Hne].
        -- rewrite (nn_nth_error a i cs') by (rewrite A3 by lia; exact U3). lia.
        -- apply A4; lia.
    + exfalso. specialize (Sp (n_snk P) ltac:(lia)). rewrite sD_length in Sp by exact W.
      specialize (Sp ltac:(lia)). fold (Dx P (n_snk P)) in Sp. lia.
Qed.

Lemma geom_sinks_nonempty P p : geom P p -> (0 < length p)%nat -> (0 < n_snk P)%nat.
Proof.
  intros G H. destruct (n_snk P) eqn:E; [|lia].
  pose proof (g_last _ _ G 0%nat H) as H1. pose proof (g_s _ _ G 0%nat H) as H2. pose proof (g_b0 _ _ G 0%nat H) as H3.
  rewrite E, (g_D0 _ _ G) in H1. lia.
Qed.

(* computeAssignment reads and writes inside its arrays, and returns for every source the sink that contains its middle *)
Theorem compute_assignment_spec P p : wf_sprob P -> geom P p -> length p = n_src P ->
  exists a, compute_assignment P p = Some a /\ length a = length p /\
            forall k, (k < length p)%nat -> in_sink P p k (nn a k).
Proof.
  intros W G Ln. unfold compute_assignment.
  destruct (assign_loop_spec P p W G Ln (length p) 0 (repeat O (length p)) 0 (tl (sD P))) as (a & A1 & A2 & A3 & A4).
  - lia.
  - apply repeat_length.
  - destruct (sD P); reflexivity.
  - intros H. split; [eapply geom_sinks_nonempty; eassumption|]. rewrite (g_D0 _ _ G). apply (g_b0 _ _ G). exact H.
  - exists a. repeat split; try assumption; apply A4; lia.
Qed.

(* convertAssignmentBack *)
Lemma cab_loop_spec so a : forall is_ ret,
  (forall i, In i is_ -> (i < length (srcOrder so))%nat /\ (i < length a)%nat /\ (nn a i < length (snkOrder so))%nat
                         /\ (nn (srcOrder so) i < length ret)%nat) ->
  NoDup (map (nn (srcOrder so)) is_) ->
  exists r, cab_loop so a is_ ret = Some r /\ length r = length ret /\
            (forall x, (forall i, In i is_ -> nn (srcOrder so) i <> x) -> nth_error r x = nth_error ret x) /\
            (forall i, In i is_ -> nth_error r (nn (srcOrder so) i) = Some (nn (snkOrder so) (nn a i))).
Proof.
  induction is_ as [|i t IH]; intros ret Hr Hnd; cbn [cab_loop].
  - exists ret. repeat split; auto. intros i [].
  - destruct (Hr i (or_introl eq_refl)) as (H1 & H2 & H3 & H4).
    rewrite (nth_error_nn _ _ H1), (nth_error_nn _ _ H2), (nth_error_nn _ _ H3).
    destruct (upd_some ret (nn (srcOrder so) i) (nn (snkOrder so) (nn a i)) H4) as (ret' & U1 & U2 & U3 & U4). rewrite U1.
    cbn [map] in Hnd. inversion Hnd as [|? ? Hni Hnd']; subst.
    destruct (IH ret') as (r & R1 & R2 & R3 & R4).
    { intros k Hk. destruct (Hr k (or_intror Hk)) as (K1 & K2 & K3 & K4). repeat split; try assumption. lia. }
    { exact Hnd'. }
    exists r. repeat split.
    + exact R1.
    + lia.
    + intros x Hx. rewrite R3 by (intros k Hk; apply Hx; right; exact Hk). apply U4. intros E. apply (Hx i (or_introl eq_refl)). auto.
    + intros k [<-|Hk].
      * rewrite R3; [exact U3|]. intros k Hk E. apply Hni. rewrite <- E. apply in_map. exact Hk.
      * apply R4. exact Hk.
Qed.

(* the unchanged code fails exactly when a written index is outside the a.size()-long result *)
Lemma cab_loop_none so a : forall is_ ret, cab_loop so a is_ ret = None ->
  exists i, In i is_ /\ ((length (srcOrder so) <= i)%nat \/ (length a <= i)%nat \/ (length (snkOrder so) <= nn a i)%nat
                         \/ (length ret <= nn (srcOrder so) i)%nat).
Proof.
  induction is_ as [|i t IH]; intros ret H; cbn [cab_loop] in H; [discriminate|].
  destruct (nth_error (srcOrder so) i) as [k|] eqn:E1.
  2:{ exists i. split; [left; reflexivity|]. left. apply nth_error_None. exact E1. }
  destruct (nth_error a i) as [ai|] eqn:E2.
  2:{ exists i. split; [left; reflexivity|]. right. left. apply nth_error_None. exact E2. }
  destruct (nth_error (snkOrder so) ai) as [x|] eqn:E3.
  2:{ exists i. split; [left; reflexivity|]. right. right. left. rewrite (nn_nth_error _ _ _ E2). apply nth_error_None. exact E3. }
  destruct (upd ret k x) as [ret'|] eqn:E4.
  - apply IH in H. destruct H as [i' [H1 H2]]. exists i'. split; [right; exact H1|].
    assert (length ret' = length ret).
    { destruct (Nat.lt_ge_cases k (length ret)) as [Hl|Hl].
      - destruct (upd_some ret k x Hl) as (r2 & U1 & U2 & _). congruence.
      - exfalso. clear - E4 Hl. revert k ret' E4 Hl. induction ret as [|y r IHr]; intros k ret' E4 Hl; [destruct k; discriminate|].
        destruct k; [cbn in Hl; lia|]. cbn [upd] in E4. destruct (upd r k x) eqn:E; [|discriminate]. eapply IHr; [exact E|cbn in Hl; lia]. }
    rewrite H in H2. exact H2.
  - exists i. split; [left; reflexivity|]. right. right. right. rewrite (nn_nth_error _ _ _ E1). apply upd_none in E4. exact E4.
Qed.

(* ---- idle sources (the F11 repair) *)
Lemma lower_bound_pairs_le l x : (lower_bound_pairs l x <= length l)%nat.
Proof. induction l as [|y r IH]; cbn [lower_bound_pairs length]; [lia|]. destruct (x <=? fst y); lia. Qed.

Lemma idle_sink_of_in snkSort ui si : snkSort <> [] -> ~ 0 < si -> In (idle_sink_of snkSort ui si) (map snd snkSort).
Proof.
  intros Hne Hs. unfold idle_sink_of.
  destruct (Z.ltb_spec 0 si); [lia|]. cbn [orb].
  destruct (Nat.eqb_spec (length snkSort) 0) as [E|E]; [destruct snkSort; [congruence|discriminate]|].
  pose proof (lower_bound_pairs_le snkSort ui) as Hk.
  set (k := lower_bound_pairs snkSort ui) in *.
  match goal with |- context [nth ?kk snkSort _] => set (k' := kk) end.
  assert (Hk' : (k' < length snkSort)%nat).
  { subst k'. destruct (Nat.eqb_spec k (length snkSort)); cbn [orb]; [lia|].
    match goal with |- context [if ?c then _ else _] => destruct c end; lia. }
  apply in_map. apply nth_In. exact Hk'.
Qed.

Lemma idle_sinks_spec snkSort : forall us ss_, length ss_ = length us ->
  length (idle_sinks snkSort us ss_) = length us /\
  forall i, (i < length us)%nat -> nn (idle_sinks snkSort us ss_) i = idle_sink_of snkSort (zn us i) (zn ss_ i).
Proof.
  induction us as [|u r IH]; intros ss_ HL; destruct ss_ as [|s t]; try discriminate; cbn [idle_sinks length].
  - split; [reflexivity|]. intros; lia.
  - destruct (IH t ltac:(cbn in HL; lia)) as [I1 I2]. split; [lia|].
    intros i Hi. destruct i as [|i]; [reflexivity|]. unfold nn, zn in *. cbn [nth]. apply I2. lia.
Qed.

Lemma map_nn_seq l : map (nn l) (seq 0 (length l)) = l.
Proof.
  induction l as [|x r IH]; [reflexivity|].
  cbn [length seq map]. f_equal. rewrite <- seq_shift, map_map. exact IH.
Qed.

(* ---- the core of assign(): with the positions of run(), both machine-level functions succeed *)
Lemma assign_core pb p : checked pb ->
  let so := mk_sorter pb in let P := convert so pb in
  run P = Some p ->
  geom P p /\
  exists a r, compute_assignment P p = Some a /\ convert_assignment_back so a = Some r /\
    length p = length (srcOrder so) /\ length r = nb_sources pb /\
    (forall k, (k < length (srcOrder so))%nat -> in_sink P p k (nn a k) /\ nn r (nn (srcOrder so) k) = nn (snkOrder so) (nn a k)) /\
    (forall x, ~ In x (srcOrder so) -> nn r x = nn (idleSink so) x).
Proof.
  intros Ck so P R.
  pose proof (convert_wf pb Ck) as W. fold so in W. fold P in W.
  destruct (run_geom P p W R) as [Ln G]. split; [exact G|].
  destruct (compute_assignment_spec P p W G Ln) as (a & A1 & A2 & A3).
  destruct (order_spec (pb_u pb) (pb_s pb) (c_ls _ Ck)) as [N1 I1].
  change (map snd (sort_pairs (pos_pairs (pb_u pb) (pb_s pb) 0))) with (srcOrder so) in N1, I1.
  destruct (convert_sizes pb) as [Z1 Z2]. fold so in Z1, Z2. fold P in Z1, Z2.
  destruct (idle_sinks_spec (sort_pairs (pos_pairs (pb_v pb) (pb_d pb) 0)) (pb_u pb) (pb_s pb) (c_ls _ Ck)) as [L1 L2].
  change (idle_sinks (sort_pairs (pos_pairs (pb_v pb) (pb_d pb) 0)) (pb_u pb) (pb_s pb)) with (idleSink so) in L1, L2.
  unfold convert_assignment_back.
  destruct (cab_loop_spec so a (seq 0 (length a)) (idleSink so)) as (r & R1 & R2 & R3 & R4).
  - intros i Hi. apply in_seq in Hi. repeat split; try lia.
    + destruct (A3 i ltac:(lia)) as [H _]. lia.
    + rewrite L1. apply I1. apply nn_in. lia.
  - replace (length a) with (length (srcOrder so)) by lia. rewrite map_nn_seq. exact N1.
  - exists a, r. split; [exact A1|]. split; [exact R1|]. split; [lia|]. split; [unfold nb_sources; lia|]. split.
    + intros k Hk. split; [apply A3; lia|]. apply nn_nth_error. apply R4. apply in_seq. lia.
    + intros x Hx. unfold nn at 1 2.
      assert (E : nth_error r x = nth_error (idleSink so) x).
      { apply R3. intros i Hi E. apply in_seq in Hi. apply Hx. rewrite <- E. apply nn_in. lia. }
      destruct (Nat.lt_ge_cases x (length r)) as [Hl|Hl].
      * rewrite (nth_error_nth' r O Hl) in E. rewrite R2 in Hl. rewrite (nth_error_nth' (idleSink so) O Hl) in E. congruence.
      * rewrite !nth_overflow by lia. reflexivity.
Qed.

Lemma check_errors pb e : check pb = Some e -> e <> EOOB /\ e <> EFuel.
Proof.
  unfold check. intros H.
  repeat match type of H with (if ?c then _ else _) = _ => destruct c end; inversion H; subst; split; discriminate.
Qed.

(* G2 (memory clause, repaired code): assign() never reads or writes outside its arrays *)
Theorem assign_no_oob pb : assign pb <> Err EOOB.
Proof.
  unfold assign, assign_with. destruct (check pb) as [e|] eqn:Ck.
  - intros H. inversion H. apply check_errors in Ck. tauto.
  - apply check_none in Ck. destruct (run (convert (mk_sorter pb) pb)) as [p|] eqn:R; [|discriminate].
    destruct (assign_core pb p Ck R) as (_ & a & r & A & B & _). rewrite A, B. discriminate.
Qed.

(* G3: the shape of the assignment *)
Theorem assign_spec pb r : assign pb = Ok r ->
  length r = nb_sources pb /\
  ((exists j, (j < nb_sinks pb)%nat /\ 0 < zn (pb_d pb) j) ->
   forall i, (i < nb_sources pb)%nat -> (nn r i < nb_sinks pb)%nat /\ 0 < zn (pb_d pb) (nn r i)).
Proof.
  unfold assign, assign_with. destruct (check pb) as [e|] eqn:Ck; [discriminate|]. apply check_none in Ck.
  destruct (run (convert (mk_sorter pb) pb)) as [p|] eqn:R; [|discriminate].
  destruct (assign_core pb p Ck R) as (G & a & r' & A & B & L1 & L2 & S1 & S2). rewrite A, B.
  intros H. inversion H; subst r'; clear H. split; [exact L2|].
  intros [j0 [Hj0 Hd0]] i Hi.
  set (so := mk_sorter pb) in *.
  destruct (order_spec (pb_u pb) (pb_s pb) (c_ls _ Ck)) as [N1 I1].
  destruct (order_spec (pb_v pb) (pb_d pb) (c_ld _ Ck)) as [N2 I2].
  change (map snd (sort_pairs (pos_pairs (pb_u pb) (pb_s pb) 0))) with (srcOrder so) in N1, I1.
  change (map snd (sort_pairs (pos_pairs (pb_v pb) (pb_d pb) 0))) with (snkOrder so) in N2, I2.
  destruct (convert_sizes pb) as [Z1 Z2]. fold so in Z1, Z2.
  unfold nb_sinks. apply I2.
  destruct (in_dec Nat.eq_dec i (srcOrder so)) as [Hin|Hout].
  - apply in_nn in Hin. destruct Hin as [k [Hk <-]]. destruct (S1 k Hk) as [[Q1 Q2] Q3]. rewrite Q3. apply nn_in. lia.
  - rewrite (S2 i Hout).
    destruct (idle_sinks_spec (sort_pairs (pos_pairs (pb_v pb) (pb_d pb) 0)) (pb_u pb) (pb_s pb) (c_ls _ Ck)) as [L3 L4].
    change (idle_sinks (sort_pairs (pos_pairs (pb_v pb) (pb_d pb) 0)) (pb_u pb) (pb_s pb)) with (idleSink so) in L3, L4.
    rewrite (L4 i Hi). apply idle_sink_of_in.
    + intros E. assert (Hin : In j0 (snkOrder so)) by (apply I2; auto).
      unfold so, mk_sorter in Hin. cbn [snkOrder] in Hin. rewrite E in Hin. exact Hin.
    + intros H. apply Hout. apply I1. auto.
Qed.

(* G4: a source that the plan of solve() sends to a single sink is assigned to that sink *)
Theorem assign_unsplit pb sol r : solve pb = Ok sol -> assign pb = Ok r ->
  forall i j a, In (i, j, a) sol -> (forall j' a', In (i, j', a') sol -> j' = j) -> nn r i = j.
Proof.
  unfold solve, assign, assign_with. destruct (check pb) as [e|] eqn:Ck; [discriminate|]. apply check_none in Ck.
  destruct (run (convert (mk_sorter pb) pb)) as [p|] eqn:R; [|discriminate].
  destruct (assign_core pb p Ck R) as (G & a & r' & A & B & L1 & L2 & S1 & S2). rewrite A, B.
  set (so := mk_sorter pb) in *. set (P := convert so pb) in *.
  intros H1 H2. inversion H1; subst sol; clear H1. inversion H2; subst r'; clear H2.
  intros i j a0 Hin Huns. rewrite convert_solution_back_relabel in Hin, Huns.
  apply relabel_in in Hin. destruct Hin as (k & l & Hin & -> & ->).
  apply compute_solution_triples in Hin. destruct Hin as (Hk & Hl & _).
  pose proof (convert_wf pb Ck) as W. fold so in W. fold P in W.
  destruct (S1 k ltac:(lia)) as [[Q1 Q2] Q3]. rewrite Q3.
  destruct (convert_sizes pb) as [Z1 Z2]. fold so in Z1, Z2. fold P in Z1, Z2.
  pose proof (mid_bounds P p k W ltac:(lia)) as Hm.
  assert (Ho : 0 < ovl P p k (nn a k)) by (unfold ovl; lia).
  pose proof (compute_solution_visits P p G k (nn a k) Hk Q1 Ho) as Hv.
  apply (Huns _ (ovl P p k (nn a k))). apply relabel_in. exists k, (nn a k). auto.
Qed.

(* G5 (memory clause, UNCHANGED code): the faithful model of /repo's convertAssignmentBack writes outside its
   result -- finding F11; witness s = {0,0,2} *)
Definition f11_witness : prob := {| pb_u := [0; 0; 0]; pb_v := [5]; pb_s := [0; 0; 2]; pb_d := [2] |}.
Lemma assign_unfixed_oob : check f11_witness = None /\ assign_unfixed f11_witness = Err EOOB.
Proof. split; vm_compute; reflexivity. Qed.
