(* C11 -- legalization does not move an already legal single-row placement.
   Models: RowLeg.v (RowLegalizer), Legalizer.v (Abacus over the row legalizers; tied to
   /repo by ./check C11: Circuit::legalize applied twice, exact comparison of both runs with the
   extracted model and of the second result with the first). *)
From Coq Require Import List ZArith Lia Bool.
Import ListNotations.
Require Import CV.RowLeg CV.RowLegProofs CV.RowLegFixProofs.
Local Open Scope Z_scope.

(* [F] a row that is already legal is a fixpoint of the single-row legalizer: inserting its cells
   left to right (targets ordered, non-overlapping, inside the segment) reports cost 0 for every
   insertion and returns exactly the targets *)
Theorem c11_row_fixpoint : forall b e cells,
  legal_targets b e cells ->
  run b e (map (fun c => Push (fst c) (snd c)) cells) = (map snd cells, map (fun _ => 0) cells).
Proof. exact rowleg_fixpoint. Qed.

(* [F] the cost Abacus is quoted for putting a cell back at its own conflict-free position is 0
   (so no other row, whose cost includes width * |dy| > 0, can be strictly better) *)
Theorem c11_own_position_costs_nothing : forall s T w t,
  J s T -> 0 < w -> T <= t - used s -> t + w <= rend s -> snd (get_cost s w t) = 0.
Proof.
  intros s T w t HJ Hw HT He. rewrite query_predicts_push.
  destruct (push_fix s T w t HJ Hw HT He) as (C0 & _). exact C0.
Qed.

(* [F] Legalizer::computeCellOrder keeps the left-to-right order of the cells of a legal row when
   the ordering width ow = p/q lies in [0,1] (key scaled by q; the y and height terms are equal for
   two row-high cells of one row) *)
Theorem c11_order_preserved : forall p q xi wi xj wj,
  0 < q -> 0 <= p <= q -> 0 < wi -> 0 < wj -> xi + wi <= xj -> q * xi + p * wi < q * xj + p * wj.
Proof. exact order_key_preserved. Qed.

(* [R, known finding F10] LegalizationParameters::check accepts ordering widths in [-1,2]; outside
   [0,1] the key can invert two cells of a legal row, the row legalizer then receives them in the
   wrong order and moves them *)
Theorem c11_ordering_refuted :
  (exists xi wi xj wj, 0 < wi /\ 0 < wj /\ xi + wi <= xj /\ 2 * xj + (-1) * wj < 2 * xi + (-1) * wi) /\
  (exists xi wi xj wj, 0 < wi /\ 0 < wj /\ xi + wi <= xj /\ 2 * xj + 3 * wj < 2 * xi + 3 * wi).
Proof. exact order_key_inverted_outside. Qed.

(* whole-circuit idempotence: proved below (c11_legal_placement_not_moved, c11_legalize_idempotent,
   c11_legalize_twice; LegalizerIdempotentProofs.v) *)

Example c11_nonvacuous :
  legal_targets 0 10 [(2, 1); (3, 3); (1, 9)] /\
  run 0 10 [Push 2 1; Push 3 3; Push 1 9] = ([1; 3; 9], [0; 0; 0]) /\
  run 0 10 [Push 3 3; Push 2 1; Push 1 9] <> ([3; 1; 9], [0; 0; 0]).
Proof. split; [cbn; lia|]. split; [vm_compute; reflexivity|vm_compute; discriminate]. Qed.

Print Assumptions c11_row_fixpoint.
Print Assumptions c11_own_position_costs_nothing.
Print Assumptions c11_order_preserved.
Print Assumptions c11_ordering_refuted.

(* ================================================================== *)
(* C11 for the RAW legalizer model (LegalizerIdempotentProofs).  The [P] remark above is
   superseded: the circuit-level statement is proved below. *)
Require Import CV.Orient CV.FreeSpace CV.Circuit CV.CircuitProofs CV.Legalizer CV.LegalizerProofs
               CV.LegalizerAbacusProofs CV.LegalizerSoundProofs CV.LegalizerTrivialProofs
               CV.LegalizerIdempotentProofs.

(* [F] the Abacus pass (abacus_run: row scans with their early stops and strict comparisons,
   per-segment RowLegalizer states, read-back) over pairwise disjoint segments of one positive
   height: cells that are row-high, each inside a segment its polarity admits
   (sits c r: bottom edge on r, x-range inside r), handed over so that within each segment
   they come left to right, are returned exactly at their targets, with the orientation
   prescribed in that segment *)
Theorem c11_abacus_fixpoint : forall rows0 cells rh,
  0 < rh ->
  (forall r, In r rows0 -> maxY (rr r) - minY (rr r) = rh /\ minX (rr r) <= maxX (rr r)) ->
  pairwise_disjoint (map rr rows0) ->
  (forall m c, nth_error cells m = Some c ->
     0 < cw c /\ ch c = rh /\ exists r, In r rows0 /\ sits c r /\ seg_orientation c r <> oINVALID) ->
  (forall m m' c c' r, (m < m')%nat -> nth_error cells m = Some c -> nth_error cells m' = Some c' ->
     In r rows0 -> sits c r -> sits c' r -> ctx c + cw c <= ctx c') ->
  forall m c, nth_error cells m = Some c ->
    exists r, In r rows0 /\ sits c r /\
      nth_error (abacus_run rows0 cells) m = Some (Some (ctx c, cty c, seg_orientation c r)).
Proof. exact abacus_fixpoint. Qed.

(* [F] Legalizer::run (Tetris pass selecting nothing, remainingRows, Abacus pass, import,
   checkAllPlaced) returns Ok with every cell at its target *)
Theorem c11_legalize_fixpoint : forall rows0 cellsL order rh,
  0 < rh ->
  (forall r, In r rows0 -> maxY (rr r) - minY (rr r) = rh /\ nonempty_row r) ->
  pairwise_disjoint (map rr rows0) ->
  (forall i c, nth_error cellsL i = Some c ->
     0 < cw c /\ ch c = rh /\ exists r, In r rows0 /\ sits c r /\ seg_orientation c r <> oINVALID) ->
  (forall i j ci cj r, i <> j -> nth_error cellsL i = Some ci -> nth_error cellsL j = Some cj ->
     In r rows0 -> sits ci r -> sits cj r -> ctx ci + cw ci <= ctx cj \/ ctx cj + cw cj <= ctx ci) ->
  NoDup order -> (forall i, In i order <-> (i < length cellsL)%nat) ->
  (forall a b i j ci cj r, nth_error order a = Some i -> nth_error order b = Some j ->
     nth_error cellsL i = Some ci -> nth_error cellsL j = Some cj ->
     In r rows0 -> sits ci r -> sits cj r -> ctx ci + cw ci <= ctx cj -> (a < b)%nat) ->
  exists pl, legalize rows0 cellsL order = Ok pl /\ length pl = length cellsL /\
    forall i c, nth_error cellsL i = Some c ->
      exists r, In r rows0 /\ sits c r /\ nth_error pl i = Some (ctx c, cty c, seg_orientation c r).
Proof. exact legalize_fixpoint. Qed.

(* [F on the domain rowhigh_design (rows of one positive height, pairwise disjoint, not turned;
   movable cells of positive width, exactly one row high, not turned unless without polarity;
   fixed cells and obstructions arbitrary)] THE property for the RAW algorithm:
   DetailedPlacer::legalize applied to a placement that is already legal (Circuit.legal, C01)
   succeeds and moves no cell -- every cell keeps x, y, its dimensions and flags (kept); the only
   thing that can change is the orientation of a movable cell, which becomes the one its
   polarity prescribes in the row under it (its own when the polarity is ANY).
   Hypotheses beyond legality, both needed:
   - polarity_admits: the row under each movable cell is not forbidden for its polarity
     (legality says nothing about orientations; a cell on a forbidden row is moved away);
   - order_left_to_right: the order is a permutation of the movable cells' indices in which
     two cells of one free segment come left to right.  Legalizer::computeCellOrder guarantees
     it when the ordering width lies in [0,1] (c11_order_preserved above; outside [0,1]:
     c11_ordering_refuted, known finding F10), the float key being exact for |v| < 2^20. *)
Theorem c11_legal_placement_not_moved : forall c rh order,
  rowhigh_design c rh -> legal c -> polarity_admits c -> order_left_to_right c order ->
  exists c', legalize_circuit c order = LegOk c' /\ rows c' = rows c /\
             Forall2 (kept c) (cells c) (cells c').
Proof. exact legalize_circuit_fixpoint. Qed.

(* [F, same domain] ... and when every movable cell already has the orientation prescribed in
   its row (e.g. no cell has a polarity, or the placement comes out of the legalizer), the
   circuit is returned unchanged *)
Theorem c11_legalize_idempotent : forall c rh order,
  rowhigh_design c rh -> legal c -> polarity_admits c -> order_left_to_right c order ->
  (forall k r, In k (movable c) -> In r (rows c) -> under r k -> seg_orientation (leg_cell_of k) r = c_o k) ->
  legalize_circuit c order = LegOk c.
Proof. exact legalize_circuit_idempotent. Qed.

(* [F, same domain] "in particular legalizing twice gives the same positions as legalizing
   once": the output c1 of a successful legalization of ANY row-high design (legal or not,
   any order for the first run) is returned unchanged by a second legalization whose order is
   left to right within each free segment of c1 *)
Theorem c11_legalize_twice : forall c rh order order2 c1,
  rowhigh_design c rh -> legalize_circuit c order = LegOk c1 -> order_left_to_right c1 order2 ->
  legalize_circuit c1 order2 = LegOk c1.
Proof. exact legalize_circuit_twice. Qed.

(* [P] what is not covered: designs outside rowhigh_design (multi-row movable cells are excluded
   by the statement of C11; turned rows, overlapping rows).  The link between computeCellOrder and
   order_left_to_right is proved at the end of this file for the model of computeCellOrder over Q
   (c11_real_order_left_to_right and the closed-model theorems c11_legalize_real_order_...); what
   stays outside the proof is the binary32 evaluation of the key (exact, hence equal to the model,
   when every intermediate is a multiple of 2^-s below 2^(24-s) in magnitude: compared exactly on
   such cases by checks/c11_order.py; rounded keys may tie or invert two cells where the exact keys
   do not). *)

(* non-vacuity: two rows, an obstruction splitting the first, three movable cells (polarities
   SAME / ANY / OPPOSITE) legally placed, two of them in one segment: every hypothesis holds,
   and the legalizer returns the very same circuit; in the reverse order it does not *)
Definition ex_c11 : circuit :=
  {| rows := [ {| rr := {| minX := 0; maxX := 10; minY := 0; maxY := 2 |}; ro := oN |};
               {| rr := {| minX := 0; maxX := 10; minY := 2; maxY := 4 |}; ro := oFS |} ];
     cells := [ {| c_x := 4; c_y := 0; c_w := 2; c_h := 2; c_o := oN; c_pol := pANY; c_fixed := true; c_obs := true |};
                {| c_x := 0; c_y := 0; c_w := 3; c_h := 2; c_o := oN; c_pol := pSAME; c_fixed := false; c_obs := true |};
                {| c_x := 2; c_y := 2; c_w := 3; c_h := 2; c_o := oS; c_pol := pANY; c_fixed := false; c_obs := true |};
                {| c_x := 6; c_y := 2; c_w := 2; c_h := 2; c_o := oN; c_pol := pOPPOSITE; c_fixed := false; c_obs := true |} ] |}.

Example c11_circuit_nonvacuous :
  rowhigh_design ex_c11 2 /\ legal ex_c11 /\ polarity_admits ex_c11 /\
  order_left_to_right ex_c11 [0%nat; 1%nat; 2%nat] /\
  (forall k r, In k (movable ex_c11) -> In r (rows ex_c11) -> under r k ->
               seg_orientation (leg_cell_of k) r = c_o k) /\
  legalize_circuit ex_c11 [0%nat; 1%nat; 2%nat] = LegOk ex_c11 /\
  legalize_circuit ex_c11 [0%nat; 2%nat; 1%nat] <> LegOk ex_c11.
Proof.
  assert (Hmv : forall k, In k (movable ex_c11) ->
            k = {| c_x := 0; c_y := 0; c_w := 3; c_h := 2; c_o := oN; c_pol := pSAME; c_fixed := false; c_obs := true |} \/
            k = {| c_x := 2; c_y := 2; c_w := 3; c_h := 2; c_o := oS; c_pol := pANY; c_fixed := false; c_obs := true |} \/
            k = {| c_x := 6; c_y := 2; c_w := 2; c_h := 2; c_o := oN; c_pol := pOPPOSITE; c_fixed := false; c_obs := true |}).
  { intros k Hk. vm_compute in Hk. destruct Hk as [<-|[<-|[<-|[]]]]; auto. }
  split; [|split; [|split; [|split; [|split; [|split]]]]].
  - split; [lia|]. split; [|split; [|split]].
    + intros r [<-|[<-|[]]]; reflexivity.
    + apply pairwise_disjointb_spec. vm_compute. reflexivity.
    + intros r [<-|[<-|[]]]; reflexivity.
    + intros k Hk. destruct (Hmv k Hk) as [-> | [-> | ->]]; (split; [vm_compute; reflexivity|split; [vm_compute; reflexivity|]]);
        [left|right|left]; reflexivity.
  - apply legalb_correct. vm_compute. reflexivity.
  - intros k r Hk Hr Hu. destruct (Hmv k Hk) as [-> | [-> | ->]]; destruct Hr as [<-|[<-|[]]];
      first [vm_compute; discriminate | exfalso; unfold under in Hu; cbn in Hu; lia].
  - split; [repeat constructor; cbn; intuition discriminate|]. split.
    + intros i. change (length (movable ex_c11)) with 3%nat. cbn. split; [intros [<-|[<-|[<-|[]]]]; lia|].
      intros H. destruct i as [|[|[|i]]]; auto; lia.
    + intros a b i j ki kj s Ha Hb Hi Hj Hs Si Sj Hx.
      destruct a as [|[|[|a]]]; cbn in Ha; try (destruct a; discriminate); injection Ha as <-;
      destruct b as [|[|[|b]]]; cbn in Hb; try (destruct b; discriminate); injection Hb as <-; try lia;
      vm_compute in Hi; vm_compute in Hj; injection Hi as <-; injection Hj as <-;
      exfalso; unfold sits in Si, Sj; cbn in Si, Sj, Hx; lia.
  - intros k r Hk Hr Hu. destruct (Hmv k Hk) as [-> | [-> | ->]]; destruct Hr as [<-|[<-|[]]];
      first [vm_compute; reflexivity | exfalso; unfold under in Hu; cbn in Hu; lia].
  - vm_compute. reflexivity.
  - vm_compute. discriminate.
Qed.

Print Assumptions c11_abacus_fixpoint.
Print Assumptions c11_legalize_fixpoint.
Print Assumptions c11_legal_placement_not_moved.
(* non-vacuity of c11_legalize_twice: the same rows with the three cells far away and stacked;
   the first run moves them, the second returns its input *)
Definition ex_c11_bad : circuit :=
  {| rows := rows ex_c11;
     cells := [ {| c_x := 4; c_y := 0; c_w := 2; c_h := 2; c_o := oN; c_pol := pANY; c_fixed := true; c_obs := true |};
                {| c_x := 7; c_y := 9; c_w := 3; c_h := 2; c_o := oS; c_pol := pSAME; c_fixed := false; c_obs := true |};
                {| c_x := 7; c_y := 9; c_w := 3; c_h := 2; c_o := oS; c_pol := pANY; c_fixed := false; c_obs := true |};
                {| c_x := -5; c_y := 1; c_w := 2; c_h := 2; c_o := oFN; c_pol := pOPPOSITE; c_fixed := false; c_obs := true |} ] |}.
Example c11_twice_nonvacuous :
  exists c1, legalize_circuit ex_c11_bad [2%nat; 0%nat; 1%nat] = LegOk c1 /\ c1 <> ex_c11_bad /\
             legalb ex_c11_bad = false /\ legalb c1 = true /\
             legalize_circuit c1 [2%nat; 0%nat; 1%nat] = LegOk c1.
Proof.
  eexists. split; [vm_compute; reflexivity|]. split; [discriminate|].
  split; [vm_compute; reflexivity|]. split; vm_compute; reflexivity.
Qed.

Print Assumptions c11_legalize_idempotent.
Print Assumptions c11_legalize_twice.

(* ================================================================== *)
(* The cell order is no longer an oracle: LegalizerBase::computeCellOrder is modelled
   (CellOrder.v: key over Q, std::stable_sort of the (key, index) pairs under std::pair's order) and
   the chain is closed (CellOrderProofs.v).  legalize_real p c = legalize_circuit c (cell_order p c)
   is the CLOSED model of DetailedPlacer::legalize with LegalizationParameters p
   (op_w = orderingWidth, op_y = orderingY, op_h = orderingHeight; the weight of x is 1.0).
   Tie: checks/c11_order.py compares cell_order with the vector returned by the real computeCellOrder,
   exactly where the binary32 evaluation of the key is exact. *)
From Coq Require Import QArith Permutation.
Require Import CV.CellOrder CV.CellOrderProofs.

(* [F] computeCellOrder returns a permutation of the cell indices 0..n-1, for all weights and cells *)
Theorem c11_cell_order_permutation : forall wx ww wy wh cells,
  Permutation (compute_cell_order wx ww wy wh cells) (seq 0 (length cells)).
Proof. exact compute_cell_order_perm. Qed.

(* [F] ... and it is THE sorted one: whenever (key_i, i) < (key_j, j) in std::pair's order, i comes
   before j (the pairs are pairwise different, so this fixes the position of every index) *)
Theorem c11_cell_order_sorted : forall wx ww wy wh cells a b i j ci cj,
  nth_error (compute_cell_order wx ww wy wh cells) a = Some i ->
  nth_error (compute_cell_order wx ww wy wh cells) b = Some j ->
  nth_error cells i = Some ci -> nth_error cells j = Some cj ->
  pair_ltb (cell_key wx ww wy wh ci, i) (cell_key wx ww wy wh cj, j) = true -> (a < b)%nat.
Proof. exact compute_cell_order_sorted. Qed.

(* [F] the hypothesis order_left_to_right of the theorems above holds for the computed order on every
   row-high design when 0 <= orderingWidth <= 1, whatever orderingY and orderingHeight (two cells of
   one free segment have the same y and the same placed height: these terms are equal in both keys) *)
Theorem c11_real_order_left_to_right : forall p c rh,
  rowhigh_design c rh -> (0 <= op_w p)%Q -> (op_w p <= 1)%Q -> order_left_to_right c (cell_order p c).
Proof. exact cell_order_left_to_right. Qed.

(* [F on rowhigh_design, orderingWidth in [0,1]] THE property for the closed model: no cell of a legal
   placement on admitted rows is moved (kept: only the orientation may become the prescribed one) *)
Theorem c11_legalize_real_order_fixpoint : forall p c rh,
  rowhigh_design c rh -> legal c -> polarity_admits c -> (0 <= op_w p)%Q -> (op_w p <= 1)%Q ->
  exists c', legalize_real p c = LegOk c' /\ rows c' = rows c /\ Forall2 (kept c) (cells c) (cells c').
Proof. exact legalize_real_fixpoint. Qed.

(* [F, same domain] ... and the circuit is returned unchanged when the orientations are already the
   prescribed ones *)
Theorem c11_legalize_real_order_idempotent : forall p c rh,
  rowhigh_design c rh -> legal c -> polarity_admits c -> (0 <= op_w p)%Q -> (op_w p <= 1)%Q ->
  (forall k r, In k (movable c) -> In r (rows c) -> under r k -> seg_orientation (leg_cell_of k) r = c_o k) ->
  legalize_real p c = LegOk c.
Proof. exact legalize_real_idempotent. Qed.

(* [F, same domain] legalizing twice = legalizing once, each run computing its own order: the first
   run with ANY parameters p0 on ANY row-high design (legal or not), the second with orderingWidth
   in [0,1] (in particular p = p0) *)
Theorem c11_legalize_real_order_twice : forall p0 p c rh c1,
  rowhigh_design c rh -> legalize_real p0 c = LegOk c1 -> (0 <= op_w p)%Q -> (op_w p <= 1)%Q ->
  legalize_real p c1 = LegOk c1.
Proof. exact legalize_real_twice. Qed.

(* [R, known finding F10, now at circuit level] for an accepted orderingWidth in (1,2] and for one in
   [-1,0) there is a circuit satisfying every other hypothesis of c11_legalize_real_order_idempotent
   whose cells the closed model moves (w_f10 with 3/2: wide cell then narrow cell; w_f10b with -1/2) *)
Theorem c11_real_order_refuted :
  (exists c p c', fixpoint_hyps c 2 /\ (1 < op_w p)%Q /\ (op_w p <= 2)%Q /\
                  legalize_real p c = LegOk c' /\ map c_x (cells c') <> map c_x (cells c)) /\
  (exists c p c', fixpoint_hyps c 2 /\ (-1 <= op_w p)%Q /\ (op_w p < 0)%Q /\
                  legalize_real p c = LegOk c' /\ map c_x (cells c') <> map c_x (cells c)).
Proof. exact legalize_real_ordering_refuted. Qed.

(* non-vacuity: the parameters of effort 3 (orderingWidth 0.2, orderingY 0, orderingHeight -1) on the
   three-cell circuit above: the computed order is [0;1;2], the closed model returns the circuit; with
   ordering width 3/2 on w_f10 the computed order is inverted *)
Definition p_default : order_params := {| op_w := 1 # 5; op_y := 0; op_h := -1 # 1 |}.
Example c11_real_order_nonvacuous :
  (0 <= op_w p_default)%Q /\ (op_w p_default <= 1)%Q /\
  cell_order p_default ex_c11 = [0%nat; 1%nat; 2%nat] /\ legalize_real p_default ex_c11 = LegOk ex_c11 /\
  (exists c1, legalize_real p_default ex_c11_bad = LegOk c1 /\ c1 <> ex_c11_bad /\ legalize_real p_default c1 = LegOk c1) /\
  cell_order p_f10 w_f10 = [1%nat; 0%nat].
Proof.
  split; [discriminate|]. split; [discriminate|]. split; [vm_compute; reflexivity|]. split; [vm_compute; reflexivity|].
  split; [|vm_compute; reflexivity]. eexists. split; [vm_compute; reflexivity|]. split; [discriminate|vm_compute; reflexivity].
Qed.

Print Assumptions c11_cell_order_permutation.
Print Assumptions c11_cell_order_sorted.
Print Assumptions c11_real_order_left_to_right.
Print Assumptions c11_legalize_real_order_fixpoint.
Print Assumptions c11_legalize_real_order_idempotent.
Print Assumptions c11_legalize_real_order_twice.
Print Assumptions c11_real_order_refuted.

(* ================================================================== *)
(* The BINARY32 key.  CellOrderFloat.v models computeCellOrder as the C++ evaluates it: the double parameters
   narrowed to float at the call (f_of_d), the ints converted to float, every product and every sum one
   correctly rounded binary32 operation of Flocq (round to nearest even), std::pair<float,int>::operator< on
   the results, the stable sort.  cell_order_f p c is that order for the double parameters p, legalize_float p c
   = legalize_circuit c (cell_order_f p c) the closed model with it (no rational key anywhere).
   Domain (CellOrderFloat.v): order_params_ok p = finite doubles, 0 <= orderingWidth <= 1 (F10 outside),
   |orderingY| <= 2 (LegalizationParameters::check accepts [-0.2, 0.2]), |orderingHeight| <= 4 (check accepts
   EVERY value: forced hypothesis, refuted at 8 below); coords_small c = |x|, |y|, placed width, placed height
   of every movable cell <= 2^20 (the quantifier of C11 says |v| < 2^20).
   Axioms: the four of Coq.Reals / Flocq (ClassicalDedekindReals.sig_forall_dec, sig_not_dec,
   FunctionalExtensionality.functional_extensionality_dep, Classical_Prop.classic), no other.
   Tie: checks/c11_order.py float_tie compares cell_order_f (vm_compute) with the real computeCellOrder on
   non-dyadic parameters. *)
From Coq Require Import Reals.
From Flocq Require Import Core BinarySingleNaN.
Require Import CV.SpreadFloat CV.SpreadFloatProofs CV.CellOrderFloat CV.CellOrderFloatProofs.
Local Open Scope Z_scope.

(* [F] the four roundings of the key cost at most 15/32 < 1/2: key_R = rnd(rnd(rnd(x + rnd(ww*w)) + t3) + t4) against
   x + ww*w + t3 + t4, for |x|, |w| <= 2^20, 0 <= ww <= 1, |t3| <= 2^21, |t4| <= 2^22 (t3, t4: the two float
   products weightY*y and weightHeight*h, the SAME numbers for two cells of one row); all partial results bounded *)
Theorem c11_float_key_rounding_error : forall (ww t3 t4 : R) (x w : Z),
  (0 <= ww <= 1)%R -> Z.abs x <= 2 ^ 20 -> Z.abs w <= 2 ^ 20 ->
  (Rabs t3 <= bpow radix2 21)%R -> (Rabs t4 <= bpow radix2 22)%R ->
  (Rabs (key_R ww t3 t4 x w - key_ref ww t3 t4 x w) <= key_eps)%R /\
  (Rabs (rnd32 (ww * IZR w)) <= bpow radix2 20)%R /\
  (Rabs (rnd32 (IZR x + rnd32 (ww * IZR w))) <= bpow radix2 21)%R /\
  (Rabs (rnd32 (rnd32 (IZR x + rnd32 (ww * IZR w)) + t3)) <= bpow radix2 22)%R /\
  (Rabs (key_R ww t3 t4 x w) <= bpow radix2 23)%R.
Proof. exact key_R_err. Qed.

(* [F] the Flocq evaluation of the C++ expression on a small cell is FINITE and equals key_R (weights: finite floats,
   weightX = 1, 0 <= weightWidth <= 1, |weightY| <= 2, |weightHeight| <= 4) *)
Theorem c11_float_key_correct : forall (wx ww wy wh : f32) (c : Legalizer.cell),
  is_finite wx = true -> is_finite ww = true -> is_finite wy = true -> is_finite wh = true ->
  B2R wx = 1%R -> (0 <= B2R ww <= 1)%R -> (Rabs (B2R wy) <= 2)%R -> (Rabs (B2R wh) <= 4)%R -> small_cell c ->
  let t3 := rnd32 (B2R wy * IZR (Legalizer.cty c)) in
  let t4 := rnd32 (B2R wh * IZR (Legalizer.ch c)) in
  is_finite (cell_key_f wx ww wy wh c) = true /\
  B2R (cell_key_f wx ww wy wh c) = key_R (B2R ww) t3 t4 (Legalizer.ctx c) (Legalizer.cw c) /\
  (Rabs t3 <= bpow radix2 21)%R /\ (Rabs t4 <= bpow radix2 22)%R.
Proof. exact cell_key_f_correct. Qed.

(* [F] two cells of one row (same y, same placed height, widths >= 1, the left one ends before the right one
   starts): the float keys are finite and STRICTLY ordered, by at least 1/16 -- the index never decides *)
Theorem c11_float_key_strict_in_row : forall (wx ww wy wh : f32) (ci cj : Legalizer.cell),
  is_finite wx = true -> is_finite ww = true -> is_finite wy = true -> is_finite wh = true ->
  B2R wx = 1%R -> (0 <= B2R ww <= 1)%R -> (Rabs (B2R wy) <= 2)%R -> (Rabs (B2R wh) <= 4)%R ->
  small_cell ci -> small_cell cj -> 0 < Legalizer.cw ci -> 0 < Legalizer.cw cj ->
  Legalizer.ctx ci + Legalizer.cw ci <= Legalizer.ctx cj -> Legalizer.cty ci = Legalizer.cty cj -> Legalizer.ch ci = Legalizer.ch cj ->
  is_finite (cell_key_f wx ww wy wh ci) = true /\ is_finite (cell_key_f wx ww wy wh cj) = true /\
  (B2R (cell_key_f wx ww wy wh ci) + / 16 <= B2R (cell_key_f wx ww wy wh cj))%R.
Proof. exact cell_key_f_lt_in_row. Qed.

(* [F, ALL float keys: NaN and infinities included] the binary32 computeCellOrder returns a permutation of 0..n-1 *)
Theorem c11_float_cell_order_permutation : forall wx ww wy wh cells,
  Permutation (compute_cell_order_f wx ww wy wh cells) (seq 0 (length cells)).
Proof. exact compute_cell_order_f_perm. Qed.

(* [F] when every key is finite, a strictly smaller float key comes first *)
Theorem c11_float_cell_order_sorted : forall wx ww wy wh cells a b i j ci cj,
  (forall c, In c cells -> is_finite (cell_key_f wx ww wy wh c) = true) ->
  nth_error (compute_cell_order_f wx ww wy wh cells) a = Some i ->
  nth_error (compute_cell_order_f wx ww wy wh cells) b = Some j ->
  nth_error cells i = Some ci -> nth_error cells j = Some cj ->
  (B2R (cell_key_f wx ww wy wh ci) < B2R (cell_key_f wx ww wy wh cj))%R -> (a < b)%nat.
Proof. exact compute_cell_order_f_sorted. Qed.

(* [F] on the domain every key Legalizer::run computes is finite (no NaN, no infinity: the sort is well defined) *)
Theorem c11_float_keys_finite : forall p c, order_params_ok p -> coords_small c ->
  forall k, In k (Legalizer.leg_cells c) ->
    is_finite (cell_key_f (f_of_d d_one) (f_of_d (opd_w p)) (f_of_d (opd_y p)) (f_of_d (opd_h p)) k) = true.
Proof. exact cell_order_f_keys_finite. Qed.

(* [F] the hypothesis order_left_to_right holds for the BINARY32 order on every row-high design of the domain *)
Theorem c11_float_order_left_to_right : forall p c rh,
  rowhigh_design c rh -> order_params_ok p -> coords_small c -> order_left_to_right c (cell_order_f p c).
Proof. exact cell_order_f_left_to_right. Qed.

(* [F on rowhigh_design, order_params_ok, coords_small] THE property with the float order: no cell of a legal
   placement on admitted rows is moved *)
Theorem c11_legalize_float_order_fixpoint : forall p c rh,
  rowhigh_design c rh -> legal c -> polarity_admits c -> order_params_ok p -> coords_small c ->
  exists c', legalize_float p c = LegOk c' /\ rows c' = rows c /\ Forall2 (kept c) (cells c) (cells c').
Proof. exact legalize_float_fixpoint. Qed.

(* [F, same domain] ... and the circuit is returned unchanged when the orientations are the prescribed ones *)
Theorem c11_legalize_float_order_idempotent : forall p c rh,
  rowhigh_design c rh -> legal c -> polarity_admits c -> order_params_ok p -> coords_small c ->
  (forall k r, In k (movable c) -> In r (rows c) -> under r k -> seg_orientation (leg_cell_of k) r = c_o k) ->
  legalize_float p c = LegOk c.
Proof. exact legalize_float_idempotent. Qed.

(* [F] legalizing twice = legalizing once, both runs with their own binary32 order: the first with ANY double
   parameters p0 (NaN included) on ANY row-high design, the second with parameters of the domain on a result
   whose coordinates are in the domain *)
Theorem c11_legalize_float_order_twice : forall p0 p c rh c1,
  rowhigh_design c rh -> legalize_float p0 c = LegOk c1 -> order_params_ok p -> coords_small c1 ->
  legalize_float p c1 = LegOk c1.
Proof. exact legalize_float_twice. Qed.

(* [R] the bound on orderingHeight is forced.  LegalizationParameters::check accepts every orderingHeight; with
   orderingHeight = 8, orderingWidth = 1/2, orderingY = 0 and a row 2^20 - 1 high, two unit-width cells at x = 10
   (index 0) and x = 9 (index 1) get the SAME finite float key 8388610 (10.5 + 8388600 and 9.5 + 8388600 are both
   ties at ulp 1 and round to even); the index decides, the right cell is handled first and the legalizer moves the
   other one from 9 to 11, although the circuit satisfies every hypothesis of c11_legalize_float_order_idempotent
   about the circuit and the coordinates are <= 2^20.  Replayed on the C++ (corpus/C11/cases.txt, OF line). *)
Theorem c11_float_order_refuted :
  exists c p c', fixpoint_hyps c 1048575 /\ coords_small c /\
    is_finite (opd_w p) = true /\ is_finite (opd_y p) = true /\ is_finite (opd_h p) = true /\
    (0 <= B2R (opd_w p) <= 1)%R /\ B2R (opd_y p) = 0%R /\ B2R (opd_h p) = 8%R /\
    map B2SF (map (cell_key_f (f_of_d d_one) (f_of_d (opd_w p)) (f_of_d (opd_y p)) (f_of_d (opd_h p))) (leg_cells c))
      = [SpecFloat.S754_finite false 8388610 0; SpecFloat.S754_finite false 8388610 0] /\
    map c_x (cells c) = [10; 9] /\ cell_order_f p c = [0%nat; 1%nat] /\
    legalize_float p c = LegOk c' /\ map c_x (cells c') = [10; 11].
Proof. exact legalize_float_order_refuted. Qed.

(* non-vacuity: the DEFAULT parameters (orderingWidth = (double)1/(double)5 = 0.2, narrowed to the float
   13421773 * 2^-26 -- not exact --, orderingY 0, orderingHeight -1) are in the domain, as are the circuits above;
   the float order of ex_c11 is [0;1;2] and the closed float model returns the circuit; ex_c11_bad is moved by the
   first run and returned by the second *)
Example c11_float_order_nonvacuous :
  order_params_ok pd_default /\ coords_small ex_c11 /\
  B2SF (f_of_d (opd_w pd_default)) = SpecFloat.S754_finite false 13421773 (-26) /\
  cell_order_f pd_default ex_c11 = [0%nat; 1%nat; 2%nat] /\ legalize_float pd_default ex_c11 = LegOk ex_c11 /\
  (exists c1, legalize_float pd_default ex_c11_bad = LegOk c1 /\ c1 <> ex_c11_bad /\ coords_small c1 /\
              legalize_float pd_default c1 = LegOk c1).
Proof.
  split; [apply order_params_okb_sound; vm_compute; reflexivity|].
  split; [apply coords_smallb_sound; vm_compute; reflexivity|].
  split; [vm_compute; reflexivity|]. split; [vm_compute; reflexivity|]. split; [vm_compute; reflexivity|].
  eexists. split; [vm_compute; reflexivity|]. split; [discriminate|].
  split; [apply coords_smallb_sound; vm_compute; reflexivity|vm_compute; reflexivity].
Qed.

Print Assumptions c11_float_key_rounding_error.
Print Assumptions c11_float_key_correct.
Print Assumptions c11_float_key_strict_in_row.
Print Assumptions c11_float_cell_order_permutation.
Print Assumptions c11_float_cell_order_sorted.
Print Assumptions c11_float_keys_finite.
Print Assumptions c11_float_order_left_to_right.
Print Assumptions c11_legalize_float_order_fixpoint.
Print Assumptions c11_legalize_float_order_idempotent.
Print Assumptions c11_legalize_float_order_twice.
Print Assumptions c11_float_order_refuted.
