(* C11 -- legalization does not move an already legal single-row placement.
   Models: RowLeg.v (RowLegalizer), Legalizer.v (Abacus over the row legalizers; tied to
   /repo by ./check C11: Circuit::legalize applied twice, exact comparison of both runs with the
   extracted model and of the second result with the first). *)
From Coq Require Import List ZArith Lia Bool.
Import ListNotations.
Require Import CV.RowLeg CV.RowLegProofs CV.RowLegFixProofs.
Local Open Scope Z_scope.

(* [F] a row that is already legal is a fixpoint of the single-row legalizer: inserting its cells
   left to right (targets ordered, non-overlapping, inside the segment) reports cost 0 for every
   insertion and returns exactly the targets *)
Theorem c11_row_fixpoint : forall b e cells,
  legal_targets b e cells ->
  run b e (map (fun c => Push (fst c) (snd c)) cells) = (map snd cells, map (fun _ => 0) cells).
Proof. exact rowleg_fixpoint. Qed.

(* [F] the cost Abacus is quoted for putting a cell back at its own conflict-free position is 0
   (so no other row, whose cost includes width * |dy| > 0, can be strictly better) *)
Theorem c11_own_position_costs_nothing : forall s T w t,
  J s T -> 0 < w -> T <= t - used s -> t + w <= rend s -> snd (get_cost s w t) = 0.
Proof.
  intros s T w t HJ Hw HT He. rewrite query_predicts_push.
  destruct (push_fix s T w t HJ Hw HT He) as (C0 & _). exact C0.
Qed.

(* [F] Legalizer::computeCellOrder keeps the left-to-right order of the cells of a legal row when
   the ordering width ow = p/q lies in [0,1] (key scaled by q; the y and height terms are equal for
   two row-high cells of one row) *)
Theorem c11_order_preserved : forall p q xi wi xj wj,
  0 < q -> 0 <= p <= q -> 0 < wi -> 0 < wj -> xi + wi <= xj -> q * xi + p * wi < q * xj + p * wj.
Proof. exact order_key_preserved. Qed.

(* [R, known finding F10] LegalizationParameters::check accepts ordering widths in [-1,2]; outside
   [0,1] the key can invert two cells of a legal row, the row legalizer then receives them in the
   wrong order and moves them *)
Theorem c11_ordering_refuted :
  (exists xi wi xj wj, 0 < wi /\ 0 < wj /\ xi + wi <= xj /\ 2 * xj + (-1) * wj < 2 * xi + (-1) * wi) /\
  (exists xi wi xj wj, 0 < wi /\ 0 < wj /\ xi + wi <= xj /\ 2 * xj + 3 * wj < 2 * xi + 3 * wi).
Proof. exact order_key_inverted_outside. Qed.

(* [P] whole-circuit idempotence (legalize (legalize c) = legalize c for row-high designs and
   ordering width in [0,1]) is NOT proved for the Abacus model: the three lemmas above are its
   ingredients; the statement itself is validated on every case of the correspondence, on the C++
   and on the extracted model. *)

Example c11_nonvacuous :
  legal_targets 0 10 [(2, 1); (3, 3); (1, 9)] /\
  run 0 10 [Push 2 1; Push 3 3; Push 1 9] = ([1; 3; 9], [0; 0; 0]) /\
  run 0 10 [Push 3 3; Push 2 1; Push 1 9] <> ([3; 1; 9], [0; 0; 0]).
Proof. split; [cbn; lia|]. split; [vm_compute; reflexivity|vm_compute; discriminate]. Qed.

Print Assumptions c11_row_fixpoint.
Print Assumptions c11_own_position_costs_nothing.
Print Assumptions c11_order_preserved.
Print Assumptions c11_ordering_refuted.
