(* C11 -- legalization does not move an already legal single-row placement.
   Models: RowLeg.v (RowLegalizer), Legalizer.v (Abacus over the row legalizers; tied to
   /repo by ./check C11: Circuit::legalize applied twice, exact comparison of both runs with the
   extracted model and of the second result with the first). *)
From Coq Require Import List ZArith Lia Bool.
Import ListNotations.
Require Import CV.RowLeg CV.RowLegProofs CV.RowLegFixProofs.
Local Open Scope Z_scope.

(* [F] a row that is already legal is a fixpoint of the single-row legalizer: inserting its cells
   left to right (targets ordered, non-overlapping, inside the segment) reports cost 0 for every
   insertion and returns exactly the targets *)
Theorem c11_row_fixpoint : forall b e cells,
  legal_targets b e cells ->
  run b e (map (fun c => Push (fst c) (snd c)) cells) = (map snd cells, map (fun _ => 0) cells).
Proof. exact rowleg_fixpoint. Qed.

(* [F] the cost Abacus is quoted for putting a cell back at its own conflict-free position is 0
   (so no other row, whose cost includes width * |dy| > 0, can be strictly better) *)
Theorem c11_own_position_costs_nothing : forall s T w t,
  J s T -> 0 < w -> T <= t - used s -> t + w <= rend s -> snd (get_cost s w t) = 0.
Proof.
  intros s T w t HJ Hw HT He. rewrite query_predicts_push.
  destruct (push_fix s T w t HJ Hw HT He) as (C0 & _). exact C0.
Qed.

(* [F] Legalizer::computeCellOrder keeps the left-to-right order of the cells of a legal row when
   the ordering width ow = p/q lies in [0,1] (key scaled by q; the y and height terms are equal for
   two row-high cells of one row) *)
Theorem c11_order_preserved : forall p q xi wi xj wj,
  0 < q -> 0 <= p <= q -> 0 < wi -> 0 < wj -> xi + wi <= xj -> q * xi + p * wi < q * xj + p * wj.
Proof. exact order_key_preserved. Qed.

(* [R, known finding F10] LegalizationParameters::check accepts ordering widths in [-1,2]; outside
   [0,1] the key can invert two cells of a legal row, the row legalizer then receives them in the
   wrong order and moves them *)
Theorem c11_ordering_refuted :
  (exists xi wi xj wj, 0 < wi /\ 0 < wj /\ xi + wi <= xj /\ 2 * xj + (-1) * wj < 2 * xi + (-1) * wi) /\
  (exists xi wi xj wj, 0 < wi /\ 0 < wj /\ xi + wi <= xj /\ 2 * xj + 3 * wj < 2 * xi + 3 * wi).
Proof. exact order_key_inverted_outside. Qed.

(* whole-circuit idempotence: proved below (c11_legal_placement_not_moved, c11_legalize_idempotent,
   c11_legalize_twice; LegalizerIdempotentProofs.v) *)

Example c11_nonvacuous :
  legal_targets 0 10 [(2, 1); (3, 3); (1, 9)] /\
  run 0 10 [Push 2 1; Push 3 3; Push 1 9] = ([1; 3; 9], [0; 0; 0]) /\
  run 0 10 [Push 3 3; Push 2 1; Push 1 9] <> ([3; 1; 9], [0; 0; 0]).
Proof. split; [cbn; lia|]. split; [vm_compute; reflexivity|vm_compute; discriminate]. Qed.

Print Assumptions c11_row_fixpoint.
Print Assumptions c11_own_position_costs_nothing.
Print Assumptions c11_order_preserved.
Print Assumptions c11_ordering_refuted.

(* ================================================================== *)
(* C11 for the RAW legalizer model (LegalizerIdempotentProofs).  The [P] remark above is
   superseded: the circuit-level statement is proved below. *)
Require Import CV.Orient CV.FreeSpace CV.Circuit CV.CircuitProofs CV.Legalizer CV.LegalizerProofs
               CV.LegalizerAbacusProofs CV.LegalizerSoundProofs CV.LegalizerTrivialProofs
               CV.LegalizerIdempotentProofs.

(* [F] the Abacus pass (abacus_run: row scans with their early stops and strict comparisons,
   per-segment RowLegalizer states, read-back) over pairwise disjoint segments of one positive
   height: cells that are row-high, each inside a segment its polarity admits
   (sits c r: bottom edge on r, x-range inside r), handed over so that within each segment
   they come left to right, are returned exactly at their targets, with the orientation
   prescribed in that segment *)
Theorem c11_abacus_fixpoint : forall rows0 cells rh,
  0 < rh ->
  (forall r, In r rows0 -> maxY (rr r) - minY (rr r) = rh /\ minX (rr r) <= maxX (rr r)) ->
  pairwise_disjoint (map rr rows0) ->
  (forall m c, nth_error cells m = Some c ->
     0 < cw c /\ ch c = rh /\ exists r, In r rows0 /\ sits c r /\ seg_orientation c r <> oINVALID) ->
  (forall m m' c c' r, (m < m')%nat -> nth_error cells m = Some c -> nth_error cells m' = Some c' ->
     In r rows0 -> sits c r -> sits c' r -> ctx c + cw c <= ctx c') ->
  forall m c, nth_error cells m = Some c ->
    exists r, In r rows0 /\ sits c r /\
      nth_error (abacus_run rows0 cells) m = Some (Some (ctx c, cty c, seg_orientation c r)).
Proof. exact abacus_fixpoint. Qed.

(* [F] Legalizer::run (Tetris pass selecting nothing, remainingRows, Abacus pass, import,
   checkAllPlaced) returns Ok with every cell at its target *)
Theorem c11_legalize_fixpoint : forall rows0 cellsL order rh,
  0 < rh ->
  (forall r, In r rows0 -> maxY (rr r) - minY (rr r) = rh /\ nonempty_row r) ->
  pairwise_disjoint (map rr rows0) ->
  (forall i c, nth_error cellsL i = Some c ->
     0 < cw c /\ ch c = rh /\ exists r, In r rows0 /\ sits c r /\ seg_orientation c r <> oINVALID) ->
  (forall i j ci cj r, i <> j -> nth_error cellsL i = Some ci -> nth_error cellsL j = Some cj ->
     In r rows0 -> sits ci r -> sits cj r -> ctx ci + cw ci <= ctx cj \/ ctx cj + cw cj <= ctx ci) ->
  NoDup order -> (forall i, In i order <-> (i < length cellsL)%nat) ->
  (forall a b i j ci cj r, nth_error order a = Some i -> nth_error order b = Some j ->
     nth_error cellsL i = Some ci -> nth_error cellsL j = Some cj ->
     In r rows0 -> sits ci r -> sits cj r -> ctx ci + cw ci <= ctx cj -> (a < b)%nat) ->
  exists pl, legalize rows0 cellsL order = Ok pl /\ length pl = length cellsL /\
    forall i c, nth_error cellsL i = Some c ->
      exists r, In r rows0 /\ sits c r /\ nth_error pl i = Some (ctx c, cty c, seg_orientation c r).
Proof. exact legalize_fixpoint. Qed.

(* [F on the domain rowhigh_design (rows of one positive height, pairwise disjoint, not turned;
   movable cells of positive width, exactly one row high, not turned unless without polarity;
   fixed cells and obstructions arbitrary)] THE property for the RAW algorithm:
   DetailedPlacer::legalize applied to a placement that is already legal (Circuit.legal, C01)
   succeeds and moves no cell -- every cell keeps x, y, its dimensions and flags (kept); the only
   thing that can change is the orientation of a movable cell, which becomes the one its
   polarity prescribes in the row under it (its own when the polarity is ANY).
   Hypotheses beyond legality, both needed:
   - polarity_admits: the row under each movable cell is not forbidden for its polarity
     (legality says nothing about orientations; a cell on a forbidden row is moved away);
   - order_left_to_right: the order is a permutation of the movable cells' indices in which
     two cells of one free segment come left to right.  Legalizer::computeCellOrder guarantees
     it when the ordering width lies in [0,1] (c11_order_preserved above; outside [0,1]:
     c11_ordering_refuted, known finding F10), the float key being exact for |v| < 2^20. *)
Theorem c11_legal_placement_not_moved : forall c rh order,
  rowhigh_design c rh -> legal c -> polarity_admits c -> order_left_to_right c order ->
  exists c', legalize_circuit c order = LegOk c' /\ rows c' = rows c /\
             Forall2 (kept c) (cells c) (cells c').
Proof. exact legalize_circuit_fixpoint. Qed.

(* [F, same domain] ... and when every movable cell already has the orientation prescribed in
   its row (e.g. no cell has a polarity, or the placement comes out of the legalizer), the
   circuit is returned unchanged *)
Theorem c11_legalize_idempotent : forall c rh order,
  rowhigh_design c rh -> legal c -> polarity_admits c -> order_left_to_right c order ->
  (forall k r, In k (movable c) -> In r (rows c) -> under r k -> seg_orientation (leg_cell_of k) r = c_o k) ->
  legalize_circuit c order = LegOk c.
Proof. exact legalize_circuit_idempotent. Qed.

(* [F, same domain] "in particular legalizing twice gives the same positions as legalizing
   once": the output c1 of a successful legalization of ANY row-high design (legal or not,
   any order for the first run) is returned unchanged by a second legalization whose order is
   left to right within each free segment of c1 *)
Theorem c11_legalize_twice : forall c rh order order2 c1,
  rowhigh_design c rh -> legalize_circuit c order = LegOk c1 -> order_left_to_right c1 order2 ->
  legalize_circuit c1 order2 = LegOk c1.
Proof. exact legalize_circuit_twice. Qed.

(* [P] what is not covered: designs outside rowhigh_design (multi-row movable cells are excluded
   by the statement of C11; turned rows, overlapping rows).  The link between computeCellOrder and
   order_left_to_right is proved at the end of this file for the model of computeCellOrder over Q
   (c11_real_order_left_to_right and the closed-model theorems c11_legalize_real_order_...); what
   stays outside the proof is the binary32 evaluation of the key (exact, hence equal to the model,
   when every intermediate is a multiple of 2^-s below 2^(24-s) in magnitude: compared exactly on
   such cases by checks/c11_order.py; rounded keys may tie or invert two cells where the exact keys
   do not). *)

(* non-vacuity: two rows, an obstruction splitting the first, three movable cells (polarities
   SAME / ANY / OPPOSITE) legally placed, two of them in one segment: every hypothesis holds,
   and the legalizer returns the very same circuit; in the reverse order it does not *)
Definition ex_c11 : circuit :=
  {| rows := [ {| rr := {| minX := 0; maxX := 10; minY := 0; maxY := 2 |}; ro := oN |};
               {| rr := {| minX := 0; maxX := 10; minY := 2; maxY := 4 |}; ro := oFS |} ];
     cells := [ {| c_x := 4; c_y := 0; c_w := 2; c_h := 2; c_o := oN; c_pol := pANY; c_fixed := true; c_obs := true |};
                {| c_x := 0; c_y := 0; c_w := 3; c_h := 2; c_o := oN; c_pol := pSAME; c_fixed := false; c_obs := true |};
                {| c_x := 2; c_y := 2; c_w := 3; c_h := 2; c_o := oS; c_pol := pANY; c_fixed := false; c_obs := true |};
                {| c_x := 6; c_y := 2; c_w := 2; c_h := 2; c_o := oN; c_pol := pOPPOSITE; c_fixed := false; c_obs := true |} ] |}.

Example c11_circuit_nonvacuous :
  rowhigh_design ex_c11 2 /\ legal ex_c11 /\ polarity_admits ex_c11 /\
  order_left_to_right ex_c11 [0%nat; 1%nat; 2%nat] /\
  (forall k r, In k (movable ex_c11) -> In r (rows ex_c11) -> under r k ->
               seg_orientation (leg_cell_of k) r = c_o k) /\
  legalize_circuit ex_c11 [0%nat; 1%nat; 2%nat] = LegOk ex_c11 /\
  legalize_circuit ex_c11 [0%nat; 2%nat; 1%nat] <> LegOk ex_c11.
Proof.
  assert (Hmv : forall k, In k (movable ex_c11) ->
            k = {| c_x := 0; c_y := 0; c_w := 3; c_h := 2; c_o := oN; c_pol := pSAME; c_fixed := false; c_obs := true |} \/
            k = {| c_x := 2; c_y := 2; c_w := 3; c_h := 2; c_o := oS; c_pol := pANY; c_fixed := false; c_obs := true |} \/
            k = {| c_x := 6; c_y := 2; c_w := 2; c_h := 2; c_o := oN; c_pol := pOPPOSITE; c_fixed := false; c_obs := true |}).
  { intros k Hk. vm_compute in Hk. destruct Hk as [<-|[<-|[<-|[]]]]; auto. }
  split; [|split; [|split; [|split; [|split; [|split]]]]].
  - split; [lia|]. split; [|split; [|split]].
    + intros r [<-|[<-|[]]]; reflexivity.
    + apply pairwise_disjointb_spec. vm_compute. reflexivity.
    + intros r [<-|[<-|[]]]; reflexivity.
    + intros k Hk. destruct (Hmv k Hk) as [-> | [-> | ->]]; (split; [vm_compute; reflexivity|split; [vm_compute; reflexivity|]]);
        [left|right|left]; reflexivity.
  - apply legalb_correct. vm_compute. reflexivity.
  - intros k r Hk Hr Hu. destruct (Hmv k Hk) as [-> | [-> | ->]]; destruct Hr as [<-|[<-|[]]];
      first [vm_compute; discriminate | exfalso; unfold under in Hu; cbn in Hu; lia].
  - split; [repeat constructor; cbn; intuition discriminate|]. split.
    + intros i. change (length (movable ex_c11)) with 3%nat. cbn. split; [intros [<-|[<-|[<-|[]]]]; lia|].
      intros H. destruct i as [|[|[|i]]]; auto; lia.
    + intros a b i j ki kj s Ha Hb Hi Hj Hs Si Sj Hx.
      destruct a as [|[|[|a]]]; cbn in Ha; try (destruct a; discriminate); injection Ha as <-;
      destruct b as [|[|[|b]]]; cbn in Hb; try (destruct b; discriminate); injection Hb as <-; try lia;
      vm_compute in Hi; vm_compute in Hj; injection Hi as <-; injection Hj as <-;
      exfalso; unfold sits in Si, Sj; cbn in Si, Sj, Hx; lia.
  - intros k r Hk Hr Hu. destruct (Hmv k Hk) as [-> | [-> | ->]]; destruct Hr as [<-|[<-|[]]];
      first [vm_compute; reflexivity | exfalso; unfold under in Hu; cbn in Hu; lia].
  - vm_compute. reflexivity.
  - vm_compute. discriminate.
Qed.

Print Assumptions c11_abacus_fixpoint.
Print Assumptions c11_legalize_fixpoint.
Print Assumptions c11_legal_placement_not_moved.
(* non-vacuity of c11_legalize_twice: the same rows with the three cells far away and stacked;
   the first run moves them, the second returns its input *)
Definition ex_c11_bad : circuit :=
  {| rows := rows ex_c11;
     cells := [ {| c_x := 4; c_y := 0; c_w := 2; c_h := 2; c_o := oN; c_pol := pANY; c_fixed := true; c_obs := true |};
                {| c_x := 7; c_y := 9; c_w := 3; c_h := 2; c_o := oS; c_pol := pSAME; c_fixed := false; c_obs := true |};
                {| c_x := 7; c_y := 9; c_w := 3; c_h := 2; c_o := oS; c_pol := pANY; c_fixed := false; c_obs := true |};
                {| c_x := -5; c_y := 1; c_w := 2; c_h := 2; c_o := oFN; c_pol := pOPPOSITE; c_fixed := false; c_obs := true |} ] |}.
Example c11_twice_nonvacuous :
  exists c1, legalize_circuit ex_c11_bad [2%nat; 0%nat; 1%nat] = LegOk c1 /\ c1 <> ex_c11_bad /\
             legalb ex_c11_bad = false /\ legalb c1 = true /\
             legalize_circuit c1 [2%nat; 0%nat; 1%nat] = LegOk c1.
Proof.
  eexists. split; [vm_compute; reflexivity|]. split; [discriminate|].
  split; [vm_compute; reflexivity|]. split; vm_compute; reflexivity.
Qed.

Print Assumptions c11_legalize_idempotent.
Print Assumptions c11_legalize_twice.

(* ================================================================== *)
(* The cell order is no longer an oracle: LegalizerBase::computeCellOrder is modelled
   (CellOrder.v: key over Q, std::stable_sort of the (key, index) pairs under std::pair's order) and
   the chain is closed (CellOrderProofs.v).  legalize_real p c = legalize_circuit c (cell_order p c)
   is the CLOSED model of DetailedPlacer::legalize with LegalizationParameters p
   (op_w = orderingWidth, op_y = orderingY, op_h = orderingHeight; the weight of x is 1.0).
   Tie: checks/c11_order.py compares cell_order with the vector returned by the real computeCellOrder,
   exactly where the binary32 evaluation of the key is exact. *)
From Coq Require Import QArith Permutation.
Require Import CV.CellOrder CV.CellOrderProofs.

(* [F] computeCellOrder returns a permutation of the cell indices 0..n-1, for all weights and cells *)
Theorem c11_cell_order_permutation : forall wx ww wy wh cells,
  Permutation (compute_cell_order wx ww wy wh cells) (seq 0 (length cells)).
Proof. exact compute_cell_order_perm. Qed.

(* [F] ... and it is THE sorted one: whenever (key_i, i) < (key_j, j) in std::pair's order, i comes
   before j (the pairs are pairwise different, so this fixes the position of every index) *)
Theorem c11_cell_order_sorted : forall wx ww wy wh cells a b i j ci cj,
  nth_error (compute_cell_order wx ww wy wh cells) a = Some i ->
  nth_error (compute_cell_order wx ww wy wh cells) b = Some j ->
  nth_error cells i = Some ci -> nth_error cells j = Some cj ->
  pair_ltb (cell_key wx ww wy wh ci, i) (cell_key wx ww wy wh cj, j) = true -> (a < b)%nat.
Proof. exact compute_cell_order_sorted. Qed.

(* [F] the hypothesis order_left_to_right of the theorems above holds for the computed order on every
   row-high design when 0 <= orderingWidth <= 1, whatever orderingY and orderingHeight (two cells of
   one free segment have the same y and the same placed height: these terms are equal in both keys) *)
Theorem c11_real_order_left_to_right : forall p c rh,
  rowhigh_design c rh -> (0 <= op_w p)%Q -> (op_w p <= 1)%Q -> order_left_to_right c (cell_order p c).
Proof. exact cell_order_left_to_right. Qed.

(* [F on rowhigh_design, orderingWidth in [0,1]] THE property for the closed model: no cell of a legal
   placement on admitted rows is moved (kept: only the orientation may become the prescribed one) *)
Theorem c11_legalize_real_order_fixpoint : forall p c rh,
  rowhigh_design c rh -> legal c -> polarity_admits c -> (0 <= op_w p)%Q -> (op_w p <= 1)%Q ->
  exists c', legalize_real p c = LegOk c' /\ rows c' = rows c /\ Forall2 (kept c) (cells c) (cells c').
Proof. exact legalize_real_fixpoint. Qed.

(* [F, same domain] ... and the circuit is returned unchanged when the orientations are already the
   prescribed ones *)
Theorem c11_legalize_real_order_idempotent : forall p c rh,
  rowhigh_design c rh -> legal c -> polarity_admits c -> (0 <= op_w p)%Q -> (op_w p <= 1)%Q ->
  (forall k r, In k (movable c) -> In r (rows c) -> under r k -> seg_orientation (leg_cell_of k) r = c_o k) ->
  legalize_real p c = LegOk c.
Proof. exact legalize_real_idempotent. Qed.

(* [F, same domain] legalizing twice = legalizing once, each run computing its own order: the first
   run with ANY parameters p0 on ANY row-high design (legal or not), the second with orderingWidth
   in [0,1] (in particular p = p0) *)
Theorem c11_legalize_real_order_twice : forall p0 p c rh c1,
  rowhigh_design c rh -> legalize_real p0 c = LegOk c1 -> (0 <= op_w p)%Q -> (op_w p <= 1)%Q ->
  legalize_real p c1 = LegOk c1.
Proof. exact legalize_real_twice. Qed.

(* [R, known finding F10, now at circuit level] for an accepted orderingWidth in (1,2] and for one in
   [-1,0) there is a circuit satisfying every other hypothesis of c11_legalize_real_order_idempotent
   whose cells the closed model moves (w_f10 with 3/2: wide cell then narrow cell; w_f10b with -1/2) *)
Theorem c11_real_order_refuted :
  (exists c p c', fixpoint_hyps c 2 /\ (1 < op_w p)%Q /\ (op_w p <= 2)%Q /\
                  legalize_real p c = LegOk c' /\ map c_x (cells c') <> map c_x (cells c)) /\
  (exists c p c', fixpoint_hyps c 2 /\ (-1 <= op_w p)%Q /\ (op_w p < 0)%Q /\
                  legalize_real p c = LegOk c' /\ map c_x (cells c') <> map c_x (cells c)).
Proof. exact legalize_real_ordering_refuted. Qed.

(* non-vacuity: the parameters of effort 3 (orderingWidth 0.2, orderingY 0, orderingHeight -1) on the
   three-cell circuit above: the computed order is [0;1;2], the closed model returns the circuit; with
   ordering width 3/2 on w_f10 the computed order is inverted *)
Definition p_default : order_params := {| op_w := 1 # 5; op_y := 0; op_h := -1 # 1 |}.
Example c11_real_order_nonvacuous :
  (0 <= op_w p_default)%Q /\ (op_w p_default <= 1)%Q /\
  cell_order p_default ex_c11 = [0%nat; 1%nat; 2%nat] /\ legalize_real p_default ex_c11 = LegOk ex_c11 /\
  (exists c1, legalize_real p_default ex_c11_bad = LegOk c1 /\ c1 <> ex_c11_bad /\ legalize_real p_default c1 = LegOk c1) /\
  cell_order p_f10 w_f10 = [1%nat; 0%nat].
Proof.
  split; [discriminate|]. split; [discriminate|]. split; [vm_compute; reflexivity|]. split; [vm_compute; reflexivity|].
  split; [|vm_compute; reflexivity]. eexists. split; [vm_compute; reflexivity|]. split; [discriminate|vm_compute; reflexivity].
Qed.

Print Assumptions c11_cell_order_permutation.
Print Assumptions c11_cell_order_sorted.
Print Assumptions c11_real_order_left_to_right.
Print Assumptions c11_legalize_real_order_fixpoint.
Print Assumptions c11_legalize_real_order_idempotent.
Print Assumptions c11_legalize_real_order_twice.
Print Assumptions c11_real_order_refuted.
