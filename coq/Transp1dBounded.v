(* C14 -- bounded optimality theorems: on three explicit finite boxes of problems, the plan returned by the model of
   solve() passes the proved certificate checker (hence is valid and of minimum cost).  vm_compute only. *)
From Coq Require Import List ZArith Bool.
Import ListNotations.
Require Import CV.Transp1d CV.Transp1dProofs CV.Transp1dCert.
Local Open Scope Z_scope.

(* box A: 1..3 sources, 1..3 sinks, positions 0..2, supplies 0..2, demands 0..3 *)
Lemma box_a_ok : forall_probs_upto 3 3 [0;1;2] [0;1;2] [0;1;2;3] bounded_ok = true.
Proof. vm_compute. reflexivity. Qed.
(* box B: 1..2 sources, 1..3 sinks, positions 0..3, supplies 0..3, demands 0..3 *)
Lemma box_b_ok : forall_probs_upto 2 3 [0;1;2;3] [0;1;2;3] [0;1;2;3] bounded_ok = true.
Proof. vm_compute. reflexivity. Qed.
(* box C: 1..4 sources, 1..2 sinks, positions 0..2, supplies 0..2, demands 0..3 *)
Lemma box_c_ok : forall_probs_upto 4 2 [0;1;2] [0;1;2] [0;1;2;3] bounded_ok = true.
Proof. vm_compute. reflexivity. Qed.
