(* Proofs about coq/Api.v: the frame of the three export functions (C03) and the busy-flag protocol,
   exception safety and size consistency of placement calls (C10). *)
From Coq Require Import List ZArith Lia Bool Arith.
Import ListNotations.
Require Import CV.Orient CV.FreeSpace CV.Api.
Local Open Scope Z_scope.

(* ------------------------------------------------------------------ lists *)
Lemma upd_length {A} (l : list A) i v : length (upd l i v) = length l.
Proof. revert i; induction l as [|a l IH]; intros [|i]; cbn; auto. Qed.

Lemma nth_error_upd_other {A} (l : list A) i j v : i <> j -> nth_error (upd l i v) j = nth_error l j.
Proof.
  revert i j; induction l as [|a l IH]; intros [|i] [|j] H; cbn; auto; try congruence.
Qed.

Lemma nth_true_nth_error (f : list bool) i : nth_error f i = Some true -> nth i f false = true.
Proof. intros H. apply nth_error_nth with (d := false) in H. exact H. Qed.

Lemma nth_nth_error_true (f : list bool) i : nth i f false = true -> nth_error f i = Some true.
Proof.
  revert i; induction f as [|b f IH]; intros [|i]; cbn; try discriminate.
  - intros ->; reflexivity.
  - apply IH.
Qed.

(* ------------------------------------------------------------------ C03: frame *)
Lemma fixed_same_refl {A} f (l : list A) : fixed_same f l l.
Proof. split; auto. Qed.

Lemma fixed_same_trans {A} f (a b c : list A) : fixed_same f a b -> fixed_same f b c -> fixed_same f a c.
Proof. intros [L1 H1] [L2 H2]; split; [congruence|]. intros i Hi. rewrite H1, H2; auto. Qed.

Lemma fixed_same_upd {A} f (l : list A) i v : nth i f false = false -> fixed_same f l (upd l i v).
Proof.
  intros Hf; split; [now rewrite upd_length|].
  intros j Hj. symmetry; apply nth_error_upd_other. intros ->.
  apply nth_true_nth_error in Hj. congruence.
Qed.

Lemma frame_refl c : frame_ok c c.
Proof. constructor; auto using fixed_same_refl. Qed.

Lemma frame_trans a b c : frame_ok a b -> frame_ok b c -> frame_ok a c.
Proof.
  intros [] []; constructor; try congruence.
  - eapply fixed_same_trans; eauto. now rewrite fr_fixed.
  - eapply fixed_same_trans; eauto. now rewrite fr_fixed.
  - eapply fixed_same_trans; eauto. now rewrite fr_fixed.
Qed.

(* a circuit that differs only by x/y/orientation values of non-fixed cells *)
Lemma frame_xyo c x y o :
  fixed_same (cellFixed c) (cellX c) x -> fixed_same (cellFixed c) (cellY c) y -> fixed_same (cellFixed c) (cellO c) o ->
  frame_ok c (set_cellO (set_cellY (set_cellX c x) y) o).
Proof. intros; constructor; cbn; auto. Qed.

Lemma frame_xy c x y :
  fixed_same (cellFixed c) (cellX c) x -> fixed_same (cellFixed c) (cellY c) y ->
  frame_ok c (set_cellY (set_cellX c x) y).
Proof. intros; constructor; cbn; auto using fixed_same_refl. Qed.

Lemma frame_flags c a b d : frame_ok c (set_inUse (set_netUpd (set_sizeUpd c a) b) d).
Proof. constructor; cbn; auto using fixed_same_refl. Qed.

Lemma frame_inuse c d : frame_ok c (set_inUse c d).
Proof. constructor; cbn; auto using fixed_same_refl. Qed.

Lemma frame_upd_flags c a b : frame_ok c (set_netUpd (set_sizeUpd c a) b).
Proof. constructor; cbn; auto using fixed_same_refl. Qed.

Lemma export_glob_loop_frame idx x2 y2 c : frame_ok c (export_glob_loop idx x2 y2 c).
Proof.
  revert c; induction idx as [|i r IH]; intros c; cbn; [apply frame_refl|].
  destruct (is_fixed c i) eqn:F; [apply IH|].
  eapply frame_trans; [|apply IH].
  apply frame_xy; cbn; apply fixed_same_upd; exact F.
Qed.

Theorem export_glob_frame x2 y2 c : frame_ok c (export_glob x2 y2 c).
Proof. apply export_glob_loop_frame. Qed.

Lemma export_glob_loop_orient idx x2 y2 c : cellO (export_glob_loop idx x2 y2 c) = cellO c.
Proof.
  revert c; induction idx as [|i r IH]; intros c; cbn; auto.
  destruct (is_fixed c i); rewrite IH; reflexivity.
Qed.

Theorem export_glob_orient x2 y2 c : cellO (export_glob x2 y2 c) = cellO c.
Proof. apply export_glob_loop_orient. Qed.

Lemma export_leg_loop_frame idx l c : frame_ok c (fst (export_leg_loop idx l c)).
Proof.
  revert l c; induction idx as [|i r IH]; intros l c; cbn; [apply frame_refl|].
  destruct (is_fixed c i) eqn:F; [apply IH|].
  destruct l as [|k l']; cbn; [apply frame_refl|].
  eapply frame_trans; [|apply IH].
  destruct (lc_placed k); [|apply frame_refl].
  apply frame_xyo; apply fixed_same_upd; exact F.
Qed.

Theorem export_leg_frame l c : frame_ok c (fst (export_leg l c)).
Proof. apply export_leg_loop_frame. Qed.

Theorem export_det_frame l c : frame_ok c (export_det l c).
Proof.
  revert c; induction l as [|k r IH]; intros c; cbn; [apply frame_refl|].
  destruct (dc_index k <? 0); [apply IH|].
  destruct (is_fixed c (Z.to_nat (dc_index k))) eqn:F; [apply IH|].
  eapply frame_trans; [|apply IH].
  apply frame_xyo; apply fixed_same_upd; exact F.
Qed.

Lemma apply_export_frame c a : frame_ok c (apply_export c a).
Proof. destruct a; cbn; auto using export_glob_frame, export_leg_frame, export_det_frame. Qed.

(* any sequence of exports of arbitrary internal vectors, hence any cut point *)
Theorem run_exports_frame l c : frame_ok c (run_exports c l).
Proof.
  unfold run_exports. revert c; induction l as [|a r IH]; intros c; cbn; [apply frame_refl|].
  eapply frame_trans; [apply apply_export_frame|apply IH].
Qed.

Theorem run_exports_global_orient l c : forallb is_glob l = true -> cellO (run_exports c l) = cellO c.
Proof.
  unfold run_exports. revert c; induction l as [|a r IH]; intros c H; cbn in *; auto.
  apply andb_prop in H as [Ha Hr]. rewrite IH by exact Hr.
  destruct a; try discriminate. apply export_glob_orient.
Qed.

(* ---- the boolean checker *)
Lemma list_eqb_eq {A} (eqb : A -> A -> bool) (Heq : forall x y, eqb x y = true <-> x = y) a b :
  list_eqb eqb a b = true <-> a = b.
Proof.
  revert b; induction a as [|x a IH]; intros [|y b]; cbn; split; intros H; try discriminate; auto.
  - apply andb_prop in H as [H1 H2]. apply Heq in H1. apply IH in H2. congruence.
  - injection H as -> ->. apply andb_true_intro; split; [now apply Heq|now apply IH].
Qed.

Lemma beqb_eq x y : Bool.eqb x y = true <-> x = y.
Proof. destruct x, y; cbn; split; auto; discriminate. Qed.

Lemma polarity_eqb_eq a b : polarity_eqb a b = true <-> a = b.
Proof. destruct a, b; cbn; split; intros H; try reflexivity; try discriminate. Qed.

Lemma rect_eqb_eq a b : rect_eqb a b = true <-> a = b.
Proof.
  unfold rect_eqb; destruct a, b; cbn; split.
  - intros H. repeat (apply andb_prop in H as [H ?]). apply Z.eqb_eq in H. repeat match goal with X : (_ =? _) = true |- _ => apply Z.eqb_eq in X end. congruence.
  - intros H; injection H as -> -> -> ->. now rewrite !Z.eqb_refl.
Qed.

Lemma row_eqb_eq a b : row_eqb a b = true <-> a = b.
Proof.
  unfold row_eqb; destruct a, b; cbn; split.
  - intros H. apply andb_prop in H as [H1 H2]. apply rect_eqb_eq in H1. apply orient_eqb_eq in H2. congruence.
  - intros H; injection H as -> ->. apply andb_true_intro; split; [now apply rect_eqb_eq|now apply orient_eqb_eq].
Qed.

Lemma opt_eqb_eq {A} (eqb : A -> A -> bool) (Heq : forall x y, eqb x y = true <-> x = y) a b :
  opt_eqb eqb a b = true <-> a = b.
Proof.
  destruct a, b; cbn; split; intros H; try discriminate; auto.
  - apply Heq in H; congruence.
  - injection H as ->; now apply Heq.
Qed.

Lemma fixed_sameb_ok {A} (eqb : A -> A -> bool) (Heq : forall x y, eqb x y = true <-> x = y) f la lb :
  fixed_sameb eqb f la lb = true <-> fixed_same f la lb.
Proof.
  unfold fixed_sameb, fixed_same; split.
  - intros H. apply andb_prop in H as [HL HF]. apply Nat.eqb_eq in HL. split; [exact HL|].
    intros i Hi. rewrite forallb_forall in HF.
    assert (Hin : In i (seq 0 (length f))).
    { apply in_seq. split; [lia|]. cbn. apply nth_error_Some. congruence. }
    specialize (HF i Hin). rewrite (nth_true_nth_error _ _ Hi) in HF. now apply (opt_eqb_eq eqb Heq).
  - intros [HL HF]. apply andb_true_intro; split; [now apply Nat.eqb_eq|].
    apply forallb_forall. intros i _. destruct (nth i f false) eqn:E; auto.
    apply (opt_eqb_eq eqb Heq). apply HF. now apply nth_nth_error_true.
Qed.

Theorem frame_okb_correct a b : frame_okb a b = true <-> frame_ok a b.
Proof.
  unfold frame_okb; split.
  - intros H. repeat (apply andb_prop in H as [H ?]).
    repeat match goal with
           | X : list_eqb Z.eqb _ _ = true |- _ => apply (list_eqb_eq Z.eqb Z.eqb_eq) in X
           | X : list_eqb Bool.eqb _ _ = true |- _ => apply (list_eqb_eq Bool.eqb beqb_eq) in X
           | X : list_eqb polarity_eqb _ _ = true |- _ => apply (list_eqb_eq polarity_eqb polarity_eqb_eq) in X
           | X : list_eqb row_eqb _ _ = true |- _ => apply (list_eqb_eq row_eqb row_eqb_eq) in X
           | X : fixed_sameb Z.eqb _ _ _ = true |- _ => apply (fixed_sameb_ok Z.eqb Z.eqb_eq) in X
           | X : fixed_sameb orient_eqb _ _ _ = true |- _ => apply (fixed_sameb_ok orient_eqb orient_eqb_eq) in X
           end.
    constructor; assumption.
  - intros [].
    unfold frame_okb.
    let rec sp := (lazymatch goal with |- (_ && _) = true => apply andb_true_intro; split; [sp|] | |- _ => idtac end) in sp;
      first [ now apply (list_eqb_eq Z.eqb Z.eqb_eq) | now apply (list_eqb_eq Bool.eqb beqb_eq)
            | now apply (list_eqb_eq polarity_eqb polarity_eqb_eq) | now apply (list_eqb_eq row_eqb row_eqb_eq)
            | now apply (fixed_sameb_ok Z.eqb Z.eqb_eq) | now apply (fixed_sameb_ok orient_eqb orient_eqb_eq) ].
Qed.

Theorem orient_keptb_correct a b : orient_keptb a b = true <-> cellO a = cellO b.
Proof. apply (list_eqb_eq orient_eqb orient_eqb_eq). Qed.

(* ------------------------------------------------------------------ C10: setters *)
Ltac break_if :=
  repeat match goal with
         | |- context [if ?b then _ else _] => destruct b eqn:?
         end.

Lemma apply_setter_inuse c s : inUse (snd (apply_setter c s)) = inUse c.
Proof. destruct s; cbn; break_if; cbn; auto; destruct cells; cbn; auto. Qed.

(* "refused with an error and changes nothing" *)
Lemma guarded_refused c s :
  inUse c = true -> guarded s = true ->
  snd (apply_setter c s) = c /\ (fst (apply_setter c s) = RefusedInUse \/ fst (apply_setter c s) = RejectedArgs).
Proof. intros HU HG; destruct s; try discriminate; cbn; rewrite HU; break_if; cbn; auto. Qed.

(* "modifications are accepted again" *)
Lemma idle_accepts c s : inUse c = false -> args_ok c s = true -> fst (apply_setter c s) = Accepted.
Proof.
  intros HU HA; destruct s; cbn in *; rewrite ?HU; cbn.
  - apply andb_prop in HA as [HA1 HA2]. rewrite HA1, HA2. cbn. destruct cells; reflexivity.
  - rewrite HA. reflexivity.
  - reflexivity.
  - apply Z.ltb_lt in HA. destruct (rh <=? 0) eqn:E; [apply Z.leb_le in E; lia|reflexivity].
  - now rewrite HA.
  - now rewrite HA.
  - now rewrite HA.
  - now rewrite HA.
  - now rewrite HA.
  - now rewrite HA.
  - now rewrite HA.
  - now rewrite HA.
  - now rewrite HA.
  - now rewrite HA.
Qed.

(* the size equalities of Circuit::check() (+ the polarity vector), as a proposition *)
Definition cons_prop (c : acirc) : Prop :=
  length (cellH c) = length (cellW c) /\ length (cellFixed c) = length (cellW c) /\ length (cellObs c) = length (cellW c) /\
  length (cellX c) = length (cellW c) /\ length (cellY c) = length (cellW c) /\ length (cellO c) = length (cellW c) /\
  length (netLimits c) <> O /\ hd 1 (netLimits c) = 0 /\
  Z.of_nat (length (netWeights c)) = Z.of_nat (length (netLimits c)) - 1 /\
  Z.of_nat (length (pinCells c)) = last (netLimits c) 0 /\ Z.of_nat (length (pinXOffs c)) = last (netLimits c) 0 /\
  Z.of_nat (length (pinYOffs c)) = last (netLimits c) 0 /\
  length (cellPol c) = length (cellW c).

Lemma consistent_iff c : consistent c = true <-> cons_prop c.
Proof.
  unfold consistent, check_ok, cons_prop, len_is, nb_cells, nb_nets, nb_pins.
  rewrite !andb_true_iff, negb_true_iff, !Nat.eqb_eq, Nat.eqb_neq, !Z.eqb_eq. tauto.
Qed.

Lemma new_circuit_consistent n : consistent (new_circuit n) = true.
Proof. apply consistent_iff. unfold cons_prop; cbn. rewrite !repeat_length. repeat split; auto. Qed.

Lemma last_app_single {A} (l : list A) x d : last (l ++ [x]) d = x.
Proof. induction l as [|a l IH]; cbn; auto. destruct (l ++ [x]) eqn:E; [destruct l; discriminate|exact IH]. Qed.

Lemma hd_app_nonempty {A} (l r : list A) d : length l <> O -> hd d (l ++ r) = hd d l.
Proof. destruct l; cbn; congruence. Qed.

Lemma resize_weights_length w n : length (resize_weights w n) = n.
Proof. unfold resize_weights. rewrite app_length, firstn_length, repeat_length. lia. Qed.

Lemma apply_setter_consistent c s : consistent c = true -> consistent (snd (apply_setter c s)) = true.
Proof.
  rewrite !consistent_iff. unfold cons_prop. intros H.
  destruct s; cbn; unfold len_is, nb_cells, nb_nets in *.
  - (* addNet *)
    destruct (Nat.eqb (length cells) (length xo) && Nat.eqb (length cells) (length yo)) eqn:E; cbn; auto.
    apply andb_prop in E as [E1 E2]. apply Nat.eqb_eq in E1, E2.
    destruct (inUse c); cbn; auto.
    destruct (cells_in_range (length (cellW c)) cells); cbn; auto.
    destruct cells as [|c0 cells]; cbn [snd]; auto.
    cbn [netLimits netWeights pinCells pinXOffs pinYOffs cellW cellH cellFixed cellObs cellPol cellX cellY cellO set_nets].
    rewrite !app_length, last_app_single, hd_app_nonempty by tauto.
    cbn [length] in *. lia.
  - (* setNets *)
    destruct (inUse c); cbn; auto.
    destruct (set_nets_ok (length (cellW c)) limits cells xo yo weights) eqn:E; cbn; auto.
    unfold set_nets_ok in E. destruct limits as [|l0 lr]; [discriminate|].
    repeat (apply andb_prop in E as [E ?]).
    repeat match goal with X : (_ =? _) = true |- _ => apply Z.eqb_eq in X end.
    rewrite resize_weights_length. cbn [length hd] in *.
    repeat split; try tauto; try lia.
  - destruct (inUse c); cbn; tauto.
  - destruct (rh <=? 0); cbn; auto. destruct (inUse c); cbn; tauto.
  - destruct (Nat.eqb (length f) (length (cellW c))) eqn:E; cbn; auto. apply Nat.eqb_eq in E.
    destruct (inUse c); cbn; tauto.
  - destruct (Nat.eqb (length f) (length (cellW c))) eqn:E; cbn; auto. apply Nat.eqb_eq in E.
    destruct (inUse c); cbn; tauto.
  - destruct (Nat.eqb (length p) (length (cellW c))) eqn:E; cbn; auto. apply Nat.eqb_eq in E.
    destruct (inUse c); cbn; tauto.
  - destruct (Nat.eqb (length v) (length (cellW c))) eqn:E; cbn; auto. apply Nat.eqb_eq in E. tauto.
  - destruct (Nat.eqb (length v) (length (cellW c))) eqn:E; cbn; auto. apply Nat.eqb_eq in E. tauto.
  - destruct (Nat.eqb (length v) (length (cellW c))) eqn:E; cbn; auto. apply Nat.eqb_eq in E. tauto.
  - destruct (Nat.eqb (length v) (length (cellW c))) eqn:E; cbn; auto. apply Nat.eqb_eq in E.
    rewrite E. tauto.
  - destruct (Nat.eqb (length v) (length (cellW c))) eqn:E; cbn; auto. apply Nat.eqb_eq in E. tauto.
  - destruct (Z.of_nat (length v) =? Z.of_nat (length (netLimits c)) - 1) eqn:E; cbn; auto. apply Z.eqb_eq in E. tauto.
  - destruct (Nat.eqb (length v) (length (cellW c))) eqn:E; cbn; auto. apply Nat.eqb_eq in E.
    rewrite !map_length. tauto.
Qed.

(* ------------------------------------------------------------------ C10: placement calls *)
(* equal on everything but x / y / orientation values and the two update flags *)
Definition rest_eq (a b : acirc) : Prop :=
  netLimits a = netLimits b /\ netWeights a = netWeights b /\ pinCells a = pinCells b /\ pinXOffs a = pinXOffs b /\
  pinYOffs a = pinYOffs b /\ cellW a = cellW b /\ cellH a = cellH b /\ cellFixed a = cellFixed b /\ cellObs a = cellObs b /\
  cellPol a = cellPol b /\ crows a = crows b /\ inUse a = inUse b /\
  length (cellX a) = length (cellX b) /\ length (cellY a) = length (cellY b) /\ length (cellO a) = length (cellO b).

Lemma rest_eq_refl a : rest_eq a a.
Proof. unfold rest_eq; repeat split; auto. Qed.
Lemma rest_eq_trans a b c : rest_eq a b -> rest_eq b c -> rest_eq a c.
Proof. unfold rest_eq; intros H1 H2; decompose [and] H1; decompose [and] H2; repeat split; congruence. Qed.

Lemma frame_rest a b : frame_ok a b -> inUse a = inUse b -> rest_eq a b.
Proof. intros [] HU; unfold rest_eq; repeat split; auto; [apply fr_x|apply fr_y|apply fr_o]. Qed.

Lemma rest_eq_consistent a b : rest_eq a b -> consistent a = true -> consistent b = true.
Proof.
  rewrite !consistent_iff; unfold rest_eq, cons_prop; intros H1 H2; decompose [and] H1; decompose [and] H2.
  repeat split; congruence.
Qed.

Lemma export_glob_loop_inuse idx x2 y2 c : inUse (export_glob_loop idx x2 y2 c) = inUse c.
Proof. revert c; induction idx as [|i r IH]; intros c; cbn; auto. destruct (is_fixed c i); rewrite IH; reflexivity. Qed.
Lemma export_leg_loop_inuse idx l c : inUse (fst (export_leg_loop idx l c)) = inUse c.
Proof.
  revert l c; induction idx as [|i r IH]; intros l c; cbn; auto. destruct (is_fixed c i); [apply IH|].
  destruct l as [|k l']; cbn; auto. rewrite IH. destruct (lc_placed k); reflexivity.
Qed.
Lemma export_det_inuse l c : inUse (export_det l c) = inUse c.
Proof.
  revert c; induction l as [|k r IH]; intros c; cbn; auto. destruct (dc_index k <? 0); [apply IH|].
  destruct (is_fixed c (Z.to_nat (dc_index k))); rewrite IH; reflexivity.
Qed.

Lemma frame_sizeUpd c b : frame_ok c (set_sizeUpd c b).
Proof. constructor; cbn; auto using fixed_same_refl. Qed.
Lemma exp_g_frame v c : frame_ok c (exp_g v c).
Proof.
  unfold exp_g. destruct (fst v); [|apply export_glob_frame].
  eapply frame_trans; [apply (frame_sizeUpd c false)|apply export_glob_frame].
Qed.
Lemma exp_g_inuse v c : inUse (exp_g v c) = inUse c.
Proof. unfold exp_g, export_glob. rewrite export_glob_loop_inuse. now destruct (fst v). Qed.
Lemma exp_g_orient v c : cellO (exp_g v c) = cellO c.
Proof. unfold exp_g. rewrite export_glob_orient. now destruct (fst v). Qed.
Lemma rest_glob v c : rest_eq c (exp_g v c).
Proof. apply frame_rest; [apply exp_g_frame|symmetry; apply exp_g_inuse]. Qed.
Lemma rest_leg l c : rest_eq c (fst (export_leg l c)).
Proof. apply frame_rest; [apply export_leg_frame|symmetry; apply export_leg_loop_inuse]. Qed.
Lemma rest_det l c : rest_eq c (export_det l c).
Proof. apply frame_rest; [apply export_det_frame|symmetry; apply export_det_inuse]. Qed.
Lemma rest_flags c : rest_eq c (set_netUpd (set_sizeUpd c false) false).
Proof. unfold rest_eq; cbn; repeat split; auto. Qed.

Local Arguments export_leg : simpl never.
Local Arguments export_glob : simpl never.
Local Arguments exp_g : simpl never.

Section CallProofs.
  Variable A : Type.
  Variable runop : acirc -> A -> res * acirc.
  Local Notation cstate := (cstate A).
  Local Notation callback := (callback A).

  (* ---- one walk through the three stage functions, generic in the invariant *)
  Section StageInv.
    Variable R : acirc -> acirc -> Prop.
    Hypothesis R_glob : forall v c, R c (exp_g v c).
    Hypothesis R_leg : forall l c, R c (fst (export_leg l c)).
    Hypothesis R_det : forall l c, R c (export_det l c).
    Hypothesis R_flags : forall c, R c (set_netUpd (set_sizeUpd c false) false).
    Variable P : cstate -> Prop.
    Variable cbo : option callback.
    Hypothesis P_invoke : forall f chk st, cbo = Some f -> P st -> P (fst (invoke A runop chk f st)).
    Hypothesis P_withc : forall st c', P st -> R (cs_c st) c' -> P (with_c A st c').

    Lemma run_events_P {I} (exp : I -> acirc -> acirc) (Hexp : forall i c, R c (exp i c)) chk evs st :
      P st -> P (fst (run_events A runop exp chk cbo evs st)).
    Proof.
      destruct cbo as [f|] eqn:E; [|destruct evs; cbn; auto].
      revert st; induction evs as [|ev r IH]; intros st HP; cbn; auto.
      pose proof (P_invoke f chk (with_c A st (exp (ev (cs_c st)) (cs_c st))) eq_refl) as HI.
      destruct (invoke A runop chk f (with_c A st (exp (ev (cs_c st)) (cs_c st)))) as [st' [e|]]; cbn in *.
      - apply HI. apply P_withc; auto.
      - apply IH. apply HI. apply P_withc; auto.
    Qed.

    Lemma stage_global_P o st : P st -> P (fst (stage_global A runop o cbo st)).
    Proof.
      intros HP; unfold stage_global.
      destruct (negb (o_params_ok o)); cbn; auto.
      destruct (negb (o_setup_ok o (cs_c st))); cbn; auto.
      pose proof (run_events_P exp_g R_glob false (o_gevents o) (with_c A st (set_netUpd (set_sizeUpd (cs_c st) false) false))) as HE.
      destruct (run_events A runop exp_g false cbo (o_gevents o) (with_c A st (set_netUpd (set_sizeUpd (cs_c st) false) false))) as [st2 [e|]];
        cbn in *.
      - apply HE. apply P_withc; auto.
      - assert (P st2) by (apply HE; apply P_withc; auto).
        destruct (o_gfinal o (cs_c st2)); cbn; auto.
    Qed.

    Lemma stage_legalize_P o st : P st -> P (fst (stage_legalize A runop o cbo st)).
    Proof.
      intros HP; unfold stage_legalize.
      destruct (negb (o_params_ok o)); cbn [fst]; auto.
      assert (H1 : P (with_c A st (set_netUpd (set_sizeUpd (cs_c st) false) false))) by (apply P_withc; auto).
      set (st1 := with_c A st (set_netUpd (set_sizeUpd (cs_c st) false) false)) in *.
      destruct (o_leg o (cs_c st1)) as [l|]; cbn [fst]; auto.
      pose proof (R_leg l (cs_c st1)) as HR.
      destruct (export_leg l (cs_c st1)) as [c2 threw]; cbn [fst] in HR.
      assert (H2 : P (with_c A st1 c2)) by (apply P_withc; auto).
      destruct threw; cbn [fst]; auto.
      destruct cbo as [f|] eqn:E; cbn [fst]; auto.
    Qed.

    Lemma stage_detailed_P o st : P st -> P (fst (stage_detailed A runop o cbo st)).
    Proof.
      intros HP; unfold stage_detailed.
      pose proof (stage_legalize_P o st HP) as HL.
      destruct (stage_legalize A runop o cbo st) as [st1 [e|]]; cbn in *; auto.
      destruct (negb (o_setup_ok o (cs_c st1))); cbn; auto.
      pose proof (run_events_P export_det R_det true (o_devents o) st1 HL) as HE.
      destruct (run_events A runop export_det true cbo (o_devents o) st1) as [st2 [e|]]; cbn in *; auto.
      destruct (o_dfinal o (cs_c st2)); cbn; auto.
    Qed.

    Lemma run_stage_P s o st : P st -> P (fst (run_stage A runop s o cbo st)).
    Proof. destruct s; cbn; auto using stage_global_P, stage_legalize_P, stage_detailed_P. Qed.
  End StageInv.

  Lemma invoke_fst chk f st :
    fst (invoke A runop chk f st) =
    {| cs_c := fst (run_ops A runop (nth (cs_n st) (cb_ops f) []) (cs_c st) (cs_log st)); cs_n := S (cs_n st);
       cs_log := snd (run_ops A runop (nth (cs_n st) (cb_ops f) []) (cs_c st) (cs_log st)) |}.
  Proof.
    unfold invoke. destruct (run_ops A runop _ _ _) as [c' log']. cbn [fst snd].
    destruct (cb_throw f) as [t|]; [destruct (Nat.eqb t (cs_n st))|]; try reflexivity;
      destruct (true && (sizeUpd c' || netUpd c')), (chk && (sizeUpd c' || netUpd c')); reflexivity.
  Qed.

  Lemma consistent_set_inUse c b : consistent (set_inUse c b) = consistent c.
  Proof. reflexivity. Qed.

  (* ---- Circuit::check()'s equalities survive a call *)
  Section Cons.
    Hypothesis runop_cons : forall c a, consistent c = true -> consistent (snd (runop c a)) = true.

    Lemma run_ops_cons ops c log : consistent c = true -> consistent (fst (run_ops A runop ops c log)) = true.
    Proof.
      revert c log; induction ops as [|a r IH]; intros c log H; cbn; auto.
      pose proof (runop_cons c a H) as H1. destruct (runop c a) as [rs c']. apply IH. exact H1.
    Qed.

    Theorem call_consistent s o cb c : consistent c = true -> consistent (fst (fst (call A runop s o cb c))) = true.
    Proof.
      intros H. unfold call.
      pose proof (run_stage_P rest_eq rest_glob rest_leg rest_det rest_flags
                    (fun st => consistent (cs_c st) = true) cb) as HS.
      cbv beta in HS.
      assert (HI : forall f chk st, cb = Some f -> consistent (cs_c st) = true ->
                   consistent (cs_c (fst (invoke A runop chk f st))) = true).
      { intros f chk st _ Hst. rewrite invoke_fst; cbn [cs_c]. now apply run_ops_cons. }
      specialize (HS HI). clear HI.
      specialize (HS (fun st c' Hst HR => rest_eq_consistent _ _ HR Hst)).
      specialize (HS s o {| cs_c := set_inUse c true; cs_n := 0; cs_log := [] |} H).
      destruct (run_stage A runop s o cb _) as [st e]. cbn [fst snd] in *. exact HS.
    Qed.
  End Cons.

  (* ---- the flag during and after a call *)
  Theorem call_restores_in_use s o cb c : inUse (fst (fst (call A runop s o cb c))) = inUse c.
  Proof. unfold call. destruct (run_stage A runop s o cb _) as [st e]. reflexivity. Qed.

  Definition entry_ok (e : entry A) : Prop :=
    e_busy e = true /\ exists c', inUse c' = true /\ e_res e = fst (runop c' (e_op e)) /\ e_after e = snd (runop c' (e_op e)).

  Section InUse.
    Hypothesis runop_inuse : forall c a, inUse (snd (runop c a)) = inUse c.

    Lemma run_ops_inuse ops c log : inUse (fst (run_ops A runop ops c log)) = inUse c.
    Proof.
      revert c log; induction ops as [|a r IH]; intros c log; cbn; auto.
      pose proof (runop_inuse c a) as H1. destruct (runop c a) as [rs c']. rewrite IH. exact H1.
    Qed.

    Lemma run_ops_log ops c log :
      inUse c = true -> Forall entry_ok log -> Forall entry_ok (snd (run_ops A runop ops c log)).
    Proof.
      revert c log; induction ops as [|a r IH]; intros c log HU HL; cbn; auto.
      pose proof (runop_inuse c a) as H1. destruct (runop c a) as [rs c'] eqn:E. apply IH.
      - cbn in H1; congruence.
      - apply Forall_app; split; auto. constructor; auto. split; cbn; auto.
        exists c; rewrite E; auto.
    Qed.

    (* every operation issued by a callback of the call (of any stage, oracle, outcome) ran with isInUse_ set *)
    Theorem call_log_in_use s o cb c : Forall entry_ok (snd (fst (call A runop s o cb c))).
    Proof.
      unfold call.
      pose proof (run_stage_P rest_eq rest_glob rest_leg rest_det rest_flags
                    (fun st => inUse (cs_c st) = true /\ Forall entry_ok (cs_log st)) cb) as HS.
      assert (HI : forall f chk st, cb = Some f -> inUse (cs_c st) = true /\ Forall entry_ok (cs_log st) ->
                   inUse (cs_c (fst (invoke A runop chk f st))) = true /\ Forall entry_ok (cs_log (fst (invoke A runop chk f st)))).
      { intros f chk st _ [HU HL]. rewrite invoke_fst; cbn [cs_c cs_log]. split.
        - now rewrite run_ops_inuse.
        - now apply run_ops_log. }
      specialize (HS HI). clear HI.
      assert (HW : forall st c', inUse (cs_c st) = true /\ Forall entry_ok (cs_log st) -> rest_eq (cs_c st) c' ->
                   inUse (cs_c (with_c A st c')) = true /\ Forall entry_ok (cs_log (with_c A st c'))).
      { intros st c' [HU HL] HR. cbn. split; auto. unfold rest_eq in HR. decompose [and] HR. congruence. }
      specialize (HS HW s o {| cs_c := set_inUse c true; cs_n := 0; cs_log := [] |}). clear HW.
      destruct (run_stage A runop s o cb _) as [st e]. cbn [fst snd] in *. apply HS. split; [reflexivity|constructor].
    Qed.
  End InUse.

  (* ---- which exceptions come from where *)
  Definition soft (e : exn) : Prop := (exists k, e = ECallback k) \/ e = EUpdating.

  Lemma invoke_exn chk f st e : snd (invoke A runop chk f st) = Some e -> soft e.
  Proof.
    unfold invoke, soft. destruct (run_ops A runop _ _ _) as [c' log'].
    destruct (cb_throw f) as [t|]; [destruct (Nat.eqb t (cs_n st))|];
      try destruct (chk && (sizeUpd c' || netUpd c')); cbn; intros H; inversion H; eauto.
  Qed.

  Lemma run_events_exn {I} (exp : I -> acirc -> acirc) chk cbo evs st e :
    snd (run_events A runop exp chk cbo evs st) = Some e -> soft e.
  Proof.
    destruct cbo as [f|]; [|destruct evs; cbn; discriminate].
    revert st; induction evs as [|ev r IH]; intros st; cbn; [discriminate|].
    pose proof (invoke_exn chk f (with_c A st (exp (ev (cs_c st)) (cs_c st)))) as HI.
    destruct (invoke A runop chk f _) as [st' [e'|]]; cbn in *.
    - intros H; inversion H; subst. apply HI; reflexivity.
    - apply IH.
  Qed.

  Definition hard (e : exn) : Prop := e = ELegalizer \/ e = EParams.
  Lemma soft_not_hard e : soft e -> hard e -> False.
  Proof. intros [[k ->]| ->] [H|H]; discriminate. Qed.

  (* what a failed legalization leaves behind: nothing when the parameters were rejected, the two "update seen" flags
     reset when the legalizer itself failed *)
  Definition after_hard (e : exn) (c : acirc) : acirc :=
    match e with EParams => c | _ => set_netUpd (set_sizeUpd c false) false end.

  Lemma with_c_id (st : cstate) : with_c A st (cs_c st) = st.
  Proof. destruct st; reflexivity. Qed.

  Lemma stage_legalize_hard o cbo st e :
    snd (stage_legalize A runop o cbo st) = Some e -> hard e ->
    fst (stage_legalize A runop o cbo st) = with_c A st (after_hard e (cs_c st)).
  Proof.
    unfold stage_legalize.
    destruct (negb (o_params_ok o)); cbn [fst snd].
    { intros H _; inversion H; subst. cbn. now rewrite with_c_id. }
    set (st1 := with_c A st _).
    destruct (o_leg o (cs_c st1)) as [l|]; cbn [fst snd].
    2: { intros H _; inversion H; subst. reflexivity. }
    destruct (export_leg l (cs_c st1)) as [c2 threw].
    destruct threw; cbn [fst snd].
    - intros H [Hh|Hh]; inversion H; subst; discriminate.
    - destruct cbo as [f|]; cbn [fst snd]; [|discriminate].
      intros H Hh. apply invoke_exn in H. destruct (soft_not_hard _ H Hh).
  Qed.

  Lemma stage_detailed_hard o cbo st e :
    snd (stage_detailed A runop o cbo st) = Some e -> hard e ->
    fst (stage_detailed A runop o cbo st) = with_c A st (after_hard e (cs_c st)).
  Proof.
    unfold stage_detailed.
    pose proof (stage_legalize_hard o cbo st) as HL.
    destruct (stage_legalize A runop o cbo st) as [st1 [e1|]]; cbn [fst snd] in *.
    - intros H Hh; inversion H; subst. exact (HL e eq_refl Hh).
    - destruct (negb (o_setup_ok o (cs_c st1))); cbn [fst snd].
      + intros H [Hh|Hh]; inversion H; subst; discriminate.
      + pose proof (run_events_exn export_det true cbo (o_devents o) st1) as HE.
        destruct (run_events A runop export_det true cbo (o_devents o) st1) as [st2 [e2|]]; cbn [fst snd] in *.
        * intros H Hh; inversion H; subst. destruct (soft_not_hard e (HE _ eq_refl) Hh).
        * destruct (o_dfinal o (cs_c st2)); cbn [fst snd]; [discriminate|].
          intros H [Hh|Hh]; inversion H; subst; discriminate.
  Qed.

  (* a legalization that failed has left everything as it was (rejected parameters: the whole circuit; infeasible:
     only the two "update seen" flags were reset); no callback ran *)
  Theorem failed_legalize_unchanged s o cb c e :
    s = StLegalize \/ s = StDetailed ->
    snd (call A runop s o cb c) = Some e -> hard e ->
    fst (call A runop s o cb c) = (after_hard e c, []).
  Proof.
    intros Hs. unfold call.
    set (st0 := {| cs_c := set_inUse c true; cs_n := 0; cs_log := [] |}).
    assert (HH : snd (run_stage A runop s o cb st0) = Some e -> hard e ->
                 fst (run_stage A runop s o cb st0) = with_c A st0 (after_hard e (cs_c st0))).
    { destruct Hs as [-> | ->]; cbn [run_stage]; [apply stage_legalize_hard|apply stage_detailed_hard]. }
    destruct (run_stage A runop s o cb st0) as [st e']. cbn [fst snd] in *.
    intros H1 H2. rewrite (HH H1 H2). subst st0. destruct c, e; reflexivity.
  Qed.

  (* ---- C03 through the call: a callback that issues no operation *)
  Section Frame.
    Variable cbo : option callback.
    Hypothesis no_ops : forall f, cbo = Some f -> forall k, nth k (cb_ops f) [] = [].

    Lemma invoke_no_ops f chk st : cbo = Some f -> cs_c (fst (invoke A runop chk f st)) = cs_c st.
    Proof. intros E. rewrite invoke_fst. cbn [cs_c]. rewrite (no_ops f E). reflexivity. Qed.

    Theorem call_frame s o c : frame_ok c (fst (fst (call A runop s o cbo c))).
    Proof.
      unfold call.
      pose proof (run_stage_P frame_ok exp_g_frame export_leg_frame export_det_frame
                    (fun c => frame_upd_flags c false false) (fun st => frame_ok c (cs_c st)) cbo) as HS.
      cbv beta in HS.
      assert (HI : forall f chk st, cbo = Some f -> frame_ok c (cs_c st) -> frame_ok c (cs_c (fst (invoke A runop chk f st)))).
      { intros f chk st E Hst. now rewrite (invoke_no_ops f chk st E). }
      specialize (HS HI). clear HI.
      specialize (HS (fun st c' Hst HR => frame_trans _ _ _ Hst HR)).
      specialize (HS s o {| cs_c := set_inUse c true; cs_n := 0; cs_log := [] |} (frame_inuse c true)).
      destruct (run_stage A runop s o cbo _) as [st e]. cbn [fst snd] in *.
      eapply frame_trans; [exact HS|apply frame_inuse].
    Qed.

    Theorem call_global_orient o c : cellO (fst (fst (call A runop StGlobal o cbo c))) = cellO c.
    Proof.
      unfold call. cbn [run_stage].
      pose proof (stage_global_P (fun a b => cellO a = cellO b)
                    (fun v c => eq_sym (exp_g_orient v c)) (fun c => eq_refl)
                    (fun st => cellO (cs_c st) = cellO c) cbo) as HS.
      cbv beta in HS.
      assert (HI : forall f chk st, cbo = Some f -> cellO (cs_c st) = cellO c -> cellO (cs_c (fst (invoke A runop chk f st))) = cellO c).
      { intros f chk st E Hst. now rewrite (invoke_no_ops f chk st E). }
      specialize (HS HI). clear HI.
      specialize (HS (fun st c' Hst HR => eq_trans (eq_sym HR) Hst)).
      specialize (HS o {| cs_c := set_inUse c true; cs_n := 0; cs_log := [] |} eq_refl).
      destruct (stage_global A runop o cbo _) as [st e]. cbn [fst snd] in *. exact HS.
    Qed.
  End Frame.
End CallProofs.

(* ------------------------------------------------------------------ "changes nothing", at the level of a whole call:
   removing from the callback every operation of a class g that is a no-op on a busy circuit (the guarded setters)
   leaves the circuit and the outcome of the call as they are *)
Section Erase.
  Variable A : Type.
  Variable runop : acirc -> A -> res * acirc.
  Hypothesis runop_inuse : forall c a, inUse (snd (runop c a)) = inUse c.
  Variable g : A -> bool.
  Hypothesis g_noop : forall c a, g a = true -> inUse c = true -> snd (runop c a) = c.

  Definition erase (f : callback A) : callback A :=
    {| cb_ops := map (filter (fun a => negb (g a))) (cb_ops f); cb_throw := cb_throw f |}.
  Definition sim (st st' : cstate A) : Prop := cs_c st = cs_c st' /\ cs_n st = cs_n st'.
  Definition simr (r r' : cstate A * option exn) : Prop :=
    sim (fst r) (fst r') /\ snd r = snd r' /\ inUse (cs_c (fst r)) = true.

  Lemma run_ops_erase ops c log log' :
    inUse c = true ->
    fst (run_ops A runop (filter (fun a => negb (g a)) ops) c log) = fst (run_ops A runop ops c log').
  Proof.
    revert c log log'; induction ops as [|a r IH]; intros c log log' HU; cbn; auto.
    pose proof (runop_inuse c a) as H1. pose proof (g_noop c a) as H2.
    destruct (g a); cbn.
    - destruct (runop c a) as [rs c']. cbn in H2. rewrite (H2 eq_refl HU). apply IH; exact HU.
    - destruct (runop c a) as [rs c']. cbn in H1. apply IH. congruence.
  Qed.

  Lemma invoke_snd chk f st :
    snd (invoke A runop chk f st) =
    let c' := fst (run_ops A runop (nth (cs_n st) (cb_ops f) []) (cs_c st) (cs_log st)) in
    let u := if chk && (sizeUpd c' || netUpd c') then Some EUpdating else None in
    match cb_throw f with
    | Some t => if Nat.eqb t (cs_n st) then Some (ECallback (cs_n st)) else u
    | None => u
    end.
  Proof.
    unfold invoke. destruct (run_ops A runop _ _ _) as [c' log']. cbn [fst].
    destruct (cb_throw f) as [t|]; [destruct (Nat.eqb t (cs_n st))|]; try reflexivity;
      destruct (chk && (sizeUpd c' || netUpd c')); reflexivity.
  Qed.

  Lemma invoke_erase chk f st st' :
    sim st st' -> inUse (cs_c st) = true -> simr (invoke A runop chk (erase f) st) (invoke A runop chk f st').
  Proof.
    intros [Hc Hn] HU. unfold simr, sim.
    rewrite !invoke_fst, !invoke_snd. cbn [cs_c cs_n cb_ops cb_throw erase].
    replace (nth (cs_n st) (map (filter (fun a => negb (g a))) (cb_ops f)) [])
      with (filter (fun a => negb (g a)) (nth (cs_n st) (cb_ops f) []))
      by (symmetry; apply (map_nth (filter (fun a => negb (g a))) (cb_ops f) [] (cs_n st))).
    rewrite <- Hn, <- Hc.
    rewrite (run_ops_erase _ (cs_c st) (cs_log st) (cs_log st') HU).
    repeat split; auto.
    rewrite (run_ops_inuse A runop runop_inuse). exact HU.
  Qed.

  Lemma sim_with_c st st' c : sim st st' -> sim (with_c A st c) (with_c A st' c).
  Proof. intros [H1 H2]; split; cbn; auto. Qed.

  Lemma run_events_erase {I} (exp : I -> acirc -> acirc) (Hexp : forall i c, inUse (exp i c) = inUse c) chk cbo evs st st' :
    sim st st' -> inUse (cs_c st) = true ->
    simr (run_events A runop exp chk (option_map erase cbo) evs st) (run_events A runop exp chk cbo evs st').
  Proof.
    destruct cbo as [f|]; cbn [option_map].
    2: { intros; destruct evs; cbn; repeat split; auto; apply H. }
    revert st st'; induction evs as [|ev r IH]; intros st st' HS HU; cbn.
    - repeat split; auto; apply HS.
    - pose proof HS as [Hc Hn]. rewrite <- Hc.
      assert (HI : simr (invoke A runop chk (erase f) (with_c A st (exp (ev (cs_c st)) (cs_c st))))
                        (invoke A runop chk f (with_c A st' (exp (ev (cs_c st)) (cs_c st))))).
      { apply invoke_erase; [apply sim_with_c; exact HS|cbn; rewrite Hexp; exact HU]. }
      destruct (invoke A runop chk (erase f) _) as [s1 [e1|]], (invoke A runop chk f _) as [s2 [e2|]];
        destruct HI as (H1 & H2 & H3); cbn [fst snd] in *; try discriminate.
      + repeat split; auto; apply H1.
      + apply IH; auto.
  Qed.

  Lemma stage_global_erase o cbo st st' :
    sim st st' -> inUse (cs_c st) = true ->
    simr (stage_global A runop o (option_map erase cbo) st) (stage_global A runop o cbo st').
  Proof.
    intros HS HU. unfold stage_global. pose proof HS as [Hc Hn]. rewrite <- Hc.
    destruct (negb (o_params_ok o)); [repeat split; auto|].
    destruct (negb (o_setup_ok o (cs_c st))); [repeat split; auto|].
    pose proof (run_events_erase exp_g exp_g_inuse false cbo (o_gevents o)
                  (with_c A st (set_netUpd (set_sizeUpd (cs_c st) false) false))
                  (with_c A st' (set_netUpd (set_sizeUpd (cs_c st) false) false)) (sim_with_c _ _ _ HS) HU) as HE.
    destruct (run_events A runop exp_g false (option_map erase cbo) _ _) as [s1 [e1|]],
             (run_events A runop exp_g false cbo _ _) as [s2 [e2|]];
      destruct HE as (H1 & H2 & H3); cbn [fst snd] in *; try discriminate.
    - repeat split; auto; apply H1.
    - destruct H1 as [H1c H1n]. rewrite <- H1c.
      destruct (o_gfinal o (cs_c s1)) as [v|]; cbn [fst snd]; repeat split; cbn; auto.
      now rewrite exp_g_inuse.
  Qed.

  Lemma stage_legalize_erase o cbo st st' :
    sim st st' -> inUse (cs_c st) = true ->
    simr (stage_legalize A runop o (option_map erase cbo) st) (stage_legalize A runop o cbo st').
  Proof.
    intros HS HU. unfold stage_legalize. pose proof HS as [Hc Hn]. rewrite <- Hc.
    destruct (negb (o_params_ok o)); [repeat split; auto|].
    set (c1 := set_netUpd (set_sizeUpd (cs_c st) false) false).
    assert (HU1 : inUse c1 = true) by exact HU.
    cbn [cs_c with_c].
    destruct (o_leg o c1) as [l|]; [|repeat split; auto].
    pose proof (export_leg_loop_inuse (seq 0 (nb_cells c1)) l c1) as HL. fold (export_leg l c1) in HL.
    destruct (export_leg l c1) as [c2 threw]; cbn [fst] in HL.
    destruct threw; [repeat split; cbn; auto; congruence|].
    destruct cbo as [f|]; cbn [option_map].
    - apply invoke_erase; [split; cbn; auto|cbn; congruence].
    - repeat split; cbn; auto; congruence.
  Qed.

  Lemma stage_detailed_erase o cbo st st' :
    sim st st' -> inUse (cs_c st) = true ->
    simr (stage_detailed A runop o (option_map erase cbo) st) (stage_detailed A runop o cbo st').
  Proof.
    intros HS HU. unfold stage_detailed.
    pose proof (stage_legalize_erase o cbo st st' HS HU) as HL.
    destruct (stage_legalize A runop o (option_map erase cbo) st) as [s1 [e1|]],
             (stage_legalize A runop o cbo st') as [s2 [e2|]];
      destruct HL as (H1 & H2 & H3); cbn [fst snd] in *; try discriminate.
    - repeat split; auto; apply H1.
    - pose proof H1 as [H1c H1n]. rewrite <- H1c.
      destruct (negb (o_setup_ok o (cs_c s1))); [repeat split; auto|].
      pose proof (run_events_erase export_det export_det_inuse true cbo (o_devents o) s1 s2 H1 H3) as HE.
      destruct (run_events A runop export_det true (option_map erase cbo) _ _) as [t1 [f1|]],
               (run_events A runop export_det true cbo _ _) as [t2 [f2|]];
        destruct HE as (G1 & G2 & G3); cbn [fst snd] in *; try discriminate.
      + repeat split; auto; apply G1.
      + destruct G1 as [G1c G1n]. rewrite <- G1c.
        destruct (o_dfinal o (cs_c t1)); cbn [fst snd]; repeat split; cbn; auto.
        now rewrite export_det_inuse.
  Qed.

  Theorem call_erase s o cbo c :
    fst (fst (call A runop s o (option_map erase cbo) c)) = fst (fst (call A runop s o cbo c)) /\
    snd (call A runop s o (option_map erase cbo) c) = snd (call A runop s o cbo c).
  Proof.
    unfold call.
    set (st0 := {| cs_c := set_inUse c true; cs_n := 0; cs_log := [] |}).
    assert (H : simr (run_stage A runop s o (option_map erase cbo) st0) (run_stage A runop s o cbo st0)).
    { destruct s; cbn [run_stage]; [apply stage_global_erase|apply stage_legalize_erase|apply stage_detailed_erase];
        try (split; reflexivity); reflexivity. }
    destruct (run_stage A runop s o (option_map erase cbo) st0) as [s1 e1], (run_stage A runop s o cbo st0) as [s2 e2].
    destruct H as ([H1 H2] & H3 & H4). cbn [fst snd] in *. split; congruence.
  Qed.
End Erase.

(* ------------------------------------------------------------------ the two levels of callbacks, histories *)
Lemma call0_consistent s o cb c : consistent c = true -> consistent (fst (fst (call0 s o cb c))) = true.
Proof. apply call_consistent. intros c' a; apply apply_setter_consistent. Qed.

Lemma apply_cbop_inuse c a : inUse (snd (apply_cbop c a)) = inUse c.
Proof.
  destruct a as [s|s o cb]; cbn; [apply apply_setter_inuse|].
  pose proof (call_restores_in_use setter apply_setter s o cb c) as H. unfold call0.
  destruct (call setter apply_setter s o cb c) as [[c' l] e]. exact H.
Qed.

Lemma apply_cbop_consistent c a : consistent c = true -> consistent (snd (apply_cbop c a)) = true.
Proof.
  intros H. destruct a as [s|s o cb]; cbn; [now apply apply_setter_consistent|].
  pose proof (call0_consistent s o cb c H) as H1. unfold call0 in *.
  destruct (call setter apply_setter s o cb c) as [[c' l] e]. exact H1.
Qed.

Lemma cbop_guarded_noop c a : cbop_guarded a = true -> inUse c = true -> snd (apply_cbop c a) = c.
Proof. destruct a as [s|]; cbn; [|discriminate]. intros HG HU. now apply guarded_refused. Qed.

Lemma call1_consistent s o cb c : consistent c = true -> consistent (fst (fst (call1 s o cb c))) = true.
Proof. apply call_consistent. apply apply_cbop_consistent. Qed.

(* a guarded setter issued inside a callback (of any stage, at any invocation, also after a nested placement call)
   is refused with an error *)
Lemma guarded_refused_in_callback s o cb c e :
  In e (snd (fst (call1 s o cb c))) -> cbop_guarded (e_op e) = true ->
  e_busy e = true /\ (e_res e = RefusedInUse \/ e_res e = RejectedArgs) /\
  exists c', apply_cbop c' (e_op e) = (e_res e, c') /\ e_after e = c'.
Proof.
  intros HI HG.
  pose proof (call_log_in_use cbop apply_cbop apply_cbop_inuse s o cb c) as HF.
  rewrite Forall_forall in HF. destruct (HF _ HI) as [H1 (c' & H2 & H3 & H4)]. split; auto.
  destruct (e_op e) as [st|] eqn:E; [|discriminate]. cbn in *.
  destruct (guarded_refused c' st H2 HG) as [G1 G2]. rewrite H3, H4. split; auto.
  exists c'. rewrite G1. split; auto. rewrite <- G1 at 3. now destruct (apply_setter c' st).
Qed.

(* ... and changes nothing: the call behaves as if the callback had not issued it *)
Lemma guarded_in_callback_changes_nothing s o cb c :
  fst (fst (call1 s o (option_map (erase cbop cbop_guarded) cb) c)) = fst (fst (call1 s o cb c)) /\
  snd (call1 s o (option_map (erase cbop cbop_guarded) cb) c) = snd (call1 s o cb c).
Proof. apply call_erase; [apply apply_cbop_inuse|apply cbop_guarded_noop]. Qed.

(* after the call has ended, by ANY outcome: flag clear, every setter with acceptable arguments accepted *)
Lemma cleared_after_any_outcome s o cb c :
  inUse c = false ->
  inUse (fst (fst (call1 s o cb c))) = false /\
  forall st, args_ok (fst (fst (call1 s o cb c))) st = true -> fst (apply_setter (fst (fst (call1 s o cb c))) st) = Accepted.
Proof.
  intros HU. assert (H : inUse (fst (fst (call1 s o cb c))) = false).
  { unfold call1. now rewrite call_restores_in_use. }
  split; auto. intros st Ha. now apply idle_accepts.
Qed.

(* the entry points of the snapshot (flag cleared on the normal path only) violate it: F9 *)
Definition bad_params_oracle : oracle :=
  {| o_params_ok := false; o_leg := fun _ => None; o_setup_ok := fun _ => true; o_gevents := []; o_gfinal := fun _ => None;
     o_devents := []; o_dfinal := fun _ => None |}.
Lemma cleared_after_call_orig_refuted :
  exists s o cb c st,
    inUse c = false /\ consistent c = true /\ snd (call1_orig s o cb c) = Some EParams /\
    inUse (fst (fst (call1_orig s o cb c))) = true /\
    args_ok (fst (fst (call1_orig s o cb c))) st = true /\
    fst (apply_setter (fst (fst (call1_orig s o cb c))) st) = RefusedInUse.
Proof.
  exists StLegalize, bad_params_oracle, None, (new_circuit 1), (SSetRows []). repeat split.
Qed.

Lemma failed_legalize_unchanged1 s o cb c e :
  s = StLegalize \/ s = StDetailed -> snd (call1 s o cb c) = Some e -> e = ELegalizer \/ e = EParams ->
  fst (call1 s o cb c) = (after_hard e c, []).
Proof. apply failed_legalize_unchanged. Qed.

(* every state reachable from a constructor by setters and placement calls (any oracle, any callback issuing setters
   and nested calls, any outcome) satisfies Circuit::check() *)
Lemma apply_hop_consistent c h : consistent c = true -> consistent (apply_hop c h) = true.
Proof. destruct h; cbn; [apply apply_setter_consistent|apply call1_consistent]. Qed.

Lemma reachable_consistent n h : consistent (run_history (new_circuit n) h) = true.
Proof.
  unfold run_history. generalize (new_circuit_consistent n). generalize (new_circuit n).
  induction h as [|a r IH]; intros c H; cbn; auto. apply IH. now apply apply_hop_consistent.
Qed.

Lemma reachable_check_ok n h : check_ok (run_history (new_circuit n) h) = true.
Proof. pose proof (reachable_consistent n h) as H. unfold consistent in H. now apply andb_prop in H. Qed.

(* C03 through the real control flow: a stage (any oracle, any outcome) whose callback only looks *)
Lemma call1_frame s o cb c :
  (forall f, cb = Some f -> forall k, nth k (cb_ops f) [] = []) -> frame_ok c (fst (fst (call1 s o cb c))).
Proof. intros H. now apply call_frame. Qed.

Lemma call1_global_orient o cb c :
  (forall f, cb = Some f -> forall k, nth k (cb_ops f) [] = []) -> cellO (fst (fst (call1 StGlobal o cb c))) = cellO c.
Proof. intros H. now apply call_global_orient. Qed.

Lemma reachable_consistent_check n h :
  consistent (run_history (new_circuit n) h) = true /\ check_ok (run_history (new_circuit n) h) = true.
Proof. split; [exact (reachable_consistent n h)|exact (reachable_check_ok n h)]. Qed.

(* ------------------------------------------------------------------ values used by the non-vacuity examples of
   Properties_C10.v / Properties_C03.v *)
Definition ex_c : acirc :=
  snd (apply_setter (snd (apply_setter (new_circuit 2) (SSetCellWidth [2; 2])))
                    (SSetRows [{| rr := {| minX := 0; maxX := 10; minY := 0; maxY := 2 |}; ro := oN |}])).
Definition ex_leg (_ : acirc) := Some [{| lc_placed := true; lc_x := 0; lc_y := 0; lc_o := oN |};
                                       {| lc_placed := true; lc_x := 2; lc_y := 0; lc_o := oN |}].
Definition ex_o : oracle :=
  {| o_params_ok := true; o_leg := ex_leg; o_setup_ok := fun _ => true; o_gevents := []; o_gfinal := fun _ => None;
     o_devents := [fun _ => [{| dc_index := 1; dc_x := 5; dc_y := 0; dc_o := oN |}]];
     o_dfinal := fun _ => Some [] |}.
Definition ex_ops : list cbop := [CSet (SSetRows []); CCall StLegalize ex_o None; CSet (SSetCellIsFixed [true; true])].
Definition ex_cb : callback cbop := {| cb_ops := [ex_ops; ex_ops]; cb_throw := Some 1%nat |}.

