(* C18 -- proofs about the exact model Expand.v *)
From Coq Require Import List ZArith QArith Qround Bool Lia Lqa.
Import ListNotations.
Require Import CV.Orient CV.FreeSpace CV.Expand.
Local Open Scope Q_scope.

(* ---------------------------------------------------------------- rationals and truncation *)
Lemma iq_plus a b : iq (a + b) == iq a + iq b.
Proof. unfold iq. rewrite inject_Z_plus. reflexivity. Qed.
Lemma iq_mult a b : iq (a * b) == iq a * iq b.
Proof. unfold iq. rewrite inject_Z_mult. reflexivity. Qed.
Lemma iq_le a b : (a <= b)%Z <-> iq a <= iq b.
Proof. unfold iq. rewrite Zle_Qle. reflexivity. Qed.
Lemma iq_lt a b : (a < b)%Z <-> iq a < iq b.
Proof. unfold iq. rewrite Zlt_Qlt. reflexivity. Qed.
Lemma iq_0 : iq 0 == 0. Proof. reflexivity. Qed.
Lemma iq_1 : iq 1 == 1. Proof. reflexivity. Qed.

Lemma Qle_bool_false x y : Qle_bool x y = false <-> y < x.
Proof.
  split; intros H.
  - apply Qnot_le_lt. intros H'. apply Qle_bool_iff in H'. congruence.
  - destruct (Qle_bool x y) eqn:E; [|reflexivity]. apply Qle_bool_iff in E. apply Qle_not_lt in E. contradiction.
Qed.

Lemma Qtrunc_nonneg q : 0 <= q -> Qtrunc q = Qfloor q.
Proof. intros H. unfold Qtrunc. apply Qle_bool_iff in H. rewrite H. reflexivity. Qed.

Lemma Qtrunc_le q : 0 <= q -> iq (Qtrunc q) <= q.
Proof. intros H. rewrite Qtrunc_nonneg by assumption. apply Qfloor_le. Qed.

Lemma Qtrunc_gt q : 0 <= q -> q < iq (Qtrunc q) + 1.
Proof.
  intros H. rewrite Qtrunc_nonneg by assumption. generalize (Qlt_floor q). unfold iq.
  rewrite inject_Z_plus. intros. assumption.
Qed.

Lemma Qtrunc_ge0 q : 0 <= q -> (0 <= Qtrunc q)%Z.
Proof.
  intros H. rewrite Qtrunc_nonneg by assumption. rewrite <- (Qfloor_Z 0). apply Qfloor_resp_le. assumption.
Qed.

(* an integer below q is below its truncation *)
Lemma Qtrunc_int_le z q : 0 <= q -> iq z <= q -> (z <= Qtrunc q)%Z.
Proof.
  intros H0 H. rewrite Qtrunc_nonneg by assumption. rewrite <- (Qfloor_Z z). apply Qfloor_resp_le. exact H.
Qed.

(* ---------------------------------------------------------------- the carry loop *)
Lemma carry_loop_spec fuel : forall h w m w' m',
  carry_loop fuel h w m = Some (w', m') ->
  exists n : Z, (0 <= n)%Z /\ w' = (w + n)%Z /\ m' == m - iq n * iq h /\ m' < iq h /\ (0 <= m -> 0 <= m').
Proof.
  induction fuel as [|f IH]; intros h w m w' m' H; cbn [carry_loop] in H.
  - destruct (Qle_bool (iq h) m) eqn:E; [discriminate|]. inversion H; subst. apply Qle_bool_false in E.
    exists 0%Z. split; [lia|]. split; [lia|]. split; [rewrite iq_0; ring|]. split; [assumption|auto].
  - destruct (Qle_bool (iq h) m) eqn:E.
    + apply Qle_bool_iff in E. apply IH in H. destruct H as (n & Hn & Hw & Hm & Hlt & Hpos).
      exists (n + 1)%Z. split; [lia|]. split; [lia|]. split; [|split; [assumption|]].
      * rewrite Hm. rewrite iq_plus, iq_1. ring.
      * intros _. apply Hpos. lra.
    + inversion H; subst. apply Qle_bool_false in E.
      exists 0%Z. split; [lia|]. split; [lia|]. split; [rewrite iq_0; ring|]. split; [assumption|auto].
Qed.

Lemma carry_loop_fuel fuel : forall h w m,
  0 < iq h -> m < (iq (Z.of_nat fuel) + 1) * iq h -> carry_loop fuel h w m <> None.
Proof.
  induction fuel as [|f IH]; intros h w m Hh Hm; cbn [carry_loop].
  - destruct (Qle_bool (iq h) m) eqn:E; [|discriminate]. apply Qle_bool_iff in E.
    change (iq (Z.of_nat 0)) with (iq 0) in Hm. rewrite iq_0 in Hm. lra.
  - destruct (Qle_bool (iq h) m) eqn:E; [|discriminate]. apply IH; [assumption|].
    rewrite Nat2Z.inj_succ in Hm. unfold Z.succ in Hm. rewrite iq_plus, iq_1 in Hm. lra.
Qed.

(* the fuel given by expand_cell suffices *)
Lemma carry_fuel_suffices h w m :
  0 < iq h -> 0 <= m -> carry_loop (Z.to_nat (Qfloor (m / iq h))) h w m <> None.
Proof.
  intros Hh Hm. apply carry_loop_fuel; [assumption|].
  assert (H0 : 0 <= m / iq h). { apply Qle_shift_div_l; [assumption|]. lra. }
  assert (Hf : (0 <= Qfloor (m / iq h))%Z).
  { rewrite <- (Qfloor_Z 0). apply Qfloor_resp_le. exact H0. }
  rewrite Z2Nat.id by assumption.
  generalize (Qlt_floor (m / iq h)). rewrite inject_Z_plus. fold (iq (Qfloor (m / iq h))). intros Hlt.
  change (inject_Z 1) with 1 in Hlt.
  assert (Hq : m == m / iq h * iq h) by (field; lra).
  rewrite Hq at 1. apply Qmult_lt_r; assumption.
Qed.

(* ---------------------------------------------------------------- one cell of expandCellsToDensity *)
Lemma processed_spec k : processed k = true -> e_fixed k = false /\ (0 < e_h k)%Z /\ (0 < e_w k)%Z.
Proof. unfold processed. rewrite !andb_true_iff, negb_true_iff, !Z.ltb_lt. tauto. Qed.

Lemma iq_pos z : (0 < z)%Z -> 0 < iq z.
Proof. intros H. apply (proj1 (iq_lt 0 z)) in H. exact H. Qed.
Lemma iq_nonneg z : (0 <= z)%Z -> 0 <= iq z.
Proof. intros H. apply (proj1 (iq_le 0 z)) in H. exact H. Qed.

Lemma frac_width_nonneg f cap k : 0 <= f -> 0 <= cap -> (0 <= e_w k)%Z -> 0 <= frac_width f cap k.
Proof.
  intros Hf Hc Hw. unfold frac_width. destruct (Qle_bool _ _); [|assumption].
  apply iq_nonneg in Hw. nra.
Qed.

Lemma frac_width_le f cap k : frac_width f cap k <= iq (e_w k) * f.
Proof.
  unfold frac_width. destruct (Qle_bool _ _) eqn:E; [apply Qle_refl|].
  apply Qle_bool_false in E. apply Qlt_le_weak. exact E.
Qed.

Lemma frac_width_nocap f cap k : iq (e_w k) * f <= cap -> frac_width f cap k = iq (e_w k) * f.
Proof. intros H. unfold frac_width. apply Qle_bool_iff in H. rewrite H. reflexivity. Qed.

Lemma frac_width_ge f cap k : 1 <= f -> (0 <= e_w k)%Z -> iq (e_w k) <= cap -> iq (e_w k) <= frac_width f cap k.
Proof.
  intros Hf Hw Hc. unfold frac_width. destruct (Qle_bool _ _); [|assumption].
  apply iq_nonneg in Hw. nra.
Qed.

Lemma expand_cell_unprocessed f cap k m : processed k = false -> expand_cell f cap k m = Some (k, m).
Proof. intros H. unfold expand_cell. rewrite H. reflexivity. Qed.

Lemma expand_cell_spec f cap k m k' m' :
  processed k = true -> 0 <= m -> 0 <= frac_width f cap k ->
  expand_cell f cap k m = Some (k', m') ->
  k' = set_w k (e_w k') /\ (Qtrunc (frac_width f cap k) <= e_w k')%Z /\
  0 <= m' /\ m' < iq (e_h k) /\
  iq (e_h k) * iq (e_w k') + m' == iq (e_h k) * frac_width f cap k + m.
Proof.
  intros Hp Hm Hfw H. unfold expand_cell in H. rewrite Hp in H.
  set (fw := frac_width f cap k) in *. set (nw := Qtrunc fw) in *.
  set (m1 := Qred (m + iq (e_h k) * (fw - iq nw))) in *.
  destruct (carry_loop _ (e_h k) nw m1) as [[w' m2]|] eqn:E; [|discriminate].
  inversion H; subst k' m'. clear H. cbn [set_w e_w].
  apply carry_loop_spec in E. destruct E as (n & Hn & Hw & Hm2 & Hlt & Hpos).
  destruct (processed_spec k Hp) as (_ & Hh & _). apply iq_pos in Hh.
  assert (Hm1 : m1 == m + iq (e_h k) * (fw - iq nw)) by (unfold m1; apply Qred_correct).
  assert (Hfr : 0 <= fw - iq nw). { generalize (Qtrunc_le fw Hfw). fold nw. lra. }
  assert (Hm1pos : 0 <= m1). { rewrite Hm1. nra. }
  split; [reflexivity|]. split; [lia|]. split; [auto|]. split; [assumption|].
  rewrite Hm2, Hm1, Hw, iq_plus. ring.
Qed.

Lemma expand_cell_total f cap k m :
  0 <= m -> 0 <= frac_width f cap k -> expand_cell f cap k m <> None.
Proof.
  intros Hm Hfw. unfold expand_cell. destruct (processed k) eqn:Hp; [|discriminate].
  destruct (processed_spec k Hp) as (_ & Hh & _). apply iq_pos in Hh.
  set (fw := frac_width f cap k) in *. set (nw := Qtrunc fw).
  set (m1 := Qred (m + iq (e_h k) * (fw - iq nw))).
  assert (Hm1 : m1 == m + iq (e_h k) * (fw - iq nw)) by (unfold m1; apply Qred_correct).
  assert (Hfr : 0 <= fw - iq nw). { generalize (Qtrunc_le fw Hfw). fold nw. lra. }
  assert (Hm1pos : 0 <= m1). { rewrite Hm1. nra. }
  generalize (carry_fuel_suffices (e_h k) nw m1 Hh Hm1pos).
  destruct (carry_loop _ (e_h k) nw m1) as [[w' m2]|]; [discriminate|congruence].
Qed.

(* ---------------------------------------------------------------- the whole loop *)
Definition qsum (l : list Q) : Q := fold_right Qplus 0 l.

(* what cell k contributes to the "fractional" area: h * fracW for the cells the loop acts on, the
   unchanged area for the movable cells it skips, nothing for fixed cells *)
Definition frac_area (f cap : Q) (k : ecell) : Q :=
  if processed k then iq (e_h k) * frac_width f cap k else if e_fixed k then 0 else iq (cell_area k).

Definition marea1 (k : ecell) : Z := if e_fixed k then 0%Z else cell_area k.
Lemma movable_area_cons k r : movable_area (k :: r) = (marea1 k + movable_area r)%Z.
Proof. reflexivity. Qed.

(* only the width differs, and not even the width for fixed cells *)
Definition frame (k k' : ecell) : Prop := k' = set_w k (e_w k') /\ (e_fixed k = true -> k' = k).

Lemma set_w_same k : set_w k (e_w k) = k.
Proof. destruct k; reflexivity. Qed.

Lemma frame_refl k : frame k k.
Proof. split; [symmetry; apply set_w_same|reflexivity]. Qed.

Lemma expand_cell_frame f cap k m k' m' : expand_cell f cap k m = Some (k', m') -> frame k k'.
Proof.
  unfold expand_cell. destruct (processed k) eqn:Hp.
  - destruct (carry_loop _ _ _ _) as [[w' m2]|]; [|discriminate]. intros H; inversion H; subst.
    split; [reflexivity|]. destruct (processed_spec k Hp) as (Hf & _). congruence.
  - intros H; inversion H; subst. apply frame_refl.
Qed.

Lemma expand_cells_frame f cap : forall cells m cells' m',
  expand_cells f cap cells m = Some (cells', m') -> Forall2 frame cells cells'.
Proof.
  induction cells as [|k r IH]; intros m cells' m' H; cbn [expand_cells] in H.
  - inversion H; subst. constructor.
  - destruct (expand_cell f cap k m) as [[k' m1]|] eqn:E; [|discriminate].
    destruct (expand_cells f cap r m1) as [[r' m2]|] eqn:E2; [|discriminate].
    inversion H; subst. constructor; [eapply expand_cell_frame; eassumption|eapply IH; eassumption].
Qed.

(* height of the last cell the loop acts on *)
Fixpoint last_proc_h (cells : list ecell) (dflt : option Z) : option Z :=
  match cells with
  | [] => dflt
  | k :: r => last_proc_h r (if processed k then Some (e_h k) else dflt)
  end.

Definition below (m : Q) (o : option Z) : Prop := match o with Some h => m < iq h | None => True end.

(* the carry invariant and its consequences, for any starting value of missingArea *)
Lemma expand_cells_inv f cap : 0 <= f -> 0 <= cap -> forall cells m cells' m' dflt,
  expand_cells f cap cells m = Some (cells', m') -> 0 <= m -> below m dflt ->
  0 <= m' /\
  iq (movable_area cells') + m' == qsum (map (frac_area f cap) cells) + m /\
  below m' (last_proc_h cells dflt) /\
  (1 <= f -> Forall2 (fun k k' => iq (e_w k) <= cap -> (e_w k <= e_w k')%Z) cells cells').
Proof.
  intros Hf Hc. induction cells as [|k r IH]; intros m cells' m' dflt H Hm Hb; cbn [expand_cells] in H.
  - inversion H; subst. cbn. split; [assumption|]. split; [reflexivity|]. split; [assumption|]. constructor.
  - destruct (expand_cell f cap k m) as [[k' m1]|] eqn:E; [|discriminate].
    destruct (expand_cells f cap r m1) as [[r' m2]|] eqn:E2; [|discriminate].
    inversion H; subst cells' m'. clear H.
    destruct (processed k) eqn:Hp.
    + destruct (processed_spec k Hp) as (Hfx & Hh & Hw).
      assert (Hfw : 0 <= frac_width f cap k) by (apply frac_width_nonneg; try assumption; lia).
      destruct (expand_cell_spec f cap k m k' m1 Hp Hm Hfw E) as (Hk' & Htr & Hm1 & Hlt & Heq).
      specialize (IH m1 r' m2 (Some (e_h k)) E2 Hm1 Hlt). destruct IH as (I1 & I2 & I3 & I4).
      split; [assumption|]. split; [|split].
      * rewrite movable_area_cons, iq_plus. cbn [map qsum fold_right]. fold (qsum (map (frac_area f cap) r)).
        unfold frac_area at 1. rewrite Hp. unfold marea1. rewrite Hk'. unfold cell_area. cbn [set_w e_fixed e_w e_h].
        rewrite Hfx, iq_mult.
        setoid_replace (iq (e_w k') * iq (e_h k) + iq (movable_area r') + m2)
          with (iq (e_h k) * iq (e_w k') + (iq (movable_area r') + m2)) by ring.
        rewrite I2. lra.
      * cbn [last_proc_h]. rewrite Hp. exact I3.
      * intros H1. constructor; [|apply I4; assumption].
        intros Hcap. apply Z.le_trans with (Qtrunc (frac_width f cap k)); [|assumption].
        apply Qtrunc_int_le; [assumption|]. apply frac_width_ge; try assumption; lia.
    + rewrite (expand_cell_unprocessed f cap k m Hp) in E. inversion E; subst k' m1. clear E.
      specialize (IH m r' m2 dflt E2 Hm Hb). destruct IH as (I1 & I2 & I3 & I4).
      split; [assumption|]. split; [|split].
      * rewrite movable_area_cons, iq_plus. cbn [map qsum fold_right]. fold (qsum (map (frac_area f cap) r)).
        unfold frac_area at 1. rewrite Hp. unfold marea1. destruct (e_fixed k).
        -- rewrite iq_0. lra.
        -- lra.
      * cbn [last_proc_h]. rewrite Hp. exact I3.
      * intros H1. constructor; [intros; lia|apply I4; assumption].
Qed.

Lemma expand_cells_total f cap : 0 <= f -> 0 <= cap -> forall cells m,
  0 <= m -> expand_cells f cap cells m <> None.
Proof.
  intros Hf Hc. induction cells as [|k r IH]; intros m Hm; cbn [expand_cells]; [discriminate|].
  destruct (expand_cell f cap k m) as [[k' m1]|] eqn:E.
  - assert (Hm1 : 0 <= m1).
    { destruct (processed k) eqn:Hp.
      - destruct (processed_spec k Hp) as (Hfx & Hh & Hw).
        assert (Hfw : 0 <= frac_width f cap k) by (apply frac_width_nonneg; try assumption; lia).
        destruct (expand_cell_spec f cap k m k' m1 Hp Hm Hfw E) as (_ & _ & H1 & _). exact H1.
      - rewrite (expand_cell_unprocessed f cap k m Hp) in E. inversion E; subst. assumption. }
    specialize (IH m1 Hm1). destruct (expand_cells f cap r m1) as [[r' m2]|]; [discriminate|congruence].
  - exfalso. revert E. destruct (processed k) eqn:Hp.
    + destruct (processed_spec k Hp) as (Hfx & Hh & Hw). apply expand_cell_total; [assumption|].
      apply frac_width_nonneg; try assumption; lia.
    + rewrite (expand_cell_unprocessed f cap k m Hp). discriminate.
Qed.

(* ---------------------------------------------------------------- areas *)
Definition nonneg_sizes (cells : list ecell) : Prop := Forall (fun k => (0 <= e_w k)%Z /\ (0 <= e_h k)%Z) cells.

Lemma zsum_nonneg l : Forall (fun z => (0 <= z)%Z) l -> (0 <= zsum l)%Z.
Proof. induction 1 as [|x l Hx _ IH]; [cbn; lia|]. change (zsum (x :: l)) with (x + zsum l)%Z. lia. Qed.

Lemma free_row_height_pos c r : In r (e_free_rows c) -> (0 < rect_h (rr r))%Z.
Proof.
  unfold e_free_rows, compute_rows. rewrite in_flat_map. intros (r0 & _ & H).
  unfold freespace_rows in H. apply in_map_iff in H. destruct H as (i & Hr & Hi). subst r. cbn.
  unfold freespace_iv in Hi. destruct (_ && _) eqn:E; [|destruct Hi].
  apply andb_true_iff in E. destruct E as (_ & E). apply Z.ltb_lt in E. unfold rect_h. cbn. lia.
Qed.

Lemma margin_row_area_nonneg m r : (0 < rect_h (rr r))%Z -> (0 <= margin_row_area m r)%Z.
Proof. intros H. unfold margin_row_area. destruct (0 <? _)%Z eqn:E; [|lia]. apply Z.ltb_lt in E. apply Z.mul_nonneg_nonneg; lia. Qed.

Lemma row_area_nonneg m c : (0 <= row_placement_area m c)%Z.
Proof.
  unfold row_placement_area. apply zsum_nonneg. apply Forall_forall. intros z Hz.
  apply in_map_iff in Hz. destruct Hz as (r & <- & Hr). apply margin_row_area_nonneg.
  eapply free_row_height_pos; eassumption.
Qed.

Lemma max_row_width_ge rows : forall a, (a <= fold_left (fun a r => Z.max a (rect_w (rr r))) rows a)%Z.
Proof. induction rows as [|r l IH]; intros a; cbn; [lia|]. specialize (IH (Z.max a (rect_w (rr r)))). lia. Qed.

Lemma max_row_width_nonneg rows : (0 <= max_row_width rows)%Z.
Proof. apply max_row_width_ge. Qed.

Lemma marea1_nonneg k : (0 <= e_w k)%Z -> (0 <= e_h k)%Z -> (0 <= marea1 k)%Z.
Proof. intros. unfold marea1, cell_area. destruct (e_fixed k); nia. Qed.

Lemma movable_area_nonneg cells : nonneg_sizes cells -> (0 <= movable_area cells)%Z.
Proof.
  induction 1 as [|k r (Hw & Hh) _ IH]; [cbn; lia|]. rewrite movable_area_cons.
  generalize (marea1_nonneg k Hw Hh). lia.
Qed.

Lemma unprocessed_area0 k : processed k = false -> e_fixed k = false -> (0 <= e_w k)%Z -> (0 <= e_h k)%Z ->
  cell_area k = 0%Z.
Proof.
  unfold processed, cell_area. intros H Hf Hw Hh. rewrite Hf in H. cbn in H.
  apply andb_false_iff in H. destruct H as [H|H]; apply Z.ltb_ge in H; nia.
Qed.

Lemma frac_area_le f cap k : 1 <= f -> (0 <= e_w k)%Z -> (0 <= e_h k)%Z ->
  frac_area f cap k <= f * iq (marea1 k).
Proof.
  intros Hf Hw Hh. unfold frac_area, marea1. destruct (processed k) eqn:Hp.
  - destruct (processed_spec k Hp) as (Hfx & Hh' & _). rewrite Hfx. unfold cell_area. rewrite iq_mult.
    generalize (frac_width_le f cap k). apply iq_pos in Hh'. intros. nra.
  - destruct (e_fixed k) eqn:Hfx.
    + rewrite iq_0. lra.
    + rewrite (unprocessed_area0 k Hp Hfx Hw Hh). rewrite iq_0. lra.
Qed.

Lemma frac_area_eq f cap k : (0 <= e_w k)%Z -> (0 <= e_h k)%Z ->
  (processed k = true -> iq (e_w k) * f <= cap) -> frac_area f cap k == f * iq (marea1 k).
Proof.
  intros Hw Hh Hc. unfold frac_area, marea1. destruct (processed k) eqn:Hp.
  - destruct (processed_spec k Hp) as (Hfx & _ & _). rewrite Hfx. unfold cell_area. rewrite iq_mult.
    rewrite (frac_width_nocap f cap k (Hc eq_refl)). ring.
  - destruct (e_fixed k) eqn:Hfx.
    + rewrite iq_0. ring.
    + rewrite (unprocessed_area0 k Hp Hfx Hw Hh). rewrite iq_0. ring.
Qed.

Lemma frac_sum_le f cap cells : 1 <= f -> nonneg_sizes cells ->
  qsum (map (frac_area f cap) cells) <= f * iq (movable_area cells).
Proof.
  intros Hf. induction 1 as [|k r (Hw & Hh) _ IH]; [cbn; rewrite iq_0; lra|].
  rewrite movable_area_cons, iq_plus. cbn [map qsum fold_right]. fold (qsum (map (frac_area f cap) r)).
  generalize (frac_area_le f cap k Hf Hw Hh). lra.
Qed.

Definition no_cap_binds (f cap : Q) (cells : list ecell) : Prop :=
  Forall (fun k => processed k = true -> iq (e_w k) * f <= cap) cells.

Lemma frac_sum_eq f cap cells : nonneg_sizes cells -> no_cap_binds f cap cells ->
  qsum (map (frac_area f cap) cells) == f * iq (movable_area cells).
Proof.
  induction 1 as [|k r (Hw & Hh) _ IH]; intros Hn; [cbn; rewrite iq_0; ring|].
  inversion Hn; subst. rewrite movable_area_cons, iq_plus. cbn [map qsum fold_right].
  fold (qsum (map (frac_area f cap) r)). rewrite (frac_area_eq f cap k Hw Hh) by assumption.
  rewrite IH by assumption. ring.
Qed.

Lemma last_proc_some cells : forall d, (exists k, In k cells /\ processed k = true) \/ d <> None ->
  last_proc_h cells d <> None.
Proof.
  induction cells as [|k r IH]; intros d H; cbn [last_proc_h].
  - destruct H as [(k & [] & _)|H]; assumption.
  - apply IH. destruct (processed k) eqn:Hp; [right; discriminate|].
    destruct H as [(k0 & [->|Hin] & Hk0)|H]; [congruence|left; eauto|right; assumption].
Qed.

Lemma movable_pos_processed cells : nonneg_sizes cells -> (0 < movable_area cells)%Z ->
  exists k, In k cells /\ processed k = true.
Proof.
  induction 1 as [|k r (Hw & Hh) _ IH]; intros H; [cbn in H; lia|].
  rewrite movable_area_cons in H. destruct (processed k) eqn:Hp; [exists k; split; [left; reflexivity|assumption]|].
  assert (marea1 k = 0%Z).
  { unfold marea1. destruct (e_fixed k) eqn:Hfx; [reflexivity|]. apply unprocessed_area0; assumption. }
  destruct IH as (k0 & Hin & Hk0); [lia|]. exists k0. split; [right; assumption|assumption].
Qed.

(* ---------------------------------------------------------------- expandCellsToDensity *)
Lemma to_density_cases t m mew c c' b : expand_to_density_br t m mew c = Some (c', b) ->
  (b <> BrExpand /\ c' = c) \/
  (b = BrExpand /\ movable_area (e_cells c) <> 0%Z /\ row_placement_area m c <> 0%Z /\
   iq (movable_area (e_cells c)) / iq (row_placement_area m c) < t /\
   exists cs mf,
     expand_cells (t / (iq (movable_area (e_cells c)) / iq (row_placement_area m c)))
                  (iq (max_row_width (e_rows c)) * mew) (e_cells c) 0 = Some (cs, mf) /\
     c' = {| e_rows := e_rows c; e_cells := cs |}).
Proof.
  unfold expand_to_density_br. intros H.
  destruct ((movable_area (e_cells c) =? 0)%Z || (row_placement_area m c =? 0)%Z) eqn:E0.
  - inversion H; subst. left. split; [discriminate|reflexivity].
  - apply orb_false_iff in E0. destruct E0 as (Ea & Er). apply Z.eqb_neq in Ea, Er.
    destruct (Qle_bool t _) eqn:Ed.
    + inversion H; subst. left. split; [discriminate|reflexivity].
    + apply Qle_bool_false in Ed.
      destruct (expand_cells _ _ (e_cells c) 0) as [[cs mf]|] eqn:Ec; [|discriminate].
      inversion H; subst. right. split; [reflexivity|]. split; [assumption|]. split; [assumption|].
      split; [assumption|]. exists cs, mf. split; reflexivity.
Qed.

(* facts about the expansion branch *)
Lemma expand_branch_facts t (ca ra : Z) : (0 < ca)%Z -> (0 < ra)%Z -> iq ca / iq ra < t ->
  1 <= t / (iq ca / iq ra) /\ t / (iq ca / iq ra) * iq ca == t * iq ra.
Proof.
  intros Ha Hr Hd. apply iq_pos in Ha, Hr.
  assert (Hd0 : 0 < iq ca / iq ra) by (apply Qlt_shift_div_l; [assumption|lra]).
  split.
  - apply Qle_shift_div_l; [assumption|]. lra.
  - field. split; lra.
Qed.

Lemma Forall2_refl {A} (P : A -> A -> Prop) l : (forall x, P x x) -> Forall2 P l l.
Proof. intros H. induction l; constructor; auto. Qed.

Theorem to_density_frame t m mew c c' b : expand_to_density_br t m mew c = Some (c', b) ->
  e_rows c' = e_rows c /\ Forall2 frame (e_cells c) (e_cells c').
Proof.
  intros H. destruct (to_density_cases _ _ _ _ _ _ H) as [(_ & ->)|(_ & _ & _ & _ & cs & mf & Hc & ->)].
  - split; [reflexivity|]. apply Forall2_refl. apply frame_refl.
  - split; [reflexivity|]. cbn. eapply expand_cells_frame; eassumption.
Qed.

Theorem to_density_noop t m mew c c' b : expand_to_density_br t m mew c = Some (c', b) ->
  b <> BrExpand -> c' = c.
Proof.
  intros H Hb. destruct (to_density_cases _ _ _ _ _ _ H) as [(_ & ->)|(Hb' & _)]; [reflexivity|contradiction].
Qed.

Theorem to_density_wider t m mew c c' b : nonneg_sizes (e_cells c) -> 0 <= mew ->
  expand_to_density_br t m mew c = Some (c', b) ->
  Forall2 (fun k k' => iq (e_w k) <= iq (max_row_width (e_rows c)) * mew -> (e_w k <= e_w k')%Z)
          (e_cells c) (e_cells c').
Proof.
  intros Hnn Hmew H.
  destruct (to_density_cases _ _ _ _ _ _ H) as [(_ & ->)|(_ & Ha & Hr & Hd & cs & mf & Hc & ->)].
  - apply Forall2_refl. intros; lia.
  - cbn [e_cells].
    assert (Ha' : (0 < movable_area (e_cells c))%Z) by (generalize (movable_area_nonneg _ Hnn); lia).
    assert (Hr' : (0 < row_placement_area m c)%Z) by (generalize (row_area_nonneg m c); lia).
    destruct (expand_branch_facts t _ _ Ha' Hr' Hd) as (Hf & _).
    assert (Hcap : 0 <= iq (max_row_width (e_rows c)) * mew).
    { generalize (iq_nonneg _ (max_row_width_nonneg (e_rows c))). nra. }
    assert (Hf0 : 0 <= t / (iq (movable_area (e_cells c)) / iq (row_placement_area m c))) by lra.
    destruct (expand_cells_inv _ _ Hf0 Hcap _ _ _ _ None Hc (Qle_refl 0) I) as (_ & _ & _ & Hw).
    apply Hw. exact Hf.
Qed.

(* the area clauses: never above target * available; within the height of the last processed cell of it
   when no cap binds *)
Theorem to_density_area t m mew c c' : nonneg_sizes (e_cells c) -> 0 <= mew ->
  expand_to_density_br t m mew c = Some (c', BrExpand) ->
  let ra := row_placement_area m c in
  let f := t / (iq (movable_area (e_cells c)) / iq ra) in
  let cap := iq (max_row_width (e_rows c)) * mew in
  iq (movable_area (e_cells c')) <= t * iq ra /\
  (no_cap_binds f cap (e_cells c) ->
   exists h, last_proc_h (e_cells c) None = Some h /\ t * iq ra - iq h < iq (movable_area (e_cells c'))).
Proof.
  intros Hnn Hmew H ra f cap.
  destruct (to_density_cases _ _ _ _ _ _ H) as [(Hb & _)|(_ & Ha & Hr & Hd & cs & mf & Hc & ->)]; [congruence|].
  cbn [e_cells].
  assert (Ha' : (0 < movable_area (e_cells c))%Z) by (generalize (movable_area_nonneg _ Hnn); lia).
  assert (Hr' : (0 < row_placement_area m c)%Z) by (generalize (row_area_nonneg m c); lia).
  destruct (expand_branch_facts t _ _ Ha' Hr' Hd) as (Hf & Hfa). fold ra f in Hf, Hfa, Hc.
  assert (Hcap : 0 <= cap).
  { unfold cap. generalize (iq_nonneg _ (max_row_width_nonneg (e_rows c))). nra. }
  assert (Hf0 : 0 <= f) by lra. fold cap in Hc.
  destruct (expand_cells_inv _ _ Hf0 Hcap _ _ _ _ None Hc (Qle_refl 0) I) as (Hm & Heq & Hlast & _).
  split.
  - generalize (frac_sum_le f cap (e_cells c) Hf Hnn). lra.
  - intros Hn. destruct (last_proc_h (e_cells c) None) as [h|] eqn:El.
    + exists h. split; [reflexivity|]. cbn [below] in Hlast.
      generalize (frac_sum_eq f cap (e_cells c) Hnn Hn). lra.
    + exfalso. revert El. apply last_proc_some. left. apply movable_pos_processed; assumption.
Qed.

Theorem to_density_total t m mew c : nonneg_sizes (e_cells c) -> 0 <= mew ->
  expand_to_density_br t m mew c <> None.
Proof.
  intros Hnn Hmew. unfold expand_to_density_br.
  destruct ((movable_area (e_cells c) =? 0)%Z || (row_placement_area m c =? 0)%Z) eqn:E0; [discriminate|].
  apply orb_false_iff in E0. destruct E0 as (Ea & Er). apply Z.eqb_neq in Ea, Er.
  destruct (Qle_bool t _) eqn:Ed; [discriminate|]. apply Qle_bool_false in Ed.
  assert (Ha' : (0 < movable_area (e_cells c))%Z) by (generalize (movable_area_nonneg _ Hnn); lia).
  assert (Hr' : (0 < row_placement_area m c)%Z) by (generalize (row_area_nonneg m c); lia).
  destruct (expand_branch_facts t _ _ Ha' Hr' Ed) as (Hf & _).
  assert (Hcap : 0 <= iq (max_row_width (e_rows c)) * mew).
  { generalize (iq_nonneg _ (max_row_width_nonneg (e_rows c))). nra. }
  assert (Hf0 : 0 <= t / (iq (movable_area (e_cells c)) / iq (row_placement_area m c))) by lra.
  generalize (expand_cells_total _ _ Hf0 Hcap (e_cells c) 0 (Qle_refl 0)).
  destruct (expand_cells _ _ (e_cells c) 0) as [[cs mf]|]; [discriminate|congruence].
Qed.

(* ---------------------------------------------------------------- expandCellsByFactor *)
Definition esum1 (ke : ecell * Q) : Q := if e_fixed (fst ke) then 0 else snd ke * iq (cell_area (fst ke)).
(* the exact (untruncated) expanded area sum_i e_i * area_i over the movable cells *)
Definition esum (cells : list ecell) (es : list Q) : Q := qsum (map esum1 (combine cells es)).
(* number of movable cells = number of truncations in the accumulation of expandedArea *)
Definition nmov (cells : list ecell) : Z := zsum (map (fun k => if e_fixed k then 0%Z else 1%Z) cells).

Lemma nmov_cons k r : nmov (k :: r) = ((if e_fixed k then 0 else 1) + nmov r)%Z.
Proof. reflexivity. Qed.
Lemma esum_cons k r e er : esum (k :: r) (e :: er) == esum1 (k, e) + esum r er.
Proof. reflexivity. Qed.

Lemma nmov_nonneg cells : (0 <= nmov cells)%Z.
Proof. induction cells as [|k r IH]; [cbn; lia|]. rewrite nmov_cons. destruct (e_fixed k); lia. Qed.

Lemma cell_area_nonneg k : (0 <= e_w k)%Z -> (0 <= e_h k)%Z -> (0 <= cell_area k)%Z.
Proof. unfold cell_area. nia. Qed.

(* the truncating accumulation loses less than one unit per movable cell *)
Lemma expanded_area_bound : forall cells es acc,
  length es = length cells -> nonneg_sizes cells -> Forall (fun e => 0 <= e) es -> (0 <= acc)%Z ->
  iq acc + esum cells es <= iq (expanded_area cells es acc) + iq (nmov cells).
Proof.
  induction cells as [|k r IH]; intros es acc Hl Hnn Hes Hacc.
  - destruct es; [|discriminate]. change (esum [] []) with 0. change (nmov []) with 0%Z. cbn [expanded_area].
    rewrite iq_0. lra.
  - destruct es as [|e er]; [discriminate|]. cbn [expanded_area]. rewrite esum_cons, nmov_cons, iq_plus.
    inversion Hnn as [|? ? (Hw & Hh) Hnn']; subst. inversion Hes; subst. injection Hl as Hl.
    unfold esum1. cbn [fst snd]. destruct (e_fixed k).
    + specialize (IH er acc Hl Hnn' H2 Hacc). rewrite iq_0. lra.
    + assert (Hx : 0 <= iq acc + e * iq (cell_area k)).
      { generalize (iq_nonneg _ Hacc) (iq_nonneg _ (cell_area_nonneg k Hw Hh)). nra. }
      specialize (IH er (Qtrunc (iq acc + e * iq (cell_area k))) Hl Hnn' H2 (Qtrunc_ge0 _ Hx)).
      generalize (Qtrunc_gt _ Hx). rewrite iq_1. lra.
Qed.

Lemma apply_factor_area : forall cells es, length es = length cells -> nonneg_sizes cells ->
  Forall (fun e => 0 <= e) es ->
  iq (movable_area (map apply_factor (combine cells es))) <= esum cells es.
Proof.
  induction cells as [|k r IH]; intros es Hl Hnn Hes.
  - destruct es; cbn [combine map]; change (movable_area []) with 0%Z; change (esum [] []) with 0;
      try change (esum [] (q :: es)) with 0; rewrite iq_0; apply Qle_refl.
  - destruct es as [|e er]; [discriminate|]. cbn [combine map]. rewrite movable_area_cons, iq_plus, esum_cons.
    inversion Hnn as [|? ? (Hw & Hh) Hnn']; subst. inversion Hes; subst. injection Hl as Hl.
    specialize (IH er Hl Hnn' H2). unfold esum1, marea1. cbn [fst snd].
    change (apply_factor (k, e)) with (if e_fixed k then k else set_w k (Qtrunc (iq (e_w k) * e))).
    destruct (e_fixed k) eqn:Hfx.
    + rewrite Hfx, iq_0. lra.
    + cbn [set_w e_fixed]. rewrite Hfx. unfold cell_area. cbn [set_w e_w e_h]. rewrite !iq_mult.
      assert (Hx : 0 <= iq (e_w k) * e) by (generalize (iq_nonneg _ Hw); nra).
      generalize (Qtrunc_le _ Hx) (iq_nonneg _ Hh). nra.
Qed.

Lemma apply_factor_frame : forall cells es, length es = length cells ->
  Forall2 frame cells (map apply_factor (combine cells es)).
Proof.
  induction cells as [|k r IH]; intros es Hl; [constructor|].
  destruct es as [|e er]; [discriminate|]. injection Hl as Hl. cbn [combine map]. constructor; [|apply IH; assumption].
  unfold apply_factor. destruct (e_fixed k) eqn:Hfx; [apply frame_refl|].
  split; [reflexivity|]. congruence.
Qed.

Lemma apply_factor_wider : forall cells es, length es = length cells -> nonneg_sizes cells ->
  Forall (fun e => 1 <= e) es ->
  Forall2 (fun k k' => (e_w k <= e_w k')%Z) cells (map apply_factor (combine cells es)).
Proof.
  induction cells as [|k r IH]; intros es Hl Hnn Hes; [constructor|].
  destruct es as [|e er]; [discriminate|]. injection Hl as Hl. cbn [combine map].
  inversion Hnn as [|? ? (Hw & Hh) Hnn']; subst. inversion Hes; subst.
  constructor; [|apply IH; assumption].
  unfold apply_factor. destruct (e_fixed k); [lia|]. cbn [set_w e_w].
  apply iq_nonneg in Hw. apply Qtrunc_int_le; nra.
Qed.

Lemma esum_ratio rho : forall cells es, length es = length cells ->
  esum cells (map (fun e => Qred (1 + (e - 1) * rho)) es) ==
  (1 - rho) * iq (movable_area cells) + rho * esum cells es.
Proof.
  induction cells as [|k r IH]; intros es Hl.
  - destruct es; [|discriminate]. cbn. rewrite iq_0. ring.
  - destruct es as [|e er]; [discriminate|]. injection Hl as Hl. cbn [map]. rewrite !esum_cons, movable_area_cons, iq_plus.
    rewrite (IH er Hl). unfold esum1, marea1. cbn [fst snd]. destruct (e_fixed k).
    + rewrite iq_0. ring.
    + rewrite Qred_correct. ring.
Qed.

Lemma existsb_false_Forall {A} (f : A -> bool) l : existsb f l = false -> Forall (fun x => f x = false) l.
Proof.
  induction l as [|a l IH]; cbn; intros H; [constructor|]. apply orb_false_iff in H. destruct H. constructor; auto.
Qed.

Lemma Forall_impl' {A} (P Q : A -> Prop) l : (forall x, P x -> Q x) -> Forall P l -> Forall Q l.
Proof. intros H. induction 1; constructor; auto. Qed.

Definition bf_ratio (maxD : Q) (ca ea ra : Z) : Q :=
  (maxD - iq ca / iq ra) / (iq ea / iq ra - iq ca / iq ra).

Lemma by_factor_cases es maxD m c c' r b : expand_by_factor_br es maxD m c = Some (c', r, b) ->
  let ca := movable_area (e_cells c) in
  let ea := expanded_area (e_cells c) es 0 in
  let ra := row_placement_area m c in
  length es = length (e_cells c) /\ Forall (fun e => flt_0_999 <= e) es /\
  ((b <> BrExpand /\ c' = c /\ r = 1) \/
   (b = BrExpand /\ ca <> 0%Z /\ ra <> 0%Z /\ iq ca / iq ra < maxD /\
    exists es', c' = {| e_rows := e_rows c; e_cells := map apply_factor (combine (e_cells c) es') |} /\
     ((iq ea / iq ra <= maxD /\ es' = es) \/
      (maxD < iq ea / iq ra /\ es' = map (fun e => Qred (1 + (e - 1) * bf_ratio maxD ca ea ra)) es)))).
Proof.
  intros H ca ea ra. unfold expand_by_factor_br in H.
  destruct (Nat.eqb (length es) (length (e_cells c))) eqn:El; [|discriminate]. apply Nat.eqb_eq in El. cbn [negb] in H.
  destruct (existsb _ es) eqn:Ee; [discriminate|]. apply existsb_false_Forall in Ee.
  split; [assumption|]. split.
  { eapply Forall_impl'; [|exact Ee]. cbn. intros x Hx. apply negb_false_iff in Hx. apply Qle_bool_iff. assumption. }
  fold ca ea ra in H.
  destruct ((ca =? 0)%Z || (ra =? 0)%Z) eqn:E0.
  - inversion H; subst. left. split; [discriminate|]. split; reflexivity.
  - apply orb_false_iff in E0. destruct E0 as (Ea & Er). apply Z.eqb_neq in Ea, Er.
    destruct (Qle_bool maxD _) eqn:Ed.
    + inversion H; subst. left. split; [discriminate|]. split; reflexivity.
    + apply Qle_bool_false in Ed. right. inversion H; subst. clear H.
      split; [reflexivity|]. split; [assumption|]. split; [assumption|]. split; [assumption|].
      destruct (Qle_bool (iq ea / iq ra) maxD) eqn:Ee2.
      * apply Qle_bool_iff in Ee2. exists es. split; [reflexivity|]. left. split; [assumption|reflexivity].
      * apply Qle_bool_false in Ee2. eexists. split; [reflexivity|]. right. split; [assumption|reflexivity].
Qed.

(* pure algebra of the ratio adjustment *)
Lemma ratio_algebra (maxD ca ea ra k s : Q) :
  0 < ra -> 0 < ca -> ca / ra < maxD -> maxD < ea / ra -> s <= ea + k -> 0 <= k ->
  let rho := (maxD - ca / ra) / (ea / ra - ca / ra) in
  0 <= rho /\ (1 - rho) * ca + rho * s <= maxD * ra + k.
Proof.
  intros Hr Ha Hd He Hs Hk rho.
  assert (Hden : 0 < ea / ra - ca / ra) by lra.
  assert (Hrho0 : 0 < rho). { unfold rho. apply Qlt_shift_div_l; [assumption|]. lra. }
  assert (Hrho1 : rho < 1). { unfold rho. apply Qlt_shift_div_r; [assumption|]. lra. }
  assert (Hkey : rho * (ea - ca) == maxD * ra - ca).
  { unfold rho. field. split; [lra|]. intros Hz.
    assert (Hx : ea / ra - ca / ra == (ea - ca) / ra) by (field; lra).
    rewrite Hx in Hden. rewrite Hz in Hden. unfold Qdiv in Hden. lra. }
  split; [lra|]. nra.
Qed.

Theorem by_factor_frame es maxD m c c' r b : expand_by_factor_br es maxD m c = Some (c', r, b) ->
  e_rows c' = e_rows c /\ Forall2 frame (e_cells c) (e_cells c').
Proof.
  intros H. destruct (by_factor_cases _ _ _ _ _ _ _ H) as (Hl & _ & [(_ & -> & _)|(_ & _ & _ & _ & es' & -> & Hes')]).
  - split; [reflexivity|]. apply Forall2_refl. apply frame_refl.
  - split; [reflexivity|]. cbn [e_cells]. apply apply_factor_frame.
    destruct Hes' as [(_ & ->)|(_ & ->)]; [assumption|]. rewrite map_length. assumption.
Qed.

Theorem by_factor_noop es maxD m c c' r b : expand_by_factor_br es maxD m c = Some (c', r, b) ->
  b <> BrExpand -> c' = c /\ r = 1.
Proof.
  intros H Hb. destruct (by_factor_cases _ _ _ _ _ _ _ H) as (_ & _ & [(_ & -> & ->)|(Hb' & _)]); [split; reflexivity|contradiction].
Qed.

Lemma by_factor_pos m c : nonneg_sizes (e_cells c) -> movable_area (e_cells c) <> 0%Z -> row_placement_area m c <> 0%Z ->
  0 < iq (movable_area (e_cells c)) /\ 0 < iq (row_placement_area m c).
Proof.
  intros Hnn Ha Hr. split; apply iq_pos.
  - generalize (movable_area_nonneg _ Hnn); lia.
  - generalize (row_area_nonneg m c); lia.
Qed.

Lemma flt_0_999_pos : 0 < flt_0_999.
Proof. reflexivity. Qed.

Theorem by_factor_wider es maxD m c c' r b : nonneg_sizes (e_cells c) -> Forall (fun e => 1 <= e) es ->
  expand_by_factor_br es maxD m c = Some (c', r, b) ->
  Forall2 (fun k k' => (e_w k <= e_w k')%Z) (e_cells c) (e_cells c').
Proof.
  intros Hnn Hes H.
  destruct (by_factor_cases _ _ _ _ _ _ _ H) as (Hl & _ & [(_ & -> & _)|(_ & Ha & Hr & Hd & es' & -> & Hes')]).
  - apply Forall2_refl. intros; lia.
  - cbn [e_cells]. destruct (by_factor_pos m c Hnn Ha Hr) as (Hca & Hra).
    destruct Hes' as [(_ & ->)|(He & ->)]; [apply apply_factor_wider; assumption|].
    apply apply_factor_wider; [rewrite map_length; assumption|assumption|].
    assert (Hrho : 0 <= bf_ratio maxD (movable_area (e_cells c)) (expanded_area (e_cells c) es 0) (row_placement_area m c)).
    { unfold bf_ratio. apply Qle_shift_div_l; lra. }
    apply Forall_forall. intros x Hx. apply in_map_iff in Hx. destruct Hx as (e & <- & Hin).
    rewrite Forall_forall in Hes. specialize (Hes e Hin). rewrite Qred_correct. nra.
Qed.

Lemma Qdiv_le_mult a b c : 0 < b -> a / b <= c -> a <= c * b.
Proof.
  intros Hb H. assert (E : a == a / b * b) by (field; lra). rewrite E.
  apply Qmult_le_compat_r; [assumption|lra].
Qed.

(* utilisation <= maxDensity + (number of movable cells) / available area *)
Theorem by_factor_area es maxD m c c' r : nonneg_sizes (e_cells c) ->
  expand_by_factor_br es maxD m c = Some (c', r, BrExpand) ->
  iq (movable_area (e_cells c')) <= maxD * iq (row_placement_area m c) + iq (nmov (e_cells c)).
Proof.
  intros Hnn H.
  destruct (by_factor_cases _ _ _ _ _ _ _ H) as (Hl & H999 & [(Hb & _)|(_ & Ha & Hr & Hd & es' & -> & Hes')]); [congruence|].
  cbn [e_cells]. destruct (by_factor_pos m c Hnn Ha Hr) as (Hca & Hra).
  assert (Hes0 : Forall (fun e => 0 <= e) es).
  { eapply Forall_impl'; [|exact H999]. cbn. intros x Hx. generalize flt_0_999_pos. lra. }
  generalize (expanded_area_bound (e_cells c) es 0 Hl Hnn Hes0 (Z.le_refl 0)). rewrite iq_0. intros Hacc.
  generalize (iq_nonneg _ (nmov_nonneg (e_cells c))). intros Hk.
  destruct Hes' as [(He & ->)|(He & ->)].
  - generalize (apply_factor_area (e_cells c) es Hl Hnn Hes0). intros Hap.
    apply Qdiv_le_mult in He; [|assumption]. lra.
  - set (rho := bf_ratio maxD _ _ _).
    destruct (ratio_algebra maxD (iq (movable_area (e_cells c))) (iq (expanded_area (e_cells c) es 0))
               (iq (row_placement_area m c)) (iq (nmov (e_cells c))) (esum (e_cells c) es) Hra Hca Hd He)
      as (Hrho & Hbound); [lra|assumption|]. fold (bf_ratio maxD (movable_area (e_cells c)) (expanded_area (e_cells c) es 0) (row_placement_area m c)) in Hrho, Hbound.
    fold rho in Hrho, Hbound.
    assert (Hes1 : Forall (fun e => 0 <= e) (map (fun e => Qred (1 + (e - 1) * rho)) es)).
    { apply Forall_forall. intros x Hx. apply in_map_iff in Hx. destruct Hx as (e & <- & Hin).
      rewrite Forall_forall in Hes0. specialize (Hes0 e Hin). rewrite Qred_correct.
      assert (rho <= 1).
      { unfold rho, bf_ratio. apply Qle_shift_div_r; lra. }
      nra. }
    generalize (apply_factor_area (e_cells c) _ (eq_trans (map_length _ es) Hl) Hnn Hes1).
    rewrite (esum_ratio rho (e_cells c) es Hl). lra.
Qed.

(* ---------------------------------------------------------------- computeCellExpansion *)
Lemma qmax_cases a b : (qmax a b = a \/ qmax a b = b) /\ a <= qmax a b /\ b <= qmax a b.
Proof.
  unfold qmax. destruct (Qle_bool b a) eqn:E.
  - apply Qle_bool_iff in E. split; [left; reflexivity|]. split; [apply Qle_refl|assumption].
  - apply Qle_bool_false in E. split; [right; reflexivity|]. split; [apply Qlt_le_weak; assumption|apply Qle_refl].
Qed.

Definition hit (k : ecell) (r : rect) : bool := rect_intersects r (e_placement k).

Lemma fold_max_spec k : forall emap acc,
  let v := fold_left (fun acc re => if rect_intersects (fst re) (e_placement k) then qmax acc (snd re) else acc) emap acc in
  acc <= v /\
  (forall re, In re emap -> hit k (fst re) = true -> snd re <= v) /\
  (v = acc \/ exists re, In re emap /\ hit k (fst re) = true /\ v = snd re).
Proof.
  induction emap as [|re l IH]; intros acc; cbn [fold_left].
  - split; [apply Qle_refl|]. split; [intros ? []|left; reflexivity].
  - fold (hit k (fst re)). destruct (hit k (fst re)) eqn:Hh.
    + destruct (qmax_cases acc (snd re)) as (Hc & Ha & Hb).
      specialize (IH (qmax acc (snd re))). cbv zeta in IH. destruct IH as (I1 & I2 & I3).
      split; [eapply Qle_trans; eassumption|]. split.
      * intros re' [<-|Hin] Hre'; [eapply Qle_trans; eassumption|apply I2; assumption].
      * destruct I3 as [I3|(re' & Hin & Hre' & I3)].
        -- destruct Hc as [Hc|Hc]; [left; congruence|]. right. exists re. split; [left; reflexivity|]. split; [assumption|congruence].
        -- right. exists re'. split; [right; assumption|]. split; assumption.
    + specialize (IH acc). cbv zeta in IH. destruct IH as (I1 & I2 & I3). split; [assumption|]. split.
      * intros re' [<-|Hin] Hre'; [congruence|apply I2; assumption].
      * destruct I3 as [I3|(re' & Hin & Hre' & I3)]; [left; assumption|].
        right. exists re'. split; [right; assumption|]. split; assumption.
Qed.

Lemma in_expansion_map fp pf cmap r e :
  In (r, e) (expansion_map fp pf cmap) <-> exists cg, In (r, cg) cmap /\ 1 < cg /\ e = region_factor fp pf cg.
Proof.
  unfold expansion_map. rewrite in_flat_map. split.
  - intros ((r0 & cg) & Hin & H). cbn [fst snd] in H. destruct (Qle_bool cg 1) eqn:E; [destruct H|].
    apply Qle_bool_false in E. destruct H as [H|[]]. inversion H; subst. exists cg. auto.
  - intros (cg & Hin & Hcg & ->). exists (r, cg). split; [assumption|]. cbn [fst snd].
    apply Qle_bool_false in Hcg. rewrite Hcg. left. reflexivity.
Qed.

Lemma region_factor_gt1 fp pf cg : 0 <= fp -> 1 <= pf -> 1 < cg -> 1 < region_factor fp pf cg.
Proof. intros. unfold region_factor. nra. Qed.

(* region (r, cg) of the congestion map is congested and intersects the placement of cell k *)
Definition congested_hit (cmap : list (rect * Q)) (k : ecell) (r : rect) (cg : Q) : Prop :=
  In (r, cg) cmap /\ 1 < cg /\ hit k r = true.

Definition expansion_spec (cmap : list (rect * Q)) (fp pf : Q) (k : ecell) (v : Q) : Prop :=
  (e_fixed k = true -> v = 1) /\
  (e_fixed k = false ->
     1 <= v /\
     (forall r cg, congested_hit cmap k r cg -> region_factor fp pf cg <= v) /\
     ((forall r cg, ~ congested_hit cmap k r cg) -> v = 1) /\
     ((exists r cg, congested_hit cmap k r cg) ->
      exists r cg, congested_hit cmap k r cg /\ v = region_factor fp pf cg)).

Lemma cell_expansion_spec cmap fp pf k : 0 <= fp -> 1 <= pf ->
  expansion_spec cmap fp pf k (cell_expansion (expansion_map fp pf cmap) k).
Proof.
  intros Hfp Hpf. unfold expansion_spec, cell_expansion. split.
  - intros ->. reflexivity.
  - intros ->. destruct (fold_max_spec k (expansion_map fp pf cmap) 1) as (H1 & H2 & H3).
    set (v := fold_left _ _ _) in *.
    assert (Hle : forall r cg, congested_hit cmap k r cg -> region_factor fp pf cg <= v).
    { intros r cg (Hin & Hcg & Hh). apply (H2 (r, region_factor fp pf cg)); [|assumption].
      apply in_expansion_map. exists cg. auto. }
    split; [assumption|]. split; [assumption|]. split.
    + intros Hno. destruct H3 as [H3|((r & e) & Hin & Hh & _)]; [assumption|].
      apply in_expansion_map in Hin. destruct Hin as (cg & Hin & Hcg & _). exfalso. apply (Hno r cg).
      split; [assumption|]. split; assumption.
    + intros (r & cg & Hc). destruct H3 as [H3|((r' & e) & Hin & Hh & H3)].
      * exfalso. generalize (Hle r cg Hc). destruct Hc as (_ & Hcg & _).
        generalize (region_factor_gt1 fp pf cg Hfp Hpf Hcg). rewrite H3. lra.
      * apply in_expansion_map in Hin. destruct Hin as (cg' & Hin & Hcg' & ->). exists r', cg'.
        split; [|assumption]. split; [assumption|]. split; assumption.
Qed.

Lemma Forall2_map_r {A B} (P : A -> B -> Prop) (f : A -> B) l : (forall x, P x (f x)) -> Forall2 P l (map f l).
Proof. intros H. induction l; constructor; auto. Qed.

Theorem expansion_is_max cmap fp pf c l : compute_expansion cmap fp pf c = Some l ->
  0 <= fp /\ 1 <= pf /\ Forall2 (expansion_spec cmap fp pf) (e_cells c) l.
Proof.
  unfold compute_expansion. destruct (Qle_bool 0 fp) eqn:E1; [|discriminate].
  destruct (Qle_bool 1 pf) eqn:E2; [|discriminate]. cbn [negb orb]. intros H. inversion H; subst.
  apply Qle_bool_iff in E1, E2. split; [assumption|]. split; [assumption|].
  apply Forall2_map_r. intros k. apply cell_expansion_spec; assumption.
Qed.

Theorem expansion_throws cmap fp pf c : compute_expansion cmap fp pf c = None <-> (fp < 0 \/ pf < 1).
Proof.
  unfold compute_expansion. split.
  - destruct (Qle_bool 0 fp) eqn:E1; [|left; apply Qle_bool_false; assumption].
    destruct (Qle_bool 1 pf) eqn:E2; [discriminate|right; apply Qle_bool_false; assumption].
  - intros [H|H]; apply Qle_bool_false in H; rewrite H; [reflexivity|]. rewrite orb_true_r. reflexivity.
Qed.

(* ---------------------------------------------------------------- computeRowPlacementArea *)
(* with a zero margin the placement area is the area of the free rows; a margin never adds area *)
Lemma margin_row_area_le m r : 0 <= m -> (0 < rect_h (rr r))%Z -> (0 <= rect_w (rr r))%Z ->
  (margin_row_area m r <= rect_w (rr r) * rect_h (rr r))%Z.
Proof.
  intros Hm Hh Hw. unfold margin_row_area. set (x := iq (rect_w (rr r)) - 2 * m * iq (rect_h (rr r))).
  destruct (0 <? Qtrunc x)%Z eqn:E; [|nia]. apply Z.ltb_lt in E.
  assert (Hx : 0 <= x).
  { destruct (Qlt_le_dec x 0) as [Hneg|]; [|assumption]. exfalso. unfold Qtrunc in E.
    destruct (Qle_bool 0 x) eqn:E0; [apply Qle_bool_iff in E0; lra|].
    assert (Hc : (Qceiling x <= 0)%Z). { rewrite <- (Qceiling_Z 0). apply Qceiling_resp_le. apply Qlt_le_weak. exact Hneg. }
    lia. }
  assert (Hle : (Qtrunc x <= rect_w (rr r))%Z).
  { apply iq_le. eapply Qle_trans; [apply Qtrunc_le; assumption|]. unfold x.
    generalize (iq_pos _ Hh). intros. nra. }
  nia.
Qed.

Lemma margin_row_area_0 r : (0 <= rect_w (rr r))%Z -> margin_row_area 0 r = (rect_w (rr r) * rect_h (rr r))%Z.
Proof.
  intros Hw. unfold margin_row_area.
  assert (E : Qtrunc (iq (rect_w (rr r)) - 2 * 0 * iq (rect_h (rr r))) = rect_w (rr r)).
  { assert (Hx : iq (rect_w (rr r)) - 2 * 0 * iq (rect_h (rr r)) == iq (rect_w (rr r))) by ring.
    rewrite Qtrunc_nonneg; [rewrite Hx; apply Qfloor_Z|]. rewrite Hx. apply iq_nonneg. assumption. }
  rewrite E. destruct (0 <? rect_w (rr r))%Z eqn:E0; [reflexivity|]. apply Z.ltb_ge in E0.
  assert (rect_w (rr r) = 0%Z) by lia. nia.
Qed.

(* ---------------------------------------------------------------- statements as used by Properties_C18.v *)
Lemma to_density_only_widths : forall t m mew c c' b,
  expand_to_density_br t m mew c = Some (c', b) ->
  e_rows c' = e_rows c /\ Forall2 frame (e_cells c) (e_cells c') /\ (b <> BrExpand -> c' = c).
Proof.
  intros t m mew c c' b H. destruct (to_density_frame _ _ _ _ _ _ H) as (H1 & H2).
  split; [exact H1|]. split; [exact H2|]. exact (to_density_noop _ _ _ _ _ _ H).
Qed.

Lemma carry_invariant_loop : forall f cap, 0 <= f -> 0 <= cap -> forall cells m cells' m',
  expand_cells f cap cells m = Some (cells', m') -> 0 <= m ->
  0 <= m' /\
  iq (movable_area cells') + m' == qsum (map (frac_area f cap) cells) + m /\
  below m' (last_proc_h cells None).
Proof.
  intros f cap Hf Hc cells m cells' m' H Hm.
  destruct (expand_cells_inv f cap Hf Hc cells m cells' m' None H Hm I) as (H1 & H2 & H3 & _).
  split; [exact H1|]. split; [exact H2|exact H3].
Qed.

Lemma by_factor_only_widths : forall es maxD m c c' r b,
  expand_by_factor_br es maxD m c = Some (c', r, b) ->
  e_rows c' = e_rows c /\ Forall2 frame (e_cells c) (e_cells c') /\ (b <> BrExpand -> c' = c /\ r = 1).
Proof.
  intros es maxD m c c' r b H. destruct (by_factor_frame _ _ _ _ _ _ _ H) as (H1 & H2).
  split; [exact H1|]. split; [exact H2|]. exact (by_factor_noop _ _ _ _ _ _ _ H).
Qed.

Lemma row_area_facts : forall m c,
  (0 <= row_placement_area m c)%Z /\
  (forall r, In r (e_free_rows c) -> 0 <= m -> (0 <= rect_w (rr r))%Z ->
             (margin_row_area m r <= rect_w (rr r) * rect_h (rr r))%Z) /\
  (forall r, (0 <= rect_w (rr r))%Z -> margin_row_area 0 r = (rect_w (rr r) * rect_h (rr r))%Z).
Proof.
  intros m c. split; [apply row_area_nonneg|]. split.
  - intros r Hr Hm Hw. apply margin_row_area_le; [assumption| |assumption]. eapply free_row_height_pos; eassumption.
  - intros r Hw. apply margin_row_area_0. assumption.
Qed.
