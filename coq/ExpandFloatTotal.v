(* C18, floating-point analysis, part 6: the fuel of the carry loop of ExpandFloat.v suffices (the model never
   returns None on its domain): the while loop of expandCellsToDensity terminates after floor(missingArea / h)
   iterations because every subtraction is exact.  Proofs only. *)
From Coq Require Import ZArith Reals Psatz Lra Lia List Bool.
From Flocq Require Import Core BinarySingleNaN.
Require Import CV.Orient CV.FreeSpace CV.Expand CV.ExpandProofs CV.SpreadFloat CV.SpreadFloatProofs.
Require Import CV.ExpandFloat CV.ExpandFloatBase CV.ExpandFloatProofs CV.ExpandFloatCarry CV.ExpandFloatArea.
Import ListNotations.
Local Open Scope R_scope.

Lemma Zfloor_minus_int : forall (x : R) (h : Z), Zfloor (x - IZR h) = (Zfloor x - h)%Z.
Proof.
  intros x h. apply Zfloor_imp. pose proof (Zfloor_lb x). pose proof (Zfloor_ub x).
  rewrite plus_IZR, minus_IZR. simpl. lra.
Qed.

Lemma carry_loop_f_total : forall fuel (h w : Z) (m : f64), (1 <= h < 2 ^ 31)%Z ->
  is_finite m = true -> 0 <= B2R m < bpow radix2 53 ->
  (Zfloor (B2R m) / h <= Z.of_nat fuel)%Z -> carry_loop_f fuel h w m <> None.
Proof.
  induction fuel as [|fuel IH]; intros h w m Hh Fm Hm Hq; cbn [carry_loop_f];
    destruct (d_of_Z_exact h (abs31 h ltac:(lia))) as [H1 H2];
    destruct (Bleb (d_of_Z h) m) eqn:B; try discriminate.
  - exfalso. pose proof (dleb_le _ _ H2 Fm B) as L. rewrite H1 in L.
    assert (h <= Zfloor (B2R m))%Z by (apply Zfloor_lub; exact L).
    assert (1 <= Zfloor (B2R m) / h)%Z by (apply Z.div_le_lower_bound; lia). simpl in Hq. lia.
  - pose proof (dleb_le _ _ H2 Fm B) as L. rewrite H1 in L.
    assert (Rh1 : 1 <= IZR h) by (apply (IZR_le 1); lia).
    destruct (dsub_correct m (d_of_Z h) Fm H2) as [S1 S2].
    { rewrite H1, Rabs_pos_eq by lra. apply Rle_trans with (bpow radix2 53); [lra|apply bpow_le; lia]. }
    rewrite H1 in S1. rewrite rnd64_id in S1 by (apply fmt64_minus_int; [apply B2R_fmt64|lra|lra]).
    apply IH; [exact Hh|exact S2|rewrite S1; lra|].
    rewrite S1, Zfloor_minus_int.
    replace (Zfloor (B2R m) - h)%Z with (Zfloor (B2R m) + (-1) * h)%Z by ring.
    rewrite Z.div_add by lia. rewrite Nat2Z.inj_succ in Hq. lia.
Qed.

Lemma expand_cell_f_total : forall f cap k (m : f64),
  (e_h k < 2 ^ 31)%Z -> is_finite m = true -> 0 <= B2R m <= bpow radix2 31 -> fw_ok f cap k ->
  expand_cell_f f cap k m <> None.
Proof.
  intros f cap k m Hh Fm Hm Ok. unfold expand_cell_f. destruct (processed k) eqn:P; [|discriminate].
  destruct (Ok P) as [Ff Hf]. destruct (processed_spec k P) as [_ [Ph _]].
  set (fw := frac_width_f f cap k) in *.
  destruct (carry_in_f_spec m (e_h k) fw Fm Ff ltac:(lia) Hm Hf) as [F1 [R1 _]].
  assert (R53 : 0 <= B2R (carry_in_f m (e_h k) fw) < bpow radix2 53).
  { split; [apply R1|]. eapply Rle_lt_trans; [apply R1|]. apply bpow_lt. lia. }
  assert (Hh' : (1 <= e_h k < 2 ^ 31)%Z) by lia.
  pose proof (carry_loop_f_total (Z.to_nat (Btrunc (carry_in_f m (e_h k) fw) / e_h k)) (e_h k) (Btrunc fw)
                (carry_in_f m (e_h k) fw) Hh' F1 R53) as T.
  destruct (carry_loop_f _ _ _ _) as [[w' m2]|]; [discriminate|]. exfalso. apply T; [|reflexivity].
  rewrite Btrunc_Ztrunc, Ztrunc_floor by lra. rewrite Z2Nat.id; [lia|].
  apply Z.div_pos; [|lia]. apply Zfloor_lub. simpl. lra.
Qed.

Lemma expand_cells_f_total : forall f cap cells (m : f64),
  int_sizes cells -> Forall (fw_ok f cap) cells ->
  is_finite m = true -> 0 <= B2R m <= bpow radix2 31 ->
  expand_cells_f f cap cells m <> None.
Proof.
  intros f cap. induction cells as [|k r IH]; intros m Hs Ok Fm Hm; cbn [expand_cells_f]; [discriminate|].
  inversion Hs as [|? ? [Hw Hh] Hs']; subst. inversion Ok as [|? ? Ok1 Ok']; subst.
  pose proof (expand_cell_f_total f cap k m ltac:(lia) Fm Hm Ok1) as T.
  destruct (expand_cell_f f cap k m) as [[k1 m1]|] eqn:E1; [|contradiction].
  assert (M1 : is_finite m1 = true /\ 0 <= B2R m1 <= bpow radix2 31).
  { destruct (processed k) eqn:P.
    - destruct (expand_cell_f_spec f cap k m k1 m1 P ltac:(lia) Fm Hm Ok1 E1) as [_ [F1 [R1 _]]].
      split; [exact F1|]. split; [apply R1|]. apply Rlt_le. eapply Rlt_le_trans; [apply R1|].
      change (bpow radix2 31) with (IZR (2 ^ 31)). apply IZR_le. lia.
    - rewrite (expand_cell_f_unprocessed f cap k m P) in E1. inversion E1; subst. split; assumption. }
  destruct M1 as [F1 R1]. pose proof (IH m1 Hs' Ok' F1 R1) as T2.
  destruct (expand_cells_f f cap r m1) as [[r1 m2]|]; [discriminate|contradiction].
Qed.

(* on the domain of c18f_density_area_bound the binary64 model always returns (the C++ loop terminates) *)
Theorem to_density_f_total : forall (t m mew : f64) c,
  is_finite t = true -> B2R t <= 1 -> int_sizes (e_cells c) ->
  (movable_area (e_cells c) < 2 ^ 63)%Z -> (row_placement_area_f m c < 2 ^ 63)%Z ->
  is_finite (cap_f mew c) = true -> 0 <= B2R (cap_f mew c) < bpow radix2 31 ->
  expand_to_density_f_br t m mew c <> None.
Proof.
  intros t m mew c Ft Ht Hs Hca Hra Fc Hc. unfold expand_to_density_f_br.
  destruct ((movable_area (e_cells c) =? 0)%Z || (row_placement_area_f m c =? 0)%Z) eqn:Z0; [discriminate|].
  destruct (Bleb t _) eqn:D; [discriminate|].
  apply orb_false_iff in Z0. destruct Z0 as [Z1 Z2]. apply Z.eqb_neq in Z1. apply Z.eqb_neq in Z2.
  destruct (to_density_f_factor t m c Ft Ht Hs Hca Hra Z1 Z2 D) as [Ff Hf]. cbv zeta in Ff, Hf.
  pose proof (expand_cells_f_total (ddiv t (density_f (movable_area (e_cells c)) (row_placement_area_f m c)))
                (cap_f mew c) (e_cells c) (B754_zero false) Hs) as T.
  destruct (expand_cells_f _ _ _ _) as [[cs mm]|]; [discriminate|]. exfalso. apply T; [| reflexivity | | reflexivity].
  - eapply Forall_impl; [|exact Hs]. cbv beta. intros k [Hw _]. apply fw_ok_of_cap; assumption.
  - cbn [B2R]. pose proof (bpow_gt_0 radix2 31). lra.
Qed.
