(* Extraction of the closed row-reordering pass of Reorder.v (regions, region choice, orderings, write-back) together with
   the paired model of DetailedValue.v, for the correspondence run PR of C05 / C02 (harness/dopt.cpp,
   ocaml/driver_reorder.ml, checks/c05_reorder.py).  ExtrOcamlBasic only; Z, positive, nat stay the extracted Coq
   datatypes.  No Extract Constant. *)
From Coq Require Import Extraction ExtrOcamlBasic ZArith List.
Require Import CV.Orient CV.FreeSpace CV.Circuit CV.Hpwl CV.Moves CV.Optimiser CV.DetailedInit CV.DetailedExport CV.DetailedValue.
Require Import CV.Reorder.
Extraction Language OCaml.
Extraction "model_reorder.ml"
  DetailedInit.from_circuit DetailedValue.init_models DetailedValue.pbest DetailedValue.pscan DetailedExport.write_back
  Optimiser.ovalue Reorder.run Reorder.regions_of Reorder.leaves_of DetailedValue.preorder.
