(* C01 / C04 corollaries for the CLOSED model of DetailedPlacer::legalize (to be merged into
   Properties_C01.v / Properties_C04.v by the lead): the cell order is computed by the model of
   LegalizerBase::computeCellOrder (CellOrder.v) instead of being a parameter.
   legalize_real p c = legalize_circuit c (cell_order p c), p = (orderingWidth, orderingY,
   orderingHeight) as rationals.  Every theorem is the order-parametric theorem of Properties_C01.v /
   Properties_C04.v instantiated with the computed order; the only new content is that the computed
   order satisfies the side condition (b) of c01_never_fails_when_trivial (a permutation of 0..n-1). *)
From Coq Require Import List ZArith QArith Lia Bool Permutation.
Import ListNotations.
Require Import CV.Orient CV.FreeSpace CV.Circuit CV.CircuitProofs CV.Legalizer CV.LegalizerProofs
               CV.LegalizerSoundProofs CV.LegalizerTrivialProofs CV.CellOrder CV.CellOrderProofs.
Require CV.Properties_C01.
Local Open Scope Z_scope.

(* [F] the computed order is a permutation of the indices of the movable cells, for all parameters *)
Theorem c01_cell_order_permutation : forall p c,
  Permutation (cell_order p c) (seq 0 (length (movable c))).
Proof. exact cell_order_perm. Qed.

(* [F] hence it satisfies side condition (b) of c01_never_fails_when_trivial *)
Theorem c01_cell_order_lists_every_cell_once : forall p c,
  NoDup (cell_order p c) /\ (forall ci, (ci < length (movable c))%nat -> In ci (cell_order p c)).
Proof. exact cell_order_lists_every_cell_once. Qed.

(* [F on std_design, every parameter set] a placement returned by the closed model is legal *)
Theorem c01_legalize_real_legal : forall p c c' rh,
  std_design c rh -> legalize_real p c = LegOk c' -> legal c'.
Proof. exact legalize_real_legal. Qed.

(* [F] frame of a successful run of the closed model *)
Theorem c01_legalize_real_frame : forall p c c',
  legalize_real p c = LegOk c' -> rows c' = rows c /\ Forall2 same_frame (cells c) (cells c').
Proof. exact legalize_real_frame. Qed.

(* [F] last clause of C01 for the closed model: side condition (b) is discharged, (a) stays
   (c01_trivial_invalid_orientation_refuted) *)
Theorem c01_legalize_real_never_fails_when_trivial : forall p c,
  trivially_feasible c = true -> (forall k, In k (movable c) -> c_o k <> oINVALID) ->
  exists c', legalize_real p c = LegOk c'.
Proof. exact legalize_real_trivially_feasible. Qed.

(* [F on the domain of c04_legalize_circuit_orient_ok] orientation clause for the closed model *)
Theorem c04_legalize_real_orient_ok : forall p c c' rh,
  std_design c rh -> (forall r, In r (rows c) -> ro r <> oUNKNOWN) -> row_orient_by_y c ->
  legalize_real p c = LegOk c' -> orient_ok c c'.
Proof. exact legalize_real_orient_ok. Qed.

Theorem c04_legalize_real_rowhigh_orient_ok : forall p c c' rh,
  rowhigh_design c rh -> (forall r, In r (rows c) -> ro r <> oUNKNOWN) ->
  legalize_real p c = LegOk c' -> orient_ok c c'.
Proof. exact legalize_real_rowhigh_orient_ok. Qed.

(* non-vacuity, on the example circuits of Properties_C01.v with the parameters of effort 3
   (orderingWidth 0.2, orderingY 0, orderingHeight -1): the computed orders (cells 1 and 2 of ex_circuit
   have EQUAL keys 18/5: the index decides), a successful run on the
   illegal ex_circuit (std_design: c01_legalize_circuit_nonvacuous) giving a legal circuit with the
   prescribed orientations, and a successful run on the trivially feasible ex_trivial *)
Definition p_effort3 : order_params := {| op_w := 1 # 5; op_y := 0; op_h := -1 # 1 |}.
Example c01_order_nonvacuous :
  cell_order p_effort3 Properties_C01.ex_circuit = [0%nat; 1%nat; 2%nat] /\
  (exists c', legalize_real p_effort3 Properties_C01.ex_circuit = LegOk c' /\ c' <> Properties_C01.ex_circuit /\
              legalb c' = true /\ orient_okb Properties_C01.ex_circuit c' = true) /\
  trivially_feasible Properties_C01.ex_trivial = true /\
  cell_order p_effort3 Properties_C01.ex_trivial = [2%nat; 0%nat; 1%nat] /\
  (exists c', legalize_real p_effort3 Properties_C01.ex_trivial = LegOk c' /\ legalb c' = true).
Proof.
  split; [vm_compute; reflexivity|]. split.
  - eexists. split; [vm_compute; reflexivity|]. split; [discriminate|]. split; vm_compute; reflexivity.
  - split; [vm_compute; reflexivity|]. split; [vm_compute; reflexivity|].
    eexists. split; vm_compute; reflexivity.
Qed.

Print Assumptions c01_cell_order_permutation.
Print Assumptions c01_cell_order_lists_every_cell_once.
Print Assumptions c01_legalize_real_legal.
Print Assumptions c01_legalize_real_frame.
Print Assumptions c01_legalize_real_never_fails_when_trivial.
Print Assumptions c04_legalize_real_orient_ok.
Print Assumptions c04_legalize_real_rowhigh_orient_ok.
