(* Proofs about CellOrder.v (LegalizerBase::computeCellOrder): the result is the sorted permutation
   of the cell indices; on a row-high design it lists every free segment left to right when the
   ordering width lies in [0,1]; the order-parametric theorems of C01 / C04 / C11 instantiated with
   the computed order (closed model legalize_real). *)
From Coq Require Import List ZArith QArith Lia Bool Permutation Sorted.
Import ListNotations.
Require Import CV.Orient CV.FreeSpace CV.RowLeg CV.RowLegFixProofs CV.Circuit CV.CircuitProofs CV.Legalizer CV.LegalizerProofs CV.LegalizerAbacusProofs
               CV.LegalizerSoundProofs CV.LegalizerTrivialProofs CV.LegalizerIdempotentProofs CV.CellOrder.

(* ------------------------------------------------------------------ *)
(* the comparison *)

Lemma Qltb_lt a b : Qltb a b = true <-> (a < b)%Q.
Proof. unfold Qltb, Qlt. apply Z.ltb_lt. Qed.

Lemma Qltb_ge a b : Qltb a b = false <-> (b <= a)%Q.
Proof. unfold Qltb, Qle. rewrite Z.ltb_ge. reflexivity. Qed.

(* a <= b for std::pair's order: not (b < a) *)
Definition pair_le (a b : Q * nat) : Prop :=
  (fst a < fst b)%Q \/ ((fst a == fst b)%Q /\ (snd a <= snd b)%nat).

Lemma pair_ltb_true a b : pair_ltb a b = true <->
  (fst a < fst b)%Q \/ ((fst a == fst b)%Q /\ (snd a < snd b)%nat).
Proof.
  unfold pair_ltb. rewrite orb_true_iff, andb_true_iff, negb_true_iff, Qltb_lt, Qltb_ge, Nat.ltb_lt.
  split.
  - intros [H|[H1 H2]]; [left; exact H|].
    destruct (Qlt_le_dec (fst a) (fst b)) as [L|L]; [left; exact L|].
    right. split; [apply Qle_antisym; assumption|exact H2].
  - intros [H|[H1 H2]]; [left; exact H|]. right. split; [rewrite H1; apply Qle_refl|exact H2].
Qed.

Lemma pair_ltb_false a b : pair_ltb a b = false <-> pair_le b a.
Proof.
  unfold pair_le. split.
  - intros H. destruct (Qlt_le_dec (fst b) (fst a)) as [L|L]; [left; exact L|].
    destruct (Qlt_le_dec (fst a) (fst b)) as [L'|L'].
    + assert (T : pair_ltb a b = true) by (apply pair_ltb_true; left; exact L'). congruence.
    + right. split; [apply Qle_antisym; assumption|].
      destruct (Nat.le_gt_cases (snd b) (snd a)) as [N|N]; [exact N|].
      assert (T : pair_ltb a b = true).
      { apply pair_ltb_true. right. split; [apply Qle_antisym; assumption|exact N]. }
      congruence.
  - intros H. destruct (pair_ltb a b) eqn:E; [|reflexivity]. exfalso.
    apply pair_ltb_true in E. destruct H as [H|[H1 H2]]; destruct E as [E|[E1 E2]].
    + exact (Qlt_irrefl _ (Qlt_trans _ _ _ H E)).
    + rewrite E1 in H. exact (Qlt_irrefl _ H).
    + rewrite H1 in E. exact (Qlt_irrefl _ E).
    + lia.
Qed.

Lemma pair_le_trans a b c : pair_le a b -> pair_le b c -> pair_le a c.
Proof.
  unfold pair_le. intros [H|[H1 H2]] [K|[K1 K2]].
  - left. exact (Qlt_trans _ _ _ H K).
  - left. rewrite <- K1. exact H.
  - left. rewrite H1. exact K.
  - right. split; [rewrite H1; exact K1|lia].
Qed.

Lemma pair_le_total a b : pair_le a b \/ pair_le b a.
Proof.
  destruct (pair_ltb a b) eqn:E.
  - left. apply pair_ltb_true in E. destruct E as [E|[E1 E2]]; [left; exact E|right; split; [exact E1|lia]].
  - right. apply pair_ltb_false. exact E.
Qed.

(* ------------------------------------------------------------------ *)
(* the insertion sort *)

Lemma insert_pair_perm p l : Permutation (insert_pair p l) (p :: l).
Proof.
  induction l as [|q l IH]; cbn [insert_pair]; [apply Permutation_refl|].
  destruct (pair_ltb q p); [|apply Permutation_refl].
  eapply Permutation_trans; [apply perm_skip; exact IH|apply perm_swap].
Qed.

Lemma sort_pairs_perm l : Permutation (sort_pairs l) l.
Proof.
  induction l as [|p l IH]; cbn [sort_pairs fold_right]; [apply Permutation_refl|].
  eapply Permutation_trans; [apply insert_pair_perm|apply perm_skip; exact IH].
Qed.

Lemma insert_pair_sorted p l :
  StronglySorted pair_le l -> StronglySorted pair_le (insert_pair p l).
Proof.
  induction l as [|q l IH]; intros S; cbn [insert_pair].
  - constructor; [constructor|constructor].
  - inversion S as [|q' l' Sl Fq]; subst. destruct (pair_ltb q p) eqn:E.
    + constructor; [apply IH; exact Sl|].
      apply (Permutation_Forall (Permutation_sym (insert_pair_perm p l))). constructor; [|exact Fq].
      apply pair_ltb_true in E. destruct E as [E|[E1 E2]]; [left; exact E|right; split; [exact E1|lia]].
    + apply pair_ltb_false in E. constructor; [exact S|]. constructor; [exact E|].
      eapply Forall_impl; [|exact Fq]. intros x Hx. exact (pair_le_trans _ _ _ E Hx).
Qed.

Lemma sort_pairs_sorted l : StronglySorted pair_le (sort_pairs l).
Proof.
  induction l as [|p l IH]; cbn [sort_pairs fold_right]; [constructor|].
  apply insert_pair_sorted. exact IH.
Qed.

Lemma sorted_nth {A} (R : A -> A -> Prop) l : StronglySorted R l ->
  forall a b x y, (a < b)%nat -> nth_error l a = Some x -> nth_error l b = Some y -> R x y.
Proof.
  induction 1 as [|h l S IH F]; intros a b x y Hab Ha Hb; [destruct a; discriminate|].
  destruct b as [|b]; [lia|]. cbn [nth_error] in Hb. destruct a as [|a]; cbn [nth_error] in Ha.
  - injection Ha as <-. rewrite Forall_forall in F. apply F. eapply nth_error_In; exact Hb.
  - apply (IH a b); [lia|exact Ha|exact Hb].
Qed.

(* ------------------------------------------------------------------ *)
(* (a) computeCellOrder returns a permutation of 0..n-1 *)

Lemma map_snd_combine {A B} (l : list A) : forall (l' : list B),
  length l = length l' -> map snd (combine l l') = l'.
Proof.
  induction l as [|x l IH]; intros [|y l'] H; cbn in *; try discriminate; [reflexivity|].
  f_equal. apply IH. lia.
Qed.

Lemma keyed_indices wx ww wy wh cells :
  map snd (keyed wx ww wy wh cells) = seq 0 (length cells).
Proof. unfold keyed. apply map_snd_combine. rewrite map_length, seq_length. reflexivity. Qed.

Theorem compute_cell_order_perm wx ww wy wh cells :
  Permutation (compute_cell_order wx ww wy wh cells) (seq 0 (length cells)).
Proof.
  unfold compute_cell_order. rewrite <- (keyed_indices wx ww wy wh cells).
  apply Permutation_map. apply sort_pairs_perm.
Qed.

Lemma compute_cell_order_NoDup wx ww wy wh cells : NoDup (compute_cell_order wx ww wy wh cells).
Proof.
  eapply Permutation_NoDup; [apply Permutation_sym; apply compute_cell_order_perm|apply seq_NoDup].
Qed.

Lemma compute_cell_order_In wx ww wy wh cells i :
  In i (compute_cell_order wx ww wy wh cells) <-> (i < length cells)%nat.
Proof.
  split; intros H.
  - apply (Permutation_in _ (compute_cell_order_perm wx ww wy wh cells)) in H. apply in_seq in H. lia.
  - apply (Permutation_in _ (Permutation_sym (compute_cell_order_perm wx ww wy wh cells))).
    apply in_seq. lia.
Qed.

Lemma compute_cell_order_length wx ww wy wh cells :
  length (compute_cell_order wx ww wy wh cells) = length cells.
Proof. rewrite (Permutation_length (compute_cell_order_perm wx ww wy wh cells)). apply seq_length. Qed.

(* every pair to sort is (key of cell i, i) *)
Lemma keyed_In_gen {A} (f : A -> Q) (cells : list A) : forall s k i,
  In (k, i) (combine (map f cells) (seq s (length cells))) ->
  (s <= i)%nat /\ exists c, nth_error cells (i - s) = Some c /\ k = f c.
Proof.
  induction cells as [|c cells IH]; intros s k i H; cbn in H; [contradiction|].
  destruct H as [H|H].
  - injection H as <- <-. split; [lia|]. exists c. rewrite Nat.sub_diag. split; reflexivity.
  - destruct (IH (S s) k i H) as (Hs & c' & Hc' & ->). split; [lia|]. exists c'. split; [|reflexivity].
    replace (i - s)%nat with (S (i - S s)) by lia. exact Hc'.
Qed.

Lemma keyed_In wx ww wy wh cells k i :
  In (k, i) (keyed wx ww wy wh cells) ->
  exists c, nth_error cells i = Some c /\ k = cell_key wx ww wy wh c.
Proof.
  intros H. apply keyed_In_gen in H as (_ & c & Hc & ->). rewrite Nat.sub_0_r in Hc.
  exists c. split; [exact Hc|reflexivity].
Qed.

(* the result is SORTED: whenever (key_i, i) < (key_j, j) for std::pair's order, i comes first *)
Theorem compute_cell_order_sorted wx ww wy wh cells a b i j ci cj :
  nth_error (compute_cell_order wx ww wy wh cells) a = Some i ->
  nth_error (compute_cell_order wx ww wy wh cells) b = Some j ->
  nth_error cells i = Some ci -> nth_error cells j = Some cj ->
  pair_ltb (cell_key wx ww wy wh ci, i) (cell_key wx ww wy wh cj, j) = true -> (a < b)%nat.
Proof.
  unfold compute_cell_order. intros Ha Hb Hi Hj Hlt.
  set (sl := sort_pairs (keyed wx ww wy wh cells)) in *.
  destruct (nth_error sl a) as [[ka ia]|] eqn:Ea; [|rewrite nth_error_map, Ea in Ha; discriminate].
  destruct (nth_error sl b) as [[kb ib]|] eqn:Eb; [|rewrite nth_error_map, Eb in Hb; discriminate].
  rewrite nth_error_map, Ea in Ha. rewrite nth_error_map, Eb in Hb. cbn in Ha, Hb.
  injection Ha as ->. injection Hb as ->.
  assert (Ka : ka = cell_key wx ww wy wh ci).
  { pose proof (Permutation_in _ (sort_pairs_perm _) (nth_error_In _ _ Ea)) as H.
    apply keyed_In in H as (c & Hc & ->). congruence. }
  assert (Kb : kb = cell_key wx ww wy wh cj).
  { pose proof (Permutation_in _ (sort_pairs_perm _) (nth_error_In _ _ Eb)) as H.
    apply keyed_In in H as (c & Hc & ->). congruence. }
  subst ka kb.
  destruct (Nat.lt_ge_cases a b) as [L|L]; [exact L|exfalso].
  assert (Hle : pair_le (cell_key wx ww wy wh cj, j) (cell_key wx ww wy wh ci, i)).
  { destruct (Nat.eq_dec a b) as [->|N].
    - rewrite Ea in Eb. injection Eb as E1 E2. subst j. rewrite Hi in Hj. injection Hj as ->.
      right. split; [apply Qeq_refl|apply Nat.le_refl].
    - apply (sorted_nth pair_le sl (sort_pairs_sorted _) b a); [lia|exact Eb|exact Ea]. }
  apply pair_ltb_false in Hle. congruence.
Qed.

(* ------------------------------------------------------------------ *)
(* (b) left to right within a row: two cells with the same y and the same height, the left one
   entirely before the right one, ordering width in [0,1]: the y and height terms are the same in both
   keys, and order_key_preserved (RowLegFixProofs) compares the rest *)
Lemma key_lt_in_row ow oy oh ci cj :
  (0 <= ow)%Q -> (ow <= 1)%Q -> (0 < cw ci)%Z -> (0 < cw cj)%Z -> (ctx ci + cw ci <= ctx cj)%Z ->
  cty ci = cty cj -> ch ci = ch cj ->
  (cell_key 1 ow oy oh ci < cell_key 1 ow oy oh cj)%Q.
Proof.
  intros H0 H1 Wi Wj Hx Hy Hh. unfold cell_key. rewrite Hy, Hh.
  apply Qplus_lt_l. apply Qplus_lt_l. rewrite !Qmult_1_l.
  destruct ow as [p q]. unfold Qle in H0, H1. cbn [Qnum Qden] in H0, H1.
  assert (K : (Z.pos q * ctx ci + p * cw ci < Z.pos q * ctx cj + p * cw cj)%Z)
    by (apply order_key_preserved; lia).
  unfold Qlt, Qplus, Qmult, inject_Z. cbn [Qnum Qden].
  rewrite !Pos.mul_1_r, !Z.mul_1_r, !Pos.mul_1_l. nia.
Qed.

Lemma cell_order_NoDup p c : NoDup (cell_order p c).
Proof. apply compute_cell_order_NoDup. Qed.

Lemma cell_order_In p c i : In i (cell_order p c) <-> (i < length (movable c))%nat.
Proof. unfold cell_order. rewrite compute_cell_order_In. unfold leg_cells. rewrite map_length. reflexivity. Qed.

Theorem cell_order_perm p c : Permutation (cell_order p c) (seq 0 (length (movable c))).
Proof.
  unfold cell_order. replace (length (movable c)) with (length (leg_cells c)) by (unfold leg_cells; apply map_length).
  apply compute_cell_order_perm.
Qed.

(* what is needed of the circuit: movable cells of positive placed width and of one placed height *)
Lemma cell_order_left_to_right_gen p c :
  (forall k, In k (movable c) -> (0 < cw (leg_cell_of k))%Z) ->
  (forall ki kj, In ki (movable c) -> In kj (movable c) -> ch (leg_cell_of ki) = ch (leg_cell_of kj)) ->
  (0 <= op_w p)%Q -> (op_w p <= 1)%Q ->
  order_left_to_right c (cell_order p c).
Proof.
  intros Hw Hh H0 H1. split; [apply cell_order_NoDup|]. split; [apply cell_order_In|].
  intros a b i j ki kj s Ha Hb Hi Hj _ (Yi & _) (Yj & _) Hx.
  pose proof (nth_error_In _ _ Hi) as Iki. pose proof (nth_error_In _ _ Hj) as Ikj.
  unfold cell_order in Ha, Hb.
  apply (compute_cell_order_sorted _ _ _ _ _ a b i j (leg_cell_of ki) (leg_cell_of kj) Ha Hb).
  - unfold leg_cells. apply map_nth_error. exact Hi.
  - unfold leg_cells. apply map_nth_error. exact Hj.
  - apply pair_ltb_true. left. cbn [fst].
    apply key_lt_in_row; [exact H0|exact H1|apply Hw; exact Iki|apply Hw; exact Ikj|exact Hx|congruence|apply Hh; assumption].
Qed.

Theorem cell_order_left_to_right p c rh :
  rowhigh_design c rh -> (0 <= op_w p)%Q -> (op_w p <= 1)%Q ->
  order_left_to_right c (cell_order p c).
Proof.
  intros (_ & _ & _ & _ & Hmov). apply cell_order_left_to_right_gen.
  - intros k Hk. destruct (Hmov k Hk) as (W & _). exact W.
  - intros ki kj Hi Hj. destruct (Hmov ki Hi) as (_ & A & _). destruct (Hmov kj Hj) as (_ & B & _).
    unfold leg_cell_of. cbn [ch]. congruence.
Qed.

(* ------------------------------------------------------------------ *)
(* (c) the order-parametric theorems with the computed order: the CLOSED model
   legalize_real p c = legalize_circuit c (cell_order p c) *)
Local Open Scope Z_scope.

(* C11 *)
Theorem legalize_real_fixpoint p c rh :
  rowhigh_design c rh -> legal c -> polarity_admits c -> (0 <= op_w p)%Q -> (op_w p <= 1)%Q ->
  exists c', legalize_real p c = LegOk c' /\ rows c' = rows c /\ Forall2 (kept c) (cells c) (cells c').
Proof.
  intros Hd Hl Hp H0 H1. unfold legalize_real.
  apply (legalize_circuit_fixpoint c rh); try assumption. exact (cell_order_left_to_right p c rh Hd H0 H1).
Qed.

Theorem legalize_real_idempotent p c rh :
  rowhigh_design c rh -> legal c -> polarity_admits c -> (0 <= op_w p)%Q -> (op_w p <= 1)%Q ->
  (forall k r, In k (movable c) -> In r (rows c) -> under r k -> seg_orientation (leg_cell_of k) r = c_o k) ->
  legalize_real p c = LegOk c.
Proof.
  intros Hd Hl Hp H0 H1 Ho. unfold legalize_real.
  apply (legalize_circuit_idempotent c rh); try assumption. exact (cell_order_left_to_right p c rh Hd H0 H1).
Qed.

(* the output of a successful legalization of a row-high design: same widths, one height *)
Lemma legalize_output_dims c rh order c1 :
  rowhigh_design c rh -> legalize_circuit c order = LegOk c1 ->
  forall k', In k' (movable c1) -> 0 < cw (leg_cell_of k') /\ ch (leg_cell_of k') = rh.
Proof.
  intros Hd Hc1 k' Hk'. pose proof Hd as (_ & _ & _ & _ & Hmov).
  destruct (legalize_output c rh order c1 Hd Hc1) as (_ & Hout).
  destruct (Hout k' Hk') as (k & x & y & o & s & r & Hk & _ & _ & _ & _ & _ & _ & _ & _ & _ & _ & _ & _ & Hp).
  destruct (Hmov k Hk) as (W & H & _). unfold leg_cell_of at 1 2. cbn [cw ch]. rewrite Hp.
  unfold cellrect. cbn [minX maxX minY maxY]. unfold leg_cell_of. cbn [cw ch]. lia.
Qed.

(* second legalization with the computed order, whatever the order of the first one *)
Theorem legalize_real_after_any p c rh order c1 :
  rowhigh_design c rh -> legalize_circuit c order = LegOk c1 -> (0 <= op_w p)%Q -> (op_w p <= 1)%Q ->
  legalize_real p c1 = LegOk c1.
Proof.
  intros Hd Hc1 H0 H1. unfold legalize_real. apply (legalize_circuit_twice c rh order _ c1 Hd Hc1).
  apply cell_order_left_to_right_gen; [| |exact H0|exact H1].
  - intros k Hk. apply (legalize_output_dims c rh order c1 Hd Hc1 k Hk).
  - intros ki kj Hi Hj. destruct (legalize_output_dims c rh order c1 Hd Hc1 ki Hi) as [_ A].
    destruct (legalize_output_dims c rh order c1 Hd Hc1 kj Hj) as [_ B]. congruence.
Qed.

(* "legalizing twice gives the same positions as legalizing once", both runs with their own computed
   order; the parameters of the first run are arbitrary *)
Theorem legalize_real_twice p0 p c rh c1 :
  rowhigh_design c rh -> legalize_real p0 c = LegOk c1 -> (0 <= op_w p)%Q -> (op_w p <= 1)%Q ->
  legalize_real p c1 = LegOk c1.
Proof. intros Hd Hc1. exact (legalize_real_after_any p c rh _ c1 Hd Hc1). Qed.

(* C01 *)
Theorem legalize_real_legal p c c' rh :
  std_design c rh -> legalize_real p c = LegOk c' -> legal c'.
Proof. intros Hd H. exact (legalize_circuit_legal c _ c' rh Hd H). Qed.

Theorem legalize_real_frame p c c' :
  legalize_real p c = LegOk c' -> rows c' = rows c /\ Forall2 same_frame (cells c) (cells c').
Proof. apply legalize_circuit_frame. Qed.

Theorem legalize_real_trivially_feasible p c :
  trivially_feasible c = true -> (forall k, In k (movable c) -> c_o k <> oINVALID) ->
  exists c', legalize_real p c = LegOk c'.
Proof.
  intros Ht Hi. unfold legalize_real. apply legalize_circuit_trivially_feasible; [exact Ht|exact Hi|].
  split; [apply cell_order_NoDup|]. intros ci Hci. apply cell_order_In. exact Hci.
Qed.

(* C04 *)
Theorem legalize_real_orient_ok p c c' rh :
  std_design c rh -> (forall r, In r (rows c) -> ro r <> oUNKNOWN) -> row_orient_by_y c ->
  legalize_real p c = LegOk c' -> orient_ok c c'.
Proof. intros Hd Hu Hy H. exact (legalize_circuit_orient_ok c _ c' rh Hd Hu Hy H). Qed.

Theorem legalize_real_rowhigh_orient_ok p c c' rh :
  rowhigh_design c rh -> (forall r, In r (rows c) -> ro r <> oUNKNOWN) ->
  legalize_real p c = LegOk c' -> orient_ok c c'.
Proof. intros Hd Hu H. exact (legalize_circuit_rowhigh_orient_ok c _ c' rh Hd Hu H). Qed.

(* ------------------------------------------------------------------ *)
(* (d) known finding F10 at circuit level: LegalizationParameters::check accepts ordering widths in
   [-1,2]; outside [0,1] the computed order can invert two cells of a row and the closed model moves
   the cells of a placement that is legal, on admitted rows and already carries its orientations.
   w_f10 : a wide cell followed by a narrow one, ordering width 3/2;
   w_f10b: a narrow cell followed by a wide one, ordering width -1/2. *)
Definition f10_rows : list row := [ {| rr := {| minX := 0; maxX := 10; minY := 0; maxY := 2 |}; ro := oN |} ].
Definition k_wide (x : Z) : ccell :=
  {| c_x := x; c_y := 0; c_w := 4; c_h := 2; c_o := oN; c_pol := pANY; c_fixed := false; c_obs := true |}.
Definition k_narrow (x : Z) : ccell :=
  {| c_x := x; c_y := 0; c_w := 1; c_h := 2; c_o := oN; c_pol := pANY; c_fixed := false; c_obs := true |}.
Definition w_f10 : circuit := {| rows := f10_rows; cells := [k_wide 0; k_narrow 4] |}.
Definition w_f10b : circuit := {| rows := f10_rows; cells := [k_narrow 0; k_wide 1] |}.
Definition p_f10 : order_params := {| op_w := 3 # 2; op_y := 0; op_h := 0 |}.
Definition p_f10b : order_params := {| op_w := -1 # 2; op_y := 0; op_h := 0 |}.

(* the hypotheses of legalize_real_idempotent other than the range of the ordering width *)
Definition fixpoint_hyps (c : circuit) (rh : Z) : Prop :=
  rowhigh_design c rh /\ legal c /\ polarity_admits c /\
  (forall k r, In k (movable c) -> In r (rows c) -> under r k -> seg_orientation (leg_cell_of k) r = c_o k).

Lemma two_cell_hyps k1 k2 :
  c_fixed k1 = false -> c_fixed k2 = false -> c_pol k1 = pANY -> c_pol k2 = pANY -> c_o k1 = oN -> c_o k2 = oN ->
  let c := {| rows := f10_rows; cells := [k1; k2] |} in
  (0 < c_w k1 /\ c_h k1 = 2) -> (0 < c_w k2 /\ c_h k2 = 2) -> legalb c = true -> fixpoint_hyps c 2.
Proof.
  intros F1 F2 P1 P2 O1 O2 c D1 D2 Hl.
  assert (Hmv : forall k, In k (movable c) -> k = k1 \/ k = k2).
  { intros k Hk. unfold movable in Hk. apply filter_In in Hk as [Hk _]. cbn in Hk. intuition. }
  assert (Hpl : forall k, k = k1 \/ k = k2 ->
            maxX (placement_of k) - minX (placement_of k) = c_w k /\ maxY (placement_of k) - minY (placement_of k) = c_h k).
  { intros k [-> | ->]; unfold placement_of, cell_placement; [rewrite O1|rewrite O2]; cbn; lia. }
  assert (Hso : forall k r, k = k1 \/ k = k2 -> In r (rows c) -> seg_orientation (leg_cell_of k) r = c_o k).
  { intros k r Hk [<-|[]]. unfold seg_orientation, leg_cell_of. cbn [cpol cor ro].
    destruct Hk as [-> | ->]; [rewrite P1|rewrite P2]; reflexivity. }
  split; [|split; [apply legalb_correct; exact Hl|split]].
  - split; [lia|]. split; [intros r [<-|[]]; reflexivity|]. split; [cbn; tauto|]. split; [intros r [<-|[]]; reflexivity|].
    intros k Hk. destruct (Hpl k (Hmv k Hk)) as [A B]. rewrite A, B.
    destruct (Hmv k Hk) as [-> | ->]; (split; [lia|split; [lia|right; assumption]]).
  - intros k r Hk Hr _. rewrite (Hso k r (Hmv k Hk) Hr). destruct (Hmv k Hk) as [-> | ->]; congruence.
  - intros k r Hk Hr _. exact (Hso k r (Hmv k Hk) Hr).
Qed.

Theorem legalize_real_ordering_refuted :
  (exists c p c', fixpoint_hyps c 2 /\ (1 < op_w p)%Q /\ (op_w p <= 2)%Q /\
                  legalize_real p c = LegOk c' /\ map c_x (cells c') <> map c_x (cells c)) /\
  (exists c p c', fixpoint_hyps c 2 /\ (-1 <= op_w p)%Q /\ (op_w p < 0)%Q /\
                  legalize_real p c = LegOk c' /\ map c_x (cells c') <> map c_x (cells c)).
Proof.
  split.
  - exists w_f10, p_f10. eexists. split; [|split; [reflexivity|split; [discriminate|split; [vm_compute; reflexivity|discriminate]]]].
    apply (two_cell_hyps (k_wide 0) (k_narrow 4)); try reflexivity; cbn; lia.
  - exists w_f10b, p_f10b. eexists. split; [|split; [discriminate|split; [reflexivity|split; [vm_compute; reflexivity|discriminate]]]].
    apply (two_cell_hyps (k_narrow 0) (k_wide 1)); try reflexivity; cbn; lia.
Qed.

Print Assumptions compute_cell_order_perm.
Print Assumptions compute_cell_order_sorted.
Print Assumptions cell_order_left_to_right.
Print Assumptions legalize_real_fixpoint.
Print Assumptions legalize_real_idempotent.
Print Assumptions legalize_real_twice.
Print Assumptions legalize_real_legal.
Print Assumptions legalize_real_trivially_feasible.
Print Assumptions legalize_real_orient_ok.
Print Assumptions legalize_real_ordering_refuted.

Lemma cell_order_lists_every_cell_once p c :
  NoDup (cell_order p c) /\ (forall ci, (ci < length (movable c))%nat -> In ci (cell_order p c)).
Proof. split; [apply cell_order_NoDup|intros ci H; apply cell_order_In; exact H]. Qed.
