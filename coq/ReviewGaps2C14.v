(* Review gaps (C14, review_C11-C15.md): balanceDemand() has no theorem; presupposition of c14_assign_shape.
   Model: Transp1d.balance_demand (transportation_1d.cpp:132-145), Transp1d.assign. *)
From Coq Require Import List ZArith Lia Bool Arith ZifyBool.
Import ListNotations.
Require Import CV.Transp1d CV.Transp1dProofs CV.Transp1dTerm.
Local Open Scope Z_scope.
Ltac Zify.zify_post_hook ::= Z.div_mod_to_equations.

(* ------------------------------------------------------------------ add_first / map *)
Lemma add_first_length k : forall l, length (add_first k l) = length l.
Proof. induction k as [|k IH]; intros [|x r]; cbn [add_first length]; try reflexivity. rewrite IH. reflexivity. Qed.

(* exact effect on the sum: min k |l| ones are added -- "truncation" = the case k > |l| *)
Lemma add_first_total k : forall l, total (add_first k l) = total l + Z.of_nat (Nat.min k (length l)).
Proof.
  induction k as [|k IH]; intros [|x r]; cbn [add_first length Nat.min]; try lia.
  rewrite !total_cons, IH. lia.
Qed.

Lemma add_first_zn k : forall l j, zn l j <= zn (add_first k l) j <= zn l j + 1.
Proof.
  unfold zn. induction k as [|k IH]; intros [|x r] j; cbn [add_first]; try lia.
  destruct j as [|j]; cbn [nth]; [lia|apply IH].
Qed.

(* which entries get the +1: exactly the first k (the loop `for i < missing: d[i] += 1`) *)
Lemma add_first_zn_exact k : forall l j, (j < length l)%nat ->
  zn (add_first k l) j = zn l j + (if Nat.ltb j k then 1 else 0).
Proof.
  unfold zn. induction k as [|k IH]; intros l j Hj.
  - cbn [add_first]. destruct (Nat.ltb_spec j 0); lia.
  - destruct l as [|x r]; cbn [add_first length] in *; [lia|].
    destruct j as [|j]; cbn [nth]; [reflexivity|]. rewrite IH by lia.
    destruct (Nat.ltb_spec j k), (Nat.ltb_spec (S j) (S k)); lia.
Qed.

Lemma map_add_total a l : total (map (fun x => x + a) l) = total l + a * Z.of_nat (length l).
Proof. induction l as [|x r IH]; [cbn; lia|]. cbn [map length]. rewrite !total_cons, IH. lia. Qed.

Lemma map_add_zn a l j : (j < length l)%nat -> zn (map (fun x => x + a) l) j = zn l j + a.
Proof.
  unfold zn. intros Hj. rewrite (nth_indep _ 0 (0 + a)) by (rewrite map_length; exact Hj).
  exact (map_nth (fun x => x + a) l 0 j).
Qed.

(* ------------------------------------------------------------------ the remainder loop bound *)
(* `missing - added * nbSinks()` with added = missing / nbSinks(): in [0, nbSinks) -- so the loop
   `for (i = 0; i < missing; ++i) d[i] += 1` stays inside d, and add_first never truncates *)
Lemma balance_remainder_lt missing m : 0 < missing -> 0 < m ->
  0 <= missing - Z.quot missing m * m < m.
Proof. intros Hm Hn. rewrite Z.quot_div_nonneg by lia. lia. Qed.

Record balanced (pb pb' : prob) : Prop := {
  b_u : pb_u pb' = pb_u pb;
  b_v : pb_v pb' = pb_v pb;
  b_s : pb_s pb' = pb_s pb;
  b_len : length (pb_d pb') = length (pb_d pb);
  (* demands only grow, by the common amount `added` or `added + 1`, the +1 on a prefix *)
  b_grow : forall j, zn (pb_d pb) j <= zn (pb_d pb') j;
  b_even : exists added k, 0 <= added /\ (k < Nat.max 1 (nb_sinks pb))%nat /\
           forall j, (j < length (pb_d pb))%nat ->
             zn (pb_d pb') j = zn (pb_d pb) j + added + (if Nat.ltb j k then 1 else 0);
  b_total : length (pb_d pb) = nb_sinks pb ->
            total (pb_d pb') = Z.max (total (pb_d pb)) (total (pb_s pb)) }.

Theorem balance_demand_spec pb pb' : balance_demand pb = Ok pb' -> balanced pb pb'.
Proof.
  unfold balance_demand.
  destruct (total (pb_s pb) - total (pb_d pb) <=? 0) eqn:E.
  { intros H. inversion H; subst pb'. constructor; try reflexivity; try lia.
    - exists 0, O. split; [lia|]. split; [lia|]. intros j _. cbn. lia. }
  destruct (nb_sinks pb) as [|m0] eqn:Em; [discriminate|].
  set (missing := total (pb_s pb) - total (pb_d pb)) in *.
  set (m := Z.of_nat (S m0)).
  assert (Hmiss : 0 < missing) by lia.
  assert (Hm : 0 < m) by lia.
  pose proof (balance_remainder_lt missing m Hmiss Hm) as Hrem.
  assert (Hadd : 0 <= Z.quot missing m) by (apply Z.quot_pos; lia).
  intros H. inversion H; subst pb'; clear H. constructor; cbn [pb_u pb_v pb_s pb_d]; try reflexivity.
  - rewrite add_first_length, map_length. reflexivity.
  - intros j. pose proof (add_first_zn (Z.to_nat (missing - Z.quot missing m * m))
                            (map (fun x => x + Z.quot missing m) (pb_d pb)) j) as [A _].
    destruct (Nat.lt_ge_cases j (length (pb_d pb))) as [Hj|Hj].
    + rewrite map_add_zn in A by exact Hj. fold m. lia.
    + unfold zn in *. rewrite (nth_overflow (pb_d pb)) by exact Hj.
      rewrite nth_overflow; [lia|]. rewrite add_first_length, map_length. exact Hj.
  - exists (Z.quot missing m), (Z.to_nat (missing - Z.quot missing m * m)).
    split; [exact Hadd|]. split; [rewrite Em; lia|].
    intros j Hj. rewrite add_first_zn_exact by (rewrite map_length; exact Hj).
    rewrite map_add_zn by exact Hj. fold m. reflexivity.
  - intros Hlen. rewrite add_first_total, map_add_total, map_length, Hlen, Em.
    fold m. rewrite Nat.min_l by lia. fold m. lia.
Qed.

(* when does balanceDemand() answer: always, except the division by nbSinks() = 0 *)
Theorem balance_demand_total pb :
  (exists pb', balance_demand pb = Ok pb') <->
  (total (pb_s pb) <= total (pb_d pb) \/ (0 < nb_sinks pb)%nat).
Proof.
  unfold balance_demand.
  destruct (total (pb_s pb) - total (pb_d pb) <=? 0) eqn:E.
  - split; [intros _; left; lia|intros _; eexists; reflexivity].
  - destruct (nb_sinks pb) as [|m0].
    + split; [intros (pb' & H); discriminate|intros [H|H]; lia].
    + split; [intros _; right; lia|intros _; eexists; reflexivity].
Qed.
Theorem balance_demand_divzero pb :
  balance_demand pb = Err EDivZero <-> (total (pb_d pb) < total (pb_s pb) /\ nb_sinks pb = O).
Proof.
  unfold balance_demand.
  destruct (total (pb_s pb) - total (pb_d pb) <=? 0) eqn:E.
  - split; [discriminate|intros [H _]; lia].
  - destruct (nb_sinks pb) as [|m0].
    + split; [intros _; split; [lia|reflexivity]|reflexivity].
    + split; [discriminate|intros [_ H]; discriminate].
Qed.

Lemma existsb_neg_intro l : (forall x, In x l -> 0 <= x) -> existsb (fun c => c <? 0) l = false.
Proof.
  intros H. destruct (existsb (fun c => c <? 0) l) eqn:E; [|reflexivity].
  apply existsb_exists in E. destruct E as (x & Hx & Hlt). specialize (H x Hx). lia.
Qed.

Lemma In_zn l x : In x l -> exists j, (j < length l)%nat /\ zn l j = x.
Proof. intros H. destruct (In_nth l x 0 H) as (j & Hj & E). exists j. split; [exact Hj|exact E]. Qed.

(* check() after balancing: if the only possible complaint of check() was "supply > demand"
   (sizes consistent, no negative supply or demand), the balanced problem passes check() *)
Theorem balance_demand_check pb pb' :
  (check pb = None \/ check pb = Some ESupplyGtDemand) ->
  balance_demand pb = Ok pb' -> check pb' = None.
Proof.
  intros Hc Hb. pose proof (balance_demand_spec pb pb' Hb) as B.
  assert (Hpre : length (pb_s pb) = nb_sources pb /\ length (pb_d pb) = nb_sinks pb /\
                 (forall x, In x (pb_s pb) -> 0 <= x) /\ (forall x, In x (pb_d pb) -> 0 <= x)).
  { unfold check in Hc.
    destruct (Nat.eqb_spec (length (pb_s pb)) (nb_sources pb)); cbn [negb] in Hc; [|destruct Hc; discriminate].
    destruct (Nat.eqb_spec (length (pb_d pb)) (nb_sinks pb)); cbn [negb] in Hc; [|destruct Hc; discriminate].
    destruct (existsb (fun c => c <? 0) (pb_s pb)) eqn:E1; [destruct Hc; discriminate|].
    destruct (existsb (fun c => c <? 0) (pb_d pb)) eqn:E2; [destruct Hc; discriminate|].
    repeat split; try assumption; apply existsb_neg_false; assumption. }
  destruct Hpre as (Ls & Ld & Ns & Nd).
  destruct B as [Bu Bv Bs Bl Bg _ Bt]. specialize (Bt Ld).
  unfold check, nb_sources, nb_sinks in *. rewrite Bs, Bu, Bv, Bl, Ls, Ld, !Nat.eqb_refl. cbn [negb].
  rewrite (existsb_neg_intro _ Ns).
  rewrite existsb_neg_intro.
  2:{ intros x Hx. destruct (In_zn _ _ Hx) as (j & Hj & <-). specialize (Bg j).
      assert (0 <= zn (pb_d pb) j); [|lia]. apply Nd. apply zn_In. lia. }
  destruct (Z.ltb_spec (total (pb_d pb')) (total (pb_s pb))); [lia|reflexivity].
Qed.

(* total demand = total supply after balancing a deficient problem that has a sink *)
Theorem balance_demand_exact pb pb' :
  length (pb_d pb) = nb_sinks pb -> total (pb_d pb) < total (pb_s pb) ->
  balance_demand pb = Ok pb' -> total (pb_d pb') = total (pb_s pb').
Proof.
  intros Ld Hlt Hb. destruct (balance_demand_spec pb pb' Hb) as [_ _ Bs _ _ _ Bt].
  rewrite Bs, (Bt Ld). lia.
Qed.
Theorem balance_demand_noop pb pb' :
  total (pb_s pb) <= total (pb_d pb) -> balance_demand pb = Ok pb' -> pb' = pb.
Proof.
  unfold balance_demand. intros H. destruct (Z.leb_spec (total (pb_s pb) - total (pb_d pb)) 0); [|lia].
  intros E. inversion E. reflexivity.
Qed.

(* ------------------------------------------------------------------ presupposition of c14_assign_shape *)
Lemma pos_pairs_nonpos pos : forall amt i, (forall x, In x amt -> x <= 0) -> pos_pairs pos amt i = [].
Proof.
  induction pos as [|p pr IH]; intros [|a ar] i H; cbn [pos_pairs]; try reflexivity.
  rewrite IH by (intros x Hx; apply H; right; exact Hx).
  destruct (Z.ltb_spec 0 a); [|reflexivity]. specialize (H a (or_introl eq_refl)). lia.
Qed.

Lemma idle_sinks_nil : forall us ss_ i, nn (idle_sinks [] us ss_) i = O.
Proof.
  induction us as [|u ur IH]; intros [|s sr] i; cbn [idle_sinks]; try (destruct i; reflexivity).
  destruct i as [|i]; unfold nn in *; cbn [nth].
  - unfold idle_sink_of. cbn [length Nat.eqb]. rewrite orb_true_r. reflexivity.
  - apply IH.
Qed.

Lemma nonneg_total_zero l : (forall x, In x l -> 0 <= x) -> total l <= 0 -> forall x, In x l -> x <= 0.
Proof.
  induction l as [|y r IH]; intros Hn Ht x Hx; [destruct Hx|]. rewrite total_cons in Ht.
  assert (0 <= y) by (apply Hn; left; reflexivity).
  assert (Hr : forall z, In z r -> 0 <= z) by (intros z Hz; apply Hn; right; exact Hz).
  assert (0 <= total r).
  { clear -Hr. induction r as [|z r IH]; [cbn; lia|]. rewrite total_cons.
    assert (0 <= z) by (apply Hr; left; reflexivity).
    assert (0 <= total r) by (apply IH; intros w Hw; apply Hr; right; exact Hw). lia. }
  destruct Hx as [<-|Hx]; [lia|]. apply IH; try assumption. lia.
Qed.

(* what the code does when NO sink has positive demand (then check() forces every supply to be 0):
   the result is the zero vector, one entry per source -- index 0 whether or not sink 0 exists *)
Theorem assign_all_zero pb r :
  assign pb = Ok r ->
  (forall j, (j < nb_sinks pb)%nat -> zn (pb_d pb) j <= 0) ->
  length r = nb_sources pb /\ forall i, nn r i = O.
Proof.
  intros Ha Hz. split; [exact (proj1 (assign_spec pb r Ha))|].
  unfold assign, assign_with in Ha. destruct (check pb) eqn:Ec; [discriminate|].
  destruct (check_none pb Ec) as [Ls Ld Ns Nd Tot].
  assert (Dz : forall x, In x (pb_d pb) -> x <= 0).
  { intros x Hx. destruct (In_zn _ _ Hx) as (j & Hj & <-). apply Hz. unfold nb_sinks in *. lia. }
  assert (Td : total (pb_d pb) <= 0).
  { clear -Dz. induction (pb_d pb) as [|z l IH]; [cbn; lia|]. rewrite total_cons.
    assert (z <= 0) by (apply Dz; left; reflexivity).
    assert (total l <= 0) by (apply IH; intros w Hw; apply Dz; right; exact Hw). lia. }
  assert (Sz : forall x, In x (pb_s pb) -> x <= 0) by (apply nonneg_total_zero; [exact Ns|lia]).
  assert (Eso : mk_sorter pb = {| srcOrder := []; snkOrder := []; idleSink := idle_sinks [] (pb_u pb) (pb_s pb) |}).
  { unfold mk_sorter. rewrite (pos_pairs_nonpos _ _ _ Sz), (pos_pairs_nonpos _ _ _ Dz). reflexivity. }
  rewrite Eso in Ha. cbn in Ha. inversion Ha; subst r. intros i. apply idle_sinks_nil.
Qed.

(* so the clause "each entry is a sink of positive demand" needs the presupposition of c14_assign_shape:
   witnesses inside check()'s domain where it fails (harness case lines `T1 0 1 1 0 0 0 0`, `T1 0 1 0 0 0`) *)
Definition zero_demand_witness : prob := {| pb_u := [0]; pb_v := [0]; pb_s := [0]; pb_d := [0] |}.
Definition no_sink_witness : prob := {| pb_u := [0]; pb_v := []; pb_s := [0]; pb_d := [] |}.

Theorem assign_positive_demand_refuted :
  exists pb r, check pb = None /\ assign pb = Ok r /\
    exists i, (i < nb_sources pb)%nat /\ (nn r i < nb_sinks pb)%nat /\ ~ 0 < zn (pb_d pb) (nn r i).
Proof.
  exists zero_demand_witness, [O]. split; [vm_compute; reflexivity|]. split; [vm_compute; reflexivity|].
  exists O. vm_compute. repeat split; try lia. intros H; discriminate H.
Qed.
Theorem assign_sink_index_refuted :
  exists pb r, check pb = None /\ assign pb = Ok r /\
    exists i, (i < nb_sources pb)%nat /\ ~ (nn r i < nb_sinks pb)%nat.
Proof.
  exists no_sink_witness, [O]. split; [vm_compute; reflexivity|]. split; [vm_compute; reflexivity|].
  exists O. vm_compute. split; lia.
Qed.

(* the two halves together: the clause holds iff some sink has positive demand (or there is no source) *)
Theorem assign_shape_iff pb r :
  assign pb = Ok r -> (0 < nb_sources pb)%nat ->
  ((forall i, (i < nb_sources pb)%nat -> (nn r i < nb_sinks pb)%nat /\ 0 < zn (pb_d pb) (nn r i)) <->
   (exists j, (j < nb_sinks pb)%nat /\ 0 < zn (pb_d pb) j)).
Proof.
  intros Ha Hn. split.
  - intros H. destruct (H O Hn) as [A B]. exists (nn r 0). split; assumption.
  - intros H. exact (proj2 (assign_spec pb r Ha) H).
Qed.

Example balance_demand_nonvacuous :
  balance_demand {| pb_u := [0; 5]; pb_v := [1; 2; 3]; pb_s := [4; 7]; pb_d := [1; 0; 2] |}
  = Ok {| pb_u := [0; 5]; pb_v := [1; 2; 3]; pb_s := [4; 7]; pb_d := [4; 3; 4] |}.
Proof. vm_compute. reflexivity. Qed.

(* ------------------------------------------------------------------ the range used by improveX/YTransport *)
Lemma pos_demand_dec (d : list Z) : forall n,
  (forall j, (j < n)%nat -> zn d j <= 0) \/ (exists j, (j < n)%nat /\ 0 < zn d j).
Proof.
  induction n as [|n [IH|(j & Hj & Hp)]].
  - left. intros j Hj. lia.
  - destruct (Z_lt_le_dec 0 (zn d n)) as [Hp|Hp].
    + right. exists n. split; [lia|exact Hp].
    + left. intros j Hj. destruct (Nat.eq_dec j n) as [->|Hne]; [exact Hp|apply IH; lia].
  - right. exists j. split; [lia|exact Hp].
Qed.

(* every entry of assign() is an index of a sink as soon as there is a sink at all -- with or without a sink
   of positive demand: what `binCells[assignment[i]].push_back(cells[i])` (density_legalizer.cpp:433, 462)
   needs, binCells having nbBinsX() resp. nbBinsY() entries *)
Theorem assign_range pb r :
  assign pb = Ok r -> (0 < nb_sinks pb)%nat ->
  length r = nb_sources pb /\ forall i, (i < nb_sources pb)%nat -> (nn r i < nb_sinks pb)%nat.
Proof.
  intros Ha Hm. split; [exact (proj1 (assign_spec pb r Ha))|]. intros i Hi.
  destruct (pos_demand_dec (pb_d pb) (nb_sinks pb)) as [Hz|Hp].
  - destruct (assign_all_zero pb r Ha Hz) as [_ H0]. rewrite H0. exact Hm.
  - exact (proj1 (proj2 (assign_spec pb r Ha) Hp i Hi)).
Qed.

(* balanceDemand(); assign() -- the sequence of improveXTransport / improveYTransport -- answers on every
   problem whose sizes are consistent and whose supplies and demands are non-negative, if there is a sink *)
Theorem balance_then_assign_total pb :
  (check pb = None \/ check pb = Some ESupplyGtDemand) -> (0 < nb_sinks pb)%nat ->
  exists pb' r, balance_demand pb = Ok pb' /\ assign pb' = Ok r /\
    length r = nb_sources pb /\ forall i, (i < nb_sources pb)%nat -> (nn r i < nb_sinks pb)%nat.
Proof.
  intros Hc Hm. destruct (proj2 (balance_demand_total pb) (or_intror Hm)) as (pb' & Hb).
  pose proof (balance_demand_check pb pb' Hc Hb) as Hc'.
  destruct (assign_total pb' Hc') as (r & Hr). exists pb', r. split; [exact Hb|]. split; [exact Hr|].
  destruct (balance_demand_spec pb pb' Hb) as [Bu Bv _ _ _ _ _].
  assert (Es : nb_sources pb' = nb_sources pb) by (unfold nb_sources; rewrite Bu; reflexivity).
  assert (Ek : nb_sinks pb' = nb_sinks pb) by (unfold nb_sinks; rewrite Bv; reflexivity).
  rewrite <- Es, <- Ek. apply assign_range; [exact Hr|lia].
Qed.
