(* C05 / C02 -- the search of the reordering pass (Reorder.region_choice / run_ordering, which thread the two net
   models through single updateCellPos calls as the C++ does) evaluates exactly the leaves of Reorder.choice_leaves, in
   that order, each at the value the models have when ALL cells of the window sit where the leaf puts them. *)
From Coq Require Import List ZArith Lia Bool Permutation.
Import ListNotations.
Require Import CV.Orient CV.Hpwl CV.HpwlProofs CV.Moves CV.Optimiser CV.OptimiserProofs CV.ShiftLp CV.ShiftLpProofs.
Require Import CV.DetailedValue CV.DetailedValueProofs CV.DetailedValueStepProofs CV.Reorder CV.ReorderGeomProofs CV.ReorderEnumProofs.
Local Open Scope Z_scope.

Definition xpos (o : ostate) (c : nat) : Z := nth c (ipos (ox o)) 0.
Definition ypos (o : ostate) (c : nat) : Z := nth c (ipos (oy o)) 0.
Definition triple (st : sstate) : Z * option (list placement) * nat := (ss_best st, ss_leaf st, ss_n st).

(* the scan over a list of leaves, every leaf evaluated from the ORIGINAL models o0 *)
Definition astep (d : dstate) (o0 : ostate) (acc : Z * option (list placement) * nat) (leaf : list placement)
  : Z * option (list placement) * nat :=
  let v := ovalue (set_many o0 (leaf_moves d leaf)) in
  if v <? fst (fst acc) then (v, Some leaf, S (snd acc)) else (fst (fst acc), snd (fst acc), S (snd acc)).

Section Search.
Variable d : dstate.
Variable o0 : ostate.
Variable Wl : list nat.
Hypothesis HO0 : OInv o0.
Hypothesis Hbound : forall c, In c Wl -> (c < length (ipos (ox o0)))%nat /\ (c < length (ipos (oy o0)))%nat.

Definition Base (o : ostate) : Prop := OInv o /\ same_nets o o0 /\ agree_outside Wl o o0.

Lemma base_len o : Base o -> length (ipos (ox o)) = length (ipos (ox o0)) /\ length (ipos (oy o)) = length (ipos (oy o0)).
Proof. intros (_ & _ & L1 & L2 & _). tauto. Qed.

Lemma nth_upd_same (l : list Z) i a : (i < length l)%nat -> nth i (upd l i a) 0 = a.
Proof.
  intros H. rewrite nth_nth_error, nth_error_upd, Nat.eqb_refl.
  destruct (nth_error l i) eqn:E; [reflexivity|]. apply nth_error_None in E. lia.
Qed.

(* ytopo_.updateCellPos(c, y) *)
Lemma set_y_base o c y : Base o -> In c Wl ->
  Base (set_y o c y) /\ ox (set_y o c y) = ox o /\ ypos (set_y o c y) c = y /\
  (forall c', c' <> c -> ypos (set_y o c y) c' = ypos o c').
Proof.
  intros ([Ix Iy] & [N1 N2] & L1 & L2 & Ag) Hc. unfold set_y, ypos. cbn [ox oy].
  destruct (update_inv (oy o) c y Iy) as (Iy' & P' & N'). cbn zeta in *.
  split; [|split; [reflexivity|split]].
  - split; [split; assumption|]. split; [split; cbn [ox oy]; congruence|].
    split; [exact L1|]. cbn [ox oy]. split; [rewrite P', length_upd; exact L2|].
    intros j Hj. destruct (Ag j Hj) as [A1 A2]. split; [exact A1|]. rewrite P', nth_error_upd.
    destruct (Nat.eqb_spec j c) as [->|_]; [contradiction|exact A2].
  - rewrite P'. apply nth_upd_same. rewrite L2. apply Hbound. exact Hc.
  - intros c' Hne. rewrite P'. apply nth_upd_other. exact Hne.
Qed.

(* xtopo_.updateCellPos(c, predPos) for every cell of an arrangement *)
Lemma oshift_base o ps : Base o -> (forall c, In c (map fst ps) -> In c Wl) ->
  Base (oshift o ps) /\ oy (oshift o ps) = oy o /\
  (NoDup (map fst ps) -> forall c x, In (c, x) ps -> xpos (oshift o ps) c = x) /\
  (forall c, ~ In c (map fst ps) -> xpos (oshift o ps) c = xpos o c).
Proof.
  intros ([Ix Iy] & [N1 N2] & L1 & L2 & Ag) Hsub. unfold oshift, xpos. cbn [ox oy].
  destruct (write_updates_spec ps (ox o) Ix) as (Ix' & N' & P' & _).
  change (write_pos (ipos (ox o)) ps) with (pos_after (ipos (ox o)) ps) in P'.
  split; [|split; [reflexivity|split]].
  - split; [split; assumption|]. split; [split; cbn [ox oy]; congruence|].
    split; [cbn [ox oy]; rewrite P', length_pos_after; exact L1|]. split; [exact L2|].
    intros j Hj. destruct (Ag j Hj) as [A1 A2]. cbn [ox oy]. split; [|exact A2]. rewrite P', pos_after_outside; [exact A1|].
    intros H. apply Hj. apply Hsub. exact H.
  - intros ND c x Hin. rewrite P'. apply nth_pos_after_in; [|exact ND|exact Hin].
    rewrite L1. apply Hbound. apply Hsub. apply in_map_iff. exists (c, x). split; [reflexivity|exact Hin].
  - intros c Hc. rewrite P'. apply nth_pos_after_out. exact Hc.
Qed.

(* the state the search is in when it evaluates a leaf has the value of the original models moved to the leaf *)
Definition LeafAt (o : ostate) (leaf : list placement) : Prop :=
  forall c rowi pred x, In (c, rowi, pred, x) leaf -> xpos o c = x /\ ypos o c = row_y d rowi.

Lemma leaf_value o leaf : Base o -> NoDup (leaf_cells leaf) -> (forall j, In j (leaf_cells leaf) <-> In j Wl) ->
  LeafAt o leaf -> ovalue o = ovalue (set_many o0 (leaf_moves d leaf)).
Proof.
  intros (HO & SN & L1 & L2 & Ag) ND Hcov HL.
  destruct (set_many_spec (leaf_moves d leaf) o0 HO0) as (HO' & SN' & PX & PY).
  apply ovalue_ext; [exact HO|exact HO'| |].
  - destruct SN as [A B], SN' as [A' B']. split; congruence.
  - assert (FX : map fst (xs_of (leaf_moves d leaf)) = leaf_cells leaf) by (unfold xs_of; rewrite map_map; cbn [fst]; apply fst_leaf_moves).
    assert (FY : map fst (ys_of (leaf_moves d leaf)) = leaf_cells leaf) by (unfold ys_of; rewrite map_map; cbn [fst]; apply fst_leaf_moves).
    split; [rewrite PX|rewrite PY]; apply list_ext_nth_error; intros j; rewrite nth_error_pos_after.
    + destruct (in_dec Nat.eq_dec j (leaf_cells leaf)) as [Hj|Hj].
      * pose proof Hj as Hj'. unfold leaf_cells in Hj'. apply in_map_iff in Hj' as ([[[c rowi] pred] x] & E & Hin). cbn in E. subst c.
        destruct (HL j rowi pred x Hin) as [Ex _].
        assert (Hm : In (j, (x, row_y d rowi)) (leaf_moves d leaf)) by (unfold leaf_moves; apply in_map_iff; exists (j, rowi, pred, x); split; [reflexivity|exact Hin]).
        rewrite (last_assign_in _ j x); [|rewrite FX; exact ND|exact (in_xs_of _ _ _ Hm)].
        destruct (Hbound j (proj1 (Hcov j) Hj)) as [B1 _].
        destruct (nth_error (ipos (ox o0)) j) eqn:E0; [|apply nth_error_None in E0; lia].
        rewrite nth_error_nth_Z. destruct (nth_error (ipos (ox o)) j) eqn:E1; [|apply nth_error_None in E1; lia].
        f_equal. exact Ex.
      * rewrite (proj2 (last_assign_none _ j)); [|rewrite FX; exact Hj]. apply Ag. intros H. apply Hj. apply Hcov. exact H.
    + destruct (in_dec Nat.eq_dec j (leaf_cells leaf)) as [Hj|Hj].
      * pose proof Hj as Hj'. unfold leaf_cells in Hj'. apply in_map_iff in Hj' as ([[[c rowi] pred] x] & E & Hin). cbn in E. subst c.
        destruct (HL j rowi pred x Hin) as [_ Ey].
        assert (Hm : In (j, (x, row_y d rowi)) (leaf_moves d leaf)) by (unfold leaf_moves; apply in_map_iff; exists (j, rowi, pred, x); split; [reflexivity|exact Hin]).
        rewrite (last_assign_in _ j (row_y d rowi)); [|rewrite FY; exact ND|exact (in_ys_of _ _ _ Hm)].
        destruct (Hbound j (proj1 (Hcov j) Hj)) as [_ B2].
        destruct (nth_error (ipos (oy o0)) j) eqn:E0; [|apply nth_error_None in E0; lia].
        rewrite nth_error_nth_Z. destruct (nth_error (ipos (oy o)) j) eqn:E1; [|apply nth_error_None in E1; lia].
        f_equal. exact Ey.
      * rewrite (proj2 (last_assign_none _ j)); [|rewrite FY; exact Hj]. apply Ag. intros H. apply Hj. apply Hcov. exact H.
Qed.

Lemma eval_leaf_astep st leaf : ovalue (ss_o st) = ovalue (set_many o0 (leaf_moves d leaf)) ->
  triple (eval_leaf st leaf) = astep d o0 (triple st) leaf /\ ss_o (eval_leaf st leaf) = ss_o st.
Proof.
  intros E. unfold eval_leaf, astep, triple. cbn [fst snd]. rewrite <- E.
  destruct (ovalue (ss_o st) <? ss_best st); cbn [ss_best ss_leaf ss_n ss_o]; split; reflexivity.
Qed.


(* ---------- runOrdering ---------- *)
Definition cellsR (regs : list (region * list nat)) : list nat := concat (map snd regs).
Definition cellsC (chosen : list (region * list (nat * Z))) : list nat := map fst (concat (map snd chosen)).
Definition Yr (ym : incr) (regs : list (region * list nat)) : Prop :=
  forall g l c, In (g, l) regs -> In c l -> nth c (ipos ym) 0 = row_y d (rg_row g).
Definition Yc (ym : incr) (chosen : list (region * list (nat * Z))) : Prop :=
  forall g ps c x, In (g, ps) chosen -> In (c, x) ps -> nth c (ipos ym) 0 = row_y d (rg_row g).
Definition Xc (o : ostate) (chosen : list (region * list (nat * Z))) : Prop :=
  forall g ps c x, In (g, ps) chosen -> In (c, x) ps -> xpos o c = x.

Lemma leaf_cells_chain_places rowi : forall ps pred, leaf_cells (chain_places rowi pred ps) = map fst ps.
Proof.
  induction ps as [|[c x] t IH]; intros pred; cbn [chain_places leaf_cells map fst]; [reflexivity|].
  unfold leaf_cells in IH. rewrite IH. reflexivity.
Qed.

Lemma leaf_cells_leaf_of chosen : leaf_cells (leaf_of chosen) = cellsC chosen.
Proof.
  induction chosen as [|[g ps] t IH]; [reflexivity|]. rewrite leaf_of_cons. unfold cellsC, leaf_cells in *.
  cbn [map snd concat]. rewrite !map_app, IH. f_equal. apply leaf_cells_chain_places.
Qed.

Lemma in_cellsC chosen g ps c x : In (g, ps) chosen -> In (c, x) ps -> In c (cellsC chosen).
Proof.
  intros H1 H2. unfold cellsC. apply in_map_iff. exists (c, x). split; [reflexivity|]. apply in_concat. exists ps. split; [|exact H2].
  apply in_map_iff. exists (g, ps). split; [reflexivity|exact H1].
Qed.

Lemma in_cellsR regs g l c : In (g, l) regs -> In c l -> In c (cellsR regs).
Proof.
  intros H1 H2. unfold cellsR. apply in_concat. exists l. split; [|exact H2]. apply in_map_iff. exists (g, l). split; [reflexivity|exact H1].
Qed.

Lemma run_ordering_sim w : forall regs chosen st,
  Base (ss_o st) ->
  NoDup (cellsR regs ++ cellsC chosen) ->
  (forall j, In j Wl <-> In j (cellsR regs ++ cellsC chosen)) ->
  Xc (ss_o st) chosen -> Yr (oy (ss_o st)) regs -> Yc (oy (ss_o st)) chosen ->
  let st' := run_ordering w regs chosen st in
  triple st' = fold_left (astep d o0) (order_leaves w regs chosen) (triple st) /\
  Base (ss_o st') /\ oy (ss_o st') = oy (ss_o st) /\
  (forall c, ~ In c (cellsR regs) -> xpos (ss_o st') c = xpos (ss_o st) c).
Proof.
  induction regs as [|[g ord] rest IH]; intros chosen st HB ND Hcov HX HYr HYc; cbn zeta; cbn [run_ordering order_leaves].
  - assert (E : ovalue (ss_o st) = ovalue (set_many o0 (leaf_moves d (leaf_of chosen)))).
    { apply leaf_value; [exact HB|rewrite leaf_cells_leaf_of; exact ND|intros j; rewrite leaf_cells_leaf_of; symmetry; apply Hcov|].
      intros c rowi pred x Hin. apply in_leaf_of in Hin as (g & ps & H1 & -> & H2). split; [exact (HX g ps c x H1 H2)|exact (HYc g ps c x H1 H2)]. }
    destruct (eval_leaf_astep st _ E) as [T O]. cbn [fold_left]. rewrite O. split; [exact T|]. split; [exact HB|]. split; [reflexivity|]. intros; reflexivity.
  - cbn [cellsR map snd concat] in ND, Hcov. fold (cellsR rest) in ND, Hcov.
    assert (NDo : NoDup ord) by (apply NoDup_app_elim in ND as (ND1 & _); apply NoDup_app_elim in ND1; tauto).
    assert (G : forall pl, (forall p, In p pl -> Permutation ord p) -> forall st, Base (ss_o st) -> Xc (ss_o st) chosen ->
              Yr (oy (ss_o st)) ((g, ord) :: rest) -> Yc (oy (ss_o st)) chosen ->
              let st' := fold_left (fun st p => let ps := pack w (rg_min g) p in
                            run_ordering w rest ((g, ps) :: chosen) (with_o st (oshift (ss_o st) ps))) pl st in
              triple st' = fold_left (astep d o0) (flat_map (fun p => order_leaves w rest ((g, pack w (rg_min g) p) :: chosen)) pl) (triple st) /\
              Base (ss_o st') /\ oy (ss_o st') = oy (ss_o st) /\
              (forall c, ~ In c (ord ++ cellsR rest) -> xpos (ss_o st') c = xpos (ss_o st) c)).
    { clear st HB HX HYr HYc. induction pl as [|p pl IHpl]; intros Hp st HB HX HYr HYc; cbn zeta; cbn [fold_left flat_map].
      - split; [reflexivity|]. split; [exact HB|]. split; [reflexivity|]. intros; reflexivity.
      - assert (P : Permutation ord p) by (apply Hp; left; reflexivity).
        set (ps := pack w (rg_min g) p). assert (Fp : map fst ps = p) by apply map_fst_pack.
        assert (NDp : NoDup p) by (eapply Permutation_NoDup; eassumption).
        assert (PA : Permutation ((ord ++ cellsR rest) ++ cellsC chosen) (cellsR rest ++ cellsC ((g, ps) :: chosen))).
        { unfold cellsC at 2. cbn [map snd concat]. rewrite map_app, Fp. fold (cellsC chosen). rewrite app_assoc. apply Permutation_app_tail.
          eapply perm_trans; [apply Permutation_app_comm|]. apply Permutation_app_head. exact P. }
        assert (Hsub : forall c, In c (map fst ps) -> In c Wl).
        { intros c Hc. rewrite Fp in Hc. apply Hcov. apply in_or_app. left. apply in_or_app. left. apply (Permutation_in _ (Permutation_sym P)). exact Hc. }
        destruct (oshift_base (ss_o st) ps HB Hsub) as (B1 & OY1 & X1in & X1out). rewrite Fp in X1in, X1out.
        set (st1 := with_o st (oshift (ss_o st) ps)).
        assert (Dis : forall c, In c (cellsC chosen) -> ~ In c (ord ++ cellsR rest)).
        { intros c Hc Hin. apply NoDup_app_elim in ND as (_ & _ & D). exact (D c Hin Hc). }
        destruct (IH ((g, ps) :: chosen) st1) as (T2 & B2 & OY2 & XF2).
        + exact B1.
        + eapply Permutation_NoDup; [exact PA|exact ND].
        + intros j. rewrite (Hcov j). split; intros H; [apply (Permutation_in _ PA)|apply (Permutation_in _ (Permutation_sym PA))]; exact H.
        + intros g' ps' c x [[= <- <-]|H1] H2; cbn [st1 with_o ss_o].
          * exact (X1in NDp c x H2).
          * rewrite X1out; [exact (HX g' ps' c x H1 H2)|]. intros Hc. apply (Dis c (in_cellsC _ _ _ _ _ H1 H2)).
            apply in_or_app. left. apply (Permutation_in _ (Permutation_sym P)). exact Hc.
        + cbn [st1 with_o ss_o]. rewrite OY1. intros g' l c H1 H2. apply (HYr g' l c); [right; exact H1|exact H2].
        + cbn [st1 with_o ss_o]. rewrite OY1. intros g' ps' c x [[= <- <-]|H1] H2.
          * apply (HYr g ord c); [left; reflexivity|]. apply (Permutation_in _ (Permutation_sym P)). exact (in_pack _ _ _ _ _ H2).
          * exact (HYc g' ps' c x H1 H2).
        + cbn zeta in T2, B2, OY2, XF2. cbn [st1 with_o ss_o] in OY2.
          set (st2 := run_ordering w rest ((g, ps) :: chosen) st1) in *.
          assert (XF : forall c, ~ In c (ord ++ cellsR rest) -> xpos (ss_o st2) c = xpos (ss_o st) c).
          { intros c Hc. rewrite XF2; [|intros H; apply Hc; apply in_or_app; right; exact H]. cbn [st1 with_o ss_o].
            apply X1out. intros H. apply Hc. apply in_or_app. left. apply (Permutation_in _ (Permutation_sym P)). exact H. }
          destruct (IHpl (fun q Hq => Hp q (or_intror Hq)) st2) as (T3 & B3 & OY3 & XF3).
          * exact B2.
          * intros g' ps' c x H1 H2. rewrite XF; [exact (HX g' ps' c x H1 H2)|]. exact (Dis c (in_cellsC _ _ _ _ _ H1 H2)).
          * rewrite OY2, OY1. exact HYr.
          * rewrite OY2, OY1. exact HYc.
          * cbn zeta in T3, B3, OY3, XF3. split; [rewrite T3, fold_left_app; f_equal; exact T2|]. split; [exact B3|].
            split; [rewrite OY3, OY2, OY1; reflexivity|]. intros c Hc. rewrite (XF3 c Hc). exact (XF c Hc). }
    apply (G (loop_perms ord) (fun p Hp => loop_perms_perm ord p Hp) st HB HX HYr HYc).
Qed.

(* ---------- runRegionChoice ---------- *)
Lemma combine_push_at (rgs : list region) c : forall ord i g' l',
  In (g', l') (combine rgs (push_at ord i c)) ->
  In (g', l') (combine rgs ord) \/ (exists l, nth_error rgs i = Some g' /\ In (g', l) (combine rgs ord) /\ l' = l ++ [c]).
Proof.
  induction rgs as [|g0 t IH]; intros ord i g' l'; [intros []|].
  destruct ord as [|l0 ot]; [destruct i; intros []|]. destruct i as [|i]; cbn [push_at combine nth_error].
  - intros [[= <- <-]|H]; [right; exists l0; split; [reflexivity|split; [left; reflexivity|reflexivity]]|left; right; exact H].
  - intros [[= <- <-]|H]; [left; left; reflexivity|]. destruct (IH ot i g' l' H) as [H1|(l & H1 & H2 & H3)]; [left; right; exact H1|].
    right. exists l. split; [exact H1|split; [right; exact H2|exact H3]].
Qed.

Lemma in_combine_concat (rgs : list region) (ord : list (list nat)) g l c : In (g, l) (combine rgs ord) -> In c l -> In c (concat ord).
Proof. intros H1 H2. apply in_concat. exists l. split; [exact (in_combine_r _ _ _ _ H1)|exact H2]. Qed.

Lemma region_choice_sim (rgs : list region) : forall rem ord st,
  Base (ss_o st) -> NoDup (concat ord ++ rem) -> (forall j, In j Wl <-> In j (concat ord ++ rem)) ->
  length ord = length rgs -> Yr (oy (ss_o st)) (combine rgs ord) ->
  let st' := region_choice d rgs rem ord st in
  triple st' = fold_left (astep d o0) (choice_leaves d rgs rem ord) (triple st) /\ Base (ss_o st') /\
  (forall c, ~ In c rem -> ypos (ss_o st') c = ypos (ss_o st) c).
Proof.
  induction rem as [|c rem IH]; intros ord st HB ND Hcov Hlen HY; cbn zeta; cbn [region_choice choice_leaves].
  - rewrite app_nil_r in ND, Hcov.
    assert (PR : Permutation (cellsR (rev (combine rgs ord))) (concat ord)).
    { unfold cellsR. rewrite <- flat_map_concat_map. eapply perm_trans; [apply Permutation_flat_map; apply Permutation_sym; apply Permutation_rev|].
      rewrite flat_map_concat_map, map_snd_combine by (symmetry; exact Hlen). apply Permutation_refl. }
    destruct (run_ordering_sim (width_of d) (rev (combine rgs ord)) [] st HB) as (T & B & OY & _).
    + unfold cellsC. cbn [map concat]. rewrite app_nil_r. eapply Permutation_NoDup; [apply Permutation_sym; exact PR|exact ND].
    + intros j. unfold cellsC. cbn [map concat]. rewrite app_nil_r, (Hcov j).
      split; intros H; [apply (Permutation_in _ (Permutation_sym PR))|apply (Permutation_in _ PR)]; exact H.
    + intros g ps c x [].
    + intros g l c H1 H2. apply (HY g l c); [apply in_rev; exact H1|exact H2].
    + intros g ps c x [].
    + cbn zeta in T, B, OY. split; [exact T|]. split; [exact B|]. intros c _. unfold ypos. rewrite OY. reflexivity.
  - assert (G : forall il, (forall i, In i il -> (i < length rgs)%nat) -> forall st, Base (ss_o st) -> Yr (oy (ss_o st)) (combine rgs ord) ->
              let body := fun st i => let ord' := push_at ord i c in
                            match nth_error rgs i with
                            | Some g => if choice_ok d g (nth i ord' []) c
                                        then region_choice d rgs rem ord' (with_o st (set_y (ss_o st) c (row_y d (rg_row g)))) else st
                            | None => st end in
              let leaves := fun i => let ord' := push_at ord i c in
                            match nth_error rgs i with
                            | Some g => if choice_ok d g (nth i ord' []) c then choice_leaves d rgs rem ord' else []
                            | None => [] end in
              let st' := fold_left body il st in
              triple st' = fold_left (astep d o0) (flat_map leaves il) (triple st) /\ Base (ss_o st') /\
              (forall c0, ~ In c0 (c :: rem) -> ypos (ss_o st') c0 = ypos (ss_o st) c0)).
    { clear st HB HY. induction il as [|i il IHil]; intros Hil st HB HY; cbn zeta; cbn [fold_left flat_map].
      - split; [reflexivity|]. split; [exact HB|]. intros; reflexivity.
      - assert (Hi : (i < length rgs)%nat) by (apply Hil; left; reflexivity).
        specialize (IHil (fun k Hk => Hil k (or_intror Hk))). cbn zeta in IHil.
        destruct (nth_error rgs i) as [g|] eqn:Hn; [|cbn [app]; exact (IHil st HB HY)].
        destruct (choice_ok d g (nth i (push_at ord i c) []) c) eqn:C; [|cbn [app]; exact (IHil st HB HY)].
        assert (Hc : In c Wl) by (apply Hcov; apply in_or_app; right; left; reflexivity).
        destruct (set_y_base (ss_o st) c (row_y d (rg_row g)) HB Hc) as (B1 & OX1 & Y1 & Y1o).
        set (st1 := with_o st (set_y (ss_o st) c (row_y d (rg_row g)))).
        assert (PA : Permutation (concat ord ++ c :: rem) (concat (push_at ord i c) ++ rem)).
        { apply Permutation_sym. eapply perm_trans; [apply Permutation_app_tail; apply push_at_perm; lia|]. cbn [app]. apply Permutation_middle. }
        assert (Hnc : forall c0, In c0 (concat ord) -> c0 <> c /\ ~ In c0 rem).
        { intros c0 H0. apply NoDup_app_elim in ND as (_ & _ & D). split; [intros ->; apply (D c H0); left; reflexivity|intros H; apply (D c0 H0); right; exact H]. }
        destruct (IH (push_at ord i c) st1) as (T2 & B2 & YF2).
        + exact B1.
        + eapply Permutation_NoDup; [exact PA|exact ND].
        + intros j. rewrite (Hcov j). split; intros H; [apply (Permutation_in _ PA)|apply (Permutation_in _ (Permutation_sym PA))]; exact H.
        + rewrite length_push_at. exact Hlen.
        + cbn [st1 with_o ss_o]. intros g' l' c0 H1 H2. change (ypos (set_y (ss_o st) c (row_y d (rg_row g))) c0 = row_y d (rg_row g')).
          destruct (combine_push_at rgs c ord i g' l' H1) as [H|(l & Hg & H & ->)].
          * rewrite Y1o; [exact (HY g' l' c0 H H2)|]. exact (proj1 (Hnc c0 (in_combine_concat _ _ _ _ _ H H2))).
          * rewrite Hn in Hg. injection Hg as <-. apply in_app_or in H2 as [H2|[<-|[]]]; [|exact Y1].
            rewrite Y1o; [exact (HY g l c0 H H2)|]. exact (proj1 (Hnc c0 (in_combine_concat _ _ _ _ _ H H2))).
        + cbn zeta in T2, B2, YF2. set (st2 := region_choice d rgs rem (push_at ord i c) st1) in *.
          assert (YF : forall c0, c0 <> c -> ~ In c0 rem -> ypos (ss_o st2) c0 = ypos (ss_o st) c0).
          { intros c0 H1 H2. rewrite (YF2 c0 H2). cbn [st1 with_o ss_o]. exact (Y1o c0 H1). }
          destruct (IHil st2 B2) as (T3 & B3 & YF3).
          * intros g' l c0 H1 H2. destruct (Hnc c0 (in_combine_concat _ _ _ _ _ H1 H2)) as [N1 N2].
            change (ypos (ss_o st2) c0 = row_y d (rg_row g')). rewrite (YF c0 N1 N2). exact (HY g' l c0 H1 H2).
          * split; [rewrite T3, fold_left_app; f_equal; exact T2|]. split; [exact B3|].
            intros c0 H0. rewrite (YF3 c0 H0). apply YF; [intros ->; apply H0; left; reflexivity|intros H; apply H0; right; exact H]. }
    apply (G (seq 0 (length rgs))); [intros i Hi; apply in_seq in Hi; lia|exact HB|exact HY].
Qed.

End Search.
