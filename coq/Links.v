(* Links between properties -- definitions only (proofs: LinksC06Proofs.v, LinksC18Proofs.v, LinksRunProofs.v).
   1. C06 <- C16: the view of the hierarchical grid that C06's composed theorem (GlobalCompose.v) takes as an oracle,
      READ OFF a state of C16's model (Density.v): binLimitX(0..nbBinsX) = grid_.binLimitX(xLimits_[levelX_][x]),
      binLimitY likewise, binCells_ as is.  HierarchicalDensityPlacement::binLimitX/binLimitY/binCells,
      density_grid.hpp. *)
From Coq Require Import ZArith List Bool.
Require Import CV.Orient CV.FreeSpace CV.Density CV.GlobalCompose.
Import ListNotations.
Local Open Scope Z_scope.

(* the view at the levels (lx, ly) with the cell lists bc *)
Definition view_at (g : grid) (h : hier) (lx ly : nat) (bc : list (list (list nat))) : option view :=
  match level_limits (limX g) (xlim h) lx, level_limits (limY g) (ylim h) ly with
  | Some vx, Some vy => Some {| v_x := vx; v_y := vy; v_cells := bc |}
  | _, _ => None
  end.

(* the view of a state: its current levels, its bins *)
Definition state_view (g : grid) (h : hier) (s : hstate) : option view :=
  view_at g h (lvx s) (lvy s) (bcells s).

(* the demand vector HierarchicalDensityPlacement::fromIspdCircuit hands to the constructor (density_grid.cpp:216-222):
   GlobalCompose.cell_demand cell by cell *)
Definition circuit_demand (cells : list ccell) : list Z := map cell_demand cells.

(* an iteration oracle of GlobalCompose.run_global whose view is the view of a state that C16's operations reach from the
   constructor's state (the lower bounds stay arbitrary vectors of the circuit's size) *)
Definition view_reached (maxSize margin : Z) (rows : list row) (cells : list ccell) (v : view) : Prop :=
  exists h ops s,
    make_hier (Density.grid_of_circuit maxSize margin rows cells) = Some h /\
    run_ops h (length (circuit_demand cells)) (init_state h (circuit_demand cells)) ops = Some s /\
    state_view (Density.grid_of_circuit maxSize margin rows cells) h s = Some v.

Definition oracle_reached (maxSize margin : Z) (rows : list row) (cells : list ccell) (it : iter_oracle) : Prop :=
  view_reached maxSize margin rows cells (it_view it) /\
  Forall (fun lb => length (fst lb) = length cells /\ length (snd lb) = length cells) (it_lbs it).
