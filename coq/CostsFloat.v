(* C07 / C13 -- the float side of the transportation costs (Flocq, IEEE-754 round-to-nearest-even):
     - TransportationProblem::costsFromIntegers and the float constructor
                                            (/repo/src/place_global/transportation.cpp:139-174)
     - computeNorm<float> / norm            (/repo/src/utils/norm.hpp:10-38)
     - DensityLegalizer::distance           (/repo/src/place_global/density_legalizer.cpp:101-105)
     - HierarchicalDensityPlacement::binX/binY (/repo/src/place_global/density_grid.hpp:354-363)
     - the cost matrix of DensityLegalizer::reoptimize (density_legalizer.cpp:281-293)
   C++ `float` = binary32 (SpreadFloat.f32), `double` = binary64 (SpreadFloat.f64); one C++ operator = one correctly
   rounded operation (x86-64 SSE scalar arithmetic, no -ffast-math, no contraction; same conventions as SpreadFloat.v).
   The implicit conversions are written out: float -> double is exact (d_of_f), size_t / int -> double is d_of_Z,
   double -> float is one binary32 rounding (f_of_d), double -> int is defined only for a value whose truncation fits.
   Definitions only; the proofs are in CostsFloatProofs.v, the statements in Properties_C07.v. *)
From Coq Require Import ZArith List Bool Reals.
From Flocq Require Import Core BinarySingleNaN.
Require Import CV.Ssp CV.SpreadFloat CV.ExpandFloat.
Import ListNotations.
Local Open Scope Z_scope.

(* ------------------------------------------------------------------ costsFromIntegers, transportation.cpp:153-174 *)

(* 155: float maxVal = 1.0e-8f;   the binary32 value of the literal is 11258999 * 2^-50 (bits 0x322bcc77) *)
Definition f_1em8 : f32 := f_of_me 11258999 (-50).

(* 156-160: maxVal = std::max(d, maxVal) over all entries, row by row.  std::max(a, b) = (a < b) ? b : a
   (SpreadFloat.fmax_std): with d = NaN the comparison is false and the NaN is returned; at the next entry d' the
   comparison d' < NaN is false again and d' is returned -- a NaN is not sticky, it resets the running maximum *)
Definition max_row (m : f32) (row : list f32) : f32 := fold_left (fun m d => fmax_std d m) row m.
Definition max_val (costs : list (list f32)) : f32 := fold_left max_row costs f_1em8.

(* 161: double maxLong = static_cast<double>(std::numeric_limits<CostType>::max());   CostType = int *)
Definition d_int_max : f64 := d_of_Z 2147483647.

(* 162-164: conversionFactor_ = maxLong / maxVal;  (maxVal promoted to double, division in double)
            conversionFactor_ /= 4.0;              (double)
            conversionFactor_ /= costs.size();     (size_t converted to double, division in double)
   with 0 sinks the last division is x / 0.0 = +inf (no trap, no UB); the loops of 169-173 then do nothing *)
Definition conv_factor (costs : list (list f32)) : f64 :=
  ddiv (ddiv (ddiv d_int_max (d_of_f (max_val costs))) (d_of_Z 4)) (d_of_Z (Z.of_nat (length costs))).

(* the conversion double -> int of an integral value: defined iff the value is in the range of int
   ([conv.fpint]: otherwise the behaviour is undefined) *)
Definition int_of_Z (z : Z) : option Z :=
  if (-2147483648 <=? z) && (z <=? 2147483647) then Some z else None.

(* 171: costs_[i][j] = std::round(costs[i][j] * conversionFactor_);
   float * double: the float is promoted, the product is a binary64 product; std::round(double) (halves away from zero,
   SpreadFloat.dround_Z; an integral double) is converted to int by the assignment.
   None = the conversion is undefined (NaN, infinity, or out of the range of int) *)
Definition scale_cost (f : f64) (d : f32) : option Z :=
  match dround_Z (dmul (d_of_f d) f) with
  | Some z => int_of_Z z
  | None => None
  end.

Fixpoint omap {A B : Type} (f : A -> option B) (l : list A) : option (list B) :=
  match l with
  | [] => Some []
  | a :: t => match f a, omap f t with
              | Some b, Some r => Some (b :: r)
              | _, _ => None
              end
  end.

(* 165-173, for a RECTANGULAR matrix (every row as long as row 0: what DensityLegalizer::reoptimize builds).  The C++
   sizes costs_ by costs[0].size() (167) and writes costs_[i][j] for j < costs[i].size() (170-171): a later row LONGER
   than row 0 is written out of bounds before check() (146) could reject the matrix; the theorems carry the shape
   hypothesis [rect_mat]. *)
Definition costs_from_floats (costs : list (list f32)) : option (list (list Z)) :=
  omap (omap (scale_cost (conv_factor costs))) costs.

Definition rect_mat (nr : nat) {A : Type} (m : list (list A)) : Prop := Forall (fun r => length r = nr) m.

(* 139-147: the float constructor (capacities, demands, costs): costsFromIntegers, resetAllocations, check() *)
Definition float_problem (caps dems : list Z) (costs : list (list f32)) : option Pb :=
  match costs_from_floats costs with
  | Some c => Some (mkPb caps dems c)
  | None => None
  end.

(* the domain of the theorem: finite, non-negative entries (B2R >= 0: -0.0f is accepted, it scales to 0) *)
Definition fcost_ok (d : f32) : Prop := is_finite d = true /\ (0 <= B2R d)%R.
Definition fcosts_ok (costs : list (list f32)) : Prop := Forall (Forall fcost_ok) costs.

(* ------------------------------------------------------------------ the producer: DensityLegalizer::reoptimize *)

(* coloquinte.hpp:74 enum class LegalizationModel *)
Inductive leg_model := L1 | L2 | LInf | L1Squared | L2Squared | LInfSquared.

Definition fabs : f32 -> f32 := @Babs 24 128.                               (* std::abs(float) *)
Definition fsqrt : f32 -> f32 := @Bsqrt 24 128 p24 p24_128 mode_NE.        (* std::sqrt(float): correctly rounded *)

(* norm.hpp:10-31 computeNorm<float>(x, y, leg) *)
Definition norm_f (x y : f32) (m : leg_model) : f32 :=
  match m with
  | L1 => fadd (fabs x) (fabs y)                                            (* 15 *)
  | L2 => fsqrt (fadd (fmul x x) (fmul y y))                                (* 17 *)
  | LInf => fmax_std (fabs x) (fabs y)                                      (* 19 *)
  | L1Squared => let z := fadd (fabs x) (fabs y) in fmul z z                (* 21-22 *)
  | L2Squared => fadd (fmul x x) (fmul y y)                                 (* 24 *)
  | LInfSquared => let z := fmax_std (fabs x) (fabs y) in fmul z z          (* 26-27 *)
  end.

(* density_legalizer.cpp:101-105: d * (1.0f + (float)params_.quadraticPenaltyFactor * d);  q = the converted factor *)
Definition distance_f (q : f32) (m : leg_model) (x y : f32) : f32 :=
  let d := norm_f x y m in fmul d (fadd fone (fmul q d)).

(* density_grid.hpp:354-363: float binX(x, y) = 0.5 * (binLimitX(x + 1) + binLimitX(x)): int sum, converted to double,
   multiplied by the double 0.5, converted to float by the return *)
Definition bin_center_f (lo hi : Z) : f32 := f_of_d (dmul dhalf (d_of_Z (hi + lo))).

(* a bin of the current view: its integer limits *)
Record fbin := mkFbin { fb_xlo : Z; fb_xhi : Z; fb_ylo : Z; fb_yhi : Z }.

(* density_legalizer.cpp:281-293: costs[bin][cell] = distance(bx - cx, by - cy), cells = their float targets *)
Definition reopt_cost (q : f32) (m : leg_model) (b : fbin) (c : f32 * f32) : f32 :=
  let bx := bin_center_f (fb_xlo b) (fb_xhi b) in
  let by_ := bin_center_f (fb_ylo b) (fb_yhi b) in
  distance_f q m (fsub bx (fst c)) (fsub by_ (snd c)).
Definition reopt_costs (q : f32) (m : leg_model) (bins : list fbin) (cells : list (f32 * f32)) : list (list f32) :=
  map (fun b => map (reopt_cost q m b) cells) bins.

(* place_global.cpp:83-87: quadraticPenaltyFactor = rlp.quadraticPenalty / dist (double / float -> double) for the three
   non-squared models, 0.0 otherwise (density_legalizer.cpp:25); dist = (float)(width + height) of the placement area *)
Definition penalty_factor_f (m : leg_model) (penalty : f64) (wh : Z) : f32 :=
  match m with
  | L1 | L2 | LInf => f_of_d (ddiv penalty (d_of_f (f_of_Z wh)))
  | _ => fzero
  end.

(* ------------------------------------------------------------------ witnesses for what is outside the domain *)
Definition f_nan : f32 := B754_nan.
Definition f_inf : f32 := B754_infinity false.
Definition f_m1 : f32 := f_of_Z (-1).
