(* C07: on the magnitude domain Transp1dMachine.t1d_dom every C++-typed intermediate of
   Transportation1d::balanceDemand / assign (and of computeSolution) fits its type, for ALL inputs.
   Key invariant of the sweep (next to Transp1dTerm.sinv): the sum of the absolute slopes held in the event
   queue telescopes,
        sum_e |slope e|  <=  (v[lastOccupiedSink] - v[0]) + 2 (u[i] - u[0]),
   because a sink event for boundary l has |slope| <= v[l+1] - v[l] and every boundary is pushed once, the source
   events pushed for source i have slopes delta(i-1,j) >= 0 that sum to at most 2 (u[i] - u[i-1]), and merging events
   (getSlope / pushToLastSink) never increases the sum.  Hence every running sum of getSlope is within 6 * 2^59. *)
From Coq Require Import List ZArith Lia Bool Arith Permutation.
Import ListNotations.
Require Import CV.Transp1d CV.Transp1dProofs CV.Transp1dTerm CV.RowLegMachine CV.Transp1dMachine.
Local Open Scope Z_scope.

Lemma f32 v : -2147483648 <= v < 2147483648 -> fits (I32, v).
Proof. intros H. exact H. Qed.
Lemma f64 v : -9223372036854775808 <= v < 9223372036854775808 -> fits (I64, v).
Proof. intros H. exact H. Qed.

Ltac fit := first [apply f32; unfold zi in *; lia | apply f64; unfold zi in *; lia].
Ltac fits_list := repeat (apply Forall_cons; [fit|]); try apply Forall_nil.

Lemma Forall_app2 {A} (Q : A -> Prop) l1 l2 : Forall Q l1 -> Forall Q l2 -> Forall Q (l1 ++ l2).
Proof. intros H1 H2. apply Forall_app. split; assumption. Qed.

Lemma Forall_flat_map_in {A B} (Q : B -> Prop) (f : A -> list B) l :
  (forall a, In a l -> Forall Q (f a)) -> Forall Q (flat_map f l).
Proof.
  intros H. apply Forall_forall. intros x Hx. apply in_flat_map in Hx. destruct Hx as (a & Ha & Hx).
  specialize (H a Ha). rewrite Forall_forall in H. apply H. exact Hx.
Qed.

Lemma Forall_map_in {A B} (Q : B -> Prop) (f : A -> B) l : (forall a, In a l -> Q (f a)) -> Forall Q (map f l).
Proof. intros H. apply Forall_forall. intros x Hx. apply in_map_iff in Hx. destruct Hx as (a & <- & Ha). apply H. exact Ha. Qed.

(* ---------------------------------------------------------------- generic list facts *)
Lemma zn_bound (Q : Z -> Prop) l i : Q 0 -> (forall x, In x l -> Q x) -> Q (zn l i).
Proof.
  intros H0 H. destruct (Nat.lt_ge_cases i (length l)) as [Hi|Hi].
  - apply H. apply zn_In. exact Hi.
  - unfold zn. rewrite nth_overflow by exact Hi. exact H0.
Qed.

(* running sums of non-negative entries *)
Lemma acc_vals_fit l : forall acc, 0 <= acc -> (forall x, In x l -> 0 <= x) -> acc + total l <= TOTB ->
  Forall fits (acc_vals acc l).
Proof.
  induction l as [|x r IH]; intros acc Ha Hl Ht; cbn [acc_vals]; [constructor|].
  rewrite total_cons in Ht.
  assert (Hx : 0 <= x) by (apply Hl; left; reflexivity).
  assert (Hr : 0 <= total r).
  { clear -Hl. induction r as [|y t IH]; [unfold total; cbn; lia|]. rewrite total_cons.
    assert (0 <= y) by (apply Hl; right; left; reflexivity).
    assert (0 <= total t) by (apply IH; intros z [Hz|Hz]; apply Hl; [left|right; right]; assumption). lia. }
  constructor.
  - unfold TOTB in Ht. fit.
  - apply IH; [lia|intros y Hy; apply Hl; right; exact Hy|lia].
Qed.

Lemma total_nonneg l : (forall x, In x l -> 0 <= x) -> 0 <= total l.
Proof.
  induction l as [|y t IH]; intros H; [unfold total; cbn; lia|]. rewrite total_cons.
  assert (0 <= y) by (apply H; left; reflexivity).
  assert (0 <= total t) by (apply IH; intros z Hz; apply H; right; exact Hz). lia.
Qed.

(* ---------------------------------------------------------------- the event queue: sum of absolute slopes *)
Definition asum (l : list event) : Z := fold_right (fun e a => Z.abs (snd e) + a) 0 l.

Lemma asum_nonneg l : 0 <= asum l.
Proof. induction l as [|e r IH]; cbn [asum fold_right]; [lia|]. fold (asum r). lia. Qed.

Lemma asum_insert x l : asum (ev_insert x l) = Z.abs (snd x) + asum l.
Proof.
  induction l as [|y r IH]; cbn [ev_insert]; [reflexivity|].
  destruct (ev_le y x); [reflexivity|]. cbn [asum fold_right]. fold (asum (ev_insert x r)). fold (asum r). rewrite IH. lia.
Qed.

Lemma pop_at_asum x : forall l sl r, pop_at x l = (sl, r) -> Z.abs sl + asum r <= asum l.
Proof.
  induction l as [|[p d] t IH]; intros sl r E; cbn [pop_at] in E.
  - inversion E; subst. cbn. lia.
  - destruct (p =? x).
    + destruct (pop_at x t) as [sl' r'] eqn:E'. inversion E; subst. specialize (IH _ _ eq_refl).
      cbn [asum fold_right snd]. fold (asum t). lia.
    + inversion E; subst. cbn [asum fold_right snd]. fold (asum t). lia.
Qed.

Lemma pop_vals_fit x : forall l acc, Z.abs acc + asum l < 9223372036854775808 -> Forall fits (pop_vals x l acc).
Proof.
  induction l as [|[p d] t IH]; intros acc H; cbn [pop_vals]; [constructor|].
  cbn [asum fold_right snd] in H. fold (asum t) in H. pose proof (asum_nonneg t).
  destruct (p =? x); [|constructor]. constructor; [fit|]. apply IH. lia.
Qed.

(* the loops that push events: telescoping bound on the absolute slopes *)
Lemma fold_ins_asum (pos d g : nat -> Z) : forall len b evs,
  (forall j, (b <= j < b + len)%nat -> Z.abs (d j) <= g (j + 1)%nat - g j) ->
  asum (fold_left (fun evs j => if 0 <? pos j then ev_insert (pos j, d j) evs else evs) (seq b len) evs)
  <= asum evs + (g (b + len)%nat - g b).
Proof.
  induction len as [|len IH]; intros b evs H; cbn [seq fold_left].
  - rewrite Nat.add_0_r. lia.
  - assert (H0 : Z.abs (d b) <= g (b + 1)%nat - g b) by (apply H; lia).
    match goal with |- asum (fold_left _ _ ?e1) <= _ => set (evs1 := e1) end.
    specialize (IH (S b) evs1). replace (S b + len)%nat with (b + S len)%nat in IH by lia.
    assert (H1 : asum evs1 <= asum evs + Z.abs (d b)).
    { subst evs1. destruct (0 <? pos b); [rewrite asum_insert; cbn [snd]; lia|lia]. }
    replace (S b) with (b + 1)%nat in IH at 2 by lia.
    etransitivity; [apply IH; intros j Hj; apply H; lia|]. lia.
Qed.

(* ---------------------------------------------------------------- the sorted problem *)
Section Solver.
Variable P : sprob.
Hypothesis W : wf_sprob P.
Hypothesis HU : forall i, - POSB <= zn (su P) i <= POSB.
Hypothesis HV : forall j, - POSB <= zn (sv P) j <= POSB.
Hypothesis SU : nondec (su P).
Hypothesis SV : nondec (sv P).
Hypothesis HT : total (sd P) <= TOTB.
Hypothesis HN : zi (n_src P) + zi (n_snk P) < 2147483647.

Lemma Dx_range j : 0 <= Dx P j <= TOTB.
Proof.
  destruct (Nat.le_gt_cases j (n_snk P)) as [Hj|Hj].
  - assert (Dx P 0 <= Dx P j) by (apply Transp1dTerm.Dx_mono; [exact W|lia|exact Hj]).
    assert (Dx P j <= Dx P (n_snk P)) by (apply Transp1dTerm.Dx_mono; [exact W|lia|lia]).
    rewrite Dx_0 in H by exact W. rewrite Dx_m in H0 by exact W. lia.
  - unfold Dx, zn. rewrite nth_overflow by (rewrite sD_length by exact W; lia). unfold TOTB. lia.
Qed.

Lemma Sx_range i : 0 <= Sx P i <= TOTB.
Proof.
  destruct (Nat.le_gt_cases i (n_src P)) as [Hi|Hi].
  - assert (Sx P 0 <= Sx P i) by (apply Sx_mono; [exact W|lia|exact Hi]).
    assert (Sx P i <= Sx P (n_src P)) by (apply Sx_mono; [exact W|lia|lia]).
    rewrite Sx_0 in H by exact W. rewrite Sx_n in H0 by exact W. pose proof (w_tot _ W). lia.
  - unfold Sx, zn. rewrite nth_overflow by (rewrite sS_length by exact W; lia). unfold TOTB. lia.
Qed.

Lemma cost_range i j : 0 <= cost P i j <= 2 * POSB.
Proof. unfold cost. pose proof (HU i). pose proof (HV j). lia. Qed.

Lemma su_step i : (i + 1 < n_src P)%nat -> zn (su P) i <= zn (su P) (i + 1).
Proof. intros H. apply nondec_zn; [exact SU|exact H]. Qed.
Lemma sv_step j : (j + 1 < n_snk P)%nat -> zn (sv P) j <= zn (sv P) (j + 1).
Proof. intros H. apply nondec_zn; [exact SV|exact H]. Qed.

Lemma cost_vals_fit i j : Forall fits (cost_vals P i j).
Proof. unfold cost_vals. pose proof (HU i). pose proof (HV j). unfold POSB in *. fits_list. Qed.

Lemma delta_vals_fit i j : (i < n_src P)%nat -> (j < n_snk P)%nat -> Forall fits (delta_vals P i j).
Proof.
  intros Hi Hj. unfold delta_vals.
  pose proof (cost_range i (j + 1)). pose proof (cost_range (i + 1) j). pose proof (cost_range (i + 1) (j + 1)).
  pose proof (cost_range i j). unfold POSB in *.
  repeat apply Forall_app2; try apply cost_vals_fit; fits_list.
Qed.

Lemma upd_opt_vals_fit i : forall fuel j, (j < n_snk P)%nat -> Forall fits (upd_opt_vals P i fuel j).
Proof.
  induction fuel as [|f IH]; intros j Hj; cbn [upd_opt_vals]; [constructor|].
  constructor; [fit|].
  destruct (Nat.ltb_spec (j + 1) (n_snk P)); [|constructor].
  repeat apply Forall_app2; try apply cost_vals_fit.
  destruct (cost P i (j + 1) <=? cost P i j); [apply IH; lia|constructor].
Qed.

(* ---- the budget of absolute slopes *)
Definition bud (k : nat) (s : st) : Z := (zn (sv P) (lo s) - zn (sv P) 0) + 2 * (zn (su P) k - zn (su P) 0).
Definition minv (k : nat) (s : st) : Prop := asum (ev s) <= bud k s /\ lp s <= TOTB.

Lemma bud_le k s : bud k s <= 6 * POSB.
Proof. unfold bud. pose proof (HV (lo s)). pose proof (HV 0%nat). pose proof (HU k). pose proof (HU 0%nat). lia. Qed.

Lemma slope_vals_fit k s : minv k s -> Forall fits (slope_vals s).
Proof.
  intros [H _]. unfold slope_vals. apply pop_vals_fit. pose proof (bud_le k s). unfold POSB in *. cbn [Z.abs]. lia.
Qed.

Lemma get_slope_abs pop s : Z.abs (fst (get_slope pop s)) <= asum (ev s).
Proof.
  unfold get_slope. destruct (pop_at (lp s) (ev s)) as [sl evs] eqn:E. cbn [fst].
  pose proof (pop_at_asum _ _ _ _ E). pose proof (asum_nonneg evs). lia.
Qed.

Lemma get_slope_minv pop k s : minv k s -> minv k (snd (get_slope pop s)).
Proof.
  intros [H1 H2]. unfold get_slope. destruct (pop_at (lp s) (ev s)) as [sl evs] eqn:E. cbn [snd].
  pose proof (pop_at_asum _ _ _ _ E) as Q. split; [|exact H2]. unfold bud in *. cbn [ev lo].
  destruct (negb pop && negb (sl =? 0)); [rewrite asum_insert; cbn [snd]; lia|]. pose proof (Z.abs_nonneg sl). lia.
Qed.

(* pushNewSinkEvents(i, j) with lastOccupiedSink < j < nbSinks *)
Lemma pnk_minv k i j s : (j < n_snk P)%nat -> minv k s -> minv k (push_new_sink_events P i j s).
Proof.
  intros Hj [H1 H2]. unfold push_new_sink_events. destruct (Nat.leb_spec j (lo s)); [split; assumption|].
  split; [|exact H2]. unfold bud. cbn [ev lo].
  pose proof (fold_ins_asum (fun l => Z.min (Dx P (l + 1) - Sx P i) (lp s)) (fun l => cost P i l - cost P i (l + 1))
                (fun l => zn (sv P) l) (j - lo s) (lo s) (ev s)) as Q.
  replace (lo s + (j - lo s))%nat with j in Q by lia.
  etransitivity; [apply Q|unfold bud in H1; lia].
  intros l Hl. pose proof (sv_step l ltac:(lia)). unfold cost. lia.
Qed.

Lemma pnk_vals_fit i j s : (i < n_src P)%nat -> (j <= n_snk P)%nat -> Forall fits (pnk_vals P i j s).
Proof.
  intros Hi Hj. unfold pnk_vals. destruct (Nat.leb j (lo s)); [constructor|].
  apply Forall_flat_map_in. intros l Hl. apply in_seq in Hl.
  pose proof (Dx_range (l + 1)). pose proof (Sx_range i). pose proof (cost_range i l). pose proof (cost_range i (l + 1)).
  unfold TOTB, POSB in *.
  repeat apply Forall_app2; try apply cost_vals_fit; fits_list.
Qed.

(* pushNewSourceEvents(i) *)
Lemma pnse_minv i s : (i < n_src P)%nat -> (lo s < n_snk P)%nat -> minv (Nat.pred i) s -> minv i (push_new_source_events P i s).
Proof.
  intros Hi Hlo [H1 H2]. destruct i as [|i1]; [split; assumption|]. cbn [Nat.pred] in H1.
  cbn [push_new_source_events]. split; [|exact H2]. unfold bud. cbn [ev lo].
  match goal with |- context [seq ?b0 ?c0] => set (b := b0); set (c := c0) end.
  pose proof (fold_ins_asum (fun j => Dx P (j + 1) - Sx P (S i1)) (fun j => delta P i1 j)
                (fun j => cost P i1 j - cost P (i1 + 1) j) c b (ev s)) as Q.
  assert (Hu : zn (su P) i1 <= zn (su P) (i1 + 1)) by (apply su_step; lia).
  etransitivity; [apply Q|].
  - intros j Hj. assert (Hjl : (j + 1 < n_snk P)%nat) by (subst b c; lia).
    pose proof (sv_step j Hjl). unfold delta, cost. lia.
  - unfold bud in H1. replace (S i1) with (i1 + 1)%nat by lia. unfold cost. lia.
Qed.

Lemma pnse_vals_fit i s : (i < n_src P)%nat -> (lo s < n_snk P)%nat -> Forall fits (pnse_vals P i s).
Proof.
  intros Hi Hlo. destruct i as [|i1]; [constructor|]. cbn [pnse_vals].
  pose proof (first_idx_le (fun y => zn (su P) i1 <? y) (sv P)) as Hub. fold (upper_bound (sv P) (zn (su P) i1)) in Hub.
  pose proof (first_idx_le (fun y => zn (su P) (S i1) <=? y) (sv P)) as Hlb. fold (lower_bound (sv P) (zn (su P) (S i1))) in Hlb.
  fold (n_snk P) in Hub, Hlb.
  apply Forall_app2; [fits_list|].
  apply Forall_flat_map_in. intros j Hj. apply in_seq in Hj.
  assert (Hjl : (j < n_snk P)%nat) by lia.
  pose proof (Dx_range (j + 1)). pose proof (Sx_range (S i1)). unfold TOTB in *.
  apply Forall_app2; [fits_list|apply delta_vals_fit; lia].
Qed.

(* pushToLastSink *)
Lemma ptls_minv k i s : sinv P (Sx P (i + 1)) s -> minv k s -> minv k (push_to_last_sink P i s).
Proof.
  intros Iv [H1 H2]. unfold push_to_last_sink, get_slope.
  destruct (pop_at (lp s) (ev s)) as [sl evs] eqn:E. cbn [negb andb ev lp lo os pp].
  pose proof (pop_at_asum _ _ _ _ E) as Q.
  destruct (pop_at_spec _ _ _ _ (i_ev _ _ _ Iv) E) as (Q1 & Q2 & Q3).
  pose proof (Dx_range (lo s + 1)). pose proof (Sx_range (i + 1)).
  set (lp' := match evs with [] => _ | _ => _ end).
  assert (Hlp' : lp' <= TOTB).
  { subst lp'. destruct evs as [|[x d] t]; [lia|]. specialize (Q2 (x, d) (or_introl eq_refl)). cbn [fst] in Q2. lia. }
  split; [|cbn [lp]; exact Hlp']. unfold bud in *. cbn [ev lo].
  destruct (0 <? lp'); [rewrite asum_insert; cbn [snd]; lia|]. pose proof (Z.abs_nonneg sl). lia.
Qed.

Lemma ptls_vals_fit k i s : (i < n_src P)%nat -> (lo s < n_snk P)%nat -> minv k s -> Forall fits (ptls_vals P i s).
Proof.
  intros Hi Hlo M. unfold ptls_vals.
  pose proof (Dx_range (lo s + 1)). pose proof (Sx_range (i + 1)). unfold TOTB in *.
  apply Forall_app2; [fits_list|eapply slope_vals_fit; exact M].
Qed.

Lemma ptns_vals_fit i s : (i < n_src P)%nat -> (lo s < n_snk P)%nat -> Forall fits (ptns_vals P i s).
Proof. intros Hi Hlo. unfold ptns_vals. constructor; [fit|]. apply pnk_vals_fit; [exact Hi|lia]. Qed.

(* pushOnce, under the loop condition of push(i) *)
Lemma push_once_mag i s : (i < n_src P)%nat -> sinv P (Sx P (i + 1)) s -> minv i s ->
  Forall fits (push_once_vals P i s) /\ minv i (push_once P i s).
Proof.
  intros Hi Iv M. pose proof (i_lo _ _ _ Iv) as Hlo. unfold push_once_vals, push_once.
  destruct (Nat.eqb_spec (lo s) (n_snk P - 1)) as [Elo|Elo].
  - split; [constructor; [fit|eapply ptls_vals_fit; eassumption]|apply ptls_minv; assumption].
  - destruct (Z.eqb_spec (lp s) 0) as [E0|E0].
    + split; [constructor; [fit|apply ptns_vals_fit; assumption]|].
      unfold push_to_new_sink. apply pnk_minv; [lia|exact M].
    + pose proof (get_slope_abs false s) as Ha. pose proof (get_slope_minv false i s M) as M1.
      pose proof (get_slope_proj false s) as Pj.
      assert (Iv1 : 0 < lp s -> sinv P (Sx P (i + 1)) (snd (get_slope false s))).
      { intros Hp. apply (gs_false_spec P _ s Iv Hp). }
      pose proof (i_lp _ _ _ Iv) as Hlp0. specialize (Iv1 ltac:(lia)).
      destruct (get_slope false s) as [sl s1] eqn:Egs. cbn [fst snd] in *.
      destruct Pj as (Pj1 & Pj2 & Pj3 & Pj4).
      assert (Hlo1 : (lo s1 < n_snk P)%nat) by (rewrite Pj2; exact Hlo).
      destruct M as [Mb Ml]. pose proof (bud_le i s) as Hb.
      pose proof (cost_range i (lo s)) as Hc. unfold POSB in *.
      split.
      * constructor; [fit|].
        repeat apply Forall_app2; try apply cost_vals_fit; try (eapply slope_vals_fit; split; eassumption); try fits_list.
        destruct (cost P i (lo s + 1) <=? sl + cost P i (lo s));
          [apply ptns_vals_fit; assumption|eapply ptls_vals_fit; eassumption].
      * destruct (cost P i (lo s + 1) <=? sl + cost P i (lo s)).
        -- unfold push_to_new_sink. apply pnk_minv; [lia|exact M1].
        -- apply ptls_minv; assumption.
Qed.

Lemma loop_test_vals_fit i s : (i < n_src P)%nat -> (lo s < n_snk P)%nat -> Forall fits (loop_test_vals P i s).
Proof.
  intros Hi Hlo. unfold loop_test_vals. pose proof (Dx_range (lo s + 1)). pose proof (Sx_range (i + 1)). unfold TOTB in *.
  fits_list.
Qed.

Lemma push_loop_mag i : (i < n_src P)%nat -> Sx P (i + 1) <= Dx P (n_snk P) ->
  forall fuel s, sinv P (Sx P (i + 1)) s -> minv i s ->
  Forall fits (push_loop_vals P i fuel s) /\ forall s', push_loop P i fuel s = Some s' -> minv i s'.
Proof.
  intros Hi Hfe. induction fuel as [|f IH]; intros s Iv M; cbn [push_loop_vals push_loop];
    pose proof (loop_test_vals_fit i s Hi (i_lo _ _ _ Iv)) as LT.
  - destruct (Dx P (lo s + 1) - Sx P (i + 1) <? lp s).
    + split; [rewrite app_nil_r; exact LT|discriminate].
    + split; [rewrite app_nil_r; exact LT|intros s' E; inversion E; subst; exact M].
  - destruct (Z.ltb_spec (Dx P (lo s + 1) - Sx P (i + 1)) (lp s)) as [Hc|Hc].
    + destruct (push_once_mag i s Hi Iv M) as [F1 M1].
      destruct (push_once_step P i s W Hfe Iv Hc) as [Iv1 _]. cbn zeta in Iv1.
      destruct (IH _ Iv1 M1) as [F2 K2].
      split; [repeat apply Forall_app2; assumption|exact K2].
    + split; [rewrite app_nil_r; exact LT|intros s' E; inversion E; subst; exact M].
Qed.

(* push(i) *)
Lemma push_mag i s : (i < n_src P)%nat -> sinv P (Sx P i) s -> minv (Nat.pred i) s ->
  Forall fits (push_vals P i s) /\ forall s', push P i s = Some s' -> minv i s'.
Proof.
  intros Hi Iv M. unfold push_vals, push.
  set (s1 := {| ev := ev s; lp := lp s; lo := lo s; os := upd_opt P i (n_snk P) (os s); pp := pp s |}).
  assert (I1 : sinv P (Sx P i) s1).
  { constructor; cbn [lp ev lo os pp]; try apply Iv. apply upd_opt_lt. apply Iv. }
  assert (M1 : minv (Nat.pred i) s1) by exact M.
  set (s2 := push_new_source_events P i s1).
  assert (I2 : sinv P (Sx P i) s2).
  { subst s2. destruct i as [|i1]; [exact I1|]. cbn [push_new_source_events].
    match goal with |- context [fold_left _ (seq ?b ?c) _] => set (b0 := b); set (c0 := c) end.
    destruct (fold_ins_spec (fun j => Dx P (j + 1) - Sx P (S i1)) (fun j => delta P i1 j) (lp s1) (seq b0 c0) (ev s1) (i_ev _ _ _ I1)) as [F1 _].
    { intros j Hj. apply in_seq in Hj. subst c0.
      assert ((j + 1 <= lo s1)%nat) by lia.
      assert (Dx P (j + 1) <= Dx P (lo s1)) by (apply Transp1dTerm.Dx_mono; [exact W|lia|pose proof (i_lo _ _ _ I1); lia]).
      pose proof (i_d _ _ _ I1). lia. }
    cbn zeta in F1. constructor; cbn [lp ev lo os pp]; try apply I1. exact F1. }
  assert (M2 : minv i s2) by (apply pnse_minv; [exact Hi|apply I1|exact M1]).
  assert (P2 : lp s2 = lp s1 /\ lo s2 = lo s1 /\ os s2 = os s1) by (pose proof (pnse_proj P i s1) as Q; cbn zeta in Q; tauto).
  set (s3 := {| ev := ev s2; lp := Z.max (lp s2) (Dx P (os s2) - Sx P i); lo := lo s2; os := os s2; pp := pp s2 |}).
  assert (I3 : sinv P (Sx P i) s3).
  { subst s3. constructor; cbn [lp ev lo os pp]; try apply I2.
    - pose proof (i_lp _ _ _ I2). lia.
    - eapply EvOK_mono; [apply I2|lia].
    - pose proof (i_d _ _ _ I2). lia. }
  assert (M3 : minv i s3).
  { destruct M2 as [A B]. split; [exact A|]. cbn [s3 lp]. pose proof (Dx_range (os s2)). pose proof (Sx_range i). lia. }
  set (s4 := push_new_sink_events P i (os s3) s3).
  assert (HS : Sx P i <= Sx P (i + 1)) by (apply Sx_mono; [exact W|lia|lia]).
  assert (I4 : sinv P (Sx P (i + 1)) s4).
  { subst s4. unfold push_new_sink_events. destruct (Nat.leb_spec (os s3) (lo s3)).
    - constructor; try apply I3. pose proof (i_d _ _ _ I3). lia.
    - destruct (fold_ins_spec (fun l => Z.min (Dx P (l + 1) - Sx P i) (lp s3)) (fun l => cost P i l - cost P i (l + 1)) (lp s3)
                  (seq (lo s3) (os s3 - lo s3)) (ev s3) (i_ev _ _ _ I3)) as [F1 _].
      { intros j _. lia. }
      cbn zeta in F1. constructor; cbn [lp ev lo os pp]; try apply I3.
      + exact F1.
      + subst s3. cbn [lp os]. lia. }
  assert (M4 : minv i s4) by (apply pnk_minv; [apply I3|exact M3]).
  assert (Hfe : Sx P (i + 1) <= Dx P (n_snk P)).
  { assert (Sx P (i + 1) <= Sx P (n_src P)) by (apply Sx_mono; [exact W|lia|lia]).
    rewrite Sx_n in H by exact W. rewrite Dx_m by exact W. pose proof (w_tot _ W). lia. }
  destruct (push_loop_mag i Hi Hfe (loop_fuel P s4) s4 I4 M4) as [F5 K5].
  split.
  - repeat apply Forall_app2.
    + apply upd_opt_vals_fit. apply Iv.
    + apply pnse_vals_fit; [exact Hi|apply I1].
    + pose proof (Dx_range (os s2)). pose proof (Sx_range i). unfold TOTB in *. fits_list.
    + apply pnk_vals_fit; [exact Hi|]. pose proof (i_os _ _ _ I3). lia.
    + exact F5.
  - intros s' E. destruct (push_loop P i (loop_fuel P s4) s4) as [s5|] eqn:E5; [|discriminate].
    inversion E; subst. destruct (K5 s5 eq_refl) as [A B]. split; [exact A|exact B].
Qed.

Lemma push_all_mag : forall c i s, (i + c = n_src P)%nat -> sinv P (Sx P i) s -> minv (Nat.pred i) s ->
  Forall fits (push_all_vals P (seq i c) s).
Proof.
  induction c as [|c IH]; intros i s Hic Iv M; cbn [seq push_all_vals]; [constructor|].
  destruct (push_mag i s ltac:(lia) Iv M) as [F K].
  constructor; [fit|]. apply Forall_app2; [exact F|].
  destruct (push_terminates P i s W ltac:(lia) Iv) as (s1 & E1 & I1). rewrite E1.
  apply IH; [lia|replace (S i) with (i + 1)%nat by lia; exact I1|cbn [Nat.pred]; apply K; exact E1].
Qed.

Lemma init_sinv : (0 < n_snk P)%nat -> sinv P (Sx P 0) init_st.
Proof.
  intros Hm. constructor; cbn [init_st lp ev lo os pp]; try lia.
  - split; [exact I|intros e []].
  - rewrite Dx_0, Sx_0 by exact W. lia.
Qed.

Lemma sinks_nonempty : (0 < n_src P)%nat -> (0 < n_snk P)%nat.
Proof.
  intros E. destruct (n_snk P) eqn:Em; [|lia]. exfalso.
  assert (Sx P 0 < Sx P (0 + 1)) by (apply Sx_step; [exact W|lia]).
  assert (Sx P (0 + 1) <= Sx P (n_src P)) by (apply Sx_mono; [exact W|lia|lia]).
  rewrite Sx_n in H0 by exact W. rewrite Sx_0 in H by exact W.
  pose proof (Dx_m P W) as Q. rewrite Em in Q. rewrite Dx_0 in Q by exact W. pose proof (w_tot _ W). lia.
Qed.

(* [F] Transportation1dSolver::run *)
Theorem run_vals_fit : Forall fits (run_vals P).
Proof.
  unfold run_vals. apply Forall_app2; [fits_list|].
  destruct (Nat.eq_dec (n_src P) 0) as [E|E].
  - rewrite E. cbn [seq push_all_vals push_all app init_st pp length]. pose proof (Dx_range (n_snk P)). pose proof (Sx_range 0).
    unfold Dx in H. unfold TOTB in *. cbn [seq map]. fits_list.
  - pose proof (sinks_nonempty ltac:(lia)) as Hm.
    apply Forall_app2.
    + apply (push_all_mag (n_src P) 0 init_st); [lia|apply init_sinv; exact Hm|].
      split; [unfold bud; cbn [init_st ev lo asum fold_right Nat.pred]; lia|cbn [init_st lp]; unfold TOTB; lia].
    + destruct (push_all P (seq 0 (n_src P)) init_st) as [s|] eqn:Es; [|constructor].
      assert (I1 : 0 <= lp init_st) by (cbn; lia).
      assert (I2 : forall x, In x (pp init_st) -> 0 <= x) by (cbn; intros ? []).
      destruct (push_all_proj P _ _ _ I1 I2 Es) as (R1 & R2 & R3).
      cbn [init_st pp length] in R3. rewrite seq_length in R3. cbn [Nat.add] in R3.
      pose proof (Dx_range (n_snk P)) as HD. pose proof (Sx_range (length (pp s))). unfold Dx in HD. unfold TOTB in *.
      apply Forall_app2; [fits_list|].
      apply Forall_map_in. intros k Hk. apply in_seq in Hk. fit.
Qed.

(* ---------------------------------------------------------------- computeSolution / computeAssignment *)
Section Positions.
Variable p : list Z.
Hypothesis G : geom P p.
Hypothesis Ln : length p = n_src P.

Lemma p_range i : (i < length p)%nat -> 0 <= Sx P i + zn p i /\ Sx P (i + 1) + zn p i <= TOTB.
Proof.
  intros Hi. pose proof (g_b0 _ _ G i Hi) as H1. pose proof (g_last _ _ G i Hi) as H2. unfold bI, eI in *.
  pose proof (Dx_range (n_snk P)). lia.
Qed.

Lemma sweep_vals_fit : forall fuel i j, Forall fits (sweep_vals P p fuel i j).
Proof.
  induction fuel as [|f IH]; intros i j; cbn [sweep_vals]; [constructor|].
  destruct (Nat.ltb_spec i (length p)); cbn [andb]; [|constructor].
  destruct (Nat.ltb_spec j (n_snk P)); [|constructor].
  pose proof (p_range i H) as [A B]. pose proof (Sx_range i). pose proof (Sx_range (i + 1)).
  pose proof (Dx_range j). pose proof (Dx_range (j + 1)). unfold TOTB in *.
  assert (Sx P i <= Sx P (i + 1)) by (apply Sx_mono; [exact W|lia|lia]).
  apply Forall_app2; [fits_list|]. destruct (_ <? _); apply IH.
Qed.

Theorem solution_vals_fit : Forall fits (solution_vals P p).
Proof. unfold solution_vals. constructor; [fit|apply sweep_vals_fit]. Qed.

Lemma scan_vals_fit pos : forall Dt cs, (cs + length Dt <= n_snk P)%nat -> Forall fits (scan_vals Dt cs pos).
Proof.
  induction Dt as [|x r IH]; intros cs H; cbn [scan_vals]; [constructor|]. cbn [length] in H.
  constructor; [fit|]. destruct (x <=? pos); [apply IH; lia|constructor].
Qed.

Lemma scan_D_len pos : forall Dt cs cs' Dt', scan_D Dt cs pos = Some (cs', Dt') -> (cs' + length Dt' = cs + length Dt)%nat.
Proof.
  induction Dt as [|x r IH]; intros cs cs' Dt' E; cbn [scan_D] in E; [discriminate|].
  destruct (x <=? pos).
  - apply IH in E. cbn [length]. lia.
  - inversion E; subst. reflexivity.
Qed.

Lemma assign_loop_vals_fit : forall is_ cs Dt, (forall i, In i is_ -> (i < length p)%nat) -> (cs + length Dt <= n_snk P)%nat ->
  Forall fits (assign_loop_vals P p is_ cs Dt).
Proof.
  induction is_ as [|i r IH]; intros cs Dt Hin Hlen; cbn [assign_loop_vals]; [constructor|].
  assert (Hi : (i < length p)%nat) by (apply Hin; left; reflexivity).
  pose proof (p_range i Hi) as [A B]. pose proof (Sx_range i). pose proof (Sx_range (i + 1)).
  assert (E : Sx P (i + 1) = Sx P i + zn (ss P) i).
  { unfold Sx. rewrite (w_S _ W). replace (i + 1)%nat with (S i) by lia. apply psums_S. rewrite (w_ls _ W). unfold n_src in Ln. lia. }
  assert (Hs : 0 < zn (ss P) i) by (apply (w_s _ W), zn_In; rewrite (w_ls _ W); unfold n_src in Ln; lia).
  assert (0 <= Z.quot (zn (ss P) i) 2) by (apply Z.quot_pos; lia).
  assert (Z.quot (zn (ss P) i) 2 < zn (ss P) i) by (apply Z.quot_lt; lia).
  unfold TOTB in *.
  repeat apply Forall_app2; [fits_list|apply scan_vals_fit; exact Hlen|].
  destruct (scan_D Dt cs _) as [[cs' Dt']|] eqn:Es; [|constructor].
  apply scan_D_len in Es. apply IH; [intros k Hk; apply Hin; right; exact Hk|lia].
Qed.

Theorem assignment_vals_fit : Forall fits (assignment_vals P p).
Proof.
  unfold assignment_vals. apply assign_loop_vals_fit.
  - intros i Hi. apply in_seq in Hi. lia.
  - pose proof (sD_length P W) as L. destruct (sD P) as [|x t]; cbn [tl length] in *; lia.
Qed.
End Positions.
End Solver.

(* ---------------------------------------------------------------- the sorter *)
Lemma pair_lt_true x y : pair_lt x y = true -> fst x <= fst y.
Proof. unfold pair_lt. intros H. apply orb_prop in H. destruct H as [H|H]; [apply Z.ltb_lt in H; lia|]. apply andb_prop in H. destruct H as [H _]. apply Z.eqb_eq in H. lia. Qed.
Lemma pair_lt_false x y : pair_lt x y = false -> fst y <= fst x.
Proof. unfold pair_lt. intros H. apply orb_false_iff in H. destruct H as [H _]. apply Z.ltb_ge in H. exact H. Qed.

Lemma ins_pair_nondec x l : nondec (map fst l) -> nondec (map fst (ins_pair x l)).
Proof.
  induction l as [|y r IH]; intros H; cbn [ins_pair map].
  - cbn. auto.
  - destruct (pair_lt x y) eqn:C.
    + cbn [map nondec]. split; [apply pair_lt_true; exact C|exact H].
    + cbn [map nondec] in H. destruct H as [H1 H2]. specialize (IH H2). cbn [map nondec]. split; [|exact IH].
      destruct r as [|z t]; cbn [ins_pair map].
      * apply pair_lt_false. exact C.
      * destruct (pair_lt x z); cbn [map]; [apply pair_lt_false; exact C|exact H1].
Qed.

Lemma sort_pairs_nondec l : nondec (map fst (sort_pairs l)).
Proof. induction l as [|x r IH]; cbn [sort_pairs fold_right]; [exact I|]. apply ins_pair_nondec. exact IH. Qed.

Lemma pos_pairs_fst pos amt : Forall (fun pr => fst pr = zn pos (snd pr) /\ (snd pr < length pos)%nat) (pos_pairs pos amt 0).
Proof.
  apply Forall_forall. intros [x k] H. apply pos_pairs_in in H. rewrite Nat.sub_0_r in H. cbn [fst snd]. tauto.
Qed.

Lemma sorted_fst pos amt :
  Forall (fun pr => fst pr = zn pos (snd pr) /\ (snd pr < length pos)%nat) (sort_pairs (pos_pairs pos amt 0)).
Proof. eapply Permutation_Forall; [apply Permutation_sym, sort_pairs_perm|apply pos_pairs_fst]. Qed.

Lemma map_zn_snd pos (l : list (Z * nat)) : Forall (fun pr => fst pr = zn pos (snd pr) /\ (snd pr < length pos)%nat) l ->
  map (zn pos) (map snd l) = map fst l.
Proof. induction 1 as [|x r [Hx _] _ IH]; cbn [map]; [reflexivity|]. rewrite IH, Hx. reflexivity. Qed.

Lemma pos_pairs_length pos : forall amt i0, (length (pos_pairs pos amt i0) <= length pos)%nat.
Proof.
  induction pos as [|p pr IH]; intros amt i0; cbn [pos_pairs length]; [lia|].
  destruct amt as [|a ar]; [cbn; lia|]. rewrite app_length. specialize (IH ar (S i0)). destruct (0 <? a); cbn [length]; lia.
Qed.

Lemma sorted_length pos amt : (length (sort_pairs (pos_pairs pos amt 0)) <= length pos)%nat.
Proof. rewrite (Permutation_length (sort_pairs_perm _)). apply pos_pairs_length. Qed.

Definition inB (x : Z) : Prop := - POSB <= x <= POSB.
Lemma inB0 : inB 0.
Proof. unfold inB, POSB. lia. Qed.

Lemma zn_inB l i : Forall inB l -> inB (zn l i).
Proof. intros H. apply zn_bound; [exact inB0|]. rewrite Forall_forall in H. exact H. Qed.

Lemma zn_map_inB pos order i : Forall inB pos -> inB (zn (map (zn pos) order) i).
Proof.
  intros H. apply zn_bound; [exact inB0|]. intros x Hx. apply in_map_iff in Hx. destruct Hx as (k & <- & _).
  apply zn_inB. exact H.
Qed.

Lemma sorted_nth_inB pos amt k : Forall inB pos -> inB (fst (nth k (sort_pairs (pos_pairs pos amt 0)) (0, O))).
Proof.
  intros H. destruct (Nat.lt_ge_cases k (length (sort_pairs (pos_pairs pos amt 0)))) as [Hk|Hk].
  - pose proof (sorted_fst pos amt) as F. rewrite Forall_forall in F.
    destruct (F _ (nth_In _ (0, O) Hk)) as [E _]. rewrite E. apply zn_inB. exact H.
  - rewrite nth_overflow by exact Hk. exact inB0.
Qed.

Lemma order_vals_fit o N : (forall k, In k o -> (k < N)%nat) -> zi N <= 2147483647 -> Forall fits (order_vals o).
Proof. intros H HN. unfold order_vals. apply Forall_map_in. intros k Hk. specialize (H k Hk). fit. Qed.

Lemma idle_vals_fit pv pd : Forall inB pv -> zi (length pv) <= 2147483647 ->
  forall us ss_, Forall inB us -> Forall fits (idle_vals (sort_pairs (pos_pairs pv pd 0)) us ss_).
Proof.
  intros Hv Hn. induction us as [|ui ur IH]; intros ss_ Hu; cbn [idle_vals]; [constructor|].
  destruct ss_ as [|si sr]; [constructor|]. inversion Hu as [|? ? Hui Hur]; subst.
  apply Forall_app2; [|apply IH; exact Hur].
  unfold idle_vals_of. set (snkSort := sort_pairs (pos_pairs pv pd 0)).
  destruct (0 <? si) eqn:Cs; cbn [orb]; [constructor|].
  destruct (Nat.eqb_spec (length snkSort) 0) as [E0|E0]; [constructor|].
  apply Forall_app2.
  - destruct (_ && _); [|constructor].
    pose proof (sorted_nth_inB pv pd (lower_bound_pairs snkSort ui - 1) Hv) as A.
    pose proof (sorted_nth_inB pv pd (lower_bound_pairs snkSort ui) Hv) as B.
    fold snkSort in A, B. unfold inB, POSB in *. fits_list.
  - assert (Hne : snkSort <> []) by (intros Q; rewrite Q in E0; cbn in E0; lia).
    apply Z.ltb_ge in Cs. pose proof (idle_sink_of_in snkSort ui si Hne ltac:(lia)) as Hin.
    apply in_map_iff in Hin. destruct Hin as (pr & Epr & Hpr).
    pose proof (sorted_fst pv pd) as F. rewrite Forall_forall in F. destruct (F pr Hpr) as [_ Hlt].
    rewrite <- Epr. fits_list.
Qed.

(* ---------------------------------------------------------------- Transportation1d::assign *)
Lemma dom_total_vals l : (forall x, In x l -> 0 <= x) -> total l <= TOTB -> zi (length l) < 2147483647 -> Forall fits (total_vals l).
Proof.
  intros H1 H2 H3. unfold total_vals. constructor; [fit|]. apply acc_vals_fit; [lia|exact H1|lia].
Qed.

Lemma len_nonneg {A} (l : list A) : 0 <= zi (length l).
Proof. unfold zi. lia. Qed.

Theorem assign_vals_fit pb : t1d_dom pb -> Forall fits (assign_vals pb).
Proof.
  intros (Du & Dv & Ds & Dd & Ts & Td & Hn & Ls & Ld).
  rewrite Forall_forall in Ds, Dd.
  pose proof (len_nonneg (pb_u pb)) as Nu. pose proof (len_nonneg (pb_v pb)) as Nv.
  unfold assign_vals. apply Forall_app2.
  { unfold check_vals. apply Forall_app2; apply dom_total_vals; try assumption; rewrite ?Ls, ?Ld; lia. }
  destruct (check pb) as [e|] eqn:Ck; [constructor|].
  pose proof (check_none pb Ck) as C. pose proof (convert_wf pb C) as W.
  set (so := mk_sorter pb) in *. set (P := convert so pb) in *.
  pose proof (sorted_fst (pb_u pb) (pb_s pb)) as Fu. pose proof (sorted_fst (pb_v pb) (pb_d pb)) as Fv.
  assert (Esu : su P = map fst (sort_pairs (pos_pairs (pb_u pb) (pb_s pb) 0))).
  { subst P so. unfold convert, mk_sorter. cbn [su srcOrder]. apply map_zn_snd. exact Fu. }
  assert (Esv : sv P = map fst (sort_pairs (pos_pairs (pb_v pb) (pb_d pb) 0))).
  { subst P so. unfold convert, mk_sorter. cbn [sv snkOrder]. apply map_zn_snd. exact Fv. }
  assert (HU : forall i, - POSB <= zn (su P) i <= POSB).
  { intros i. subst P so. unfold convert, mk_sorter. cbn [su srcOrder]. apply (zn_map_inB (pb_u pb)). exact Du. }
  assert (HV : forall j, - POSB <= zn (sv P) j <= POSB).
  { intros j. subst P so. unfold convert, mk_sorter. cbn [sv snkOrder]. apply (zn_map_inB (pb_v pb)). exact Dv. }
  assert (SU : nondec (su P)) by (rewrite Esu; apply sort_pairs_nondec).
  assert (SV : nondec (sv P)) by (rewrite Esv; apply sort_pairs_nondec).
  assert (HT : total (sd P) <= TOTB).
  { subst P so. unfold convert, mk_sorter. cbn [sd snkOrder]. rewrite (order_total _ _ (c_ld _ C) (c_d _ C)). exact Td. }
  assert (Lsrc : (n_src P <= length (pb_u pb))%nat).
  { unfold n_src. rewrite Esu, map_length. apply sorted_length. }
  assert (Lsnk : (n_snk P <= length (pb_v pb))%nat).
  { unfold n_snk. rewrite Esv, map_length. apply sorted_length. }
  assert (HN : zi (n_src P) + zi (n_snk P) < 2147483647) by (unfold zi in *; lia).
  apply Forall_app2; [|apply Forall_app2; [|apply Forall_app2]].
  - (* sorter *)
    unfold sorter_vals. fold so. apply Forall_app2; [|apply Forall_app2].
    + apply (order_vals_fit _ (length (pb_u pb))); [|lia]. intros k Hk.
      subst so. unfold mk_sorter in Hk. cbn [srcOrder] in Hk. apply in_map_iff in Hk. destruct Hk as (pr & <- & Hpr).
      rewrite Forall_forall in Fu. apply (Fu pr Hpr).
    + apply (order_vals_fit _ (length (pb_v pb))); [|lia]. intros k Hk.
      subst so. unfold mk_sorter in Hk. cbn [snkOrder] in Hk. apply in_map_iff in Hk. destruct Hk as (pr & <- & Hpr).
      rewrite Forall_forall in Fv. apply (Fv pr Hpr).
    + apply idle_vals_fit; [exact Dv|lia|exact Du].
  - (* setupData *)
    unfold setup_vals. pose proof (w_tot _ W) as Wt.
    apply Forall_app2; [fits_list|apply Forall_app2; [|apply Forall_app2; [fits_list|]]].
    + apply acc_vals_fit; [lia|intros x Hx; pose proof (w_d _ W x Hx); lia|lia].
    + apply acc_vals_fit; [lia|intros x Hx; pose proof (w_s _ W x Hx); lia|lia].
  - apply run_vals_fit; assumption.
  - destruct (run P) as [p|] eqn:R; [|constructor].
    destruct (run_geom P p W R) as [Ln G].
    apply Forall_app2; [apply assignment_vals_fit; assumption|].
    destruct (compute_assignment_spec P p W G Ln) as (a & A1 & A2 & A3). rewrite A1.
    apply (order_vals_fit _ (n_snk P)); [|unfold zi in *; lia].
    intros k Hk. apply In_nth with (d := O) in Hk. destruct Hk as (i & Hi & <-).
    fold (nn a i). apply (A3 i). lia.
Qed.

(* ---------------------------------------------------------------- balanceDemand *)
Lemma total_map_add a l : total (map (fun x => x + a) l) = total l + a * zi (length l).
Proof.
  induction l as [|x r IH]; [unfold total, zi; cbn; lia|]. cbn [map length]. rewrite !total_cons, IH. unfold zi. lia.
Qed.

Lemma total_add_first : forall k l, total (add_first k l) <= total l + zi k.
Proof.
  induction k as [|k IH]; intros l; cbn [add_first]; [unfold zi; lia|].
  destruct l as [|x r]; [unfold zi; lia|]. rewrite !total_cons. specialize (IH r). unfold zi in *. lia.
Qed.

Lemma add_first_in : forall k l y, In y (add_first k l) -> exists x, In x l /\ x <= y.
Proof.
  induction k as [|k IH]; intros l y H; cbn [add_first] in H; [exists y; split; [exact H|lia]|].
  destruct l as [|x r]; [contradiction|]. destruct H as [<-|H].
  - exists x. split; [left; reflexivity|lia].
  - destruct (IH r y H) as (z & Hz & Hle). exists z. split; [right; exact Hz|exact Hle].
Qed.

Lemma add_first_length : forall k l, length (add_first k l) = length l.
Proof. induction k as [|k IH]; intros l; cbn [add_first]; [reflexivity|]. destruct l as [|x r]; [reflexivity|]. cbn [length]. rewrite IH. reflexivity. Qed.

Lemma quot_facts a m : 0 < a -> 0 < m -> 0 <= Z.quot a m <= a /\ 0 <= a - Z.quot a m * m < m.
Proof.
  intros Ha Hm. rewrite Z.quot_div_nonneg by lia.
  pose proof (Z.div_mod a m ltac:(lia)) as E. pose proof (Z.mod_pos_bound a m Hm) as Hb.
  pose proof (Z.div_pos a m ltac:(lia) Hm) as Hq.
  assert (a / m * 1 <= a / m * m) by (apply Z.mul_le_mono_nonneg_l; lia). lia.
Qed.

Lemma in_le_total l : (forall x, In x l -> 0 <= x) -> forall x, In x l -> x <= total l.
Proof.
  induction l as [|y t IH]; intros H x Hx; [contradiction|]. rewrite total_cons.
  assert (0 <= total t) by (apply total_nonneg; intros z Hz; apply H; right; exact Hz).
  assert (0 <= y) by (apply H; left; reflexivity).
  destruct Hx as [->|Hx]; [lia|]. assert (x <= total t) by (apply IH; [intros z Hz; apply H; right; exact Hz|exact Hx]). lia.
Qed.

Lemma firstn_in {A} : forall k (l : list A) x, In x (firstn k l) -> In x l.
Proof. induction k as [|k IH]; intros l x H; [contradiction|]. destruct l as [|y r]; [contradiction|]. destruct H as [<-|H]; [left; reflexivity|right; apply IH; exact H]. Qed.

Theorem balance_vals_fit pb : t1d_dom pb -> Forall fits (balance_vals pb).
Proof.
  intros (Du & Dv & Ds & Dd & Ts & Td & Hn & Ls & Ld).
  rewrite Forall_forall in Ds, Dd.
  pose proof (len_nonneg (pb_u pb)) as Nu. pose proof (len_nonneg (pb_v pb)) as Nv.
  pose proof (total_nonneg _ Ds) as Ps. pose proof (total_nonneg _ Dd) as Pd.
  unfold balance_vals. repeat apply Forall_app2.
  - apply dom_total_vals; try assumption. rewrite Ls. lia.
  - apply dom_total_vals; try assumption. rewrite Ld. lia.
  - unfold TOTB in *. fits_list.
  - destruct (Z.leb_spec (total (pb_s pb) - total (pb_d pb)) 0) as [Hm|Hm]; [constructor|].
    unfold nb_sinks. destruct (length (pb_v pb)) as [|m'] eqn:Em; [constructor|]. rewrite <- Em.
    set (m := zi (length (pb_v pb))). assert (Hmp : 0 < m) by (subst m; unfold zi; lia).
    set (missing := total (pb_s pb) - total (pb_d pb)) in *.
    destruct (quot_facts missing m Hm Hmp) as [Q1 Q2]. set (added := Z.quot missing m) in *.
    assert (Hmm : m < 2147483647) by (unfold m; rewrite Em; lia).
    unfold TOTB in *.
    repeat apply Forall_app2.
    + fits_list.
    + apply Forall_map_in. intros x Hx. pose proof (Dd x Hx).
      pose proof (in_le_total _ Dd x Hx).
      fit.
    + apply Forall_map_in. intros i Hi. apply in_seq in Hi. subst m. fit.
    + fits_list.
    + apply Forall_map_in. intros x Hx. apply firstn_in in Hx. pose proof (Dd x Hx).
      pose proof (in_le_total _ Dd x Hx).
      fit.
    + apply Forall_map_in. intros i Hi. apply in_seq in Hi. fit.
Qed.

Lemma balance_dom pb pb' : t1d_dom pb -> balance_demand pb = Ok pb' -> t1d_dom pb'.
Proof.
  intros D E. pose proof D as (Du & Dv & Ds & Dd & Ts & Td & Hn & Ls & Ld). unfold balance_demand in E.
  destruct (Z.leb_spec (total (pb_s pb) - total (pb_d pb)) 0) as [Hm|Hm]; [inversion E; subst; exact D|].
  unfold nb_sinks in E. destruct (length (pb_v pb)) as [|m'] eqn:Em; [discriminate|]. rewrite <- Em in E.
  inversion E; subst; clear E. unfold t1d_dom. cbn [pb_u pb_v pb_s pb_d].
  set (m := Z.of_nat (length (pb_v pb))) in *. assert (Hmp : 0 < m) by (subst m; lia).
  set (missing := total (pb_s pb) - total (pb_d pb)) in *.
  destruct (quot_facts missing m Hm Hmp) as [Q1 Q2]. set (added := Z.quot missing m) in *.
  repeat split; try assumption.
  - apply Forall_forall. intros y Hy. apply add_first_in in Hy. destruct Hy as (x & Hx & Hle).
    apply in_map_iff in Hx. destruct Hx as (x0 & <- & Hx0). rewrite Forall_forall in Dd. pose proof (Dd x0 Hx0). lia.
  - etransitivity; [apply total_add_first|]. rewrite total_map_add. unfold zi. rewrite Z2Nat.id by lia.
    rewrite Ld. fold m. lia.
  - rewrite Em. exact Hn.
  - rewrite add_first_length, map_length, Em. exact Ld.
Qed.

(* [F] the sequence of improveXTransport / improveYTransport: balanceDemand(), then assign() *)
Theorem balance_assign_vals_fit pb : t1d_dom pb -> Forall fits (balance_assign_vals pb).
Proof.
  intros D. unfold balance_assign_vals. apply Forall_app2; [apply balance_vals_fit; exact D|].
  destruct (balance_demand pb) as [pb'|e] eqn:E; [|constructor]. apply assign_vals_fit. eapply balance_dom; eassumption.
Qed.

(* the sorted problem handed to the solver is in the solver's magnitude domain *)
Lemma convert_mag pb : t1d_dom pb -> checked pb ->
  let P := convert (mk_sorter pb) pb in
  total (sd P) <= TOTB /\ zi (n_src P) + zi (n_snk P) < 2147483647.
Proof.
  intros (Du & Dv & Ds & Dd & Ts & Td & Hn & Ls & Ld) C P.
  pose proof (sorted_fst (pb_u pb) (pb_s pb)) as Fu. pose proof (sorted_fst (pb_v pb) (pb_d pb)) as Fv.
  split.
  - subst P. unfold convert, mk_sorter. cbn [sd snkOrder]. rewrite (order_total _ _ (c_ld _ C) (c_d _ C)). exact Td.
  - assert (Lsrc : (n_src P <= length (pb_u pb))%nat).
    { unfold n_src. subst P. unfold convert, mk_sorter. cbn [su srcOrder]. rewrite !map_length. apply sorted_length. }
    assert (Lsnk : (n_snk P <= length (pb_v pb))%nat).
    { unfold n_snk. subst P. unfold convert, mk_sorter. cbn [sv snkOrder]. rewrite !map_length. apply sorted_length. }
    unfold zi in *. lia.
Qed.

(* [F] computeSolution on the positions computed by run (the path of solve()) *)
Theorem solve_solution_vals_fit pb p : t1d_dom pb -> check pb = None -> run (convert (mk_sorter pb) pb) = Some p ->
  Forall fits (solution_vals (convert (mk_sorter pb) pb) p).
Proof.
  intros D Ck R.
  pose proof (check_none pb Ck) as C. pose proof (convert_wf pb C) as W.
  destruct (run_geom _ p W R) as [Ln G]. destruct (convert_mag pb D C) as [HT HN].
  apply solution_vals_fit; assumption.
Qed.

(* ---------------------------------------------------------------- examples *)
(* non-vacuity at the upper end of the domain: positions +-2^59, total supply 2^61, balanceDemand needed *)
Definition ex_t1d : prob :=
  {| pb_u := [-POSB; 0; 17; POSB]; pb_v := [-POSB; 5; POSB];
     pb_s := [1152921504606846976; 576460752303423488; 7; 576460752303423481];
     pb_d := [1152921504606846976; 0; 576460752303423488] |}.

Lemma dom_by_compute pb :
  forallb (fun x => (- POSB <=? x) && (x <=? POSB)) (pb_u pb) && forallb (fun x => (- POSB <=? x) && (x <=? POSB)) (pb_v pb)
  && forallb (fun x => 0 <=? x) (pb_s pb) && forallb (fun x => 0 <=? x) (pb_d pb)
  && (total (pb_s pb) <=? TOTB) && (total (pb_d pb) <=? TOTB)
  && (zi (length (pb_u pb)) + zi (length (pb_v pb)) <? 2147483647)
  && Nat.eqb (length (pb_s pb)) (length (pb_u pb)) && Nat.eqb (length (pb_d pb)) (length (pb_v pb)) = true -> t1d_dom pb.
Proof.
  intros H. repeat (apply andb_prop in H; destruct H as [H ?]).
  unfold t1d_dom. repeat split.
  - apply Forall_forall. intros x Hx. rewrite forallb_forall in H. specialize (H x Hx). lia.
  - apply Forall_forall. intros x Hx. rewrite forallb_forall in H7. specialize (H7 x Hx). lia.
  - apply Forall_forall. intros x Hx. rewrite forallb_forall in H6. specialize (H6 x Hx). lia.
  - apply Forall_forall. intros x Hx. rewrite forallb_forall in H5. specialize (H5 x Hx). lia.
  - lia.
  - lia.
  - lia.
  - apply Nat.eqb_eq. assumption.
  - apply Nat.eqb_eq. assumption.
Qed.

Definition tv_eqb (a b : cty * Z) : bool :=
  match fst a, fst b with I32, I32 | I64, I64 => snd a =? snd b | _, _ => false end.
Lemma in_by_compute (v : cty * Z) l : existsb (tv_eqb v) l = true -> In v l.
Proof.
  intros H. apply existsb_exists in H. destruct H as ([t x] & Hin & E). destruct v as [t' y].
  unfold tv_eqb in E. cbn [fst snd] in E. destruct t', t; try discriminate; apply Z.eqb_eq in E; subst; exact Hin.
Qed.

Example t1d_nonvacuous :
  t1d_dom ex_t1d /\
  (exists pb', balance_demand ex_t1d = Ok pb' /\ pb_d pb' = [1345075088707988139; 192153584101141163; 768614336404564650]
               /\ assign pb' = Ok [0%nat; 1%nat; 2%nat; 2%nat]) /\
  length (balance_assign_vals ex_t1d) = 216%nat /\
  In (I64, 2305843009213693952) (balance_assign_vals ex_t1d).
Proof.
  split; [apply dom_by_compute; vm_compute; reflexivity|].
  split; [eexists; split; [vm_compute; reflexivity|split; vm_compute; reflexivity]|].
  split; [vm_compute; reflexivity|].
  apply in_by_compute. vm_compute. reflexivity.
Qed.

(* sanity: long long is needed -- at the scale of the rough legalizer (positions scaled to 10^8, supplies = cell
   areas below 2^31) the cumulative demands do not fit int *)
Definition ex_t1d_small : prob :=
  {| pb_u := [0; 50000000; 100000000]; pb_v := [25000000; 75000000];
     pb_s := [2000000000; 2000000000; 1500000000]; pb_d := [3000000000; 2000000000] |}.
Example t1d_int_would_overflow :
  t1d_dom ex_t1d_small /\ exists v, In (I64, v) (balance_assign_vals ex_t1d_small) /\ ~ fits (I32, v).
Proof.
  split; [apply dom_by_compute; vm_compute; reflexivity|].
  exists 5500000000. split.
  - apply in_by_compute. vm_compute. reflexivity.
  - unfold fits; cbn [fst snd]. lia.
Qed.
