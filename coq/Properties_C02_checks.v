(* C02 -- "it never fails on a circuit that legalization alone accepts": the exceptions of Circuit::placeDetailed OTHER than the
   modelled ones (constructor errors, "Cannot place the cell", lemon).  Models: InternalChecksDetailed.v (DetailedPlacement::check
   on the row lists and LINE BY LINE on the index arrays, IncrNetModel::check, DetailedPlacer::check), InternalChecksPlace.v
   (DetailedPlacer::place with every test).  Proofs: InternalChecksDetailedProofs.v, InternalChecksPlaceProofs.v.
   Tie: checks/internal_checks.py (the model's check functions against the C++ check() on the arrays the C++ holds before / after
   run() and on corrupted copies).  RowReordering::check (place_detailed.cpp:854), RowNeighbourhood::check, RowLegalizer::check
   are defined but never called by the library: nothing to prove.  Labels: [F] = all inputs of the stated domain, no size bound. *)
From Coq Require Import List ZArith QArith Lia Bool.
Import ListNotations.
Require Import CV.Params CV.CellOrder.
Require Import CV.Orient CV.FreeSpace CV.Circuit CV.Hpwl CV.HpwlProofs CV.Moves CV.MovesProofs CV.MovesConcrete CV.Optimiser CV.OptimiserProofs.
Require Import CV.Legalizer CV.LegalizerSoundProofs CV.DetailedInit CV.DetailedInitProofs CV.DetailedExport CV.DetailedValue CV.DetailedValueProofs CV.DetailedValueStepProofs.
Require Import CV.DetailedRun CV.DetailedRunCircuitProofs CV.DetailedRunShiftProofs.
Require Import CV.MovesConcreteProofs.
Require Import CV.InternalChecks CV.InternalChecksEntry CV.InternalChecksDetailed CV.InternalChecksDetailedProofs CV.InternalChecksConcreteProofs CV.InternalChecksPlace CV.InternalChecksPlaceProofs.
Local Open Scope Z_scope.

(* [F] DetailedPlacement::check on the row lists (geometry :541-570 and orientations :573-584; the pointer tests concern the
   representation of the lists) passes on every structure that satisfies the row invariant Inv of C02 and the orientation
   invariant CO = "every cell in a row has the orientation check() demands" *)
Theorem c02_placement_check_passes : forall d, Inv d -> CO d -> dp_check d = CPass.
Proof. exact dp_check_pass. Qed.

(* [F] CO is kept by EVERY primitive of the row structure -- swap, insert, unplace and the raw place (place SETS the
   orientation check() demands: no guard needed) -- and by the write of a shift pass; it holds after the constructor *)
Theorem c02_check_orientation_kept : forall s,
  CO s -> (forall o s', apply_mop s o = Some s' -> CO s') /\ (forall xs, CO (apply_shift s xs)).
Proof. exact co_kept. Qed.

Theorem c02_constructor_establishes_check_orientation : forall c d, from_circuit c = DOk d -> CO d.
Proof. exact from_circuit_co. Qed.

(* [F] IncrNetModel::check passes on every model that satisfies C09's exactness invariant (stored bounds = recomputed bounds,
   stored value = their sum) and whose nets are well formed (>= 1 pin each, every pin on an existing cell) *)
Theorem c02_incr_check_passes : forall s, IInv s -> nets_wf s -> incr_check s = CPass.
Proof. exact incr_check_pass. Qed.

(* [F] the IncrNetModel constructors: xTopology / yTopology of EVERY circuit and nets build a model that passes check() *)
Theorem c02_incr_constructors_pass_check : forall c nets,
  incr_check (ox (init_models c nets)) = CPass /\ incr_check (oy (init_models c nets)) = CPass.
Proof. exact init_models_check. Qed.

(* [F] DetailedPlacer::check (placement_.check(); xtopo_.check(); ytopo_.check(); the coupling loop) passes on every state that
   satisfies the coupling invariant PInv of C05 and CO *)
Theorem c02_placer_check_passes : forall c rh nets s, PInv c rh nets s -> CO (ps_d s) -> placer_check s = CPass.
Proof. exact placer_check_pass. Qed.

(* [F] detailed_checks_pass: for parameters accepted by check(), on every state the closed model of run() reaches -- the state
   before run(), every state exposed at a callback (after runSwaps, after runShifts, after runReordering), the final state --
   DetailedPlacer::check passes; or run() stops on the oracle (lemon's recorded answer missing / rejected by the certificate
   checker / not matching the model's call).  The C++ tests at: pl.check() before and after run() (:87, :89),
   placement_.check() at the end of runShifts (:442), check() at the end of runReordering (:895) -- all among these states *)
Theorem c02_detailed_checks_pass : forall c rh nets, std_design c rh -> forall p answers s,
  params_ok p = true -> PInv c rh nets s -> CO (ps_d s) ->
  ok_or_oracle (run_passes_c p answers s)
    (fun r => let '(s', ex, _) := r in Forall (fun e => placer_check e = CPass) (s :: ex ++ [s'])).
Proof. exact detailed_checks_pass. Qed.

(* [F] Circuit level, c = the LEGALIZED circuit accepted by the constructor: the check before run() passes; then either run()
   stops on the oracle, or every check passes and c02_place_detailed_closed_returns_legal's conclusion holds *)
Theorem c02_place_detailed_checked : forall c rh nets, std_design c rh -> legal c -> forall p answers d0,
  from_circuit c = DOk d0 -> params_ok p = true ->
  let s0 := {| ps_d := d0; ps_o := init_models c nets |} in
  placer_check s0 = CPass /\
  match run_passes_c p answers s0 with
  | ROk (s', ex, rest) =>
      Forall (fun e => placer_check e = CPass) (ex ++ [s']) /\
      place_detailed_model_c c nets p answers = ROk (write_back c (ps_d s'), map (fun st => write_back c (ps_d st)) ex, rest) /\
      legal (write_back c (ps_d s')) /\ frame c (write_back c (ps_d s')) rh /\
      Forall (fun e => legal (write_back c (ps_d e)) /\ frame c (write_back c (ps_d e)) rh) ex
  | RErr e => (e = EOracle \/ e = ERecord) /\ place_detailed_model_c c nets p answers = RErr e
  end.
Proof. exact place_detailed_checked. Qed.

(* [F on std_design of the circuit GIVEN to placeDetailed] THE restatement: DetailedPlacer::place with every test
   (InternalChecksPlace.place_entry: params.check(), legalization with its tests, constructor, check(), run(), check() at every
   exposed state) can only stop on: the parameter check (C19), a failed legalization NoRow / NotAllPlaced (C01), lemon's answer
   (oracle: EOracle / ERecord).  The callback protocol (C10) is outside the model.  Otherwise the final circuit and every circuit
   a callback sees are legal and carry the frame of the legalized circuit.  Never: a constructor error, a failed internal
   test, an out-of-bounds read of a test, a fuel error, "Cannot place the cell" *)
Theorem c02_place_detailed_only_stops : forall P c0 nets answers rh, std_design c0 rh ->
  match place_entry P c0 nets answers with
  | PlParams m => check_coloquinte P = Some m
  | PlLegalize r => check_coloquinte P = None /\
                    ((r = LcNoRow /\ legalize_real (order_params_of P) c0 = LegNoRow) \/
                     (r = LcNotAllPlaced /\ legalize_real (order_params_of P) c0 = LegNotAllPlaced))
  | PlRun e => check_coloquinte P = None /\ (e = EOracle \/ e = ERecord)
  | PlOk c' exs _ => check_coloquinte P = None /\
                     exists c, legalize_real (order_params_of P) c0 = LegOk c /\ legal c /\
                               legal c' /\ frame c c' rh /\ Forall (fun e => legal e /\ frame c e rh) exs
  | PlConstruct _ => False
  | PlCheck _ => False
  | PlUB => False
  end.
Proof. exact place_entry_outcomes. Qed.

(* [F] the LINE-BY-LINE version on the index arrays (cdp_check: the ten size tests, the first/last tests per row, the
   pred/next/row/geometry tests per cell, rowCells() + the orientation test per row; every read bounds-checked) -- the version
   the tie evaluates on the arrays of the C++ -- passes on every concrete state that is well formed in the sense of the
   refinement proof of C02 (MovesConcreteProofs.WF, kept by every operation: c02 concrete_refines_abstract) and whose
   abstraction has rows satisfying the row invariant and CO.  No out-of-bounds read, rowCells() terminates.
   (The coupling loop on the arrays, ccoupling_check, is tied but not proved against DetailedValue.coupled.) *)
Theorem c02_array_check_passes : forall cs d, WF cs -> abs cs = Some d -> Forall row_ok (d_rows d) -> CO d ->
  cdp_check cs (nb_cells cs) = CPass.
Proof. exact cdp_check_of_abs. Qed.

(* ---------- non-vacuity ---------- *)
(* the circuit of Properties_C02_run.c02_run_nonvacuous: rows [0,12]x[0,2] (N) and [0,12]x[2,4] (FS), a polarised cell, three
   other movable cells, two fixed pins, three nets *)
Definition exq : circuit :=
  {| rows := [DetailedInitProofs.mkrow 0 12 0 2 oN; DetailedInitProofs.mkrow 0 12 2 4 oFS];
     cells := [mkcell 0 0 2 2 oN pNW false true; mkcell 4 0 2 2 oN pANY false true; mkcell 1 2 2 2 oN pANY false true;
               mkcell 6 2 3 2 oN pANY false true; mkcell 11 3 0 0 oN pANY true false; mkcell 0 0 0 0 oN pANY true false] |}.
Definition exq_nets : list (list hpin) := [[hp 1 0 0; hp 4 0 0]; [hp 3 0 0; hp 5 0 0]; [hp 0 1 1; hp 2 0 0]].
Definition exq_p : dparams :=
  {| DetailedRun.dp_nbPasses := 2; DetailedRun.dp_localSearchNbNeighbours := 2; DetailedRun.dp_localSearchNbRows := 2;
     DetailedRun.dp_shiftNbRows := 3; DetailedRun.dp_shiftMaxNbCells := 0; DetailedRun.dp_reorderingNbRows := 1;
     DetailedRun.dp_reorderingMaxNbCells := 3 |}.
(* corrupted copies of a paired state: value_ of the x model + 1; cellPos_[1] of the x model + 1 (bounds and value recomputed:
   only the coupling test can see it) *)
Definition exq_bad_value (s : pstate) : pstate :=
  {| ps_d := ps_d s;
     ps_o := {| ox := incr_make (ipos (ox (ps_o s))) (inets (ox (ps_o s))) (iminmax (ox (ps_o s))) (ivalue (ox (ps_o s)) + 1);
                oy := oy (ps_o s) |} |}.
Definition exq_bad_pos (s : pstate) : pstate :=
  {| ps_d := ps_d s;
     ps_o := {| ox := incr_build (Hpwl.upd (ipos (ox (ps_o s))) 1 (nth 1 (ipos (ox (ps_o s))) 0 + 1)) (inets (ox (ps_o s)));
                oy := oy (ps_o s) |} |}.

Example c02_checks_nonvacuous :
  exists d0 s' ex,
    from_circuit exq = DOk d0 /\ params_ok exq_p = true /\
    let s0 := {| ps_d := d0; ps_o := init_models exq exq_nets |} in
    run_passes_c exq_p [] s0 = ROk (s', ex, []) /\ length ex = 4%nat /\ ps_d s' <> d0 /\
    map placer_check (s0 :: ex ++ [s']) = [CPass; CPass; CPass; CPass; CPass; CPass] /\
    placer_check (exq_bad_value s') = CFail EInValue /\
    placer_check (exq_bad_pos s') = CFail EPlX /\
    dp_check (apply_shift (ps_d s') [(0%nat, 1)]) = CFail EDpNextOverlap /\
    dp_check (apply_shift (ps_d s') [(0%nat, -1)]) = CFail EDpOutOfRow.
Proof.
  eexists _, _, _. split; [vm_compute; reflexivity|]. split; [reflexivity|]. cbn zeta.
  split; [vm_compute; reflexivity|]. split; [reflexivity|]. split; [discriminate|].
  repeat split; vm_compute; reflexivity.
Qed.

(* DetailedPlacement::check line by line on index arrays: one row [0, 10), cells 0 (x 1, width 2) and 1 (x 5, width 3) *)
Definition exq_arrays (first last pred next row x : list Z) : cstate :=
  cstate_make [crow_make 0 10 0 oN] first last [2; 3] pred next row x [0; 0] [oN; oN] [pANY; pANY].
Example c02_array_check_nonvacuous :
  cdp_check (exq_arrays [0] [1] [-1; 0] [1; -1] [0; 0] [1; 5]) 2 = CPass /\
  cdp_check (exq_arrays [0] [1] [-1; 0] [1; -1] [0; 0] [1; 5]) 3 = CFail EDpCellSize /\
  cdp_check (exq_arrays [0] [1] [-1; 0] [1; -1] [0; 0] [1; 2]) 2 = CFail EDpNextOverlap /\
  cdp_check (exq_arrays [0] [1] [-1; 0] [1; -1] [0; 0] [1; 8]) 2 = CFail EDpOutOfRow /\
  cdp_check (exq_arrays [0] [-1] [-1; 0] [1; -1] [0; 0] [1; 5]) 2 = CFail EDpFirstLast /\
  cdp_check (exq_arrays [0] [1] [-1; -1] [1; -1] [0; 0] [1; 5]) 2 = CFail EDpFirstCell /\
  cdp_check (exq_arrays [0] [1] [-1; 0] [1; -1] [0; 1] [1; 5]) 2 = CFail EDpLastRow /\
  cdp_check (exq_arrays [0] [1] [-1; 5] [1; -1] [0; 0] [1; 5]) 2 = CUB /\
  cdp_check (exq_arrays [0] [1] [-1; 0] [1; 7] [0; 0] [1; 5]) 2 = CFail EDpLastRow /\
  cdp_check (exq_arrays [2] [1] [-1; 0] [1; -1] [0; 0] [1; 5]) 2 = CUB.
Proof. repeat split; vm_compute; reflexivity. Qed.

(* the entry point on exq with the parameters of effort 3 and the detailed parameters of exq_p (no shift pass: no oracle):
   legalization, constructor, all checks, two passes -- a legal final circuit, four callback circuits; with nbPasses = -1 the
   parameter check throws; with a shift pass and no recorded answer of lemon the run stops on the oracle *)
Definition exq_dparams (passes shiftCells : Z) : DetailedParams :=
  {| Params.dp_nbPasses := passes; Params.dp_localSearchNbNeighbours := 2; Params.dp_localSearchNbRows := 2; Params.dp_shiftNbRows := 3;
     Params.dp_shiftMaxNbCells := shiftCells; Params.dp_reorderingNbRows := 1; Params.dp_reorderingMaxNbCells := 3 |}.
Example c02_place_entry_nonvacuous :
  std_design exq 2 /\
  (exists c' exs, place_entry (effort3_params 0 (exq_dparams 2 0)) exq exq_nets [] = PlOk c' exs [] /\
                  length exs = 4%nat /\ legalb c' = true /\ forallb legalb exs = true /\
                  hpwl_circuit exq exq_nets = 19 /\ hpwl_circuit c' exq_nets = 9) /\
  place_entry (effort3_params 0 (exq_dparams (-1) 0)) exq exq_nets [] = PlParams MDpPasses /\
  place_entry (effort3_params 0 (exq_dparams 2 4)) exq exq_nets [] = PlRun EOracle.
Proof.
  split.
  { split; [lia|]. split; [intros r [<-|[<-|[]]]; reflexivity|].
    split; [apply CircuitProofs.pairwise_disjointb_spec; vm_compute; reflexivity|].
    split; [intros r [<-|[<-|[]]]; reflexivity|].
    intros k Hk. vm_compute in Hk.
    repeat (destruct Hk as [<-|Hk];
            [split; [vm_compute; reflexivity|]; split; [exists 1%nat; split; [lia|vm_compute; reflexivity]|left; reflexivity]|]).
    destruct Hk. }
  split; [eexists _, _; split; [vm_compute; reflexivity|]; repeat split; vm_compute; reflexivity|].
  split; vm_compute; reflexivity.
Qed.

Print Assumptions c02_placement_check_passes.
Print Assumptions c02_check_orientation_kept.
Print Assumptions c02_constructor_establishes_check_orientation.
Print Assumptions c02_incr_check_passes.
Print Assumptions c02_incr_constructors_pass_check.
Print Assumptions c02_array_check_passes.
Print Assumptions c02_placer_check_passes.
Print Assumptions c02_detailed_checks_pass.
Print Assumptions c02_place_detailed_checked.
Print Assumptions c02_place_detailed_only_stops.
Print Assumptions c02_checks_nonvacuous.
Print Assumptions c02_array_check_nonvacuous.
Print Assumptions c02_place_entry_nonvacuous.
