(* Statements closing the proof gaps of design/review/review_C01-C05.md (composition lemmas for C01, C02, C04, C05).
   To be merged by the lead into Properties_C01.v / _C02.v / _C04.v / _C05.v (the prefix of each name says where).
   Proofs: ReviewGaps1Proofs.v; definitions of the interleaved histories and of the static F8-scope conditions:
   ReviewGaps1.v.  Every item is `exact <lemma>`; non-vacuity Examples at the end; Print Assumptions last. *)
From Coq Require Import List ZArith Lia Bool.
Import ListNotations.
Require Import CV.Orient CV.FreeSpace CV.Circuit CV.CircuitProofs CV.OrientProofs CV.Hpwl CV.Moves CV.MovesProofs CV.MovesOrientProofs.
Require Import CV.Optimiser CV.OptimiserProofs CV.ShiftLp CV.Legalizer CV.LegalizerProofs CV.LegalizerSoundProofs.
Require Import CV.DetailedInit CV.DetailedInitProofs CV.DetailedExport CV.DetailedExportProofs.
Require Import CV.DetailedValue CV.DetailedValueProofs CV.DetailedValueStepProofs CV.Reorder CV.ReorderProofs.
Require Import CV.ReviewGaps1 CV.ReviewGaps1Proofs.
Local Open Scope Z_scope.

(* ======================================================================================== *)
(* C02-1 / C02-3: legalize ; fromIspdCircuit ; constructor ; check() *)

(* [F] the domain of the C01 / C02 / C04 / C05 theorems is closed under legalization: rows untouched, every movable
   cell keeps its placed width and height (the orientation legalization writes never changes isTurn on std_design)
   and the side condition "not turned unless without polarity" *)
Theorem c02_legalization_keeps_std_design : forall c order c' rh,
  std_design c rh -> legalize_circuit c order = LegOk c' -> std_design c' rh.
Proof. exact legalize_keeps_std_design. Qed.

(* [F] what Legalizer::run writes for a cell exactly one row high, all inputs of the legalizer model (no hypothesis
   on row orientations): it lies inside ONE of the given segments and its orientation is read from THAT segment
   (for taller cells only "a segment with the same bottom y" holds: finding F19) *)
Theorem c04_legalize_rowhigh_cell_own_segment : forall rows0 cellsL order pl rh,
  0 < rh -> (forall r, In r rows0 -> maxY (rr r) - minY (rr r) = rh) ->
  Forall (fun c => 0 < cw c /\ 0 < ch c) cellsL ->
  legalize rows0 cellsL order = Ok pl ->
  forall ci c x y o, nth_error cellsL ci = Some c -> nth_error pl ci = Some (x, y, o) -> ch c = rh ->
    exists r1, In r1 rows0 /\ o = LegalizerAbacusProofs.seg_orientation c r1 /\ o <> oINVALID /\
               minY (rr r1) = y /\ minX (rr r1) <= x /\ x + cw c <= maxX (rr r1).
Proof. exact legalize_rowhigh_cell. Qed.

(* [F] the orientations legalization writes pass the orientation test of DetailedPlacement::check() -- and no kept
   cell sits on a row its polarity forbids -- on EVERY std_design circuit: neither row_orient_by_y nor "rows of
   known orientation" nor a row-high design is needed (check() only reads the cells exactly one row high) *)
Theorem c04_legalized_orientations_pass_check : forall c order c' rh,
  std_design c rh -> legalize_circuit c order = LegOk c' -> orient_pre_strong c' rh.
Proof. exact legalize_orient_pre. Qed.

(* [F] "detailed placement never fails on a circuit that legalization accepts", for fromIspdCircuit + constructor +
   check(), as a theorem about the COMPOSITION: hypothesis on the circuit given to legalization only.  The
   structure built is legal (Inv), holds every cell (d_loose = []) and satisfies the orientation invariant.
   NOT covered (validated by the ties only): exceptions of the passes themselves -- runShiftsOnCells "Could not
   solve the network flow optimally" / "cells are not unique", DetailedPlacer::check, RowReordering::check, the
   IncrNetModel constructors *)
Theorem c02_legalize_then_from_circuit : forall c order c' rh,
  std_design c rh -> legalize_circuit c order = LegOk c' ->
  std_design c' rh /\ legal c' /\
  exists s, from_circuit c' = DOk s /\ Inv s /\ d_loose s = [] /\ OInvM s.
Proof. exact legalize_then_from_circuit. Qed.

(* [F] the constructor accepts every legal std_design circuit whose kept cells pass the strong orientation test *)
Theorem c02_from_circuit_accepts_with_orientation_invariant : forall c rh,
  std_design c rh -> legal c -> orient_pre_strong c rh ->
  exists s, from_circuit c = DOk s /\ Inv s /\ d_loose s = [] /\ OInvM s.
Proof. exact from_circuit_accepts_oinv. Qed.

(* ======================================================================================== *)
(* C02-4 / C04-3: histories INTERLEAVING swaps, inserts, certified shifts and closed reordering passes
   (ReviewGaps1.gstep; GInv = PInv of C05 /\ OInvM of C04) *)

(* [F] C04 at the circuit level for ANY state: this is DetailedExportProofs.exposed_orient_ok, exported *)
Theorem c04_exposed_orient_ok : forall before c rh s,
  std_design c rh -> (forall r, In r (rows c) -> ro r <> oUNKNOWN) -> orient_ok before c ->
  Rel c rh s -> Inv s -> OInvM s -> d_loose s = [] -> orient_ok before (write_back c s).
Proof. exact exposed_orient_ok. Qed.

(* [F] every step keeps the invariant (a closed reordering pass returns: its write-back never throws); every step
   but the raw doSwap / doInsert does not increase the optimised value *)
Theorem c02_interleaved_step_keeps_invariant : forall c rh nets s g,
  std_design c rh -> GInv c rh nets s -> gstep_ok s g ->
  GInv c rh nets (gstep_run s g) /\
  (g_guarded g = true -> ovalue (ps_o (gstep_run s g)) <= ovalue (ps_o s)).
Proof. exact gstep_keeps_invariant. Qed.

Theorem c02_interleaved_history_keeps_invariant : forall c rh nets l s,
  std_design c rh -> GInv c rh nets s -> ghist_ok s l ->
  GInv c rh nets (gsteps_run s l) /\
  (forallb g_guarded l = true -> ovalue (ps_o (gsteps_run s l)) <= ovalue (ps_o s)).
Proof. exact ghist_keeps_invariant. Qed.

(* [F] what a state satisfying the invariant exposes: legal, frame (rows, sizes, polarities, flags; fixed and
   not-row-high cells identical), and orient_ok when the rows have a known orientation *)
Theorem c02_invariant_exposes_legal : forall before c rh nets s,
  std_design c rh -> legal c -> GInv c rh nets s ->
  legal (write_back c (ps_d s)) /\
  rows (write_back c (ps_d s)) = rows c /\
  Forall2 same_frame (cells c) (cells (write_back c (ps_d s))) /\
  (forall i k, nth_error (cells c) i = Some k -> (c_fixed k = true \/ placed_h k <> rh) ->
               nth_error (cells (write_back c (ps_d s))) i = Some k) /\
  ((forall r, In r (rows c) -> ro r <> oUNKNOWN) -> orient_ok before c -> orient_ok before (write_back c (ps_d s))).
Proof. exact ginv_exposes. Qed.

(* [F on the stated domain] C02 + C04 for interleaved histories, from a legal circuit with the orientations
   legalization leaves (orient_ok before c: see c04_legalize_circuit_orient_ok for when legalization gives it) *)
Theorem c02_interleaved_history_exposes_legal : forall before c rh nets,
  std_design c rh -> legal c -> orient_ok before c ->
  exists d0, from_circuit c = DOk d0 /\
    forall l, let s0 := {| ps_d := d0; ps_o := init_models c nets |} in
      ghist_ok s0 l ->
      let s := gsteps_run s0 l in
      GInv c rh nets s /\
      legal (write_back c (ps_d s)) /\
      rows (write_back c (ps_d s)) = rows c /\
      Forall2 same_frame (cells c) (cells (write_back c (ps_d s))) /\
      (forall i k, nth_error (cells c) i = Some k -> (c_fixed k = true \/ placed_h k <> rh) ->
                   nth_error (cells (write_back c (ps_d s))) i = Some k) /\
      ((forall r, In r (rows c) -> ro r <> oUNKNOWN) -> orient_ok before (write_back c (ps_d s))) /\
      (forallb g_guarded l = true -> ovalue (ps_o s) <= ovalue (ps_o s0)).
Proof. exact ghist_exposes_legal. Qed.

(* [F on the stated domain] the whole chain legalize ; fromIspdCircuit ; interleaved history, hypothesis on the
   circuit given to legalization.  Legality and the frame: std_design only.  orient_ok (ALL movable cells, the
   multi-row ones included): rows of known orientation and row_orient_by_y or a row-high design (F19 otherwise) *)
Theorem c02_legalize_then_interleaved_history : forall c order c' rh nets,
  std_design c rh -> legalize_circuit c order = LegOk c' ->
  std_design c' rh /\ legal c' /\
  exists d0, from_circuit c' = DOk d0 /\
    forall l, let s0 := {| ps_d := d0; ps_o := init_models c' nets |} in
      ghist_ok s0 l ->
      let s := gsteps_run s0 l in
      GInv c' rh nets s /\
      legal (write_back c' (ps_d s)) /\
      rows (write_back c' (ps_d s)) = rows c /\
      Forall2 same_frame (cells c') (cells (write_back c' (ps_d s))) /\
      (forall i k, nth_error (cells c') i = Some k -> (c_fixed k = true \/ placed_h k <> rh) ->
                   nth_error (cells (write_back c' (ps_d s))) i = Some k) /\
      ((forall r, In r (rows c) -> ro r <> oUNKNOWN) -> (row_orient_by_y c \/ rowhigh_design c rh) ->
       orient_ok c (write_back c' (ps_d s))) /\
      (forallb g_guarded l = true -> ovalue (ps_o s) <= ovalue (ps_o s0)).
Proof. exact legalize_then_history. Qed.

(* ======================================================================================== *)
(* C05-1: static sufficient conditions for the F8 scope *)

(* [F] under the invariant of the interleaved histories, orient_frozen follows from a condition on the circuit:
   every row the table allows a polarised kept cell on prescribes the orientation the cell already has *)
Theorem c05_prescribed_frozen_in_scope : forall c rh nets s,
  std_design c rh -> prescribed_frozen c rh -> GInv c rh nets s -> orient_frozen c (ps_d s).
Proof. exact prescribed_frozen_orient_frozen. Qed.

(* [F] special cases: no kept cell with a polarity; all rows of one known orientation *)
Theorem c05_no_polarised_kept_in_scope : forall c rh, no_polarised_kept c rh -> prescribed_frozen c rh.
Proof. exact no_polarised_frozen. Qed.

Theorem c05_one_row_orientation_in_scope : forall c rh d0 oR,
  std_design c rh -> legal c -> from_circuit c = DOk d0 -> OInvM d0 ->
  rows_one_orientation c oR -> oR <> oUNKNOWN -> prescribed_frozen c rh.
Proof. exact one_orientation_frozen. Qed.

(* [F on the stated domain] C05 on the circuits exposed by interleaved histories (closed reordering passes, no
   raw doSwap / doInsert), with NO hypothesis on reached states *)
Theorem c05_interleaved_wirelength_never_increases : forall c rh nets d0 l1 l2,
  std_design c rh -> legal c -> from_circuit c = DOk d0 -> OInvM d0 -> prescribed_frozen c rh ->
  int_pins c nets -> pins_fit c rh nets ->
  let s0 := {| ps_d := d0; ps_o := init_models c nets |} in
  ghist_ok s0 (l1 ++ l2) -> forallb g_guarded (l1 ++ l2) = true ->
  let sj := gsteps_run s0 l1 in
  let sk := gsteps_run s0 (l1 ++ l2) in
  exposed_hpwl c nets sk <= exposed_hpwl c nets sj <= hpwl_circuit c nets /\
  legal (write_back c (ps_d sj)) /\ legal (write_back c (ps_d sk)).
Proof. exact ghist_wirelength_never_increases. Qed.

(* [F] the histories of c05_exposed_wirelength_never_increases (generic PReorder: ANY leaves, written back by
   unguarded place() calls): orient_frozen at every reachable state from the stricter condition "every row of the
   circuit leaves the orientation of a polarised kept cell as it is" *)
Theorem c05_reached_states_orient_frozen : forall c rh nets d0 l,
  std_design c rh -> legal c -> from_circuit c = DOk d0 -> prescribed_frozen_all c rh ->
  let s0 := {| ps_d := d0; ps_o := init_models c nets |} in
  phist_ok s0 l -> orient_frozen c (ps_d (psteps_run s0 l)).
Proof. exact phist_orient_frozen. Qed.

(* [F on the stated domain] c05_exposed_wirelength_never_increases_static WITHOUT its two hypotheses on reached
   states *)
Theorem c05_exposed_wirelength_never_increases_input_only : forall c rh nets d0 l1 l2,
  std_design c rh -> legal c -> from_circuit c = DOk d0 -> prescribed_frozen_all c rh ->
  let s0 := {| ps_d := d0; ps_o := init_models c nets |} in
  phist_ok s0 (l1 ++ l2) ->
  let sj := psteps_run s0 l1 in
  let sk := psteps_run s0 (l1 ++ l2) in
  int_pins c nets -> pins_fit c rh nets ->
  exposed_hpwl c nets sk <= exposed_hpwl c nets sj <= hpwl_circuit c nets /\
  legal (write_back c (ps_d sj)) /\ legal (write_back c (ps_d sk)).
Proof. exact exposed_monotone_static_frozen. Qed.

Theorem c05_no_polarised_kept_in_scope_all : forall c rh, no_polarised_kept c rh -> prescribed_frozen_all c rh.
Proof. exact no_polarised_frozen_all. Qed.

(* all rows of one orientation, ANY orientation (UNKNOWN included) *)
Theorem c05_one_row_orientation_in_scope_all : forall c rh d0 oR,
  std_design c rh -> legal c -> from_circuit c = DOk d0 -> OInvM d0 ->
  rows_one_orientation c oR -> prescribed_frozen_all c rh.
Proof. exact one_orientation_frozen_all. Qed.

(* [F on the stated domain] with legalization in front: rows of one orientation, or no polarised kept cell *)
Theorem c05_legalize_then_wirelength_never_increases : forall c order c' rh nets oR,
  std_design c rh -> legalize_circuit c order = LegOk c' ->
  (rows_one_orientation c oR \/ no_polarised_kept c' rh) ->
  exists d0, from_circuit c' = DOk d0 /\
    forall l1 l2, let s0 := {| ps_d := d0; ps_o := init_models c' nets |} in
      phist_ok s0 (l1 ++ l2) -> int_pins c' nets -> pins_fit c' rh nets ->
      let sj := psteps_run s0 l1 in
      let sk := psteps_run s0 (l1 ++ l2) in
      exposed_hpwl c' nets sk <= exposed_hpwl c' nets sj <= hpwl_circuit c' nets /\
      legal (write_back c' (ps_d sj)) /\ legal (write_back c' (ps_d sk)).
Proof. exact legalize_then_wirelength. Qed.

(* ======================================================================================== *)
(* C01-9: the obstruction clause at Circuit level *)

(* [F] in a legal circuit the rectangle of every movable cell is disjoint from the rectangle of every fixed cell
   flagged as obstruction (of positive area: computeRows ignores empty rectangles); nothing but `legal c` *)
Theorem c01_legal_clear_of_fixed_obstructions : forall c k f,
  legal c -> In k (movable c) -> In f (cells c) -> c_fixed f = true -> c_obs f = true ->
  minX (placement_of f) < maxX (placement_of f) -> minY (placement_of f) < maxY (placement_of f) ->
  disjoint_rects (placement_of k) (placement_of f).
Proof. exact legal_clear_of_obstructions. Qed.

(* [F] for every obstruction, empty or not: no unit square [x,x+1) x [y,y+1) is covered by both *)
Theorem c01_legal_no_common_square : forall c k f x y,
  legal c -> In k (movable c) -> In f (cells c) -> c_fixed f = true -> c_obs f = true ->
  minX (placement_of k) <= x < maxX (placement_of k) -> minY (placement_of k) <= y < maxY (placement_of k) ->
  minX (placement_of f) <= x < maxX (placement_of f) -> minY (placement_of f) <= y < maxY (placement_of f) -> False.
Proof. exact legal_no_common_square. Qed.

(* ======================================================================================== *)
(* Non-vacuity (C04-9, C05-7): circuits with NW, SE and SAME cells.
   exg_in: rows [0,20]x[0,2] (N) and [0,20]x[2,4] (FS); a fixed obstruction [16,18]x[0,4] (four free segments:
   0 = N [0,16], 1 = N [18,20], 2 = FS [0,16], 3 = FS [18,20]); movable cells 0 NW, 1 SAME (3 wide), 2 SE, 3 SAME,
   4 NW, off the rows / with arbitrary orientations; fixed pins 6 at (19,3), 7 at (0,0).
   exg = what legalization returns for it (computed). *)
Ltac std_design_tac :=
  split; [lia|]; split; [intros r Hr; repeat (destruct Hr as [<-|Hr]; [reflexivity|]); destruct Hr|];
  split; [apply pairwise_disjointb_spec; vm_compute; reflexivity|];
  split; [intros r Hr; repeat (destruct Hr as [<-|Hr]; [reflexivity|]); destruct Hr|];
  intros k Hk; vm_compute in Hk;
  repeat (destruct Hk as [<-|Hk];
          [split; [vm_compute; reflexivity|]; split; [exists 1%nat; split; [lia|vm_compute; reflexivity]|left; reflexivity]|]);
  destruct Hk.

Definition exg_in : circuit :=
  {| rows := [mkrow 0 20 0 2 oN; mkrow 0 20 2 4 oFS];
     cells := [mkcell 1 1 2 2 oN pNW false true; mkcell 5 0 3 2 oN pSAME false true; mkcell 2 3 2 2 oN pSE false true;
               mkcell 7 2 2 2 oN pSAME false true; mkcell 11 0 2 2 oN pNW false true;
               mkcell 16 0 2 4 oN pANY true true; mkcell 19 3 0 0 oN pANY true false; mkcell 0 0 0 0 oN pANY true false] |}.
Definition exg : circuit :=
  {| rows := [mkrow 0 20 0 2 oN; mkrow 0 20 2 4 oFS];
     cells := [mkcell 1 0 2 2 oN pNW false true; mkcell 5 0 3 2 oN pSAME false true; mkcell 2 2 2 2 oFS pSE false true;
               mkcell 7 2 2 2 oFS pSAME false true; mkcell 11 0 2 2 oN pNW false true;
               mkcell 16 0 2 4 oN pANY true true; mkcell 19 3 0 0 oN pANY true false; mkcell 0 0 0 0 oN pANY true false] |}.
Definition exg_nets : list (list hpin) := [[hp 1 0 0; hp 6 0 0]; [hp 3 0 0; hp 7 0 0]; [hp 0 0 0; hp 4 0 0]].
Definition exg_order : list nat := [0; 1; 2; 3; 4]%nat.
Definition show_cells (c : circuit) : list (Z * Z * orient) := map (fun k => (c_x k, c_y k, c_o k)) (cells c).
Definition show_rows (d : dstate) : list (list (nat * Z * orient)) :=
  map (fun r => map (fun c => (p_id c, p_x c, p_o c)) (dr_cells r)) (d_rows d).

Example exg_in_std : std_design exg_in 2.
Proof. std_design_tac. Qed.
Example exg_std : std_design exg 2.
Proof. std_design_tac. Qed.

(* the history: bestSwap of the two SAME cells across the rows (accepted: 3 becomes N, 1 becomes FS, value 38 -> 30);
   doInsert of the NW cell 0 into an FS segment and of the SE cell 2 into an N segment (both refused by the polarity
   test of canInsert); doSwap of the two NW cells (accepted, value 30 -> 29); one closed reordering pass over all five
   cells (two regions, 15 leaves evaluated, value 29 -> 22: everything is packed to the left, NW cells stay on the N
   row, the SE cell on the FS row) *)
Definition exg_hist : list gstep :=
  [GBest [MSwap 1 3]; GDo (MInsert 0 2 None); GDo (MInsert 2 0 None); GDo (MSwap 0 4); GReorder [0; 3; 4; 1; 2]%nat].

(* non-vacuity of c02_legalization_keeps_std_design, c02_legalize_then_from_circuit,
   c02_legalize_then_interleaved_history (every hypothesis, the orient_ok ones included), c04_legalized_orientations_pass_check *)
Example gaps1_chain_nonvacuous :
  std_design exg_in 2 /\ (forall r, In r (rows exg_in) -> ro r <> oUNKNOWN) /\ row_orient_by_y exg_in /\
  legalize_circuit exg_in exg_order = LegOk exg /\
  show_cells exg = [(1, 0, oN); (5, 0, oN); (2, 2, oFS); (7, 2, oFS); (11, 0, oN); (16, 0, oN); (19, 3, oN); (0, 0, oN)] /\
  exists d0, from_circuit exg = DOk d0 /\ oinvb d0 = true /\
    let s0 := {| ps_d := d0; ps_o := init_models exg exg_nets |} in
    let s := gsteps_run s0 exg_hist in
    ghist_ok s0 exg_hist /\
    show_rows d0 = [[(0%nat, 1, oN); (1%nat, 5, oN); (4%nat, 11, oN)]; []; [(2%nat, 2, oFS); (3%nat, 7, oFS)]; []] /\
    show_rows (ps_d s) = [[(3%nat, 0, oN); (0%nat, 2, oN); (4%nat, 4, oN)]; []; [(2%nat, 0, oFS); (1%nat, 2, oFS)]; []] /\
    show_cells (write_back exg (ps_d s)) =
      [(2, 0, oN); (2, 2, oFS); (0, 2, oFS); (0, 0, oN); (4, 0, oN); (16, 0, oN); (19, 3, oN); (0, 0, oN)] /\
    ovalue (ps_o s0) = 38 /\ ovalue (ps_o s) = 22 /\
    legalb (write_back exg (ps_d s)) = true /\ orient_okb exg_in (write_back exg (ps_d s)) = true.
Proof.
  split; [exact exg_in_std|].
  split; [intros r [<-|[<-|[]]]; discriminate|].
  split; [intros r r' [<-|[<-|[]]] [<-|[<-|[]]]; cbn; intros E; try reflexivity; discriminate E|].
  split; [vm_compute; reflexivity|]. split; [reflexivity|].
  eexists. split; [vm_compute; reflexivity|]. split; [vm_compute; reflexivity|]. cbn zeta.
  split.
  { cbn [exg_hist ghist_ok gstep_ok]. split; [reflexivity|]. split; [reflexivity|]. split; [reflexivity|].
    split; [reflexivity|]. split; [|exact I]. split.
    - repeat constructor; cbn; intuition discriminate.
    - intros x [<-|[<-|[<-|[<-|[<-|[]]]]]]; vm_compute; reflexivity. }
  vm_compute. repeat split; reflexivity.
Qed.

(* non-vacuity of c04_write_back_orient_ok and c04_write_back_orient_ok_optimiser_moves (Properties_C04.v) with NW / SE /
   SAME cells: on exg, the history swap(1,3) [SAME cells across rows], insert(0 -> FS segment) and insert(2 -> N segment)
   [refused], a shift of cell 4, swap(0,4) [two NW cells], then -- for the first theorem only -- the raw
   unplace(0) ; place(0, segment 1 = N [18,20], x = 18), which dhist_allowed accepts (NW on an N row).  The exposed
   circuit is computed and satisfies orient_okb against the circuit given to legalization.  Also non-vacuity of
   c01_legal_clear_of_fixed_obstructions: exg is legal, cell 5 is a fixed obstruction of positive area. *)
Definition exg_ops_closed : list dop :=
  [DMop (MSwap 1 3); DMop (MInsert 0 2 None); DMop (MInsert 2 0 None); DShift [(4%nat, 12)]; DMop (MSwap 0 4)].
Definition exg_ops : list dop := exg_ops_closed ++ [DMop (MUnplace 0); DMop (MPlace 0 1 None 18)].

Example c04_write_back_orient_ok_nonvacuous :
  std_design exg 2 /\ (forall r, In r (rows exg) -> ro r <> oUNKNOWN) /\ legal exg /\ orient_ok exg_in exg /\
  (exists f, nth_error (cells exg) 5 = Some f /\ c_fixed f = true /\ c_obs f = true /\
             minX (placement_of f) < maxX (placement_of f) /\ minY (placement_of f) < maxY (placement_of f)) /\
  exists s, from_circuit exg = DOk s /\
    forallb closed_dop exg_ops_closed = true /\ dshifts_ok s exg_ops_closed /\
    dshifts_ok s exg_ops /\ dhist_allowed s exg_ops /\ d_loose (run_dops s exg_ops) = [] /\
    show_cells (write_back exg (run_dops s exg_ops_closed)) =
      [(11, 0, oN); (8, 2, oFS); (2, 2, oFS); (6, 0, oN); (2, 0, oN); (16, 0, oN); (19, 3, oN); (0, 0, oN)] /\
    show_cells (write_back exg (run_dops s exg_ops)) =
      [(18, 0, oN); (8, 2, oFS); (2, 2, oFS); (6, 0, oN); (2, 0, oN); (16, 0, oN); (19, 3, oN); (0, 0, oN)] /\
    orient_okb exg_in (write_back exg (run_dops s exg_ops_closed)) = true /\
    orient_okb exg_in (write_back exg (run_dops s exg_ops)) = true /\
    legalb (write_back exg (run_dops s exg_ops)) = true.
Proof.
  split; [exact exg_std|]. split; [intros r [<-|[<-|[]]]; discriminate|].
  split; [apply legalb_correct; vm_compute; reflexivity|].
  split; [apply orient_okb_correct; vm_compute; reflexivity|].
  split; [eexists; split; [reflexivity|]; vm_compute; repeat split; reflexivity|].
  eexists. split; [vm_compute; reflexivity|]. split; [reflexivity|].
  split; [vm_compute; repeat split; reflexivity|]. split; [vm_compute; repeat split; reflexivity|].
  split; [vm_compute; repeat split; reflexivity|].
  vm_compute. repeat split; reflexivity.
Qed.

(* non-vacuity of the closed-pass theorems c02_closed_reordering_exposes_legal / c02_closed_reordering_keeps_orientation
   (Properties_C02.v) with NW / SE / SAME cells: one pass on exg over all five cells from the initial state: 15 leaves,
   value 38 -> 22, the two SAME cells exchange rows (and orientations), NW cells stay on N, the SE cell on FS *)
Example c02_closed_reordering_polarised_nonvacuous :
  std_design exg 2 /\ legal exg /\
  exists d0, from_circuit exg = DOk d0 /\
    let s0 := {| ps_d := d0; ps_o := init_models exg exg_nets |} in
    let w := [0; 1; 4; 3; 2]%nat in
    PInv exg 2 exg_nets s0 /\ OInvM d0 /\ NoDup w /\ (forall x, In x w -> held d0 x = true) /\
    exists s', run s0 w = Some (s', 15%nat) /\ ovalue (ps_o s0) = 38 /\ ovalue (ps_o s') = 22 /\
      show_rows (ps_d s') = [[(3%nat, 0, oN); (0%nat, 2, oN); (4%nat, 4, oN)]; []; [(2%nat, 0, oFS); (1%nat, 2, oFS)]; []] /\
      oinvb (ps_d s') = true /\ legalb (write_back exg (ps_d s')) = true /\
      orient_okb exg_in (write_back exg (ps_d s')) = true.
Proof.
  split; [exact exg_std|]. assert (HL : legal exg) by (apply legalb_correct; vm_compute; reflexivity). split; [exact HL|].
  eexists. split; [vm_compute; reflexivity|]. cbn zeta.
  split; [apply init_PInv; [exact exg_std|exact HL|vm_compute; reflexivity]|].
  split; [apply oinvb_spec; vm_compute; reflexivity|].
  split; [repeat constructor; cbn; intuition discriminate|].
  split; [intros x [<-|[<-|[<-|[<-|[<-|[]]]]]]; vm_compute; reflexivity|].
  eexists. split; [vm_compute; reflexivity|]. vm_compute. repeat split; reflexivity.
Qed.

(* non-vacuity of c05_reordering_decreases (Properties_C05.v): three cells at x = 0, 10, 20 on one line, nets {0,1}, {1,2},
   value 20; reordering cells 0 and 2 with a worse leaf (35) and a better one (4): the better one is written back;
   with the worse leaf alone nothing changes *)
Definition exr_state : ostate :=
  {| ox := incr_build [0; 10; 20] [[(0%nat, 0); (1%nat, 0)]; [(1%nat, 0); (2%nat, 0)]];
     oy := incr_build [0; 0; 0] [[(0%nat, 0); (1%nat, 0)]; [(1%nat, 0); (2%nat, 0)]] |}.
Definition exr_worse : list pmove := [(0%nat, (-5, 0)); (2%nat, (30, 0))].
Definition exr_better : list pmove := [(2%nat, (12, 0)); (0%nat, (8, 0))].
Example c05_reordering_decreases_nonvacuous :
  OInv exr_state /\ Forall (leaf_ok [0; 2]%nat) [exr_worse; exr_better] /\ ovalue exr_state = 20 /\
  (let r := reorder exr_state [0; 2]%nat [exr_worse; exr_better] in
   snd r = true /\ ovalue (fst r) = 4 /\ cur_pos (fst r) 0 = (8, 0) /\ cur_pos (fst r) 2 = (12, 0)) /\
  (let r := reorder exr_state [0; 2]%nat [exr_worse] in
   snd r = false /\ ovalue (fst r) = 20 /\ cur_pos (fst r) 0 = (0, 0) /\ cur_pos (fst r) 2 = (20, 0)).
Proof.
  split; [split; apply HpwlProofs.build_inv|].
  split; [constructor; [|constructor; [|constructor]]; intros j; cbn; intuition|].
  vm_compute. repeat split; reflexivity.
Qed.

(* non-vacuity of c05_interleaved_wirelength_never_increases / c05_prescribed_frozen_in_scope: POLARISED cells inside the
   static F8 scope.  exf: rows N / FS / N; cells 0 NW at (2,0), 1 NW at (10,4), 2 SE at (4,2), 3 without polarity at
   (8,0); pins 4 at (12,5), 5 at (0,0); nets {0, 4}, {1, 5}, {2, 3}.  prescribed_frozen holds (an NW cell is N on every
   row that allows it, the FS row forbids it; dually for SE) while the circuit HAS polarised kept cells and rows of two
   orientations.  History: bestSwap(0,1) across rows 0 and 2 -- accepted, 37 -> 15 --, then a closed reordering pass on
   the window {1, 3} -- one leaf, 15 -> 14.  Circuit::hpwl of the exposed circuits = the optimised values. *)
Definition exf : circuit :=
  {| rows := [mkrow 0 20 0 2 oN; mkrow 0 20 2 4 oFS; mkrow 0 20 4 6 oN];
     cells := [mkcell 2 0 2 2 oN pNW false true; mkcell 10 4 2 2 oN pNW false true; mkcell 4 2 2 2 oFS pSE false true;
               mkcell 8 0 2 2 oN pANY false true; mkcell 12 5 0 0 oN pANY true false; mkcell 0 0 0 0 oN pANY true false] |}.
Definition exf_nets : list (list hpin) := [[hp 0 0 0; hp 4 0 0]; [hp 1 0 0; hp 5 0 0]; [hp 2 0 0; hp 3 0 0]].
Definition exf_l1 : list gstep := [GBest [MSwap 0 1; MInsert 0 1 None]].
Definition exf_l2 : list gstep := [GReorder [1; 3]%nat].

Example exf_std : std_design exf 2.
Proof. std_design_tac. Qed.

Example exf_prescribed_frozen : prescribed_frozen exf 2 /\ ~ no_polarised_kept exf 2.
Proof.
  split.
  - intros k r Hk Kk Hpol Hr. vm_compute in Hk.
    repeat (destruct Hk as [<-|Hk];
      [try (exfalso; apply Hpol; reflexivity); try (destruct Kk as [Fx _]; discriminate Fx);
       destruct Hr as [<-|[<-|[<-|[]]]]; first [left; reflexivity|right; split; [reflexivity|discriminate]]|]).
    destruct Hk.
  - intros H. specialize (H (mkcell 2 0 2 2 oN pNW false true) (or_introl eq_refl) (conj eq_refl eq_refl)). discriminate H.
Qed.

Example c05_interleaved_wirelength_nonvacuous :
  std_design exf 2 /\ legal exf /\ prescribed_frozen exf 2 /\ int_pins exf exf_nets /\ pins_fit exf 2 exf_nets /\
  exists d0, from_circuit exf = DOk d0 /\ OInvM d0 /\
    let s0 := {| ps_d := d0; ps_o := init_models exf exf_nets |} in
    let sj := gsteps_run s0 exf_l1 in
    let sk := gsteps_run s0 (exf_l1 ++ exf_l2) in
    ghist_ok s0 (exf_l1 ++ exf_l2) /\ forallb g_guarded (exf_l1 ++ exf_l2) = true /\
    show_rows (ps_d sj) = [[(1%nat, 3, oN); (3%nat, 8, oN)]; [(2%nat, 4, oFS)]; [(0%nat, 9, oN)]] /\
    show_rows (ps_d sk) = [[(3%nat, 0, oN); (1%nat, 2, oN)]; [(2%nat, 4, oFS)]; [(0%nat, 9, oN)]] /\
    hpwl_circuit exf exf_nets = 37 /\ exposed_hpwl exf exf_nets sj = 15 /\ exposed_hpwl exf exf_nets sk = 14 /\
    ovalue (ps_o s0) = 37 /\ ovalue (ps_o sj) = 15 /\ ovalue (ps_o sk) = 14.
Proof.
  split; [exact exf_std|]. split; [apply legalb_correct; vm_compute; reflexivity|].
  split; [exact (proj1 exf_prescribed_frozen)|].
  split; [apply int_pinsb_sound; vm_compute; reflexivity|].
  split.
  { intros net p k r Hn Hp Hk Fx Hh Hr.
    destruct Hn as [<-|[<-|[<-|[]]]]; destruct Hp as [<-|[<-|[]]]; vm_compute in Hk; injection Hk as <-; try discriminate Fx;
      destruct Hr as [<-|[<-|[<-|[]]]]; vm_compute; repeat split; discriminate. }
  eexists. split; [vm_compute; reflexivity|]. split; [apply oinvb_spec; vm_compute; reflexivity|]. cbn zeta.
  split.
  { cbn [app exf_l1 exf_l2 ghist_ok gstep_ok]. split; [reflexivity|]. split; [|exact I]. split.
    - repeat constructor; cbn; intuition discriminate.
    - intros x [<-|[<-|[]]]; vm_compute; reflexivity. }
  split; [reflexivity|]. vm_compute. repeat split; reflexivity.
Qed.

(* non-vacuity of c05_exposed_wirelength_never_increases_input_only / c05_one_row_orientation_in_scope_all: rows of ONE
   orientation (N, N) with SAME, NW and OPPOSITE cells (the OPPOSITE one is FS on every row).  History of
   DetailedValue.pstep: bestSwap(0,1) across the rows (32 -> 13), bestInsert(2, row 1, after 0) (13 -> 9) *)
Definition exn : circuit :=
  {| rows := [mkrow 0 20 0 2 oN; mkrow 0 20 2 4 oN];
     cells := [mkcell 2 0 2 2 oN pSAME false true; mkcell 10 2 2 2 oN pNW false true; mkcell 6 0 2 2 oFS pOPPOSITE false true;
               mkcell 12 3 0 0 oN pANY true false; mkcell 0 0 0 0 oN pANY true false] |}.
Definition exn_nets : list (list hpin) := [[hp 0 0 0; hp 3 0 0]; [hp 1 0 0; hp 4 0 0]; [hp 2 1 1; hp 3 0 0]].
Definition exn_l1 : list pstep := [PBest [MSwap 0 1]].
Definition exn_l2 : list pstep := [PBest [MInsert 2 1 (Some 0%nat)]].

Example exn_std : std_design exn 2.
Proof. std_design_tac. Qed.

Example c05_input_only_nonvacuous :
  std_design exn 2 /\ legal exn /\ rows_one_orientation exn oN /\ int_pins exn exn_nets /\ pins_fit exn 2 exn_nets /\
  exists d0, from_circuit exn = DOk d0 /\ OInvM d0 /\ prescribed_frozen_all exn 2 /\
    let s0 := {| ps_d := d0; ps_o := init_models exn exn_nets |} in
    let sj := psteps_run s0 exn_l1 in
    let sk := psteps_run s0 (exn_l1 ++ exn_l2) in
    phist_ok s0 (exn_l1 ++ exn_l2) /\
    show_rows (ps_d sj) = [[(1%nat, 2, oN); (2%nat, 6, oFS)]; [(0%nat, 9, oN)]] /\
    show_rows (ps_d sk) = [[(1%nat, 2, oN)]; [(0%nat, 9, oN); (2%nat, 14, oFS)]] /\
    hpwl_circuit exn exn_nets = 32 /\ exposed_hpwl exn exn_nets sj = 13 /\ exposed_hpwl exn exn_nets sk = 9 /\
    ovalue (ps_o sj) = 13 /\ ovalue (ps_o sk) = 9.
Proof.
  assert (HL : legal exn) by (apply legalb_correct; vm_compute; reflexivity).
  assert (H1 : rows_one_orientation exn oN) by (intros r [<-|[<-|[]]]; reflexivity).
  split; [exact exn_std|]. split; [exact HL|]. split; [exact H1|].
  split; [apply int_pinsb_sound; vm_compute; reflexivity|].
  split.
  { intros net p k r Hn Hp Hk Fx Hh Hr.
    destruct Hn as [<-|[<-|[<-|[]]]]; destruct Hp as [<-|[<-|[]]]; vm_compute in Hk; injection Hk as <-; try discriminate Fx;
      destruct Hr as [<-|[<-|[]]]; vm_compute; repeat split; discriminate. }
  eexists. split; [vm_compute; reflexivity|].
  match goal with |- OInvM ?d /\ _ => assert (HO : OInvM d) by (apply oinvb_spec; vm_compute; reflexivity) end.
  split; [exact HO|].
  split; [eapply (c05_one_row_orientation_in_scope_all exn 2 _ oN exn_std HL); [vm_compute; reflexivity|exact HO|exact H1]|].
  cbn zeta. split; [cbn [app exn_l1 exn_l2 phist_ok pstep_ok]; repeat split; reflexivity|].
  vm_compute. repeat split; reflexivity.
Qed.

Print Assumptions c02_legalization_keeps_std_design.
Print Assumptions c04_legalize_rowhigh_cell_own_segment.
Print Assumptions c04_legalized_orientations_pass_check.
Print Assumptions c02_legalize_then_from_circuit.
Print Assumptions c02_from_circuit_accepts_with_orientation_invariant.
Print Assumptions c04_exposed_orient_ok.
Print Assumptions c02_interleaved_step_keeps_invariant.
Print Assumptions c02_interleaved_history_keeps_invariant.
Print Assumptions c02_invariant_exposes_legal.
Print Assumptions c02_interleaved_history_exposes_legal.
Print Assumptions c02_legalize_then_interleaved_history.
Print Assumptions c05_prescribed_frozen_in_scope.
Print Assumptions c05_no_polarised_kept_in_scope.
Print Assumptions c05_one_row_orientation_in_scope.
Print Assumptions c05_interleaved_wirelength_never_increases.
Print Assumptions c05_reached_states_orient_frozen.
Print Assumptions c05_exposed_wirelength_never_increases_input_only.
Print Assumptions c05_no_polarised_kept_in_scope_all.
Print Assumptions c05_one_row_orientation_in_scope_all.
Print Assumptions c05_legalize_then_wirelength_never_increases.
Print Assumptions c01_legal_clear_of_fixed_obstructions.
Print Assumptions c01_legal_no_common_square.
