(* C05 / C02 -- the CLOSED reordering pass: Reorder.run (regions, region choice, orderings, write-back, all modelled)
   is an instance of the paired step  PReorder cells leaves  of DetailedValue.v with
   cells = cells_ (the registered cells, sorted with std::greater) and leaves = Reorder.leaves_of, it satisfies
   pstep_ok (in particular: the write-back of the retained leaf is accepted by the row structure, place() does not
   throw, no cell stays unplaced), and it evaluates exactly length leaves leaves. *)
From Coq Require Import List ZArith Lia Bool Permutation.
Import ListNotations.
Require Import CV.Orient CV.FreeSpace CV.Circuit CV.Hpwl CV.HpwlProofs CV.Moves CV.MovesProofs CV.MovesOrientProofs.
Require Import CV.Optimiser CV.OptimiserProofs CV.ShiftLp CV.ShiftLpProofs.
Require Import CV.LegalizerSoundProofs CV.DetailedInit CV.DetailedExport CV.DetailedExportProofs.
Require Import CV.DetailedValue CV.DetailedValueProofs CV.DetailedValueStepProofs.
Require Import CV.Reorder CV.ReorderGeomProofs CV.ReorderEnumProofs CV.ReorderSearchProofs.
Local Open Scope Z_scope.

(* ---------- two model states with the same nets and positions are the same state ---------- *)
Lemma incr_ext a b : IInv a -> IInv b -> inets a = inets b -> ipos a = ipos b -> a = b.
Proof.
  destruct a as [pa na ma va], b as [pb nb mb vb]. unfold IInv. cbn [ipos inets iminmax ivalue].
  intros [A1 A2] [B1 B2] -> ->. subst ma mb va vb. reflexivity.
Qed.
Lemma ostate_ext a b : OInv a -> OInv b -> same_nets a b -> same_pos a b -> a = b.
Proof.
  destruct a as [xa ya], b as [xb yb]. unfold OInv, same_nets, same_pos. cbn [ox oy].
  intros [A1 A2] [B1 B2] [N1 N2] [P1 P2]. f_equal; apply incr_ext; assumption.
Qed.

(* two states that agree outside the window become EQUAL once every window cell is written *)
Lemma set_many_same Wl o0 s t ms : OInv o0 -> Base o0 Wl s -> Base o0 Wl t -> (forall j, In j Wl -> In j (map fst ms)) ->
  set_many s ms = set_many t ms.
Proof.
  intros H0 (Hs & Ns & As) (Ht & Nt & At) Hc.
  assert (SN : same_nets s t) by (destruct Ns, Nt; split; congruence).
  assert (AG : agree_outside Wl s t).
  { destruct As as (L1 & L2 & A), At as (L3 & L4 & B). split; [congruence|]. split; [congruence|].
    intros j Hj. destruct (A j Hj), (B j Hj). split; congruence. }
  destruct (set_many_cover Wl s t ms Hs Ht SN AG Hc) as [SP _].
  destruct (set_many_spec ms s Hs) as (I1 & M1 & _). destruct (set_many_spec ms t Ht) as (I2 & M2 & _).
  apply ostate_ext; [exact I1|exact I2| |exact SP]. destruct M1, M2, SN. split; congruence.
Qed.

Lemma base_refl Wl o : OInv o -> Base o Wl o.
Proof. intros H. split; [exact H|]. split; [split; reflexivity|]. split; [reflexivity|]. split; [reflexivity|intros; split; reflexivity]. Qed.

(* ---------- the scan of PReorder against the scan from the original models ---------- *)
Lemma prscan_ascan d o0 Wl leaves : OInv o0 ->
  Forall (fun leaf => forall j, In j (leaf_cells leaf) <-> In j Wl) leaves ->
  forall o bv b n, Base o0 Wl o ->
  let r := fold_left (fun (acc : ostate * Z * option (list placement)) leaf =>
     let s1 := set_many (fst (fst acc)) (leaf_moves d leaf) in
     if ovalue s1 <? snd (fst acc) then (s1, ovalue s1, Some leaf) else (s1, snd (fst acc), snd acc)) leaves (o, bv, b) in
  (snd (fst r), snd r, (n + length leaves)%nat) = fold_left (astep d o0) leaves (bv, b, n) /\ Base o0 Wl (fst (fst r)).
Proof.
  intros H0 HF. induction HF as [|leaf leaves Hl _ IH]; intros o bv b n HB; cbn zeta; cbn [fold_left fst snd length].
  - rewrite Nat.add_0_r. split; [reflexivity|exact HB].
  - assert (Hc : forall j, In j Wl -> In j (map fst (leaf_moves d leaf))) by (intros j Hj; rewrite fst_leaf_moves; apply Hl; exact Hj).
    assert (E : set_many o (leaf_moves d leaf) = set_many o0 (leaf_moves d leaf)) by (apply (set_many_same Wl o0); [exact H0|exact HB|apply base_refl; exact H0|exact Hc]).
    assert (HB1 : Base o0 Wl (set_many o (leaf_moves d leaf))).
    { destruct HB as (Ho & No & Ao). destruct (set_many_spec (leaf_moves d leaf) o Ho) as (I1 & M1 & _).
      split; [exact I1|]. split; [destruct M1, No; split; congruence|].
      eapply agree_trans; [apply set_many_agree; [exact Ho|intros j Hj; rewrite fst_leaf_moves in Hj; apply Hl; exact Hj]|exact Ao]. }
    unfold astep at 2. cbn [fst snd]. rewrite <- E.
    replace (n + S (length leaves))%nat with (S n + length leaves)%nat by lia.
    destruct (ovalue (set_many o (leaf_moves d leaf)) <? bv); apply IH; exact HB1.
Qed.

Lemma astep_fold_in d o0 leaves : forall bv b n leaf,
  snd (fst (fold_left (astep d o0) leaves (bv, b, n))) = Some leaf -> In leaf leaves \/ b = Some leaf.
Proof.
  induction leaves as [|l t IH]; intros bv b n leaf; cbn [fold_left]; [intros H; right; exact H|].
  unfold astep at 2. cbn [fst snd]. destruct (_ <? bv); intros H; apply IH in H as [H|H].
  - left; right; exact H.
  - left; left; congruence.
  - left; right; exact H.
  - right; exact H.
Qed.

(* ---------- small facts ---------- *)
Lemma regions_of_some d cs : forall todo, (forall x, In x todo -> held d x = true) -> exists rgs, regions_of d cs todo = Some rgs.
Proof.
  induction todo as [|c t IH]; intros H; [exists []; reflexivity|]. cbn [regions_of].
  destruct IH as [rs R]; [intros x Hx; apply H; right; exact Hx|]. rewrite R.
  specialize (H c (or_introl eq_refl)). unfold held, pos_in in H. unfold add_cell.
  destruct (find_row (d_rows d) c 0) as [[[[[i r] a] m] b]|]; [|discriminate].
  destruct (opt_mem (pred_of a) cs); eexists; reflexivity.
Qed.

Lemma moves_at_saved c d o : coupled c d o -> forall cl, (forall x, In x cl -> held d x = true) -> moves_at d cl = Some (saved o cl).
Proof.
  intros (_ & _ & _ & _ & HC & _). induction cl as [|x t IH]; intros H; [reflexivity|]. cbn [moves_at saved map].
  pose proof (H x (or_introl eq_refl)) as Hx. unfold held in Hx. destruct (pos_in d x) as [[px py]|] eqn:P; [|discriminate].
  rewrite (IH (fun y Hy => H y (or_intror Hy))). rewrite (HC x px py P). reflexivity.
Qed.

Lemma combine_nils_empty {A} (gs : list region) (l : list A) g x : In (g, x) (combine gs (map (fun _ => @nil nat) l)) -> x = [].
Proof. intros H. apply in_combine_r in H. apply in_map_iff in H as (? & E & _). symmetry. exact E. Qed.

(* ---------- the closed pass ---------- *)
Theorem run_is_preorder c rh nets s cs :
  PInv c rh nets s -> NoDup cs -> (forall x, In x cs -> held (ps_d s) x = true) ->
  exists rgs, regions_of (ps_d s) cs cs = Some rgs /\
    let cells := rev (sort_asc (map p_id (registered rgs))) in
    let leaves := leaves_of (ps_d s) rgs in
    pstep_ok s (PReorder cells leaves) /\
    run s cs = Some (preorder s cells leaves, length leaves).
Proof.
  intros (HR & HI & Hl & ND & HO & HN & HC) NDc Hh. destruct s as [d o]. cbn [ps_d ps_o] in *.
  destruct (regions_of_some d cs cs Hh) as [rgs R]. exists rgs. split; [exact R|]. cbn zeta.
  assert (Hcs : forall x, In x cs -> mem x cs = true) by (intros x Hx; apply mem_in; exact Hx).
  destruct (regions_of_spec d cs cs rgs Hcs NDc R) as (F & NF & _).
  set (W := map p_id (registered rgs)). set (cells := rev (sort_asc W)). set (leaves := leaves_of d rgs).
  assert (PS : Permutation W (sort_asc W)) by apply sort_asc_perm.
  assert (PW : Permutation W cells) by (eapply perm_trans; [exact PS|apply Permutation_rev]).
  pose proof (registered_nodup d cs rgs ND F NF) as NDW. fold W in NDW.
  assert (Hheld : forall x, In x cells -> held d x = true).
  { intros x Hx. apply (Permutation_in _ (Permutation_sym PW)) in Hx. apply in_map_iff in Hx as (z & <- & Hz).
    destruct (registered_in_rows d cs rgs z F Hz) as (r & Hr & Hin). unfold held. rewrite (entry_pos d r z ND Hr Hin). reflexivity. }
  assert (HLv : forall leaf, In leaf leaves -> NoDup (leaf_cells leaf) /\ (forall j, In j (leaf_cells leaf) <-> In j cells) /\
                 exists d', wb d cells leaf = Some d' /\ d_loose d' = []).
  { intros leaf Hin. destruct (leaves_shape d rgs leaf Hin) as (gps & -> & Eg & Pm & FW). fold W in Pm.
    rewrite leaf_cells_of. split; [eapply Permutation_NoDup; [apply Permutation_sym; exact Pm|exact NDW]|]. split.
    - intros j. split; intros H.
      + apply (Permutation_in _ PW). apply (Permutation_in _ Pm). exact H.
      + apply (Permutation_in _ (Permutation_sym Pm)). apply (Permutation_in _ (Permutation_sym PW)). exact H.
    - apply (wb_accepts d cs rgs gps HI ND Hl NDc R Eg Pm). eapply Forall_impl; [|exact FW]. intros gp [H _]. exact H. }
  assert (Hb : forall x, In x cells -> (x < length (ipos (ox o)))%nat /\ (x < length (ipos (oy o)))%nat).
  { intros x Hx. destruct HC as (L1 & L2 & _). rewrite L1, L2. pose proof (held_lt c rh d x HR (held_true d x (Hheld x Hx))). lia. }
  set (st0 := {| ss_o := o; ss_best := ovalue o; ss_leaf := None; ss_n := 0 |}).
  destruct (region_choice_sim d o cells HO Hb (map fst rgs) (sort_asc W) (map (fun _ => []) rgs) st0) as (T & B & _).
  { apply base_refl. exact HO. }
  { rewrite concat_nils. cbn [app]. eapply Permutation_NoDup; [exact PS|exact NDW]. }
  { intros j. rewrite concat_nils. cbn [app]. unfold cells. rewrite <- in_rev. tauto. }
  { rewrite !map_length. reflexivity. }
  { intros g l x H1 H2. rewrite (combine_nils_empty _ _ _ _ H1) in H2. destruct H2. }
  cbn zeta in T, B. change (region_choice d (map fst rgs) (sort_asc W) (map (fun _ => []) rgs) st0) with (search d o rgs) in T, B.
  change (choice_leaves d (map fst rgs) (sort_asc W) (map (fun _ => []) rgs)) with leaves in T.
  assert (HFl : Forall (fun leaf => forall j, In j (leaf_cells leaf) <-> In j cells) leaves) by (apply Forall_forall; intros leaf Hin; apply HLv; exact Hin).
  destruct (prscan_ascan d o cells leaves HO HFl o (ovalue o) None 0%nat (base_refl cells o HO)) as (Ts & Bs). cbn zeta in Ts, Bs.
  change (fold_left _ leaves (o, ovalue o, None)) with (prscan d o leaves) in Ts, Bs.
  destruct (prscan d o leaves) as [[o' bv] b] eqn:PSc. cbn [fst snd] in Ts, Bs.
  unfold triple in T. cbn [st0 ss_best ss_leaf ss_n] in T. rewrite <- Ts in T. injection T as Tb Tl Tn. cbn [Nat.add] in Tn.
  assert (Hbl : forall leaf, b = Some leaf -> In leaf leaves).
  { intros leaf ->. symmetry in Ts. pose proof (astep_fold_in d o leaves (ovalue o) None 0%nat leaf) as A. rewrite Ts in A. cbn [fst snd] in A.
    destruct (A eq_refl) as [H|H]; [exact H|discriminate]. }
  split.
  - cbn [pstep_ok ps_d ps_o]. split; [apply forallb_forall; exact Hheld|]. split; [exact HFl|]. rewrite PSc.
    destruct b as [leaf|]; [|exact I]. apply HLv. apply Hbl. reflexivity.
  - unfold run, preorder. cbn [ps_d ps_o]. rewrite R, PSc. fold W. fold cells. rewrite Tl, Tn.
    destruct b as [leaf|].
    + destruct (HLv leaf (Hbl leaf eq_refl)) as (_ & Hcv & d' & Wb & _). rewrite Wb. f_equal. f_equal. f_equal.
      apply (set_many_same cells o); [exact HO|exact B|exact Bs|]. intros j Hj. rewrite fst_leaf_moves. apply Hcv. exact Hj.
    + rewrite (moves_at_saved c d o HC cells Hheld). f_equal. f_equal. f_equal.
      apply (set_many_same cells o); [exact HO|exact B|exact Bs|]. intros j Hj. unfold saved. rewrite map_map. cbn [fst]. rewrite map_id. exact Hj.
Qed.

(* the closed pass keeps the coupling invariant (legal rows, no cell unplaced, models = positions of the structure),
   never throws, and does not increase the optimised value *)
Theorem run_keeps_invariant c rh nets s cs :
  std_design c rh -> PInv c rh nets s -> NoDup cs -> (forall x, In x cs -> held (ps_d s) x = true) ->
  exists s' n, run s cs = Some (s', n) /\ PInv c rh nets s' /\ ovalue (ps_o s') <= ovalue (ps_o s).
Proof.
  intros SD HP NDc Hh. destruct (run_is_preorder c rh nets s cs HP NDc Hh) as (rgs & _ & Hok & Hrun). cbn zeta in Hok, Hrun.
  eexists. eexists. split; [exact Hrun|].
  exact (pstep_keeps_invariant c rh nets s (PReorder _ _) SD HP Hok).
Qed.

(* ---------- what the scan retains: the FIRST leaf of minimal value when it beats the value at entry ---------- *)
Definition leaf_value_of (d : dstate) (o : ostate) (leaf : list placement) : Z := ovalue (set_many o (leaf_moves d leaf)).

Lemma astep_fold_min d o0 leaves : forall bv b n,
  let r := fold_left (astep d o0) leaves (bv, b, n) in
  fst (fst r) <= bv /\ (forall leaf, In leaf leaves -> fst (fst r) <= leaf_value_of d o0 leaf) /\
  ((fst (fst r) = bv /\ snd (fst r) = b) \/
   (exists leaf, In leaf leaves /\ snd (fst r) = Some leaf /\ fst (fst r) = leaf_value_of d o0 leaf /\ fst (fst r) < bv)).
Proof.
  induction leaves as [|l t IH]; intros bv b n; cbn zeta; cbn [fold_left].
  - cbn [fst snd]. split; [lia|]. split; [intros leaf []|left; split; reflexivity].
  - assert (E : astep d o0 (bv, b, n) l = if leaf_value_of d o0 l <? bv then (leaf_value_of d o0 l, Some l, S n) else (bv, b, S n)) by reflexivity.
    rewrite E. clear E. destruct (Z.ltb_spec (leaf_value_of d o0 l) bv) as [Lt|Ge].
    + destruct (IH (leaf_value_of d o0 l) (Some l) (S n)) as (A & B & C). cbn zeta in A, B, C. split; [lia|]. split.
      * intros leaf [<-|H]; [exact A|exact (B leaf H)].
      * right. destruct C as [[C1 C2]|(leaf & H1 & H2 & H3 & H4)].
        -- exists l. split; [left; reflexivity|]. split; [exact C2|]. split; [exact C1|lia].
        -- exists leaf. split; [right; exact H1|]. split; [exact H2|]. split; [exact H3|lia].
    + destruct (IH bv b (S n)) as (A & B & C). cbn zeta in A, B, C. split; [exact A|]. split.
      * intros leaf [<-|H]; [lia|exact (B leaf H)].
      * destruct C as [C|(leaf & H1 & H2 & H3 & H4)]; [left; exact C|]. right. exists leaf. split; [right; exact H1|tauto].
Qed.

Lemma upd_same (l : list Z) c : upd l c (nth c l 0) = l.
Proof.
  apply list_ext_nth_error. intros j. rewrite nth_error_upd. destruct (Nat.eqb_spec j c) as [->|_]; [|reflexivity].
  rewrite (nth_error_nth_Z l c). destruct (nth_error l c); reflexivity.
Qed.
Lemma pos_after_self pos cs : pos_after pos (map (fun c => (c, nth c pos 0)) cs) = pos.
Proof.
  induction cs as [|c t IH]; cbn [map]; [reflexivity|]. unfold pos_after in *. cbn [fold_left fst snd]. rewrite upd_same. exact IH.
Qed.
Lemma set_many_saved_value o cs : OInv o -> ovalue (set_many o (saved o cs)) = ovalue o.
Proof.
  intros H. destruct (set_many_spec (saved o cs) o H) as (I1 & N1 & PX & PY).
  apply ovalue_ext; [exact I1|exact H|exact N1|]. split; [rewrite PX, xs_of_saved|rewrite PY, ys_of_saved]; apply pos_after_self.
Qed.

(* the value returned is the minimum of the value at entry and of the values of ALL enumerated leaves; the structure
   changes only for a strict improvement, and then to the write-back of a leaf of that minimal value *)
Theorem run_returns_minimum c rh nets s cs :
  PInv c rh nets s -> NoDup cs -> (forall x, In x cs -> held (ps_d s) x = true) ->
  exists rgs s' n, regions_of (ps_d s) cs cs = Some rgs /\ run s cs = Some (s', n) /\
    let d := ps_d s in let o := ps_o s in let leaves := leaves_of d rgs in
    n = length leaves /\
    ovalue (ps_o s') <= ovalue o /\
    (forall leaf, In leaf leaves -> ovalue (ps_o s') <= leaf_value_of d o leaf) /\
    ((ps_d s' = d /\ ovalue (ps_o s') = ovalue o) \/
     (exists leaf, In leaf leaves /\ ovalue (ps_o s') = leaf_value_of d o leaf /\ ovalue (ps_o s') < ovalue o /\
                   wb d (rev (sort_asc (map p_id (registered rgs)))) leaf = Some (ps_d s'))).
Proof.
  intros HP NDc Hh. destruct (run_is_preorder c rh nets s cs HP NDc Hh) as (rgs & R & Hok & Hrun). cbn zeta in Hok, Hrun.
  destruct HP as (HR & HI & Hl & ND & HO & HN & HC). destruct s as [d o]. cbn [ps_d ps_o] in *.
  set (cells := rev (sort_asc (map p_id (registered rgs)))) in *. set (leaves := leaves_of d rgs) in *.
  exists rgs, (preorder {| ps_d := d; ps_o := o |} cells leaves), (length leaves). split; [exact R|]. split; [exact Hrun|]. cbn zeta.
  split; [reflexivity|]. destruct Hok as (_ & HFl & Hwb). cbn [ps_d ps_o] in Hwb.
  destruct (prscan_ascan d o cells leaves HO HFl o (ovalue o) None 0%nat (base_refl cells o HO)) as (Ts & Bs). cbn zeta in Ts, Bs.
  change (fold_left _ leaves (o, ovalue o, None)) with (prscan d o leaves) in Ts, Bs.
  unfold preorder. cbn [ps_d ps_o]. destruct (prscan d o leaves) as [[o' bv] b]. cbn [fst snd] in Ts, Bs.
  destruct (astep_fold_min d o leaves (ovalue o) None 0%nat) as (A & B & C). cbn zeta in A, B, C. rewrite <- Ts in A, B, C. cbn [fst snd] in A, B, C.
  destruct b as [leaf|].
  - destruct C as [[_ C]|(leaf' & H1 & [= <-] & H3 & H4)]; [discriminate|]. destruct Hwb as (d' & Wb & _). rewrite Wb. cbn [ps_d ps_o].
    assert (E : set_many o' (leaf_moves d leaf) = set_many o (leaf_moves d leaf)).
    { apply (set_many_same cells o); [exact HO|exact Bs|apply base_refl; exact HO|]. rewrite Forall_forall in HFl.
      intros j Hj. rewrite fst_leaf_moves. apply (HFl leaf H1). exact Hj. }
    rewrite E. fold (leaf_value_of d o leaf). rewrite <- H3. split; [exact A|]. split; [exact B|]. right. exists leaf. tauto.
  - destruct C as [[C _]|(leaf' & _ & C & _)]; [|discriminate]. cbn [ps_d ps_o].
    assert (E : set_many o' (saved o cells) = set_many o (saved o cells)).
    { apply (set_many_same cells o); [exact HO|exact Bs|apply base_refl; exact HO|]. intros j Hj. unfold saved. rewrite map_map. cbn [fst]. rewrite map_id. exact Hj. }
    rewrite E, (set_many_saved_value o cells HO). split; [lia|]. split; [intros leaf Hin; specialize (B leaf Hin); lia|]. left. split; reflexivity.
Qed.

(* C02: the closed pass exposes a legal circuit and leaves no cell unplaced *)
Theorem run_exposes_legal c rh nets s cs :
  std_design c rh -> legal c -> PInv c rh nets s -> NoDup cs -> (forall x, In x cs -> held (ps_d s) x = true) ->
  exists s' n, run s cs = Some (s', n) /\ Inv (ps_d s') /\ d_loose (ps_d s') = [] /\ Rel c rh (ps_d s') /\
               legal (write_back c (ps_d s')).
Proof.
  intros SD HL HP NDc Hh. destruct (run_keeps_invariant c rh nets s cs SD HP NDc Hh) as (s' & n & Hrun & HP' & _).
  exists s', n. split; [exact Hrun|]. pose proof (exposed_legal_inv c rh nets s' SD HL HP') as L.
  destruct HP' as (HR & HI & Hl & _). tauto.
Qed.

(* ---------- C04 for the closed pass: no cell is written back onto a row its polarity forbids ---------- *)
Lemma apply_step d o d' : apply_mop d o = Some d' -> step_mop d o = d'.
Proof. unfold step_mop. intros ->. reflexivity. Qed.

Lemma prims_oinv d : NoDup (map p_id (cells_of d)) -> d_loose d = [] -> forall ops s s',
  Permutation (map anykey (cells_of d)) (map anykey (cells_of s)) -> row_os (d_rows s) = row_os (d_rows d) -> OInvM s ->
  (forall c r pr x, In (MPlace c r pr x) ops ->
     match nth_error (d_rows d) r with Some row => row_allowed (pol_of d c) row | None => false end = true) ->
  (forall o, In o ops -> match o with MUnplace _ | MPlace _ _ _ _ => True | _ => False end) ->
  apply_all s ops = Some s' -> OInvM s'.
Proof.
  intros ND Hl0. induction ops as [|o ops IH]; intros s s' PK RO HI HA HP; cbn [apply_all]; [intros [= <-]; exact HI|].
  destruct (apply_mop s o) as [s1|] eqn:A; [|discriminate]. intros At.
  assert (PK1 : Permutation (map anykey (cells_of d)) (map anykey (cells_of s1))).
  { eapply perm_trans; [exact PK|]. rewrite <- (apply_step s o s1 A). apply step_keys. }
  specialize (HP o (or_introl eq_refl)) as Ho. destruct o as [| |c0|c0 r pr x]; try destruct Ho; cbn [apply_mop] in A.
  - destruct (unplace_oinv s c0 s1 HI A) as [HI1 RO1]. apply (IH s1 s' PK1); [congruence|exact HI1| |intros o' Ho'; apply HP; right; exact Ho'|exact At].
    intros c r pr x Hin. apply (HA c r pr x). right. exact Hin.
  - pose proof A as A'. unfold place in A'. destruct (take_loose c0 (d_loose s)) as [[m l']|] eqn:T; [|discriminate]. clear A'.
    specialize (HA c0 r pr x (or_introl eq_refl)) as Hrow. destruct (nth_error (d_rows d) r) as [row|] eqn:Nd; [|discriminate].
    destruct (take_loose_id _ _ _ _ T) as [Tin Tid].
    assert (Hk : In (anykey m) (map anykey (cells_of d))).
    { apply (Permutation_in _ (Permutation_sym PK)). apply in_map. unfold cells_of. apply in_or_app. right. exact Tin. }
    apply in_map_iff in Hk as (m0 & Ek & Hm0). unfold anykey in Ek. injection Ek as Eid _ Epol _.
    assert (Hin0 : in_rows d m0).
    { unfold cells_of in Hm0. rewrite Hl0, app_nil_r in Hm0. apply in_flat_map in Hm0 as (r0 & H1 & H2). exists r0. tauto. }
    assert (Ep : pol_of d c0 = p_pol m) by (unfold pol_of; rewrite <- Tid, <- Eid, (cell_of_in d m0 ND Hin0); exact Epol).
    destruct (place_oinv_gen s c0 r pr x s1 m l' HI T) as (HI1 & _ & RO1); [|exact A|].
    + intros row' Ns. rewrite (row_allowed_o _ _ _ (row_os_nth _ _ _ _ _ RO Nd Ns)), <- Ep. exact Hrow.
    + apply (IH s1 s' PK1); [congruence|exact HI1| |intros o' Ho'; apply HP; right; exact Ho'|exact At].
      intros c r' pr' x' Hin. apply (HA c r' pr' x'). right. exact Hin.
Qed.

Theorem run_keeps_orientation c rh nets s cs :
  PInv c rh nets s -> OInvM (ps_d s) -> NoDup cs -> (forall x, In x cs -> held (ps_d s) x = true) ->
  exists s' n, run s cs = Some (s', n) /\ OInvM (ps_d s').
Proof.
  intros HP HOr NDc Hh. destruct (run_returns_minimum c rh nets s cs HP NDc Hh) as (rgs & s' & n & R & Hrun & Hres). cbn zeta in Hres.
  exists s', n. split; [exact Hrun|]. destruct Hres as (_ & _ & _ & [[E _]|(leaf & Hin & _ & _ & Wb)]); [rewrite E; exact HOr|].
  destruct HP as (_ & _ & Hl & ND & _). destruct (leaves_shape _ _ _ Hin) as (gps & El & _ & _ & FW).
  unfold wb in Wb. apply (prims_oinv (ps_d s) ND Hl _ (ps_d s) (ps_d s') (Permutation_refl _) eq_refl HOr) in Wb; [exact Wb| |].
  - intros c0 r pr x Hm. unfold wb_ops in Hm. apply in_app_or in Hm as [Hm|Hm]; [apply in_map_iff in Hm as (? & E & _); discriminate|].
    apply in_map_iff in Hm as ([[[c1 r1] p1] x1] & E & Hm). injection E as -> -> -> ->. rewrite El in Hm.
    exact (leaf_rows_allowed (ps_d s) gps c0 r pr x FW Hm).
  - intros o Ho. unfold wb_ops in Ho. apply in_app_or in Ho as [Ho|Ho]; apply in_map_iff in Ho as (y & <- & _); [exact I|].
    destruct y as [[[? ?] ?] ?]. exact I.
Qed.
