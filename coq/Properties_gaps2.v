(* Umbrella of the statements that close the gaps found by the independent review (design/review/*.md):
   one file per property, each containing only `Theorem ... Proof. exact <lemma>. Qed.`, Examples and
   `Print Assumptions` lines (all "Closed under the global context").  `make Properties_gaps2.vo` builds all.
   Separate files because the models reuse names (upd, fits, push, check, ...).  Notes: design/review/gaps2.md. *)
Require CV.Properties_gaps2_C15 CV.Properties_gaps2_C14 CV.Properties_gaps2_C12 CV.Properties_gaps2_C16
        CV.Properties_gaps2_C09.
