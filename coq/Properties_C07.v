(* C07 -- placement calls return or throw; never crash or invoke undefined behaviour.

   What a theorem carries here: the arithmetic of the single-row legalizer
   (RowLegalizer::getDisplacement -- the code in which signed overflow was found at design time, F2a),
   through a list of its C++-typed intermediate values over the ideal model (RowLegMachine.v).
   What it cannot carry: memory safety and termination of the compiled artefact and of Eigen / lemon /
   boost / libstdc++, assertion reachability in the float code.  Those are OBSERVED by ./check C07
   (ASan + UBSan builds with assertions on and off, magnitude and degenerate-shape streams). *)
From Coq Require Import List ZArith Lia Bool.
Import ListNotations.
Require Import CV.RowLeg CV.RowLegProofs CV.RowLegMachine CV.RowLegMachineProofs.
Local Open Scope Z_scope.

(* [F] one call of getDisplacement (push or cost query) on a segment inside [-2^22, 2^22], for a cell
   that fits and a target within [-2^23, 2^23]: every int / long long intermediate fits its type *)
Theorem c07_row_legalizer_no_overflow : forall s w t,
  MInv s -> 0 < w <= remaining_space s -> -8388608 <= t <= 8388608 -> Forall fits (gd_vals s w t).
Proof. exact gd_no_overflow. Qed.

(* [F] the magnitude invariant holds initially and is kept by every insertion ... *)
Theorem c07_invariant_initial : forall b e, -4194304 <= b -> b <= e -> e <= 4194304 -> MInv (rl_init b e).
Proof. exact init_minv. Qed.
Theorem c07_invariant_kept : forall s w t, MInv s -> 0 < w <= remaining_space s -> MInv (fst (push s w t)).
Proof. exact push_minv. Qed.

(* [F] ... hence along EVERY history of fitting insertions and cost queries no intermediate overflows *)
Theorem c07_row_legalizer_history_no_overflow : forall ops s,
  MInv s -> ops_ok s ops -> Forall fits (run_vals s ops).
Proof. exact history_no_overflow. Qed.

(* [R on the tree before the repair 9e887f0] with the products evaluated in `int` (as the pinned code
   did) the same list contains a value outside int: a row [0, 4*10^6), width 10^6, target -4*10^6 *)
Example c07_int_product_overflowed :
  let s := fst (push (rl_init 0 4000000) 1000000 3000000) in
  exists v, In (I64, v) (gd_vals s 1000000 (-4000000)) /\ ~ fits (I32, v).
Proof.
  eexists. split.
  - vm_compute. do 12 right. left. reflexivity.
  - unfold fits; cbn. lia.
Qed.

(* non-vacuity: a reachable non-trivial state and a fitting history at the upper end of the range *)
Example c07_nonvacuous :
  MInv (rl_init (-4194304) 4194304) /\
  ops_ok (rl_init (-4194304) 4194304) [Push 1000000 4000000; Query 2000000 (-8388608); Push 4194304 (-4194304); Push 1 0] /\
  run_vals (rl_init (-4194304) 4194304) [Push 1000000 4000000; Query 2000000 (-8388608); Push 4194304 (-4194304); Push 1 0] <> [].
Proof.
  split; [apply init_minv; lia|]. split; [vm_compute; repeat split; discriminate|vm_compute; discriminate].
Qed.

Print Assumptions c07_row_legalizer_no_overflow.
Print Assumptions c07_invariant_initial.
Print Assumptions c07_invariant_kept.
Print Assumptions c07_row_legalizer_history_no_overflow.
