(* C07 -- placement calls return or throw; never crash or invoke undefined behaviour.

   The property itself is OBSERVED, not proved: no theorem below is about an entry point.
   What a theorem carries here: the arithmetic of the single-row legalizer
   (RowLegalizer::getDisplacement -- the code in which signed overflow was found at design time, F2a)
   and of the further integer cores below, each through a HAND-WRITTEN list of its C++-typed intermediate
   values over the ideal model (the *Machine.v files).  Every "Forall fits (.._vals ..)" theorem is
   conditional on the completeness of that list: no listed value is compared with the code, an omitted
   operation cannot be detected (std::min / std::max, loop counters, size_t arithmetic, values read back
   from queues, CSR counters are not listed).
   What it cannot carry: memory safety and termination of the compiled artefact and of Eigen / lemon /
   boost / libstdc++, assertion reachability in the float code.  Those are OBSERVED by ./check C07
   (ASan + UBSan builds with assertions on and off, magnitude and degenerate-shape streams). *)
From Coq Require Import List ZArith Lia Bool.
Import ListNotations.
Require Import CV.RowLeg CV.RowLegProofs CV.RowLegMachine CV.RowLegMachineProofs.
Local Open Scope Z_scope.

(* [F] one call of getDisplacement (push or cost query) on a segment inside [-2^22, 2^22], for a cell
   that fits and a target within [-2^23, 2^23]: every int / long long intermediate fits its type *)
Theorem c07_row_legalizer_no_overflow : forall s w t,
  MInv s -> 0 < w <= remaining_space s -> -8388608 <= t <= 8388608 -> Forall fits (gd_vals s w t).
Proof. exact gd_no_overflow. Qed.

(* [F] the magnitude invariant holds initially and is kept by every insertion ... *)
Theorem c07_invariant_initial : forall b e, -4194304 <= b -> b <= e -> e <= 4194304 -> MInv (rl_init b e).
Proof. exact init_minv. Qed.
Theorem c07_invariant_kept : forall s w t, MInv s -> 0 < w <= remaining_space s -> MInv (fst (push s w t)).
Proof. exact push_minv. Qed.

(* [F] ... hence along EVERY history of fitting insertions and cost queries no intermediate overflows *)
Theorem c07_row_legalizer_history_no_overflow : forall ops s,
  MInv s -> ops_ok s ops -> Forall fits (run_vals s ops).
Proof. exact history_no_overflow. Qed.

(* [R on the tree before the repair 9e887f0] with the products evaluated in `int` (as the pinned code
   did) the same list contains a value outside int: a row [0, 4*10^6), width 10^6, target -4*10^6 *)
Example c07_int_product_overflowed :
  let s := fst (push (rl_init 0 4000000) 1000000 3000000) in
  exists v, In (I64, v) (gd_vals s 1000000 (-4000000)) /\ ~ fits (I32, v).
Proof.
  eexists. split.
  - vm_compute. do 12 right. left. reflexivity.
  - unfold fits; cbn. lia.
Qed.

(* non-vacuity: a reachable non-trivial state and a fitting history at the upper end of the range *)
Example c07_nonvacuous :
  MInv (rl_init (-4194304) 4194304) /\
  ops_ok (rl_init (-4194304) 4194304) [Push 1000000 4000000; Query 2000000 (-8388608); Push 4194304 (-4194304); Push 1 0] /\
  run_vals (rl_init (-4194304) 4194304) [Push 1000000 4000000; Query 2000000 (-8388608); Push 4194304 (-4194304); Push 1 0] <> [].
Proof.
  split; [apply init_minv; lia|]. split; [vm_compute; repeat split; discriminate|vm_compute; discriminate].
Qed.

Print Assumptions c07_row_legalizer_no_overflow.
Print Assumptions c07_invariant_initial.
Print Assumptions c07_invariant_kept.
Print Assumptions c07_row_legalizer_history_no_overflow.

(* ====================================================================================================
   Further integer cores (same pattern: a hand-transcribed list of the C++-typed intermediates over the
   ideal model, a domain predicate, "every listed value fits its type" for all inputs of the domain, a
   non-vacuity example at the upper end of the domain and a sanity example showing that a narrower type
   would overflow).  The type annotations are transcribed by hand from the C++ text: modelled, not
   verified; the UBSan builds of ./check C07 observe the same on the real code.
   ==================================================================================================== *)
Require Import CV.AbacusMachine CV.AbacusMachineProofs.
Require Import CV.Moves CV.MovesProofs CV.MovesMachine CV.MovesMachineProofs.
Require Import CV.Hpwl CV.HpwlProofs CV.HpwlMachine CV.HpwlMachineProofs.
Require Import CV.SubdivMachine CV.SubdivMachineProofs.

(* ---------- Abacus cost arithmetic (abacus_legalizer.cpp placeCell / tryPlace / evaluatePlacement) ---------- *)
(* [F] the value returned by RowLegalizer::getCost on the magnitude range (what bounds xDist) *)
Theorem c07_rowleg_cost_bound : forall s w t,
  MInv s -> 0 < w <= remaining_space s -> -8388608 <= t <= 8388608 ->
  - (8388608 * 25165824) <= snd (get_cost s w t) <= 8388608 * 25165824 + 8388608 * 33554432.
Proof. exact get_cost_bound. Qed.

(* [F] one tryPlace(row): rows inside [-2^22, 2^22]^2, row legalizers in their magnitude invariant, a cell of
   width in (0, 2^23] with its target within [-2^23, 2^23]^2, bestDist any long long *)
Theorem c07_abacus_try_no_overflow : forall rows legs c i st,
  Forall row_dom rows -> Forall MInv legs -> cell_dom c ->
  -9223372036854775808 <= snd st < 9223372036854775808 ->
  Forall fits (a_try_vals rows legs c i st).
Proof. exact a_try_no_overflow. Qed.

(* [F] one placeCell: closestRow, both scans, the final push *)
Theorem c07_abacus_place_no_overflow : forall rows legs c,
  rows_dom rows -> rows <> [] -> Forall MInv legs -> cell_dom c -> Forall fits (a_place_vals rows legs c).
Proof. exact a_place_no_overflow. Qed.

(* [F] the whole AbacusLegalizer::run, for every list of rows and cells of the domain *)
Theorem c07_abacus_no_overflow : forall rows cells,
  rows_dom rows -> Forall cell_dom cells -> Forall fits (abacus_run_vals rows cells).
Proof. exact abacus_run_no_overflow. Qed.

Example c07_abacus_nonvacuous :
  rows_dom ex_rows /\ Forall cell_dom AbacusMachineProofs.ex_cells /\
  length (abacus_run_vals ex_rows AbacusMachineProofs.ex_cells) = 228%nat /\
  In (I64, 105553116266496) (abacus_run_vals ex_rows AbacusMachineProofs.ex_cells).
Proof. exact abacus_nonvacuous. Qed.
Example c07_abacus_int_would_overflow :
  rows_dom ex_rows /\ Forall cell_dom AbacusMachineProofs.ex_cells /\
  exists v, In (I64, v) (abacus_run_vals ex_rows AbacusMachineProofs.ex_cells) /\ ~ fits (I32, v).
Proof. exact abacus_int_would_overflow. Qed.

(* ---------- DetailedPlacement position arithmetic (detailed_placement.cpp) ---------- *)
(* MagInv s = MovesProofs.Inv s /\ rows inside [-2^22, 2^22] /\ unplaced cells not wider than 2^23 *)
Theorem c07_moves_invariant_kept : forall s o, MagInv s -> MagInv (step_mop s o).
Proof. exact step_mag. Qed.

(* [F] one swap / insert / place (canSwap, positionsOnSwap, canInsert, positionOnInsert, canPlace) *)
Theorem c07_moves_no_overflow : forall s o, MagInv s -> mop_ok o -> Forall fits (mop_vals s o).
Proof. exact mop_no_overflow. Qed.

(* [F] every history of operations *)
Theorem c07_moves_history_no_overflow : forall ops s,
  MagInv s -> Forall mop_ok ops -> Forall fits (run_mops_vals s ops).
Proof. exact moves_history_no_overflow. Qed.

Example c07_moves_nonvacuous :
  MagInv ex_state /\ Forall mop_ok ex_ops /\
  length (run_mops_vals ex_state ex_ops) = 44%nat /\
  map (fun r => map (fun c => (p_id c, p_x c)) (dr_cells r)) (d_rows (run_mops ex_state ex_ops))
    = [[(2%nat, 0)]; [(0%nat, 4194302); (1%nat, 4194303)]].
Proof. exact moves_nonvacuous. Qed.
Example c07_moves_narrower_would_overflow :
  MagInv ex_state /\ Forall mop_ok ex_ops /\
  In (I32, 8388606) (run_mops_vals ex_state ex_ops) /\ ~ (-4194304 <= 8388606 <= 4194304) /\
  In (I32, 20971520) (run_mops_vals ex_state ex_ops) /\ ~ (-32768 <= 20971520 < 32768).
Proof. exact moves_narrower_would_overflow. Qed.

(* ---------- wirelength: Circuit::hpwl and IncrNetModel ---------- *)
(* [F] Circuit::hpwl: cells within [-2^22, 2^22]^2, oriented pin offsets within [-2^23, 2^23], fewer than 2^31
   pins and nets *)
Theorem c07_hpwl_no_overflow : forall cells nets, hpwl_dom cells nets -> Forall fits (hpwl_vals cells nets).
Proof. exact hpwl_no_overflow. Qed.
Theorem c07_hpwl_value_bound : forall cells nets, hpwl_dom cells nets ->
  0 <= hpwl cells nets <= Z.of_nat (length nets) * 50331648.
Proof. exact hpwl_value_bound. Qed.
(* the raw-data reading of the pin domain: sizes in [0, 2^22], raw offsets in [-2^22, 2^22] *)
Theorem c07_hpwl_raw_domain : forall cells p, hpin_raw_dom cells p -> hpin_dom cells p.
Proof. exact hpin_raw_dom_ok. Qed.

(* [F] IncrNetModel: build, then every history of updateCellPos with positions within [-2^23, 2^23] *)
Theorem c07_incr_build_no_overflow : forall pos nets,
  ipos_dom pos -> inets_dom nets -> Forall fits (build_vals pos nets) /\ incr_dom (incr_build pos nets).
Proof. exact build_no_overflow. Qed.
Theorem c07_incr_no_overflow : forall ups s,
  incr_dom s -> Forall (fun u => -8388608 <= snd u <= 8388608) ups ->
  Forall fits (updates_vals s ups) /\ incr_dom (apply_updates s ups).
Proof. exact incr_history_no_overflow. Qed.

Example c07_hpwl_nonvacuous :
  hpwl_dom ex_hcells ex_nets /\ hpwl ex_hcells ex_nets = 43 * 50331648 /\
  length (hpwl_vals ex_hcells ex_nets) = 1466%nat.
Proof. exact hpwl_nonvacuous. Qed.
Example c07_hpwl_int_accumulator_would_overflow :
  hpwl_dom ex_hcells ex_nets /\ exists v, In (I64, v) (hpwl_vals ex_hcells ex_nets) /\ ~ fits (I32, v).
Proof. exact hpwl_int_accumulator_would_overflow. Qed.
Example c07_incr_int_value_would_overflow :
  ipos_dom ex_ipos /\ inets_dom ex_inets /\
  exists v, In (I64, v) (build_vals ex_ipos ex_inets) /\ ~ fits (I32, v).
Proof. exact incr_int_value_would_overflow. Qed.
(* the non-emptiness of the nets in the domain is necessary (addNet's filter is what provides it) *)
Example c07_incr_empty_net_would_overflow : exists v, In (I32, v) (build_vals [0] [[]]) /\ ~ fits (I32, v).
Proof. exact incr_empty_net_would_overflow. Qed.

(* ---------- computeSubdivisions (utils/helpers.hpp) ---------- *)
(* [F] the text now on /repo main (product in long long): safe on the whole supported range *)
Theorem c07_subdivisions_no_overflow : forall mn mx n, subdiv_dom mn mx n -> Forall fits (subdiv_vals mn mx n).
Proof. exact subdiv_no_overflow. Qed.
(* [R on the tree before the repair] the int product overflowed inside the supported range (F16) *)
Theorem c07_subdivisions_pre_refuted :
  exists mn mx n, subdiv_dom mn mx n /\ exists v, In v (subdiv_vals_pre mn mx n) /\ ~ fits v.
Proof. exact subdiv_pre_refuted. Qed.
Theorem c07_subdivisions_pre_no_overflow : forall mn mx n,
  subdiv_dom mn mx n -> n * (mx - mn) < 2147483648 -> Forall fits (subdiv_vals_pre mn mx n).
Proof. exact subdiv_pre_no_overflow. Qed.
Example c07_subdivisions_nonvacuous :
  subdiv_dom (-4194304) 4194304 1048576 /\
  In (I64, 1048576 * 8388608) (subdiv_vals (-4194304) 4194304 1048576) /\
  In (I32, 4194304) (subdiv_vals (-4194304) 4194304 1048576).
Proof. exact subdiv_nonvacuous. Qed.

(* ---------- 1-D transportation (transportation_1d.cpp): the path of DensityLegalizer::improveX/YTransport ---------- *)
Require Import CV.Transp1d CV.Transp1dProofs CV.Transp1dTerm CV.Transp1dMachine CV.Transp1dMachineProofs.

(* t1d_dom pb: positions within [-2^59, 2^59], supplies and demands >= 0 with totals <= 2^61, fewer than 2^31 - 1
   sources + sinks, vector lengths consistent.  (The rough legalizer feeds positions scaled to about 10^8 * x / width
   and supplies = cell areas < 2^31: far inside -- an informal remark: the float-to-long-long scaling
   std::round(factor * cellTargetX) of improveX/YTransport has no listing, and t1d_dom constrains values that come out
   of the continuous solver; the precondition is not discharged.) *)
(* [F] balanceDemand() followed by assign() -- totalSupply/totalDemand, balanceDemand, check, the sorter, setupData,
   run (updateOptimalSink, pushNewSourceEvents incl. delta, pushNewSinkEvents, the push loop: pushOnce, getSlope's
   running sums, pushToLastSink, pushToNewSink), flushPositions, computeAssignment: every listed int / long long
   intermediate fits its type, for ALL problems of the domain *)
Theorem c07_transp1d_no_overflow : forall pb, t1d_dom pb -> Forall fits (balance_assign_vals pb).
Proof. exact balance_assign_vals_fit. Qed.
Theorem c07_transp1d_assign_no_overflow : forall pb, t1d_dom pb -> Forall fits (assign_vals pb).
Proof. exact assign_vals_fit. Qed.
Theorem c07_transp1d_balance_no_overflow : forall pb, t1d_dom pb -> Forall fits (balance_vals pb).
Proof. exact balance_vals_fit. Qed.
(* [F] the domain is kept by balanceDemand (so that the two calls compose) *)
Theorem c07_transp1d_balance_keeps_domain : forall pb pb', t1d_dom pb -> balance_demand pb = Ok pb' -> t1d_dom pb'.
Proof. exact balance_dom. Qed.
(* [F] computeSolution (the path of solve(), which the library itself never calls) on the positions computed by run *)
Theorem c07_transp1d_solution_no_overflow : forall pb p,
  t1d_dom pb -> check pb = None -> run (convert (mk_sorter pb) pb) = Some p ->
  Forall fits (solution_vals (convert (mk_sorter pb) pb) p).
Proof. exact solve_solution_vals_fit. Qed.
(* [F] loops terminate / no out-of-range index / no division by zero on this path (proved for C14, restated here):
   on every problem accepted by check() the model of assign() answers an assignment -- never EFuel (the while loop of
   push(i) stops within the stated fuel), never EOOB (every vector access of computeAssignment and
   convertAssignmentBack is in range); balanceDemand divides by nbSinks() only when there is a sink *)
Theorem c07_transp1d_assign_total : forall pb, check pb = None -> exists r, assign pb = Ok r.
Proof. exact assign_total. Qed.

Example c07_transp1d_nonvacuous :
  t1d_dom ex_t1d /\
  (exists pb', balance_demand ex_t1d = Ok pb' /\ pb_d pb' = [1345075088707988139; 192153584101141163; 768614336404564650]
               /\ assign pb' = Ok [0%nat; 1%nat; 2%nat; 2%nat]) /\
  length (balance_assign_vals ex_t1d) = 216%nat /\
  In (I64, 2305843009213693952) (balance_assign_vals ex_t1d).
Proof. exact t1d_nonvacuous. Qed.
Example c07_transp1d_int_would_overflow :
  t1d_dom ex_t1d_small /\ exists v, In (I64, v) (balance_assign_vals ex_t1d_small) /\ ~ fits (I32, v).
Proof. exact t1d_int_would_overflow. Qed.

(* ---------- density grid (density_grid.cpp, Rectangle) and the area sums of coloquinte.cpp ---------- *)
Require Import CV.FreeSpace CV.Density CV.DensityProofs CV.DensityMachine CV.DensityMachineProofs.

(* rbox r: a proper rectangle inside [-2^22, 2^22]^2;  SUMB = 2^62;  inbox x: |x| <= 2^22 *)
(* [F] the constructor DensityGrid(binSize, regions): updateBinsToSize (no division by zero / INT_MIN / -1 for
   binSize >= 1), computeSubdivisions twice, updateBinCenters' int sums, updateBinCapacity() and the running capacity of
   every bin in updateBinCapacity(regions), for every non-empty list of regions of the range whose areas sum to <= 2^62 *)
Theorem c07_density_grid_no_overflow : forall binSize regions,
  Forall rbox regions -> regions <> [] -> sumZ (map rarea regions) <= SUMB -> 1 <= binSize ->
  Forall fits (grid_vals binSize regions).
Proof. exact grid_vals_fit. Qed.
(* the sum hypothesis holds for up to 2^16 regions (free row segments) of the range *)
Theorem c07_density_regions_count : forall regs,
  Forall rbox regs -> Z.of_nat (length regs) <= 65536 -> sumZ (map rarea regs) <= SUMB.
Proof. exact regions_count_sum. Qed.
(* [F] the parts, for arbitrary non-decreasing bin limits *)
Theorem c07_density_capacity_no_overflow : forall lx ly regs,
  chainZ lx -> chainZ ly -> Forall rbox regs -> sumZ (map rarea regs) <= SUMB -> Forall fits (capacity_vals lx ly regs).
Proof. exact capacity_vals_fit. Qed.
Theorem c07_density_cap0_no_overflow : forall lx ly, Forall inbox lx -> Forall inbox ly -> Forall fits (cap0_vals lx ly).
Proof. exact cap0_vals_fit. Qed.
Theorem c07_density_centers_no_overflow : forall lims,
  Forall inbox lims -> zi (length lims) < 2147483647 -> Forall fits (centers_vals lims).
Proof. exact centers_vals_fit. Qed.
Theorem c07_density_nb_bins_no_overflow : forall a maxSize, rbox a -> 1 <= maxSize -> Forall fits (nb_bins_vals a maxSize).
Proof. exact nb_bins_vals_fit. Qed.
(* [F] DensityGrid::fromIspdCircuit: clipping the rows by margin = (int)(sideMargin * minCellHeight), an input here *)
Theorem c07_density_clip_no_overflow : forall margin rows,
  Forall rbox rows -> 0 <= margin < 1073741824 -> Forall fits (clip_vals margin rows).
Proof. exact clip_vals_fit. Qed.
(* [F] every long long sum of non-negative entries with total <= 2^62: totalCapacity, binCapacity(BinGroup), totalDemand,
   binUsage; and totalOverflow *)
Theorem c07_density_sum_no_overflow : forall l, (forall x, In x l -> 0 <= x) -> sumZ l <= SUMB -> Forall fits (sum_vals l).
Proof. exact sum_vals_fit. Qed.
Theorem c07_density_overflow_no_overflow : forall uc,
  Forall (fun p => 0 <= fst p <= SUMB /\ 0 <= snd p <= SUMB) uc -> sumZ (map fst uc) <= SUMB -> Forall fits (overflow_vals uc).
Proof. exact overflow_vals_fit. Qed.
(* [F] cell demands = areas narrowed to int (HierarchicalDensityPlacement::fromIspdCircuit / updateCellDemand): safe when
   each area is below 2^31 -- the clause of the property's quantifier -- and NOT otherwise *)
Theorem c07_density_demand_no_overflow : forall wh,
  Forall (fun p => - 2 * COORD <= fst p <= 2 * COORD /\ - 2 * COORD <= snd p <= 2 * COORD /\ 0 <= fst p * snd p < 2147483648) wh ->
  Forall fits (demand_vals wh).
Proof. exact demand_vals_fit. Qed.
Example c07_density_demand_needs_area_bound : exists v, In v (demand_vals [(65536, 32768)]) /\ ~ fits v.
Proof. exact demand_needs_area_bound. Qed.
(* [F] Circuit::area and the sum over the movable cells (expandCellsToDensity / expandCellsByFactor) *)
Theorem c07_cell_area_no_overflow : forall wh,
  Forall (fun p => - 2 * COORD <= fst p <= 2 * COORD /\ - 2 * COORD <= snd p <= 2 * COORD /\ 0 <= fst p * snd p < 2147483648) wh ->
  Z.of_nat (length wh) <= 2147483647 -> Forall fits (cell_area_vals wh).
Proof. exact cell_area_vals_fit. Qed.
(* [F] computeRowPlacementArea: w * h and the sum, for up to 2^16 free row segments; the width left after the (double)
   margin computation is an input not larger than the row width *)
Theorem c07_row_area_no_overflow : forall rows,
  Forall (fun rw => rbox (fst rw) /\ - 2 * COORD <= snd rw <= maxX (fst rw) - minX (fst rw)) rows ->
  Z.of_nat (length rows) <= 65536 -> Forall fits (row_area_vals rows).
Proof. exact row_area_vals_fit. Qed.

Example c07_density_nonvacuous :
  Forall rbox ex_regs /\ ex_regs <> [] /\ sumZ (map rarea ex_regs) <= SUMB /\
  length (grid_vals 2097152 ex_regs) = 280%nat /\ In (I64, 4398046511104) (grid_vals 2097152 ex_regs).
Proof. exact grid_nonvacuous. Qed.
Example c07_density_int_would_overflow :
  Forall inbox [0; 65536] /\ exists v, In (I64, v) (cap0_vals [0; 65536] [0; 65536]) /\ ~ fits (I32, v).
Proof. exact density_int_would_overflow. Qed.

(* ---------- transportation.cpp: TransportationProblem / TransportationSuccessiveShortestPath (integer side) ---------- *)
Require Import CV.Ssp CV.SspMachine CV.SspMachineProofs.

(* [F] totalDemand / totalCapacity (std::accumulate) and increaseCapacity: non-negative entries, totals <= 2^62, at
   least one sink (no division by zero) *)
Theorem c07_ssp_accumulate_no_overflow : forall l,
  (forall x, In x l -> 0 <= x) -> zsuml l <= SUMB -> Forall fits (accumulate_vals l).
Proof. exact accumulate_vals_fit. Qed.
Theorem c07_ssp_increase_capacity_no_overflow : forall pb,
  (0 < nsnk pb)%nat -> Z.of_nat (nsnk pb) < 2147483647 ->
  (forall x, In x (dems pb) -> 0 <= x) -> (forall x, In x (caps pb) -> 0 <= x) ->
  Ssp.total_demand pb <= SUMB -> Ssp.total_capacity pb <= SUMB -> Forall fits (increase_capacity_vals pb).
Proof. exact increase_capacity_vals_fit. Qed.
(* cost_dom pb: the guarantee of costsFromIntegers on its integer results (costs in [0, about INT_MAX / (4 nbSinks)]);
   the float side of the scaling is a stated precondition.  [F] every problem-level moving cost fits int and is
   within the same bound *)
Theorem c07_ssp_moving_cost_no_overflow : forall pb src a b, cost_dom pb ->
  Forall fits (moving_vals pb src a b) /\
  4 * Z.of_nat (nsnk pb) * Z.abs (pmoving pb src a b) <= 2147483647 + 2 * Z.of_nat (nsnk pb).
Proof. exact moving_vals_fit. Qed.
(* _partial (one step, under the label bound of a shortest-path tree: |sendingCost_[i]| <= about INT_MAX / 4).  Kept as
   first stated; that the labels stay within the bound (in fact within one scaled cost) along the whole run is now
   proved from C13's invariants: c07_ssp_run_no_overflow below supersedes both *)
Theorem c07_ssp_best_sink_no_overflow_partial : forall pb sc src,
  cost_dom pb -> label_dom pb sc -> Forall fits (best_sink_vals pb sc src).
Proof. exact best_sink_vals_fit. Qed.
Theorem c07_ssp_relax_no_overflow_partial : forall pb mc scb,
  cost_dom pb -> 4 * Z.of_nat (nsnk pb) * Z.abs mc <= 2147483647 + 2 * Z.of_nat (nsnk pb) ->
  4 * Z.abs scb <= 2147483647 + 2 * Z.of_nat (nsnk pb) -> Forall fits (relax_vals mc scb).
Proof. exact relax_vals_fit. Qed.
(* [F] updateTree never adds to the INT_MAX sentinel: the sink it relaxes from has a finite label *)
Theorem c07_ssp_relax_never_adds_sentinel : forall pb t b,
  select_best (nsnk pb) t = Some b -> getZ (t_sc t) b < INT_MAX.
Proof. exact relax_never_adds_sentinel. Qed.
(* bestSink WOULD overflow on a sentinel label (it adds for every sink): what prevents it is that bestSink is only
   called while demand is outstanding, hence while some sink is free (C13's accounting invariant) *)
Example c07_ssp_best_sink_sentinel_would_overflow :
  exists v, In v (best_sink_vals (mkPb [1] [1] [[5]]) [INT_MAX] 0) /\ ~ fits v.
Proof. exact best_sink_sentinel_would_overflow. Qed.
Example c07_ssp_nonvacuous :
  cost_dom ex_ssp_pb /\ label_dom ex_ssp_pb [536870913; -536870913; 0; 7] /\
  In (I32, 671088641) (best_sink_vals ex_ssp_pb [536870913; -536870913; 0; 7] 0).
Proof. exact ssp_machine_nonvacuous. Qed.

(* ---------- transportation.cpp: a WHOLE run of TransportationSuccessiveShortestPath (SspMachineRun.v) ---------- *)
Require Import CV.SspF CV.SspSafety CV.SspOpt CV.SspMachineRun CV.SspMachineRunProofs.

(* [F] ssp_run_vals tf pb lists, over the fuel-parametrised model of C13 (sspF tf; sspF tree_fuel = ssp), every value of
   bestSink's sums (cpp:453), updateTree's relaxations (502), the moving-cost differences pushed by updateDestQueues (610) and
   initQueues (575), the long long updates of allocations_ (537, 539, 545), remainingCapa_ (547), remaining (468) and the
   negated demands (437), at every iteration of every loop of the run.  run_dom: check() accepts, demand <= capacity <= 2^62,
   scaled costs in [0, INT_MAX / 2].  For EVERY round budget tf of updateTree (with tf below big_fuel the run is listed up to
   the point where the model gives up).  The invariant that carries it is C13's (Inv /\ Jinv, Vinv): the labels are
   potentials, hence within ONE scaled cost, not nbSinks - 1 of them. *)
Theorem c07_ssp_run_no_overflow : forall tf pb, run_dom pb -> Forall fits (ssp_run_vals tf pb).
Proof. exact ssp_run_vals_fit. Qed.
(* [F] the same for the model of solve() that is tied to the C++ (ssp), under the guarantee of costsFromIntegers (cost_dom,
   which implies half_dom); the run is complete: ssp returns (C13) *)
Theorem c07_ssp_run_no_overflow_scaled : forall pb,
  check_pb pb = true -> cost_dom pb -> Ssp.total_demand pb <= Ssp.total_capacity pb -> Ssp.total_capacity pb <= SUMB ->
  Forall fits (ssp_run_vals tree_fuel pb) /\ exists x, ssp pb = Ok x.
Proof. exact ssp_run_no_overflow. Qed.
(* [F] the label bound behind it: at every solver state between two augmentations (C13's invariants) with a sink that has
   room, every sendingCost_ is within [0, INT_MAX / 2] -- in particular never the INT_MAX sentinel when bestSink runs *)
Theorem c07_ssp_labels_within_one_cost : forall pb,
  (forall j, (j < nsnk pb)%nat -> 0 < cap_f pb j) -> half_dom pb -> forall s, Inv pb s -> Jinv pb s -> anyfree pb (rem s) ->
  forall a, (a < nsnk pb)%nat -> 0 <= getZ (scost s) a <= HALF.
Proof. exact labels_half. Qed.
(* non-vacuity: 3 sinks, costs AT the costsFromIntegers bound, both chain walks and three updateTree calls; the largest
   listed int is twice the largest cost *)
Example c07_ssp_run_nonvacuous :
  run_dom ex_run_pb /\ cost_dom ex_run_pb /\
  ssp ex_run_pb = Ok [[2; 0; 0]; [0; 2; 0]; [1; 0; 2]] /\
  length (ssp_run_vals tree_fuel ex_run_pb) = 62%nat /\
  In (I32, 357913942) (ssp_run_vals tree_fuel ex_run_pb) /\ In (I32, -178956971) (ssp_run_vals tree_fuel ex_run_pb).
Proof. exact ssp_run_nonvacuous. Qed.
(* the cost bound INT_MAX / 2 of run_dom is sharp: with costs 2^30 (inside C13's domain, the ideal model returns the optimal
   plan) bestSink computes 2^30 + 2^30.  UBSan reports exactly this on the C++ (design/C07.md). *)
Example c07_ssp_run_half_sharp :
  check_pb over_run_pb = true /\ (forall j i, 0 <= cost over_run_pb j i <= HALF + 1) /\
  Ssp.total_demand over_run_pb <= Ssp.total_capacity over_run_pb <= SUMB /\
  ssp over_run_pb = Ok [[1; 0]; [0; 1]] /\
  In (I32, 2147483648) (ssp_run_vals tree_fuel over_run_pb) /\ ~ fits (I32, 2147483648).
Proof. exact ssp_run_half_sharp. Qed.

(* ================================================================== the float side of the transportation costs
   (CostsFloat.v / CostsFloatProofs.v; Flocq binary32 / binary64, round to nearest even, one C++ operator = one rounding).
   These theorems use the real numbers of the standard library: Print Assumptions lists
   ClassicalDedekindReals.sig_forall_dec, ClassicalDedekindReals.sig_not_dec,
   FunctionalExtensionality.functional_extensionality_dep and (through Flocq) Classical_Prop.classic. *)
From Coq Require Import Reals.
From Flocq Require Import Core BinarySingleNaN.
Require Import CV.SspProofs CV.SpreadFloat CV.ExpandFloat CV.CostsFloat CV.CostsFloatProofs.
Local Open Scope Z_scope.

(* [F] std::round of a finite double, as modelled (SpreadFloat.dround_Z, also used by C06): the nearest integer of the
   real value, halves away from zero *)
Theorem c07_costs_round_is_nearest_away : forall v : f64,
  is_finite v = true -> dround_Z v = Some (ZnearestA (B2R v)).
Proof. exact dround_Z_correct. Qed.

(* [F] costsFromIntegers (transportation.cpp:153-174) on EVERY rectangular matrix of finite non-negative binary32 costs with
   1 <= #sinks < 2^30: every std::round result converts to int (no undefined conversion), the shape is kept, and every entry
   k satisfies 0 <= k and 4 n k <= INT_MAX + 2 n *)
Theorem c07_costs_from_floats_defined : forall (fc : list (list f32)) (nr : nat),
  fcosts_ok fc -> rect_mat nr fc -> 1 <= Z.of_nat (length fc) < 2 ^ 30 ->
  exists c, costs_from_floats fc = Some c /\ length c = length fc /\ rect_mat nr c /\
            Forall (Forall (scaled_ok (Z.of_nat (length fc)))) c.
Proof. exact costs_from_floats_spec. Qed.

(* [F] the float constructor: the problem is built, check() accepts it, and it is in cost_dom -- the hypothesis that
   c07_ssp_run_no_overflow_scaled assumed *)
Theorem c07_float_problem_cost_dom : forall (cps dms : list Z) (fc : list (list f32)),
  fcosts_ok fc -> length fc = length cps -> rect_mat (length dms) fc ->
  1 <= Z.of_nat (length cps) < 2 ^ 30 ->
  Forall (fun c => 0 < c) cps -> Forall (fun d => 0 < d) dms ->
  exists pb, float_problem cps dms fc = Some pb /\ caps pb = cps /\ dems pb = dms /\
             check_pb pb = true /\ cost_dom pb.
Proof. exact float_problem_cost_dom. Qed.

(* [F] composition (constructor; increaseCapacity(); solve(), the sequence of DensityLegalizer::reoptimize): for EVERY float
   problem of the domain every listed int / long long intermediate of increaseCapacity and of the whole
   successive-shortest-path run fits its type, and the run returns an optimal plan for the scaled integer costs *)
Theorem c07_float_transport_problem_no_overflow : forall (cps dms : list Z) (fc : list (list f32)),
  fcosts_ok fc -> length fc = length cps -> rect_mat (length dms) fc ->
  1 <= Z.of_nat (length cps) < 2 ^ 30 ->
  Forall (fun c => 0 < c) cps -> Forall (fun d => 0 < d) dms ->
  zsuml dms <= SUMB -> zsuml cps <= SUMB ->
  exists pb, float_problem cps dms fc = Some pb /\ caps pb = cps /\ dems pb = dms /\
             check_pb pb = true /\ cost_dom pb /\
             Forall fits (increase_capacity_vals pb) /\
             let pb' := increase_capacity pb in
             Forall fits (ssp_run_vals tree_fuel pb') /\
             exists x, ssp pb' = Ok x /\ pb_optimal pb' (plan_f x).
Proof. exact float_transport_problem_no_overflow. Qed.
(* non-vacuity: a 2 x 3 matrix with a zero, equal entries, the smallest denormal and entries of size 1e30 *)
Example c07_costs_nonvacuous :
  fcosts_ok ex_fcosts /\ rect_mat 3 ex_fcosts /\
  costs_from_floats ex_fcosts = Some [[0; 268435456; 0]; [268435456; 134217728; 0]].
Proof. split; [exact ex_fcosts_ok|split; [repeat constructor|exact ex_fcosts_value]]. Qed.

(* [R] outside the domain.  A NaN entry: std::max lets it through and forgets it at the next entry; its product is NaN and
   the conversion of std::round(NaN) to int is undefined (model: None) *)
Theorem c07_costs_nan_refuted : exists fc : list (list f32),
  length fc = 1%nat /\ rect_mat 2 fc /\ Exists (Exists (fun d => is_nan d = true)) fc /\ costs_from_floats fc = None.
Proof. exact costs_nan_refuted. Qed.
(* [R] +inf (not a NaN, sign bit clear): maxVal = inf, the factor is 0.0, inf * 0.0 = NaN *)
Theorem c07_costs_inf_refuted : exists fc : list (list f32),
  length fc = 1%nat /\ rect_mat 2 fc /\ Forall (Forall (fun d => is_nan d = false /\ Bsign d = false)) fc /\
  costs_from_floats fc = None.
Proof. exact costs_inf_refuted. Qed.
(* [R] a finite negative entry: alone it is scaled by INT_MAX / 1e-8 / 4 out of the range of int (undefined conversion);
   next to a larger positive entry it becomes a negative int cost (outside cost_dom and the domain of C13) *)
Theorem c07_costs_negative_refuted :
  (exists fc : list (list f32), length fc = 1%nat /\ rect_mat 1 fc /\ Forall (Forall (fun d => is_finite d = true)) fc /\
     costs_from_floats fc = None) /\
  (exists (fc : list (list f32)) (c : list (list Z)), length fc = 1%nat /\ rect_mat 2 fc /\
     Forall (Forall (fun d => is_finite d = true)) fc /\ costs_from_floats fc = Some c /\ get2 c 0 0 < 0).
Proof. exact costs_negative_refuted. Qed.
(* 0 sinks: conversionFactor_ = INT_MAX / 1e-8 / 4 / 0 = +inf (IEEE division: no trap), nothing is converted *)
Example c07_costs_zero_sinks :
  B2SF (conv_factor []) = B2SF (B754_infinity false : f64) /\ costs_from_floats [] = Some [].
Proof. exact zero_sinks_factor_inf. Qed.

(* ------------------------------------------------------------------ the producer: DensityLegalizer::reoptimize *)
(* [F] every entry of the cost matrix built at density_legalizer.cpp:281-293 is finite and non-negative, for each of the six
   LegalizationModel values: bin limits within [-2^22, 2^22] (the centres are then exact), finite targets of magnitude at
   most 2^28, penalty factor (float)quadraticPenaltyFactor finite in [0, 1] (fin_nn q 0).  The matrix is rectangular. *)
Theorem c07_reoptimize_costs_finite_nonneg :
  forall (q : f32) (m : leg_model) (bins : list fbin) (cells : list (f32 * f32)),
  fin_nn q 0 -> Forall bin_in_range bins -> Forall target_ok cells ->
  fcosts_ok (reopt_costs q m bins cells) /\ rect_mat (length cells) (reopt_costs q m bins cells) /\
  length (reopt_costs q m bins cells) = length bins.
Proof. exact reopt_costs_ok. Qed.
(* [F] the factor computed at place_global.cpp:83-87 is such a q: quadraticPenalty finite in [0, 1] (what
   RoughLegalizationParameters::check accepts), 1 <= width + height <= 2^24 of the placement area *)
Theorem c07_penalty_factor_in_unit : forall (m : leg_model) (p : f64) (wh : Z),
  is_finite p = true -> (0 <= B2R p <= 1)%R -> 1 <= wh <= 2 ^ 24 -> fin_nn (penalty_factor_f m p wh) 0.
Proof. exact penalty_factor_f_ok. Qed.
(* [F] end to end for reoptimize with more than two bins (cpp:270-298): positive capacities (bins of capacity 0 are
   skipped, cpp:246) and demands (cells of demand 0 are in no bin), totals at most 2^62 *)
Theorem c07_reoptimize_transport_no_overflow :
  forall (q : f32) (m : leg_model) (bins : list fbin) (cells : list (f32 * f32)) (cps dms : list Z),
  fin_nn q 0 -> Forall bin_in_range bins -> Forall target_ok cells ->
  length cps = length bins -> length dms = length cells ->
  1 <= Z.of_nat (length bins) < 2 ^ 30 ->
  Forall (fun c => 0 < c) cps -> Forall (fun d => 0 < d) dms ->
  zsuml dms <= SUMB -> zsuml cps <= SUMB ->
  exists pb, float_problem cps dms (reopt_costs q m bins cells) = Some pb /\ caps pb = cps /\ dems pb = dms /\
             check_pb pb = true /\ cost_dom pb /\
             Forall fits (increase_capacity_vals pb) /\
             let pb' := increase_capacity pb in
             Forall fits (ssp_run_vals tree_fuel pb') /\
             exists x, ssp pb' = Ok x /\ pb_optimal pb' (plan_f x).
Proof. exact reoptimize_transport_no_overflow. Qed.
(* non-vacuity: 3 bins (one spanning the whole magnitude range), 2 cells (a target at -2^28, a denormal coordinate), the
   largest accepted penalty; the hypotheses hold for every model *)
Example c07_reoptimize_nonvacuous : forall m,
  fin_nn (penalty_factor_f m (d_of_Z 1) 4096) 0 /\ Forall bin_in_range ex_bins /\ Forall target_ok ex_cells.
Proof. exact ex_reopt_hyps. Qed.
(* [R] a NaN target (outside C06's domain, which asks for finite placements): the L1 cost is NaN and costsFromIntegers
   converts a NaN to int *)
Theorem c07_reoptimize_nan_target_refuted : exists (bins : list fbin) (cells : list (f32 * f32)),
  Forall bin_in_range bins /\ length bins = 2%nat /\ length cells = 2%nat /\
  costs_from_floats (reopt_costs fzero L1 bins cells) = None.
Proof. exact nan_target_refuted. Qed.

Print Assumptions c07_rowleg_cost_bound.
Print Assumptions c07_abacus_try_no_overflow.
Print Assumptions c07_abacus_place_no_overflow.
Print Assumptions c07_abacus_no_overflow.
Print Assumptions c07_moves_invariant_kept.
Print Assumptions c07_moves_no_overflow.
Print Assumptions c07_moves_history_no_overflow.
Print Assumptions c07_hpwl_no_overflow.
Print Assumptions c07_hpwl_value_bound.
Print Assumptions c07_incr_build_no_overflow.
Print Assumptions c07_incr_no_overflow.
Print Assumptions c07_subdivisions_no_overflow.
Print Assumptions c07_subdivisions_pre_refuted.
Print Assumptions c07_subdivisions_pre_no_overflow.
Print Assumptions c07_transp1d_no_overflow.
Print Assumptions c07_transp1d_assign_no_overflow.
Print Assumptions c07_transp1d_balance_no_overflow.
Print Assumptions c07_transp1d_balance_keeps_domain.
Print Assumptions c07_transp1d_solution_no_overflow.
Print Assumptions c07_transp1d_assign_total.
Print Assumptions c07_density_grid_no_overflow.
Print Assumptions c07_density_regions_count.
Print Assumptions c07_density_capacity_no_overflow.
Print Assumptions c07_density_cap0_no_overflow.
Print Assumptions c07_density_centers_no_overflow.
Print Assumptions c07_density_nb_bins_no_overflow.
Print Assumptions c07_density_clip_no_overflow.
Print Assumptions c07_density_sum_no_overflow.
Print Assumptions c07_density_overflow_no_overflow.
Print Assumptions c07_density_demand_no_overflow.
Print Assumptions c07_cell_area_no_overflow.
Print Assumptions c07_row_area_no_overflow.
Print Assumptions c07_ssp_accumulate_no_overflow.
Print Assumptions c07_ssp_increase_capacity_no_overflow.
Print Assumptions c07_ssp_moving_cost_no_overflow.
Print Assumptions c07_ssp_best_sink_no_overflow_partial.
Print Assumptions c07_ssp_relax_no_overflow_partial.
Print Assumptions c07_ssp_relax_never_adds_sentinel.
Print Assumptions c07_ssp_run_no_overflow.
Print Assumptions c07_ssp_run_no_overflow_scaled.
Print Assumptions c07_ssp_labels_within_one_cost.
Print Assumptions c07_costs_round_is_nearest_away.
Print Assumptions c07_costs_from_floats_defined.
Print Assumptions c07_float_problem_cost_dom.
Print Assumptions c07_float_transport_problem_no_overflow.
Print Assumptions c07_costs_nan_refuted.
Print Assumptions c07_costs_inf_refuted.
Print Assumptions c07_costs_negative_refuted.
Print Assumptions c07_reoptimize_costs_finite_nonneg.
Print Assumptions c07_penalty_factor_in_unit.
Print Assumptions c07_reoptimize_transport_no_overflow.
Print Assumptions c07_reoptimize_nan_target_refuted.
