(* C07: the C++-typed intermediate values of computeSubdivisions (src/utils/helpers.hpp:10-23), called by
   DensityGrid::updateBinsToNumber (density_grid.cpp:104-111) with number = std::max(1, extent / maxSize), over
   the ideal model Density.subdivisions.  As the file reads NOW on /repo main (after the repair of F16):
       for (int i = 0; i < number + 1; ++i)
         ret.push_back(min + static_cast<int>(static_cast<long long>(i) * (max - min) / number));
   min, max, number, i are int; the product and the quotient are long long, narrowed to int before the sum.
   `subdiv_vals_pre` is the text BEFORE the repair: min + (i * (max - min) / number), all in int.
   The type annotations are transcribed BY HAND from the C++ text (modelled, not verified). *)
From Coq Require Import List ZArith Lia Bool.
Import ListNotations.
Require Import CV.Density CV.RowLegMachine.
Local Open Scope Z_scope.

Definition subdiv_iter_vals (mn mx n : Z) (i : nat) : list (cty * Z) :=
  let k := Z.of_nat i in
  [(I32, n + 1);                                   (* number + 1 (loop test) *)
   (I64, k);                                       (* static_cast<long long>(i) *)
   (I32, mx - mn);                                 (* max - min                           (int) *)
   (I64, k * (mx - mn));                           (* (long long) i * (max - min)         (long long) *)
   (I64, Z.quot (k * (mx - mn)) n);                (* ... / number                        (long long) *)
   (I32, Z.quot (k * (mx - mn)) n);                (* static_cast<int>(...) *)
   (I32, mn + Z.quot (k * (mx - mn)) n);           (* min + ...                           (int, pushed) *)
   (I32, k + 1)].                                  (* ++i *)

Definition subdiv_vals (mn mx n : Z) : list (cty * Z) :=
  flat_map (subdiv_iter_vals mn mx n) (seq 0 (S (Z.to_nat n))).

(* the listing is about the model: the pushed values are Density.subdivisions *)
Definition pushed (mn mx n : Z) : list Z :=
  map (fun i => mn + Z.quot (Z.of_nat i * (mx - mn)) n) (seq 0 (S (Z.to_nat n))).

(* the domain C07 speaks of: an interval inside [-2^22, 2^22] cut into 1 <= number < INT_MAX parts *)
Definition subdiv_dom (mn mx n : Z) : Prop :=
  -4194304 <= mn /\ mn <= mx /\ mx <= 4194304 /\ 1 <= n < 2147483647.

(* the text before the repair: every operation in int *)
Definition subdiv_iter_vals_pre (mn mx n : Z) (i : nat) : list (cty * Z) :=
  let k := Z.of_nat i in
  [(I32, n + 1); (I32, mx - mn);
   (I32, k * (mx - mn));                           (* i * (max - min)                     int * int -> int *)
   (I32, Z.quot (k * (mx - mn)) n); (I32, mn + Z.quot (k * (mx - mn)) n); (I32, k + 1)].
Definition subdiv_vals_pre (mn mx n : Z) : list (cty * Z) :=
  flat_map (subdiv_iter_vals_pre mn mx n) (seq 0 (S (Z.to_nat n))).
