(* C14 -- termination of Transportation1dSolver::run: the fuel given to the `while` loop of push(i)
   (Transp1d.loop_fuel) always suffices on a well-formed sorted problem, so that run/solve/assign of the
   model never answer EFuel on inputs that pass check().
   Invariants of the sweep state (between two pushes, K = S[i]; inside the loop of push(i), K = S[i+1]):
     0 <= lastPosition;  every event position is in (0, lastPosition] and the queue is sorted;
     lastOccupiedSink, optimalSink < nbSinks;  D[lastOccupiedSink] <= lastPosition + K.
   Measure of the loop: #events left of lastPosition + 2 * (nbSinks-1-lastOccupiedSink) + [lastPosition > 0]. *)
From Coq Require Import List ZArith Lia Bool Arith.
Import ListNotations.
Require Import CV.Transp1d CV.Transp1dProofs.
Local Open Scope Z_scope.

(* ---------------------------------------------------------------- the event queue *)
Fixpoint ev_sorted (l : list event) : Prop :=
  match l with
  | x :: r => match r with y :: _ => fst y <= fst x | [] => True end /\ ev_sorted r
  | [] => True
  end.

Definition EvOK (L : Z) (l : list event) : Prop := ev_sorted l /\ forall e, In e l -> 0 < fst e <= L.

Definition cnt (L : Z) (l : list event) : nat := length (filter (fun e => fst e <? L) l).

Lemma ev_insert_in x l e : In e (ev_insert x l) <-> e = x \/ In e l.
Proof.
  induction l as [|y r IH]; cbn [ev_insert].
  - cbn. intuition.
  - destruct (ev_le y x); cbn [In]; [intuition|]. rewrite IH. intuition.
Qed.

Lemma ev_insert_length x l : length (ev_insert x l) = S (length l).
Proof. induction l as [|y r IH]; cbn [ev_insert]; [reflexivity|]. destruct (ev_le y x); cbn [length]; [reflexivity|]. rewrite IH. reflexivity. Qed.

Lemma ev_le_fst y x : ev_le y x = true -> fst y <= fst x.
Proof. unfold ev_le. intros H. apply orb_prop in H. destruct H as [H|H]; [apply Z.ltb_lt in H; lia|]. apply andb_prop in H. destruct H as [H _]. apply Z.eqb_eq in H. lia. Qed.
Lemma ev_le_false_fst y x : ev_le y x = false -> fst x <= fst y.
Proof. unfold ev_le. intros H. apply orb_false_iff in H. destruct H as [H _]. apply Z.ltb_ge in H. exact H. Qed.

Lemma ev_insert_sorted x l : ev_sorted l -> ev_sorted (ev_insert x l).
Proof.
  induction l as [|y r IH]; intros H; cbn [ev_insert].
  - cbn. auto.
  - destruct (ev_le y x) eqn:C.
    + cbn [ev_sorted]. split; [apply ev_le_fst; exact C|exact H].
    + destruct H as [H1 H2]. specialize (IH H2). cbn [ev_sorted]. split; [|exact IH].
      destruct r as [|z t]; cbn [ev_insert].
      * apply ev_le_false_fst. exact C.
      * destruct (ev_le z x); [apply ev_le_false_fst; exact C|exact H1].
Qed.

Lemma sorted_head_max x l : ev_sorted (x :: l) -> forall e, In e l -> fst e <= fst x.
Proof.
  revert x. induction l as [|y r IH]; intros x H e He; [contradiction|].
  destruct H as [H1 H2]. destruct He as [<-|He]; [exact H1|]. specialize (IH y H2 e He). lia.
Qed.

Lemma EvOK_insert L x l : EvOK L l -> 0 < fst x <= L -> EvOK L (ev_insert x l).
Proof.
  intros [H1 H2] Hx. split; [apply ev_insert_sorted; exact H1|].
  intros e He. apply ev_insert_in in He. destruct He as [->|He]; [exact Hx|apply H2; exact He].
Qed.

Lemma EvOK_mono L L' l : EvOK L l -> L <= L' -> EvOK L' l.
Proof. intros [H1 H2] HL. split; [exact H1|]. intros e He. specialize (H2 e He). lia. Qed.

Lemma cnt_insert L x l : cnt L (ev_insert x l) = (cnt L l + (if (fst x <? L)%Z then 1 else 0))%nat.
Proof.
  unfold cnt. induction l as [|y r IH]; cbn [ev_insert].
  - cbn [filter]. destruct (fst x <? L); reflexivity.
  - destruct (ev_le y x); cbn [filter].
    + destruct (fst x <? L), (fst y <? L); cbn [length]; lia.
    + destruct (fst y <? L); cbn [length]; rewrite IH; lia.
Qed.

Lemma cnt_le_length L l : (cnt L l <= length l)%nat.
Proof. unfold cnt. induction l as [|y r IH]; cbn [filter length]; [lia|]. destruct (fst y <? L); cbn [length]; lia. Qed.

Lemma cnt_all L l : (forall e, In e l -> fst e < L) -> cnt L l = length l.
Proof.
  unfold cnt. induction l as [|y r IH]; intros H; [reflexivity|]. cbn [filter].
  assert (fst y < L) by (apply H; left; reflexivity). destruct (Z.ltb_spec (fst y) L); [|lia].
  cbn [length]. rewrite IH; [reflexivity|]. intros e He. apply H. right. exact He.
Qed.

(* the popping loop of getSlope *)
Lemma pop_at_spec L : forall l sl r, EvOK L l -> pop_at L l = (sl, r) ->
  ev_sorted r /\ (forall e, In e r -> 0 < fst e < L) /\ cnt L l = length r.
Proof.
  induction l as [|[p d] t IH]; intros sl r [H1 H2] E; cbn [pop_at] in E.
  - inversion E; subst. split; [exact I|]. split; [intros e []|reflexivity].
  - destruct (Z.eqb_spec p L) as [->|Hne].
    + destruct (pop_at L t) as [sl' r'] eqn:E'. inversion E; subst.
      destruct (IH sl' r) as (I1 & I2 & I3).
      { split; [destruct H1; assumption|]. intros e He. apply H2. right. exact He. }
      { reflexivity. }
      repeat split; try assumption; try (apply I2; assumption). unfold cnt in *. cbn [filter fst]. rewrite Z.ltb_irrefl. exact I3.
    + inversion E; subst. split; [exact H1|].
      assert (Hp : 0 < p < L). { specialize (H2 (p, d) (or_introl eq_refl)). cbn in H2. lia. }
      assert (Hall : forall e, In e ((p, d) :: t) -> 0 < fst e < L).
      { intros e [<-|He]; [exact Hp|]. pose proof (sorted_head_max _ _ H1 e He) as Q. cbn in Q.
        specialize (H2 e (or_intror He)). lia. }
      split; [exact Hall|]. apply cnt_all. intros e He. apply Hall. exact He.
Qed.

(* the loops that push events *)
Lemma fold_ins_spec (pos d : nat -> Z) L : forall js evs,
  EvOK L evs -> (forall j, In j js -> pos j <= L) ->
  let evs' := fold_left (fun evs j => if 0 <? pos j then ev_insert (pos j, d j) evs else evs) js evs in
  EvOK L evs' /\ forall L', (cnt L' evs' <= cnt L' evs + length js)%nat.
Proof.
  induction js as [|j r IH]; intros evs H1 H2; cbn [fold_left].
  - split; [exact H1|]. intros; lia.
  - destruct (Z.ltb_spec 0 (pos j)) as [Hp|Hp].
    + destruct (IH (ev_insert (pos j, d j) evs)) as [I1 I2].
      { apply EvOK_insert; [exact H1|]. cbn [fst]. split; [exact Hp|apply H2; left; reflexivity]. }
      { intros k Hk. apply H2. right. exact Hk. }
      split; [exact I1|]. intros L'. specialize (I2 L'). rewrite cnt_insert in I2. cbn [length].
      destruct (fst (pos j, d j) <? L'); lia.
    + destruct (IH evs H1) as [I1 I2]; [intros k Hk; apply H2; right; exact Hk|].
      split; [exact I1|]. intros L'. specialize (I2 L'). cbn [length]. lia.
Qed.

(* ---------------------------------------------------------------- the sweep state *)
Record sinv (P : sprob) (K : Z) (s : st) : Prop := {
  i_lp : 0 <= lp s;
  i_ev : EvOK (lp s) (ev s);
  i_lo : (lo s < n_snk P)%nat;
  i_os : (os s < n_snk P)%nat;
  i_d : Dx P (lo s) <= lp s + K }.

Definition Psi (P : sprob) (s : st) : nat :=
  (cnt (lp s) (ev s) + 2 * (n_snk P - 1 - lo s) + (if (0 <? lp s)%Z then 1 else 0))%nat.

Lemma Dx_mono P : wf_sprob P -> forall j k, (j <= k)%nat -> (k <= n_snk P)%nat -> Dx P j <= Dx P k.
Proof.
  intros W j k Hjk Hk. induction k as [|k IH]; [replace j with O by lia; lia|].
  destruct (Nat.eq_dec j (S k)) as [->|Hne]; [lia|].
  assert (Dx P j <= Dx P k) by (apply IH; lia).
  assert (Dx P k < Dx P (k + 1)) by (apply Dx_step; [exact W|lia]).
  replace (S k) with (k + 1)%nat by lia. lia.
Qed.

Lemma upd_opt_lt P i : forall f j, (j < n_snk P)%nat -> (upd_opt P i f j < n_snk P)%nat.
Proof.
  induction f as [|f IH]; intros j Hj; cbn [upd_opt]; [exact Hj|].
  destruct (Nat.ltb_spec (j + 1) (n_snk P)); cbn [andb]; [|exact Hj].
  destruct (cost P i (j + 1) <=? cost P i j); [apply IH; assumption|exact Hj].
Qed.

(* getSlope(false) in a state with lastPosition > 0 *)
Lemma gs_false_spec P K s : sinv P K s -> 0 < lp s ->
  let s1 := snd (get_slope false s) in
  sinv P K s1 /\ lp s1 = lp s /\ lo s1 = lo s /\ cnt (lp s1) (ev s1) = cnt (lp s) (ev s).
Proof.
  intros I Hlp. unfold get_slope. destruct (pop_at (lp s) (ev s)) as [sl evs] eqn:E. cbn [snd negb andb].
  destruct (pop_at_spec _ _ _ _ (i_ev _ _ _ I) E) as (Q1 & Q2 & Q3).
  assert (OK : EvOK (lp s) evs) by (split; [exact Q1|intros e He; specialize (Q2 e He); lia]).
  assert (C : cnt (lp s) evs = length evs) by (apply cnt_all; intros e He; apply Q2; exact He).
  destruct (negb (sl =? 0)).
  - split; [|split; [reflexivity|split; [reflexivity|]]].
    + constructor; cbn [lp ev lo os pp]; try apply I. apply EvOK_insert; [exact OK|cbn; lia].
    + cbn [lp ev]. rewrite cnt_insert. cbn [fst]. rewrite Z.ltb_irrefl. lia.
  - split; [|split; [reflexivity|split; [reflexivity|]]].
    + constructor; cbn [lp ev lo os pp]; try apply I. exact OK.
    + cbn [lp ev]. lia.
Qed.

(* pushToLastSink, called with lastPosition > 0 and the loop condition of push(i) *)
Lemma ptls_spec P i s : wf_sprob P -> sinv P (Sx P (i + 1)) s -> 0 < lp s ->
  Dx P (lo s + 1) - Sx P (i + 1) < lp s ->
  let s' := push_to_last_sink P i s in
  sinv P (Sx P (i + 1)) s' /\ lo s' = lo s /\
  ((cnt (lp s') (ev s') + (if (0 <? lp s')%Z then 1 else 0) < cnt (lp s) (ev s) + 1)%nat \/
   lp s' <= Dx P (lo s + 1) - Sx P (i + 1)).
Proof.
  intros W I Hlp Hc. unfold push_to_last_sink, get_slope.
  destruct (pop_at (lp s) (ev s)) as [sl evs] eqn:E. cbn [negb andb ev lp lo os pp].
  destruct (pop_at_spec _ _ _ _ (i_ev _ _ _ I) E) as (Q1 & Q2 & Q3).
  set (K := Sx P (i + 1)) in *.
  assert (HD : Dx P (lo s) <= Dx P (lo s + 1)) by (apply Dx_mono; [exact W|lia|pose proof (i_lo _ _ _ I); lia]).
  set (minPos := Z.max (Dx P (lo s + 1) - K) 0).
  destruct evs as [|[x d] t].
  - (* the queue is empty after the pops *)
    destruct (Z.ltb_spec 0 minPos) as [Hm|Hm].
    + split; [|split; [reflexivity|]].
      * constructor; cbn [lp ev lo os pp]; try apply I; try lia.
        split; [cbn; auto|]. intros e [<-|[]]. cbn. lia.
      * right. cbn [lp]. lia.
    + split; [|split; [reflexivity|]].
      * constructor; cbn [lp ev lo os pp]; try apply I; try lia.
        split; [exact Logic.I|intros e []].
      * left. cbn [lp ev]. destruct (Z.ltb_spec 0 minPos); [lia|]. unfold cnt at 1. cbn. lia.
  - (* next event at x *)
    assert (Hx : 0 < x < lp s) by (apply (Q2 (x, d)); left; reflexivity).
    assert (Hmax : 0 < Z.max minPos x) by lia.
    destruct (Z.ltb_spec 0 (Z.max minPos x)); [|lia].
    assert (OK : EvOK (Z.max minPos x) ((x, d) :: t)).
    { split; [exact Q1|]. intros e [<-|He]; [cbn; lia|].
      pose proof (sorted_head_max _ _ Q1 e He) as Q. cbn in Q. specialize (Q2 e (or_intror He)). lia. }
    split; [|split; [reflexivity|]].
    + constructor; cbn [lp ev lo os pp]; try apply I; try lia.
      apply EvOK_insert; [exact OK|cbn; lia].
    + cbn [lp ev]. destruct (Z.ltb_spec 0 (Z.max minPos x)); [|lia].
      destruct (Z.le_gt_cases minPos x) as [Hle|Hgt].
      * left. rewrite cnt_insert. cbn [fst]. rewrite Z.ltb_irrefl.
        replace (Z.max minPos x) with x by lia.
        unfold cnt at 1. cbn [filter fst]. rewrite Z.ltb_irrefl. fold (cnt x t).
        pose proof (cnt_le_length x t). rewrite Q3. cbn [length]. lia.
      * right. lia.
Qed.

(* pushToNewSink when a further sink exists *)
Lemma ptns_spec P i s : wf_sprob P -> sinv P (Sx P (i + 1)) s -> (lo s + 1 < n_snk P)%nat ->
  Dx P (lo s + 1) - Sx P (i + 1) < lp s ->
  let s' := push_to_new_sink P i s in
  sinv P (Sx P (i + 1)) s' /\ lo s' = (lo s + 1)%nat /\ lp s' = lp s /\ (cnt (lp s') (ev s') <= cnt (lp s) (ev s) + 1)%nat.
Proof.
  intros W Iv Hlo Hc. unfold push_to_new_sink, push_new_sink_events.
  destruct (Nat.leb_spec (lo s + 1) (lo s)); [lia|].
  replace (lo s + 1 - lo s)%nat with 1%nat by lia.
  destruct (fold_ins_spec (fun l => Z.min (Dx P (l + 1) - Sx P i) (lp s)) (fun l => cost P i l - cost P i (l + 1)) (lp s)
              (seq (lo s) 1) (ev s) (i_ev _ _ _ Iv)) as [F1 F2].
  { intros j _. lia. }
  cbn zeta in F1, F2.
  split; [|split; [reflexivity|split; [reflexivity|]]].
  - constructor; cbn [lp ev lo os pp]; try apply Iv; try lia. exact F1.
  - cbn [lp ev]. specialize (F2 (lp s)). cbn [length seq] in F2. exact F2.
Qed.

Lemma Psi_bound P s : (lo s < n_snk P)%nat -> (Psi P s < loop_fuel P s)%nat.
Proof.
  intros H. unfold Psi, loop_fuel. pose proof (cnt_le_length (lp s) (ev s)). destruct (0 <? lp s); lia.
Qed.

(* one iteration of the loop of push(i) *)
Lemma push_once_step P i s : wf_sprob P -> Sx P (i + 1) <= Dx P (n_snk P) -> sinv P (Sx P (i + 1)) s ->
  Dx P (lo s + 1) - Sx P (i + 1) < lp s ->
  let s' := push_once P i s in
  sinv P (Sx P (i + 1)) s' /\ ((Psi P s' < Psi P s)%nat \/ lp s' <= Dx P (lo s' + 1) - Sx P (i + 1)).
Proof.
  intros W Hfe Iv Hc. unfold push_once.
  pose proof (i_lo _ _ _ Iv) as Hlo. pose proof (i_lp _ _ _ Iv) as Hlp0.
  destruct (Nat.eqb_spec (lo s) (n_snk P - 1)) as [Elo|Elo].
  - (* last sink *)
    assert (Hlp : 0 < lp s). { replace (lo s + 1)%nat with (n_snk P) in Hc by lia. lia. }
    destruct (ptls_spec P i s W Iv Hlp Hc) as (R1 & R2 & R3). cbn zeta in R1, R2, R3.
    split; [exact R1|]. rewrite R2. destruct R3 as [R3|R3]; [left|right; exact R3].
    unfold Psi. rewrite R2. destruct (Z.ltb_spec 0 (lp s)); [|lia]. lia.
  - destruct (Z.eqb_spec (lp s) 0) as [E0|E0].
    + destruct (ptns_spec P i s W Iv ltac:(lia) Hc) as (R1 & R2 & R3 & R4). cbn zeta in R1, R2, R3, R4.
      split; [exact R1|]. left. unfold Psi. rewrite R3 in R4. rewrite R2, R3. lia.
    + assert (Hlp : 0 < lp s) by lia.
      destruct (gs_false_spec P _ s Iv Hlp) as (G1 & G2 & G3 & G4). cbn zeta in G1, G2, G3, G4.
      destruct (get_slope false s) as [sl s1] eqn:Egs. cbn [snd] in G1, G2, G3, G4.
      assert (Hc1 : Dx P (lo s1 + 1) - Sx P (i + 1) < lp s1) by (rewrite G2, G3; exact Hc).
      destruct (cost P i (lo s + 1) <=? sl + cost P i (lo s)).
      * destruct (ptns_spec P i s1 W G1 ltac:(lia) Hc1) as (R1 & R2 & R3 & R4). cbn zeta in R1, R2, R3, R4.
        split; [exact R1|]. left. unfold Psi. rewrite R3 in R4. rewrite G4, G2 in R4. rewrite R2, R3, G2, G3. lia.
      * destruct (ptls_spec P i s1 W G1 ltac:(lia) Hc1) as (R1 & R2 & R3). cbn zeta in R1, R2, R3.
        split; [exact R1|]. rewrite R2. destruct R3 as [R3|R3]; [left|right; exact R3].
        unfold Psi. rewrite R2, G3. rewrite G4 in R3. destruct (Z.ltb_spec 0 (lp s)); [|lia]. lia.
Qed.

Lemma push_loop_stop P i fuel s : lp s <= Dx P (lo s + 1) - Sx P (i + 1) -> push_loop P i fuel s = Some s.
Proof. intros H. destruct fuel; cbn [push_loop]; destruct (Z.ltb_spec (Dx P (lo s + 1) - Sx P (i + 1)) (lp s)); try lia; reflexivity. Qed.

Lemma push_loop_terminates P i : wf_sprob P -> Sx P (i + 1) <= Dx P (n_snk P) ->
  forall fuel s, sinv P (Sx P (i + 1)) s -> (Psi P s < fuel)%nat ->
  exists s', push_loop P i fuel s = Some s' /\ sinv P (Sx P (i + 1)) s'.
Proof.
  intros W Hfe. induction fuel as [|f IH]; intros s Iv Hf; [lia|].
  cbn [push_loop]. destruct (Z.ltb_spec (Dx P (lo s + 1) - Sx P (i + 1)) (lp s)) as [Hc|Hc].
  - destruct (push_once_step P i s W Hfe Iv Hc) as [R1 R2]. cbn zeta in R1, R2.
    destruct R2 as [R2|R2].
    + apply IH; [exact R1|lia].
    + rewrite push_loop_stop by exact R2. eexists. split; [reflexivity|exact R1].
  - exists s. split; [reflexivity|exact Iv].
Qed.

Lemma first_idx_le f l : (first_idx f l <= length l)%nat.
Proof. induction l as [|y r IH]; cbn [first_idx length]; [lia|]. destruct (f y); lia. Qed.

(* push(i) *)
Lemma push_terminates P i s : wf_sprob P -> (i < n_src P)%nat -> sinv P (Sx P i) s ->
  exists s', push P i s = Some s' /\ sinv P (Sx P (i + 1)) s'.
Proof.
  intros W Hi Iv. unfold push.
  set (s1 := {| ev := ev s; lp := lp s; lo := lo s; os := upd_opt P i (n_snk P) (os s); pp := pp s |}).
  assert (I1 : sinv P (Sx P i) s1).
  { constructor; cbn [lp ev lo os pp]; try apply Iv. apply upd_opt_lt. apply Iv. }
  set (s2 := push_new_source_events P i s1).
  assert (I2 : sinv P (Sx P i) s2).
  { subst s2. destruct i as [|i1]; [exact I1|]. cbn [push_new_source_events].
    match goal with |- context [fold_left _ (seq ?b ?c) _] => set (b0 := b); set (c0 := c) end.
    destruct (fold_ins_spec (fun j => Dx P (j + 1) - Sx P (S i1)) (fun j => delta P i1 j) (lp s1) (seq b0 c0) (ev s1) (i_ev _ _ _ I1)) as [F1 _].
    { intros j Hj. apply in_seq in Hj. subst c0.
      assert ((j + 1 <= lo s1)%nat) by lia.
      assert (Dx P (j + 1) <= Dx P (lo s1)) by (apply Dx_mono; [exact W|lia|pose proof (i_lo _ _ _ I1); lia]).
      pose proof (i_d _ _ _ I1). lia. }
    cbn zeta in F1. constructor; cbn [lp ev lo os pp]; try apply I1. exact F1. }
  assert (P2 : lp s2 = lp s1 /\ lo s2 = lo s1 /\ os s2 = os s1) by (pose proof (pnse_proj P i s1) as Q; cbn zeta in Q; tauto).
  set (s3 := {| ev := ev s2; lp := Z.max (lp s2) (Dx P (os s2) - Sx P i); lo := lo s2; os := os s2; pp := pp s2 |}).
  assert (I3 : sinv P (Sx P i) s3).
  { subst s3. constructor; cbn [lp ev lo os pp]; try apply I2.
    - pose proof (i_lp _ _ _ I2). lia.
    - eapply EvOK_mono; [apply I2|lia].
    - pose proof (i_d _ _ _ I2). lia. }
  set (s4 := push_new_sink_events P i (os s3) s3).
  assert (HS : Sx P i <= Sx P (i + 1)) by (apply Sx_mono; [exact W|lia|lia]).
  assert (I4 : sinv P (Sx P (i + 1)) s4).
  { subst s4. unfold push_new_sink_events. destruct (Nat.leb_spec (os s3) (lo s3)).
    - constructor; try apply I3. pose proof (i_d _ _ _ I3). lia.
    - destruct (fold_ins_spec (fun l => Z.min (Dx P (l + 1) - Sx P i) (lp s3)) (fun l => cost P i l - cost P i (l + 1)) (lp s3)
                  (seq (lo s3) (os s3 - lo s3)) (ev s3) (i_ev _ _ _ I3)) as [F1 _].
      { intros j _. lia. }
      cbn zeta in F1. constructor; cbn [lp ev lo os pp]; try apply I3.
      + exact F1.
      + subst s3. cbn [lp os]. lia. }
  assert (Hfe : Sx P (i + 1) <= Dx P (n_snk P)).
  { assert (Sx P (i + 1) <= Sx P (n_src P)) by (apply Sx_mono; [exact W|lia|lia]).
    rewrite Sx_n in H by exact W. rewrite Dx_m by exact W. pose proof (w_tot _ W). lia. }
  destruct (push_loop_terminates P i W Hfe (loop_fuel P s4) s4 I4 (Psi_bound P s4 (i_lo _ _ _ I4))) as (s5 & E5 & I5).
  rewrite E5. eexists. split; [reflexivity|].
  constructor; cbn [lp ev lo os pp]; apply I5.
Qed.

Lemma push_all_terminates P : wf_sprob P -> forall c i s, (i + c = n_src P)%nat -> sinv P (Sx P i) s ->
  exists s', push_all P (seq i c) s = Some s'.
Proof.
  intros W. induction c as [|c IH]; intros i s Hic Iv; cbn [seq push_all].
  - exists s. reflexivity.
  - destruct (push_terminates P i s W ltac:(lia) Iv) as (s1 & E1 & I1). rewrite E1.
    apply (IH (S i)); [lia|]. replace (S i) with (i + 1)%nat by lia. exact I1.
Qed.

(* F: run() terminates within the fuel of the model on every well-formed sorted problem *)
Theorem run_terminates P : wf_sprob P -> exists p, run P = Some p.
Proof.
  intros W. unfold run.
  destruct (Nat.eq_dec (n_src P) 0) as [E|E].
  - rewrite E. cbn [seq push_all]. eexists. reflexivity.
  - assert (Hm : (0 < n_snk P)%nat).
    { destruct (n_snk P) eqn:Em; [|lia]. exfalso.
      assert (Sx P 0 < Sx P (0 + 1)) by (apply Sx_step; [exact W|lia]).
      assert (Sx P (0 + 1) <= Sx P (n_src P)) by (apply Sx_mono; [exact W|lia|lia]).
      rewrite Sx_n in H0 by exact W. rewrite Sx_0 in H by exact W.
      pose proof (Dx_m P W) as Q. rewrite Em in Q. rewrite Dx_0 in Q by exact W. pose proof (w_tot _ W). lia. }
    destruct (push_all_terminates P W (n_src P) 0 init_st ltac:(lia)) as [s' E'].
    + constructor; cbn [init_st lp ev lo os pp]; try lia.
      * split; [exact I|intros e []].
      * rewrite Dx_0, Sx_0 by exact W. lia.
    + rewrite E'. eexists. reflexivity.
Qed.

(* solve() and assign() of the model answer a plan / an assignment on every input accepted by check() *)
Theorem solve_total pb : check pb = None -> exists sol, solve pb = Ok sol.
Proof.
  intros Ck. unfold solve. rewrite Ck.
  destruct (run_terminates _ (convert_wf pb (check_none pb Ck))) as [p R]. rewrite R. eexists. reflexivity.
Qed.

Theorem assign_total pb : check pb = None -> exists r, assign pb = Ok r.
Proof.
  intros Ck. unfold assign, assign_with. rewrite Ck. pose proof (check_none pb Ck) as C.
  destruct (run_terminates _ (convert_wf pb C)) as [p R]. rewrite R.
  destruct (assign_core pb p C R) as (_ & a & r & A & B & _). rewrite A, B. eexists. reflexivity.
Qed.
