(* C08, static part no. 2 -- sources of run-to-run nondeterminism.  The table [nondet_facts] (coq/Nondet_gen.v) is
   GENERATED on every run by tools/nondet.py from clang's AST and a token scan of the tree under check.  Definitions
   only; the (small) proofs are in DeterminismProofs.v. *)
From Coq Require Import List String Bool.
Import ListNotations.
Local Open Scope string_scope.

Inductive nkind := NClockPrint | NClockVar | NClockOther | NRng | NSource.
Record nfact := mkN { n_where : string; n_kind : nkind; n_detail : string; n_line : nat }.

Definition harmless (k : nkind) : bool :=
  match k with
  | NClockPrint | NClockVar | NRng => true     (* clock values that only reach a print; engines (deterministic by themselves) *)
  | NClockOther | NSource => false             (* the wall clock or another external source can influence the computation *)
  end.

Definition nondet_okb (l : list nfact) : bool := forallb (fun f => harmless (n_kind f)) l.

(* Prop reading: every clock-derived value of the library only flows into variables and prints, and no other source
   of nondeterminism (random_device, rand, getenv, pid, thread id, addresses ...) occurs in the source *)
Definition nondet_ok (l : list nfact) : Prop :=
  forall f, In f l -> n_kind f = NClockPrint \/ n_kind f = NClockVar \/ n_kind f = NRng.
