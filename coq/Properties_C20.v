(* C20 -- file export and Python layer are faithful to the circuit.
   Models: Ispd.v (Circuit::exportIspd of src/export.cpp as lines of tokens with a printer; _read_aux/_read_nodes/
   _read_nets/_read_place/_read_rows/read_ispd of pycoloquinte/coloquinte.py; the binding rule) and the GENERATED
   table Bindings_gen.v (tools/bindings.py, from pycoloquinte/module.cpp and src/coloquinte.hpp of the tree under
   check, rewritten on every run of ./check C20).  Tied to the code by ./check C20: the printed model files are
   compared byte for byte with the files the real exportIspd writes; the real coloquinte.py reads them and is
   compared with the model's reader; the round trip is re-evaluated on the real code.
   The exporter modelled is the REPAIRED one (/repo main 77fa5a3, f1ef6a6, 120fb14, 0e7a1bc: "fix: exportIspd drops the row orientation",
   "fix: exportIspd writes pin offsets of the oriented cell"); the unchanged tree is refuted below (finding F14). *)
From Coq Require Import String.
From Coq Require Import List ZArith Lia Bool.
Import ListNotations.
Require Import CV.Orient CV.Hpwl CV.Ispd CV.IspdProofs CV.Bindings_gen.
Local Open Scope string_scope.
Local Open Scope Z_scope.

(* [F for the TOKEN-LEVEL model] round trip, for every circuit of the domain [wf] (eight real orientations for cells
   and rows; every pin on an existing cell with |offset - size/2| < 10^5 -- the range in which operator<<(double) is
   exact, a fact carried by the byte-for-byte tie only: the token model ASSUMES print/parse inverse (tok_int (TInt z) =
   Some z, tok_float2 (THalf k) = Some k), no lemma relates print_line / print_half to the reader and text_exact is not
   used by this proof; no empty net; one row height, rows present, and not (row height 0 with a cell of height <= 0) --
   read_ispd refuses the rest, so wf is narrower than "all circuits the format can carry") and
   every file name TOKEN (a name is an opaque TFile token: _read_aux's split() and os.path.join are not modelled, so for
   the real code the claim is restricted to names without whitespace; names with a directory part: finding F27, fixed): the package's own reader applied to the exported files succeeds and returns a circuit equal
   to the original on cell sizes, fixed flags, positions, orientations, net connectivity, pin offsets, row
   geometry and row orientation ([project]; cell_is_obstruction, polarity and net weights are not carried by
   the format and are not claimed). *)
Theorem c20_roundtrip :
  forall name c, wf c -> exists r, read_ispd (export_ispd name c) name = Some r /\ project r = project c.
Proof. exact roundtrip. Qed.

(* [F] "... and therefore the same wirelength": Circuit::hpwl (Hpwl.hpwl, C09) depends only on the projection *)
Theorem c20_projection_determines_hpwl :
  forall r c, project r = project c -> circuit_hpwl r = circuit_hpwl c.
Proof. exact same_projection_same_hpwl. Qed.

Theorem c20_roundtrip_same_hpwl :
  forall name c, wf c -> exists r, read_ispd (export_ispd name c) name = Some r /\ circuit_hpwl r = circuit_hpwl c.
Proof. exact roundtrip_hpwl. Qed.

(* [F] the domain is decidable by the boolean the check uses to select in-domain cases *)
Theorem c20_domain_checker_correct : forall c, wfb c = true <-> wf c.
Proof. exact wfb_correct. Qed.

(* [F, finite: the complete generated table] every py::enum_ value, def_readwrite, def_property and
   def_property_readonly of module.cpp binds the C++ entity of the same name, declared in coloquinte.hpp in the
   bound class (or a base): enum value = enumerator name; attribute snake_case = member camelCase; property
   getter camel(name) with setter "set"+Cap(camel(name)); read-only getter camel(name) or "compute"+Cap(...).
   [binding_ok] is the Prop-level rule, [binding_okb] its boolean (binding_okb_correct); the proof evaluates the
   boolean on the generated table, so it is re-established (or fails) for the module.cpp of every run. *)
Theorem c20_bindings_ok : Forall (binding_ok decls) bindings.
Proof. exact (bindings_okb_all decls bindings (eq_refl true)). Qed.

Theorem c20_binding_checker_correct : forall d b, binding_okb d b = true <-> binding_ok d b.
Proof. exact binding_okb_correct. Qed.

(* [R] the UNCHANGED tree (finding F14), three ways.  (1) exporter writing the oriented pinXOffset/pinYOffset
   minus half the unoriented size: an FN cell's pin comes back moved and the wirelength changes; *)
Theorem c20_unfixed_pin_offsets_refuted :
  exists c, wf c /\ exists r, read_ispd (export_ispd_v false true "c" c) "c" = Some r /\
                              project r <> project c /\ circuit_hpwl r <> circuit_hpwl c.
Proof. exact unfixed_pins_refuted. Qed.

(* (2) exporter writing the constant "Siteorient : 1": an FS row comes back N; *)
Theorem c20_unfixed_row_orientation_refuted :
  exists c, wf c /\ exists r, read_ispd (export_ispd_v true false "c" c) "c" = Some r /\
                              map rorient (rows r) <> map rorient (rows c).
Proof. exact unfixed_rows_refuted. Qed.

(* (3) module.cpp lines 39-40 of the unchanged tree: Python NW and SE bound to CellRowPolarity::ANY *)
Theorem c20_unfixed_bindings_refuted :
  let d := [DEnum "CellRowPolarity" ["ANY"; "SAME"; "OPPOSITE"; "NW"; "SE"]] in
  ~ binding_ok d (mkB BEnum "CellRowPolarity" "CellRowPolarity" "NW" "CellRowPolarity" "ANY" "" "" 39) /\
  ~ binding_ok d (mkB BEnum "CellRowPolarity" "CellRowPolarity" "SE" "CellRowPolarity" "ANY" "" "" 40).
Proof. exact unfixed_bindings_refuted. Qed.

(* non-vacuity: a circuit of the domain with a turned+flipped cell carrying pins (half-integer centre offsets),
   a fixed cell, a net with a repeated cell, an unplaced cell, and rows of two orientations *)
Definition c20_example : circuit :=
  mkCircuit [mkCell 3 5 false true pANY 7 4 oFE; mkCell 4 2 true false pSAME (-3) 0 oS; mkCell 1 1 false true pANY 0 0 oN]
            [[mkPin 0 1 (-2); mkPin 1 4 2; mkPin 0 3 5]; [mkPin 2 0 1]]
            [mkRow 0 20 0 2 oN; mkRow 0 20 2 4 oFS].
Example c20_nonvacuous_roundtrip :
  wf c20_example /\
  (exists r, read_ispd (export_ispd "design" c20_example) "design" = Some r /\ project r = project c20_example /\
             circuit_hpwl r = 23) /\
  circuit_hpwl c20_example = 23 /\
  print_line (pin_line true (cells c20_example) (mkPin 0 1 (-2))) = tab ++ "o0 I : -0.5 -4.5" ++ newline.
Proof.
  split; [apply wfb_correct; vm_compute; reflexivity|]. split; [|split; vm_compute; reflexivity].
  eexists. split; [vm_compute; reflexivity|]. split; vm_compute; reflexivity.
Qed.
(* the generated table is not empty: each kind of binding the rule speaks about occurs *)
Example c20_nonvacuous_bindings :
  forallb (fun k => existsb (fun b => match bk b, k with BEnum, BEnum | BReadWrite, BReadWrite | BProperty, BProperty
                                                       | BPropertyRO, BPropertyRO => true | _, _ => false end) bindings)
          [BEnum; BReadWrite; BProperty; BPropertyRO] = true /\
  camel "nb_steps_before_rough_legalization" = "nbStepsBeforeRoughLegalization" /\
  String.append "set" (cap (camel "cell_is_fixed")) = "setCellIsFixed".
Proof. vm_compute. auto. Qed.

Print Assumptions c20_roundtrip.
Print Assumptions c20_projection_determines_hpwl.
Print Assumptions c20_roundtrip_same_hpwl.
Print Assumptions c20_domain_checker_correct.
Print Assumptions c20_bindings_ok.
Print Assumptions c20_binding_checker_correct.
Print Assumptions c20_unfixed_pin_offsets_refuted.
Print Assumptions c20_unfixed_row_orientation_refuted.
Print Assumptions c20_unfixed_bindings_refuted.
