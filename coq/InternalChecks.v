(* C01 / C02 -- the INTERNAL consistency tests of the legalizer and of the detailed placer, line by line:
     LegalizerBase::check            src/place_detailed/legalizer.cpp:65-96
     AbacusLegalizer::check          src/place_detailed/abacus_legalizer.cpp:117-138   (called at the end of AbacusLegalizer::run, :37)
     Legalizer::exportPlacement      legalizer.cpp:186-205   ("Circuit does not match legalizer for export")
     computeNorm                     src/utils/norm.hpp:28    ("Unknown legalization model")
     DetailedPlacement::check        src/place_detailed/detailed_placement.cpp:474-585 (constructor :222, runShifts place_detailed.cpp:442,
                                     DetailedPlacer::check :928)
     IncrNetModel::check             src/place_detailed/incr_net_model.cpp:260-313
     DetailedPlacer::check           place_detailed.cpp:927-941 (place :87, :89, runReordering :895)
   and the models of Legalizer::run / DetailedPlacer::legalize WITH these tests (legalize_chk, legalize_circuit_chk,
   legalize_entry).  RowReordering::check (place_detailed.cpp:854), RowNeighbourhood::check and RowLegalizer::check are never
   called by the library (only defined); TetrisLegalizer has no check().
   A test result is three-valued: CPass, CFail e (the C++ throws std::runtime_error with the text err_text e), CUB (the C++
   would read a vector out of bounds: undefined behaviour, never a default value).
   Definitions only; proofs: InternalChecksProofs.v (C01), InternalChecksDetailedProofs.v (C02). *)
From Coq Require Import String List ZArith Lia Bool.
Import ListNotations.
Require Import CV.Orient CV.FreeSpace CV.RowLeg CV.Circuit CV.Legalizer.
Local Open Scope Z_scope.

Inductive chk_err :=
(* LegalizerBase::check *)
| ELbWidths | ELbHeights | ELbTargetX | ELbTargetY | ELbTargetO | ELbX | ELbY | ELbO | ELbRowHeights
(* AbacusLegalizer::check *)
| EAbBefore | EAbAfter | EAbOverlap
(* Legalizer::exportPlacement, computeNorm *)
| EExportMismatch | ENormModel
(* DetailedPlacement::check *)
| EDpRowSize | EDpCellSize | EDpFirstLast | EDpFirstRow | EDpLastRow | EDpRowNumber | EDpLoose
| EDpPredRow | EDpPredOverlap | EDpFirstCell | EDpOutOfRow | EDpNextRow | EDpNextOverlap | EDpLastCell | EDpOrientation
(* IncrNetModel::check *)
| EInNets | EInPins | EInCell | EInNetPins | EInCells | EInCellPins | EInNet | EInBound | EInValue
(* DetailedPlacer::check *)
| EPlX | EPlY.

(* e.what() *)
Definition err_text (e : chk_err) : string :=
  match e with
  | ELbWidths => "Number of cell widths does not match"%string
  | ELbHeights => "Number of cell heights does not match"%string
  | ELbTargetX => "Number of cell x targets does not match"%string
  | ELbTargetY => "Number of cell y targets does not match"%string
  | ELbTargetO => "Number of cell orientation targets does not match"%string
  | ELbX => "Number of cell x positions does not match"%string
  | ELbY => "Number of cell y positions does not match"%string
  | ELbO => "Number of cell orientations does not match"%string
  | ELbRowHeights => "Rows have different heights"%string
  | EAbBefore => "Cell placed before the row"%string
  | EAbAfter => "Cell placed after the row"%string
  | EAbOverlap => "Cell overlap detected"%string
  | EExportMismatch => "Circuit does not match legalizer for export"%string
  | ENormModel => "Unknown legalization model"%string
  | EDpRowSize => "Row size mismatch"%string
  | EDpCellSize => "Cell size mismatch"%string
  | EDpFirstLast => "Inconcistency between first and last cell"%string
  | EDpFirstRow => "Inconsistency in the first row cell"%string
  | EDpLastRow => "Inconsistency in the last row cell"%string
  | EDpRowNumber => "Invalid row number"%string
  | EDpLoose => "Non-placed cell should have no predecessor/successor"%string
  | EDpPredRow => "Row inconsistency with the predecessor"%string
  | EDpPredOverlap => "Overlap with the predecessor"%string
  | EDpFirstCell => "Inconsistent first row cell"%string
  | EDpOutOfRow => "Element is out of the row"%string
  | EDpNextRow => "Row inconsistency with the successor"%string
  | EDpNextOverlap => "Overlap with the successor"%string
  | EDpLastCell => "Inconsistent last row cell"%string
  | EDpOrientation => "Cell orientation seems incompatible with its row"%string
  | EInNets => "Net number mismatch"%string
  | EInPins => "Pin number mismatch"%string
  | EInCell => "Invalid cell number"%string
  | EInNetPins => "Invalid number of pins in nets"%string
  | EInCells => "Cell number mismatch"%string
  | EInCellPins => "Invalid number of pins in cell"%string
  | EInNet => "Invalid net number"%string
  | EInBound => "Mismatched net bound"%string
  | EInValue => "Wrong incremental value"%string
  | EPlX => "X placement is not consistant"%string
  | EPlY => "Y placement is not consistant"%string
  end.

Inductive chk_res := CPass | CFail (e : chk_err) | CUB.

(* statement; statement *)
Definition cseq (a b : chk_res) : chk_res := match a with CPass => b | _ => a end.
(* for (x : l) body(x); *)
Fixpoint call {A} (f : A -> chk_res) (l : list A) : chk_res :=
  match l with [] => CPass | a :: t => cseq (f a) (call f t) end.
(* if (cond) throw e; *)
Definition throw_if (cond : bool) (e : chk_err) : chk_res := if cond then CFail e else CPass.
(* a sequence of `if (cond) throw e;` *)
Fixpoint first_err (l : list (bool * chk_err)) : chk_res :=
  match l with [] => CPass | (c, e) :: t => if c then CFail e else first_err t end.
Definition neq_len {A} (l : list A) (n : nat) : bool := negb (Nat.eqb (length l) n).

(* ====================================================================================================== *)
(* C01: the legalizer *)

(* the fields of LegalizerBase (legalizer.hpp), one list per std::vector *)
Record leg_state := {
  lg_rows : list row;                 (* rows_ *)
  lg_w : list Z; lg_h : list Z;       (* cellWidth_, cellHeight_ *)
  lg_pol : list polarity;             (* cellRowPolarity_ *)
  lg_tx : list Z; lg_ty : list Z; lg_to : list orient;   (* cellTargetX_, cellTargetY_, cellTargetOrientation_ *)
  lg_x : list Z; lg_y : list Z; lg_o : list orient;      (* cellToX_, cellToY_, cellToOrientation_ *)
  lg_placed : list bool }.            (* cellIsPlaced_ *)

Definition lg_nb (s : leg_state) : nat := length (lg_w s).       (* nbCells() = cellWidth_.size() *)
Definition row_h (r : row) : Z := maxY (rr r) - minY (rr r).     (* Rectangle::height() *)

(* LegalizerBase::check.  rowHeight() = rows_.front().height() is only evaluated inside `for (Row r : rows_)`, i.e. when
   rows_ is not empty: its "No row present" cannot be thrown here *)
Definition base_check (s : leg_state) : chk_res :=
  let n := lg_nb s in
  cseq (first_err [ (neq_len (lg_w s) n, ELbWidths); (neq_len (lg_h s) n, ELbHeights); (neq_len (lg_tx s) n, ELbTargetX);
                    (neq_len (lg_ty s) n, ELbTargetY); (neq_len (lg_to s) n, ELbTargetO); (neq_len (lg_x s) n, ELbX);
                    (neq_len (lg_y s) n, ELbY); (neq_len (lg_o s) n, ELbO) ])
       (match lg_rows s with
        | [] => CPass
        | r0 :: _ => call (fun r => throw_if (negb (row_h r =? row_h r0)) ELbRowHeights) (lg_rows s)
        end).

(* AbacusLegalizer: LegalizerBase + rowToCells_ (rowLegalizers_ is not read by check()) *)
Record ab_state := { ab_base : leg_state; ab_rtc : list (list nat) }.

(* abacus_legalizer.cpp:121-126, one cell c of rowToCells_[i], rows_[i] = r *)
Definition ab_cell_in_row (s : leg_state) (r : row) (c : nat) : chk_res :=
  match nth_error (lg_x s) c with
  | None => CUB
  | Some x =>
      if x <? minX (rr r) then CFail EAbBefore else
      match nth_error (lg_w s) c with
      | None => CUB
      | Some w => throw_if (maxX (rr r) <? x + w) EAbAfter
      end
  end.

(* :119-128  for (i < nbRows()) for (c : rowToCells_[i]) *)
Fixpoint ab_loop1 (s : leg_state) (rows : list row) (rtc : list (list nat)) : chk_res :=
  match rows with
  | [] => CPass
  | r :: rows' => match rtc with
                  | [] => CUB
                  | rc :: rtc' => cseq (call (ab_cell_in_row s r) rc) (ab_loop1 s rows' rtc')
                  end
  end.

(* :130-136  for (j + 1 < size) c1 = row[j], c2 = row[j+1]: cellToX_[c1] + cellWidth_[c1] > cellToX_[c2] *)
Definition ab_pair (s : leg_state) (c1 c2 : nat) : chk_res :=
  match nth_error (lg_x s) c1, nth_error (lg_w s) c1, nth_error (lg_x s) c2 with
  | Some x1, Some w1, Some x2 => throw_if (x2 <? x1 + w1) EAbOverlap
  | _, _, _ => CUB
  end.
Fixpoint ab_row_overlap (s : leg_state) (rc : list nat) : chk_res :=
  match rc with
  | c1 :: ((c2 :: _) as t) => cseq (ab_pair s c1 c2) (ab_row_overlap s t)
  | _ => CPass
  end.
(* :129-137 *)
Fixpoint ab_loop2 (s : leg_state) (rows : list row) (rtc : list (list nat)) : chk_res :=
  match rows with
  | [] => CPass
  | _ :: rows' => match rtc with
                  | [] => CUB
                  | rc :: rtc' => cseq (ab_row_overlap s rc) (ab_loop2 s rows' rtc')
                  end
  end.

(* AbacusLegalizer::check *)
Definition abacus_check (a : ab_state) : chk_res :=
  cseq (base_check (ab_base a))
  (cseq (ab_loop1 (ab_base a) (lg_rows (ab_base a)) (ab_rtc a))
        (ab_loop2 (ab_base a) (lg_rows (ab_base a)) (ab_rtc a))).

(* ---------- the state at the point AbacusLegalizer::run calls check() (abacus_legalizer.cpp:37) ----------
   rows_ = the sorted rows; the constant vectors = the constructor arguments; cellToX_/Y_/Orientation_ = the targets
   (LegalizerBase constructor :59-61) overwritten by the read-back loop :27-36 for the cells of rowToCells_ -- in the model
   Legalizer.abacus_run returns Some (x, y, o) exactly for the overwritten cells; rowToCells_ = the lists the loop over the
   cells ends with (Legalizer.abacus_state) *)
Definition placed_x (c : cell) (p : placed) : Z := match p with Some (x, _, _) => x | None => ctx c end.
Definition placed_y (c : cell) (p : placed) : Z := match p with Some (_, y, _) => y | None => cty c end.
Definition placed_o (c : cell) (p : placed) : orient := match p with Some (_, _, o) => o | None => cor c end.
Definition placed_b (p : placed) : bool := match p with Some _ => true | None => false end.

Definition leg_state_of (rows : list row) (cells : list cell) (res : list placed) : leg_state :=
  {| lg_rows := rows; lg_w := map cw cells; lg_h := map ch cells; lg_pol := map cpol cells;
     lg_tx := map ctx cells; lg_ty := map cty cells; lg_to := map cor cells;
     lg_x := map (fun cp => placed_x (fst cp) (snd cp)) (combine cells res);
     lg_y := map (fun cp => placed_y (fst cp) (snd cp)) (combine cells res);
     lg_o := map (fun cp => placed_o (fst cp) (snd cp)) (combine cells res);
     lg_placed := map placed_b res |}.

Definition ab_final (rows0 : list row) (cells : list cell) : ab_state :=
  let rows := sort_rows rows0 in
  {| ab_base := leg_state_of rows cells (abacus_run rows0 cells);
     ab_rtc := snd (fst (abacus_state rows cells)) |}.

(* ---------- Legalizer::run with the test (legalizer.cpp:294-304; runAbacus :332-356 -> AbacusLegalizer::run -> check()) ----------
   Legalizer.legalize with one more outcome.  Without rows and with a cell in the order, runTetris throws "No row present"
   (rowHeight(), :315) before any AbacusLegalizer exists; without rows and without such a cell the AbacusLegalizer is built on
   no rows and no cells *)
Inductive outcome_chk := KOk (pl : list (Z * Z * orient)) | KNoRow | KNotAllPlaced | KCheck (e : chk_err) | KUB.

Definition after_check (r : chk_res) (k : outcome_chk) : outcome_chk :=
  match r with CPass => k | CFail e => KCheck e | CUB => KUB end.

Definition legalize_chk (rows0 : list row) (cells : list cell) (order : list nat) : outcome_chk :=
  let rows := sort_rows rows0 in
  let st0 := map (fun _ => @None (Z * Z * orient)) cells in
  let any_unplaced st := existsb (fun ci => match nth_error st ci with Some None => true | _ => false end) order in
  match rows with
  | [] => if any_unplaced st0 then KNoRow
          else after_check (abacus_check (ab_final [] [])) (if (length cells =? 0)%nat then KOk [] else KNotAllPlaced)
  | r0 :: _ =>
    let rh := maxY (rr r0) - minY (rr r0) in
    let sel1 := select cells st0 order (fun c => rh <? ch c) in
    let st1 := import st0 sel1 (tetris_run (remaining_rows rows cells st0) (map snd sel1)) in
    let sel2 := select cells st1 order (fun c => ch c =? rh) in
    after_check (abacus_check (ab_final (remaining_rows rows cells st1) (map snd sel2)))
      (let st2 := import st1 sel2 (abacus_run (remaining_rows rows cells st1) (map snd sel2)) in
       if forallb (fun p => match p with Some _ => true | None => false end) st2
       then KOk (flat_map (fun p => match p with Some v => [v] | None => [] end) st2)
       else KNotAllPlaced)
  end.

Definition outcome_inj (o : outcome) : outcome_chk :=
  match o with Ok pl => KOk pl | NoRow => KNoRow | NotAllPlaced => KNotAllPlaced end.

(* ---------- Legalizer::exportPlacement :186-205: j counts the non-fixed cells; n = nbCells() of the legalizer ---------- *)
Fixpoint export_chk (cs : list ccell) (j n : nat) : chk_res :=
  match cs with
  | [] => CPass
  | k :: t => if c_fixed k then export_chk t j n
              else if (n <=? j)%nat then CFail EExportMismatch else export_chk t (S j) n
  end.

(* computeNorm (utils/norm.hpp): the switch over LegalizationModel 0..5, `default: throw` *)
Definition norm_check (model : Z) : chk_res := throw_if (negb ((0 <=? model) && (model <=? 5))) ENormModel.

(* ---------- DetailedPlacer::legalize (place_detailed.cpp:46-73) after params.check(): fromIspdCircuit, run, meanDistance(costModel)
   (norm, when there is a cell), exportPlacement.  The callback part (:65-72, "Updating the size ... is not supported") belongs to
   the callback protocol (C10) ---------- *)
Inductive leg_result_chk := LcOk (c' : circuit) | LcNoRow | LcNotAllPlaced | LcCheck (e : chk_err) | LcUB.

Definition legalize_circuit_chk (costModel : Z) (c : circuit) (order : list nat) : leg_result_chk :=
  match legalize_chk (free_rows c) (leg_cells c) order with
  | KOk pl =>
      match cseq (match leg_cells c with [] => CPass | _ => norm_check costModel end)
                 (export_chk (cells c) 0 (length (leg_cells c))) with
      | CPass => LcOk {| rows := rows c; cells := export_cells (cells c) pl |}
      | CFail e => LcCheck e
      | CUB => LcUB
      end
  | KNoRow => LcNoRow
  | KNotAllPlaced => LcNotAllPlaced
  | KCheck e => LcCheck e
  | KUB => LcUB
  end.

Definition leg_result_inj (r : leg_result) : leg_result_chk :=
  match r with LegOk c' => LcOk c' | LegNoRow => LcNoRow | LegNotAllPlaced => LcNotAllPlaced end.

(* ---------- corrupted states (tie and non-vacuity only): one entry of one vector of an AbacusLegalizer overwritten ----------
   kind 0: cellToX_[i] = v     1: cellWidth_[i] = v     2: rowToCells_[i][j] = v     3: rows_[i].minX = v     4: rows_[i].maxX = v
        5: rows_[i].maxY = v   6: push_back on vector i (0 cellHeight_, 1 cellTargetX_, 2 cellTargetY_, 3 cellTargetOrientation_,
                                  4 cellToX_, 5 cellToY_, 6 cellToOrientation_; the value pushed is v / CellOrientation::N)
   an index out of range leaves the state as it is *)
Definition set_rect (r : row) (a b y1 y2 : Z) : row := {| rr := {| minX := a; maxX := b; minY := y1; maxY := y2 |}; ro := ro r |}.
Definition upd_with {A} (l : list A) (i : nat) (f : A -> A) : list A :=
  match nth_error l i with Some a => upd l i (f a) | None => l end.

Definition lg_set (s : leg_state) rows w h tx ty to_ x y o : leg_state :=
  {| lg_rows := rows; lg_w := w; lg_h := h; lg_pol := lg_pol s; lg_tx := tx; lg_ty := ty; lg_to := to_;
     lg_x := x; lg_y := y; lg_o := o; lg_placed := lg_placed s |}.

Definition ab_perturb (a : ab_state) (kind i j : nat) (v : Z) : ab_state :=
  let s := ab_base a in
  let same rows w h tx ty to_ x y o := {| ab_base := lg_set s rows w h tx ty to_ x y o; ab_rtc := ab_rtc a |} in
  match kind with
  | 0%nat => same (lg_rows s) (lg_w s) (lg_h s) (lg_tx s) (lg_ty s) (lg_to s) (upd (lg_x s) i v) (lg_y s) (lg_o s)
  | 1%nat => same (lg_rows s) (upd (lg_w s) i v) (lg_h s) (lg_tx s) (lg_ty s) (lg_to s) (lg_x s) (lg_y s) (lg_o s)
  | 2%nat => {| ab_base := s; ab_rtc := upd_with (ab_rtc a) i (fun rc => upd rc j (Z.to_nat v)) |}
  | 3%nat => same (upd_with (lg_rows s) i (fun r => set_rect r v (maxX (rr r)) (minY (rr r)) (maxY (rr r))))
                  (lg_w s) (lg_h s) (lg_tx s) (lg_ty s) (lg_to s) (lg_x s) (lg_y s) (lg_o s)
  | 4%nat => same (upd_with (lg_rows s) i (fun r => set_rect r (minX (rr r)) v (minY (rr r)) (maxY (rr r))))
                  (lg_w s) (lg_h s) (lg_tx s) (lg_ty s) (lg_to s) (lg_x s) (lg_y s) (lg_o s)
  | 5%nat => same (upd_with (lg_rows s) i (fun r => set_rect r (minX (rr r)) (maxX (rr r)) (minY (rr r)) v))
                  (lg_w s) (lg_h s) (lg_tx s) (lg_ty s) (lg_to s) (lg_x s) (lg_y s) (lg_o s)
  | 6%nat =>
      match i with
      | 0%nat => same (lg_rows s) (lg_w s) (lg_h s ++ [v]) (lg_tx s) (lg_ty s) (lg_to s) (lg_x s) (lg_y s) (lg_o s)
      | 1%nat => same (lg_rows s) (lg_w s) (lg_h s) (lg_tx s ++ [v]) (lg_ty s) (lg_to s) (lg_x s) (lg_y s) (lg_o s)
      | 2%nat => same (lg_rows s) (lg_w s) (lg_h s) (lg_tx s) (lg_ty s ++ [v]) (lg_to s) (lg_x s) (lg_y s) (lg_o s)
      | 3%nat => same (lg_rows s) (lg_w s) (lg_h s) (lg_tx s) (lg_ty s) (lg_to s ++ [oN]) (lg_x s) (lg_y s) (lg_o s)
      | 4%nat => same (lg_rows s) (lg_w s) (lg_h s) (lg_tx s) (lg_ty s) (lg_to s) (lg_x s ++ [v]) (lg_y s) (lg_o s)
      | 5%nat => same (lg_rows s) (lg_w s) (lg_h s) (lg_tx s) (lg_ty s) (lg_to s) (lg_x s) (lg_y s ++ [v]) (lg_o s)
      | _ => same (lg_rows s) (lg_w s) (lg_h s) (lg_tx s) (lg_ty s) (lg_to s) (lg_x s) (lg_y s) (lg_o s ++ [oN])
      end
  | _ => a
  end.

(* what the tie prints for a state *)
Definition res_code (r : chk_res) : string :=
  match r with CPass => "ok"%string | CFail e => err_text e | CUB => "UB"%string end.
