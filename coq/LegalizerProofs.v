From Coq Require Import List ZArith Lia Bool.
Import ListNotations.
Require Import CV.Orient CV.FreeSpace CV.RowLeg CV.Circuit CV.CircuitProofs CV.Legalizer.
Local Open Scope Z_scope.

(* an error leaves the circuit exactly as it was *)
Lemma circuit_after_error c order :
  (forall c', legalize_circuit c order <> LegOk c') -> circuit_after c order = c.
Proof. unfold circuit_after. destruct (legalize_circuit c order) as [c'| |]; intros H; [exfalso; apply (H c'); reflexivity| |]; reflexivity. Qed.

(* the frame of exportPlacement: only x, y, orientation of non-fixed cells can change *)
Definition same_frame (a b : ccell) : Prop :=
  c_w a = c_w b /\ c_h a = c_h b /\ c_pol a = c_pol b /\ c_fixed a = c_fixed b /\ c_obs a = c_obs b /\
  (c_fixed a = true -> a = b).

Lemma export_cells_frame cs : forall pl,
  Forall2 same_frame cs (export_cells cs pl).
Proof.
  induction cs as [|k cs IH]; intros pl; cbn [export_cells]; [constructor|].
  destruct (c_fixed k) eqn:F.
  - constructor; [|apply IH]. unfold same_frame. repeat split; reflexivity.
  - destruct pl as [|[[x y] o] pl].
    + constructor; [|apply IH]. unfold same_frame. repeat split; try reflexivity.
    + constructor; [|apply IH]. unfold same_frame; cbn. repeat split; try reflexivity; try (symmetry; exact F); try congruence.
Qed.

Lemma legalize_circuit_frame c order c' :
  legalize_circuit c order = LegOk c' -> rows c' = rows c /\ Forall2 same_frame (cells c) (cells c').
Proof.
  unfold legalize_circuit. destruct (legalize _ _ _) as [pl| |]; try discriminate.
  intros [= <-]. cbn. split; [reflexivity|apply export_cells_frame].
Qed.

(* the legalizer run under the proved legality checker *)
Definition legalize_checked (c : circuit) (order : list nat) : option circuit :=
  match legalize_circuit c order with
  | LegOk c' => if legalb c' then Some c' else None
  | _ => None
  end.

Lemma legalize_checked_sound c order c' :
  legalize_checked c order = Some c' -> legalize_circuit c order = LegOk c' /\ legal c'.
Proof.
  unfold legalize_checked. destruct (legalize_circuit c order) as [c1| |]; try discriminate.
  destruct (legalb c1) eqn:L; [|discriminate]. intros [= <-]. split; [reflexivity|apply legalb_correct; exact L].
Qed.
