(* C19 -- invalid inputs are refused with an error, not undefined behaviour.
   Model: Params.v (parameters.cpp check()/constructors, coloquinte.cpp setters/addNet/setNets/check,
   entry of placeGlobal/legalize/placeDetailed); generated defaults table ParamsDefaults_gen.v
   (dumped from the C++ on every run); proofs in ParamsProofs.v.  The model follows the REPAIRED code
   (finding F13; on /repo main the three repairs are 7d9492b, 4923091, 6486076 -- developed as d9ad548, f145d5b,
   7682226 on agent/C19, the ids used in the comments below); the `_refuted` items are about the
   `_orig` definitions that model the code before the repair and document the finding.
   Labels: [F] all inputs; [F, finite] nine efforts by computation over the generated table;
   [R] refuted for the unrepaired model. *)
From Coq Require Import String List ZArith QArith Bool Lia.
Import ListNotations.
Require Import CV.Params CV.ParamsDefaults_gen CV.ParamsProofs.
Local Open Scope Z_scope.

(* ---------------------------------------------------------------- efforts *)

(* [F, finite] every effort from 1 to 9 yields parameters that pass the check *)
Theorem c19_efforts_1_9_pass : forall e s, 1 <= e <= 9 ->
  exists p, coloquinte_ctor default_tables e s = Ok p /\ check_coloquinte p = None /\ cp_seed p = s.
Proof. exact efforts_1_9_pass. Qed.

(* [F, finite] ... and so does each public sub-constructor *)
Theorem c19_sub_constructors_pass : forall e, 1 <= e <= 9 -> sub_ctors_pass e = true.
Proof. exact sub_ctors_pass_all. Qed.

(* [F] an effort outside 1..9 is refused with the catchable error, whatever the effort-indexed
   tables contain -- even empty ones: no table is read before the refusal *)
Theorem c19_constructor_refuses_before_indexing : forall T e s,
  e < 1 \/ e > 9 -> coloquinte_ctor T e s = Throw MEffort.
Proof. exact coloquinte_ctor_refuses. Qed.

Theorem c19_sub_constructors_refuse_before_indexing : forall T e, e < 1 \/ e > 9 ->
  global_ctor T e = Throw MEffort /\ rough_ctor T e = Throw MEffort /\
  penalty_ctor T e = Throw MEffort /\ detailed_ctor T e = Throw MEffort.
Proof.
  intros T e H. repeat split;
    [apply global_ctor_refuses|apply rough_ctor_refuses|apply penalty_ctor_refuses|apply detailed_ctor_refuses]; exact H.
Qed.

(* [F] with nine-entry tables, no effort at all makes the constructor read out of bounds or abort *)
Theorem c19_constructor_never_crashes : forall T e s, tables_9 T -> ~ crashes (coloquinte_ctor T e s).
Proof. exact coloquinte_ctor_no_crash. Qed.

(* [R] before repair d9ad548: every effort outside 1..9 read squareSizeArray[effort-1] out of bounds
   (UBSan: "index -1 out of bounds for type 'int [9]'", parameters.cpp:207) *)
Theorem c19_constructor_refuses_before_indexing_refuted :
  exists e s, (e < 1 \/ e > 9) /\ coloquinte_ctor_orig default_tables e s = UBIndex.
Proof. exact coloquinte_ctor_orig_ub. Qed.

Theorem c19_constructor_orig_always_ub : forall T e s,
  tables_9 T -> e < 1 \/ e > 9 -> coloquinte_ctor_orig T e s = UBIndex.
Proof. exact coloquinte_ctor_orig_ub_all. Qed.

(* [R] before the repair DetailedPlacerParameters(effort) aborted in interpolateEffort's assert *)
Theorem c19_detailed_constructor_refuted : exists e, detailed_ctor_orig default_tables e = AbortAssert.
Proof. exact detailed_ctor_orig_aborts. Qed.

(* ---------------------------------------------------------------- check() *)

(* [F; a Prop-level READING of check(), not an independent specification: coloquinte_ok is a hand transcription of
   the same *_tests lists (the checker proved against itself).  The header documents no ranges, and two messages
   of the C++ disagree with the accepted sets ("between 0 and 0.5" vs [-0.1, 0.9f]; "0<...<1" vs [-1, 2])]
   check() returns no message iff the Prop-level ranges hold (over Q with the exact binary bounds) *)
Theorem c19_check_accepts_exactly_the_ranges : forall p, check_coloquinte p = None <-> coloquinte_ok p.
Proof. exact coloquinte_check_ok. Qed.

(* [F] which message: the first failing test in the C++ order of evaluation *)
Theorem c19_check_first_failure : forall p m, check_coloquinte p = Some m ->
  exists l1 l2, coloquinte_tests p = l1 ++ (true, m) :: l2 /\ forall c m', In (c, m') l1 -> c = false.
Proof. intros p m. exact (first_fail_first (coloquinte_tests p) m). Qed.

(* ---------------------------------------------------------------- entry of the stages *)

(* [by construction of the model + validated per run: `enter` (Params.v) is a three-line function with the check first,
   so "before any placement work" is how the model is written; what the C++ does before check() -- the InUseGuard
   write (excluded from the comparison), the parameter copy in place_detailed.cpp -- is not modelled]
   a rejected parameter set is refused by an exception before any placement work and leaves
   the circuit exactly as it was (all 14 vectors and the three flags), at all three stages *)
Theorem c19_rejected_params_leave_circuit : forall s p c m,
  check_coloquinte p = Some m -> enter s p c = CThrow m c.
Proof. exact rejected_params_leave_circuit. Qed.

(* [F, same reading] the stages refuse exactly the parameter sets outside coloquinte_ok (the transcription of check()) *)
Theorem c19_refused_iff_out_of_range : forall s p c,
  (exists m, enter s p c = CThrow m c) <-> ~ coloquinte_ok p.
Proof. exact rejected_iff_out_of_range. Qed.

(* [F] place*(int effort) with a bad effort: refused, circuit untouched *)
Theorem c19_rejected_effort_leaves_circuit : forall T s e c,
  e < 1 \/ e > 9 -> enter_effort T s e c = CThrow MEffort c.
Proof. exact rejected_effort_leaves_circuit. Qed.

(* [R] before repair 7682226 legalize/placeDetailed cleared hasCellSizeUpdate_/hasNetUpdate_ before
   rejecting the parameters *)
Theorem c19_rejected_params_leave_circuit_refuted : exists s p c m,
  check_coloquinte p = Some m /\ enter_orig s p c <> CThrow m c.
Proof. exact enter_orig_modifies. Qed.

(* ---------------------------------------------------------------- setters *)

(* [F] every vector setter with a length requirement refuses every wrong length, and says so *)
Theorem c19_setters_refuse_wrong_length : forall a c n,
  setter_expected a c = Some n -> arg_len a <> n -> run_setter a c = CThrow (setter_len_msg a) c.
Proof. exact setter_refuses_wrong_length. Qed.

(* [F] the requirement is the number of cells (the number of nets for setNetWeights; none for setRows) *)
Theorem c19_setter_requirements : forall a c,
  setter_expected a c = Some (nbCells c) \/
  (exists v, a = ANetWeights v /\ setter_expected a c = Some (nbNets c)) \/
  (exists v, a = ARows v /\ setter_expected a c = None).
Proof. exact setter_expected_cases. Qed.

(* [F] a setter either succeeds or throws with the circuit unchanged; success keeps Circuit::check
   satisfied *)
Theorem c19_setter_total : forall a c, exists r, run_setter a c = COk r \/ exists m, run_setter a c = CThrow m c.
Proof. exact setter_total. Qed.

Theorem c19_setter_preserves_consistency : forall a c c',
  consistent c -> run_setter a c = COk c' -> consistent c' /\ nbCells c' = nbCells c /\ pinCells c' = pinCells c.
Proof. exact setter_preserves_consistent. Qed.

(* ---------------------------------------------------------------- nets *)

(* [F] addNet refuses inconsistent lengths and pins that name non-existent cells; the circuit is
   unchanged *)
Theorem c19_addnet_refuses_bad_cell : forall cells xs ys w c,
  (zlen cells <> zlen xs \/ zlen cells <> zlen ys \/ exists i, In i cells /\ (i < 0 \/ nbCells c <= i)) ->
  exists m, add_net cells xs ys w c = CThrow m c.
Proof. exact add_net_refuses. Qed.

(* [F] setNets accepts exactly the well-formed arguments, otherwise throws with the circuit unchanged *)
Theorem c19_setnets_accepts_iff : forall lim cells xs ys ws c, isInUse c = false ->
  ((exists c', set_nets lim cells xs ys ws c = COk c') <-> set_nets_wellformed lim cells xs ys ws c).
Proof. exact set_nets_accepts_iff. Qed.

Theorem c19_setnets_total : forall lim cells xs ys ws c,
  (exists c', set_nets lim cells xs ys ws c = COk c') \/ (exists m, set_nets lim cells xs ys ws c = CThrow m c).
Proof. exact set_nets_total. Qed.

(* [F] invariant: Circuit::check satisfied and every stored pin names an existing cell *)
Theorem c19_addnet_invariant : forall cells xs ys w c c',
  consistent c -> pins_in_range c = true -> add_net cells xs ys w c = COk c' ->
  consistent c' /\ pins_in_range c' = true /\ nbCells c' = nbCells c.
Proof. exact add_net_ok_invariant. Qed.

Theorem c19_setnets_invariant : forall lim cells xs ys ws c c',
  consistent c -> set_nets lim cells xs ys ws c = COk c' ->
  consistent c' /\ pins_in_range c' = true /\ nbCells c' = nbCells c.
Proof. exact set_nets_ok_invariant. Qed.

(* [R] before repair f145d5b: addNet stored a pin on cell 5 of a 2-cell circuit; setNets aborted
   (assert) on inconsistent limits and stored cell -1 *)
Theorem c19_addnet_refuses_bad_cell_refuted : exists cells xs ys w c c',
  consistent c /\ pins_in_range c = true /\ add_net_orig cells xs ys w c = COk c' /\ pins_in_range c' = false.
Proof. exact add_net_orig_accepts_bad_cell. Qed.

Theorem c19_setnets_refuses_refuted :
  (exists lim cells xs ys ws c, set_nets_orig lim cells xs ys ws c = CAbort) /\
  (exists lim cells xs ys ws c c',
     consistent c /\ set_nets_orig lim cells xs ys ws c = COk c' /\ pins_in_range c' = false).
Proof. split; [exact set_nets_orig_aborts|exact set_nets_orig_accepts_bad_cell]. Qed.

(* ---------------------------------------------------------------- non-vacuity *)

(* the default parameters of effort 3 with one field pushed just outside: rejected with that
   field's message, and the stage leaves a non-trivial circuit as it was *)
Definition ex_params (f : DetailedParams -> DetailedParams) : option ColoquinteParams :=
  match coloquinte_ctor default_tables 3 7 with
  | Ok p => Some {| cp_global := cp_global p; cp_legalization := cp_legalization p;
                    cp_detailed := f (cp_detailed p); cp_seed := 7 |}
  | _ => None
  end.
Definition ex_circuit : CState :=
  match add_net [0; 1] [1; 2] [3; 4] 2 (upd_flags (circuit_new 2) true true) with COk c => c | _ => circuit_new 0 end.

Example c19_efforts_nonvacuous :
  match coloquinte_ctor default_tables 9 5 with
  | Ok p => rl_squareReoptSize (gp_roughLegalization (cp_global p)) = 5 /\ cp_seed p = 5
  | _ => False
  end.
Proof. vm_compute. split; reflexivity. Qed.

Example c19_refusal_nonvacuous :
  coloquinte_ctor default_tables 10 0 = Throw MEffort /\
  coloquinte_ctor {| t_rough := []; t_penalty := []; t_global := []; t_detailed := [];
                     t_continuous := gen_continuous; t_legalization := gen_legalization |} (-3) 0 = Throw MEffort.
Proof. split; reflexivity. Qed.

Example c19_rejected_nonvacuous :
  match ex_params (fun d => {| dp_nbPasses := dp_nbPasses d; dp_localSearchNbNeighbours := dp_localSearchNbNeighbours d;
                               dp_localSearchNbRows := dp_localSearchNbRows d; dp_shiftNbRows := 0;
                               dp_shiftMaxNbCells := dp_shiftMaxNbCells d; dp_reorderingNbRows := dp_reorderingNbRows d;
                               dp_reorderingMaxNbCells := dp_reorderingMaxNbCells d |}) with
  | Some p => check_coloquinte p = Some MDpShiftRows /\
              enter SLegalize p ex_circuit = CThrow MDpShiftRows ex_circuit /\
              nbNets ex_circuit = 1 /\ hasNetUpdate ex_circuit = true
  | None => False
  end.
Proof. vm_compute. repeat split; reflexivity. Qed.

Example c19_check_nonvacuous :
  (* 0.9f is accepted as rough-legalization target blending, the next double above it is not *)
  let p r := {| rl_costModel := 0; rl_nbSteps := 1; rl_binSize := 5 # 1; rl_lineReoptSize := 2; rl_lineReoptOverlap := 1;
                rl_diagReoptSize := 2; rl_diagReoptOverlap := 1; rl_squareReoptSize := 3; rl_squareReoptOverlap := 1;
                rl_unidimensionalTransport := true; rl_quadraticPenalty := 0 # 1; rl_sideMargin := 0 # 1;
                rl_coarseningLimit := 100 # 1; rl_targetBlending := r |} in
  check_rough (p f_0p9) = None /\
  check_rough (p (8106479114518529 # 9007199254740992)) = Some MRlBlend /\
  check_rough (p (9 # 10)) = Some MRlBlend.
Proof. vm_compute. repeat split; reflexivity. Qed.

Example c19_setters_nonvacuous :
  run_setter (ACellX [1; 2; 3]) ex_circuit = CThrow MNbElements ex_circuit /\
  run_setter (ACellX [1]) ex_circuit = CThrow MNbElements ex_circuit /\
  (exists c', run_setter (ACellX [1; 2]) ex_circuit = COk c' /\ cellX c' = [1; 2]) /\
  run_setter (ANetWeights []) ex_circuit = CThrow MNbWeights ex_circuit.
Proof. vm_compute. repeat split; try reflexivity. eexists. split; reflexivity. Qed.

Example c19_nets_nonvacuous :
  add_net [0; 2] [0; 0] [0; 0] 1 ex_circuit = CThrow MBadCell ex_circuit /\
  add_net [0; -1] [0; 0] [0; 0] 1 ex_circuit = CThrow MBadCell ex_circuit /\
  add_net [0; 1] [0] [0; 0] 1 ex_circuit = CThrow MNetPins ex_circuit /\
  set_nets [0; 2] [0] [0] [0] [] ex_circuit = CThrow MSnPins ex_circuit /\
  set_nets [0; 1] [2] [0] [0] [] ex_circuit = CThrow MBadCell ex_circuit /\
  (exists c', set_nets [0; 1; 3] [1; 0; 1] [0; 0; 0] [0; 0; 0] [] ex_circuit = COk c' /\
              netWeights c' = [1; 1] /\ consistent c' /\ pins_in_range c' = true).
Proof. vm_compute. repeat split; try reflexivity. eexists. repeat split; reflexivity. Qed.

Print Assumptions c19_efforts_1_9_pass.
Print Assumptions c19_sub_constructors_pass.
Print Assumptions c19_constructor_refuses_before_indexing.
Print Assumptions c19_sub_constructors_refuse_before_indexing.
Print Assumptions c19_constructor_never_crashes.
Print Assumptions c19_constructor_refuses_before_indexing_refuted.
Print Assumptions c19_constructor_orig_always_ub.
Print Assumptions c19_detailed_constructor_refuted.
Print Assumptions c19_check_accepts_exactly_the_ranges.
Print Assumptions c19_check_first_failure.
Print Assumptions c19_rejected_params_leave_circuit.
Print Assumptions c19_refused_iff_out_of_range.
Print Assumptions c19_rejected_effort_leaves_circuit.
Print Assumptions c19_rejected_params_leave_circuit_refuted.
Print Assumptions c19_setters_refuse_wrong_length.
Print Assumptions c19_setter_requirements.
Print Assumptions c19_setter_total.
Print Assumptions c19_setter_preserves_consistency.
Print Assumptions c19_addnet_refuses_bad_cell.
Print Assumptions c19_setnets_accepts_iff.
Print Assumptions c19_setnets_total.
Print Assumptions c19_addnet_invariant.
Print Assumptions c19_setnets_invariant.
Print Assumptions c19_addnet_refuses_bad_cell_refuted.
Print Assumptions c19_setnets_refuses_refuted.
