(* C02 / C07 -- RowNeighbourhood (src/place_detailed/row_neighbourhood.cpp): which rows the detailed-placement passes
   look at.  Model: RowNeigh.v (line by line); proofs: RowNeighProofs.v; tie: exact equality of the four lists of every
   row with the C++ (harness/rowneigh.cpp, plain and asan builds; checks/c02_neigh.py).
   All theorems are [F]: every vector of rectangles (empty, inverted, overlapping, duplicated rows included), every
   cut-off k in Z, every row index.  `rows_left/right` sort with the stable insertion sort; the `_any_sort` statements
   cover every other behaviour of the non-stable std::sort on rows with equal (minY, minX). *)
From Coq Require Import List ZArith Lia Bool Permutation Sorted.
Import ListNotations.
Require Import CV.FreeSpace CV.RowNeigh CV.RowNeighProofs.
Local Open Scope Z_scope.

(* [F] index safety: whatever rowsBelow/rowsAbove/rowsLeft/rowsRight(r) return is a row index other than r (and the
   lists are empty for r outside the structure) *)
Theorem rn_index_safe : forall rows k r j,
  In j (rows_below rows k r ++ rows_above rows k r ++ rows_left rows k r ++ rows_right rows k r) ->
  (r < length rows)%nat /\ (j < length rows)%nat /\ j <> r.
Proof. exact all_safe. Qed.

(* [F] the same for any arrangement s of the rows that std::sort(orderSide) may produce *)
Theorem rn_index_safe_any_sort : forall rows s k r j, Permutation s (indexed rows) ->
  In j (rows_below rows k r ++ rows_above rows k r ++ left_with s rows k r ++ right_with s rows k r) ->
  (r < length rows)%nat /\ (j < length rows)%nat /\ j <> r.
Proof. exact all_safe_any_sort. Qed.

(* [F] what the cut-off guarantees: at most max(k,1) rows below/above (NOT k: the test `nbFound >= nbNeighbourRows`
   comes after the push), at most max(k,0) rows on each side; no row is listed twice *)
Theorem rn_lengths : forall rows k r,
  Z.of_nat (length (rows_below rows k r)) <= Z.max k 1 /\ Z.of_nat (length (rows_above rows k r)) <= Z.max k 1 /\
  Z.of_nat (length (rows_left rows k r)) <= Z.max k 0 /\ Z.of_nat (length (rows_right rows k r)) <= Z.max k 0.
Proof. exact all_lengths. Qed.
Theorem rn_side_lengths_any_sort : forall rows s k r, Permutation s (indexed rows) ->
  Z.of_nat (length (left_with s rows k r)) <= Z.max k 0 /\ Z.of_nat (length (right_with s rows k r)) <= Z.max k 0.
Proof. exact sides_lengths_any_sort. Qed.
Theorem rn_no_duplicates : forall rows k r,
  NoDup (rows_below rows k r) /\ NoDup (rows_above rows k r) /\ NoDup (rows_left rows k r) /\ NoDup (rows_right rows k r).
Proof. exact all_NoDup. Qed.

(* [F] a cut-off <= 0 behaves like 0, and 0 gives either nothing or exactly the list of cut-off 1 *)
Theorem rn_cutoff_nonpositive : forall rows k r, k <= 0 ->
  rows_below rows k r = rows_below rows 0 r /\ (rows_below rows k r = [] \/ rows_below rows k r = rows_below rows 1 r) /\
  rows_above rows k r = rows_above rows 0 r /\ (rows_above rows k r = [] \/ rows_above rows k r = rows_above rows 1 r).
Proof. exact all_nonpos. Qed.

(* [F] exact content for k >= 1: the first k rows, in the sorted order, strictly below/above r with a common abscissa *)
Theorem rn_below_exact : forall rows k r, 1 <= k -> (r < length rows)%nat ->
  rows_below rows k r =
  firstn (Z.to_nat k) (map fst (filter (fun p => is_below (snd p) (row_at rows r)) (isort order_below (indexed rows)))).
Proof. exact below_firstn. Qed.
Theorem rn_above_exact : forall rows k r, 1 <= k -> (r < length rows)%nat ->
  rows_above rows k r =
  firstn (Z.to_nat k) (map fst (filter (fun p => is_above (snd p) (row_at rows r)) (isort order_above (indexed rows)))).
Proof. exact above_firstn. Qed.

(* [F] geometric meaning *)
Theorem rn_geometry : forall rows k r j,
  (In j (rows_below rows k r) -> minY (row_at rows j) < minY (row_at rows r) /\
       minX (row_at rows r) < maxX (row_at rows j) /\ minX (row_at rows j) < maxX (row_at rows r)) /\
  (In j (rows_above rows k r) -> minY (row_at rows r) < minY (row_at rows j) /\
       minX (row_at rows r) < maxX (row_at rows j) /\ minX (row_at rows j) < maxX (row_at rows r)) /\
  (In j (rows_left rows k r) -> maxX (row_at rows j) <= minX (row_at rows r)) /\
  (In j (rows_right rows k r) -> maxX (row_at rows r) <= minX (row_at rows j)).
Proof. exact all_geometry. Qed.

(* [F] closest first: by minY (ties by index) below/above; by the code's Manhattan distance (ties by index) on the sides *)
Theorem rn_below_sorted : forall rows k r,
  StronglySorted (fun i j => minY (row_at rows j) <= minY (row_at rows i) /\
                             (minY (row_at rows j) = minY (row_at rows i) -> (i <= j)%nat)) (rows_below rows k r).
Proof. exact below_sorted. Qed.
Theorem rn_above_sorted : forall rows k r,
  StronglySorted (fun i j => minY (row_at rows i) <= minY (row_at rows j) /\
                             (minY (row_at rows j) = minY (row_at rows i) -> (i <= j)%nat)) (rows_above rows k r).
Proof. exact above_sorted. Qed.
Theorem rn_sides_sorted : forall rows k r,
  StronglySorted (fun i j => order_dist (minX (row_at rows r)) (minY (row_at rows r)) (j, row_at rows j) (i, row_at rows i) = false)
                 (rows_left rows k r) /\
  StronglySorted (fun i j => order_dist (maxX (row_at rows r)) (minY (row_at rows r)) (j, row_at rows j) (i, row_at rows i) = false)
                 (rows_right rows k r).
Proof. exact sides_sorted. Qed.

(* [F] symmetry without an effective cut-off; [R] it fails with one *)
Theorem rn_symmetry_full : forall rows k r j, Z.of_nat (length rows) <= k ->
  In j (rows_above rows k r) <-> In r (rows_below rows k j).
Proof. exact symmetry_full. Qed.
Theorem rn_above_converse : forall rows k r j,
  In j (rows_above rows k r) -> is_below (row_at rows r) (row_at rows j) = true.
Proof. exact above_converse. Qed.
Theorem rn_symmetry_cutoff_refuted :
  exists rows k r j, 1 <= k /\ In r (rows_below rows k j) /\ ~ In j (rows_above rows k r).
Proof. exact symmetry_cutoff_refuted. Qed.

(* [F] the lists are a function of the SET of (index, row) pairs: neither the order in which the pairs are pushed into
   sortedRows nor the sorting algorithm matters (for the sides: when no two rows share (minY, minX)) *)
Theorem rn_vertical_order_independent : forall rows k r p, Permutation p (indexed rows) ->
  collect r (vertical is_below k (isort order_below p)) = rows_below rows k r /\
  collect r (vertical is_above k (isort order_above p)) = rows_above rows k r.
Proof. exact vertical_order_independent. Qed.
Theorem rn_vertical_algorithm_independent : forall rows k r s1 s2,
  Permutation s1 (indexed rows) -> StronglySorted (le_of order_below) s1 ->
  Permutation s2 (indexed rows) -> StronglySorted (le_of order_above) s2 ->
  collect r (vertical is_below k s1) = rows_below rows k r /\ collect r (vertical is_above k s2) = rows_above rows k r.
Proof. exact vertical_algorithm_independent. Qed.
Theorem rn_sides_algorithm_independent : forall rows k r s, distinct_corners rows ->
  Permutation s (indexed rows) -> StronglySorted (le_of order_side) s ->
  left_with s rows k r = rows_left rows k r /\ right_with s rows k r = rows_right rows k r.
Proof. exact sides_algorithm_independent. Qed.

(* [F] nbRows(); the int distance arithmetic on C07's coordinate range *)
Theorem rn_nb_rows : forall rows k, length (neighbourhood rows k) = length rows.
Proof. exact neighbourhood_length. Qed.
Theorem rn_distance_fits_int32 : forall px py c,
  Z.abs px <= 2 ^ 28 -> Z.abs py <= 2 ^ 28 -> Z.abs (maxX c) <= 2 ^ 28 -> Z.abs (minY c) <= 2 ^ 28 ->
  Z.abs (maxX c - px) <= 2 ^ 29 /\ Z.abs (minY c - py) <= 2 ^ 29 /\ 0 <= dist px py c <= 2 ^ 30.
Proof. exact dist_int32. Qed.

(* ---- non-vacuity / witnesses (values as printed by the C++: harness/rowneigh.cpp) *)
Definition R (a b c d : Z) : rect := {| minX := a; maxX := b; minY := c; maxY := d |}.
(* the authors' TestBasic2 (test/test_row_neighbourhood.cpp), cut-off 3 *)
Definition basic2 := [R 0 100 0 12; R 10 90 12 24; R (-200) (-10) 0 12; R (-100) 5 12 24].
Example ex_basic2 : neighbourhood basic2 3 =
  [ ([], [1; 3], [2], []); ([0], [], [3; 2], []); ([], [3], [], [0; 1]); ([0; 2], [], [], [1]) ]%nat.
Proof. vm_compute. reflexivity. Qed.
(* rn_index_safe / rn_geometry / rn_lengths are not vacuous: the lists above are non-empty *)
Example ex_safe_used : In 3%nat (rows_below basic2 3 1 ++ rows_above basic2 3 1 ++ rows_left basic2 3 1 ++ rows_right basic2 3 1).
Proof. vm_compute. tauto. Qed.
(* cut-off 0 still yields one row above / below (the authors' TestBasic1 rows) ... *)
Example ex_cutoff0_one : neighbourhood [R 0 100 0 12; R 10 90 12 24] 0 = [ ([], [1], [], []); ([0], [], [], []) ]%nat.
Proof. vm_compute. reflexivity. Qed.
(* ... but only when the nearest candidate is the immediate successor in the sorted vector: here row 1 (no common
   abscissa with row 0) sits between rows 0 and 2, cut-off 0 gives nothing where cut-off 1 gives row 2 *)
Example ex_cutoff0_none :
  rows_above [R 0 10 0 1; R 20 30 1 2; R 0 10 2 3] 0 0 = [] /\ rows_above [R 0 10 0 1; R 20 30 1 2; R 0 10 2 3] 1 0 = [2%nat].
Proof. vm_compute. auto. Qed.
(* the bound max(k,1) / max(k,0) is attained *)
Example ex_bounds_tight :
  length (rows_above basic2 2 0) = 2%nat /\ length (rows_left basic2 2 1) = 2%nat /\ length (rows_above [R 0 100 0 12; R 10 90 12 24] (-5) 0) = 1%nat.
Proof. vm_compute. repeat split. Qed.
(* symmetry with k >= nbRows on non-empty lists *)
Example ex_symmetry : In 3%nat (rows_above basic2 4 0) /\ In 0%nat (rows_below basic2 4 3).
Proof. vm_compute. tauto. Qed.
(* hypotheses of the independence theorems are satisfiable: another arrangement, distinct corners *)
Example ex_arrangement : Permutation (rev (indexed basic2)) (indexed basic2) /\ distinct_corners basic2.
Proof.
  split; [apply Permutation_sym, Permutation_rev|].
  intros i j Hi Hj. cbn [basic2 length] in Hi, Hj.
  destruct i as [|[|[|[|i]]]]; destruct j as [|[|[|[|j]]]]; try lia; vm_compute; intros; try reflexivity; try discriminate.
Qed.
(* without distinct corners the side lists DO depend on how std::sort arranges equivalent rows: rows 0 and 1 have the
   same (minY, minX); both arrangements below are sorted by orderSide; rowsLeft(2) is [1] for one and [0] for the other *)
Definition tie_rows := [R 0 5 0 1; R 0 5 0 1; R 10 20 0 1].
Example ex_sides_tie_dependent :
  let s := [(1%nat, R 0 5 0 1); (0%nat, R 0 5 0 1); (2%nat, R 10 20 0 1)] in
  Permutation s (indexed tie_rows) /\ StronglySorted (le_of order_side) s /\
  left_with s tie_rows 2 2 = [0%nat] /\ rows_left tie_rows 2 2 = [1%nat].
Proof.
  cbv zeta. split; [apply perm_swap|]. split; [|vm_compute; auto].
  repeat constructor.
Qed.

Print Assumptions rn_index_safe.
Print Assumptions rn_index_safe_any_sort.
Print Assumptions rn_lengths.
Print Assumptions rn_side_lengths_any_sort.
Print Assumptions rn_no_duplicates.
Print Assumptions rn_cutoff_nonpositive.
Print Assumptions rn_below_exact.
Print Assumptions rn_above_exact.
Print Assumptions rn_geometry.
Print Assumptions rn_below_sorted.
Print Assumptions rn_above_sorted.
Print Assumptions rn_sides_sorted.
Print Assumptions rn_symmetry_full.
Print Assumptions rn_above_converse.
Print Assumptions rn_symmetry_cutoff_refuted.
Print Assumptions rn_vertical_order_independent.
Print Assumptions rn_vertical_algorithm_independent.
Print Assumptions rn_sides_algorithm_independent.
Print Assumptions rn_nb_rows.
Print Assumptions rn_distance_fits_int32.
