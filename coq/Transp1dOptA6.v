(* C14 optimality, part A6: run() -- the cost of the flushed positions is the value function of the position problem. *)
From Coq Require Import List ZArith Lia Bool Arith.
Import ListNotations.
Require Import CV.LpCert CV.Transp1d CV.Transp1dProofs CV.Transp1dTerm CV.Transp1dCert CV.Transp1dOpt
               CV.Transp1dOptA1 CV.Transp1dOptA2 CV.Transp1dOptA3 CV.Transp1dOptA4 CV.Transp1dOptA5.
Local Open Scope Z_scope.

Lemma flush_snoc x : forall p mx, flush mx (p ++ [x]) = flush (Z.min x mx) p ++ [Z.min x mx].
Proof.
  induction p as [|y r IH]; intros mx.
  - reflexivity.
  - cbn [app flush]. rewrite IH. destruct (flush (Z.min x mx) r) as [|z t]; reflexivity.
Qed.

Lemma pos_cost_snoc P x : forall p i0, pos_cost P i0 (p ++ [x]) = pos_cost P i0 p + fc P (i0 + length p) x.
Proof.
  induction p as [|y r IH]; intros i0; cbn [app pos_cost length].
  - replace (i0 + 0)%nat with i0 by lia. lia.
  - rewrite IH. replace (S i0 + length r)%nat with (i0 + S (length r))%nat by lia. lia.
Qed.

Section Run.
Variable P : sprob.
Hypothesis W : wf_sprob P.
Hypothesis So : sorted_sprob P.
Notation n := (n_src P).
Notation m := (n_snk P).
Notation D := (Dx P).

Definition Rinv (k : nat) (s : st) : Prop :=
  Pinv P k (Vf P k) s /\ length (pp s) = k /\
  forall a, 0 <= a -> ((1 <= k)%nat -> a <= topx P (k - 1)) -> Vf P k a = pos_cost P 0 (flush a (pp s)).

Lemma Vf_S k a : Vf P (S k) a = Vnext P k (Vf P k) a.
Proof. reflexivity. Qed.

Lemma push_all_rinv : forall c i s s', (i + c = n)%nat -> Rinv i s -> push_all P (seq i c) s = Some s' -> Rinv n s'.
Proof.
  induction c as [|c IH]; intros i s s' Hic R E; cbn [seq push_all] in E.
  - inversion E; subst. replace n with i by lia. exact R.
  - destruct (push P i s) as [s1|] eqn:E1; [|discriminate].
    apply (IH (S i) s1 s' ltac:(lia)); [|exact E].
    destruct R as (I & Hl & Hv).
    destruct (push_pinv P W So i (Vf P i) s s1 ltac:(lia) I E1) as (I1 & Hpp & Htop & V).
    split; [|split].
    + replace (S i) with (i + 1)%nat by lia.
      assert (Pinv P (i + 1) (Vnext P i (Vf P i)) s1) by exact I1.
      replace (Vf P (i + 1)) with (Vnext P i (Vf P i)); [exact H|].
      replace (i + 1)%nat with (S i) by lia. reflexivity.
    + rewrite Hpp, app_length, Hl. cbn. lia.
    + intros a Ha Ht. replace (S i - 1)%nat with i in Ht by lia. specialize (Ht ltac:(lia)).
      rewrite Vf_S, (V a ltac:(lia)), Hpp, flush_snoc, pos_cost_snoc.
      rewrite flush_length, Hl. cbn [Nat.add].
      replace (Z.min (lp s1) a) with (Z.min a (lp s1)) by lia.
      rewrite <- Hv; [reflexivity| |].
      * pose proof (p_lp _ _ _ _ I1). lia.
      * intros Hi1. unfold topx in *. replace (i - 1 + 1)%nat with i by lia.
        pose proof (Sx_step P W i ltac:(lia)). lia.
Qed.

Theorem run_value p : run P = Some p -> pos_cost P 0 p = Vf P n (D m - Sx P n).
Proof.
  intros H. unfold run in H.
  destruct (push_all P (seq 0 n) init_st) as [s|] eqn:E; [|discriminate]. inversion H; subst p; clear H.
  destruct (Nat.eq_dec n 0) as [Hn|Hn].
  - rewrite Hn in E. cbn in E. inversion E; subst s. cbn [init_st pp flush pos_cost]. rewrite Hn. reflexivity.
  - assert (Hm : (0 < m)%nat).
    { destruct (Nat.eq_dec m 0) as [Hm|Hm]; [|lia]. exfalso.
      pose proof (Hfe P W 0 ltac:(lia)) as F. rewrite Hm in F. rewrite (Dx_0 P W) in F.
      pose proof (Sx_step P W 0 ltac:(lia)). rewrite (Sx_0 P W) in H. lia. }
    assert (R0 : Rinv 0 init_st).
    { split; [apply pinv_init; assumption|]. split; [reflexivity|]. intros a _ _. reflexivity. }
    destruct (push_all_rinv n 0 init_st s ltac:(lia) R0 E) as (I & Hl & Hv).
    rewrite Hl. fold (D m). symmetry. apply Hv.
    + pose proof (Hfe P W (n - 1) ltac:(lia)) as F. replace (n - 1 + 1)%nat with n in F by lia. lia.
    + intros _. unfold topx. replace (n - 1 + 1)%nat with n by lia. lia.
Qed.
End Run.
