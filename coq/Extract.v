(* Extraction of the executable models to OCaml for the correspondence runs.
   ExtrOcamlBasic only: bool/option/list/prod/unit/sumbool map to OCaml's; Z,
   positive, nat, Q stay the extracted Coq datatypes.  No Extract Constant. *)
From Coq Require Import Extraction ExtrOcamlBasic ZArith List.
Require Import CV.RowLeg CV.RowLegCert CV.RowLegChecked CV.Orient CV.FreeSpace CV.Hpwl CV.Circuit CV.Legalizer CV.Moves CV.Optimiser CV.MovesConcrete CV.DetailedInit.
Extraction Language OCaml.
Extraction "model.ml"
  RowLeg.run RowLegChecked.checked_run RowLegCert.cert_ok RowLegChecked.mk_cells
  FreeSpace.freespace_rows FreeSpace.compute_rows_circuit
  Hpwl.pin_x_offset Hpwl.pin_y_offset Hpwl.placed_width Hpwl.placed_height Hpwl.def_transform Hpwl.hpwl
  Hpwl.circuit_topology Hpwl.incr_trace Hpwl.cell_net_ids
  Orient.cell_orientation_in_row Orient.opposite_row_orientation Orient.is_turn Circuit.prescribed Circuit.legalb Circuit.orient_okb Circuit.trivially_feasible Circuit.free_rows Legalizer.legalize_circuit Legalizer.circuit_after
  Moves.apply_mop Moves.step_mop Moves.shift_ok Moves.apply_shift Optimiser.otrace
  MovesConcrete.apply_cop MovesConcrete.cop_pre MovesConcrete.cstate_abs MovesConcrete.crow_make MovesConcrete.cstate_make
  MovesConcrete.cstate_arrays MovesConcrete.cstate_orients
  DetailedInit.from_circuit.
