(* C14 -- auxiliary definitions for the unbounded optimality proof of Transportation1dSolver::run
   (no proofs in this file; proofs are in Transp1dOptA*.v / Transp1dOptM*.v / Transp1dOptProofs.v).

   Cumulative-demand axis: sink j owns the unit cells D_j .. D_{j+1}-1.  For source i
     Gh i y  = cost of filling the cells 0 .. y-1 with supply of source i (cells beyond D_m are charged like the last sink:
               only a device that keeps the algebra total; never used beyond D_m in the final statements),
     gc i y  = cost of cell y for source i,
     fc i x  = cost of source i placed at position x, i.e. on the cells S_i+x .. S_{i+1}+x-1,
     Vf k a  = value function of the position problem: least cost of placing sources 0..k-1 by non-decreasing
               positions with p_{k-1} <= a   (Vf (k+1) a = min_{0<=x<=a} Vf k x + fc k x),
     sl q x  = sum of the slopes of the events of q whose position is > x. *)
From Coq Require Import List ZArith Bool.
Import ListNotations.
Require Import CV.LpCert CV.Transp1d.
Local Open Scope Z_scope.

Fixpoint sl (q : list event) (x : Z) : Z :=
  match q with
  | [] => 0
  | e :: r => (if x <? fst e then snd e else 0) + sl r x
  end.

Definition Gh (P : sprob) (i : nat) (y : Z) : Z :=
  zsum (fun j => cost P i j * Z.max 0 (Z.min y (Dx P (j + 1)) - Dx P j)) (seq 0 (n_snk P))
  + cost P i (n_snk P - 1) * Z.max 0 (y - Dx P (n_snk P)).

Definition gc (P : sprob) (i : nat) (y : Z) : Z := Gh P i (y + 1) - Gh P i y.

Definition fc (P : sprob) (i : nat) (x : Z) : Z := Gh P i (Sx P (i + 1) + x) - Gh P i (Sx P i + x).

Fixpoint minupto (f : Z -> Z) (n : nat) : Z :=
  match n with
  | O => f 0
  | S k => Z.min (minupto f k) (f (Z.of_nat (S k)))
  end.

Fixpoint Vf (P : sprob) (k : nat) (a : Z) : Z :=
  match k with
  | O => 0
  | S i => minupto (fun x => Vf P i x + fc P i x) (Z.to_nat a)
  end.

(* the sorted problem handed to the solver: positions non-decreasing *)
Definition sorted_sprob (P : sprob) : Prop :=
  (forall i k, (i <= k)%nat -> (k < n_src P)%nat -> zn (su P) i <= zn (su P) k) /\
  (forall j k, (j <= k)%nat -> (k < n_snk P)%nat -> zn (sv P) j <= zn (sv P) k).

(* total cost of a position vector *)
Fixpoint pos_cost (P : sprob) (i0 : nat) (p : list Z) : Z :=
  match p with
  | [] => 0
  | x :: r => fc P i0 x + pos_cost P (S i0) r
  end.

(* largest admissible position of source i: D_m - S_{i+1} *)
Definition topx (P : sprob) (i : nat) : Z := Dx P (n_snk P) - Sx P (i + 1).

(* plans of the sorted problem as matrices X i j (source i -> sink j): total cost and feasibility
   (non-negative entries, every supply S_{i+1}-S_i met exactly, no demand D_{j+1}-D_j exceeded) *)
Definition mat_cost (P : sprob) (X : nat -> nat -> Z) : Z :=
  zsum (fun i => zsum (fun j => cost P i j * X i j) (seq 0 (n_snk P))) (seq 0 (n_src P)).

Definition feasible_mat (P : sprob) (X : nat -> nat -> Z) : Prop :=
  (forall i j, (i < n_src P)%nat -> (j < n_snk P)%nat -> 0 <= X i j) /\
  (forall i, (i < n_src P)%nat -> zsum (fun j => X i j) (seq 0 (n_snk P)) = Sx P (i + 1) - Sx P i) /\
  (forall j, (j < n_snk P)%nat -> zsum (fun i => X i j) (seq 0 (n_src P)) <= Dx P (j + 1) - Dx P j).

