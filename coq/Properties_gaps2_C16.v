(* C16 part of the review-gap statements (umbrella: Properties_gaps2.v); every proof is `exact <lemma>`.
   To be merged by the lead into Properties_C16.v.  Model: ReviewGaps2C16Model.v (reoptimize_step,
   xtransport_step / ytransport_step, make_grid_m, update_ndebug) over Density.v / DensityUpdate.v.
   Labels: [F] all inputs. *)
From Coq Require Import List ZArith Lia Bool Arith.
Import ListNotations.
Require Import CV.FreeSpace CV.Density CV.DensityProofs CV.DensityUpdate CV.ReviewGaps2C16Model CV.ReviewGaps2C16.
Local Open Scope Z_scope.

(* ---------------------------------------------------------------- reoptimize / transport passes are Redistribute steps *)

(* [F] reoptimize on distinct, valid candidate bins (pos[i] = binCapacity(T[i]) > 0), for EVERY assignment of
   the gathered cells to the positive-capacity bins: the guard of Redistribute holds (lengths, nodup,
   bins_valid, the news are a partition of the gathered cells).  Hypotheses nodup/valid are obligations of the
   callers (improveRectangles & co. enumerate rectangles of distinct in-range bins; NOT modelled): with a
   duplicated candidate the cells would be gathered twice and the guard fails (Example below). *)
Theorem c16_reoptimize_is_redistribute : forall s T pos assignment,
  length pos = length T -> nodup_pairs T = true -> bins_valid (bcells s) T = true ->
  length assignment = length (gather (bcells s) T) ->
  (forall a, In a assignment -> (a < nb_pos pos)%nat) ->
  reoptimize_step s T pos assignment =
    Some (set_bins s T (reopt_news pos (reallocate (nb_pos pos) (gather (bcells s) T) assignment))).
Proof. exact reoptimize_is_redistribute. Qed.

(* [F] the result bin by bin: a zero-capacity candidate is left empty (the `clear()` of cpp:260-262), the b-th
   positive-capacity candidate holds the cells assigned to b, bins outside T are untouched *)
Theorem c16_reoptimize_result : forall s T pos assignment s' k x y,
  length pos = length T -> nodup_pairs T = true -> bins_valid (bcells s) T = true ->
  length assignment = length (gather (bcells s) T) ->
  (forall a, In a assignment -> (a < nb_pos pos)%nat) ->
  reoptimize_step s T pos assignment = Some s' ->
  nth_error T k = Some (x, y) ->
  nth_error2 (bcells s') x y =
    Some (if nth k pos false
          then nth (nb_pos (firstn k pos)) (reallocate (nb_pos pos) (gather (bcells s) T) assignment) []
          else []).
Proof. exact reoptimize_result. Qed.
Theorem c16_reoptimize_other_bins : forall s T pos assignment s' i j,
  reoptimize_step s T pos assignment = Some s' -> ~ In (i, j) T ->
  nth_error2 (bcells s') i j = nth_error2 (bcells s) i j.
Proof. exact reoptimize_other_bins. Qed.
Theorem c16_reoptimize_keeps_invariant : forall h d s T pos assignment s',
  inv h d s -> reoptimize_step s T pos assignment = Some s' -> inv h d s'.
Proof. exact reoptimize_keeps_invariant. Qed.

(* [F] improveXTransport (row j) / improveYTransport (column i) of a rectangular allocation, for EVERY
   assignment whose entries are bin indices of the row/column (c14_assign_range provides this for the vector
   returned by balanceDemand(); assign()): Redistribute steps, NO caller obligation left *)
Theorem c16_xtransport_is_redistribute : forall s ky j assignment,
  Forall (fun col => length col = ky) (bcells s) -> (j < ky)%nat ->
  length assignment = length (gather (bcells s) (row_bins (length (bcells s)) j)) ->
  (forall a, In a assignment -> (a < length (bcells s))%nat) ->
  exists s', xtransport_step s j assignment = Some s'.
Proof. exact xtransport_is_redistribute. Qed.
Theorem c16_ytransport_is_redistribute : forall s ky i assignment,
  Forall (fun col => length col = ky) (bcells s) -> (i < length (bcells s))%nat ->
  length assignment = length (gather (bcells s) (col_bins i ky)) ->
  (forall a, In a assignment -> (a < ky)%nat) ->
  exists s', ytransport_step s i ky assignment = Some s'.
Proof. exact ytransport_is_redistribute. Qed.
Theorem c16_transport_keeps_invariant : forall h d s j i ky assignment s',
  inv h d s ->
  (xtransport_step s j assignment = Some s' \/ ytransport_step s i ky assignment = Some s') -> inv h d s'.
Proof. exact transport_keeps_invariant. Qed.

(* ---------------------------------------------------------------- binSize *)

(* [F] the C++ constructor is defined iff binSize <> 0 (int division), and then it is make_grid *)
Theorem c16_make_grid_defined_iff : forall bs regs g,
  make_grid_m bs regs = Some g <-> bs <> 0 /\ g = make_grid bs regs.
Proof. exact make_grid_m_spec. Qed.
(* [F] witness: at binSize = 0 the total model says one bin, the C++ divides by zero *)
Theorem c16_make_grid_zero_binsize :
  let regs := [ {| minX := 0; maxX := 7; minY := 0; maxY := 4 |} ] in
  make_grid_m 0 regs = None /\ limX (make_grid 0 regs) = [0; 7] /\ limY (make_grid 0 regs) = [0; 4].
Proof. exact make_grid_zero_binsize. Qed.
(* [F] negative binSize is defined in the C++ and agrees with the model: one bin per axis *)
Theorem c16_make_grid_negative_binsize : forall bs regs, bs < 0 -> Forall proper regs ->
  make_grid_m bs regs = Some (make_grid bs regs) /\
  nb_bins (rwidth (placement_area regs)) bs = 1 /\ nb_bins (rheight (placement_area regs)) bs = 1.
Proof. exact make_grid_negative_binsize. Qed.
(* [F] c16_grid_limits_tile, c16_bin_capacity_is_region_area, c16_bin_capacity_counts_free_sites and
   c16_total_capacity_is_region_area with `1 <= bs` explicit and about the machine-level constructor *)
Theorem c16_grid_theorems_binsize_ge_1 : forall bs regs g,
  1 <= bs -> Forall proper regs -> make_grid_m bs regs = Some g ->
  let a := placement_area regs in
  (hdZ (limX g) = minX a /\ lastZ (limX g) = maxX a /\ chainZ (limX g) /\ (1 <= rwidth a -> schainZ (limX g))) /\
  (hdZ (limY g) = minY a /\ lastZ (limY g) = maxY a /\ chainZ (limY g) /\ (1 <= rheight a -> schainZ (limY g))) /\
  (forall i j px py, nth_error (pairs (limX g)) i = Some px -> nth_error (pairs (limY g)) j = Some py ->
     nth_error2 (gcap g) i j = Some (sumZ (map (fun r => inter_area r (bin_region px py)) regs))) /\
  (disjoint_regions regs -> forall i j px py,
     nth_error (pairs (limX g)) i = Some px -> nth_error (pairs (limY g)) j = Some py ->
     nth_error2 (gcap g) i j = Some (count_sites (covered regs) (bin_region px py))) /\
  total_capacity g = sumZ (map rarea regs).
Proof. exact grid_theorems_binsize_ge_1. Qed.
Theorem c16_make_grid_m_defined : forall bs regs, 1 <= bs -> make_grid_m bs regs = Some (make_grid bs regs).
Proof. exact make_grid_m_defined. Qed.

(* ---------------------------------------------------------------- updateCellDemand with sizes that differ *)

(* [F] equal sizes: the NDEBUG code does what DensityUpdate.update_demand says *)
Theorem c16_update_ndebug_same_length : forall d d', length d = length d' ->
  update_ndebug d d' = if same_zero_status d d' then UAccepted d' else URefused.
Proof. exact update_ndebug_same_length. Qed.
(* [F] sizes differ (the assert of cpp:220 is violated: outside the function's contract): the model says
   "refused, unchanged"; the NDEBUG code reads out of bounds (fewer cells) or installs a vector of the wrong
   size (more cells) unless a status differs on the common prefix *)
Theorem c16_update_ndebug_length_mismatch : forall d d', length d <> length d' ->
  same_zero_status d d' = false /\ update_demand d d' = d /\
  update_ndebug d d' =
    if forallb status_eq (combine d d')
    then (if (length d <? length d')%nat then UAccepted d' else UOob) else URefused.
Proof. exact update_ndebug_length_mismatch. Qed.

Example c16_reoptimize_nonvacuous :
  let s := {| lvx := 0; lvy := 0; bcells := [[[0; 1]]; [[2]]; [[3; 4]]]%nat; cbx := [0; 0; 1; 2; 2]; cby := [0; 0; 0; 0; 0] |} in
  option_map bcells (reoptimize_step s [(0, 0); (1, 0); (2, 0)]%nat [true; false; true] [1; 0; 0; 1; 0]%nat)
    = Some [[[1; 2; 4]]; [[]]; [[0; 3]]]%nat /\
  option_map bcells (xtransport_step s 0 [2; 2; 0; 1; 1]%nat) = Some [[[2]]; [[3; 4]]; [[0; 1]]]%nat /\
  reoptimize_step s [(0, 0); (1, 0); (0, 0)]%nat [true; false; true] [1; 0; 0; 1; 0]%nat = None.
Proof. exact reoptimize_nonvacuous. Qed.
Example c16_update_length_mismatch_witness :
  update_demand [1] [1; 2] = [1] /\ update_ndebug [1] [1; 2] = UAccepted [1; 2] /\
  update_demand [1; 2] [1] = [1; 2] /\ update_ndebug [1; 2] [1] = UOob.
Proof. exact update_length_mismatch_witness. Qed.

Print Assumptions c16_reoptimize_is_redistribute.
Print Assumptions c16_reoptimize_result.
Print Assumptions c16_reoptimize_other_bins.
Print Assumptions c16_reoptimize_keeps_invariant.
Print Assumptions c16_xtransport_is_redistribute.
Print Assumptions c16_ytransport_is_redistribute.
Print Assumptions c16_transport_keeps_invariant.
Print Assumptions c16_make_grid_defined_iff.
Print Assumptions c16_make_grid_zero_binsize.
Print Assumptions c16_make_grid_negative_binsize.
Print Assumptions c16_grid_theorems_binsize_ge_1.
Print Assumptions c16_make_grid_m_defined.
Print Assumptions c16_update_ndebug_same_length.
Print Assumptions c16_update_ndebug_length_mismatch.
