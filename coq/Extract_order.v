(* Extraction of the closed legalizer model (CellOrder.v: computeCellOrder + Legalizer::run with the computed
   order) for the correspondence run OR of C11 / C01 (harness/order.cpp, ocaml/driver_order.ml,
   checks/c11_order.py).  ExtrOcamlBasic only; Z, positive, nat, Q stay the extracted Coq datatypes.
   No Extract Constant. *)
From Coq Require Import Extraction ExtrOcamlBasic ZArith QArith List.
Require Import CV.Orient CV.FreeSpace CV.Circuit CV.Legalizer CV.CellOrder.
Extraction Language OCaml.
Extraction "model_order.ml"
  CellOrder.cell_order CellOrder.legalize_real CellOrder.cell_key Legalizer.leg_cells Circuit.legalb Circuit.orient_okb.
