(* C04 for detailed placement: the orientation invariant of the row data structure (Moves.v).
   OInvM s: every cell placed in a row has the orientation the table prescribes for that row
   (never INVALID) whenever the table prescribes one; it is preserved by swap / insert (guarded by
   rowAllowed, the repair of finding F7), by unplace, by the shift pass, and by the raw primitive
   place when the destination row is allowed for the cell (place itself is NOT guarded: the
   refutation at the end produces INVALID).  Cells without polarity keep the orientation they had:
   the multiset of (id, width, polarity, orientation-if-ANY) is the same after every history. *)
From Coq Require Import List ZArith Lia Bool Arith Permutation.
Import ListNotations.
Require Import CV.Orient CV.FreeSpace CV.Circuit CV.OrientProofs CV.Moves CV.MovesProofs.
Local Open Scope Z_scope.

(* ---------- the invariant ---------- *)
Definition cell_o_ok (rowo : orient) (c : pcell) : Prop :=
  cell_orientation_in_row (p_pol c) rowo <> oUNKNOWN ->
  p_o c = cell_orientation_in_row (p_pol c) rowo /\ cell_orientation_in_row (p_pol c) rowo <> oINVALID.

Definition orow_ok (r : drow) : Prop := Forall (cell_o_ok (dr_o r)) (dr_cells r).
Definition OInvM (s : dstate) : Prop := Forall orow_ok (d_rows s).

(* boolean version *)
Definition cell_o_okb (rowo : orient) (c : pcell) : bool :=
  let e := cell_orientation_in_row (p_pol c) rowo in
  orient_eqb e oUNKNOWN || (orient_eqb (p_o c) e && negb (orient_eqb e oINVALID)).
Definition oinvb (s : dstate) : bool :=
  forallb (fun r => forallb (cell_o_okb (dr_o r)) (dr_cells r)) (d_rows s).

Lemma orient_eqb_false a b : orient_eqb a b = false <-> a <> b.
Proof.
  split.
  - intros H E. apply orient_eqb_eq in E. congruence.
  - intros H. destruct (orient_eqb a b) eqn:E; [|reflexivity]. apply orient_eqb_eq in E. contradiction.
Qed.

Lemma cell_o_okb_spec rowo c : cell_o_okb rowo c = true <-> cell_o_ok rowo c.
Proof.
  unfold cell_o_okb, cell_o_ok. set (e := cell_orientation_in_row (p_pol c) rowo). clearbody e.
  split.
  - intros H Hu. apply orient_eqb_false in Hu. rewrite Hu in H. cbn [orb] in H.
    apply andb_true_iff in H as [H1 H2]. apply orient_eqb_eq in H1. apply negb_true_iff in H2.
    apply orient_eqb_false in H2. split; assumption.
  - intros H. destruct (orient_eqb e oUNKNOWN) eqn:E; [reflexivity|]. cbn [orb].
    apply orient_eqb_false in E. destruct (H E) as [H1 H2].
    apply andb_true_iff. split; [apply orient_eqb_eq; exact H1|].
    apply negb_true_iff. apply orient_eqb_false. exact H2.
Qed.

Lemma oinvb_spec s : oinvb s = true <-> OInvM s.
Proof.
  unfold oinvb, OInvM, orow_ok. rewrite forallb_forall, Forall_forall.
  split; intros H r Hr; specialize (H r Hr).
  - rewrite forallb_forall in H. rewrite Forall_forall. intros c Hc. apply cell_o_okb_spec. exact (H c Hc).
  - rewrite Forall_forall in H. rewrite forallb_forall. intros c Hc. apply cell_o_okb_spec. exact (H c Hc).
Qed.

(* cell by cell *)
Lemma OInvM_reads s r c : OInvM s -> In r (d_rows s) -> In c (dr_cells r) -> cell_o_ok (dr_o r) c.
Proof.
  intros H Hr Hc. unfold OInvM in H. rewrite Forall_forall in H. specialize (H r Hr).
  unfold orow_ok in H. rewrite Forall_forall in H. exact (H c Hc).
Qed.

(* ---------- rows keep their orientation ---------- *)
Definition row_os (rows : list drow) : list orient := map dr_o rows.

Lemma row_os_upd rows i r l : nth_error rows i = Some r -> row_os (upd_row rows i (set_cells r l)) = row_os rows.
Proof.
  unfold row_os. revert i. induction rows as [|x t IH]; intros [|i]; cbn [nth_error upd_row map]; try discriminate.
  - intros [= ->]. reflexivity.
  - intros H. rewrite (IH _ H). reflexivity.
Qed.

Lemma row_os_nth rows rows' i r r' :
  row_os rows' = row_os rows -> nth_error rows i = Some r -> nth_error rows' i = Some r' -> dr_o r' = dr_o r.
Proof.
  unfold row_os. intros E H H'. apply (map_nth_error dr_o) in H. apply (map_nth_error dr_o) in H'.
  rewrite E in H'. congruence.
Qed.

Lemma row_allowed_o pol r r' : dr_o r' = dr_o r -> row_allowed pol r' = row_allowed pol r.
Proof. unfold row_allowed. intros ->. reflexivity. Qed.

Lemma Forall_upd (P : drow -> Prop) rows i r : Forall P rows -> P r -> Forall P (upd_row rows i r).
Proof.
  revert i. induction rows as [|x t IH]; intros i Hf Hr; cbn [upd_row]; [constructor|].
  inversion Hf; subst. destruct i; constructor; try assumption. apply IH; assumption.
Qed.

(* ---------- unplace ---------- *)
Lemma unplace_spec s id s' : unplace s id = Some s' ->
  exists i r a m b, find_row (d_rows s) id 0 = Some (i, r, a, m, b) /\
    nth_error (d_rows s) i = Some r /\ dr_cells r = a ++ m :: b /\ p_id m = id /\
    d_rows s' = upd_row (d_rows s) i (set_cells r (a ++ b)) /\ d_loose s' = m :: d_loose s.
Proof.
  unfold unplace. destruct (find_row (d_rows s) id 0) as [[[[[i r] a] m] b]|] eqn:F; [|discriminate].
  intros [= <-]. exists i, r, a, m, b. split; [reflexivity|].
  apply find_row_spec in F as (k & -> & Hn & Hc & Hid). cbn [Nat.add d_rows d_loose]. tauto.
Qed.

Lemma unplace_oinv s id s' : OInvM s -> unplace s id = Some s' -> OInvM s' /\ row_os (d_rows s') = row_os (d_rows s).
Proof.
  intros HI U. apply unplace_spec in U as (i & r & a & m & b & _ & Hn & Hc & _ & Hr & _).
  unfold OInvM. rewrite Hr. split; [|apply row_os_upd; exact Hn].
  apply Forall_upd; [exact HI|]. pose proof (Forall_nth _ _ _ _ HI Hn) as Hok.
  unfold orow_ok in *. cbn [set_cells dr_o dr_cells]. rewrite Hc in Hok.
  apply Forall_app in Hok as [H1 H2]. inversion H2; subst. apply Forall_app. split; assumption.
Qed.

(* ---------- place ---------- *)
Lemma place_oinv_gen s id rowi pred x s' c l' :
  OInvM s -> take_loose id (d_loose s) = Some (c, l') ->
  (forall r, nth_error (d_rows s) rowi = Some r -> row_allowed (p_pol c) r = true) ->
  place s id rowi pred x = Some s' ->
  OInvM s' /\ d_loose s' = l' /\ row_os (d_rows s') = row_os (d_rows s).
Proof.
  intros HI T HA. unfold place. rewrite T.
  destruct (nth_error (d_rows s) rowi) as [r|] eqn:N; [|discriminate].
  destruct (split_site pred (dr_cells r)) as [[a b]|] eqn:S; [|discriminate].
  destruct (_ && _); [|discriminate]. intros [= <-]. cbn [d_rows d_loose].
  split; [|split; [reflexivity|apply row_os_upd; exact N]].
  apply Forall_upd; [exact HI|]. pose proof (Forall_nth _ _ _ _ HI N) as Hok.
  apply split_site_app in S. unfold orow_ok in *. cbn [set_cells dr_o dr_cells]. rewrite S in Hok.
  apply Forall_app in Hok as [H1 H2]. apply Forall_app. split; [exact H1|]. constructor; [|exact H2].
  specialize (HA r eq_refl). unfold row_allowed in HA. apply negb_true_iff in HA. apply orient_eqb_false in HA.
  unfold cell_o_ok. cbn [p_pol p_o]. intros Hu. apply orient_eqb_false in Hu. rewrite Hu. split; [reflexivity|exact HA].
Qed.

(* the hypothesis under which the raw primitive keeps the invariant *)
Definition place_allowed (s : dstate) (id rowi : nat) : bool :=
  match take_loose id (d_loose s), nth_error (d_rows s) rowi with
  | Some (c, _), Some r => row_allowed (p_pol c) r
  | _, _ => true (* place refuses anyway *)
  end.

Lemma place_oinv s id rowi pred x s' :
  OInvM s -> place_allowed s id rowi = true -> place s id rowi pred x = Some s' -> OInvM s'.
Proof.
  intros HI HA P. unfold place_allowed in HA.
  destruct (take_loose id (d_loose s)) as [[c l']|] eqn:T.
  - eapply (place_oinv_gen s id rowi pred x s' c l' HI T); [|exact P].
    intros r N. rewrite N in HA. exact HA.
  - unfold place in P. rewrite T in P. discriminate.
Qed.

(* ---------- insert ---------- *)
Lemma take_loose_head id c l : p_id c = id -> take_loose id (c :: l) = Some (c, l).
Proof. intros H. cbn [take_loose]. rewrite H, Nat.eqb_refl. reflexivity. Qed.

Lemma take_loose_skip id c l : p_id c <> id ->
  take_loose id (c :: l) = match take_loose id l with Some (m, r') => Some (m, c :: r') | None => None end.
Proof. intros H. cbn [take_loose]. apply Nat.eqb_neq in H. rewrite H. reflexivity. Qed.

Lemma insert_oinv s id rowi pred s' : OInvM s -> insert s id rowi pred = Some s' -> OInvM s'.
Proof.
  intros HI. unfold insert. destruct (can_insert s id rowi pred) as [[|]|] eqn:CI; try discriminate.
  unfold can_insert in CI.
  destruct (find_row (d_rows s) id 0) as [[[[[ri r0] a] c] b]|] eqn:F; [|discriminate].
  destruct (nth_error (d_rows s) rowi) as [r|] eqn:N; [|discriminate].
  destruct (opt_nat_eqb (Some id) pred); [discriminate|].
  destruct (Nat.eqb ri rowi && opt_nat_eqb (pred_of a) pred); [discriminate|].
  destruct (row_allowed (p_pol c) r) eqn:RA; cbn [negb] in CI; [|discriminate].
  destruct (split_site pred (dr_cells r)) as [[sa sb]|]; [|discriminate].
  destruct (unplace s id) as [s1|] eqn:U; [|discriminate].
  intros P. destruct (unplace_oinv _ _ _ HI U) as [HI1 Ho1].
  apply unplace_spec in U as (i' & r' & a' & m' & b' & F' & _ & _ & Hid & _ & Hl).
  rewrite F in F'. injection F' as <- <- <- <- <-.
  refine (proj1 (place_oinv_gen s1 id rowi pred _ s' c (d_loose s) HI1 _ _ P)).
  - rewrite Hl. apply take_loose_head. exact Hid.
  - intros r1 N1. rewrite (row_allowed_o _ _ _ (row_os_nth _ _ _ _ _ Ho1 N N1)). exact RA.
Qed.

(* ---------- swap ---------- *)
Lemma split_at_none_remove id a m b : split_at id (a ++ m :: b) = None -> split_at id (a ++ b) = None.
Proof.
  induction a as [|x a IH]; cbn [app split_at].
  - destruct (Nat.eqb (p_id m) id); [discriminate|]. destruct (split_at id b) as [[[? ?] ?]|]; [discriminate|reflexivity].
  - destruct (Nat.eqb (p_id x) id); [discriminate|].
    destruct (split_at id (a ++ m :: b)) as [[[? ?] ?]|]; [discriminate|]. intros _. rewrite IH; reflexivity.
Qed.

Lemma split_at_some_remove id a m b a2 m2 b2 :
  p_id m <> id -> split_at id (a ++ m :: b) = Some (a2, m2, b2) ->
  exists a2' b2', split_at id (a ++ b) = Some (a2', m2, b2').
Proof.
  intros Hne. revert a2. induction a as [|x a IH]; intros a2; cbn [app split_at].
  - apply Nat.eqb_neq in Hne. rewrite Hne.
    destruct (split_at id b) as [[[a' m'] b']|]; [|discriminate]. intros [= <- <- <-]. eexists _, _. reflexivity.
  - destruct (Nat.eqb (p_id x) id); [intros [= <- <- <-]; eexists _, _; reflexivity|].
    destruct (split_at id (a ++ m :: b)) as [[[a' m'] b']|]; [|discriminate]. intros [= <- <- <-].
    destruct (IH _ eq_refl) as (a2' & b2' & ->). eexists _, _. reflexivity.
Qed.

(* removing a cell with another id does not change which cell find_row finds, nor its row index *)
Lemma find_row_after_remove id1 id2 : id1 <> id2 -> forall rows i0 k r1 a1 m1 b1 i2 r2 a2 m2 b2,
  find_row rows id1 i0 = Some ((i0 + k)%nat, r1, a1, m1, b1) ->
  find_row rows id2 i0 = Some (i2, r2, a2, m2, b2) ->
  exists r2' a2' b2', find_row (upd_row rows k (set_cells r1 (a1 ++ b1))) id2 i0 = Some (i2, r2', a2', m2, b2').
Proof.
  intros Hne. induction rows as [|r0 t IH]; intros i0 k r1 a1 m1 b1 i2 r2 a2 m2 b2; cbn [find_row]; [discriminate|].
  destruct (split_at id1 (dr_cells r0)) as [[[a' m'] b']|] eqn:E1.
  - intros [= Hk <- <- <- <-]. assert (k = O) by lia. subst k. cbn [upd_row find_row set_cells dr_cells].
    apply split_at_app in E1 as [E1 Em]. rewrite E1.
    destruct (split_at id2 (a' ++ m' :: b')) as [[[a'' m''] b'']|] eqn:E2.
    + intros [= <- <- <- <- <-]. assert (Hm : p_id m' <> id2) by congruence.
      destruct (split_at_some_remove _ _ _ _ _ _ _ Hm E2) as (x & y & ->). eexists _, _, _. reflexivity.
    + rewrite (split_at_none_remove _ _ _ _ E2). intros H. eexists _, _, _. exact H.
  - intros F1 F2. pose proof (find_row_spec _ _ _ _ _ _ _ _ F1) as (k' & Hk & _).
    destruct k as [|k]; [lia|]. cbn [upd_row find_row].
    destruct (split_at id2 (dr_cells r0)) as [[[a'' m''] b'']|] eqn:E2.
    + injection F2 as <- <- <- <- <-. eexists _, _, _. reflexivity.
    + replace (i0 + S k)%nat with (S i0 + k)%nat in F1 by lia. exact (IH _ _ _ _ _ _ _ _ _ _ _ F1 F2).
Qed.

Lemma swap_oinv s c1 c2 s' : OInvM s -> swap s c1 c2 = Some s' -> OInvM s'.
Proof.
  intros HI. unfold swap. destruct (can_swap s c1 c2) as [[|]|] eqn:CS; try discriminate.
  unfold can_swap in CS.
  destruct (find_row (d_rows s) c1 0) as [[[[[i1 r1] a1] m1] b1]|] eqn:F1; [|discriminate].
  destruct (find_row (d_rows s) c2 0) as [[[[[i2 r2] a2] m2] b2]|] eqn:F2; [|discriminate].
  destruct (Nat.eqb_spec c1 c2) as [|Hne]; [discriminate|].
  destruct (row_allowed (p_pol m1) r2) eqn:RA1; cbn [negb orb] in CS; [|discriminate].
  destruct (row_allowed (p_pol m2) r1) eqn:RA2; cbn [negb] in CS; [|discriminate]. clear CS.
  destruct (bounds_of r1 a1 b1) as [bb1 ba1]. destruct (bounds_of r2 a2 b2) as [bb2 ba2].
  destruct (if opt_nat_eqb (pred_of a1) (Some c2) then _ else _) as [x1 x2].
  destruct (unplace s c1) as [s1|] eqn:U1; [|discriminate].
  destruct (unplace s1 c2) as [s2|] eqn:U2; [|discriminate].
  destruct (unplace_oinv _ _ _ HI U1) as [HI1 Ho1].
  destruct (unplace_oinv _ _ _ HI1 U2) as [HI2 Ho2]. rewrite Ho1 in Ho2.
  pose proof (find_row_spec _ _ _ _ _ _ _ _ F1) as (k1 & Hk1 & N1 & _ & Hid1). cbn [Nat.add] in Hk1. subst k1.
  pose proof (find_row_spec _ _ _ _ _ _ _ _ F2) as (k2 & Hk2 & N2 & _ & Hid2). cbn [Nat.add] in Hk2. subst k2.
  apply unplace_spec in U1 as (i' & r' & a' & m' & b' & F' & _ & _ & _ & Hr1 & Hl1).
  rewrite F1 in F'. injection F' as <- <- <- <- <-.
  destruct (find_row_after_remove c1 c2 Hne (d_rows s) O i1 r1 a1 m1 b1 i2 r2 a2 m2 b2 F1 F2) as (r2' & a2' & b2' & F2').
  rewrite <- Hr1 in F2'.
  apply unplace_spec in U2 as (i' & r' & a' & m' & b' & F' & _ & _ & _ & _ & Hl2).
  rewrite F2' in F'. injection F' as <- <- <- <- <-. rewrite Hl1 in Hl2.
  assert (A1 : forall st r, row_os (d_rows st) = row_os (d_rows s) -> nth_error (d_rows st) i2 = Some r ->
                            row_allowed (p_pol m1) r = true).
  { intros st r Ho N. rewrite (row_allowed_o _ _ _ (row_os_nth _ _ _ _ _ Ho N2 N)). exact RA1. }
  assert (A2 : forall st r, row_os (d_rows st) = row_os (d_rows s) -> nth_error (d_rows st) i1 = Some r ->
                            row_allowed (p_pol m2) r = true).
  { intros st r Ho N. rewrite (row_allowed_o _ _ _ (row_os_nth _ _ _ _ _ Ho N1 N)). exact RA2. }
  assert (T1 : take_loose c1 (d_loose s2) = Some (m1, m2 :: d_loose s)).
  { rewrite Hl2. rewrite take_loose_skip by congruence. rewrite (take_loose_head c1 m1 _ Hid1). reflexivity. }
  assert (T2 : take_loose c2 (d_loose s2) = Some (m2, m1 :: d_loose s)).
  { rewrite Hl2. apply take_loose_head. exact Hid2. }
  assert (first_c1 : forall p x p' x' s3, place s2 c1 i2 p x = Some s3 -> place s3 c2 i1 p' x' = Some s' -> OInvM s').
  { intros p x p' x' s3 P1 P2.
    destruct (place_oinv_gen _ _ _ _ _ _ _ _ HI2 T1 (fun r => A1 s2 r Ho2) P1) as (HI3 & Hl3 & Ho3).
    rewrite Ho2 in Ho3.
    refine (proj1 (place_oinv_gen s3 c2 i1 p' x' s' m2 (d_loose s) HI3 _ (fun r => A2 s3 r Ho3) P2)).
    rewrite Hl3. apply take_loose_head. exact Hid2. }
  destruct (opt_nat_eqb (pred_of a1) (Some c2)).
  - destruct (place s2 c1 i2 _ x1) as [s3|] eqn:P1; [|discriminate]. intros P2. eapply first_c1; eassumption.
  - destruct (opt_nat_eqb (pred_of a2) (Some c1)).
    + destruct (place s2 c2 i1 _ x2) as [s3|] eqn:P1; [|discriminate]. intros P2.
      destruct (place_oinv_gen _ _ _ _ _ _ _ _ HI2 T2 (fun r => A2 s2 r Ho2) P1) as (HI3 & Hl3 & Ho3).
      rewrite Ho2 in Ho3.
      refine (proj1 (place_oinv_gen s3 c1 i2 _ x1 s' m1 (d_loose s) HI3 _ (fun r => A1 s3 r Ho3) P2)).
      rewrite Hl3. apply take_loose_head. exact Hid1.
    + destruct (place s2 c1 i2 _ x1) as [s3|] eqn:P1; [|discriminate]. intros P2. eapply first_c1; eassumption.
Qed.

(* ---------- the shift pass ---------- *)
Lemma shift_oinv s xs : OInvM s -> OInvM (apply_shift s xs).
Proof.
  unfold OInvM, apply_shift. cbn [d_rows]. intros H. rewrite Forall_forall in *.
  intros r' Hr'. apply in_map_iff in Hr' as (r & <- & Hr). specialize (H r Hr).
  unfold orow_ok in *. cbn [set_cells dr_o dr_cells]. rewrite Forall_forall in *.
  intros c' Hc'. apply in_map_iff in Hc' as (c & <- & Hc). exact (H c Hc).
Qed.

(* ---------- histories ---------- *)
(* the raw MPlace operations of a history must target a row allowed for the cell; swap, insert and
   unplace need nothing (their own guards do it) *)
Definition mop_allowed (s : dstate) (o : mop) : bool :=
  match o with MPlace c r _ _ => place_allowed s c r | _ => true end.

Fixpoint hist_allowed (s : dstate) (ops : list mop) : Prop :=
  match ops with
  | [] => True
  | o :: t => mop_allowed s o = true /\ hist_allowed (step_mop s o) t
  end.

Lemma apply_mop_oinv s o s' : OInvM s -> mop_allowed s o = true -> apply_mop s o = Some s' -> OInvM s'.
Proof.
  intros HI HA A. destruct o; cbn [apply_mop mop_allowed] in *.
  - eapply swap_oinv; eassumption.
  - eapply insert_oinv; eassumption.
  - exact (proj1 (unplace_oinv _ _ _ HI A)).
  - eapply place_oinv; eassumption.
Qed.

Lemma step_oinv s o : OInvM s -> mop_allowed s o = true -> OInvM (step_mop s o).
Proof.
  intros HI HA. unfold step_mop. destruct (apply_mop s o) as [s'|] eqn:A; [|exact HI].
  eapply apply_mop_oinv; eassumption.
Qed.

Theorem run_mops_oinv ops : forall s, OInvM s -> hist_allowed s ops -> OInvM (run_mops s ops).
Proof.
  induction ops as [|o ops IH]; intros s HI HA; cbn [run_mops fold_left]; [exact HI|].
  destruct HA as [H1 H2]. apply IH; [apply step_oinv; assumption|exact H2].
Qed.

(* histories of the optimiser: swap / insert / unplace only *)
Definition no_raw_place (o : mop) : bool := match o with MPlace _ _ _ _ => false | _ => true end.

Lemma no_raw_place_allowed ops : forall s, forallb no_raw_place ops = true -> hist_allowed s ops.
Proof.
  induction ops as [|o ops IH]; intros s; cbn [forallb hist_allowed]; [tauto|].
  intros H. apply andb_true_iff in H as [H1 H2]. split; [|apply IH; exact H2].
  destruct o; cbn in *; try reflexivity. discriminate.
Qed.

Corollary run_mops_oinv_guarded ops s : OInvM s -> forallb no_raw_place ops = true -> OInvM (run_mops s ops).
Proof. intros HI H. apply run_mops_oinv; [exact HI|apply no_raw_place_allowed; exact H]. Qed.

(* histories mixing the moves and the shift pass *)
Inductive dop := DMop (o : mop) | DShift (xs : list (nat * Z)).
Definition step_dop (s : dstate) (o : dop) : dstate :=
  match o with DMop m => step_mop s m | DShift xs => apply_shift s xs end.
Definition run_dops (s : dstate) (ops : list dop) : dstate := fold_left step_dop ops s.
Definition dop_allowed (s : dstate) (o : dop) : bool :=
  match o with DMop m => mop_allowed s m | DShift _ => true end.
Fixpoint dhist_allowed (s : dstate) (ops : list dop) : Prop :=
  match ops with
  | [] => True
  | o :: t => dop_allowed s o = true /\ dhist_allowed (step_dop s o) t
  end.

Theorem run_dops_oinv ops : forall s, OInvM s -> dhist_allowed s ops -> OInvM (run_dops s ops).
Proof.
  induction ops as [|o ops IH]; intros s HI HA; cbn [run_dops fold_left]; [exact HI|].
  destruct HA as [H1 H2]. apply IH; [|exact H2].
  destruct o as [m|xs]; cbn [step_dop dop_allowed] in *; [apply step_oinv; assumption|apply shift_oinv; exact HI].
Qed.

(* ---------- link with the documented table ---------- *)
Theorem oinv_prescribed s r c :
  OInvM s -> In r (d_rows s) -> In c (dr_cells r) ->
  p_pol c <> pANY -> dr_o r <> oUNKNOWN -> dr_o r <> oINVALID ->
  prescribed (p_pol c) (dr_o r) = Some (Some (p_o c)) /\ p_o c <> oINVALID /\ p_o c <> oUNKNOWN.
Proof.
  intros HI Hr Hc Hp Hu Hi. pose proof (OInvM_reads _ _ _ HI Hr Hc) as H. unfold cell_o_ok in H.
  pose proof (table_matches_doc (p_pol c) (dr_o r)) as T.
  destruct (p_pol c), (dr_o r); try congruence; cbn in H, T |- *;
    try (destruct H as [H1 H2]; [discriminate|]; try congruence; rewrite H1; repeat split; discriminate).
Qed.

(* a forbidden row is never occupied *)
Corollary oinv_row_allowed s r c :
  OInvM s -> In r (d_rows s) -> In c (dr_cells r) -> row_allowed (p_pol c) r = true.
Proof.
  intros HI Hr Hc. pose proof (OInvM_reads _ _ _ HI Hr Hc) as H. unfold cell_o_ok in H.
  unfold row_allowed. apply negb_true_iff. apply orient_eqb_false. intros E.
  rewrite E in H. destruct H as [_ H]; [discriminate|]. apply H. reflexivity.
Qed.

(* ---------- cells without polarity keep the orientation they had ---------- *)
Definition cells_of (s : dstate) : list pcell := flat_map dr_cells (d_rows s) ++ d_loose s.

(* what is observable of a cell, its orientation only when it has no polarity *)
Definition anykey (c : pcell) : nat * Z * polarity * option orient :=
  (p_id c, p_w c, p_pol c, if polarity_eqb (p_pol c) pANY then Some (p_o c) else None).

Lemma flat_upd rows k r : nth_error rows k = Some r ->
  exists rest, (forall l, Permutation (flat_map dr_cells (upd_row rows k (set_cells r l))) (l ++ rest)) /\
               Permutation (flat_map dr_cells rows) (dr_cells r ++ rest).
Proof.
  revert k. induction rows as [|x t IH]; intros [|k]; cbn [nth_error]; try discriminate.
  - intros [= ->]. exists (flat_map dr_cells t). split; [intros l|]; cbn [upd_row flat_map set_cells dr_cells]; apply Permutation_refl.
  - intros H. destruct (IH _ H) as (rest & H1 & H2). exists (dr_cells x ++ rest). split.
    + intros l. cbn [upd_row flat_map]. eapply Permutation_trans; [apply Permutation_app_head; apply H1|].
      rewrite !app_assoc. apply Permutation_app_tail. apply Permutation_app_comm.
    + cbn [flat_map]. eapply Permutation_trans; [apply Permutation_app_head; exact H2|].
      rewrite !app_assoc. apply Permutation_app_tail. apply Permutation_app_comm.
Qed.

Lemma unplace_cells s id s' : unplace s id = Some s' -> Permutation (cells_of s) (cells_of s').
Proof.
  intros U. apply unplace_spec in U as (i & r & a & m & b & _ & Hn & Hc & _ & Hr & Hl).
  unfold cells_of. rewrite Hr, Hl. destruct (flat_upd _ _ _ Hn) as (rest & H1 & H2).
  eapply Permutation_trans; [apply Permutation_app_tail; exact H2|].
  eapply Permutation_trans; [|apply Permutation_app_tail; apply Permutation_sym; apply H1].
  rewrite Hc. rewrite <- !app_assoc. cbn [app].
  apply Permutation_app_head. rewrite !app_assoc. apply Permutation_middle.
Qed.

Lemma take_loose_perm id l c l' : take_loose id l = Some (c, l') -> Permutation l (c :: l').
Proof.
  revert c l'. induction l as [|x r IH]; intros c l'; cbn [take_loose]; [discriminate|].
  destruct (Nat.eqb (p_id x) id); [intros [= <- <-]; apply Permutation_refl|].
  destruct (take_loose id r) as [[m r']|]; [|discriminate]. intros [= <- <-].
  eapply Permutation_trans; [apply perm_skip; apply IH; reflexivity|]. apply perm_swap.
Qed.

Lemma place_cells s id rowi pred x s' : place s id rowi pred x = Some s' ->
  Permutation (map anykey (cells_of s)) (map anykey (cells_of s')).
Proof.
  unfold place.
  destruct (take_loose id (d_loose s)) as [[c loose']|] eqn:T; [|discriminate].
  destruct (nth_error (d_rows s) rowi) as [r|] eqn:N; [|discriminate].
  destruct (split_site pred (dr_cells r)) as [[a b]|] eqn:S; [|discriminate].
  destruct (_ && _); [|discriminate]. intros [= <-]. unfold cells_of. cbn [d_rows d_loose].
  set (c' := {| p_id := p_id c; p_x := x; p_w := p_w c; p_pol := p_pol c; p_o := _ |}).
  assert (K : anykey c' = anykey c).
  { unfold anykey, c'. cbn [p_id p_w p_pol p_o]. destruct (p_pol c); cbn; reflexivity. }
  destruct (flat_upd _ _ _ N) as (rest & H1 & H2). apply split_site_app in S. apply take_loose_perm in T.
  eapply Permutation_trans; [apply Permutation_map; apply Permutation_app; [exact H2|exact T]|].
  eapply Permutation_trans; [|apply Permutation_map; apply Permutation_app_tail; apply Permutation_sym; apply H1].
  rewrite S. rewrite !map_app. cbn [map]. rewrite K.
  rewrite <- !app_assoc. apply Permutation_app_head. cbn [app].
  apply Permutation_sym. rewrite !app_assoc. apply Permutation_middle.
Qed.

Lemma unplace_keys s id s' : unplace s id = Some s' -> Permutation (map anykey (cells_of s)) (map anykey (cells_of s')).
Proof. intros U. apply Permutation_map. eapply unplace_cells; exact U. Qed.

Lemma insert_keys s id rowi pred s' : insert s id rowi pred = Some s' ->
  Permutation (map anykey (cells_of s)) (map anykey (cells_of s')).
Proof.
  unfold insert. destruct (can_insert s id rowi pred) as [[|]|]; try discriminate.
  destruct (find_row _ _ _) as [[[[[? ?] ?] c] ?]|]; [|discriminate].
  destruct (nth_error _ _) as [r|]; [|discriminate].
  destruct (split_site _ _) as [[sa sb]|]; [|discriminate].
  destruct (unplace s id) as [s1|] eqn:U; [|discriminate].
  intros P. eapply Permutation_trans; [eapply unplace_keys; exact U|eapply place_cells; exact P].
Qed.

Lemma swap_keys s c1 c2 s' : swap s c1 c2 = Some s' ->
  Permutation (map anykey (cells_of s)) (map anykey (cells_of s')).
Proof.
  unfold swap. destruct (can_swap s c1 c2) as [[|]|]; try discriminate.
  destruct (find_row (d_rows s) c1 0) as [[[[[i1 r1] a1] m1] b1]|]; [|discriminate].
  destruct (find_row (d_rows s) c2 0) as [[[[[i2 r2] a2] m2] b2]|]; [|discriminate].
  destruct (bounds_of r1 a1 b1) as [bb1 ba1]. destruct (bounds_of r2 a2 b2) as [bb2 ba2].
  destruct (if opt_nat_eqb (pred_of a1) (Some c2) then _ else _) as [x1 x2].
  destruct (unplace s c1) as [s1|] eqn:U1; [|discriminate].
  destruct (unplace s1 c2) as [s2|] eqn:U2; [|discriminate].
  assert (K2 : Permutation (map anykey (cells_of s)) (map anykey (cells_of s2))).
  { eapply Permutation_trans; eapply unplace_keys; eassumption. }
  destruct (opt_nat_eqb (pred_of a1) (Some c2)).
  - destruct (place s2 c1 i2 _ x1) as [s3|] eqn:P1; [|discriminate]. intros P2.
    eapply Permutation_trans; [exact K2|]. eapply Permutation_trans; eapply place_cells; eassumption.
  - destruct (opt_nat_eqb (pred_of a2) (Some c1)).
    + destruct (place s2 c2 i1 _ x2) as [s3|] eqn:P1; [|discriminate]. intros P2.
      eapply Permutation_trans; [exact K2|]. eapply Permutation_trans; eapply place_cells; eassumption.
    + destruct (place s2 c1 i2 _ x1) as [s3|] eqn:P1; [|discriminate]. intros P2.
      eapply Permutation_trans; [exact K2|]. eapply Permutation_trans; eapply place_cells; eassumption.
Qed.

Lemma step_keys s o : Permutation (map anykey (cells_of s)) (map anykey (cells_of (step_mop s o))).
Proof.
  unfold step_mop. destruct (apply_mop s o) as [s'|] eqn:A; [|apply Permutation_refl].
  destruct o; cbn [apply_mop] in A.
  - eapply swap_keys; eassumption.
  - eapply insert_keys; eassumption.
  - eapply unplace_keys; eassumption.
  - eapply place_cells; eassumption.
Qed.

Lemma shift_keys s xs : map anykey (cells_of (apply_shift s xs)) = map anykey (cells_of s).
Proof.
  unfold cells_of, apply_shift. cbn [d_rows d_loose]. rewrite !map_app. f_equal.
  induction (d_rows s) as [|r t IH]; cbn [map flat_map]; [reflexivity|].
  rewrite !map_app, IH. f_equal. cbn [set_cells dr_cells]. rewrite map_map. reflexivity.
Qed.

(* no guard at all is needed for this one: EVERY history, raw place included *)
Theorem run_mops_keys ops : forall s, Permutation (map anykey (cells_of s)) (map anykey (cells_of (run_mops s ops))).
Proof.
  induction ops as [|o ops IH]; intros s; cbn [run_mops fold_left]; [apply Permutation_refl|].
  eapply Permutation_trans; [apply step_keys|apply IH].
Qed.

Theorem run_dops_keys ops : forall s, Permutation (map anykey (cells_of s)) (map anykey (cells_of (run_dops s ops))).
Proof.
  induction ops as [|o ops IH]; intros s; cbn [run_dops fold_left]; [apply Permutation_refl|].
  eapply Permutation_trans; [|apply IH]. destruct o as [m|xs]; cbn [step_dop]; [apply step_keys|].
  rewrite shift_keys. apply Permutation_refl.
Qed.

(* readable form: with unique ids, the cell without polarity of a given id has the same orientation
   before and after *)
Corollary any_cells_keep_orientation ops s c' :
  In c' (cells_of (run_dops s ops)) -> p_pol c' = pANY ->
  exists c, In c (cells_of s) /\ p_id c = p_id c' /\ p_w c = p_w c' /\ p_pol c = pANY /\ p_o c = p_o c'.
Proof.
  intros Hin Hp. apply (in_map anykey) in Hin.
  apply (Permutation_in _ (Permutation_sym (run_dops_keys ops s))) in Hin.
  apply in_map_iff in Hin as (c & E & Hc). exists c. split; [exact Hc|].
  unfold anykey in E. rewrite Hp in E. injection E as E1 E2 E3 E4. rewrite E3 in E4. cbn in E4.
  injection E4 as E4. tauto.
Qed.

(* ---------- refutation: the raw primitive is not guarded (finding F7) ---------- *)
Definition f7_state : dstate :=
  {| d_rows := [ {| dr_min := 0; dr_max := 10; dr_y := 0; dr_o := oFS; dr_cells := [] |} ];
     d_loose := [ {| p_id := 0; p_x := 0; p_w := 2; p_pol := pNW; p_o := oN |} ] |}.

Example place_unguarded_refuted :
  OInvM f7_state /\ mop_allowed f7_state (MPlace 0 0 None 3) = false /\
  exists s', apply_mop f7_state (MPlace 0 0 None 3) = Some s' /\
             map (fun r => map p_o (dr_cells r)) (d_rows s') = [[oINVALID]] /\ ~ OInvM s'.
Proof.
  split; [apply oinvb_spec; vm_compute; reflexivity|]. split; [vm_compute; reflexivity|].
  eexists. split; [vm_compute; reflexivity|]. split; [vm_compute; reflexivity|].
  intros H. apply oinvb_spec in H. vm_compute in H. discriminate.
Qed.
