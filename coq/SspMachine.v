(* C07: the C++-typed intermediate values of the integer side of TransportationProblem /
   TransportationSuccessiveShortestPath (src/place_global/transportation.cpp; CostType = int, DemandType = long long,
   transportation.hpp:8-9), over the ideal model Ssp.v.  Line numbers: /repo main (da3fc07).
   The types are transcribed BY HAND (modelled, not verified).  Definitions only.
   Listed: totalDemand/totalCapacity (std::accumulate with 0LL), increaseCapacity, movingCost (problem level),
   bestSink's `sendingCost_[i] + cost(i, src)`, updateTree's `movingCost(i, bestVisit) + sendingCost_[bestVisit]`.
   NOT listed (see design/C07.md): the allocation updates of sendSource (long long, bounded by the demands: observed
   only) and the magnitude of sendingCost_ along the whole run, which rests on the successive-shortest-path invariant
   (no negative cycle among the moving costs) that Properties_C13 leaves unproved. *)
From Coq Require Import List ZArith Lia Bool.
Import ListNotations.
Require Import CV.Ssp CV.RowLegMachine CV.Transp1dMachine.
Local Open Scope Z_scope.

(* totalDemand cpp:217-219 / totalCapacity cpp:221-223: std::accumulate(begin, end, 0LL), running sums from the left *)
Definition accumulate_vals (l : list Z) : list (cty * Z) := acc_vals 0 l.

(* increaseCapacity cpp:306-320 *)
Definition increase_capacity_vals (pb : Pb) : list (cty * Z) :=
  let missing := total_demand pb - total_capacity pb in
  accumulate_vals (dems pb) ++ accumulate_vals (caps pb) ++ [(I64, missing)]        (* 307 *)
  ++ (if missing <=? 0 then [] else
      let n := Z.of_nat (nsnk pb) in
      let added := Z.quot missing n in
      [(I32, n); (I64, n); (I64, added)]                                              (* 311  missing / nbSinks() *)
      ++ map (fun c => (I64, c + added)) (caps pb)                                    (* 313 *)
      ++ [(I64, added * n); (I64, missing - added * n)]                               (* 315 *)
      ++ map (fun c => (I64, c + added + 1)) (firstn (Z.to_nat (missing - added * n)) (caps pb))   (* 318 *)
      ++ map (fun i => (I32, Z.of_nat i + 1)) (seq 0 (nsnk pb))).                     (* 312, 317 ++i *)

(* TransportationProblem::movingCost(src, snk1, snk2) = costs_[snk2][src] - costs_[snk1][src]  (int)  cpp:267-270;
   every CostElt built by initQueues (575) and updateDestQueues (610) holds such a value *)
Definition moving_vals (pb : Pb) (src snk1 snk2 : nat) : list (cty * Z) := [(I32, pmoving pb src snk1 snk2)].

(* bestSink cpp:449-460: CostType cost = sendingCost_[i] + pb_.cost(i, src) for every sink i *)
Definition best_sink_vals (pb : Pb) (sc : list Z) (src : nat) : list (cty * Z) :=
  map (fun i => (I32, getZ sc i + cost pb i src)) (seq 0 (nsnk pb)).

(* updateTree cpp:502: CostType newCost = movingCost(i, bestVisit) + sendingCost_[bestVisit] *)
Definition relax_vals (mc scb : Z) : list (cty * Z) := [(I32, mc + scb)].

(* the guarantee of costsFromIntegers cpp:153-174 on its integer results: conversionFactor_ = INT_MAX / maxVal / 4 /
   nbSinks, costs_[i][j] = round(cost * conversionFactor_) with 0 <= cost <= maxVal, so 4 * nbSinks * costs_[i][j] is
   at most INT_MAX + 2 * nbSinks (the rounding adds at most 1/2).  The float side is modelled in CostsFloat.v (binary32 /
   binary64, Flocq) and PROVED in CostsFloatProofs.v: float_problem_cost_dom establishes cost_dom for every rectangular
   matrix of finite non-negative binary32 costs with 1 <= nbSinks < 2^30 (Properties_C07.c07_float_problem_cost_dom). *)
Definition cost_dom (pb : Pb) : Prop :=
  (0 < nsnk pb)%nat /\ Z.of_nat (nsnk pb) < 1073741824 /\
  forall j i, 0 <= cost pb j i /\ 4 * Z.of_nat (nsnk pb) * cost pb j i <= 2147483647 + 2 * Z.of_nat (nsnk pb).
(* labels of a shortest-path tree over at most nbSinks - 1 moving costs *)
Definition label_dom (pb : Pb) (sc : list Z) : Prop :=
  forall i, (i < nsnk pb)%nat -> 4 * Z.abs (getZ sc i) <= 2147483647 + 2 * Z.of_nat (nsnk pb).
