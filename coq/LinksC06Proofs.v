(* C06 <- C16: the two hypotheses about the view that C06's composed theorem (Properties_C06_compose.v,
   c06_ub_exposed_centres_inside_rows_bbox) takes from C16 are PROVED here for every state of C16's model:
     (a) make_hier g = Some h  ==>  levels_ok (length (limX g) - 1) (xlim h) (xpar h)  (hier_wf hides the number), hence
         the limits of every level are a view of the finest limits (is_view = true, limits_view);
     (b) inv h d s (C16's partition invariant)  ==>  bins_positive for v_cells = bcells s.
   Corollaries: for the grid of a circuit, its hierarchy, any state reached by C16's operations from the constructor's
   state: view_of_circuit = true, bins_positive, view_shape = true; the composed theorem without the two hypotheses. *)
From Coq Require Import ZArith Reals List Bool Lia Sorted.
From Flocq Require Import Core BinarySingleNaN.
Require Import CV.Orient CV.FreeSpace CV.Spread CV.SpreadProofs CV.SpreadFloat CV.SpreadFloatProofs.
Require Import CV.GlobalCompose CV.GlobalComposeProofs.
Require CV.Density CV.DensityProofs.
Require Import CV.Links.
Import ListNotations.
Local Open Scope Z_scope.

Module D := CV.Density.
Module DP := CV.DensityProofs.

(* ------------------------------------------------------------------ (a) the hierarchy's levels, with the number *)

Lemma make_hier_levels : forall g h, D.make_hier g = Some h ->
  (2 <= length (D.limX g))%nat -> (2 <= length (D.limY g))%nat ->
  D.hgrid h = g /\
  DP.levels_ok (length (D.limX g) - 1) (D.xlim h) (D.xpar h) /\
  DP.levels_ok (length (D.limY g) - 1) (D.ylim h) (D.ypar h).
Proof.
  intros g h Hh Hx Hy. unfold D.make_hier in Hh.
  destruct (DP.setup_hierarchy_ok (length (D.limX g) - 1)) as (Lx & Px & Ex & Okx); [lia|].
  destruct (DP.setup_hierarchy_ok (length (D.limY g) - 1)) as (Ly & Py & Ey & Oky); [lia|].
  rewrite Ex, Ey in Hh. inversion Hh; subst h. cbn [D.hgrid D.xlim D.xpar D.ylim D.ypar]. auto.
Qed.

Lemma sel_length : forall (l : list Z) idx vs, D.sel l idx = Some vs -> length vs = length idx.
Proof.
  intros l idx. induction idx as [|k idx IH]; intros vs Hs; simpl in Hs.
  - inversion Hs. reflexivity.
  - destruct (nth_error l k); [|discriminate]. destruct (D.sel l idx) as [r|]; [|discriminate].
    inversion Hs; subst. simpl. f_equal. apply IH. reflexivity.
Qed.

Lemma schain_lt_all : forall a l, DP.schainZ (a :: l) -> Forall (Z.lt a) l.
Proof.
  intros a l. revert a. induction l as [|b l IH]; intros a Hs; [constructor|].
  destruct Hs as [Hab Hs]. constructor; [exact Hab|].
  specialize (IH b Hs). eapply Forall_impl; [|exact IH]. intros c Hc. simpl in Hc. lia.
Qed.

Lemma schain_tail : forall a l, DP.schainZ (a :: l) -> DP.schainZ l.
Proof. intros a [|b l] Hs; [exact I|]. destruct Hs as [_ Hs]. exact Hs. Qed.

Lemma schain_sorted : forall l, DP.schainZ l -> StronglySorted Z.lt l.
Proof.
  induction l as [|a l IH]; intros Hs; [constructor|].
  constructor; [apply IH; eapply schain_tail; exact Hs|apply schain_lt_all; exact Hs].
Qed.

(* a strictly increasing list taken from a strictly increasing list is found by the greedy sub-sequence test *)
Lemma sorted_sub_subseqb : forall fine v, StronglySorted Z.lt fine -> StronglySorted Z.lt v ->
  (forall a, In a v -> In a fine) -> subseqb fine v = true.
Proof.
  induction fine as [|b fine IH]; intros v Hf Hv Hin.
  - destruct v as [|a v]; [reflexivity|]. destruct (Hin a (or_introl eq_refl)).
  - destruct v as [|a v]; [reflexivity|]. cbn [subseqb].
    inversion Hf as [|? ? Hf' Hb]; subst. inversion Hv as [|? ? Hv' Ha]; subst.
    rewrite Forall_forall in Hb, Ha.
    destruct (Z.eqb_spec a b) as [E|N].
    + subst a. apply IH; [exact Hf'|exact Hv'|].
      intros c Hc. destruct (Hin c (or_intror Hc)) as [E|Hc']; [|exact Hc'].
      specialize (Ha c Hc). lia.
    + assert (Hab : b < a).
      { destruct (Hin a (or_introl eq_refl)) as [E|Ha']; [congruence|]. apply Hb. exact Ha'. }
      apply IH; [exact Hf'|exact Hv|].
      intros c Hc. destruct (Hin c Hc) as [E|Hc']; [|exact Hc'].
      subst c. destruct Hc as [E|Hc]; [congruence|]. specialize (Ha b Hc). lia.
Qed.

(* the limits of every level are a view in the sense of the boolean test of the tie, and in the Prop sense *)
Lemma level_limits_is_view : forall fine nb Lv P lvl vs, (1 <= nb)%nat -> DP.levels_ok nb Lv P ->
  length fine = S nb -> DP.schainZ fine ->
  D.level_limits fine Lv lvl = Some vs -> is_view fine vs = true /\ limits_view fine vs /\ length vs = length (nth lvl Lv []).
Proof.
  intros fine nb Lv P lvl vs Hnb Hok Hlen Hsc Hv.
  pose proof (c16_level_limits_view fine nb Lv P lvl vs Hnb Hok Hlen Hsc Hv) as LV.
  assert (Hl : (lvl < length Lv)%nat).
  { unfold D.level_limits in Hv. destruct (nth_error Lv lvl) eqn:E; [|discriminate]. apply nth_error_Some. congruence. }
  destruct (DP.level_limits_tile fine nb Lv P lvl Hnb Hok Hlen (DP.schain_chain _ Hsc) Hl)
    as (vs' & E & Hhd & Hla & _ & _).
  rewrite Hv in E. inversion E; subst vs'. clear E.
  destruct (DP.hierarchy_levels nb Lv P Hnb Hok) as (Hall & _). rewrite Forall_forall in Hall.
  unfold D.level_limits in Hv. destruct (nth_error Lv lvl) as [idx|] eqn:Ei; [|discriminate].
  destruct (Hall idx (nth_error_In _ _ Ei)) as (_ & _ & _ & Hlen2).
  pose proof (sel_length _ _ _ Hv) as Hsl.
  assert (Enth : nth lvl Lv [] = idx) by (apply nth_error_nth; exact Ei).
  split; [|split; [exact LV|rewrite Enth; exact Hsl]].
  unfold is_view. destruct LV as [Hs Hi].
  rewrite (sorted_sub_subseqb fine vs (schain_sorted _ Hsc) (schain_sorted _ Hs) Hi).
  unfold DP.hdZ, DP.lastZ in Hhd, Hla. rewrite Hhd, Hla, !Z.eqb_refl.
  replace (2 <=? length vs)%nat with true by (symmetry; apply Nat.leb_le; lia). reflexivity.
Qed.

(* ------------------------------------------------------------------ (b) the partition invariant gives bins_positive *)

Lemma inv_bins_positive : forall h cells s v, DP.inv h (circuit_demand cells) s -> v_cells v = D.bcells s ->
  bins_positive cells v.
Proof.
  intros h cells s v I Ev c Hc. unfold view_cells in Hc. rewrite Ev in Hc.
  change (concat (concat (D.bcells s))) with (D.allcells (D.bcells s)) in Hc.
  pose proof (DP.inv_rng _ _ _ I c Hc) as Hr.
  destruct (nth_error (circuit_demand cells) c) as [d|] eqn:Ed; [|apply nth_error_None in Ed; lia].
  pose proof (DP.inv_cnt _ _ _ I c d Ed) as Hcnt.
  apply DP.cnt_pos_In in Hc. fold (circuit_demand cells).
  rewrite (nth_error_nth _ _ 0 Ed). destruct (Z.ltb_spec 0 d); [assumption|lia].
Qed.

(* ------------------------------------------------------------------ the grid of a circuit: finest limits *)

Lemma circuit_grid_fine : forall margin maxSize rows cells, 0 <= margin -> 1 <= maxSize -> has_proper_row rows ->
  let g := D.grid_of_circuit maxSize margin rows cells in
  (2 <= length (D.limX g))%nat /\ (2 <= length (D.limY g))%nat /\ DP.schainZ (D.limX g) /\ DP.schainZ (D.limY g).
Proof.
  intros margin maxSize rows cells Hm Hs Hrow g.
  destruct (grid_of_circuit_bridge maxSize margin rows cells) as [Bx By]. fold g in Bx, By. rewrite Bx, By.
  destruct (Spread.grid_of_circuit margin maxSize rows cells) as [lx ly] eqn:Eg. cbn [fst snd].
  destruct (grid_of_circuit_limits_all margin maxSize rows cells lx ly Hm Hs Hrow Eg) as (_ & _ & _ & Hlx & Hly & _ & _).
  unfold Spread.grid_of_circuit in Eg. inversion Eg as [[Ex Ey]].
  split; [apply limits_length|]. split; [apply limits_length|].
  rewrite Ex, Ey. split; apply sorted_schain; eapply limits_ok_sorted; eassumption.
Qed.

(* [F] (a) for the grid of a circuit: the view at ANY pair of levels of its hierarchy, with ANY cell lists *)
Theorem circuit_level_view : forall margin maxSize rows cells h lx ly bc,
  0 <= margin -> 1 <= maxSize -> has_proper_row rows ->
  let g := D.grid_of_circuit maxSize margin rows cells in
  D.make_hier g = Some h -> (lx < length (D.xlim h))%nat -> (ly < length (D.ylim h))%nat ->
  exists v, view_at g h lx ly bc = Some v /\ v_cells v = bc /\
    view_of_circuit margin maxSize rows cells v = true /\
    limits_view (fst (Spread.grid_of_circuit margin maxSize rows cells)) (v_x v) /\
    limits_view (snd (Spread.grid_of_circuit margin maxSize rows cells)) (v_y v) /\
    length (v_x v) = length (nth lx (D.xlim h) []) /\ length (v_y v) = length (nth ly (D.ylim h) []).
Proof.
  intros margin maxSize rows cells h lx ly bc Hm Hs Hrow g Hh Hlx Hly.
  destruct (circuit_grid_fine margin maxSize rows cells Hm Hs Hrow) as (L2x & L2y & Sx & Sy). fold g in L2x, L2y, Sx, Sy.
  destruct (make_hier_levels g h Hh L2x L2y) as (_ & Okx & Oky).
  assert (Nx : (1 <= length (D.limX g) - 1)%nat) by lia. assert (Ny : (1 <= length (D.limY g) - 1)%nat) by lia.
  assert (Ex : length (D.limX g) = S (length (D.limX g) - 1)) by lia.
  assert (Ey : length (D.limY g) = S (length (D.limY g) - 1)) by lia.
  destruct (DP.level_limits_tile (D.limX g) _ _ _ lx Nx Okx Ex (DP.schain_chain _ Sx) Hlx) as (vx & Evx & _).
  destruct (DP.level_limits_tile (D.limY g) _ _ _ ly Ny Oky Ey (DP.schain_chain _ Sy) Hly) as (vy & Evy & _).
  destruct (level_limits_is_view _ _ _ _ _ _ Nx Okx Ex Sx Evx) as (Vx & LVx & Lenx).
  destruct (level_limits_is_view _ _ _ _ _ _ Ny Oky Ey Sy Evy) as (Vy & LVy & Leny).
  exists {| v_x := vx; v_y := vy; v_cells := bc |}. unfold view_at. rewrite Evx, Evy. cbn [v_x v_y v_cells].
  destruct (grid_of_circuit_bridge maxSize margin rows cells) as [Bx By]. fold g in Bx, By.
  split; [reflexivity|]. split; [reflexivity|].
  unfold view_of_circuit. cbv zeta. cbn [v_x v_y]. rewrite <- Bx, <- By, Vx, Vy. auto.
Qed.

(* [F] (a) + (b): every state C16's operations reach on the grid of a circuit, with the circuit's demands: its view
   exists and satisfies BOTH hypotheses of C06's composed theorem (and has the shape the C++ guarantees) *)
Theorem reached_state_view : forall margin maxSize rows cells h ops s,
  0 <= margin -> 1 <= maxSize -> has_proper_row rows ->
  let g := D.grid_of_circuit maxSize margin rows cells in
  let d := circuit_demand cells in
  D.make_hier g = Some h -> D.run_ops h (length d) (D.init_state h d) ops = Some s ->
  exists v, state_view g h s = Some v /\ v_cells v = D.bcells s /\
    view_of_circuit margin maxSize rows cells v = true /\ bins_positive cells v /\ view_shape v = true /\
    limits_view (fst (Spread.grid_of_circuit margin maxSize rows cells)) (v_x v) /\
    limits_view (snd (Spread.grid_of_circuit margin maxSize rows cells)) (v_y v).
Proof.
  intros margin maxSize rows cells h ops s Hm Hs Hrow g d Hh Hrun.
  destruct (DP.circuit_partition_invariant maxSize margin rows cells d ops h s Hh Hrun) as [I _].
  pose proof (DP.inv_nbx _ _ _ I) as Hnx. unfold D.nbx in Hnx. apply DP.nbins_at_Some in Hnx.
  destruct Hnx as (lxs & Elx & Elen).
  destruct (DP.inv_nby _ _ _ I) as (ky & Hny & Hcols). unfold D.nby in Hny. apply DP.nbins_at_Some in Hny.
  destruct Hny as (lys & Ely & Eky).
  assert (Hlx : (D.lvx s < length (D.xlim h))%nat) by (apply nth_error_Some; congruence).
  assert (Hly : (D.lvy s < length (D.ylim h))%nat) by (apply nth_error_Some; congruence).
  destruct (circuit_level_view margin maxSize rows cells h (D.lvx s) (D.lvy s) (D.bcells s) Hm Hs Hrow Hh Hlx Hly)
    as (v & Ev & Ec & Hv & LVx & LVy & Lenx & Leny).
  exists v. split; [exact Ev|]. split; [exact Ec|]. split; [exact Hv|].
  split; [eapply inv_bins_positive; [exact I|exact Ec]|]. split; [|auto].
  rewrite (nth_error_nth _ _ [] Elx) in Lenx. rewrite (nth_error_nth _ _ [] Ely) in Leny.
  unfold view_shape. rewrite Ec, Lenx, Leny, <- Elen, Nat.eqb_refl. cbn [andb].
  apply forallb_forall. intros col Hcol. rewrite Forall_forall in Hcols. rewrite (Hcols col Hcol), Eky.
  apply Nat.eqb_refl.
Qed.

(* ------------------------------------------------------------------ the composed theorem, hypotheses discharged *)

(* [F] C06's clause 1 for every state of C16's model: no hypothesis about the view is left *)
Theorem ub_exposed_inside_for_reached_state : forall margin maxSize rows cells h ops s tx ty,
  0 <= margin -> 1 <= maxSize -> has_proper_row rows ->
  in_window (bbox (map rr rows)) -> cells_window cells ->
  let g := D.grid_of_circuit maxSize margin rows cells in
  let d := circuit_demand cells in
  D.make_hier g = Some h -> D.run_ops h (length d) (D.init_state h d) ops = Some s ->
  exists v, state_view g h s = Some v /\
  forall i c, nth_error cells i = Some c -> cc_fixed c = false -> (i < length tx)%nat -> (i < length ty)%nat ->
  let R := bbox (map rr rows) in
  exists X Y, nth_error (ub_exposure margin rows cells v tx ty) i = Some (Some (X, Y)) /\
    2 * minX R - placed_w c mod 2 <= 2 * X + placed_w c <= 2 * maxX R + placed_w c mod 2 /\
    2 * minY R - placed_h c mod 2 <= 2 * Y + placed_h c <= 2 * maxY R + placed_h c mod 2.
Proof.
  intros margin maxSize rows cells h ops s tx ty Hm Hs Hrow Hwin Hcw g d Hh Hrun.
  destruct (reached_state_view margin maxSize rows cells h ops s Hm Hs Hrow Hh Hrun) as (v & Ev & _ & Hv & Hp & _).
  exists v. split; [exact Ev|]. intros i c Hc Hfx Hix Hiy.
  exact (ub_exposed_centres_inside_rows_bbox margin maxSize rows cells v tx ty Hm Hs Hrow Hwin Hcw Hv Hp i c Hc Hfx Hix Hiy).
Qed.

(* [F] the hierarchy exists for every circuit and the constructor's state is reached (empty history): the statement
   above is not vacuous for any circuit *)
Lemma circuit_has_reached_state : forall margin maxSize rows cells,
  exists h, D.make_hier (D.grid_of_circuit maxSize margin rows cells) = Some h /\
    D.run_ops h (length (circuit_demand cells)) (D.init_state h (circuit_demand cells)) [] =
      Some (D.init_state h (circuit_demand cells)).
Proof.
  intros margin maxSize rows cells.
  destruct (DP.circuit_grid_hierarchy_exists maxSize margin rows cells) as (h & Hh & _). exists h. split; [exact Hh|reflexivity].
Qed.

(* [F] an iteration oracle whose view is the view of a reached state satisfies oracle_ok *)
Lemma oracle_reached_ok : forall margin maxSize rows cells it, 0 <= margin -> 1 <= maxSize -> has_proper_row rows ->
  oracle_reached maxSize margin rows cells it -> oracle_ok margin maxSize rows cells it.
Proof.
  intros margin maxSize rows cells it Hm Hs Hrow [(h & ops & s & Hh & Hrun & Ev) Hl].
  destruct (reached_state_view margin maxSize rows cells h ops s Hm Hs Hrow Hh Hrun) as (v & Ev' & _ & Hv & Hp & _).
  rewrite Ev in Ev'. inversion Ev'; subst v. split; [exact Hv|]. split; [exact Hp|exact Hl].
Qed.

(* [F] the closed loop of GlobalPlacer::run with the views of reached states as the only view oracles: every upper bound
   it exposes keeps every movable cell inside the rows' bounding box *)
Theorem run_global_exposed_inside_reached : forall margin maxSize rows cells wrl maxNbSteps nbInitialSteps its vlast s0,
  0 <= margin -> 1 <= maxSize -> has_proper_row rows -> in_window (bbox (map rr rows)) -> cells_window cells ->
  state_len (length cells) s0 -> Forall (oracle_reached maxSize margin rows cells) its ->
  view_reached maxSize margin rows cells vlast ->
  forall e, In e (snd (run_global margin rows cells wrl maxNbSteps nbInitialSteps its vlast s0)) ->
  fst e <> KLowerBound ->
  forall i c, nth_error cells i = Some c -> cc_fixed c = false ->
  exists X Y, nth_error (snd e) i = Some (Some (X, Y)) /\ centre_inside (bbox (map rr rows)) c X Y.
Proof.
  intros margin maxSize rows cells wrl maxNbSteps nbInitialSteps its vlast s0 Hm Hs Hrow Hwin Hcw Hlen Hits Hlast.
  assert (Hok : Forall (oracle_ok margin maxSize rows cells) its).
  { eapply Forall_impl; [|exact Hits]. intros it Hit. apply oracle_reached_ok; assumption. }
  destruct Hlast as (h & ops & s & Hh & Hrun & Ev).
  destruct (reached_state_view margin maxSize rows cells h ops s Hm Hs Hrow Hh Hrun) as (v & Ev' & _ & Hv & Hp & _).
  rewrite Ev in Ev'. inversion Ev'; subst v.
  exact (run_global_exposed_inside margin maxSize rows cells wrl maxNbSteps nbInitialSteps its vlast s0
           Hm Hs Hrow Hwin Hcw Hlen Hok Hv Hp).
Qed.
