(* Proof gaps named by the independent review design/review/review_C01-C05.md (C02-1, C02-3, C02-4, C04-3,
   C05-1, C01-9): composition lemmas over the existing models (no new model: definitions needed by the
   statements are in ReviewGaps1.v).
     part 1  legalization keeps std_design; what it writes for a row-high cell; legalize ; fromIspdCircuit
     part 2  histories interleaving swaps, inserts, certified shifts and closed reordering passes
     part 3  a static condition for the F8 scope (orient_frozen at every reachable state)
     part 4  legal c -> movable cells are clear of the fixed obstructions *)
From Coq Require Import List ZArith Lia Bool Arith Permutation.
Import ListNotations.
Require Import CV.Orient CV.FreeSpace CV.FreeSpaceProofs CV.RowLeg CV.Circuit CV.CircuitProofs CV.OrientProofs.
Require Import CV.Legalizer CV.LegalizerProofs CV.LegalizerAbacusProofs CV.LegalizerSoundProofs.
Require Import CV.Moves CV.MovesProofs CV.MovesOrientProofs.
Require Import CV.DetailedInit CV.DetailedInitProofs CV.DetailedExport CV.DetailedExportProofs.
Local Open Scope Z_scope.

(* ================================================================== *)
(* part 1a: what Legalizer::run writes for a cell that is exactly one row high.  Such a cell is never
   selected by the Tetris pass (its filter is rowHeight < height); the Abacus pass puts it INSIDE one
   segment and reads its orientation from THAT segment (legalize_sound only says "from some segment with
   the same bottom y", which is all that holds for the Tetris pass: finding F19).  No hypothesis on the
   orientations of the rows. *)
Theorem legalize_rowhigh_cell rows0 cellsL order pl rh :
  0 < rh ->
  (forall r, In r rows0 -> maxY (rr r) - minY (rr r) = rh) ->
  Forall (fun c => 0 < cw c /\ 0 < ch c) cellsL ->
  legalize rows0 cellsL order = Ok pl ->
  forall ci c x y o, nth_error cellsL ci = Some c -> nth_error pl ci = Some (x, y, o) -> ch c = rh ->
    exists r1, In r1 rows0 /\ o = seg_orientation c r1 /\ o <> oINVALID /\
               minY (rr r1) = y /\ minX (rr r1) <= x /\ x + cw c <= maxX (rr r1).
Proof.
  intros Hrh Hheight Hcells Hleg ci c x y o Hc Hv Hch.
  destruct (sort_rows rows0) as [|r0 rest] eqn:Hs.
  { destruct (legalize_norows _ _ _ _ Hs Hleg) as [-> ->]. destruct ci; discriminate. }
  assert (Hr0 : maxY (rr r0) - minY (rr r0) = rh).
  { apply Hheight. apply sort_rows_In. rewrite Hs. left. reflexivity. }
  pose proof (legalize_unfold _ _ _ _ _ _ Hs Hleg) as Hpl. cbv zeta in Hpl. rewrite Hr0 in Hpl.
  set (st0 := map (fun _ : cell => @None (Z * Z * orient)) cellsL) in *.
  set (sel1 := select cellsL st0 order (fun c => rh <? ch c)) in *.
  set (rowsT := remaining_rows (sort_rows rows0) cellsL st0) in *.
  set (st1 := import st0 sel1 (tetris_run rowsT (map snd sel1))) in *.
  set (sel2 := select cellsL st1 order (fun c => ch c =? rh)) in *.
  set (rowsA := remaining_rows (sort_rows rows0) cellsL st1) in *.
  set (cellsA := map snd sel2) in *.
  rewrite Forall_forall in Hcells.
  assert (HposA : widths_positive cellsA).
  { unfold widths_positive. apply Forall_forall. intros c1 Hc1. apply in_map_iff in Hc1 as ([cj c2] & <- & Hin).
    apply select_spec in Hin as (Hc2 & _). apply (Hcells c2). eapply nth_error_In; exact Hc2. }
  pose proof (abacus_orientation_valid rowsA cellsA HposA) as Hor. cbv zeta in Hor.
  apply (map_nth_error Some) in Hv. rewrite Hpl in Hv.
  apply import_spec in Hv as [Hv|(m & c1 & Hm & Hres)].
  - (* a value of the Tetris pass: impossible for a row-high cell *)
    exfalso. unfold st1 in Hv.
    apply import_spec in Hv as [Hv|(m & c1 & Hm & _)]; [eapply st0_none; exact Hv|].
    pose proof (select_spec _ _ _ _ _ _ (nth_error_In _ _ Hm)) as (Hc1 & _ & Hk).
    rewrite Hc in Hc1. injection Hc1 as <-. apply Z.ltb_lt in Hk. lia.
  - pose proof (select_spec _ _ _ _ _ _ (nth_error_In _ _ Hm)) as (Hc1 & _ & _).
    rewrite Hc in Hc1. injection Hc1 as <-.
    assert (HmA : nth_error cellsA m = Some c) by (unfold cellsA; rewrite (map_nth_error snd _ _ Hm); reflexivity).
    destruct (Hor m c x y o HmA Hres) as (i & r & rc & H1 & _ & _ & (S1 & S2 & S3 & S4) & _ & O1 & _ & _ & O4).
    apply nth_error_In in H1. apply (proj1 (sort_rows_In _ _)) in H1.
    apply remaining_rows_In in H1 as (r1 & obs & Hr1 & Hin). apply (proj1 (sort_rows_In _ _)) in Hr1.
    apply freespace_rows_shape in Hin. destruct Hin as (A & B & C & D & E & F).
    exists r1. split; [exact Hr1|]. split; [rewrite O4; unfold seg_orientation; rewrite C; reflexivity|].
    split; [exact O1|]. lia.
Qed.

(* ================================================================== *)
(* part 1b: what DetailedPlacer::legalize writes into the circuit, cell by cell *)

(* the orientation cellOrientationInRow gives to circuit cell k in a row of orientation oR (kept when
   the table says UNKNOWN) *)
Definition orient_in (k : ccell) (oR : orient) : orient :=
  let t := cell_orientation_in_row (c_pol k) oR in if orient_eqb t oUNKNOWN then c_o k else t.

Lemma legalize_circuit_facts c order c' rh :
  std_design c rh -> legalize_circuit c order = LegOk c' ->
  exists pl, c' = {| rows := rows c; cells := export_cells (cells c) pl |} /\
    length pl = length (movable c) /\
    forall ci k x y o, nth_error (movable c) ci = Some k -> nth_error pl ci = Some (x, y, o) ->
      o <> oINVALID /\ is_turn o = is_turn (c_o k) /\
      (exists r, In r (rows c) /\ o = orient_in k (ro r)) /\
      (placed_h k = rh -> exists r, In r (rows c) /\ o = orient_in k (ro r) /\
                                    minY (rr r) = y /\ minX (rr r) <= x /\ x + placed_w k <= maxX (rr r)).
Proof.
  intros (Hrh & Hheight & Hpd & Hturn & Hmov). unfold legalize_circuit.
  destruct (legalize (free_rows c) (leg_cells c) order) as [pl| |] eqn:Hleg; try discriminate.
  intros [= <-]. exists pl. split; [reflexivity|].
  assert (Hfh : forall s, In s (free_rows c) -> maxY (rr s) - minY (rr s) = rh).
  { intros s Hs. apply free_rows_In in Hs as (r & obs & Hr & Hs). apply freespace_rows_shape in Hs.
    specialize (Hheight r Hr). lia. }
  assert (Hcells : Forall (fun lc => 0 < cw lc /\ 0 < ch lc) (leg_cells c)).
  { apply Forall_forall. intros lc Hlc. unfold leg_cells in Hlc. apply in_map_iff in Hlc as (k & <- & Hk).
    destruct (Hmov k Hk) as (H1 & (n & Hn & H2) & _). unfold leg_cell_of. cbn [cw ch]. split; [exact H1|nia]. }
  assert (Hntc : no_turn_change (free_rows c) (leg_cells c)).
  { intros lc s Hlc Hs. unfold leg_cells in Hlc. apply in_map_iff in Hlc as (k & <- & Hk).
    apply free_rows_In in Hs as (r & obs & Hr & Hs). apply freespace_rows_shape in Hs.
    destruct Hs as (_ & _ & Hro & _). apply seg_orientation_turn.
    - rewrite Hro. apply Hturn. exact Hr.
    - cbn [leg_cell_of cor cpol]. apply (Hmov k Hk). }
  destruct (legalize_sound _ _ _ _ _ Hrh Hfh (free_rows_pd c Hpd) Hcells Hntc Hleg) as (Hlen & Hcell & _).
  unfold leg_cells in Hlen. rewrite map_length in Hlen. split; [exact Hlen|].
  intros ci k x y o Hk Hv.
  assert (Hlc : nth_error (leg_cells c) ci = Some (leg_cell_of k)) by (apply map_nth_error; exact Hk).
  destruct (Hcell ci _ x y o Hlc Hv) as (Hinv & Ht & (s & Hs & Ho & _) & _).
  split; [exact Hinv|]. split; [exact Ht|]. split.
  - destruct (free_rows_In _ _ Hs) as (r & obs & Hr & Hsr). apply freespace_rows_shape in Hsr.
    exists r. split; [exact Hr|]. rewrite Ho. unfold seg_orientation, orient_in. cbn [leg_cell_of cpol cor].
    destruct Hsr as (_ & _ & -> & _). reflexivity.
  - intros Hh.
    assert (Hch : ch (leg_cell_of k) = rh).
    { unfold leg_cell_of. cbn [ch]. rewrite placement_of_eq. cbn [minY maxY]. lia. }
    destruct (legalize_rowhigh_cell _ _ _ _ _ Hrh Hfh Hcells Hleg ci _ x y o Hlc Hv Hch)
      as (s1 & Hs1 & Ho1 & _ & Y1 & X1 & X2).
    destruct (free_rows_In _ _ Hs1) as (r & obs & Hr & Hsr). apply freespace_rows_shape in Hsr.
    exists r. split; [exact Hr|]. split.
    + rewrite Ho1. unfold seg_orientation, orient_in. cbn [leg_cell_of cpol cor].
      destruct Hsr as (_ & _ & -> & _). reflexivity.
    + unfold leg_cell_of in X2. cbn [cw] in X2. rewrite placement_of_eq in X2. cbn [minX maxX] in X2. lia.
Qed.

(* a moved cell keeps its placed dimensions when its turn is kept *)
Lemma moved_placed k x y o : is_turn o = is_turn (c_o k) ->
  placed_w (moved k (x, y, o)) = placed_w k /\ placed_h (moved k (x, y, o)) = placed_h k.
Proof. intros H. unfold placed_w, placed_h, moved. cbn [c_o c_w c_h]. rewrite H. split; reflexivity. Qed.

Lemma orient_in_turn k oR : is_turn oR = false -> (is_turn (c_o k) = false \/ c_pol k = pANY) ->
  is_turn (orient_in k oR) = is_turn (c_o k).
Proof.
  unfold orient_in. intros Hr [Hc|Hp].
  - destruct (orient_eqb _ oUNKNOWN); [reflexivity|]. rewrite Hc.
    destruct (c_pol k), oR; cbn in *; try reflexivity; discriminate.
  - rewrite Hp. reflexivity.
Qed.

(* C02-1: the domain of the C01 / C02 / C04 / C05 theorems is closed under legalization *)
Theorem legalize_keeps_std_design c order c' rh :
  std_design c rh -> legalize_circuit c order = LegOk c' -> std_design c' rh.
Proof.
  intros SD Hleg. destruct (legalize_circuit_facts c order c' rh SD Hleg) as (pl & -> & Hlen & Hcell).
  destruct SD as (Hrh & Hheight & Hpd & Hturn & Hmov).
  split; [exact Hrh|]. split; [exact Hheight|]. split; [exact Hpd|]. split; [exact Hturn|].
  intros k' Hk'. unfold movable in Hk'. cbn [cells] in Hk'. rewrite (export_movable _ _ Hlen) in Hk'.
  apply in_map_iff in Hk' as ([k [[x y] o]] & <- & Hin). cbn [fst snd].
  apply In_nth_error in Hin as [ci Hci]. apply nth_error_combine_inv in Hci as [Hk Hv].
  destruct (Hcell ci k x y o Hk Hv) as (_ & Ht & (r & Hr & Ho) & _).
  destruct (Hmov k (nth_error_In _ _ Hk)) as (Hw & Hn & Hor).
  rewrite (placement_moved k x y o Ht). unfold cellrect, leg_cell_of. cbn [cw ch minX maxX minY maxY].
  split; [lia|]. split.
  - destruct Hn as (n & Hn & Hh). exists n. split; [exact Hn|lia].
  - unfold moved. cbn [c_o c_pol]. destruct Hor as [Hor|Hor]; [left; rewrite Ht; exact Hor|right; exact Hor].
Qed.

Print Assumptions legalize_keeps_std_design.

(* ================================================================== *)
(* part 1c: legalize ; fromIspdCircuit ; constructor ; check().
   What check() reads: the orientation of every KEPT cell (movable, exactly one row high) against the
   table entry of the row under its bottom-left corner.  orient_pre (DetailedInitProofs) is that test;
   the strong form adds "the row is not forbidden" (needed for the orientation invariant OInvM). *)
Definition orient_pre_strong (c : circuit) (rh : Z) : Prop :=
  forall k, In k (cells c) -> kept rh k ->
  forall r, In r (rows c) -> minY (rr r) = c_y k -> minX (rr r) <= c_x k < maxX (rr r) ->
  (cell_orientation_in_row (c_pol k) (ro r) = oUNKNOWN \/ c_o k = cell_orientation_in_row (c_pol k) (ro r)) /\
  cell_orientation_in_row (c_pol k) (ro r) <> oINVALID.

Lemma orient_pre_strong_pre c rh : orient_pre_strong c rh -> orient_pre c rh.
Proof. intros H k Hk Kk r Hr Y X. exact (proj1 (H k Hk Kk r Hr Y X)). Qed.

(* the constructor accepts, and the structure satisfies the orientation invariant *)
Theorem from_circuit_accepts_oinv c rh :
  std_design c rh -> legal c -> orient_pre_strong c rh ->
  exists s, from_circuit c = DOk s /\ Inv s /\ d_loose s = [] /\ OInvM s.
Proof.
  intros SD HL HO.
  destruct (from_circuit_accepts_legal c rh SD HL (orient_pre_strong_pre c rh HO))
    as (s & Hs & HI & Hl & Hgeom & _ & Hcells).
  exists s. split; [exact Hs|]. split; [exact HI|]. split; [exact Hl|].
  unfold OInvM. rewrite Forall_forall. intros dr Hdr. unfold orow_ok. rewrite Forall_forall. intros p Hp.
  destruct (Hcells dr p Hdr Hp) as (k & Hk & [Hfx Hh] & Ep & Y).
  assert (Hg : In (row_geom dr) (map seg_geom (sort_rows (dp_rows c rh)))) by (rewrite <- Hgeom; apply in_map; exact Hdr).
  apply in_map_iff in Hg as (sg & Eg & Hsg). unfold seg_geom, row_geom in Eg. injection Eg as G1 G2 G3 G4.
  destruct (sorted_rows_shape c rh sg SD Hsg) as (_ & _ & r & Hr & Ro & Ins & Sy).
  destruct HI as [HR _]. rewrite Forall_forall in HR. specialize (HR dr Hdr). unfold row_ok in HR.
  destruct (chain_In _ _ _ _ HR Hp) as (C1 & C2 & _).
  pose proof (kept_placed_w_pos c rh k SD (nth_error_In _ _ Hk) (conj Hfx Hh)) as W.
  rewrite Ep in C1, C2. cbn [cell_image p_x p_w] in C1, C2. unfold inside in Ins.
  destruct (HO k (nth_error_In _ _ Hk) (conj Hfx Hh) r Hr ltac:(lia) ltac:(lia)) as [E1 E2].
  unfold cell_o_ok. rewrite Ep. cbn [cell_image p_pol p_o]. rewrite <- G4, Ro. intros Hu.
  destruct E1 as [E1|E1]; [contradiction|]. split; assumption.
Qed.

(* the orientations legalization writes pass check(), on EVERY std_design circuit: no hypothesis on the
   orientations of the rows (neither row_orient_by_y nor "no UNKNOWN row"), multi-row cells allowed
   (they are not in the structure: F19 concerns them only) *)
Theorem legalize_orient_pre c order c' rh :
  std_design c rh -> legalize_circuit c order = LegOk c' -> orient_pre_strong c' rh.
Proof.
  intros SD Hleg. destruct (legalize_circuit_facts c order c' rh SD Hleg) as (pl & -> & Hlen & Hcell).
  destruct SD as (Hrh & Hheight & Hpd & Hturn & Hmov).
  intros k' Hk' [Hfx Hh] r Hr Y X. cbn [rows] in Hr.
  assert (Hm : In k' (movable {| rows := rows c; cells := export_cells (cells c) pl |})).
  { apply movable_In. split; assumption. }
  unfold movable in Hm. cbn [cells] in Hm. rewrite (export_movable _ _ Hlen) in Hm.
  apply in_map_iff in Hm as ([k [[x y] o]] & <- & Hin). cbn [fst snd] in *.
  apply In_nth_error in Hin as [ci Hci]. apply nth_error_combine_inv in Hci as [Hk Hv].
  destruct (Hcell ci k x y o Hk Hv) as (Hinv & Ht & _ & Hrow).
  destruct (moved_placed k x y o Ht) as [Ew Eh]. rewrite Eh in Hh.
  destruct (Hrow Hh) as (r1 & Hr1 & Ho & Y1 & X1 & X2).
  destruct (Hmov k (nth_error_In _ _ Hk)) as (Hw & _ & _). rewrite placement_of_eq in Hw. cbn [minX maxX] in Hw.
  unfold moved in Y, X. cbn [c_x c_y] in Y, X.
  assert (r = r1).
  { apply (rows_point_unique (rows c) rh x y r r1 Hpd Hrh Hheight Hr Hr1); try assumption; lia. }
  subst r1. unfold moved. cbn [c_pol c_o]. unfold orient_in in Ho.
  destruct (orient_eqb (cell_orientation_in_row (c_pol k) (ro r)) oUNKNOWN) eqn:E.
  - apply orient_eqb_eq in E. rewrite E. split; [left; reflexivity|discriminate].
  - split; [right; exact Ho|]. rewrite <- Ho. exact Hinv.
Qed.

(* C02-1 / C02-3: "never fails on a circuit that legalization accepts" as a theorem about the composition
   legalize ; fromIspdCircuit ; constructor ; check(), under std_design of the INPUT circuit only *)
Theorem legalize_then_from_circuit c order c' rh :
  std_design c rh -> legalize_circuit c order = LegOk c' ->
  std_design c' rh /\ legal c' /\
  exists s, from_circuit c' = DOk s /\ Inv s /\ d_loose s = [] /\ OInvM s.
Proof.
  intros SD Hleg. pose proof (legalize_keeps_std_design c order c' rh SD Hleg) as SD'.
  pose proof (legalize_circuit_legal c order c' rh SD Hleg) as HL'.
  split; [exact SD'|]. split; [exact HL'|].
  exact (from_circuit_accepts_oinv c' rh SD' HL' (legalize_orient_pre c order c' rh SD Hleg)).
Qed.

Print Assumptions legalize_then_from_circuit.

(* ================================================================== *)
(* part 2: histories interleaving swaps, inserts, certified shifts and CLOSED reordering passes
   (ReviewGaps1.gstep over DetailedValue.pstate).  Invariant: the coupling invariant PInv of C05 together with
   the orientation invariant OInvM of C04. *)
Require Import CV.Hpwl CV.HpwlProofs CV.Optimiser CV.OptimiserProofs CV.ShiftLp CV.ShiftLpProofs.
Require Import CV.DetailedValue CV.DetailedValueProofs CV.DetailedValueStepProofs.
Require Import CV.Reorder CV.ReorderProofs CV.ReviewGaps1.

Definition GInv (c : circuit) (rh : Z) (nets : list (list hpin)) (s : pstate) : Prop :=
  PInv c rh nets s /\ OInvM (ps_d s).

Lemma is_move_allowed d m : is_move m = true -> mop_allowed d m = true.
Proof. destruct m; cbn; congruence. Qed.

Lemma is_move_closed m : is_move m = true -> closed_dop (DMop m) = true.
Proof. destruct m; cbn; congruence. Qed.

(* doSwap / doInsert with arbitrary arguments *)
Lemma pdo_step c rh nets s m : std_design c rh -> PInv c rh nets s -> is_move m = true -> PInv c rh nets (pdo s m).
Proof.
  intros SD HP Qm. unfold pdo. destruct (apply_mop (ps_d s) m) as [d'|] eqn:A; [|exact HP].
  destruct (cand_moves (ps_d s) m) as [ms|] eqn:CM; [|exact HP].
  destruct HP as (HR & HI & Hl & ND & HO & HN & HC).
  unfold cand_moves in CM. rewrite A in CM.
  destruct (move_decomp _ m d' Qm A) as (NDt & ops & AO & PR).
  destruct (prims_frame ops _ d' _ AO PR ND) as (ND' & _ & FR).
  destruct (moves_at_spec d' _ ms CM) as [Ems Hms].
  destruct (set_many_spec ms (ps_o s) HO) as (I2 & N2 & PX & PY).
  assert (Est : step_mop (ps_d s) m = d') by (unfold step_mop; rewrite A; reflexivity).
  assert (HR' : Rel c rh d') by (rewrite <- Est; apply step_mop_rel; assumption).
  unfold PInv. cbn [ps_d ps_o].
  split; [exact HR'|]. split; [rewrite <- Est; apply step_inv; exact HI|].
  split; [rewrite <- Hl, <- Est; apply (closed_step_loose (ps_d s) (DMop m)); apply is_move_closed; exact Qm|].
  split; [exact ND'|]. split; [exact I2|].
  split; [exact (frozen_nets_trans c nets (ps_o s) _ N2 HN)|].
  apply (coupled_update c (ps_d s) d' (ps_o s) _ ms HC PX PY).
  - rewrite Ems. exact NDt.
  - exact Hms.
  - intros i Hi. apply in_map_iff in Hi as ([i' p] & E & Hin). cbn [fst] in E. subst i'.
    apply (held_lt c rh d' i HR'). rewrite (Hms i p Hin). discriminate.
  - rewrite Ems. exact FR.
Qed.

Lemma pdo_oinv s m : is_move m = true -> OInvM (ps_d s) -> OInvM (ps_d (pdo s m)).
Proof.
  intros Qm HO. unfold pdo. destruct (apply_mop (ps_d s) m) as [d'|] eqn:A; [|exact HO].
  destruct (cand_moves (ps_d s) m); [|exact HO]. cbn [ps_d].
  exact (apply_mop_oinv _ m d' HO (is_move_allowed _ m Qm) A).
Qed.

(* the structure after bestSwap / bestInsert: unchanged, or one accepted swap / insert of the list *)
Lemma pbest_d s cands : OInv (ps_o s) -> forallb is_move cands = true ->
  ps_d (pbest s cands) = ps_d s \/
  exists m d', is_move m = true /\ apply_mop (ps_d s) m = Some d' /\ ps_d (pbest s cands) = d'.
Proof.
  intros HO HM. unfold pbest, pscan.
  assert (SN0 : same_nets (ps_o s) (ps_o s)) by (split; reflexivity).
  assert (SP0 : same_pos (ps_o s) (ps_o s)) by (split; reflexivity).
  assert (HQ : Forall (fun m => is_move m = true) cands) by (apply Forall_forall; apply forallb_forall; exact HM).
  pose proof (pscan_spec (ps_d s) _ cands (ps_o s) (ps_o s) None HO HO SN0 SP0 HQ I) as H. cbn zeta in H.
  destruct (fold_left _ cands (ps_o s, None)) as [o' [m|]]; cbn [fst snd] in H; [|left; reflexivity].
  destruct H as (_ & _ & _ & Qm & ms & CM & _). rewrite CM.
  destruct (apply_mop (ps_d s) m) as [d'|] eqn:A; [|left; reflexivity].
  right. exists m, d'. split; [exact Qm|]. split; [exact A|reflexivity].
Qed.

Lemma pbest_oinv s cands : OInv (ps_o s) -> forallb is_move cands = true -> OInvM (ps_d s) -> OInvM (ps_d (pbest s cands)).
Proof.
  intros HO HM HI. destruct (pbest_d s cands HO HM) as [->|(m & d' & Qm & A & ->)]; [exact HI|].
  exact (apply_mop_oinv _ m d' HI (is_move_allowed _ m Qm) A).
Qed.

(* every step keeps the invariant; the value-guarded ones do not increase the optimised value *)
Theorem gstep_keeps_invariant c rh nets s g : std_design c rh -> GInv c rh nets s -> gstep_ok s g ->
  GInv c rh nets (gstep_run s g) /\
  (g_guarded g = true -> ovalue (ps_o (gstep_run s g)) <= ovalue (ps_o s)).
Proof.
  intros SD [HP HOr] Hok. destruct g as [m|cands|sel pi f|cs]; cbn [gstep_run gstep_ok g_guarded] in *.
  - split; [|discriminate]. split; [apply pdo_step; assumption|apply pdo_oinv; assumption].
  - destruct (pbest_step c rh nets s cands SD HP Hok) as [A B]. split; [|intros _; exact B].
    split; [exact A|]. apply pbest_oinv; try assumption. exact (proj1 (proj2 (proj2 (proj2 (proj2 HP))))).
  - destruct (pshift_step c rh nets s sel pi f SD HP Hok) as [A B]. split; [|intros _; exact B].
    split; [exact A|]. unfold pshift. cbn [ps_d]. apply shift_oinv. exact HOr.
  - destruct Hok as [NDc Hh].
    destruct (run_keeps_invariant c rh nets s cs SD HP NDc Hh) as (s' & n & Hrun & HP' & V).
    destruct (run_keeps_orientation c rh nets s cs HP HOr NDc Hh) as (s2 & n2 & Hrun2 & HO2).
    rewrite Hrun in Hrun2. injection Hrun2 as <- <-. rewrite Hrun.
    split; [split; assumption|intros _; exact V].
Qed.

Lemma gsteps_run_app s l1 l2 : gsteps_run s (l1 ++ l2) = gsteps_run (gsteps_run s l1) l2.
Proof. unfold gsteps_run. apply fold_left_app. Qed.

Lemma ghist_ok_app l1 : forall s l2, ghist_ok s (l1 ++ l2) -> ghist_ok s l1 /\ ghist_ok (gsteps_run s l1) l2.
Proof.
  induction l1 as [|g l1 IH]; intros s l2; cbn [app ghist_ok gsteps_run fold_left]; [tauto|].
  intros [H1 H2]. destruct (IH _ _ H2) as [A B]. split; [split; assumption|exact B].
Qed.

Theorem ghist_keeps_invariant c rh nets l : forall s, std_design c rh -> GInv c rh nets s -> ghist_ok s l ->
  GInv c rh nets (gsteps_run s l) /\
  (forallb g_guarded l = true -> ovalue (ps_o (gsteps_run s l)) <= ovalue (ps_o s)).
Proof.
  induction l as [|g l IH]; intros s SD HG Hok; cbn [gsteps_run fold_left forallb]; [split; [exact HG|lia]|].
  destruct Hok as [H1 H2]. destruct (gstep_keeps_invariant c rh nets s g SD HG H1) as [A B].
  destruct (IH _ SD A H2) as [C D]. change (fold_left gstep_run l (gstep_run s g)) with (gsteps_run (gstep_run s g) l).
  split; [exact C|]. intros G. apply andb_true_iff in G as [G1 G2]. specialize (B G1). specialize (D G2). lia.
Qed.

(* a reordering pass inside a history never throws (run returns) *)
Lemma greorder_returns c rh nets s cs : std_design c rh -> GInv c rh nets s -> gstep_ok s (GReorder cs) ->
  exists s' n, run s cs = Some (s', n) /\ gstep_run s (GReorder cs) = s'.
Proof.
  intros SD [HP _] [NDc Hh]. destruct (run_keeps_invariant c rh nets s cs SD HP NDc Hh) as (s' & n & Hrun & _).
  exists s', n. split; [exact Hrun|]. cbn [gstep_run]. rewrite Hrun. reflexivity.
Qed.

(* ---------- what such a history exposes (C02-4, C04-3) ---------- *)
(* the exposed circuit of ANY state satisfying the invariant *)
Theorem ginv_exposes before c rh nets s :
  std_design c rh -> legal c -> GInv c rh nets s ->
  legal (write_back c (ps_d s)) /\
  rows (write_back c (ps_d s)) = rows c /\
  Forall2 same_frame (cells c) (cells (write_back c (ps_d s))) /\
  (forall i k, nth_error (cells c) i = Some k -> (c_fixed k = true \/ placed_h k <> rh) ->
               nth_error (cells (write_back c (ps_d s))) i = Some k) /\
  ((forall r, In r (rows c) -> ro r <> oUNKNOWN) -> orient_ok before c -> orient_ok before (write_back c (ps_d s))).
Proof.
  intros SD HL [HP HOr]. split; [exact (exposed_legal_inv c rh nets s SD HL HP)|].
  destruct HP as (HR & HI & Hl & _).
  split; [reflexivity|]. split; [apply map_from_same_frame|]. split.
  - intros i k Hk Hn. rewrite (write_back_nth_fwd c _ i k Hk). f_equal. apply (export_not_kept c rh); assumption.
  - intros HU HO. apply (exposed_orient_ok before c rh); assumption.
Qed.

(* the initial state of DetailedPlacer satisfies the invariant as soon as the structure does *)
Lemma init_GInv c rh nets d0 :
  std_design c rh -> legal c -> from_circuit c = DOk d0 -> OInvM d0 ->
  GInv c rh nets {| ps_d := d0; ps_o := init_models c nets |}.
Proof. intros SD HL Hs HO. split; [apply init_PInv; assumption|exact HO]. Qed.

(* C02-4 / C04-3: ONE theorem for histories interleaving swaps, inserts, certified shifts and closed reordering
   passes, from the structure built on a legal circuit carrying the prescribed orientations: every state of the
   history exposes a legal circuit, with the frame, and with orient_ok (rows of known orientation); the
   value-guarded histories do not increase the optimised value *)
Theorem ghist_exposes_legal before c rh nets :
  std_design c rh -> legal c -> orient_ok before c ->
  exists d0, from_circuit c = DOk d0 /\
    forall l, let s0 := {| ps_d := d0; ps_o := init_models c nets |} in
      ghist_ok s0 l ->
      let s := gsteps_run s0 l in
      GInv c rh nets s /\
      legal (write_back c (ps_d s)) /\
      rows (write_back c (ps_d s)) = rows c /\
      Forall2 same_frame (cells c) (cells (write_back c (ps_d s))) /\
      (forall i k, nth_error (cells c) i = Some k -> (c_fixed k = true \/ placed_h k <> rh) ->
                   nth_error (cells (write_back c (ps_d s))) i = Some k) /\
      ((forall r, In r (rows c) -> ro r <> oUNKNOWN) -> orient_ok before (write_back c (ps_d s))) /\
      (forallb g_guarded l = true -> ovalue (ps_o s) <= ovalue (ps_o s0)).
Proof.
  intros SD HL HO. destruct (from_circuit_after_legalization before c rh SD HL HO) as (d0 & Hs & _ & HOI).
  exists d0. split; [exact Hs|]. intros l s0 Hok s.
  pose proof (init_GInv c rh nets d0 SD HL Hs HOI) as G0. fold s0 in G0.
  destruct (ghist_keeps_invariant c rh nets l s0 SD G0 Hok) as [G V]. fold s in G, V.
  destruct (ginv_exposes before c rh nets s SD HL G) as (E1 & E2 & E3 & E4 & E5).
  split; [exact G|]. split; [exact E1|]. split; [exact E2|]. split; [exact E3|]. split; [exact E4|].
  split; [intros HU; apply E5; assumption|exact V].
Qed.

(* the whole chain legalize ; fromIspdCircuit ; history, under std_design of the circuit given to
   legalization.  Legality and the frame need nothing else; orient_ok (a statement about ALL movable cells,
   multi-row ones included) needs what C04 needs for legalization itself: rows of known orientation, and
   row_orient_by_y or a row-high design (finding F19 otherwise) *)
Theorem legalize_then_history c order c' rh nets :
  std_design c rh -> legalize_circuit c order = LegOk c' ->
  std_design c' rh /\ legal c' /\
  exists d0, from_circuit c' = DOk d0 /\
    forall l, let s0 := {| ps_d := d0; ps_o := init_models c' nets |} in
      ghist_ok s0 l ->
      let s := gsteps_run s0 l in
      GInv c' rh nets s /\
      legal (write_back c' (ps_d s)) /\
      rows (write_back c' (ps_d s)) = rows c /\
      Forall2 same_frame (cells c') (cells (write_back c' (ps_d s))) /\
      (forall i k, nth_error (cells c') i = Some k -> (c_fixed k = true \/ placed_h k <> rh) ->
                   nth_error (cells (write_back c' (ps_d s))) i = Some k) /\
      ((forall r, In r (rows c) -> ro r <> oUNKNOWN) -> (row_orient_by_y c \/ rowhigh_design c rh) ->
       orient_ok c (write_back c' (ps_d s))) /\
      (forallb g_guarded l = true -> ovalue (ps_o s) <= ovalue (ps_o s0)).
Proof.
  intros SD Hleg. destruct (legalize_then_from_circuit c order c' rh SD Hleg) as (SD' & HL' & d0 & Hs & _ & _ & HOI).
  split; [exact SD'|]. split; [exact HL'|]. exists d0. split; [exact Hs|]. intros l s0 Hok s.
  pose proof (init_GInv c' rh nets d0 SD' HL' Hs HOI) as G0. fold s0 in G0.
  destruct (ghist_keeps_invariant c' rh nets l s0 SD' G0 Hok) as [G V]. fold s in G, V.
  assert (ER : rows c' = rows c).
  { destruct (legalize_circuit_facts c order c' rh SD Hleg) as (pl & -> & _). reflexivity. }
  destruct (ginv_exposes c c' rh nets s SD' HL' G) as (E1 & E2 & E3 & E4 & E5).
  split; [exact G|]. split; [exact E1|]. split; [rewrite E2; exact ER|]. split; [exact E3|]. split; [exact E4|].
  split; [|exact V]. intros HU HB. apply E5; [rewrite ER; exact HU|].
  destruct HB as [HB|HB].
  - exact (legalize_circuit_orient_ok c order c' rh SD HU HB Hleg).
  - exact (legalize_circuit_rowhigh_orient_ok c order c' rh HB HU Hleg).
Qed.

Print Assumptions ghist_exposes_legal.
Print Assumptions legalize_then_history.

(* ================================================================== *)
(* part 3: a STATIC sufficient condition for the F8 scope (C05-1).
   orient_frozen c d (no polarised cell has, in the exposed circuit, another orientation than in the circuit the
   net models were built from) is a hypothesis on REACHED states in c05_exposed_wirelength_never_increases.
   3a: under the invariant of part 2 it follows from a condition on the circuit alone. *)
Theorem prescribed_frozen_orient_frozen c rh nets s :
  std_design c rh -> prescribed_frozen c rh -> GInv c rh nets s -> orient_frozen c (ps_d s).
Proof.
  intros SD HF [(HR & HI & Hl & _) HOr] i k Hk Hpol.
  destruct (c_fixed k) eqn:Fx; [rewrite (export_cell_fixed _ i k Fx); reflexivity|].
  destruct (kept_dec rh k) as [Kk|Nk].
  2:{ rewrite (export_cell_absent _ i k (not_kept_absent c rh _ i k SD HR HI Hk Nk)). reflexivity. }
  destruct (kept_exported c rh _ i k SD HR HI Hl Hk Kk) as
    (ri & r & a & m & b & sg & _ & Hc & _ & N & Hsg & Ro & _ & _ & Eo & _ & _ & _ & _ & Epol & _).
  destruct (seg_shape c rh sg ri SD Hsg) as (_ & _ & r0 & Hr0 & Ror & _).
  assert (Hm : In m (dr_cells r)) by (rewrite Hc; apply in_or_app; right; left; reflexivity).
  pose proof (OInvM_reads _ r m HOr (nth_error_In _ _ N) Hm) as Hco. unfold cell_o_ok in Hco.
  rewrite Ro, Ror, Epol in Hco. rewrite Eo.
  destruct (HF k r0 (nth_error_In _ _ Hk) Kk Hpol Hr0) as [E|[E NU]].
  - exfalso. rewrite E in Hco. destruct Hco as [_ Hco]; [discriminate|]. apply Hco. reflexivity.
  - destruct (Hco NU) as [Hpo _]. rewrite Hpo. exact E.
Qed.

(* special case 1: no kept cell has a polarity *)
Lemma no_polarised_frozen c rh : no_polarised_kept c rh -> prescribed_frozen c rh.
Proof. intros H k r Hk Kk Hp _. exfalso. apply Hp. apply H; assumption. Qed.

Lemma table_unknown p r : cell_orientation_in_row p r = oUNKNOWN -> p = pANY \/ r = oUNKNOWN.
Proof. destruct p, r; cbn; intros H; try discriminate; tauto. Qed.

(* special case 2: every row has the same, known orientation (and the structure satisfies the orientation
   invariant at the start: what legalization establishes) *)
Lemma one_orientation_frozen c rh d0 oR :
  std_design c rh -> legal c -> from_circuit c = DOk d0 -> OInvM d0 ->
  rows_one_orientation c oR -> oR <> oUNKNOWN -> prescribed_frozen c rh.
Proof.
  intros SD HL Hs HOI Hone HU k r Hk Kk Hpol Hr. rewrite (Hone r Hr).
  apply In_nth_error in Hk as [i Hi].
  destruct (from_circuit_structure c rh d0 SD HL Hs) as (_ & _ & Hgeom & Hfwd & _).
  destruct (Hfwd i k Hi Kk) as (dr & Hdr & _ & Hin).
  assert (Hg : In (row_geom dr) (map seg_geom (sort_rows (dp_rows c rh)))) by (rewrite <- Hgeom; apply in_map; exact Hdr).
  apply in_map_iff in Hg as (sg & Eg & Hsg). unfold seg_geom, row_geom in Eg. injection Eg as _ _ _ G4.
  destruct (sorted_rows_shape c rh sg SD Hsg) as (_ & _ & r0 & Hr0 & Ro & _).
  pose proof (OInvM_reads _ dr _ HOI Hdr Hin) as Hco. unfold cell_o_ok in Hco.
  cbn [cell_image p_pol p_o] in Hco. rewrite <- G4, Ro, (Hone r0 Hr0) in Hco.
  assert (NU : cell_orientation_in_row (c_pol k) oR <> oUNKNOWN).
  { intros E. destruct (table_unknown _ _ E); contradiction. }
  destruct (Hco NU) as [E _]. right. split; [symmetry; exact E|exact NU].
Qed.

(* C05 on the exposed circuits of interleaved histories (closed reordering passes included), with hypotheses on
   the INPUT only: the legalized circuit is legal with the orientation invariant (OInvM d0), the static F8-scope
   condition, and the two machine-int conditions of c05_exposed_wirelength_never_increases_static *)
Theorem ghist_wirelength_never_increases c rh nets d0 l1 l2 :
  std_design c rh -> legal c -> from_circuit c = DOk d0 -> OInvM d0 -> prescribed_frozen c rh ->
  int_pins c nets -> pins_fit c rh nets ->
  let s0 := {| ps_d := d0; ps_o := init_models c nets |} in
  ghist_ok s0 (l1 ++ l2) -> forallb g_guarded (l1 ++ l2) = true ->
  let sj := gsteps_run s0 l1 in
  let sk := gsteps_run s0 (l1 ++ l2) in
  exposed_hpwl c nets sk <= exposed_hpwl c nets sj <= hpwl_circuit c nets /\
  legal (write_back c (ps_d sj)) /\ legal (write_back c (ps_d sk)).
Proof.
  intros SD HL Hs HOI HF B0 HPF s0 Hok HG sj sk.
  pose proof (init_GInv c rh nets d0 SD HL Hs HOI) as G0. fold s0 in G0.
  destruct (ghist_ok_app l1 s0 l2 Hok) as [Ok1 Ok2].
  rewrite forallb_app in HG. apply andb_true_iff in HG as [HG1 HG2].
  destruct (ghist_keeps_invariant c rh nets l1 s0 SD G0 Ok1) as [Gj Vj]. fold sj in Gj, Vj, Ok2.
  destruct (ghist_keeps_invariant c rh nets l2 sj SD Gj Ok2) as [Gk Vk].
  assert (Ek : gsteps_run sj l2 = sk) by (unfold sk, sj; rewrite gsteps_run_app; reflexivity). rewrite Ek in Gk, Vk.
  pose proof (prescribed_frozen_orient_frozen c rh nets sj SD HF Gj) as Fj.
  pose proof (prescribed_frozen_orient_frozen c rh nets sk SD HF Gk) as Fk.
  destruct Gj as [Pj _]. destruct Gk as [Pk _].
  rewrite (exposed_value_inv c rh nets sj Pj Fj (exposed_int_pins c rh nets sj SD Pj Fj B0 HPF)).
  rewrite (exposed_value_inv c rh nets sk Pk Fk (exposed_int_pins c rh nets sk SD Pk Fk B0 HPF)).
  rewrite <- (init_value c nets B0). change (init_models c nets) with (ps_o s0).
  specialize (Vj HG1). specialize (Vk HG2).
  split; [lia|]. split; apply (exposed_legal_inv c rh nets); assumption.
Qed.

Print Assumptions ghist_wirelength_never_increases.

(* ------------------------------------------------------------------ *)
(* 3b: the histories of c05_exposed_wirelength_never_increases (DetailedValue.pstep: their PReorder takes ANY
   list of leaves, written back by UNGUARDED place() calls, so the orientation invariant OInvM is not available).
   Invariant: every cell of the structure that stands for a polarised circuit cell has the orientation of that
   circuit cell.  Kept by every primitive under the stricter static condition prescribed_frozen_all. *)
Definition fro (c : circuit) (p : pcell) : Prop :=
  forall k, nth_error (cells c) (p_id p) = Some k -> c_pol k <> pANY -> p_o p = c_o k.
Definition OFro (c : circuit) (d : dstate) : Prop := Forall (fro c) (cells_of d).

Lemma unplace_ofro c s id s' : unplace s id = Some s' -> OFro c s -> OFro c s'.
Proof. intros U H. unfold OFro. eapply Permutation_Forall; [apply (unplace_cells _ _ _ U)|exact H]. Qed.

Lemma rel_row_orientation c rh s r : std_design c rh -> Rel c rh s -> In r (d_rows s) ->
  exists r0, In r0 (rows c) /\ dr_o r = ro r0.
Proof.
  intros SD (Hg & _) Hr.
  assert (Hin : In (row_geom r) (map seg_geom (sort_rows (dp_rows c rh)))) by (rewrite <- Hg; apply in_map; exact Hr).
  apply in_map_iff in Hin as (sg & Eg & Hsg). unfold seg_geom, row_geom in Eg. injection Eg as _ _ _ G4.
  destruct (sorted_rows_shape c rh sg SD Hsg) as (_ & _ & r0 & Hr0 & Ro & _).
  exists r0. split; [exact Hr0|]. rewrite <- G4. exact Ro.
Qed.

Lemma place_ofro c rh s id rowi pred x s' :
  std_design c rh -> prescribed_frozen_all c rh -> Rel c rh s ->
  place s id rowi pred x = Some s' -> OFro c s -> OFro c s'.
Proof.
  intros SD HF HR P H. destruct (place_cells_perm _ _ _ _ _ _ P) as (m & r & X & N & P1 & P2 & _).
  unfold OFro in *. apply (Permutation_Forall P1) in H. inversion H as [|? ? Hm HX]; subst.
  eapply Permutation_Forall; [apply Permutation_sym; exact P2|]. constructor; [|exact HX].
  intros k Hk Hpol. cbn [p_id p_o] in *.
  destruct (orient_eqb (cell_orientation_in_row (p_pol m) (dr_o r)) oUNKNOWN) eqn:E; [exact (Hm k Hk Hpol)|].
  pose proof HR as (_ & Hall & _).
  destruct (Hall m) as (k' & Hk' & Hkept & _ & Epol & _).
  { eapply Permutation_in; [apply Permutation_sym; exact P1|left; reflexivity]. }
  rewrite Hk in Hk'. injection Hk' as <-.
  destruct (rel_row_orientation c rh s r SD HR (nth_error_In _ _ N)) as (r0 & Hr0 & Ro).
  rewrite Epol, Ro in E |- *.
  destruct (HF k r0 (nth_error_In _ _ Hk) Hkept Hpol Hr0) as [U|U]; [|exact U].
  rewrite U in E. discriminate.
Qed.

(* a list of unplace / place primitives *)
Lemma prims_ofro c rh cs ops : std_design c rh -> prescribed_frozen_all c rh -> prims ops cs ->
  forall s s', Rel c rh s -> OFro c s -> apply_all s ops = Some s' -> OFro c s'.
Proof.
  intros SD HF. induction ops as [|m t IH]; intros HP s s' HR H; cbn [apply_all]; [intros [= <-]; exact H|].
  destruct (apply_mop s m) as [s1|] eqn:A; [|discriminate]. intros At.
  inversion HP as [|? ? (c0 & Hc0 & _) HP']; subst.
  destruct m as [| |c1|c1 rowi pred x]; cbn [prim_cell] in Hc0; try discriminate; cbn [apply_mop] in A.
  - apply (IH HP' s1 s'); [exact (unplace_rel c rh s c1 s1 HR A)|exact (unplace_ofro c s c1 s1 A H)|exact At].
  - apply (IH HP' s1 s'); [exact (place_rel c rh s c1 rowi pred x s1 SD HR A)|
                          exact (place_ofro c rh s c1 rowi pred x s1 SD HF HR A H)|exact At].
Qed.

Lemma shift_ofro c s xs : OFro c s -> OFro c (apply_shift s xs).
Proof.
  unfold OFro, cells_of, apply_shift. cbn [d_rows d_loose]. rewrite !Forall_app. intros [H1 H2]. split; [|exact H2].
  rewrite Forall_forall in *. intros p Hp. apply in_flat_map in Hp as (r' & Hr' & Hp).
  apply in_map_iff in Hr' as (r & <- & Hr). cbn [set_cells dr_cells] in Hp.
  apply in_map_iff in Hp as (q & <- & Hq). unfold fro, move_cell. cbn [p_id p_o].
  apply H1. apply in_flat_map. exists r. split; assumption.
Qed.

Lemma wb_ops_prims cs leaf : prims (wb_ops cs leaf) (cs ++ leaf_cells leaf).
Proof.
  unfold prims, wb_ops. apply Forall_app. split; apply Forall_forall; intros m Hm; apply in_map_iff in Hm as (y & <- & Hy).
  - exists y. split; [reflexivity|]. apply in_or_app. left. exact Hy.
  - destruct y as [[[c0 r0] p0] x0]. exists c0. split; [reflexivity|]. apply in_or_app. right.
    unfold leaf_cells. apply in_map_iff. exists (c0, r0, p0, x0). split; [reflexivity|exact Hy].
Qed.

(* every paired step of DetailedValue.v keeps it *)
Lemma pstep_ofro c rh nets s st : std_design c rh -> prescribed_frozen_all c rh -> PInv c rh nets s ->
  pstep_ok s st -> OFro c (ps_d s) -> OFro c (ps_d (pstep_run s st)).
Proof.
  intros SD HF (HR & _ & _ & _ & HO & _) Hok H. destruct st as [cands|sel pi f|cs leaves]; cbn [pstep_run pstep_ok] in *.
  - destruct (pbest_d s cands HO Hok) as [->|(m & d' & Qm & A & ->)]; [exact H|].
    destruct (move_decomp _ m d' Qm A) as (_ & ops & AO & PR).
    exact (prims_ofro c rh _ ops SD HF PR _ d' HR H AO).
  - unfold pshift. cbn [ps_d]. apply shift_ofro. exact H.
  - unfold preorder. destruct (prscan (ps_d s) (ps_o s) leaves) as [[o' bv] [leaf|]]; cbn [ps_d]; [|exact H].
    destruct (wb (ps_d s) cs leaf) as [d'|] eqn:W; [|exact H].
    exact (prims_ofro c rh _ _ SD HF (wb_ops_prims cs leaf) _ d' HR H W).
Qed.

Lemma phist_ofro c rh nets l : forall s, std_design c rh -> prescribed_frozen_all c rh -> PInv c rh nets s ->
  phist_ok s l -> OFro c (ps_d s) -> OFro c (ps_d (psteps_run s l)).
Proof.
  induction l as [|st l IH]; intros s SD HF HP Hok H; cbn [psteps_run fold_left]; [exact H|].
  destruct Hok as [H1 H2]. change (fold_left pstep_run l (pstep_run s st)) with (psteps_run (pstep_run s st) l).
  apply IH; try assumption.
  - exact (proj1 (pstep_keeps_invariant c rh nets s st SD HP H1)).
  - exact (pstep_ofro c rh nets s st SD HF HP H1 H).
Qed.

(* at construction; and what the invariant says about the exposed circuit *)
Lemma init_ofro c rh d0 : std_design c rh -> legal c -> from_circuit c = DOk d0 -> OFro c d0.
Proof.
  intros SD HL Hs. destruct (from_circuit_structure c rh d0 SD HL Hs) as (_ & Hl & _ & _ & Hall).
  unfold OFro, cells_of. rewrite Hl, app_nil_r. apply Forall_forall. intros p Hp.
  apply in_flat_map in Hp as (dr & Hdr & Hp). destruct (Hall dr p Hdr Hp) as (k & Hk & _ & Ep & _).
  intros k' Hk' _. rewrite Hk in Hk'. injection Hk' as <-. rewrite Ep. reflexivity.
Qed.

Lemma ofro_orient_frozen c d : OFro c d -> orient_frozen c d.
Proof.
  intros H i k Hk Hpol. unfold export_cell. destruct (c_fixed k); [reflexivity|].
  destruct (find_row (d_rows d) i 0) as [[[[[ri r] a] m] b]|] eqn:F; [|reflexivity]. cbn [c_o].
  apply find_row_spec in F as (j & _ & N & Hc & Hid).
  assert (Hm : In m (dr_cells r)) by (rewrite Hc; apply in_or_app; right; left; reflexivity).
  unfold OFro in H. rewrite Forall_forall in H.
  apply (H m (cells_of_placed _ _ _ (nth_error_In _ _ N) Hm) k); [rewrite Hid; exact Hk|exact Hpol].
Qed.

(* C05-1: orient_frozen at EVERY state reachable by the histories of c05_exposed_wirelength_never_increases,
   from a condition on the circuit alone *)
Theorem phist_orient_frozen c rh nets d0 l :
  std_design c rh -> legal c -> from_circuit c = DOk d0 -> prescribed_frozen_all c rh ->
  let s0 := {| ps_d := d0; ps_o := init_models c nets |} in
  phist_ok s0 l -> orient_frozen c (ps_d (psteps_run s0 l)).
Proof.
  intros SD HL Hs HF s0 Hok. apply ofro_orient_frozen.
  apply (phist_ofro c rh nets l s0 SD HF (init_PInv c rh nets d0 SD HL Hs) Hok).
  exact (init_ofro c rh d0 SD HL Hs).
Qed.

(* ... hence c05_exposed_wirelength_never_increases_static without a hypothesis on reached states *)
Theorem exposed_monotone_static_frozen c rh nets d0 l1 l2 :
  std_design c rh -> legal c -> from_circuit c = DOk d0 -> prescribed_frozen_all c rh ->
  let s0 := {| ps_d := d0; ps_o := init_models c nets |} in
  phist_ok s0 (l1 ++ l2) ->
  let sj := psteps_run s0 l1 in
  let sk := psteps_run s0 (l1 ++ l2) in
  int_pins c nets -> pins_fit c rh nets ->
  exposed_hpwl c nets sk <= exposed_hpwl c nets sj <= hpwl_circuit c nets /\
  legal (write_back c (ps_d sj)) /\ legal (write_back c (ps_d sk)).
Proof.
  intros SD HL Hs HF s0 Hok sj sk B0 HP.
  apply (exposed_monotone_static c rh nets d0 l1 l2); try assumption.
  - apply (phist_orient_frozen c rh nets d0 l1); try assumption. exact (proj1 (phist_ok_app l1 s0 l2 Hok)).
  - apply (phist_orient_frozen c rh nets d0 (l1 ++ l2)); assumption.
Qed.

(* the special cases named by the review *)
Lemma no_polarised_frozen_all c rh : no_polarised_kept c rh -> prescribed_frozen_all c rh.
Proof. intros H k r Hk Kk Hp _. exfalso. apply Hp. apply H; assumption. Qed.

(* all rows of one orientation (ANY orientation, UNKNOWN included), structure with the orientation invariant *)
Lemma one_orientation_frozen_all c rh d0 oR :
  std_design c rh -> legal c -> from_circuit c = DOk d0 -> OInvM d0 ->
  rows_one_orientation c oR -> prescribed_frozen_all c rh.
Proof.
  intros SD HL Hs HOI Hone k r Hk Kk Hpol Hr. rewrite (Hone r Hr).
  apply In_nth_error in Hk as [i Hi].
  destruct (from_circuit_structure c rh d0 SD HL Hs) as (_ & _ & Hgeom & Hfwd & _).
  destruct (Hfwd i k Hi Kk) as (dr & Hdr & _ & Hin).
  assert (Hg : In (row_geom dr) (map seg_geom (sort_rows (dp_rows c rh)))) by (rewrite <- Hgeom; apply in_map; exact Hdr).
  apply in_map_iff in Hg as (sg & Eg & Hsg). unfold seg_geom, row_geom in Eg. injection Eg as _ _ _ G4.
  destruct (sorted_rows_shape c rh sg SD Hsg) as (_ & _ & r0 & Hr0 & Ro & _).
  pose proof (OInvM_reads _ dr _ HOI Hdr Hin) as Hco. unfold cell_o_ok in Hco.
  cbn [cell_image p_pol p_o] in Hco. rewrite <- G4, Ro, (Hone r0 Hr0) in Hco.
  destruct (orient_eqb (cell_orientation_in_row (c_pol k) oR) oUNKNOWN) eqn:E.
  - left. apply orient_eqb_eq. exact E.
  - right. symmetry. apply Hco. intros E'. rewrite E' in E. discriminate.
Qed.

(* the composition with legalization: on a design whose rows all have the same orientation the wirelength of the
   exposed circuits never increases along ANY history of c05 -- hypotheses on the circuit given to legalization,
   plus the two machine-int conditions on the legalized circuit *)
Theorem legalize_then_wirelength c order c' rh nets oR :
  std_design c rh -> legalize_circuit c order = LegOk c' ->
  (rows_one_orientation c oR \/ no_polarised_kept c' rh) ->
  exists d0, from_circuit c' = DOk d0 /\
    forall l1 l2, let s0 := {| ps_d := d0; ps_o := init_models c' nets |} in
      phist_ok s0 (l1 ++ l2) -> int_pins c' nets -> pins_fit c' rh nets ->
      let sj := psteps_run s0 l1 in
      let sk := psteps_run s0 (l1 ++ l2) in
      exposed_hpwl c' nets sk <= exposed_hpwl c' nets sj <= hpwl_circuit c' nets /\
      legal (write_back c' (ps_d sj)) /\ legal (write_back c' (ps_d sk)).
Proof.
  intros SD Hleg Hcase. destruct (legalize_then_from_circuit c order c' rh SD Hleg) as (SD' & HL' & d0 & Hs & _ & _ & HOI).
  exists d0. split; [exact Hs|]. intros l1 l2 s0 Hok B0 HP sj sk.
  apply (exposed_monotone_static_frozen c' rh nets d0 l1 l2); try assumption.
  destruct Hcase as [Hone|Hno]; [|exact (no_polarised_frozen_all c' rh Hno)].
  apply (one_orientation_frozen_all c' rh d0 oR); try assumption.
  destruct (legalize_circuit_facts c order c' rh SD Hleg) as (pl & -> & _). exact Hone.
Qed.

Print Assumptions exposed_monotone_static_frozen.
Print Assumptions legalize_then_wirelength.

(* ================================================================== *)
(* part 4 (C01-9): the clause "clear of every fixed obstruction" of C01, at Circuit level.
   `legal` says it through free_rows (every row-high strip of a movable cell lies in one free segment) and the
   exactness of the free segments (C15: FreeSpaceProofs.freespace_exact).  Unfolded here: in a legal circuit the
   rectangle of a movable cell is disjoint from the rectangle of every fixed cell flagged as an obstruction (of
   positive area: computeRows ignores empty rectangles).  No hypothesis besides `legal c`. *)
Lemma obstruction_in_obstacles c f : In f (cells c) -> c_fixed f = true -> c_obs f = true ->
  In (placement_of f) (obstacles_of [] (map (fun k => (placement_of k, c_fixed k, c_obs k)) (cells c))).
Proof.
  intros Hf Fx Ob. unfold obstacles_of. cbn [app]. apply in_flat_map.
  exists (placement_of f, c_fixed f, c_obs f). split; [apply in_map_iff; exists f; split; [reflexivity|exact Hf]|].
  rewrite Fx, Ob. left. reflexivity.
Qed.

Theorem legal_clear_of_obstructions c k f :
  legal c -> In k (movable c) -> In f (cells c) -> c_fixed f = true -> c_obs f = true ->
  minX (placement_of f) < maxX (placement_of f) -> minY (placement_of f) < maxY (placement_of f) ->
  disjoint_rects (placement_of k) (placement_of f).
Proof.
  intros HL Hk Hf Fx Ob Wf Hf'. unfold legal in HL.
  destruct (row_height c) as [rh|]; [|rewrite HL in Hk; destruct Hk].
  destruct HL as (Hrh & Hleg & _). destruct (Hleg k Hk) as (Wk & n & Hn & Hh & _ & Hstrips).
  set (p := placement_of k) in *. set (q := placement_of f) in *.
  unfold disjoint_rects.
  destruct (Z_le_gt_dec (maxY p) (minY q)) as [|G1]; [tauto|].
  destruct (Z_le_gt_dec (maxY q) (minY p)) as [|G2]; [tauto|].
  (* a y both rectangles cover, and the strip of p that holds it *)
  set (y0 := Z.max (minY p) (minY q)).
  assert (Hy0 : minY p <= y0 < maxY p /\ minY q <= y0 < maxY q) by (unfold y0; lia).
  set (jz := (y0 - minY p) / rh).
  assert (Hjz : 0 <= jz /\ minY p + jz * rh <= y0 < minY p + jz * rh + rh).
  { unfold jz. pose proof (Z.div_mod (y0 - minY p) rh ltac:(lia)) as DM.
    pose proof (Z.mod_pos_bound (y0 - minY p) rh Hrh) as MB.
    split; [apply Z.div_pos; lia|]. nia. }
  assert (Hjn : (Z.to_nat jz < n)%nat).
  { apply Nat2Z.inj_lt. rewrite Z2Nat.id by lia. nia. }
  destruct (Hstrips (Z.to_nat jz) Hjn) as (s & Hs & Y1 & Y2 & X1 & X2). rewrite Z2Nat.id in Y1, Y2 by lia.
  unfold free_rows, compute_rows in Hs. apply in_flat_map in Hs as (r & Hr & Hs).
  pose proof (freespace_rows_shape _ _ _ Hs) as (S1 & S2 & _).
  assert (Hb : blocks (rr r) q = true).
  { unfold blocks. apply andb_true_iff. split; [apply andb_true_iff; split; [apply andb_true_iff; split|]|];
      apply Z.ltb_lt; lia. }
  destruct (freespace_rows_clear r _ s q Hs (obstruction_in_obstacles c f Hf Fx Ob) Hb) as [D|D]; lia.
Qed.

(* the same for every obstruction, empty or not: no unit square is covered by both *)
Corollary legal_no_common_square c k f x y :
  legal c -> In k (movable c) -> In f (cells c) -> c_fixed f = true -> c_obs f = true ->
  minX (placement_of k) <= x < maxX (placement_of k) -> minY (placement_of k) <= y < maxY (placement_of k) ->
  minX (placement_of f) <= x < maxX (placement_of f) -> minY (placement_of f) <= y < maxY (placement_of f) -> False.
Proof.
  intros HL Hk Hf Fx Ob X1 Y1 X2 Y2.
  pose proof (legal_clear_of_obstructions c k f HL Hk Hf Fx Ob ltac:(lia) ltac:(lia)) as D.
  unfold disjoint_rects in D. lia.
Qed.

Print Assumptions legal_clear_of_obstructions.
