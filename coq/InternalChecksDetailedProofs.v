(* C02 -- the internal tests of the detailed placer PASS on every state the closed model of DetailedPlacer::run reaches
   (InternalChecksDetailed.v): DetailedPlacement::check, IncrNetModel::check of both models, DetailedPlacer::check's coupling
   loop.  The geometric part is the row invariant Inv, the incremental part IS C09's exactness invariant (HpwlProofs.IInv:
   stored bounds = recomputed bounds, stored value = their sum), the coupling part is DetailedValue.coupled; the orientation
   part is a new invariant CO kept by every primitive of the row structure. *)
From Coq Require Import List ZArith Lia Bool Arith Permutation.
Import ListNotations.
Require Import CV.Orient CV.FreeSpace CV.Circuit CV.Hpwl CV.HpwlProofs CV.Moves CV.MovesProofs CV.MovesOrientProofs.
Require Import CV.Optimiser CV.OptimiserProofs CV.ShiftLp CV.ShiftLpProofs.
Require Import CV.Legalizer CV.LegalizerProofs CV.LegalizerSoundProofs CV.DetailedInit CV.DetailedInitProofs CV.DetailedExport CV.DetailedExportProofs.
Require Import CV.DetailedValue CV.DetailedValueProofs CV.DetailedValueStepProofs.
Require Import CV.RowNeigh CV.RowNeighProofs CV.Reorder CV.ReorderGeomProofs CV.ReorderProofs.
Require Import CV.DetailedRun CV.DetailedRunProofs CV.DetailedRunStructProofs CV.DetailedRunTermProofs CV.DetailedRunTotalProofs.
Require Import CV.DetailedRunCircuitProofs CV.DetailedRunShiftProofs.
Require Import CV.InternalChecks CV.InternalChecksDetailed.
Local Open Scope Z_scope.

Lemma call_pass' {A} (f : A -> chk_res) l : (forall a, In a l -> f a = CPass) -> call f l = CPass.
Proof.
  induction l as [|a t IH]; intros H; cbn [call]; [reflexivity|].
  rewrite (H a (or_introl eq_refl)). cbn [cseq]. apply IH. intros b Hb. apply H. right. exact Hb.
Qed.

(* ---------- geometry: the row invariant is what check() tests ---------- *)
Lemma dp_row_check_pass l : forall first lo hi, MovesProofs.chain lo hi l -> dp_row_check first lo hi l = CPass.
Proof.
  induction l as [|c t IH]; intros first lo hi H; cbn [dp_row_check]; [reflexivity|].
  cbn [MovesProofs.chain] in H. destruct H as (H1 & H2 & H3).
  unfold throw_if at 1. destruct (Z.ltb_spec (p_x c) lo); [lia|]. cbn [cseq].
  rewrite (IH false _ _ H3).
  destruct t as [|n t']; cbn [MovesProofs.chain] in H3; unfold throw_if.
  - destruct (Z.ltb_spec hi (p_x c + p_w c)); [lia|reflexivity].
  - destruct H3 as (H4 & _). destruct (Z.ltb_spec (p_x n) (p_x c + p_w c)); [lia|reflexivity].
Qed.

(* ---------- orientation: every cell in a row has the orientation check() demands ---------- *)
Definition co_row (r : drow) : Prop := Forall (fun c => check_orient (dr_o r) c = true) (dr_cells r).
Definition CO (d : dstate) : Prop := Forall co_row (d_rows d).

Lemma dp_check_pass d : Inv d -> CO d -> dp_check d = CPass.
Proof.
  intros (HI & _) HC. unfold dp_check. rewrite call_pass'; [cbn [cseq]|].
  - apply call_pass'. intros r Hr. apply call_pass'. intros c Hc.
    unfold CO in HC. rewrite Forall_forall in HC. specialize (HC r Hr). unfold co_row in HC. rewrite Forall_forall in HC.
    unfold dp_orient_check. rewrite (HC c Hc). reflexivity.
  - intros r Hr. rewrite Forall_forall in HI. apply dp_row_check_pass. exact (HI r Hr).
Qed.

Lemma unplace_co s id s' : CO s -> unplace s id = Some s' -> CO s'.
Proof.
  intros HI U. apply unplace_spec in U as (i & r & a & m & b & _ & Hn & Hc & _ & Hr & _).
  unfold CO. rewrite Hr. apply Forall_upd; [exact HI|]. pose proof (Forall_nth _ _ _ _ HI Hn) as Hok.
  unfold co_row in *. cbn [set_cells dr_o dr_cells]. rewrite Hc in Hok.
  apply Forall_app in Hok as [H1 H2]. inversion H2; subst. apply Forall_app. split; assumption.
Qed.

(* place sets the orientation check() demands: no guard is needed *)
Lemma place_co s id rowi pred x s' : CO s -> place s id rowi pred x = Some s' -> CO s'.
Proof.
  intros HI. unfold place. destruct (take_loose id (d_loose s)) as [[c l']|]; [|discriminate].
  destruct (nth_error (d_rows s) rowi) as [r|] eqn:N; [|discriminate].
  destruct (split_site pred (dr_cells r)) as [[a b]|] eqn:S; [|discriminate].
  destruct (_ && _); [|discriminate]. intros [= <-]. unfold CO. cbn [d_rows].
  apply Forall_upd; [exact HI|]. pose proof (Forall_nth _ _ _ _ HI N) as Hok.
  apply split_site_app in S. unfold co_row in *. cbn [set_cells dr_o dr_cells]. rewrite S in Hok.
  apply Forall_app in Hok as [H1 H2]. apply Forall_app. split; [exact H1|]. constructor; [|exact H2].
  unfold check_orient. cbn [p_pol p_o].
  destruct (orient_eqb (cell_orientation_in_row (p_pol c) (dr_o r)) oUNKNOWN) eqn:E; [reflexivity|].
  cbn [orb]. apply orient_eqb_eq. reflexivity.
Qed.

Lemma insert_co s id rowi pred s' : CO s -> Moves.insert s id rowi pred = Some s' -> CO s'.
Proof.
  intros HI. unfold Moves.insert. destruct (can_insert s id rowi pred) as [[|]|]; try discriminate.
  destruct (find_row (d_rows s) id 0) as [[[[[ri r0] a] c] b]|]; [|discriminate].
  destruct (nth_error (d_rows s) rowi) as [r|]; [|discriminate].
  destruct (split_site pred (dr_cells r)) as [[sa sb]|]; [|discriminate].
  destruct (unplace s id) as [s1|] eqn:U; [|discriminate].
  intros P. exact (place_co _ _ _ _ _ _ (unplace_co _ _ _ HI U) P).
Qed.

Lemma swap_co s c1 c2 s' : CO s -> Moves.swap s c1 c2 = Some s' -> CO s'.
Proof.
  intros HI. unfold Moves.swap. destruct (can_swap s c1 c2) as [[|]|]; try discriminate.
  destruct (find_row (d_rows s) c1 0) as [[[[[i1 r1] a1] m1] b1]|]; [|discriminate].
  destruct (find_row (d_rows s) c2 0) as [[[[[i2 r2] a2] m2] b2]|]; [|discriminate].
  destruct (bounds_of r1 a1 b1) as [bb1 ba1]. destruct (bounds_of r2 a2 b2) as [bb2 ba2].
  destruct (if opt_nat_eqb (pred_of a1) (Some c2) then _ else _) as [x1 x2].
  destruct (unplace s c1) as [s1|] eqn:U1; [|discriminate].
  destruct (unplace s1 c2) as [s2|] eqn:U2; [|discriminate].
  pose proof (unplace_co _ _ _ (unplace_co _ _ _ HI U1) U2) as H2.
  destruct (opt_nat_eqb (pred_of a1) (Some c2)); [|destruct (opt_nat_eqb (pred_of a2) (Some c1))].
  - destruct (place s2 c1 i2 (pred_of a2) x1) as [s3|] eqn:P1; [|discriminate]. intros P2.
    exact (place_co _ _ _ _ _ _ (place_co _ _ _ _ _ _ H2 P1) P2).
  - destruct (place s2 c2 i1 (pred_of a1) x2) as [s3|] eqn:P1; [|discriminate]. intros P2.
    exact (place_co _ _ _ _ _ _ (place_co _ _ _ _ _ _ H2 P1) P2).
  - destruct (place s2 c1 i2 (pred_of a2) x1) as [s3|] eqn:P1; [|discriminate]. intros P2.
    exact (place_co _ _ _ _ _ _ (place_co _ _ _ _ _ _ H2 P1) P2).
Qed.

Lemma apply_mop_co s o s' : CO s -> apply_mop s o = Some s' -> CO s'.
Proof.
  intros HI. destruct o; cbn [apply_mop]; [apply swap_co|apply insert_co|apply unplace_co|apply place_co]; exact HI.
Qed.

Lemma apply_all_co ops : forall s s', CO s -> apply_all s ops = Some s' -> CO s'.
Proof.
  induction ops as [|o ops IH]; intros s s' HI; cbn [apply_all]; [intros [= <-]; exact HI|].
  destruct (apply_mop s o) as [s1|] eqn:A; [|discriminate]. apply IH. exact (apply_mop_co _ _ _ HI A).
Qed.

Lemma shift_co s xs : CO s -> CO (apply_shift s xs).
Proof.
  unfold CO, apply_shift. cbn [d_rows]. intros H. rewrite Forall_forall in *.
  intros r' Hr'. apply in_map_iff in Hr' as (r & <- & Hr). specialize (H r Hr).
  unfold co_row in *. cbn [set_cells dr_o dr_cells]. rewrite Forall_forall in *.
  intros c' Hc'. apply in_map_iff in Hc' as (c & <- & Hc). exact (H c Hc).
Qed.

(* ---------- IncrNetModel::check: the C09 invariant + well-formed nets ---------- *)
Definition nets_wf (s : incr) : Prop :=
  Forall (fun net : list ipin => (1 <= length net)%nat /\ Forall (fun p => (fst p < length (ipos s))%nat) net) (inets s).

Lemma bounds_check_pass pos nets : bounds_check pos nets (map (net_minmax pos) nets) = CPass.
Proof.
  induction nets as [|net nets IH]; cbn [bounds_check map]; [reflexivity|].
  unfold pair_eqb. rewrite !Z.eqb_refl. cbn [andb negb throw_if cseq]. exact IH.
Qed.

Lemma incr_check_pass s : IInv s -> nets_wf s -> incr_check s = CPass.
Proof.
  intros (Hmm & Hv) Hwf. unfold incr_check. unfold nets_wf in Hwf. rewrite Forall_forall in Hwf.
  rewrite call_pass'; [cbn [cseq]|].
  2:{ intros net Hnet. apply call_pass'. intros p Hp. destruct (Hwf net Hnet) as (_ & Hpins). rewrite Forall_forall in Hpins.
      specialize (Hpins p Hp). unfold throw_if. destruct (Nat.ltb_spec (fst p) (length (ipos s))); [reflexivity|lia]. }
  rewrite call_pass'; [cbn [cseq]|].
  2:{ intros net Hnet. destruct (Hwf net Hnet) as (Hlen & _). unfold throw_if. destruct (Nat.ltb_spec (length net) 1); [lia|reflexivity]. }
  rewrite Hmm at 1. rewrite bounds_check_pass. cbn [cseq].
  rewrite firstn_all2 by (rewrite Hmm, map_length; lia). rewrite Hv, Z.eqb_refl. reflexivity.
Qed.

Lemma index_of_lt c l : forall i0 i, index_of c l i0 = Some i -> (i < i0 + length l)%nat.
Proof.
  induction l as [|x l IH]; intros i0 i; cbn [index_of length]; [discriminate|].
  destruct (Nat.eqb x c); [intros [= <-]; lia|]. intros H. apply IH in H. lia.
Qed.

Lemma topo_shape_pins (local : list ipin) (fixedpos : list Z) (fc : nat) (p : ipin) :
  (forall q, In q local -> (fst q < fc)%nat) ->
  In p (match fixedpos with
        | [] => local
        | _ => local ++ (fc, fmin fixedpos) :: (if fmin fixedpos =? fmax fixedpos then [] else [(fc, fmax fixedpos)])
        end) -> (fst p <= fc)%nat.
Proof.
  intros HL. destruct fixedpos as [|f fs].
  - intros Hp. specialize (HL p Hp). lia.
  - intros Hp. apply in_app_or in Hp as [Hp|Hp]; [specialize (HL p Hp); lia|].
    destruct Hp as [<-|Hp]; [cbn [fst]; lia|]. destruct (_ =? _); [destruct Hp|]. destruct Hp as [<-|[]]. cbn [fst]. lia.
Qed.

Lemma topo_net_pins gpos subset net p : In p (topo_net gpos subset net) -> (fst p <= length subset)%nat.
Proof.
  unfold topo_net. cbv zeta.
  apply (topo_shape_pins
           (flat_map (fun p0 : ipin => match index_of (fst p0) subset 0 with Some i => [(i, snd p0)] | None => [] end) net)
           (flat_map (fun p0 : ipin => match index_of (fst p0) subset 0 with Some _ => [] | None => [ipin_pos gpos p0] end) net)).
  intros q Hq. apply in_flat_map in Hq as (p0 & _ & Hq).
  destruct (index_of (fst p0) subset 0) as [i|] eqn:E; [|destruct Hq]. destruct Hq as [<-|[]]. cbn [fst].
  apply index_of_lt in E. lia.
Qed.

Lemma topology_nets_wf gpos subset nets : nets_wf (topology gpos subset nets).
Proof.
  unfold nets_wf, topology, incr_build. cbn [inets ipos]. rewrite Forall_forall. intros net Hnet.
  apply filter_In in Hnet as (Hin & Hlen). apply Nat.ltb_lt in Hlen. split; [lia|].
  apply in_map_iff in Hin as (net0 & <- & _). rewrite Forall_forall. intros p Hp.
  apply topo_net_pins in Hp. rewrite app_length, map_length. cbn [length]. lia.
Qed.

Lemma init_models_nets_wf c nets : nets_wf (ox (init_models c nets)) /\ nets_wf (oy (init_models c nets)).
Proof. unfold init_models, circuit_topology. cbn [ox oy]. split; apply topology_nets_wf. Qed.

Lemma init_models_pos_length c nets :
  length (ipos (ox (init_models c nets))) = S (length (cells c)) /\ length (ipos (oy (init_models c nets))) = S (length (cells c)).
Proof.
  unfold init_models, circuit_topology, topology, incr_build, all_cells. cbn [ox oy ipos].
  rewrite !app_length, !map_length, seq_length. cbn [length]. lia.
Qed.

(* the nets are frozen and the position vectors keep their length: well-formedness is an invariant *)
Lemma PInv_nets_wf c rh nets s : PInv c rh nets s -> nets_wf (ox (ps_o s)) /\ nets_wf (oy (ps_o s)).
Proof.
  intros (_ & _ & _ & _ & _ & (Fx & Fy) & (Lx & Ly & _)).
  destruct (init_models_nets_wf c nets) as (Wx & Wy). destruct (init_models_pos_length c nets) as (Px & Py).
  unfold nets_wf in *. rewrite Fx, Fy, Lx, Ly. rewrite Px in Wx. rewrite Py in Wy. split; assumption.
Qed.

(* ---------- DetailedPlacer::check's coupling loop ---------- *)
Lemma coupling_check_pass c rh nets s : PInv c rh nets s -> coupling_check s = CPass.
Proof.
  intros ((_ & Hcells & _) & _ & _ & ND & _ & _ & (Lx & Ly & _ & _ & Hh & _)).
  unfold coupling_check. apply call_pass'. intros [m y] Hin. cbn [fst snd].
  unfold placed_cells in Hin. apply in_flat_map in Hin as (r & Hr & Hm). apply in_map_iff in Hm as (m' & E & Hm). injection E as -> <-.
  pose proof (Hh _ _ _ (entry_pos (ps_d s) r m ND Hr Hm)) as E. unfold cur_pos in E. injection E as Ex Ey.
  destruct (Hcells m (cells_of_placed _ _ _ Hr Hm)) as (k & Hk & _).
  assert (Hid : (p_id m < length (cells c))%nat) by (apply nth_error_Some; congruence).
  rewrite (nth_error_nth' (ipos (ox (ps_o s))) 0) by lia. rewrite (nth_error_nth' (ipos (oy (ps_o s))) 0) by lia.
  rewrite Ex, Ey, !Z.eqb_refl. reflexivity.
Qed.

(* ---------- DetailedPlacer::check ---------- *)
Theorem placer_check_pass c rh nets s : PInv c rh nets s -> CO (ps_d s) -> placer_check s = CPass.
Proof.
  intros HP HC. unfold placer_check. pose proof HP as (_ & HI & _ & _ & (Ix & Iy) & _).
  destruct (PInv_nets_wf c rh nets s HP) as (Wx & Wy).
  rewrite (dp_check_pass _ HI HC), (incr_check_pass _ Ix Wx), (incr_check_pass _ Iy Wy). cbn [cseq].
  exact (coupling_check_pass c rh nets s HP).
Qed.

(* ---------- CO along the closed run ---------- *)
Definition Jco (s : pstate) : Prop := CO (ps_d s).

Lemma Jco_best s cc cands : Jco s -> Jco (pbest s (swap_cands cc cands)).
Proof.
  unfold Jco. intros H. destruct (pbest_structure s (swap_cands cc cands)) as [->|(m & d' & Hin & A & ->)]; [exact H|].
  exact (apply_mop_co _ _ _ H A).
Qed.

Lemma Jco_reorder c rh nets s w s' n : PInv c rh nets s -> Jco s -> NoDup w -> (forall x, In x w -> held (ps_d s) x = true) ->
  Reorder.run s w = Some (s', n) -> Jco s'.
Proof.
  intros HP HJ ND Hh R. destruct (run_returns_minimum c rh nets s w HP ND Hh) as (rgs & s1 & n1 & _ & Hrun & Hres). cbn zeta in Hres.
  rewrite R in Hrun. injection Hrun as <- <-.
  destruct Hres as (_ & _ & _ & [[E _]|(leaf & _ & _ & _ & Wb)]); unfold Jco in *; [rewrite E; exact HJ|].
  unfold wb in Wb. exact (apply_all_co _ _ _ HJ Wb).
Qed.

Lemma Jco_shift s sel pi : Jco s -> Jco (pshift s sel pi).
Proof. unfold Jco, pshift. cbn [ps_d]. apply shift_co. Qed.

(* the constructor's own check() (third test of DetailedInit.construct) establishes CO *)
Lemma construct_co rws ds d : construct rws ds = DOk d -> CO d.
Proof.
  unfold construct. destruct (locate_all _ 0 ds) as [asg|e]; [|discriminate].
  destruct (negb (forallb _ _)); [discriminate|]. destruct (negb (forallb _ _)); [discriminate|].
  destruct (forallb (fun r => forallb (check_orient (dr_o r)) (dr_cells r)) (build_rows (sort_rows rws) 0 asg)) eqn:E; [|discriminate].
  cbn [negb]. intros [= <-]. unfold CO. cbn [d_rows]. rewrite forallb_forall in E. rewrite Forall_forall. intros r Hr.
  specialize (E r Hr). rewrite forallb_forall in E. unfold co_row. rewrite Forall_forall. exact E.
Qed.

Lemma from_circuit_co c d : from_circuit c = DOk d -> CO d.
Proof.
  unfold from_circuit. destruct (rows c); [apply construct_co|]. destruct (row_height c); [apply construct_co|discriminate].
Qed.

(* ---------- MAIN: DetailedPlacer::check passes at every point DetailedPlacer::place / run() call it ----------
   check points of the C++: pl.check() before run() (the initial state s0), placement_.check() at the end of runShifts and check()
   at the end of runReordering (both states are exposed at the following callback: members of ex), pl.check() after run() (s').
   The statement covers every exposed state (also the ones after runSwaps, where the C++ does not test) *)
Theorem detailed_checks_pass c rh nets : std_design c rh -> forall p answers s,
  params_ok p = true -> PInv c rh nets s -> CO (ps_d s) ->
  ok_or_oracle (run_passes_c p answers s)
    (fun r => let '(s', ex, _) := r in Forall (fun e => placer_check e = CPass) (s :: ex ++ [s'])).
Proof.
  intros SD p answers s Hp HI HC.
  pose proof (run_passes_c_spec c rh nets SD Jco Jco_best (Jco_reorder c rh nets) Jco_shift p answers s Hp HI HC) as H.
  destruct (run_passes_c p answers s) as [[[s' ex] rest]|e]; cbn [ok_or_oracle] in *; [|exact H].
  destruct H as (Ch & P' & J' & Jex).
  constructor; [exact (placer_check_pass c rh nets s HI HC)|]. apply Forall_app. split.
  - apply Forall_forall. intros e He. destruct (chain_in _ _ _ e Ch He) as [S1 _].
    destruct (steps_inv c rh nets s e SD HI S1) as [Pe _]. rewrite Forall_forall in Jex.
    exact (placer_check_pass c rh nets e Pe (Jex e He)).
  - constructor; [|constructor]. exact (placer_check_pass c rh nets s' P' J').
Qed.

(* Circuit level: what can stop DetailedPlacer::place after a successful legalization, and what it exposes otherwise *)
Theorem place_detailed_checked c rh nets : std_design c rh -> legal c -> forall p answers d0,
  from_circuit c = DOk d0 -> params_ok p = true ->
  let s0 := {| ps_d := d0; ps_o := init_models c nets |} in
  placer_check s0 = CPass /\
  match run_passes_c p answers s0 with
  | ROk (s', ex, rest) =>
      Forall (fun e => placer_check e = CPass) (ex ++ [s']) /\
      place_detailed_model_c c nets p answers = ROk (write_back c (ps_d s'), map (fun st => write_back c (ps_d st)) ex, rest) /\
      legal (write_back c (ps_d s')) /\ frame c (write_back c (ps_d s')) rh /\
      Forall (fun e => legal (write_back c (ps_d e)) /\ frame c (write_back c (ps_d e)) rh) ex
  | RErr e => (e = EOracle \/ e = ERecord) /\ place_detailed_model_c c nets p answers = RErr e
  end.
Proof.
  intros SD HL p answers d0 Hs Hp s0. pose proof (init_PInv c rh nets d0 SD HL Hs) as P0. fold s0 in P0.
  pose proof (from_circuit_co c d0 Hs) as C0.
  pose proof (detailed_checks_pass c rh nets SD p answers s0 Hp P0 C0) as H1.
  pose proof (run_passes_c_accepted c rh nets SD p answers s0 Hp P0) as H2.
  split; [exact (placer_check_pass c rh nets s0 P0 C0)|].
  unfold place_detailed_model_c. rewrite Hs. fold s0.
  destruct (run_passes_c p answers s0) as [[[s' ex] rest]|e]; cbn [ok_or_oracle] in *.
  - inversion H1 as [|? ? _ H1']; subst. split; [exact H1'|]. split; [reflexivity|].
    destruct H2 as (Ch & P' & Fex).
    split; [exact (exposed_legal_inv c rh nets s' SD HL P')|]. split; [exact (exposed_frame c rh nets s' P')|].
    apply Forall_forall. intros e He. rewrite Forall_forall in Fex. destruct (Fex e He) as (Pe & _).
    split; [exact (exposed_legal_inv c rh nets e SD HL Pe)|exact (exposed_frame c rh nets e Pe)].
  - split; [exact H2|reflexivity].
Qed.

(* IncrNetModel::xTopology / yTopology (builder, finalize) produce a model on which check() passes: every circuit, every nets *)
Lemma init_models_check c nets : incr_check (ox (init_models c nets)) = CPass /\ incr_check (oy (init_models c nets)) = CPass.
Proof.
  destruct (init_models_nets_wf c nets) as (Wx & Wy).
  split; apply incr_check_pass; try assumption; unfold init_models, circuit_topology, topology; cbn [ox oy]; apply build_inv.
Qed.

Lemma co_kept s : CO s -> (forall o s', apply_mop s o = Some s' -> CO s') /\ (forall xs, CO (apply_shift s xs)).
Proof. intros H. split; [intros o s'; exact (apply_mop_co s o s' H)|intros xs; exact (shift_co s xs H)]. Qed.
