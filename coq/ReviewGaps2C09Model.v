(* Review gap (C09, review_C06-C10.md item 1): the theorems of Properties_C09 are over Z.  This file is a
   machine-int model of the same code: every `int` (resp. `long long`) arithmetic result is CHECKED to lie in
   the type's range (chk32 / chk64), `None` = signed overflow (undefined behaviour in the C++).  The typing of
   the operations is that of HpwlMachine.v (by hand from src/place_detailed/incr_net_model.cpp:213-258, 60-104
   and src/coloquinte.cpp:236-259).  Definitions only; ReviewGaps2C09.v proves that on C07's domains the checked
   model answers `Some` of the Z model's result. *)
From Coq Require Import List ZArith Bool.
Import ListNotations.
Require Import CV.Orient CV.Hpwl.
Local Open Scope Z_scope.

Definition chk32 (z : Z) : option Z :=
  if (-2147483648 <=? z) && (z <? 2147483648) then Some z else None.
Definition chk64 (z : Z) : option Z :=
  if (-9223372036854775808 <=? z) && (z <? 9223372036854775808) then Some z else None.

(* computeNetMinMaxPos(net), incr_net_model.cpp:213-223: `int pinPos = cellPos_[c] + netPinOffset(net, j)` *)
Fixpoint mm_pins_m (pos : list Z) (pins : list ipin) (mn mx : Z) : option (Z * Z) :=
  match pins with
  | [] => Some (mn, mx)
  | p :: r => match chk32 (nth (fst p) pos 0 + snd p) with
              | Some v => mm_pins_m pos r (Z.min mn v) (Z.max mx v)
              | None => None
              end
  end.
Definition net_minmax_m (pos : list Z) (net : list ipin) : option (Z * Z) := mm_pins_m pos net INT_MAX INT_MIN.

Fixpoint all_minmax_m (pos : list Z) (nets : list (list ipin)) : option (list (Z * Z)) :=
  match nets with
  | [] => Some []
  | n :: r => match net_minmax_m pos n, all_minmax_m pos r with
              | Some m, Some t => Some (m :: t)
              | _, _ => None
              end
  end.

(* computeValue(), :233-240: `ret += minMaxPos.second - minMaxPos.first` (int difference, long long sum) *)
Fixpoint value_m (mm : list (Z * Z)) (acc : Z) : option Z :=
  match mm with
  | [] => Some acc
  | m :: r => match chk32 (snd m - fst m) with
              | Some w => match chk64 (acc + w) with Some a => value_m r a | None => None end
              | None => None
              end
  end.

(* IncrNetModelBuilder::build -> finalize() *)
Definition incr_build_m (pos : list Z) (nets : list (list ipin)) : option incr :=
  match all_minmax_m pos nets with
  | Some mm => match value_m mm 0 with
               | Some v => Some {| ipos := pos; inets := nets; iminmax := mm; ivalue := v |}
               | None => None
               end
  | None => None
  end.

(* recomputeNet(net), :251-258 *)
Definition recompute_net_m (s : incr) (net : nat) : option incr :=
  match nth_error (inets s) net, nth_error (iminmax s) net with
  | Some pins, Some old =>
    match net_minmax_m (ipos s) pins with
    | Some nw =>
      match chk32 (snd old - fst old), chk32 (snd nw - fst nw) with
      | Some ov, Some nv =>
        match chk32 (nv - ov) with
        | Some dv => match chk64 (ivalue s + dv) with
                     | Some v => Some {| ipos := ipos s; inets := inets s; iminmax := upd (iminmax s) net nw; ivalue := v |}
                     | None => None
                     end
        | None => None
        end
      | _, _ => None
      end
    | None => None
    end
  | _, _ => Some s
  end.

Fixpoint recompute_loop_m (ids : list nat) (s : incr) : option incr :=
  match ids with
  | [] => Some s
  | i :: r => match recompute_net_m s i with Some s' => recompute_loop_m r s' | None => None end
  end.

(* updateCellPos(cell, pos), :242-249; the new position is an int argument *)
Definition update_cell_pos_m (s : incr) (c : nat) (p : Z) : option incr :=
  match chk32 p with
  | Some p' =>
    recompute_loop_m (cell_net_ids (inets s) c)
      {| ipos := upd (ipos s) c p'; inets := inets s; iminmax := iminmax s; ivalue := ivalue s |}
  | None => None
  end.

Fixpoint apply_updates_m (s : incr) (ups : list (nat * Z)) : option incr :=
  match ups with
  | [] => Some s
  | u :: r => match update_cell_pos_m s (fst u) (snd u) with Some s' => apply_updates_m s' r | None => None end
  end.

(* x/yTopology(circuit, cells), :60-104: `int pos = circuit.x(cell) + offset` for the pins of cells outside
   the subset; min/max involve no arithmetic *)
Fixpoint fixedpos_m (gpos : list Z) (subset : list nat) (net : list ipin) : option (list Z) :=
  match net with
  | [] => Some []
  | p :: r =>
    match index_of (fst p) subset 0 with
    | Some _ => fixedpos_m gpos subset r
    | None => match chk32 (nth (fst p) gpos 0 + snd p), fixedpos_m gpos subset r with
              | Some v, Some t => Some (v :: t)
              | _, _ => None
              end
    end
  end.
Definition topo_net_m (gpos : list Z) (subset : list nat) (net : list ipin) : option (list ipin) :=
  let fixedCell := length subset in
  let local := flat_map (fun p => match index_of (fst p) subset 0 with Some i => [(i, snd p)] | None => [] end) net in
  match fixedpos_m gpos subset net with
  | None => None
  | Some [] => Some local
  | Some fixedpos =>
    let mn := fmin fixedpos in let mx := fmax fixedpos in
    Some (local ++ (fixedCell, mn) :: (if mn =? mx then [] else [(fixedCell, mx)]))
  end.
