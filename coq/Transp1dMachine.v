(* C07: the C++-typed intermediate values of the 1-D transportation solver
   (src/place_global/transportation_1d.cpp / .hpp), in evaluation order, over the ideal model Transp1d.v.
   `int` = 32 bit (I32), `long long` = 64 bit (I64).  If every value listed here fits its type, the machine
   computation coincides with the ideal one and no signed overflow occurs.  Line numbers `cpp:` are those of
   /repo main (da3fc07).  The transcription of the types is BY HAND from the C++ text (modelled, not verified;
   the UBSan build of ./check C07 observes the same on the real code).  Definitions only.

   What is listed: every +, -, *, /, std::abs and every narrowing conversion on int / long long operands.
   What is not: size_t arithmetic (indices are >= 0 and bounded by the vector lengths; out-of-range accesses
   are the subject of Properties_C14's machine-level theorems), comparisons, std::min/std::max (no arithmetic).
   Entry path of the placement flow: DensityLegalizer::improveXTransport/improveYTransport build a
   Transportation1d, call balanceDemand() and assign().  solve() is not called by the library
   (checkSolutionValid / checkSolutionOptimal are therefore outside this listing, see design/C07.md). *)
From Coq Require Import List ZArith Lia Bool.
Import ListNotations.
Require Import CV.Transp1d CV.RowLegMachine.
Local Open Scope Z_scope.

Definition zi (k : nat) : Z := Z.of_nat k.

(* ---------------------------------------------------------------- sums, prefix sums *)
(* `ret = 0; for (int i = 0; i < n; ++i) ret += s[i];`   totalSupply cpp:147-153, totalDemand cpp:155-161 *)
Fixpoint acc_vals (acc : Z) (l : list Z) : list (cty * Z) :=
  match l with [] => [] | x :: r => (I64, acc + x) :: acc_vals (acc + x) r end.
Definition total_vals (l : list Z) : list (cty * Z) :=
  (I32, zi (length l)) ::                                   (* nbSources() / nbSinks(): size() -> int, hpp:55,60 *)
  acc_vals 0 l.                                             (* ret += s[i]        (long long) *)

(* setupData cpp:171-182: `D.push_back(D.back() + c)` ; `nbSinks() + 1` *)
Definition setup_vals (P : sprob) : list (cty * Z) :=
  [(I32, zi (n_snk P) + 1)] ++ acc_vals 0 (sd P) ++ [(I32, zi (n_src P) + 1)] ++ acc_vals 0 (ss P).

(* ---------------------------------------------------------------- balanceDemand cpp:132-145 *)
Definition balance_vals (pb : prob) : list (cty * Z) :=
  let ts := total (pb_s pb) in let td := total (pb_d pb) in
  let missing := ts - td in
  total_vals (pb_s pb) ++ total_vals (pb_d pb) ++
  [(I64, missing)] ++                                       (* 133  totalSupply() - totalDemand() *)
  (if missing <=? 0 then [] else
   match nb_sinks pb with
   | O => []                                                (* division by zero: Transp1d.balance_demand = Err EDivZero *)
   | S _ =>
     let m := zi (nb_sinks pb) in
     let added := Z.quot missing m in
     [(I64, m); (I64, added)] ++                            (* 137  missing / nbSinks()  (int -> long long, quotient) *)
     map (fun x => (I64, x + added)) (pb_d pb) ++           (* 139  d[i] += added *)
     map (fun i => (I32, zi i + 1)) (seq 0 (nb_sinks pb)) ++(* 138  ++i *)
     [(I64, added * m); (I64, missing - added * m)] ++      (* 141 *)
     map (fun x => (I64, x + added + 1)) (firstn (Z.to_nat (missing - added * m)) (pb_d pb)) ++   (* 143  d[i] += 1 *)
     map (fun i => (I32, zi i + 1)) (seq 0 (Z.to_nat (missing - added * m)))                      (* 142  ++i *)
   end).

(* ---------------------------------------------------------------- Transportation1dSorter cpp:12-58 *)
(* 35, 39: `srcOrder.push_back(p.second)`  long long -> int *)
Definition order_vals (o : list nat) : list (cty * Z) := map (fun k => (I32, zi k)) o.
(* 52-53: `u[i] - snkSort[k - 1].first <= snkSort[k].first - u[i]`, evaluated when k != size and k > 0 *)
Definition idle_vals_of (snkSort : list (Z * nat)) (ui si : Z) : list (cty * Z) :=
  if (0 <? si) || Nat.eqb (length snkSort) 0 then []
  else
    let k := lower_bound_pairs snkSort ui in
    (if negb (Nat.eqb k (length snkSort)) && Nat.ltb 0 k
     then [(I64, ui - fst (nth (k - 1) snkSort (0, O))); (I64, fst (nth k snkSort (0, O)) - ui)] else [])
    ++ [(I32, zi (idle_sink_of snkSort ui si))].            (* 56: idleSink[i] = snkSort[k].second  long long -> int *)
Fixpoint idle_vals (snkSort : list (Z * nat)) (us ss : list Z) : list (cty * Z) :=
  match us, ss with
  | ui :: ur, si :: sr => idle_vals_of snkSort ui si ++ idle_vals snkSort ur sr
  | _, _ => []
  end.
Definition sorter_vals (pb : prob) : list (cty * Z) :=
  let so := mk_sorter pb in
  order_vals (srcOrder so) ++ order_vals (snkOrder so)
  ++ idle_vals (sort_pairs (pos_pairs (pb_v pb) (pb_d pb) 0)) (pb_u pb) (pb_s pb).

(* ---------------------------------------------------------------- Transportation1dSolver *)
(* cost(i, j) = std::abs(u[i] - v[j])   hpp:80 *)
Definition cost_vals (P : sprob) (i j : nat) : list (cty * Z) :=
  [(I64, zn (su P) i - zn (sv P) j); (I64, Z.abs (zn (su P) i - zn (sv P) j))].

(* delta(i, j) = cost(i, j + 1) + cost(i + 1, j) - cost(i + 1, j + 1) - cost(i, j)   hpp:228-230 *)
Definition delta_vals (P : sprob) (i j : nat) : list (cty * Z) :=
  [(I32, zi j + 1); (I32, zi i + 1)]
  ++ cost_vals P i (j + 1) ++ cost_vals P (i + 1) j ++ cost_vals P (i + 1) (j + 1) ++ cost_vals P i j
  ++ [(I64, cost P i (j + 1) + cost P (i + 1) j);
      (I64, cost P i (j + 1) + cost P (i + 1) j - cost P (i + 1) (j + 1));
      (I64, cost P i (j + 1) + cost P (i + 1) j - cost P (i + 1) (j + 1) - cost P i j)].

(* updateOptimalSink cpp:193-199: `while (j + 1 < nbSinks() && cost(i, j) >= cost(i, j + 1)) ++j;` *)
Fixpoint upd_opt_vals (P : sprob) (i : nat) (fuel : nat) (j : nat) : list (cty * Z) :=
  match fuel with
  | O => []
  | S f =>
    (I32, zi j + 1) ::
    (if Nat.ltb (j + 1) (n_snk P)
     then cost_vals P i j ++ cost_vals P i (j + 1)
          ++ (if cost P i (j + 1) <=? cost P i j then upd_opt_vals P i f (j + 1) else [])
     else [])
  end.

(* pushNewSourceEvents cpp:266-281 *)
Definition pnse_vals (P : sprob) (i : nat) (s : st) : list (cty * Z) :=
  match i with
  | O => []
  | S i1 =>
    let ub := upper_bound (sv P) (zn (su P) i1) in
    let lb := lower_bound (sv P) (zn (su P) i) in
    let b := Nat.pred ub in
    let e := Nat.min lb (lo s) in
    [(I32, zi i - 1); (I32, zi ub); (I32, zi ub - 1); (I32, zi lb)]         (* 270-273 *)
    ++ flat_map (fun j => [(I32, zi j + 1); (I64, Dx P (j + 1) - Sx P i)]    (* 275  D[j + 1] - S[i]; 274 ++j *)
                          ++ delta_vals P i1 j)                              (* 276 *)
                (seq b (e - b))
  end.

(* pushNewSinkEvents cpp:283-295 *)
Definition pnk_vals (P : sprob) (i j : nat) (s : st) : list (cty * Z) :=
  if Nat.leb j (lo s) then []
  else flat_map (fun l => [(I32, zi l + 1); (I64, Dx P (l + 1) - Sx P i)]   (* 288; 287 ++l *)
                          ++ cost_vals P i l ++ cost_vals P i (l + 1)
                          ++ [(I64, cost P i l - cost P i (l + 1))])         (* 289 *)
                (seq (lo s) (j - lo s)).

(* getSlope cpp:297-307: `slope += events.top().second` -- the running sums, from the top of the queue *)
Fixpoint pop_vals (x : Z) (evs : list event) (acc : Z) : list (cty * Z) :=
  match evs with
  | (p, d) :: r => if p =? x then (I64, acc + d) :: pop_vals x r (acc + d) else []
  | [] => []
  end.
Definition slope_vals (s : st) : list (cty * Z) := pop_vals (lp s) (ev s) 0.

(* pushToLastSink cpp:248-260 *)
Definition ptls_vals (P : sprob) (i : nat) (s : st) : list (cty * Z) :=
  [(I32, zi (lo s) + 1); (I32, zi i + 1); (I64, Dx P (lo s + 1) - Sx P (i + 1))]   (* 250 *)
  ++ slope_vals s.                                                                 (* 251 *)

(* pushToNewSink cpp:262-264 *)
Definition ptns_vals (P : sprob) (i : nat) (s : st) : list (cty * Z) :=
  (I32, zi (lo s) + 1) :: pnk_vals P i (lo s + 1) s.

(* pushOnce cpp:231-246 *)
Definition push_once_vals (P : sprob) (i : nat) (s : st) : list (cty * Z) :=
  let j := lo s in
  (I32, zi (n_snk P) - 1) ::                                                       (* 233 *)
  (if Nat.eqb j (n_snk P - 1) then ptls_vals P i s
   else if lp s =? 0 then ptns_vals P i s
   else
     let '(slope, s1) := get_slope false s in
     [(I32, zi j + 1)] ++ cost_vals P i (j + 1)                                    (* 238 *)
     ++ slope_vals s ++ cost_vals P i j ++ [(I64, slope + cost P i j)]             (* 239 *)
     ++ (if cost P i (j + 1) <=? slope + cost P i j then ptns_vals P i s1 else ptls_vals P i s1)).

(* the loop test of push(i), cpp:225: `lastPosition > D[lastOccupiedSink + 1] - S[i + 1]` *)
Definition loop_test_vals (P : sprob) (i : nat) (s : st) : list (cty * Z) :=
  [(I32, zi (lo s) + 1); (I32, zi i + 1); (I64, Dx P (lo s + 1) - Sx P (i + 1))].

Fixpoint push_loop_vals (P : sprob) (i : nat) (fuel : nat) (s : st) : list (cty * Z) :=
  loop_test_vals P i s ++
  (if Dx P (lo s + 1) - Sx P (i + 1) <? lp s then
     match fuel with O => [] | S f => push_once_vals P i s ++ push_loop_vals P i f (push_once P i s) end
   else []).

(* push cpp:220-229; the states s1..s4 are those of Transp1d.push *)
Definition push_vals (P : sprob) (i : nat) (s : st) : list (cty * Z) :=
  let s1 := {| ev := ev s; lp := lp s; lo := lo s; os := upd_opt P i (n_snk P) (os s); pp := pp s |} in
  let s2 := push_new_source_events P i s1 in
  let s3 := {| ev := ev s2; lp := Z.max (lp s2) (Dx P (os s2) - Sx P i); lo := lo s2; os := os s2; pp := pp s2 |} in
  let s4 := push_new_sink_events P i (os s3) s3 in
  upd_opt_vals P i (n_snk P) (os s)                          (* 221 *)
  ++ pnse_vals P i s1                                        (* 222 *)
  ++ [(I64, Dx P (os s2) - Sx P i)]                          (* 223 *)
  ++ pnk_vals P i (os s3) s3                                 (* 224 *)
  ++ push_loop_vals P i (loop_fuel P s4) s4.                 (* 225-227 *)

Fixpoint push_all_vals (P : sprob) (is_ : list nat) (s : st) : list (cty * Z) :=
  match is_ with
  | [] => []
  | i :: r => (I32, zi i + 1) :: push_vals P i s             (* 213 ++i *)
              ++ match push P i s with None => [] | Some s' => push_all_vals P r s' end
  end.

(* run cpp:201-218, flushPositions cpp:184-191 *)
Definition run_vals (P : sprob) : list (cty * Z) :=
  [(I32, zi (n_src P) + zi (n_snk P))]                       (* 206  nbSources() + nbSinks() *)
  ++ push_all_vals P (seq 0 (n_src P)) init_st
  ++ match push_all P (seq 0 (n_src P)) init_st with
     | None => []
     | Some s =>
       [(I64, zn (sD P) (n_snk P) - Sx P (length (pp s)))]   (* 186  totalDemand() - S[p.size()] *)
       ++ map (fun k => (I32, zi k - 1)) (seq 0 (S (length (pp s))))   (* 187  int i = p.size() - 1; --i *)
     end.

(* computeSolution cpp:309-331 *)
Fixpoint sweep_vals (P : sprob) (p : list Z) (fuel : nat) (i j : nat) : list (cty * Z) :=
  match fuel with
  | O => []
  | S f =>
    if Nat.ltb i (length p) && Nat.ltb j (n_snk P) then
      let bi := Sx P i + zn p i in
      let ei := Sx P (i + 1) + zn p i in
      let b := Z.max bi (Dx P j) in
      let e := Z.min ei (Dx P (j + 1)) in
      [(I32, zi i + 1); (I32, zi j + 1); (I64, bi); (I64, ei); (I64, e - b)]       (* 315-322; 325/327 ++i, ++j *)
      ++ (if ei <? Dx P (j + 1) then sweep_vals P p f (i + 1) j else sweep_vals P p f i (j + 1))
    else []
  end.
Definition solution_vals (P : sprob) (p : list Z) : list (cty * Z) :=
  (I32, zi (length p)) :: sweep_vals P p (length p + n_snk P) O O.                 (* 314 (int)p.size() *)

(* computeAssignment cpp:333-345 *)
Fixpoint scan_vals (Dt : list Z) (cs : nat) (pos : Z) : list (cty * Z) :=
  match Dt with
  | [] => []
  | x :: r => (I32, zi cs + 1) :: (if x <=? pos then scan_vals r (S cs) pos else [])   (* 339 currentSink + 1; 340 ++ *)
  end.
Fixpoint assign_loop_vals (P : sprob) (p : list Z) (is_ : list nat) (cs : nat) (Dt : list Z) : list (cty * Z) :=
  match is_ with
  | [] => []
  | i :: r =>
    let pi := zn p i in let Si := Sx P i in let si := zn (ss P) i in
    let assignPos := pi + Si + Z.quot si 2 in
    [(I64, pi + Si); (I64, Z.quot si 2); (I64, assignPos)]                          (* 338 *)
    ++ scan_vals Dt cs assignPos
    ++ match scan_D Dt cs assignPos with
       | None => []
       | Some (cs', Dt') => assign_loop_vals P p r cs' Dt'
       end
  end.
Definition assignment_vals (P : sprob) (p : list Z) : list (cty * Z) :=
  assign_loop_vals P p (seq 0 (length p)) O (tl (sD P)).

(* ---------------------------------------------------------------- Transportation1d::assign cpp:123-130 *)
(* check() cpp:426-452 computes totalSupply() and totalDemand() once the signs are known to be >= 0 *)
Definition check_vals (pb : prob) : list (cty * Z) := total_vals (pb_s pb) ++ total_vals (pb_d pb).

Definition assign_vals (pb : prob) : list (cty * Z) :=
  check_vals pb ++
  match check pb with
  | Some _ => []
  | None =>
    let so := mk_sorter pb in
    let P := convert so pb in
    sorter_vals pb ++ setup_vals P ++ run_vals P
    ++ match run P with
       | None => []
       | Some p => assignment_vals P p
                   ++ match compute_assignment P p with
                      | None => []
                      | Some a => order_vals a              (* the sink indices stored in vector<int> *)
                      end
       end
  end.

(* the sequence executed by improveXTransport / improveYTransport: balanceDemand(), then assign() *)
Definition balance_assign_vals (pb : prob) : list (cty * Z) :=
  balance_vals pb ++ match balance_demand pb with Ok pb' => assign_vals pb' | Err _ => [] end.

(* ---------------------------------------------------------------- the magnitude domain *)
(* positions within [-2^59, 2^59]; total supply and total demand at most 2^61; fewer than 2^31 - 1 sources + sinks *)
Definition POSB : Z := 576460752303423488.
Definition TOTB : Z := 2305843009213693952.
Definition t1d_dom (pb : prob) : Prop :=
  Forall (fun x => - POSB <= x <= POSB) (pb_u pb) /\ Forall (fun x => - POSB <= x <= POSB) (pb_v pb) /\
  Forall (fun x => 0 <= x) (pb_s pb) /\ Forall (fun x => 0 <= x) (pb_d pb) /\
  total (pb_s pb) <= TOTB /\ total (pb_d pb) <= TOTB /\
  zi (length (pb_u pb)) + zi (length (pb_v pb)) < 2147483647 /\
  length (pb_s pb) = length (pb_u pb) /\ length (pb_d pb) = length (pb_v pb).
