(* C13 -- model of src/place_global/transportation.cpp (TransportationProblem and
   TransportationSuccessiveShortestPath), line by line.  Definitions only; the
   proofs are in SspProofs.v, the statements in Properties_C13.v.

   Conventions
   * indices (sinks, sources) are [nat]; DemandType/CostType values are ideal [Z]
     (machine overflow is C07's subject, not modelled here);
   * matrices are [list (list Z)] indexed [snk][src] like allocations_ / costs_;
   * sinkParent_ (-1 or a sink) is [option nat];
   * std::priority_queue<CostElt> is a list sorted by cost, head = top().
     CostElt::operator< compares costs only, so WHICH of several equal-cost
     elements is on top is libstdc++-specific: this model takes the stable
     choice.  The correspondence is therefore relational (see checks/c13.py);
   * `assert`s are modelled (outcome [Fail (EAssert line)]), top() of an empty
     queue is [Fail (EEmptyTop line)], loops without a syntactic bound run on
     binary fuel ([loopP]) and end in [Fail (EFuel _)] when it runs out. *)
From Coq Require Import List ZArith Bool.
Import ListNotations.
Require Import CV.LpCert.
Local Open Scope Z_scope.

(* ------------------------------------------------------------------ basics *)

Definition getZ (l : list Z) (i : nat) : Z := nth i l 0.
Definition get2 (m : list (list Z)) (j i : nat) : Z := nth i (nth j m []) 0.

Fixpoint upd {A : Type} (l : list A) (i : nat) (v : A) : list A :=
  match l, i with
  | [], _ => []
  | _ :: t, O => v :: t
  | h :: t, S i' => h :: upd t i' v
  end.
Definition upd2 (m : list (list Z)) (j i : nat) (v : Z) : list (list Z) :=
  upd m j (upd (nth j m []) i v).
Definition zsuml (l : list Z) : Z := fold_right Z.add 0 l.

Inductive Err := EFuel (loop : nat) | EAssert (line : nat) | EEmptyTop (line : nat).
Inductive res (A : Type) := Ok (a : A) | Fail (e : Err).
Arguments Ok {A} a. Arguments Fail {A} e.
Definition bind {A B : Type} (r : res A) (f : A -> res B) : res B :=
  match r with Ok a => f a | Fail e => Fail e end.
Notation "'do' x <- r ; k" := (bind r (fun x => k)) (at level 200, x pattern, r at level 100, k at level 200).

Fixpoint foldM {A S : Type} (f : S -> A -> res S) (l : list A) (s : S) : res S :=
  match l with [] => Ok s | a :: t => do s' <- f s a; foldM f t s' end.

(* while-loops: at most [p] iterations of [body]; [Continue s] at the end = fuel exhausted *)
Inductive step (S R : Type) := Continue (s : S) | Done (r : R).
Arguments Continue {S R} s. Arguments Done {S R} r.
Fixpoint loopP {S R : Type} (p : positive) (body : S -> step S R) (s : S) : step S R :=
  match p with
  | xH => body s
  | xO p' => match loopP p' body s with Continue s' => loopP p' body s' | Done r => Done r end
  | xI p' => match body s with
             | Continue s' => match loopP p' body s' with Continue s'' => loopP p' body s'' | Done r => Done r end
             | Done r => Done r
             end
  end.
Definition run_loop {S A : Type} (id : nat) (p : positive) (body : S -> step S (res A)) (s : S) : res A :=
  match loopP p body s with Done r => r | Continue _ => Fail (EFuel id) end.

(* ------------------------------------------------------------------ TransportationProblem *)

Record Pb := mkPb { caps : list Z; dems : list Z; costs : list (list Z) }.
Definition nsnk (pb : Pb) : nat := length (caps pb).      (* nbSinks(),   hpp:35 *)
Definition nsrc (pb : Pb) : nat := length (dems pb).      (* nbSources(), hpp:30 *)
Definition cost (pb : Pb) (snk src : nat) : Z := get2 (costs pb) snk src.   (* hpp:89 *)
Definition total_demand (pb : Pb) : Z := zsuml (dems pb).                   (* cpp:217 *)
Definition total_capacity (pb : Pb) : Z := zsuml (caps pb).                 (* cpp:221 *)
(* movingCost(src, snk1, snk2), cpp:267 *)
Definition pmoving (pb : Pb) (src snk1 snk2 : nat) : Z := cost pb snk2 src - cost pb snk1 src.

(* check(), cpp:176-215 (the allocation-shape tests hold by construction after resetAllocations) *)
Definition check_pb (pb : Pb) : bool :=
  forallb (fun c => 0 <? c) (dems pb) && forallb (fun c => 0 <? c) (caps pb)
  && (length (costs pb) =? nsnk pb)%nat && forallb (fun r => (length r =? nsrc pb)%nat) (costs pb).

(* resetAllocations(), cpp:149 *)
Definition zero_alloc (pb : Pb) : list (list Z) := repeat (repeat 0 (nsrc pb)) (nsnk pb).

Fixpoint mapi_from {A B : Type} (k : nat) (f : nat -> A -> B) (l : list A) : list B :=
  match l with [] => [] | a :: t => f k a :: mapi_from (S k) f t end.

(* increaseCapacity(), cpp:306-320.  `/` on long long is Z.quot. *)
Definition increase_capacity (pb : Pb) : Pb :=
  let missing := total_demand pb - total_capacity pb in
  if missing <=? 0 then pb else
  let n := Z.of_nat (nsnk pb) in
  let added := Z.quot missing n in
  let caps1 := map (fun c => c + added) (caps pb) in             (* 312-314 *)
  let missing2 := missing - added * n in                         (* 315 *)
  let caps2 := mapi_from 0 (fun i c => if Z.of_nat i <? missing2 then c + 1 else c) caps1 in   (* 317-319 *)
  mkPb caps2 (dems pb) (costs pb).

(* toAssignment(), cpp:391-405 *)
Definition best_sink_of (al : list (list Z)) (n : nat) (src : nat) : nat :=
  fst (fold_left (fun (st : nat * Z) sink =>
                    if get2 al sink src >? snd st then (sink, get2 al sink src) else st)
                 (seq 0 n) (0%nat, -1)).
Definition to_assignment (pb : Pb) (al : list (list Z)) : list nat :=
  map (best_sink_of al (nsnk pb)) (seq 0 (nsrc pb)).

(* ------------------------------------------------------------------ priority queues *)

Definition Queue := list (Z * nat).        (* CostElt(cost, elt) *)
Fixpoint q_push (e : Z * nat) (q : Queue) : Queue :=
  match q with
  | [] => [e]
  | h :: t => if fst e <? fst h then e :: q else h :: q_push e t
  end.
Definition q_of_list (l : list (Z * nat)) : Queue := fold_left (fun q e => q_push e q) l [].
Definition getq (qs : list (list Queue)) (a b : nat) : Queue := nth b (nth a qs []) [].

(* ------------------------------------------------------------------ solver state *)

Definition INT_MAX : Z := 2147483647.      (* std::numeric_limits<CostType>::max(), CostType = int *)

Record St := mkSt {
  alloc : list (list Z);                   (* pb_.allocations_ *)
  rem : list Z;                            (* remainingCapa_ *)
  scost : list Z;                          (* sendingCost_ *)
  parent : list (option nat);              (* sinkParent_ *)
  queues : list (list Queue) }.            (* queues_ *)

(* sentSource(snk1, snk2), cpp:45-48 *)
Definition sent_source (line : nat) (qs : list (list Queue)) (snk1 snk2 : nat) : res nat :=
  match getq qs snk1 snk2 with [] => Fail (EEmptyTop line) | e :: _ => Ok (snd e) end.
(* movingCost(snk1, snk2), cpp:53-56 *)
Definition moving_cost (line : nat) (qs : list (list Queue)) (snk1 snk2 : nat) : res Z :=
  if (snk1 =? snk2)%nat then Ok 0 else
  match getq qs snk1 snk2 with [] => Fail (EEmptyTop line) | e :: _ => Ok (fst e) end.

(* constructor, cpp:416-423 *)
Definition init_st (pb : Pb) : St :=
  mkSt (zero_alloc pb) (caps pb) (repeat 0 (nsnk pb)) (repeat None (nsnk pb)) (repeat [] (nsnk pb)).

(* sortedSourcesByDemand(), cpp:433-447: std::sort of the pairs (-demand, index) *)
Definition key_le (a b : Z * nat) : bool :=
  (fst a <? fst b) || ((fst a =? fst b) && (snd a <=? snd b)%nat).
Fixpoint ins_key (a : Z * nat) (l : list (Z * nat)) : list (Z * nat) :=
  match l with [] => [a] | h :: t => if key_le a h then a :: l else h :: ins_key a t end.
Definition sorted_sources (pb : Pb) : list nat :=
  map snd (fold_right ins_key [] (mapi_from 0 (fun i d => (- d, i)) (dems pb))).

(* bestSink(src), cpp:449-460 *)
Definition best_sink (pb : Pb) (sc : list Z) (src : nat) : nat :=
  fst (fold_left (fun (st : nat * Z) i =>
                    let c := getZ sc i + cost pb i src in
                    if c <? snd st then (i, c) else st)
                 (seq 0 (nsnk pb)) (0%nat, INT_MAX)).

(* ---- updateTree(), cpp:472-511 *)
Record TreeSt := mkT { t_sc : list Z; t_par : list (option nat); t_tv : list bool }.

(* 484-494: first index of minimal sendingCost_ among toVisit *)
Definition select_best (n : nat) (t : TreeSt) : option nat :=
  fst (fold_left (fun (st : option nat * Z) i =>
                    if nth i (t_tv t) false && (getZ (t_sc t) i <? snd st) then (Some i, getZ (t_sc t) i) else st)
                 (seq 0 n) (None, INT_MAX)).
(* 498-508, one i *)
Definition relax (qs : list (list Queue)) (rm : list Z) (b : nat) (t : TreeSt) (i : nat) : res TreeSt :=
  if getZ rm i >? 0 then Ok t else
  do mc <- moving_cost 502 qs i b;
  let newCost := mc + getZ (t_sc t) b in
  if newCost <? getZ (t_sc t) i
  then Ok (mkT (upd (t_sc t) i newCost) (upd (t_par t) i (Some b)) (upd (t_tv t) i true))
  else Ok t.
Definition tree_body (qs : list (list Queue)) (rm : list Z) (t : TreeSt) : step TreeSt (res TreeSt) :=
  let n := length rm in
  match select_best n t with
  | None => Done (Ok t)                                             (* 495-497 *)
  | Some b =>
    match foldM (relax qs rm b) (seq 0 n) t with
    | Fail e => Done (Fail e)
    | Ok t' => Continue (mkT (t_sc t') (t_par t') (upd (t_tv t') b false))   (* 509 *)
    end
  end.
(* the C++ loop (cpp:483) has no syntactic bound.  This budget, n * (2 * INT_MAX + 1) + 1 rounds (binary fuel, so
   it costs nothing to carry), is PROVED sufficient on C13's domain (SspTree.v: tree_loop_terminates; SspTotal.v:
   sspF_total; Properties_C13.v: c13_ssp_returns).  The cubic budget n^3 + 2n + 1 used here before is refuted by
   SspFuelCex.v (a 12-sink problem needs 2049 rounds; the loop is Dijkstra with re-insertion over negative costs). *)
Definition tree_fuel (n : nat) : positive := Z.to_pos (Z.of_nat n * (2 * INT_MAX + 1) + 1).
Definition update_tree (s : St) : res St :=
  let rm := rem s in
  let t0 := mkT (map (fun r => if r >? 0 then 0 else INT_MAX) rm)         (* 474-479 *)
                (map (fun _ => None) rm)                                  (* 480 *)
                (map (fun r => r >? 0) rm) in                             (* 473, 478 *)
  do t <- run_loop 483 (tree_fuel (length rm)) (tree_body (queues s) rm) t0;
  Ok (mkSt (alloc s) (rem s) (t_sc t) (t_par t) (queues s)).

(* ---- initQueues(sink), cpp:559-580 *)
Definition init_queues (pb : Pb) (al : list (list Z)) (qs : list (list Queue)) (sink : nat) : list (list Queue) :=
  let sources := filter (fun src => negb (get2 al sink src =? 0)) (seq 0 (nsrc pb)) in    (* 563-569 *)
  upd qs sink
      (map (fun dest => if (sink =? dest)%nat then []
                        else q_of_list (map (fun src => (pmoving pb src sink dest, src)) sources))
           (seq 0 (nsnk pb))).

(* ---- updateSinkQueues(sink, src), cpp:582-601 *)
Fixpoint drop_stale (arow : list Z) (q : Queue) : Queue :=          (* 588-599 *)
  match q with
  | [] => []
  | e :: t => if getZ arow (snd e) =? 0 then drop_stale arow t else q
  end.
Definition update_sink_queues (al : list (list Z)) (qs : list (list Queue)) (sink src : nat) : list (list Queue) :=
  if negb (get2 al sink src =? 0) then qs else
  upd qs sink (mapi_from 0 (fun dst q => if (dst =? sink)%nat then q else drop_stale (nth sink al []) q) (nth sink qs [])).

(* ---- updateDestQueues(sink, src), cpp:603-613 *)
Definition update_dest_queues (pb : Pb) (al : list (list Z)) (qs : list (list Queue)) (sink src : nat)
  : res (list (list Queue)) :=
  if negb (get2 al sink src =? 0) then Ok qs else
  let row := nth sink qs [] in
  if existsb (fun dq => negb (fst dq =? sink)%nat && match snd dq with [] => true | _ => false end)
             (combine (seq 0 (length row)) row)
  then Fail (EAssert 609)
  else Ok (upd qs sink (mapi_from 0 (fun dst q => if (dst =? sink)%nat then q
                                                  else q_push (pmoving pb src sink dst, src) q) row)).

(* ---- sendSource(src, sink, quantity), cpp:513-557 *)
Definition chain_fuel (n : nat) : positive := Pos.of_succ_nat n.

(* 517-524 *)
Definition walk1_body (s : St) (w : nat * Z) : step (nat * Z) (res (nat * Z)) :=
  let (snk1, maxSent) := w in
  match nth snk1 (parent s) None with
  | None => Done (Ok w)
  | Some snk2 =>
    match sent_source 521 (queues s) snk1 snk2 with
    | Fail e => Done (Fail e)
    | Ok top =>
      let m := Z.min maxSent (get2 (alloc s) snk1 top) in
      if m >? 0 then Continue (snk2, m) else Done (Fail (EAssert 522))
    end
  end.

(* 532-544; state = allocations, queues, snk1, sentSrc, needUpdate *)
Record W2 := mkW2 { w_al : list (list Z); w_qs : list (list Queue); w_snk : nat; w_src : nat; w_upd : bool }.
Definition walk2_step (pb : Pb) (rm : list Z) (maxSent : Z) (w : W2) (snk2 : nat) : res W2 :=
  let snk1 := w_snk w in
  if negb (getZ rm snk1 =? 0) then Fail (EAssert 533) else
  do oldCost <- moving_cost 535 (w_qs w) snk1 snk2;
  do qs1 <- update_dest_queues pb (w_al w) (w_qs w) snk1 (w_src w);                      (* 536 *)
  let al1 := upd2 (w_al w) snk1 (w_src w) (get2 (w_al w) snk1 (w_src w) + maxSent) in    (* 537 *)
  do sentSrc <- sent_source 538 qs1 snk1 snk2;
  let al2 := upd2 al1 snk1 sentSrc (get2 al1 snk1 sentSrc - maxSent) in                  (* 539 *)
  let qs2 := update_sink_queues al2 qs1 snk1 sentSrc in                                  (* 540 *)
  do newCost <- moving_cost 541 qs2 snk1 snk2;
  Ok (mkW2 al2 qs2 snk2 sentSrc (w_upd w || (newCost >? oldCost))).                      (* 542-543 *)
Definition walk2_body (pb : Pb) (par : list (option nat)) (rm : list Z) (maxSent : Z) (w : W2)
  : step W2 (res W2) :=
  match nth (w_snk w) par None with
  | None => Done (Ok w)
  | Some snk2 => match walk2_step pb rm maxSent w snk2 with Ok w' => Continue w' | Fail e => Done (Fail e) end
  end.

Definition send_source3 (pb : Pb) (s : St) (src sink : nat) (quantity : Z) : res (St * Z) :=
  if negb (quantity >? 0) then Fail (EAssert 516) else
  let n := nsnk pb in
  do w1 <- run_loop 519 (chain_fuel n) (walk1_body s) (sink, quantity);
  let (root, m1) := w1 in
  let maxSent := Z.min m1 (getZ (rem s) root) in                                          (* 525 *)
  if negb (maxSent >? 0) then Fail (EAssert 526) else
  do w <- run_loop 532 (chain_fuel n) (walk2_body pb (parent s) (rem s) maxSent)
                   (mkW2 (alloc s) (queues s) sink src false);
  let snk1 := w_snk w in
  let al := upd2 (w_al w) snk1 (w_src w) (get2 (w_al w) snk1 (w_src w) + maxSent) in      (* 545 *)
  let rm := upd (rem s) snk1 (getZ (rem s) snk1 - maxSent) in                             (* 547 *)
  let full := getZ rm snk1 =? 0 in
  let qs := if full then init_queues pb al (w_qs w) snk1 else w_qs w in                   (* 548-551 *)
  let s1 := mkSt al rm (scost s) (parent s) qs in
  do s2 <- (if w_upd w || full then update_tree s1 else Ok s1);                           (* 552-554 *)
  Ok (s2, maxSent).

(* ---- sendSource(src), cpp:462-470.  Every iteration sends >= 1, so demand+1 iterations is a
   bound that never binds (proved: send_loop fuel lemma is not needed for partial correctness). *)
Definition send_body (pb : Pb) (src : nat) (sr : St * Z) : step (St * Z) (res St) :=
  let (s, remaining) := sr in
  if negb (remaining >? 0) then Done (Ok s) else
  let sink := best_sink pb (scost s) src in
  match send_source3 pb s src sink remaining with
  | Fail e => Done (Fail e)
  | Ok (s', sent) => if negb (sent >? 0) then Done (Fail (EAssert 467)) else Continue (s', remaining - sent)
  end.
Definition send_source (pb : Pb) (s : St) (src : nat) : res St :=
  let d := getZ (dems pb) src in
  run_loop 464 (Z.to_pos (d + 1)) (send_body pb src) (s, d).

(* ---- run(), cpp:425-431 and solve(), cpp:407-414 *)
Definition ssp_run (pb : Pb) : res St := foldM (send_source pb) (sorted_sources pb) (init_st pb).
Definition ssp (pb : Pb) : res (list (list Z)) := do s <- ssp_run pb; Ok (alloc s).

(* ------------------------------------------------------------------ specification side, executable *)

Definition srcs_of (pb : Pb) : list nat := seq 0 (nsrc pb).
Definition snks_of (pb : Pb) : list nat := seq 0 (nsnk pb).
Definition dem_f (pb : Pb) (i : nat) : Z := getZ (dems pb) i.
Definition cap_f (pb : Pb) (j : nat) : Z := getZ (caps pb) j.
Definition plan_f (x : list (list Z)) (j i : nat) : Z := get2 x j i.

(* the Prop-level notions are LpCert's, instantiated at the index sets 0..n-1 *)
Definition pb_feasible (pb : Pb) (x : nat -> nat -> Z) : Prop :=
  feasible (srcs_of pb) (snks_of pb) (dem_f pb) (cap_f pb) x.
Definition pb_cost (pb : Pb) (x : nat -> nat -> Z) : Z :=
  LpCert.cost (srcs_of pb) (snks_of pb) (cost pb) x.

Definition feasibleb (pb : Pb) (x : list (list Z)) : bool :=
  forallb (fun i => sent (snks_of pb) (plan_f x) i =? dem_f pb i) (srcs_of pb)
  && forallb (fun j => load (srcs_of pb) (plan_f x) j <=? cap_f pb j) (snks_of pb)
  && forallb (fun i => forallb (fun j => 0 <=? plan_f x j i) (snks_of pb)) (srcs_of pb).

Definition cert_okb (pb : Pb) (x : list (list Z)) (u v : list Z) : bool :=
  forallb (fun j => 0 <=? getZ v j) (snks_of pb)
  && forallb (fun i => forallb (fun j => getZ u i - getZ v j <=? cost pb j i) (snks_of pb)) (srcs_of pb)
  && forallb (fun i => forallb (fun j => negb (0 <? plan_f x j i) || (getZ u i - getZ v j =? cost pb j i))
                               (snks_of pb)) (srcs_of pb)
  && forallb (fun j => negb (0 <? getZ v j) || (load (srcs_of pb) (plan_f x) j =? cap_f pb j)) (snks_of pb).

(* untrusted: Bellman-Ford over the sinks of the residual graph of the plan x.
   edge j -> k of weight  min { c[k][i] - c[j][i] : x[j][i] > 0 };  v_j = distance from j to the
   sinks with spare capacity (all sinks when the plan saturates every sink, then shifted to be >= 0);
   u_i = min_k (c[k][i] + v_k). *)
Definition edge_w (pb : Pb) (x : list (list Z)) (big : Z) (j k : nat) : Z :=
  fold_left (fun m (t : Z * (Z * Z)) => if 0 <? fst t then Z.min m (snd (snd t) - fst (snd t)) else m)
            (combine (nth j x []) (combine (nth j (costs pb) []) (nth k (costs pb) []))) big.
Definition bf_round (ws : list (list Z)) (big : Z) (n : nat) (v : list Z) : list Z :=
  fold_left (fun v j =>
               fold_left (fun v k =>
                            let w := get2 ws j k in
                            if (w <? big) && (w + getZ v k <? getZ v j) then upd v j (w + getZ v k) else v)
                         (seq 0 n) v)
            (seq 0 n) v.
Fixpoint iter {A : Type} (n : nat) (f : A -> A) (a : A) : A := match n with O => a | S n' => iter n' f (f a) end.
Definition potentials (pb : Pb) (x : list (list Z)) : list Z * list Z :=
  let big := 1 + 2 * zsuml (map (fun r => zsuml (map Z.abs r)) (costs pb)) in
  let free := map (fun j => load (srcs_of pb) (plan_f x) j <? cap_f pb j) (snks_of pb) in
  let anyfree := existsb (fun b => b) free in
  let v0 := map (fun b : bool => if b || negb anyfree then 0 else big) free in
  let ws := map (fun j => map (edge_w pb x big j) (snks_of pb)) (snks_of pb) in
  let v1 := iter (S (nsnk pb)) (bf_round ws big (nsnk pb)) v0 in
  let lo := fold_left Z.min v1 0 in
  let v := if anyfree then v1 else map (fun z => z - lo) v1 in
  let u := map (fun i => fold_left (fun m k => Z.min m (cost pb k i + getZ v k)) (snks_of pb)
                                   (cost pb 0 i + getZ v 0)) (srcs_of pb) in
  (u, v).

(* proved checker applied to an arbitrary plan (used on the C++ result) *)
Definition check_plan (pb : Pb) (x : list (list Z)) : bool :=
  let (u, v) := potentials pb x in feasibleb pb x && cert_okb pb x u v.

Definition plan_cost (pb : Pb) (x : list (list Z)) : Z := pb_cost pb (plan_f x).

(* the checked solver *)
Definition solve_checked (pb : Pb) : option (list (list Z)) :=
  match ssp pb with
  | Ok x => if check_plan pb x then Some x else None
  | Fail _ => None
  end.

(* argmax statement of toAssignment, executable form (used on the C++ assignment): the assigned sink
   receives at least as much of the source as any other sink (C13 does not say which one among equals) *)
Definition argmaxb (pb : Pb) (x : list (list Z)) (a : list nat) : bool :=
  (length a =? nsrc pb)%nat
  && forallb (fun i => let r := nth i a 0%nat in
                       (r <? nsnk pb)%nat
                       && forallb (fun k => get2 x k i <=? get2 x r i) (snks_of pb))
             (srcs_of pb).

(* ------------------------------------------------------------------ small finite domains (bounded theorem) *)

Fixpoint lists_over {A : Type} (vals : list A) (n : nat) : list (list A) :=
  match n with
  | O => [[]]
  | S n' => flat_map (fun l => map (fun v => v :: l) vals) (lists_over vals n')
  end.
Definition zrange (a b : Z) : list Z := map (fun k => a + Z.of_nat k) (seq 0 (Z.to_nat (b - a + 1))).
(* [solved_ok] on all problems with exactly ns sinks and nr sources, capacities 1..maxc, demands 1..maxd,
   costs 0..maxk, total demand <= total capacity (nested so that no huge list is materialised) *)
Definition solved_ok (pb : Pb) : bool := match solve_checked pb with Some _ => true | None => false end.
Definition all_small (ns nr : nat) (maxc maxd maxk : Z) : bool :=
  let css := lists_over (lists_over (zrange 0 maxk) nr) ns in
  forallb (fun cp =>
    forallb (fun dm =>
      if zsuml dm <=? zsuml cp then forallb (fun cs => solved_ok (mkPb cp dm cs)) css else true)
      (lists_over (zrange 1 maxd) nr))
    (lists_over (zrange 1 maxc) ns).
