(* C10, static part: the name/guard table used by the rule of CircuitAccess.v is exactly the setter type of Api.v *)
From Coq Require Import List String Bool ZArith.
Import ListNotations.
Require Import CV.Orient CV.FreeSpace CV.Api CV.CircuitAccess.
Local Open Scope string_scope.

Definition setter_name (s : setter) : string :=
  match s with
  | SAddNet _ _ _ _ => "addNet" | SSetNets _ _ _ _ _ => "setNets" | SSetRows _ => "setRows"
  | SSetupRows _ _ _ _ => "setupRows" | SSetCellIsFixed _ => "setCellIsFixed"
  | SSetCellIsObstruction _ => "setCellIsObstruction" | SSetCellRowPolarity _ => "setCellRowPolarity"
  | SSetCellX _ => "setCellX" | SSetCellY _ => "setCellY" | SSetCellOrientation _ => "setCellOrientation"
  | SSetCellWidth _ => "setCellWidth" | SSetCellHeight _ => "setCellHeight" | SSetNetWeights _ => "setNetWeights"
  | SSetSolution _ => "setSolution"
  end.

Lemma setter_table_matches_model : forall s, In (setter_name s, guarded s) modelled_setters.
Proof. intros s. destruct s; cbn [setter_name guarded modelled_setters In]; tauto. Qed.

Definition some_rect : rect := {| minX := 0; maxX := 0; minY := 0; maxY := 0 |}.
Lemma setter_table_complete : forall p, In p modelled_setters -> exists s, setter_name s = fst p /\ guarded s = snd p.
Proof.
  intros p H. unfold modelled_setters in H. cbn [In] in H.
  repeat (destruct H as [H | H];
          [subst p; first
             [ exists (SAddNet [] [] [] 0%Z); split; reflexivity | exists (SSetNets [] [] [] [] []); split; reflexivity
             | exists (SSetRows []); split; reflexivity | exists (SSetupRows some_rect 1%Z true true); split; reflexivity
             | exists (SSetCellIsFixed []); split; reflexivity | exists (SSetCellIsObstruction []); split; reflexivity
             | exists (SSetCellRowPolarity []); split; reflexivity | exists (SSetCellX []); split; reflexivity
             | exists (SSetCellY []); split; reflexivity | exists (SSetCellOrientation []); split; reflexivity
             | exists (SSetCellWidth []); split; reflexivity | exists (SSetCellHeight []); split; reflexivity
             | exists (SSetNetWeights []); split; reflexivity | exists (SSetSolution []); split; reflexivity ]|]).
  contradiction.
Qed.
