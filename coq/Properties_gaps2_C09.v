(* C09 part of the review-gap statements (umbrella: Properties_gaps2.v); every proof is `exact <lemma>`.
   To be merged by the lead into Properties_C09.v.  Companions of c09_incremental_exact and
   c09_subset_folding_exact for the `int` code: ReviewGaps2C09Model.v is the same code with every int /
   long long result CHECKED (None = signed overflow, undefined behaviour in the C++); its operation typing is
   that of C07's HpwlMachine.v.  Labels: [F] all inputs of the stated range. *)
From Coq Require Import List ZArith Lia Bool.
Import ListNotations.
Require Import CV.Orient CV.Hpwl CV.HpwlProofs CV.HpwlFoldProofs CV.RowLegMachine CV.HpwlMachine
               CV.ReviewGaps2C09Model CV.ReviewGaps2C09.
Local Open Scope Z_scope.

(* [F] generic link listing -> machine result: if every value of C07's listing fits its C++ type, the checked
   model answers, with the state of the Z model (build, and any update history) *)
Theorem c09_build_machine_of_listing : forall pos nets, Forall fits (build_vals pos nets) ->
  incr_build_m pos nets = Some (incr_build pos nets).
Proof. exact incr_build_m_spec. Qed.
Theorem c09_updates_machine_of_listing : forall ups s, Forall fits (updates_vals s ups) ->
  apply_updates_m s ups = Some (apply_updates s ups).
Proof. exact apply_updates_m_spec. Qed.

(* [F] companion of c09_incremental_exact: cell positions (initial and every update) within [-2^23, 2^23],
   pin offsets within [-2^24, 2^24], no empty net, fewer than 2^31 nets (C07's ipos_dom, inets_dom): the int
   code overflows nowhere, reaches the states of the Z model, and after ANY history the maintained bounds and
   value are those of a model built from scratch (by the int code as well) at the current positions *)
Theorem c09_incremental_exact_machine : forall pos nets ups,
  ipos_dom pos -> inets_dom nets -> Forall (fun u => -8388608 <= snd u <= 8388608) ups ->
  exists s0 s', incr_build_m pos nets = Some s0 /\ apply_updates_m s0 ups = Some s' /\
    s0 = incr_build pos nets /\ s' = apply_updates s0 ups /\
    iminmax s' = map (net_minmax (ipos s')) nets /\
    ivalue s' = ivalue (incr_build (ipos s') nets) /\
    incr_build_m (ipos s') nets = Some (incr_build (ipos s') nets).
Proof. exact incremental_exact_machine. Qed.

(* [F] the side condition is needed: positions "within int" are not enough (extent 4*10^9 overflows int) *)
Example c09_incremental_overflow_witness :
  let pos := [-2000000000; 2000000000] in let nets := [[(0%nat, 0); (1%nat, 0)]] in
  Forall (fun v => -2147483648 <= v < 2147483648) pos /\
  incr_build_m pos nets = None /\ ivalue (incr_build pos nets) = 4000000000.
Proof. exact incremental_overflow_witness. Qed.

(* [F] companion of c09_subset_folding_exact: every pin position x + offset of the net within int.  Then the
   folding computes `int pos = circuit.x(cell) + offset` without overflow, builds the net of the Z model, and
   computeNetMinMaxPos on the folded net (int, local frame) returns the min and max of the original net *)
Theorem c09_subset_folding_exact_machine : forall gpos subset net,
  Forall (fun p => fits (I32, ipin_pos gpos p)) net ->
  topo_net_m gpos subset net = Some (topo_net gpos subset net) /\
  net_minmax_m (local_vec gpos subset) (topo_net gpos subset net) = Some (net_minmax gpos net).
Proof. exact subset_folding_exact_machine. Qed.

(* [F] from C07's hpwl_dom (cells within [-2^22, 2^22]^2, oriented pin offsets within [-2^23, 2^23]): every net
   of the circuit, every subset, both directions *)
Theorem c09_circuit_folding_exact_machine : forall dirx cells nets subset net,
  hpwl_dom cells nets -> In net nets ->
  let gpos := circuit_gpos dirx cells in let inet := circuit_inet dirx cells net in
  topo_net_m gpos subset inet = Some (topo_net gpos subset inet) /\
  net_minmax_m (local_vec gpos subset) (topo_net gpos subset inet) = Some (net_minmax gpos inet).
Proof. exact circuit_folding_exact_machine. Qed.

Example c09_folding_machine_nonvacuous :
  topo_net_m [0; 10; -5] [1%nat] [(0%nat, 1); (1%nat, 2); (2%nat, 0)] = Some [(0%nat, 2); (1%nat, -5); (1%nat, 1)] /\
  net_minmax_m (local_vec [0; 10; -5] [1%nat]) [(0%nat, 2); (1%nat, -5); (1%nat, 1)] = Some (-5, 12) /\
  topo_net_m [2147483647; 0] [1%nat] [(0%nat, 1); (1%nat, 0)] = None.
Proof. exact folding_machine_nonvacuous. Qed.

Print Assumptions c09_build_machine_of_listing.
Print Assumptions c09_updates_machine_of_listing.
Print Assumptions c09_incremental_exact_machine.
Print Assumptions c09_subset_folding_exact_machine.
Print Assumptions c09_circuit_folding_exact_machine.
