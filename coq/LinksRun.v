(* C05/C02 link -- definitions only (proofs: LinksRunProofs.v).
   What it means for one recorded lemon answer to have been ACCEPTED by DetailedRun.shift_on_cells: there are a state s and a
   cell selection sel (the model's, at the time of the call) such that the record names exactly these cells, its arcs are the
   multiset of arcs of the MODEL's network ShiftLp.shift_net (flows f in the order of the model's arcs), and the proved
   certificate checker ShiftLp.shift_cert_ok accepts lemon's potentials and flows on that network. *)
From Coq Require Import List ZArith Bool.
Import ListNotations.
Require Import CV.Optimiser CV.ShiftLp CV.DetailedInit CV.DetailedValue CV.DetailedRun.

Definition answer_accepted_at (s : pstate) (sel : list nat) (a : shift_answer) : Prop :=
  list_nat_eqb sel (sa_cells a) = true /\
  exists f, match_flows (n_arcs (shift_net (ps_d s) (ox (ps_o s)) sel)) (sa_flows a) = Some f /\
            shift_cert_ok (shift_net (ps_d s) (ox (ps_o s)) sel) (sa_pi a) f = true.

Definition answer_accepted (a : shift_answer) : Prop := exists s sel, answer_accepted_at s sel a.
