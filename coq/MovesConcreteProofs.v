(* The concrete pointer-array model of DetailedPlacement (MovesConcrete.v) refines the abstract
   list model (Moves.v): abstraction function, well-formedness, simulation of unplace / place /
   insert / swap, equality of the guards, legality over all histories of concrete operations. *)
From Coq Require Import List ZArith Lia Bool Arith.
Import ListNotations.
Require Import CV.Orient CV.Moves CV.MovesProofs CV.MovesConcrete.
Local Open Scope Z_scope.

(* ====================================================================== *)
(* 1. arrays                                                              *)
(* ====================================================================== *)
Lemma length_upd {A} (l : list A) i a : length (upd l i a) = length l.
Proof. revert i; induction l as [|x t IH]; intros [|i]; cbn [upd length]; try reflexivity. rewrite IH. reflexivity. Qed.

Lemma upd_same {A} (l : list A) i a : (i < length l)%nat -> nth_error (upd l i a) i = Some a.
Proof.
  revert i; induction l as [|x t IH]; intros [|i]; cbn [upd length nth_error]; try lia; try reflexivity.
  intros H. apply IH. lia.
Qed.

Lemma upd_other {A} (l : list A) i j a : i <> j -> nth_error (upd l i a) j = nth_error l j.
Proof.
  revert i j; induction l as [|x t IH]; intros [|i] [|j] H; cbn [upd nth_error]; try reflexivity; try congruence.
  apply IH. congruence.
Qed.

Lemma nth_error_lt {A} (l : list A) i a : nth_error l i = Some a -> (i < length l)%nat.
Proof. intros H. apply nth_error_Some. congruence. Qed.

Lemma getZ_nat {A} (l : list A) c : getZ l (Z.of_nat c) = nth_error l c.
Proof. unfold getZ. destruct (Z.ltb_spec (Z.of_nat c) 0); [lia|]. rewrite Nat2Z.id. reflexivity. Qed.

Lemma setZ_nat {A} (l : list A) c a :
  setZ l (Z.of_nat c) a = if (c <? length l)%nat then Some (upd l c a) else None.
Proof. unfold setZ. destruct (Z.ltb_spec (Z.of_nat c) 0); [lia|]. rewrite Nat2Z.id. reflexivity. Qed.

Lemma setZ_nat_some {A} (l : list A) c a : (c < length l)%nat -> setZ l (Z.of_nat c) a = Some (upd l c a).
Proof. intros H. rewrite setZ_nat. apply Nat.ltb_lt in H. rewrite H. reflexivity. Qed.

Lemma getZ_neg {A} (l : list A) z : z < 0 -> getZ l z = None.
Proof. intros H. unfold getZ. destruct (Z.ltb_spec z 0); [reflexivity|lia]. Qed.

Lemma setZ_neg {A} (l : list A) z a : z < 0 -> setZ l z a = None.
Proof. intros H. unfold setZ. destruct (Z.ltb_spec z 0); [reflexivity|lia]. Qed.

Lemma enc_eqb_m1 o : (enc o =? -1) = match o with None => true | Some _ => false end.
Proof. destruct o as [n|]; cbn [enc]; [|reflexivity]. apply Z.eqb_neq. lia. Qed.

Lemma enc_inj a b : enc a = enc b -> a = b.
Proof. destruct a, b; cbn [enc]; intros H; try lia; try reflexivity. f_equal. lia. Qed.

Lemma enc_some n : enc (Some n) = Z.of_nat n. Proof. reflexivity. Qed.

(* optional update: used for "if pred == -1 ... else cellNext_[pred] = ..." *)
Definition updo {A} (l : list A) (o : option nat) (a : A) : list A :=
  match o with Some i => upd l i a | None => l end.

Lemma length_updo {A} (l : list A) o a : length (updo l o a) = length l.
Proof. destruct o; cbn [updo]; [apply length_upd|reflexivity]. Qed.

Lemma updo_other {A} (l : list A) o j a : o <> Some j -> nth_error (updo l o a) j = nth_error l j.
Proof. destruct o as [i|]; cbn [updo]; [|reflexivity]. intros H. apply upd_other. congruence. Qed.

(* ====================================================================== *)
(* 2. the representation invariant                                        *)
(* ====================================================================== *)
Definition hd_or (l : list nat) (q : option nat) : option nat := match l with [] => q | d :: _ => Some d end.
Definition last_or (p : option nat) (l : list nat) : option nat := fold_left (fun _ c => Some c) l p.

Lemma last_or_app p a b : last_or p (a ++ b) = last_or (last_or p a) b.
Proof. unfold last_or. apply fold_left_app. Qed.
Lemma hd_or_app a b q : hd_or (a ++ b) q = hd_or a (hd_or b q).
Proof. destruct a; reflexivity. Qed.
Lemma last_or_snoc p a z : last_or p (a ++ [z]) = Some z.
Proof. rewrite last_or_app. reflexivity. Qed.
Lemma last_or_cases p l : (l = [] /\ last_or p l = p) \/ exists a z, l = a ++ [z] /\ last_or p l = Some z.
Proof.
  induction l as [|x t _] using rev_ind; [left; split; reflexivity|right].
  exists t, x. split; [reflexivity|apply last_or_snoc].
Qed.
Lemma last_or_in p l z : last_or p l = Some z -> In z l \/ (l = [] /\ p = Some z).
Proof.
  destruct (last_or_cases p l) as [[-> E]|(a & y & -> & E)]; rewrite E; intros H.
  - right. split; [reflexivity|exact H].
  - left. injection H as <-. apply in_or_app. right. left. reflexivity.
Qed.

(* cellPred_ along a list: the first has predecessor p, every other one the cell before it *)
Fixpoint pred_chain (P : list Z) (p : option nat) (l : list nat) : Prop :=
  match l with [] => True | c :: r => nth_error P c = Some (enc p) /\ pred_chain P (Some c) r end.
(* cellNext_ along a list: every cell points to the one after it, the last to q *)
Fixpoint next_chain (N : list Z) (l : list nat) (q : option nat) : Prop :=
  match l with [] => True | c :: r => nth_error N c = Some (enc (hd_or r q)) /\ next_chain N r q end.

Definition row_rep (cs : cstate) (i : nat) (l : list nat) : Prop :=
  Forall (fun c => nth_error (c_row cs) c = Some (Z.of_nat i)) l /\
  pred_chain (c_pred cs) None l /\
  next_chain (c_next cs) l None /\
  nth_error (c_first cs) i = Some (enc (hd_or l None)) /\
  nth_error (c_last cs) i = Some (enc (last_or None l)).

Definition Sizes (cs : cstate) : Prop :=
  length (c_pred cs) = nb_cells cs /\ length (c_next cs) = nb_cells cs /\ length (c_row cs) = nb_cells cs /\
  length (c_x cs) = nb_cells cs /\ length (c_y cs) = nb_cells cs /\ length (c_orient cs) = nb_cells cs /\
  length (c_pol cs) = nb_cells cs /\ length (c_first cs) = nb_rows cs /\ length (c_last cs) = nb_rows cs.

(* ls: for every row the list of its cells, in order *)
Definition Rep (cs : cstate) (ls : list (list nat)) : Prop :=
  length ls = nb_rows cs /\
  (forall i l, nth_error ls i = Some l -> row_rep cs i l) /\
  (forall c r, nth_error (c_row cs) c = Some r ->
     (r = -1 /\ nth_error (c_pred cs) c = Some (-1) /\ nth_error (c_next cs) c = Some (-1)) \/
     (exists i l, r = Z.of_nat i /\ nth_error ls i = Some l /\ In c l)).

Definition WF (cs : cstate) : Prop := Sizes cs /\ exists ls, Rep cs ls.

(* ---------- chains: app, frame ---------- *)
Lemma pred_chain_app P p a b : pred_chain P p (a ++ b) <-> pred_chain P p a /\ pred_chain P (last_or p a) b.
Proof.
  revert p. induction a as [|c a IH]; intros p; cbn [app pred_chain].
  - unfold last_or; cbn. tauto.
  - rewrite IH. unfold last_or; cbn [fold_left]. tauto.
Qed.

Lemma next_chain_app N a b q : next_chain N (a ++ b) q <-> next_chain N a (hd_or b q) /\ next_chain N b q.
Proof.
  induction a as [|c a IH]; cbn [app next_chain]; [tauto|].
  rewrite IH, hd_or_app. tauto.
Qed.

Lemma pred_chain_frame P P' p l :
  (forall x, In x l -> nth_error P' x = nth_error P x) -> pred_chain P p l -> pred_chain P' p l.
Proof.
  revert p. induction l as [|c r IH]; intros p H; cbn [pred_chain]; [tauto|].
  intros [H1 H2]. split; [rewrite H by (left; reflexivity); exact H1|].
  apply IH; [|exact H2]. intros x Hx. apply H. right. exact Hx.
Qed.

Lemma next_chain_frame N N' l q :
  (forall x, In x l -> nth_error N' x = nth_error N x) -> next_chain N l q -> next_chain N' l q.
Proof.
  induction l as [|c r IH]; intros H; cbn [next_chain]; [tauto|].
  intros [H1 H2]. split; [rewrite H by (left; reflexivity); exact H1|].
  apply IH; [|exact H2]. intros x Hx. apply H. right. exact Hx.
Qed.

(* ---------- depth along cellPred_: a chain starting at "no predecessor" has no repetition ---------- *)
Inductive depth (P : list Z) : nat -> nat -> Prop :=
| depth0 c : nth_error P c = Some (-1) -> depth P c 0
| depthS c p d : nth_error P c = Some (Z.of_nat p) -> depth P p d -> depth P c (S d).

Lemma depth_fun P c d : depth P c d -> forall d', depth P c d' -> d = d'.
Proof.
  induction 1 as [c H|c p d H _ IH]; intros d' H'; inversion H' as [c' G|c' p' d'' G G']; subst.
  - reflexivity.
  - rewrite H in G. injection G as G. lia.
  - rewrite H in G. injection G as G. lia.
  - rewrite H in G. injection G as G. apply Nat2Z.inj in G. subst p'. f_equal. apply IH. exact G'.
Qed.

Definition pdepth (P : list Z) (p : option nat) (d : nat) : Prop :=
  match p with None => d = O | Some pc => exists d0, d = S d0 /\ depth P pc d0 end.

Lemma pdepth_depth P p d c : nth_error P c = Some (enc p) -> pdepth P p d -> depth P c d.
Proof.
  destruct p as [pc|]; cbn [enc pdepth].
  - intros H (d0 & -> & D). eapply depthS; eassumption.
  - intros H ->. apply depth0. exact H.
Qed.

Lemma pred_chain_depth P l : forall p d, pred_chain P p l -> pdepth P p d ->
  forall c, In c l -> exists j, depth P c (d + j).
Proof.
  induction l as [|c r IH]; intros p d; cbn [pred_chain In]; [tauto|].
  intros [H1 H2] D x [<-|Hx].
  - exists O. rewrite Nat.add_0_r. eapply pdepth_depth; eassumption.
  - assert (D' : pdepth P (Some c) (S d)) by (cbn; exists d; split; [reflexivity|eapply pdepth_depth; eassumption]).
    destruct (IH _ _ H2 D' x Hx) as [j Hj]. exists (S j). replace (d + S j)%nat with (S d + j)%nat by lia. exact Hj.
Qed.

Lemma pred_chain_nodup P l : forall p d, pred_chain P p l -> pdepth P p d -> NoDup l.
Proof.
  induction l as [|c r IH]; intros p d; cbn [pred_chain]; [constructor|].
  intros [H1 H2] D.
  assert (Dc : depth P c d) by (eapply pdepth_depth; eassumption).
  assert (D' : pdepth P (Some c) (S d)) by (cbn; exists d; split; [reflexivity|exact Dc]).
  constructor; [|eapply IH; eassumption].
  intros Hin. destruct (pred_chain_depth _ _ _ _ H2 D' c Hin) as [j Hj].
  pose proof (depth_fun _ _ _ Dc _ Hj). lia.
Qed.

Lemma row_rep_nodup cs i l : row_rep cs i l -> NoDup l.
Proof. intros (_ & H & _). eapply (pred_chain_nodup _ _ None O); [exact H|reflexivity]. Qed.

Lemma row_rep_lt cs i l c : Sizes cs -> row_rep cs i l -> In c l -> (c < nb_cells cs)%nat.
Proof.
  intros S (H & _) Hin. rewrite Forall_forall in H. apply H in Hin. apply nth_error_lt in Hin.
  destruct S as (_ & _ & S & _). lia.
Qed.

Lemma nodup_bounded_length (l : list nat) n : NoDup l -> (forall c, In c l -> (c < n)%nat) -> (length l <= n)%nat.
Proof.
  intros ND H. rewrite <- (seq_length n 0). apply NoDup_incl_length; [exact ND|].
  intros c Hc. apply in_seq. specialize (H c Hc). lia.
Qed.

(* ====================================================================== *)
(* 3. the abstraction function computed from a representation              *)
(* ====================================================================== *)
Definition cell_d (cs : cstate) (c : nat) : pcell :=
  {| p_id := c; p_x := nth c (c_x cs) 0; p_w := nth c (c_width cs) 0;
     p_pol := nth c (c_pol cs) pANY; p_o := nth c (c_orient cs) oN |}.

Definition mkrow (f : nat -> pcell) (g : crow) (l : list nat) : drow :=
  {| dr_min := cr_min g; dr_max := cr_max g; dr_y := cr_y g; dr_o := cr_o g; dr_cells := map f l |}.

Fixpoint mkrows (f : nat -> pcell) (gs : list crow) (ls : list (list nat)) : list drow :=
  match gs, ls with g :: gs', l :: ls' => mkrow f g l :: mkrows f gs' ls' | _, _ => [] end.

Definition abs_d (cs : cstate) (ls : list (list nat)) : dstate :=
  {| d_rows := mkrows (cell_d cs) (c_rows cs) ls; d_loose := map (cell_d cs) (loose_ids cs) |}.

Lemma cell_of_d cs c : Sizes cs -> (c < nb_cells cs)%nat -> cell_of cs c = Some (cell_d cs c).
Proof.
  intros (_ & _ & _ & Sx & _ & So & Sp & _) H. unfold cell_of, cell_d, nb_cells in *.
  rewrite (nth_error_nth' (c_x cs) 0) by lia. rewrite (nth_error_nth' (c_width cs) 0) by lia.
  rewrite (nth_error_nth' (c_pol cs) pANY) by lia. rewrite (nth_error_nth' (c_orient cs) oN) by lia.
  reflexivity.
Qed.

Lemma omap_cell_of cs l : Sizes cs -> (forall c, In c l -> (c < nb_cells cs)%nat) ->
  omap (cell_of cs) l = Some (map (cell_d cs) l).
Proof.
  intros S. induction l as [|c r IH]; intros H; cbn [omap map]; [reflexivity|].
  rewrite cell_of_d by (try exact S; apply H; left; reflexivity).
  rewrite IH by (intros x Hx; apply H; right; exact Hx). reflexivity.
Qed.

Lemma walk_rep cs i l : forall fuel,
  Forall (fun c => nth_error (c_row cs) c = Some (Z.of_nat i)) l -> next_chain (c_next cs) l None ->
  (length l <= fuel)%nat -> walk cs (Z.of_nat i) fuel (enc (hd_or l None)) = Some l.
Proof.
  induction l as [|c r IH]; intros fuel HR HN HL.
  - destruct fuel; reflexivity.
  - cbn [length] in HL. destruct fuel as [|f]; [lia|]. cbn [hd_or enc walk].
    replace (Z.of_nat c =? -1) with false by (symmetry; apply Z.eqb_neq; lia).
    inversion HR as [|? ? HR1 HR2]; subst. destruct HN as [HN1 HN2].
    unfold cellRow, cellNext. rewrite !getZ_nat, HR1, HN1, Z.eqb_refl. cbn [negb].
    rewrite IH by (try assumption; lia). rewrite Nat2Z.id. reflexivity.
Qed.

Lemma abs_row_rep cs i l g : Sizes cs -> row_rep cs i l -> nth_error (c_rows cs) i = Some g ->
  abs_row cs i = Some (mkrow (cell_d cs) g l).
Proof.
  intros S R G. pose proof (row_rep_nodup _ _ _ R) as ND.
  pose proof (fun c => row_rep_lt cs i l c S R) as LT.
  destruct R as (HR & _ & HN & HF & _). unfold abs_row. rewrite G, HF.
  rewrite walk_rep by (try assumption; apply nodup_bounded_length; assumption).
  rewrite omap_cell_of by assumption. reflexivity.
Qed.

Lemma omap_abs_rows cs f : forall gs ls k, length ls = length gs ->
  (forall j l g, nth_error ls j = Some l -> nth_error gs j = Some g -> abs_row cs (k + j) = Some (mkrow f g l)) ->
  omap (abs_row cs) (seq k (length gs)) = Some (mkrows f gs ls).
Proof.
  induction gs as [|g gs IH]; intros [|l ls] k HL H; cbn [length] in HL; try lia; [reflexivity|].
  cbn [length seq omap mkrows]. specialize (H O l g eq_refl eq_refl) as H0. rewrite Nat.add_0_r in H0. rewrite H0.
  rewrite (IH ls (S k)); [reflexivity|lia|].
  intros j l' g' Hl Hg. replace (S k + j)%nat with (k + S j)%nat by lia. apply H; assumption.
Qed.

Lemma loose_ids_lt cs c : In c (loose_ids cs) -> (c < nb_cells cs)%nat.
Proof. unfold loose_ids. intros H. apply filter_In in H as [H _]. apply in_seq in H. lia. Qed.

Theorem abs_of_rep cs ls : Sizes cs -> Rep cs ls -> abs cs = Some (abs_d cs ls).
Proof.
  intros S (HL & HR & _). unfold abs, abs_d, nb_rows.
  rewrite (omap_abs_rows cs (cell_d cs) (c_rows cs) ls 0).
  - rewrite omap_cell_of by (try exact S; apply loose_ids_lt). reflexivity.
  - exact HL.
  - intros j l g Hl Hg. cbn [Nat.add]. apply abs_row_rep; try assumption. apply HR. exact Hl.
Qed.

Theorem WF_abs cs : WF cs -> exists s, abs cs = Some s.
Proof. intros [S [ls R]]. exists (abs_d cs ls). apply abs_of_rep; assumption. Qed.

(* ====================================================================== *)
(* 4. the unplaced cells: equality up to the order of cells with different ids *)
(* ====================================================================== *)
(* The abstract model keeps the unplaced cells in a list in order of unplacing (a history artefact);
   the arrays have no such order.  `take_loose id` only observes, for each id, the sub-list of the
   cells with this id: two lists are equivalent when these sub-lists are equal for every id. *)
Definition fid (id : nat) (l : list pcell) : list pcell := filter (fun c => Nat.eqb (p_id c) id) l.
Definition leq (l1 l2 : list pcell) : Prop := forall id, fid id l1 = fid id l2.
Definition deq (s s' : dstate) : Prop := d_rows s = d_rows s' /\ leq (d_loose s) (d_loose s').

Definition orel {A B} (R : A -> B -> Prop) (x : option A) (y : option B) : Prop :=
  match x, y with Some a, Some b => R a b | None, None => True | _, _ => False end.

Lemma deq_refl s : deq s s. Proof. split; [reflexivity|intros id; reflexivity]. Qed.
Lemma deq_sym s s' : deq s s' -> deq s' s.
Proof. intros [H1 H2]. split; [symmetry; exact H1|intros id; symmetry; apply H2]. Qed.
Lemma deq_trans s1 s2 s3 : deq s1 s2 -> deq s2 s3 -> deq s1 s3.
Proof. intros [H1 H2] [H3 H4]. split; [congruence|intros id; rewrite H2; apply H4]. Qed.

Lemma orel_deq_trans x y z : orel deq x y -> orel deq y z -> orel deq x z.
Proof. destruct x, y, z; cbn; try tauto. apply deq_trans. Qed.
Lemma orel_deq_refl x : orel deq x x.
Proof. destruct x; cbn; [apply deq_refl|exact I]. Qed.

Lemma take_loose_fid id l :
  match take_loose id l with
  | None => fid id l = []
  | Some (c, l') => fid id l = c :: fid id l' /\ forall id', id' <> id -> fid id' l' = fid id' l
  end.
Proof.
  induction l as [|x r IH]; cbn [take_loose]; [reflexivity|].
  unfold fid in *. cbn [filter]. destruct (Nat.eqb_spec (p_id x) id) as [E|E].
  - split; [reflexivity|]. intros id' H. destruct (Nat.eqb_spec (p_id x) id'); [congruence|reflexivity].
  - destruct (take_loose id r) as [[m r']|]; [|exact IH]. destruct IH as [IH1 IH2]. split.
    + cbn [filter]. destruct (Nat.eqb_spec (p_id x) id); [contradiction|]. exact IH1.
    + intros id' H. cbn [filter]. rewrite IH2 by exact H. reflexivity.
Qed.

Lemma take_loose_compat id l1 l2 : leq l1 l2 ->
  orel (fun a b => fst a = fst b /\ leq (snd a) (snd b)) (take_loose id l1) (take_loose id l2).
Proof.
  intros H. pose proof (take_loose_fid id l1) as T1. pose proof (take_loose_fid id l2) as T2.
  destruct (take_loose id l1) as [[c1 r1]|], (take_loose id l2) as [[c2 r2]|]; cbn [orel fst snd].
  - destruct T1 as [A1 B1], T2 as [A2 B2]. rewrite (H id), A2 in A1. injection A1 as E1 E2.
    split; [symmetry; exact E1|]. intros id'. destruct (Nat.eq_dec id' id) as [->|N]; [symmetry; exact E2|].
    rewrite B1, B2 by exact N. apply H.
  - destruct T1 as [A1 _]. rewrite (H id), T2 in A1. discriminate.
  - destruct T2 as [A2 _]. rewrite <- (H id), T1 in A2. discriminate.
  - exact I.
Qed.

Lemma fid_in id l c : In c (fid id l) <-> In c l /\ p_id c = id.
Proof. unfold fid. rewrite filter_In, Nat.eqb_eq. reflexivity. Qed.

Lemma leq_in l1 l2 c : leq l1 l2 -> In c l1 -> In c l2.
Proof. intros H Hin. apply (fid_in (p_id c)). rewrite <- H. apply fid_in. split; [exact Hin|reflexivity]. Qed.

Lemma deq_Inv s s' : deq s s' -> Inv s -> Inv s'.
Proof.
  intros [H1 H2] [I1 I2]. split; [rewrite <- H1; exact I1|].
  rewrite Forall_forall in *. intros c Hc. apply I2. eapply leq_in; [|exact Hc]. intros id. symmetry. apply H2.
Qed.

(* the abstract operations respect the equivalence *)
Lemma unplace_compat s1 s2 id : deq s1 s2 -> orel deq (Moves.unplace s1 id) (Moves.unplace s2 id).
Proof.
  intros [H1 H2]. unfold Moves.unplace. rewrite <- H1.
  destruct (find_row (d_rows s1) id 0) as [[[[[i r] a] m] b]|]; cbn [orel]; [|exact I].
  split; cbn [d_rows d_loose]; [reflexivity|]. intros id'. unfold fid. cbn [filter]. fold (fid id' (d_loose s1)).
  fold (fid id' (d_loose s2)). rewrite H2. reflexivity.
Qed.

Lemma place_compat s1 s2 id rowi pred x : deq s1 s2 ->
  orel deq (Moves.place s1 id rowi pred x) (Moves.place s2 id rowi pred x).
Proof.
  intros [H1 H2]. unfold Moves.place. rewrite <- H1.
  pose proof (take_loose_compat id _ _ H2) as T.
  destruct (take_loose id (d_loose s1)) as [[c1 r1]|], (take_loose id (d_loose s2)) as [[c2 r2]|]; cbn [orel fst snd] in T;
    try contradiction; [|exact I].
  destruct T as [<- T]. destruct (nth_error (d_rows s1) rowi) as [r|]; [|exact I].
  destruct (split_site pred (dr_cells r)) as [[a b]|]; [|exact I].
  destruct (_ && _); [|exact I]. cbn [orel]. split; [reflexivity|exact T].
Qed.

Lemma can_insert_compat s1 s2 id rowi pred : deq s1 s2 -> can_insert s1 id rowi pred = can_insert s2 id rowi pred.
Proof. intros [H1 _]. unfold can_insert. rewrite H1. reflexivity. Qed.

Lemma can_swap_compat s1 s2 c1 c2 : deq s1 s2 -> can_swap s1 c1 c2 = can_swap s2 c1 c2.
Proof. intros [H1 _]. unfold can_swap. rewrite H1. reflexivity. Qed.

Lemma insert_compat s1 s2 id rowi pred : deq s1 s2 ->
  orel deq (Moves.insert s1 id rowi pred) (Moves.insert s2 id rowi pred).
Proof.
  intros H. unfold Moves.insert. rewrite (can_insert_compat _ _ _ _ _ H). destruct H as [H1 H2].
  destruct (can_insert s2 id rowi pred) as [[|]|]; try exact I. rewrite <- H1.
  destruct (find_row (d_rows s1) id 0) as [[[[[i r0] a] m] b]|]; [|exact I].
  destruct (nth_error (d_rows s1) rowi) as [r|]; [|exact I].
  destruct (split_site pred (dr_cells r)) as [[sa sb]|]; [|exact I].
  pose proof (unplace_compat s1 s2 id (conj H1 H2)) as U.
  destruct (Moves.unplace s1 id) as [u1|], (Moves.unplace s2 id) as [u2|]; cbn [orel] in U; try contradiction; [|exact I].
  apply place_compat. exact U.
Qed.

Lemma swap_compat s1 s2 c1 c2 : deq s1 s2 -> orel deq (Moves.swap s1 c1 c2) (Moves.swap s2 c1 c2).
Proof.
  intros H. unfold Moves.swap. rewrite (can_swap_compat _ _ _ _ H). destruct H as [H1 H2].
  destruct (can_swap s2 c1 c2) as [[|]|]; try exact I. rewrite <- H1.
  destruct (find_row (d_rows s1) c1 0) as [[[[[i1 r1] a1] m1] b1]|]; [|exact I].
  destruct (find_row (d_rows s1) c2 0) as [[[[[i2 r2] a2] m2] b2]|]; [|exact I].
  destruct (bounds_of r1 a1 b1) as [bb1 ba1]. destruct (bounds_of r2 a2 b2) as [bb2 ba2].
  destruct (if opt_nat_eqb (pred_of a1) (Some c2) then _ else _) as [x1 x2].
  pose proof (unplace_compat s1 s2 c1 (conj H1 H2)) as U.
  destruct (Moves.unplace s1 c1) as [u1|], (Moves.unplace s2 c1) as [u2|]; cbn [orel] in U; try contradiction; [|exact I].
  pose proof (unplace_compat u1 u2 c2 U) as U'.
  destruct (Moves.unplace u1 c2) as [v1|], (Moves.unplace u2 c2) as [v2|]; cbn [orel] in U'; try contradiction; [|exact I].
  destruct (opt_nat_eqb (pred_of a1) (Some c2)); [|destruct (opt_nat_eqb (pred_of a2) (Some c1))].
  - pose proof (place_compat v1 v2 c1 i2 (pred_of a2) x1 U') as P.
    destruct (Moves.place v1 c1 i2 _ x1) as [w1|], (Moves.place v2 c1 i2 _ x1) as [w2|]; cbn [orel] in P; try contradiction; [|exact I].
    apply place_compat. exact P.
  - pose proof (place_compat v1 v2 c2 i1 (pred_of a1) x2 U') as P.
    destruct (Moves.place v1 c2 i1 _ x2) as [w1|], (Moves.place v2 c2 i1 _ x2) as [w2|]; cbn [orel] in P; try contradiction; [|exact I].
    apply place_compat. exact P.
  - pose proof (place_compat v1 v2 c1 i2 (pred_of a2) x1 U') as P.
    destruct (Moves.place v1 c1 i2 _ x1) as [w1|], (Moves.place v2 c1 i2 _ x1) as [w2|]; cbn [orel] in P; try contradiction; [|exact I].
    apply place_compat. exact P.
Qed.

(* the unplaced cells of a concrete state, id by id *)
Definition unplaced (cs : cstate) (c : nat) : bool :=
  match nth_error (c_row cs) c with Some r => r =? -1 | None => false end.

Lemma fid_map_filter_seq (f : nat -> pcell) (P : nat -> bool) id : (forall x, p_id (f x) = x) -> forall n a,
  fid id (map f (filter P (seq a n))) =
  if (a <=? id)%nat && (id <? a + n)%nat && P id then [f id] else [].
Proof.
  intros Hf. induction n as [|n IH]; intros a; cbn [seq filter map].
  - destruct (Nat.leb_spec a id), (Nat.ltb_spec id (a + 0)); try reflexivity; lia.
  - assert (E : fid id (map f (filter P (seq (S a) n))) =
               if (S a <=? id)%nat && (id <? a + S n)%nat && P id then [f id] else []).
    { rewrite IH. replace (S a + n)%nat with (a + S n)%nat by lia. reflexivity. }
    destruct (Nat.eq_dec a id) as [->|N].
    + replace (id <=? id)%nat with true by (symmetry; apply Nat.leb_le; lia).
      replace (id <? id + S n)%nat with true by (symmetry; apply Nat.ltb_lt; lia). cbn [andb].
      replace (S id <=? id)%nat with false in E by (symmetry; apply Nat.leb_gt; lia). cbn [andb] in E.
      destruct (P id); [|exact E]. cbn [map]. unfold fid in *. cbn [filter]. rewrite Hf, Nat.eqb_refl, E. reflexivity.
    + assert (E2 : ((a <=? id)%nat && (id <? a + S n)%nat) = ((S a <=? id)%nat && (id <? a + S n)%nat)).
      { destruct (Nat.leb_spec a id), (Nat.leb_spec (S a) id); try reflexivity; lia. }
      rewrite E2. destruct (P a); [|exact E]. cbn [map]. unfold fid in *. cbn [filter]. rewrite Hf.
      destruct (Nat.eqb_spec a id); [contradiction|exact E].
Qed.

Lemma fid_loose cs id :
  fid id (map (cell_d cs) (loose_ids cs)) = if (id <? nb_cells cs)%nat && unplaced cs id then [cell_d cs id] else [].
Proof.
  unfold loose_ids. rewrite (fid_map_filter_seq (cell_d cs) _ id (fun x => eq_refl)).
  cbn [Nat.add Nat.leb andb]. reflexivity.
Qed.

(* ====================================================================== *)
(* 5. the abstract queries on a state built from a representation          *)
(* ====================================================================== *)
Section MkRows.
Variable f : nat -> pcell.
Hypothesis Hf : forall x, p_id (f x) = x.

Lemma split_at_map_notin c l : ~ In c l -> split_at c (map f l) = None.
Proof.
  induction l as [|x r IH]; intros H; cbn [map split_at]; [reflexivity|]. rewrite Hf.
  destruct (Nat.eqb_spec x c) as [->|N]; [exfalso; apply H; left; reflexivity|].
  rewrite IH; [reflexivity|]. intros Hin. apply H. right. exact Hin.
Qed.

Lemma split_at_map_in c a b : ~ In c a -> split_at c (map f (a ++ c :: b)) = Some (map f a, f c, map f b).
Proof.
  induction a as [|x r IH]; intros H; cbn [app map split_at]; rewrite Hf.
  - rewrite Nat.eqb_refl. reflexivity.
  - destruct (Nat.eqb_spec x c) as [->|N]; [exfalso; apply H; left; reflexivity|].
    rewrite IH; [reflexivity|]. intros Hin. apply H. right. exact Hin.
Qed.

Lemma find_row_mkrows c g a b : forall i gs ls k,
  nth_error gs i = Some g -> nth_error ls i = Some (a ++ c :: b) -> ~ In c a ->
  (forall j l, (j < i)%nat -> nth_error ls j = Some l -> ~ In c l) ->
  find_row (mkrows f gs ls) c k = Some ((k + i)%nat, mkrow f g (a ++ c :: b), map f a, f c, map f b).
Proof.
  induction i as [|i IH]; intros [|g0 gs] [|l0 ls] k Hg Hl Ha Hlt; cbn [nth_error] in Hg, Hl; try discriminate.
  - injection Hg as ->. injection Hl as ->. cbn [mkrows find_row mkrow dr_cells].
    rewrite split_at_map_in by exact Ha. rewrite Nat.add_0_r. reflexivity.
  - cbn [mkrows find_row mkrow dr_cells].
    rewrite split_at_map_notin by (apply (Hlt O); [lia|reflexivity]).
    rewrite (IH gs ls (S k) Hg Hl Ha).
    + replace (S k + i)%nat with (k + S i)%nat by lia. reflexivity.
    + intros j l Hj Hn. apply (Hlt (S j)); [lia|exact Hn].
Qed.

Lemma find_row_mkrows_none c : forall gs ls k,
  (forall j l, nth_error ls j = Some l -> ~ In c l) -> find_row (mkrows f gs ls) c k = None.
Proof.
  induction gs as [|g0 gs IH]; intros [|l0 ls] k H; cbn [mkrows find_row]; try reflexivity.
  cbn [mkrow dr_cells]. rewrite split_at_map_notin by (apply (H O); reflexivity).
  apply IH. intros j l Hn. apply (H (S j)). exact Hn.
Qed.

Lemma nth_error_mkrows : forall gs ls i g l, nth_error gs i = Some g -> nth_error ls i = Some l ->
  nth_error (mkrows f gs ls) i = Some (mkrow f g l).
Proof.
  induction gs as [|g0 gs IH]; intros [|l0 ls] [|i] g l Hg Hl; cbn [nth_error mkrows] in *; try discriminate.
  - congruence.
  - apply IH; assumption.
Qed.

Lemma nth_error_mkrows_none : forall gs ls i, nth_error gs i = None -> nth_error (mkrows f gs ls) i = None.
Proof.
  induction gs as [|g0 gs IH]; intros [|l0 ls] [|i] Hg; cbn [nth_error mkrows] in *; try discriminate; try reflexivity.
  apply IH; assumption.
Qed.

Lemma mkrows_upd : forall gs ls i g l', nth_error gs i = Some g ->
  upd_row (mkrows f gs ls) i (mkrow f g l') = mkrows f gs (upd ls i l').
Proof.
  induction gs as [|g0 gs IH]; intros [|l0 ls] [|i] g l' Hg; cbn [nth_error mkrows upd upd_row] in *; try discriminate; try reflexivity.
  - congruence.
  - rewrite IH by assumption. reflexivity.
Qed.
End MkRows.

Lemma mkrows_ext f f' : forall gs ls, (forall j l x, nth_error ls j = Some l -> In x l -> f' x = f x) ->
  mkrows f' gs ls = mkrows f gs ls.
Proof.
  induction gs as [|g0 gs IH]; intros [|l0 ls] H; cbn [mkrows]; try reflexivity. f_equal.
  - unfold mkrow. f_equal. apply map_ext_in. intros x Hx. apply (H O l0); [reflexivity|exact Hx].
  - apply IH. intros j l x Hn Hx. apply (H (S j) l); assumption.
Qed.

Lemma nth_error_upd_list {A} (l : list A) i a j :
  nth_error (upd l i a) j = if Nat.eqb i j then (if (i <? length l)%nat then Some a else None) else nth_error l j.
Proof.
  destruct (Nat.eqb_spec i j) as [->|N]; [|apply upd_other; exact N].
  destruct (Nat.ltb_spec j (length l)); [apply upd_same; assumption|].
  apply nth_error_None. rewrite length_upd. assumption.
Qed.

(* site_begin after a non-empty prefix is the end of its last cell *)
Lemma site_begin_snoc lo a m : site_begin lo (a ++ [m]) = p_x m + p_w m.
Proof. revert lo. induction a as [|c r IH]; intros lo; cbn [app site_begin]; [reflexivity|apply IH]. Qed.

(* ====================================================================== *)
(* 6. unplace                                                             *)
(* ====================================================================== *)
Definition unplace_res (cs : cstate) (i c : nat) (pa nb : option nat) : cstate :=
  {| c_rows := c_rows cs;
     c_first := match pa with None => upd (c_first cs) i (enc nb) | Some _ => c_first cs end;
     c_last := match nb with None => upd (c_last cs) i (enc pa) | Some _ => c_last cs end;
     c_width := c_width cs;
     c_pred := updo (upd (c_pred cs) c (-1)) nb (enc pa);
     c_next := upd (updo (c_next cs) pa (enc nb)) c (-1);
     c_row := upd (c_row cs) c (-1);
     c_x := c_x cs; c_y := c_y cs; c_orient := c_orient cs; c_pol := c_pol cs |}.

Ltac csimpl := cbn [set_first set_last set_pred set_next set_row set_x set_y set_orient
                    c_rows c_first c_last c_width c_pred c_next c_row c_x c_y c_orient c_pol].

Lemma unplace_eq cs i c pa nb :
  Sizes cs -> (i < nb_rows cs)%nat -> (c < nb_cells cs)%nat ->
  nth_error (c_row cs) c = Some (Z.of_nat i) -> nth_error (c_pred cs) c = Some (enc pa) ->
  nth_error (c_next cs) c = Some (enc nb) ->
  (forall z, pa = Some z -> (z < nb_cells cs)%nat) -> (forall d, nb = Some d -> (d < nb_cells cs)%nat) ->
  MovesConcrete.unplace cs (Z.of_nat c) = Some (unplace_res cs i c pa nb).
Proof.
  intros (SP & SN & SR & _ & _ & _ & _ & SF & SL) Hi Hc HR HP HN Hpa Hnb.
  unfold MovesConcrete.unplace, cellRow, cellPred, cellNext. rewrite !getZ_nat, HR, HP, HN.
  rewrite setZ_nat_some by lia. csimpl. rewrite !enc_eqb_m1.
  assert (E1 : (match pa with
               | Some _ => do v <- setZ (c_next cs) (enc pa) (enc nb); Some (set_next (set_row cs (upd (c_row cs) c (-1))) v)
               | None => do v <- setZ (c_first cs) (Z.of_nat i) (enc nb); Some (set_first (set_row cs (upd (c_row cs) c (-1))) v)
               end) = Some (set_next (set_first (set_row cs (upd (c_row cs) c (-1)))
                       (match pa with None => upd (c_first cs) i (enc nb) | Some _ => c_first cs end))
                       (updo (c_next cs) pa (enc nb)))).
  { destruct pa as [z|]; cbn [enc updo].
    - rewrite setZ_nat_some by (specialize (Hpa z eq_refl); lia). reflexivity.
    - rewrite setZ_nat_some by lia. reflexivity. }
  destruct pa as [z|]; (rewrite E1; clear E1; csimpl; rewrite setZ_nat_some by lia; csimpl;
    destruct nb as [d|]; cbn [enc updo];
    [ rewrite setZ_nat_some by (rewrite length_upd; specialize (Hnb d eq_refl); lia)
    | rewrite setZ_nat_some by lia ]; csimpl;
    rewrite setZ_nat_some by (rewrite ?length_upd; lia); reflexivity).
Qed.

Lemma last_or_nonempty p p' l : l <> [] -> last_or p l = last_or p' l.
Proof. destruct l as [|x r]; [congruence|]. intros _. reflexivity. Qed.

Lemma last_or_none_nil a : last_or None a = None -> a = [].
Proof. destruct (last_or_cases None a) as [[-> _]|(a0 & z & -> & E)]; [reflexivity|]. rewrite E. discriminate. Qed.

Lemma hd_or_in l d : hd_or l None = Some d -> In d l.
Proof. destruct l; cbn; [discriminate|]. intros [= ->]. left. reflexivity. Qed.

Lemma last_or_none_in l z : last_or None l = Some z -> In z l.
Proof. intros H. apply last_or_in in H as [H|[_ H]]; [exact H|discriminate]. Qed.

(* what a representation says about a cell of a row *)
Lemma rep_cell_facts cs ls i a c b : Sizes cs -> Rep cs ls -> nth_error ls i = Some (a ++ c :: b) ->
  (i < nb_rows cs)%nat /\ NoDup (a ++ c :: b) /\
  (forall x, In x (a ++ c :: b) -> (x < nb_cells cs)%nat /\ nth_error (c_row cs) x = Some (Z.of_nat i)) /\
  nth_error (c_pred cs) c = Some (enc (last_or None a)) /\
  nth_error (c_next cs) c = Some (enc (hd_or b None)).
Proof.
  intros S (HL & HR & _) Hn. pose proof (HR _ _ Hn) as R.
  split; [rewrite <- HL; eapply nth_error_lt; exact Hn|].
  split; [eapply row_rep_nodup; exact R|]. split.
  - intros x Hx. split; [eapply row_rep_lt; eassumption|].
    destruct R as (RR & _). rewrite Forall_forall in RR. apply RR. exact Hx.
  - destruct R as (_ & RP & RN & _). apply pred_chain_app in RP as [_ RP]. apply next_chain_app in RN as [_ RN].
    cbn [pred_chain next_chain] in RP, RN. split; [apply RP|apply RN].
Qed.

Lemma next_chain_set_q N a q q' : NoDup a -> next_chain N a q ->
  next_chain (updo N (last_or None a) (enc q')) a q'.
Proof.
  induction a as [|c r IH]; intros ND H; cbn [next_chain]; [exact I|].
  destruct H as [H1 H2]. inversion ND as [|? ? ND1 ND2]; subst.
  destruct r as [|d r'].
  - cbn [last_or fold_left updo hd_or]. split; [|exact I]. apply upd_same. eapply nth_error_lt; exact H1.
  - rewrite (last_or_nonempty None (Some c)) by discriminate.
    change (last_or (Some c) (c :: d :: r')) with (last_or None (d :: r')).
    specialize (IH ND2 H2). split; [|exact IH].
    rewrite updo_other; [exact H1|]. intros E. apply last_or_none_in in E. contradiction.
Qed.

Lemma nodup_app_disj {A} (a b : list A) x : NoDup (a ++ b) -> In x a -> In x b -> False.
Proof.
  induction a as [|y r IH]; cbn [app In]; [tauto|]. intros ND [->|Hx] Hb; inversion ND as [|? ? N1 N2]; subst.
  - apply N1. apply in_or_app. right. exact Hb.
  - exact (IH N2 Hx Hb).
Qed.

Lemma nodup_app_l {A} (a b : list A) : NoDup (a ++ b) -> NoDup a.
Proof.
  induction a as [|y r IH]; cbn [app]; [constructor|]. intros ND; inversion ND as [|? ? N1 N2]; subst.
  constructor; [|exact (IH N2)]. intros H. apply N1. apply in_or_app. left. exact H.
Qed.

Lemma sizes_unplace_res cs i c pa nb : Sizes cs -> Sizes (unplace_res cs i c pa nb).
Proof.
  unfold Sizes, nb_cells, nb_rows, unplace_res. cbn [c_rows c_first c_last c_width c_pred c_next c_row c_x c_y c_orient c_pol].
  intros (S1 & S2 & S3 & S4 & S5 & S6 & S7 & S8 & S9).
  rewrite length_updo, !length_upd, length_updo. repeat split; try assumption.
  - destruct pa; rewrite ?length_upd; assumption.
  - destruct nb; rewrite ?length_upd; assumption.
Qed.

Lemma unplace_rep cs ls i a c b : Sizes cs -> Rep cs ls -> nth_error ls i = Some (a ++ c :: b) ->
  Rep (unplace_res cs i c (last_or None a) (hd_or b None)) (upd ls i (a ++ b)).
Proof.
  intros S R Hn. destruct (rep_cell_facts _ _ _ _ _ _ S R Hn) as (Hi & ND & Hcells & HPc & HNc).
  set (pa := last_or None a) in *. set (nb := hd_or b None) in *.
  set (cs' := unplace_res cs i c pa nb).
  pose proof (NoDup_remove_2 _ _ _ ND) as Hc_notin. pose proof (NoDup_remove_1 _ _ _ ND) as ND'.
  assert (Hca : ~ In c a) by (intros H; apply Hc_notin, in_or_app; left; exact H).
  assert (Hcb : ~ In c b) by (intros H; apply Hc_notin, in_or_app; right; exact H).
  assert (Hpa : forall z, pa = Some z -> In z a) by (intros z; apply last_or_none_in).
  assert (Hnb : forall d, nb = Some d -> In d b) by (intros d; apply hd_or_in).
  assert (AP : forall x, x <> c -> nb <> Some x -> nth_error (c_pred cs') x = nth_error (c_pred cs) x).
  { intros x H1 H2. cbn [cs' unplace_res c_pred]. rewrite updo_other by exact H2. apply upd_other. congruence. }
  assert (AN : forall x, x <> c -> pa <> Some x -> nth_error (c_next cs') x = nth_error (c_next cs) x).
  { intros x H1 H2. cbn [cs' unplace_res c_next]. rewrite upd_other by congruence. apply updo_other. exact H2. }
  assert (AR : forall x, x <> c -> nth_error (c_row cs') x = nth_error (c_row cs) x).
  { intros x H1. cbn [cs' unplace_res c_row]. apply upd_other. congruence. }
  destruct S as (SP & SN & SR & _ & _ & _ & _ & SF & SL).
  destruct R as (HL & HR & HC).
  pose proof (HR _ _ Hn) as (RR & RP & RN & RF & RLa).
  apply pred_chain_app in RP as [RPa RPb]. cbn [pred_chain] in RPb. destruct RPb as [_ RPb].
  apply next_chain_app in RN as [RNa RNb]. cbn [next_chain hd_or] in RNa, RNb. destruct RNb as [_ RNb].
  split; [rewrite length_upd; exact HL|]. split.
  - intros j l Hj. rewrite nth_error_upd_list in Hj. destruct (Nat.eqb_spec i j) as [<-|Nij].
    + (* the row of c *)
      replace (i <? length ls)%nat with true in Hj by (symmetry; apply Nat.ltb_lt; lia). injection Hj as <-.
      split; [|split; [|split; [|split]]].
      * rewrite Forall_forall in *. intros x Hx. assert (x <> c) by (intros ->; exact (Hc_notin Hx)).
        rewrite AR by assumption. apply RR. apply in_app_or in Hx as [Hx|Hx]; apply in_or_app; [left|right; right]; exact Hx.
      * apply pred_chain_app. split.
        -- eapply pred_chain_frame; [|exact RPa]. intros x Hx. apply AP; [intros ->; contradiction|].
           intros E. apply Hnb in E. exact (nodup_app_disj _ _ _ ND' Hx E).
        -- fold pa. destruct b as [|d b']; [exact I|]. cbn [pred_chain]. split.
           ++ cbn [cs' unplace_res c_pred nb hd_or updo]. apply upd_same. rewrite length_upd.
              destruct (Hcells d) as [Hd _]; [apply in_or_app; right; right; left; reflexivity|]. lia.
           ++ cbn [pred_chain] in RPb. destruct RPb as [_ RPb]. eapply pred_chain_frame; [|exact RPb].
              intros x Hx. apply AP; [intros ->; apply Hcb; right; exact Hx|]. cbn [nb hd_or]. intros [= ->].
              apply NoDup_remove_2 in ND'. apply ND'. apply in_or_app. right. exact Hx.
      * apply next_chain_app. split.
        -- fold nb. eapply next_chain_frame with (N := updo (c_next cs) pa (enc nb)).
           ++ intros x Hx. cbn [cs' unplace_res c_next]. apply upd_other. intros ->. contradiction.
           ++ eapply next_chain_set_q; [|exact RNa]. exact (nodup_app_l _ _ ND').
        -- eapply next_chain_frame; [|exact RNb]. intros x Hx. apply AN; [intros ->; contradiction|].
           intros E. apply Hpa in E. exact (nodup_app_disj _ _ _ ND' E Hx).
      * rewrite hd_or_app. fold nb. cbn [cs' unplace_res c_first]. destruct (last_or_cases None a) as [[-> E]|(a0 & z & -> & E)]; fold pa in E; rewrite E.
        -- cbn [hd_or]. apply upd_same. lia.
        -- rewrite RF. rewrite !hd_or_app. destruct a0; reflexivity.
      * rewrite last_or_app. fold pa. cbn [cs' unplace_res c_last]. destruct b as [|d b'].
        -- cbn [nb hd_or last_or fold_left]. apply upd_same. lia.
        -- cbn [nb hd_or]. rewrite RLa, last_or_app. reflexivity.
    + (* another row *)
      pose proof (HR _ _ Hj) as (QR & QP & QN & QF & QL).
      assert (Hout : forall x, In x l -> ~ In x (a ++ c :: b)).
      { intros x Hx Hx'. rewrite Forall_forall in QR. specialize (QR x Hx). destruct (Hcells x Hx') as [_ E].
        rewrite QR in E. injection E as E. apply Nat2Z.inj in E. congruence. }
      assert (Hxc : forall x, In x l -> x <> c).
      { intros x Hx ->. apply (Hout c Hx). apply in_or_app. right. left. reflexivity. }
      split; [|split; [|split; [|split]]].
      * rewrite Forall_forall in *. intros x Hx. rewrite AR by (apply Hxc; exact Hx). apply QR. exact Hx.
      * eapply pred_chain_frame; [|exact QP]. intros x Hx. apply AP; [apply Hxc; exact Hx|].
        intros E. apply Hnb in E. apply (Hout x Hx). apply in_or_app. right. right. exact E.
      * eapply next_chain_frame; [|exact QN]. intros x Hx. apply AN; [apply Hxc; exact Hx|].
        intros E. apply Hpa in E. apply (Hout x Hx). apply in_or_app. left. exact E.
      * cbn [cs' unplace_res c_first]. destruct pa; [exact QF|]. rewrite upd_other by exact Nij. exact QF.
      * cbn [cs' unplace_res c_last]. destruct nb; [exact QL|]. rewrite upd_other by exact Nij. exact QL.
  - (* every cell *)
    intros x r Hx. destruct (Nat.eq_dec x c) as [->|Nxc].
    + left. cbn [cs' unplace_res c_row c_pred c_next] in *. rewrite upd_same in Hx by (destruct (Hcells c) as [Hc _]; [apply in_or_app; right; left; reflexivity|lia]).
      injection Hx as <-. split; [reflexivity|]. split.
      * rewrite updo_other by (intros E; apply Hnb in E; contradiction). apply upd_same. eapply nth_error_lt; exact HPc.
      * apply upd_same. rewrite length_updo. eapply nth_error_lt; exact HNc.
    + rewrite AR in Hx by exact Nxc. destruct (HC _ _ Hx) as [(-> & H1 & H2)|(j & l & -> & Hl & Hin)].
      * left. split; [reflexivity|].
        assert (Hnot : ~ In x (a ++ c :: b)).
        { intros Hx'. destruct (Hcells x Hx') as [_ E]. rewrite Hx in E. injection E as E. lia. }
        split.
        -- rewrite AP; [exact H1|exact Nxc|]. intros E. apply Hnb in E. apply Hnot. apply in_or_app. right. right. exact E.
        -- rewrite AN; [exact H2|exact Nxc|]. intros E. apply Hpa in E. apply Hnot. apply in_or_app. left. exact E.
      * right. destruct (Nat.eq_dec i j) as [<-|Nij].
        -- exists i, (a ++ b). split; [reflexivity|]. split; [apply upd_same; lia|].
           rewrite Hn in Hl. injection Hl as <-. apply in_app_or in Hin as [Hin|[->|Hin]]; [apply in_or_app; left; exact Hin|congruence|apply in_or_app; right; exact Hin].
        -- exists j, l. split; [reflexivity|]. split; [rewrite upd_other by exact Nij; exact Hl|exact Hin].
Qed.

Lemma rep_row_of cs ls j l x : Rep cs ls -> nth_error ls j = Some l -> In x l ->
  nth_error (c_row cs) x = Some (Z.of_nat j).
Proof. intros (_ & HR & _) Hl Hx. destruct (HR _ _ Hl) as (RR & _). rewrite Forall_forall in RR. apply RR. exact Hx. Qed.

Lemma rep_cell_unique cs ls j j' l l' x : Rep cs ls ->
  nth_error ls j = Some l -> In x l -> nth_error ls j' = Some l' -> In x l' -> j = j'.
Proof.
  intros R H1 H2 H3 H4. pose proof (rep_row_of _ _ _ _ _ R H1 H2) as E1. pose proof (rep_row_of _ _ _ _ _ R H3 H4) as E2.
  rewrite E1 in E2. injection E2 as E2. apply Nat2Z.inj. exact E2.
Qed.

(* a cell is either in exactly one row list, or not in any *)
Lemma rep_cell_cases cs ls c : Rep cs ls ->
  (exists i a b, nth_error ls i = Some (a ++ c :: b)) \/
  ((forall j l, nth_error ls j = Some l -> ~ In c l) /\
   (nth_error (c_row cs) c = None \/
    (nth_error (c_row cs) c = Some (-1) /\ nth_error (c_pred cs) c = Some (-1) /\ nth_error (c_next cs) c = Some (-1)))).
Proof.
  intros R. pose proof R as (_ & _ & HC). destruct (nth_error (c_row cs) c) as [r|] eqn:E.
  - destruct (HC _ _ E) as [(-> & H1 & H2)|(i & l & -> & Hl & Hin)].
    + right. split; [|right; tauto]. intros j l Hl Hin. pose proof (rep_row_of _ _ _ _ _ R Hl Hin) as E'.
      rewrite E in E'. injection E' as E'. lia.
    + left. apply in_split in Hin as (a & b & ->). exists i, a, b. exact Hl.
  - right. split; [|left; reflexivity]. intros j l Hl Hin. pose proof (rep_row_of _ _ _ _ _ R Hl Hin) as E'. congruence.
Qed.

Lemma unplaced_upd cs c id v : unplaced (set_row cs (upd (c_row cs) c v)) id =
  if Nat.eqb c id then (if (c <? length (c_row cs))%nat then v =? -1 else false) else unplaced cs id.
Proof.
  unfold unplaced. cbn [set_row c_row]. rewrite nth_error_upd_list.
  destruct (Nat.eqb c id); [|reflexivity]. destruct (c <? length (c_row cs))%nat; reflexivity.
Qed.

Lemma unplace_abs cs ls i a c b : Sizes cs -> Rep cs ls -> nth_error ls i = Some (a ++ c :: b) ->
  exists s1, Moves.unplace (abs_d cs ls) c = Some s1 /\
             deq (abs_d (unplace_res cs i c (last_or None a) (hd_or b None)) (upd ls i (a ++ b))) s1.
Proof.
  intros S R Hn. destruct (rep_cell_facts _ _ _ _ _ _ S R Hn) as (Hi & ND & Hcells & HPc & HNc).
  destruct (nth_error (c_rows cs) i) as [g|] eqn:G; [|apply nth_error_None in G; unfold nb_rows in Hi; lia].
  pose proof (NoDup_remove_2 _ _ _ ND) as Hc_notin.
  unfold Moves.unplace, abs_d at 1. cbn [d_rows d_loose].
  rewrite (find_row_mkrows (cell_d cs) (fun x => eq_refl) c g a b i (c_rows cs) ls 0 G Hn).
  - eexists. split; [reflexivity|]. split; cbn [d_rows d_loose abs_d].
    + cbn [Nat.add]. rewrite <- map_app. change (set_cells (mkrow (cell_d cs) g (a ++ c :: b)) (map (cell_d cs) (a ++ b))) with (mkrow (cell_d cs) g (a ++ b)).
      rewrite mkrows_upd by exact G. reflexivity.
    + intros id. rewrite fid_loose. unfold fid at 1. cbn [filter p_id cell_d].
      fold (fid id (map (cell_d cs) (loose_ids cs))). rewrite fid_loose.
      change (nb_cells (unplace_res cs i c (last_or None a) (hd_or b None))) with (nb_cells cs).
      change (unplaced (unplace_res cs i c (last_or None a) (hd_or b None)) id) with
             (unplaced (set_row cs (upd (c_row cs) c (-1))) id).
      rewrite unplaced_upd. destruct (Hcells c) as [Hc HRc]; [apply in_or_app; right; left; reflexivity|].
      destruct S as (_ & _ & SR & _).
      destruct (Nat.eqb_spec c id) as [<-|N].
      * replace (c <? length (c_row cs))%nat with true by (symmetry; apply Nat.ltb_lt; lia).
        replace (c <? nb_cells cs)%nat with true by (symmetry; apply Nat.ltb_lt; lia). cbn [andb Z.eqb].
        unfold unplaced. rewrite HRc. replace (Z.of_nat i =? -1) with false by (symmetry; apply Z.eqb_neq; lia).
        reflexivity.
      * reflexivity.
  - intros H. apply Hc_notin. apply in_or_app. left. exact H.
  - intros j l Hj Hl Hin. assert (j = i); [|lia].
    eapply rep_cell_unique; try eassumption. apply in_or_app. right. left. reflexivity.
Qed.

(* the simulation relation: the concrete state is well formed and its abstraction is (equivalent to) s *)
Definition Sim (cs : cstate) (s : dstate) : Prop := WF cs /\ exists s0, abs cs = Some s0 /\ deq s0 s.

Definition SimRep (cs : cstate) (s : dstate) : Prop :=
  Sizes cs /\ exists ls, Rep cs ls /\ deq (abs_d cs ls) s.

Lemma SimRep_Sim cs s : SimRep cs s <-> Sim cs s.
Proof.
  split.
  - intros (S & ls & R & D). split; [split; [exact S|exists ls; exact R]|].
    exists (abs_d cs ls). split; [apply abs_of_rep; assumption|exact D].
  - intros ((S & ls & R) & s0 & A & D). split; [exact S|]. exists ls. split; [exact R|].
    rewrite (abs_of_rep _ _ S R) in A. injection A as <-. exact D.
Qed.

Lemma unplace_none cs ls c : Sizes cs -> Rep cs ls -> (forall j l, nth_error ls j = Some l -> ~ In c l) ->
  (nth_error (c_row cs) c = None \/
    (nth_error (c_row cs) c = Some (-1) /\ nth_error (c_pred cs) c = Some (-1) /\ nth_error (c_next cs) c = Some (-1))) ->
  MovesConcrete.unplace cs (Z.of_nat c) = None /\ Moves.unplace (abs_d cs ls) c = None.
Proof.
  intros S R Hnot Hc. split.
  - unfold MovesConcrete.unplace, cellRow, cellPred, cellNext. rewrite !getZ_nat.
    destruct Hc as [->|(-> & -> & ->)]; [reflexivity|].
    destruct (setZ (c_row cs) (Z.of_nat c) (-1)); [|reflexivity]. cbn [Z.eqb].
    rewrite setZ_neg by lia. reflexivity.
  - unfold Moves.unplace, abs_d. cbn [d_rows]. rewrite find_row_mkrows_none; [reflexivity|exact (fun x => eq_refl)|exact Hnot].
Qed.

Theorem unplace_sim_rep cs ls c : Sizes cs -> Rep cs ls ->
  orel SimRep (MovesConcrete.unplace cs (Z.of_nat c)) (Moves.unplace (abs_d cs ls) c).
Proof.
  intros S R. destruct (rep_cell_cases cs ls c R) as [(i & a & b & Hn)|[Hnot Hc]].
  - destruct (rep_cell_facts _ _ _ _ _ _ S R Hn) as (Hi & ND & Hcells & HPc & HNc).
    destruct (Hcells c) as [Hc HRc]; [apply in_or_app; right; left; reflexivity|].
    rewrite (unplace_eq cs i c (last_or None a) (hd_or b None)); try assumption.
    + destruct (unplace_abs _ _ _ _ _ _ S R Hn) as (s1 & -> & D). cbn [orel].
      split; [apply sizes_unplace_res; exact S|]. eexists. split; [apply unplace_rep; eassumption|exact D].
    + intros z E. apply last_or_none_in in E. apply Hcells. apply in_or_app. left. exact E.
    + intros d E. apply hd_or_in in E. apply Hcells. apply in_or_app. right. right. exact E.
  - destruct (unplace_none _ _ _ S R Hnot Hc) as [-> ->]. exact I.
Qed.

Lemma orel_sim_deq cs_opt x y : orel SimRep cs_opt x -> orel deq x y -> orel SimRep cs_opt y.
Proof.
  destruct cs_opt as [cs|], x as [x|], y as [y|]; cbn [orel]; try tauto.
  intros (S & ls & R & D) D'. split; [exact S|]. exists ls. split; [exact R|]. eapply deq_trans; eassumption.
Qed.

Lemma orel_SimRep_Sim x y : orel SimRep x y <-> orel Sim x y.
Proof. destruct x, y; cbn [orel]; try tauto. apply SimRep_Sim. Qed.

Theorem unplace_sim cs s c : Sim cs s -> orel Sim (MovesConcrete.unplace cs (Z.of_nat c)) (Moves.unplace s c).
Proof.
  intros H. apply SimRep_Sim in H as (S & ls & R & D). apply orel_SimRep_Sim.
  eapply orel_sim_deq; [exact (unplace_sim_rep cs ls c S R)|]. apply unplace_compat. exact D.
Qed.

(* ====================================================================== *)
(* 7. place                                                               *)
(* ====================================================================== *)
Definition place_orient (cs : cstate) (c : nat) (o : orient) : list orient :=
  if orient_eqb o oUNKNOWN then c_orient cs else upd (c_orient cs) c o.

Definition place_res (cs : cstate) (i c : nat) (pa nb : option nat) (x : Z) (g : crow) (pol : polarity) : cstate :=
  {| c_rows := c_rows cs;
     c_first := match pa with None => upd (c_first cs) i (Z.of_nat c) | Some _ => c_first cs end;
     c_last := match nb with None => upd (c_last cs) i (Z.of_nat c) | Some _ => c_last cs end;
     c_width := c_width cs;
     c_pred := updo (upd (c_pred cs) c (enc pa)) nb (Z.of_nat c);
     c_next := upd (updo (c_next cs) pa (Z.of_nat c)) c (enc nb);
     c_row := upd (c_row cs) c (Z.of_nat i);
     c_x := upd (c_x cs) c x; c_y := upd (c_y cs) c (cr_y g);
     c_orient := place_orient cs c (cell_orientation_in_row pol (cr_o g)); c_pol := c_pol cs |}.

Lemma canPlace_eq cs c row pred x sb w se :
  nth_error (c_row cs) c = Some (-1) -> siteBegin cs row pred = Some sb -> nth_error (c_width cs) c = Some w ->
  siteEnd cs row pred = Some se ->
  canPlace cs (Z.of_nat c) row pred x = Some ((sb <=? x) && (x + w <=? se)).
Proof.
  intros HR HB HW HE. unfold canPlace, isPlaced, cellRow, cellWidth. rewrite !getZ_nat, HR, HB, HW, HE. cbn [Z.eqb negb].
  destruct (sb <=? x); reflexivity.
Qed.

Lemma place_eq cs i c pa nb x g pol :
  Sizes cs -> (i < nb_rows cs)%nat -> (c < nb_cells cs)%nat ->
  canPlace cs (Z.of_nat c) (Z.of_nat i) (enc pa) x = Some true ->
  nth_error (c_rows cs) i = Some g -> nth_error (c_pol cs) c = Some pol ->
  (pa = None -> nth_error (c_first cs) i = Some (enc nb)) ->
  (forall z, pa = Some z -> z <> c /\ nth_error (c_next cs) z = Some (enc nb)) ->
  (forall d, nb = Some d -> (d < nb_cells cs)%nat) ->
  MovesConcrete.place cs (Z.of_nat c) (Z.of_nat i) (enc pa) x = Some (place_res cs i c pa nb x g pol).
Proof.
  intros (SP & SN & SR & SX & SY & SO & SPol & SF & SL) Hi Hc HG Hg Hpol HF Hz Hd.
  unfold MovesConcrete.place. rewrite HG. cbn [negb]. rewrite setZ_nat_some by lia. csimpl.
  rewrite !getZ_nat, Hpol, Hg.
  set (o := cell_orientation_in_row pol (cr_o g)).
  assert (E0 : (if orient_eqb o oUNKNOWN then Some (set_row cs (upd (c_row cs) c (Z.of_nat i)))
                else do ov <- setZ (c_orient cs) (Z.of_nat c) o; Some (set_orient (set_row cs (upd (c_row cs) c (Z.of_nat i))) ov))
               = Some (set_orient (set_row cs (upd (c_row cs) c (Z.of_nat i))) (place_orient cs c o))).
  { unfold place_orient. destruct (orient_eqb o oUNKNOWN); [destruct cs; reflexivity|]. rewrite setZ_nat_some by lia. reflexivity. }
  rewrite E0; clear E0. unfold rowFirstCell, cellNext. csimpl. rewrite !enc_eqb_m1.
  destruct pa as [z|]; cbn [enc updo].
  - destruct (Hz z eq_refl) as [Hzc HNz]. rewrite getZ_nat, HNz.
    rewrite setZ_nat_some by (apply nth_error_lt in HNz; lia). csimpl.
    rewrite setZ_nat_some by lia. csimpl. rewrite enc_eqb_m1.
    destruct nb as [d|]; cbn [enc updo].
    + rewrite setZ_nat_some by (rewrite length_upd; specialize (Hd d eq_refl); lia). csimpl.
      rewrite setZ_nat_some by (rewrite ?length_upd; lia). csimpl.
      rewrite setZ_nat_some by lia. csimpl. rewrite setZ_nat_some by lia. reflexivity.
    + rewrite setZ_nat_some by lia. csimpl.
      rewrite setZ_nat_some by (rewrite ?length_upd; lia). csimpl.
      rewrite setZ_nat_some by lia. csimpl. rewrite setZ_nat_some by lia. reflexivity.
  - rewrite getZ_nat, (HF eq_refl).
    rewrite setZ_nat_some by lia. csimpl.
    rewrite setZ_nat_some by lia. csimpl. rewrite enc_eqb_m1.
    destruct nb as [d|]; cbn [enc updo].
    + rewrite setZ_nat_some by (rewrite length_upd; specialize (Hd d eq_refl); lia). csimpl.
      rewrite setZ_nat_some by (rewrite ?length_upd; lia). csimpl.
      rewrite setZ_nat_some by lia. csimpl. rewrite setZ_nat_some by lia. reflexivity.
    + rewrite setZ_nat_some by lia. csimpl.
      rewrite setZ_nat_some by (rewrite ?length_upd; lia). csimpl.
      rewrite setZ_nat_some by lia. csimpl. rewrite setZ_nat_some by lia. reflexivity.
Qed.

Lemma nth_upd {A} (l : list A) i j a d :
  nth j (upd l i a) d = if Nat.eqb i j && (i <? length l)%nat then a else nth j l d.
Proof.
  revert i j; induction l as [|x t IH]; intros i j.
  - cbn [upd length]. replace (i <? 0)%nat with false by (destruct i; reflexivity). rewrite andb_false_r. reflexivity.
  - destruct i as [|i], j as [|j]; cbn [upd nth length]; try reflexivity. rewrite IH. reflexivity.
Qed.

Lemma nth_error_nth_d {A} (l : list A) i d : (i < length l)%nat -> nth_error l i = Some (nth i l d).
Proof. intros H. apply nth_error_nth'. exact H. Qed.

(* splitting a row list at the predecessor *)
Lemma rep_split_pred cs ls i l pred : Rep cs ls -> nth_error ls i = Some l ->
  (pred = None \/ exists p, pred = Some p /\ nth_error (c_row cs) p = Some (Z.of_nat i)) ->
  exists a b, l = a ++ b /\ last_or None a = pred /\ (pred = None -> a = []).
Proof.
  intros R Hl [->|(p & -> & Hp)].
  - exists [], l. repeat split; reflexivity.
  - pose proof R as (_ & _ & HC). destruct (HC _ _ Hp) as [(E & _)|(j & l' & E & Hl' & Hin)]; [lia|].
    apply Nat2Z.inj in E. subst j. rewrite Hl in Hl'. injection Hl' as <-.
    apply in_split in Hin as (a0 & b & ->). exists (a0 ++ [p]), b. split; [rewrite <- app_assoc; reflexivity|].
    split; [apply last_or_snoc|discriminate].
Qed.

(* the pointers around a site *)
Lemma rep_site_facts cs ls i a b : Sizes cs -> Rep cs ls -> nth_error ls i = Some (a ++ b) ->
  (i < nb_rows cs)%nat /\ NoDup (a ++ b) /\
  (forall x, In x (a ++ b) -> (x < nb_cells cs)%nat /\ nth_error (c_row cs) x = Some (Z.of_nat i)) /\
  (last_or None a = None -> nth_error (c_first cs) i = Some (enc (hd_or b None))) /\
  (forall z, last_or None a = Some z -> nth_error (c_next cs) z = Some (enc (hd_or b None))).
Proof.
  intros S (HL & HR & _) Hn. pose proof (HR _ _ Hn) as R.
  split; [rewrite <- HL; eapply nth_error_lt; exact Hn|].
  split; [eapply row_rep_nodup; exact R|]. split; [|split].
  - intros x Hx. split; [eapply row_rep_lt; eassumption|].
    destruct R as (RR & _). rewrite Forall_forall in RR. apply RR. exact Hx.
  - intros E. apply last_or_none_nil in E. subst a. destruct R as (_ & _ & _ & RF & _). exact RF.
  - intros z E. destruct (last_or_cases None a) as [[-> E']|(a0 & y & -> & E')]; rewrite E' in E; [discriminate|].
    injection E as ->. destruct R as (_ & _ & RN & _). rewrite <- app_assoc in RN. apply next_chain_app in RN as [_ RN].
    cbn [app next_chain] in RN. apply RN.
Qed.

(* ---------- guards: the values computed on the arrays are the abstract ones ---------- *)
Lemma siteBegin_eq cs ls i a b g : Sizes cs -> Rep cs ls -> nth_error ls i = Some (a ++ b) ->
  nth_error (c_rows cs) i = Some g ->
  siteBegin cs (Z.of_nat i) (enc (last_or None a)) = Some (site_begin (cr_min g) (map (cell_d cs) a)).
Proof.
  intros S R Hn G. destruct (rep_site_facts _ _ _ _ _ S R Hn) as (_ & _ & Hcells & _).
  unfold siteBegin. rewrite enc_eqb_m1.
  destruct (last_or_cases None a) as [[-> E]|(a0 & z & -> & E)]; rewrite E.
  - rewrite getZ_nat, G. reflexivity.
  - cbn [enc]. unfold cellX, cellWidth. rewrite !getZ_nat.
    destruct (Hcells z) as [Hz _]; [apply in_or_app; left; apply in_or_app; right; left; reflexivity|].
    destruct S as (_ & _ & _ & SX & _).
    rewrite (nth_error_nth_d (c_x cs) z 0) by lia. rewrite (nth_error_nth_d (c_width cs) z 0) by exact Hz.
    rewrite map_app. cbn [map]. rewrite site_begin_snoc. reflexivity.
Qed.

Lemma siteEnd_eq cs ls i a b g : Sizes cs -> Rep cs ls -> nth_error ls i = Some (a ++ b) ->
  nth_error (c_rows cs) i = Some g ->
  siteEnd cs (Z.of_nat i) (enc (last_or None a)) = Some (site_end (cr_max g) (map (cell_d cs) b)).
Proof.
  intros S R Hn G. destruct (rep_site_facts _ _ _ _ _ S R Hn) as (_ & _ & Hcells & HF & HN).
  unfold siteEnd, rowFirstCell, cellNext. rewrite enc_eqb_m1.
  assert (E : (if match last_or None a with Some _ => false | None => true end
               then getZ (c_first cs) (Z.of_nat i) else getZ (c_next cs) (enc (last_or None a)))
              = Some (enc (hd_or b None))).
  { destruct (last_or None a) as [z|]; cbn [enc]; rewrite getZ_nat; [apply HN|apply HF]; reflexivity. }
  rewrite E, enc_eqb_m1. destruct b as [|d b']; cbn [hd_or map site_end enc].
  - rewrite getZ_nat, G. reflexivity.
  - unfold cellX. rewrite getZ_nat. destruct (Hcells d) as [Hd _]; [apply in_or_app; right; left; reflexivity|].
    destruct S as (_ & _ & _ & SX & _). rewrite (nth_error_nth_d (c_x cs) d 0) by lia. reflexivity.
Qed.

Lemma sizes_place_res cs i c pa nb x g pol : Sizes cs -> Sizes (place_res cs i c pa nb x g pol).
Proof.
  unfold Sizes, nb_cells, nb_rows, place_res, place_orient. cbn [c_rows c_first c_last c_width c_pred c_next c_row c_x c_y c_orient c_pol].
  intros (S1 & S2 & S3 & S4 & S5 & S6 & S7 & S8 & S9).
  rewrite length_updo, !length_upd, length_updo. repeat split; try assumption.
  - destruct (orient_eqb _ _); rewrite ?length_upd; assumption.
  - destruct pa; rewrite ?length_upd; assumption.
  - destruct nb; rewrite ?length_upd; assumption.
Qed.

Lemma loose_not_in cs ls c : Rep cs ls -> nth_error (c_row cs) c = Some (-1) ->
  forall j l, nth_error ls j = Some l -> ~ In c l.
Proof.
  intros R E j l Hl Hin. pose proof (rep_row_of _ _ _ _ _ R Hl Hin) as E'. rewrite E in E'. injection E' as E'. lia.
Qed.

Lemma place_rep cs ls i a b c x g pol : Sizes cs -> Rep cs ls -> nth_error ls i = Some (a ++ b) ->
  nth_error (c_row cs) c = Some (-1) ->
  Rep (place_res cs i c (last_or None a) (hd_or b None) x g pol) (upd ls i (a ++ c :: b)).
Proof.
  intros S R Hn HRc. destruct (rep_site_facts _ _ _ _ _ S R Hn) as (Hi & ND & Hcells & _ & _).
  pose proof (loose_not_in _ _ _ R HRc) as Hcnot.
  set (pa := last_or None a) in *. set (nb := hd_or b None) in *.
  set (cs' := place_res cs i c pa nb x g pol).
  assert (Hc_notin : ~ In c (a ++ b)) by (apply (Hcnot i); exact Hn).
  assert (Hca : ~ In c a) by (intros H; apply Hc_notin, in_or_app; left; exact H).
  assert (Hcb : ~ In c b) by (intros H; apply Hc_notin, in_or_app; right; exact H).
  assert (Hpa : forall z, pa = Some z -> In z a) by (intros z; apply last_or_none_in).
  assert (Hnb : forall d, nb = Some d -> In d b) by (intros d; apply hd_or_in).
  assert (AP : forall y, y <> c -> nb <> Some y -> nth_error (c_pred cs') y = nth_error (c_pred cs) y).
  { intros y H1 H2. cbn [cs' place_res c_pred]. rewrite updo_other by exact H2. apply upd_other. congruence. }
  assert (AN : forall y, y <> c -> pa <> Some y -> nth_error (c_next cs') y = nth_error (c_next cs) y).
  { intros y H1 H2. cbn [cs' place_res c_next]. rewrite upd_other by congruence. apply updo_other. exact H2. }
  assert (AR : forall y, y <> c -> nth_error (c_row cs') y = nth_error (c_row cs) y).
  { intros y H1. cbn [cs' place_res c_row]. apply upd_other. congruence. }
  assert (Hc : (c < nb_cells cs)%nat) by (destruct S as (_ & _ & SR & _); apply nth_error_lt in HRc; lia).
  destruct S as (SP & SN & SR & _ & _ & _ & _ & SF & SL).
  destruct R as (HL & HR & HC).
  pose proof (HR _ _ Hn) as (RR & RP & RN & RF & RLa).
  apply pred_chain_app in RP as [RPa RPb]. apply next_chain_app in RN as [RNa RNb].
  split; [rewrite length_upd; exact HL|]. split.
  - intros j l Hj. rewrite nth_error_upd_list in Hj. destruct (Nat.eqb_spec i j) as [<-|Nij].
    + replace (i <? length ls)%nat with true in Hj by (symmetry; apply Nat.ltb_lt; lia). injection Hj as <-.
      split; [|split; [|split; [|split]]].
      * rewrite Forall_forall in *. intros y Hy. destruct (Nat.eq_dec y c) as [->|Nyc].
        -- cbn [cs' place_res c_row]. apply upd_same. lia.
        -- rewrite AR by exact Nyc. apply RR. apply in_app_or in Hy as [Hy|[Hy|Hy]]; [apply in_or_app; left; exact Hy|congruence|apply in_or_app; right; exact Hy].
      * apply pred_chain_app. split; [|cbn [pred_chain]; split].
        -- eapply pred_chain_frame; [|exact RPa]. intros y Hy. apply AP; [intros ->; contradiction|].
           intros E. apply Hnb in E. exact (nodup_app_disj _ _ _ ND Hy E).
        -- fold pa. cbn [cs' place_res c_pred]. rewrite updo_other by (intros E; apply Hnb in E; contradiction).
           apply upd_same. lia.
        -- destruct b as [|d b']; [exact I|]. cbn [pred_chain] in *. destruct RPb as [_ RPb]. split.
           ++ cbn [cs' place_res c_pred nb hd_or updo]. apply upd_same. rewrite length_upd.
              destruct (Hcells d) as [Hd _]; [apply in_or_app; right; left; reflexivity|]. lia.
           ++ eapply pred_chain_frame; [|exact RPb].
              intros y Hy. apply AP; [intros ->; apply Hcb; right; exact Hy|]. cbn [nb hd_or]. intros [= ->].
              apply NoDup_remove_2 in ND. apply ND. apply in_or_app. right. exact Hy.
      * apply next_chain_app. split; [|cbn [next_chain]; split].
        -- cbn [hd_or]. eapply next_chain_frame with (N := updo (c_next cs) pa (enc (Some c))).
           ++ intros y Hy. cbn [cs' place_res c_next]. apply upd_other. intros ->. contradiction.
           ++ eapply next_chain_set_q; [|exact RNa]. exact (nodup_app_l _ _ ND).
        -- fold nb. cbn [cs' place_res c_next]. apply upd_same. rewrite length_updo. lia.
        -- eapply next_chain_frame; [|exact RNb]. intros y Hy. apply AN; [intros ->; contradiction|].
           intros E. apply Hpa in E. exact (nodup_app_disj _ _ _ ND E Hy).
      * rewrite hd_or_app. cbn [cs' place_res c_first hd_or].
        destruct (last_or_cases None a) as [[-> E]|(a0 & z & -> & E)]; fold pa in E; rewrite E.
        -- cbn [hd_or enc]. apply upd_same. lia.
        -- rewrite RF. rewrite !hd_or_app. destruct a0; reflexivity.
      * rewrite last_or_app. cbn [cs' place_res c_last]. destruct b as [|d b'].
        -- cbn [nb hd_or last_or fold_left]. apply upd_same. lia.
        -- cbn [nb hd_or]. rewrite RLa, last_or_app. reflexivity.
    + pose proof (HR _ _ Hj) as (QR & QP & QN & QF & QL).
      assert (Hout : forall y, In y l -> ~ In y (a ++ b)).
      { intros y Hy Hy'. rewrite Forall_forall in QR. specialize (QR y Hy). destruct (Hcells y Hy') as [_ E].
        rewrite QR in E. injection E as E. apply Nat2Z.inj in E. congruence. }
      assert (Hyc : forall y, In y l -> y <> c).
      { intros y Hy ->. exact (Hcnot j l Hj Hy). }
      split; [|split; [|split; [|split]]].
      * rewrite Forall_forall in *. intros y Hy. rewrite AR by (apply Hyc; exact Hy). apply QR. exact Hy.
      * eapply pred_chain_frame; [|exact QP]. intros y Hy. apply AP; [apply Hyc; exact Hy|].
        intros E. apply Hnb in E. apply (Hout y Hy). apply in_or_app. right. exact E.
      * eapply next_chain_frame; [|exact QN]. intros y Hy. apply AN; [apply Hyc; exact Hy|].
        intros E. apply Hpa in E. apply (Hout y Hy). apply in_or_app. left. exact E.
      * cbn [cs' place_res c_first]. destruct pa; [exact QF|]. rewrite upd_other by exact Nij. exact QF.
      * cbn [cs' place_res c_last]. destruct nb; [exact QL|]. rewrite upd_other by exact Nij. exact QL.
  - intros y r Hy. destruct (Nat.eq_dec y c) as [->|Nyc].
    + right. cbn [cs' place_res c_row] in Hy. rewrite upd_same in Hy by lia. injection Hy as <-.
      exists i, (a ++ c :: b). split; [reflexivity|]. split; [apply upd_same; lia|]. apply in_or_app. right. left. reflexivity.
    + rewrite AR in Hy by exact Nyc. destruct (HC _ _ Hy) as [(-> & H1 & H2)|(j & l & -> & Hl & Hin)].
      * left. split; [reflexivity|].
        assert (Hnot : ~ In y (a ++ b)).
        { intros Hy'. destruct (Hcells y Hy') as [_ E]. rewrite Hy in E. injection E as E. lia. }
        split.
        -- rewrite AP; [exact H1|exact Nyc|]. intros E. apply Hnb in E. apply Hnot. apply in_or_app. right. exact E.
        -- rewrite AN; [exact H2|exact Nyc|]. intros E. apply Hpa in E. apply Hnot. apply in_or_app. left. exact E.
      * right. destruct (Nat.eq_dec i j) as [<-|Nij].
        -- exists i, (a ++ c :: b). split; [reflexivity|]. split; [apply upd_same; lia|].
           rewrite Hn in Hl. injection Hl as <-. apply in_app_or in Hin as [Hin|Hin]; apply in_or_app; [left|right; right]; exact Hin.
        -- exists j, l. split; [reflexivity|]. split; [rewrite upd_other by exact Nij; exact Hl|exact Hin].
Qed.

Lemma take_loose_loose cs c :
  match take_loose c (map (cell_d cs) (loose_ids cs)) with
  | Some (m, l') => (c < nb_cells cs)%nat /\ unplaced cs c = true /\ m = cell_d cs c /\
                    forall id, fid id l' = if Nat.eqb id c then [] else fid id (map (cell_d cs) (loose_ids cs))
  | None => ((c <? nb_cells cs)%nat && unplaced cs c) = false
  end.
Proof.
  pose proof (take_loose_fid c (map (cell_d cs) (loose_ids cs))) as T. rewrite fid_loose in T.
  destruct (take_loose c (map (cell_d cs) (loose_ids cs))) as [[m l']|].
  - destruct T as [T1 T2]. destruct ((c <? nb_cells cs)%nat && unplaced cs c) eqn:E; [|discriminate].
    apply andb_prop in E as [E1 E2]. apply Nat.ltb_lt in E1. injection T1 as T1 T1'.
    repeat split; try assumption; [symmetry; exact T1|].
    intros id. destruct (Nat.eqb_spec id c) as [->|N]; [symmetry; exact T1'|apply T2; exact N].
  - destruct ((c <? nb_cells cs)%nat && unplaced cs c); [discriminate|reflexivity].
Qed.

Lemma split_site_rep (f : nat -> pcell) a b : (forall x, p_id (f x) = x) -> NoDup (a ++ b) ->
  split_site (last_or None a) (map f (a ++ b)) = Some (map f a, map f b).
Proof.
  intros Hf ND. destruct (last_or_cases None a) as [[-> E]|(a0 & z & -> & E)]; rewrite E; cbn [split_site].
  - reflexivity.
  - rewrite <- app_assoc in *. cbn [app] in *. rewrite split_at_map_in by (try exact Hf; intros H; apply NoDup_remove_2 in ND; apply ND, in_or_app; left; exact H).
    rewrite map_app. reflexivity.
Qed.

Lemma place_abs cs ls i a b c x g pol : Sizes cs -> Rep cs ls -> nth_error ls i = Some (a ++ b) ->
  nth_error (c_row cs) c = Some (-1) -> nth_error (c_rows cs) i = Some g -> nth_error (c_pol cs) c = Some pol ->
  if (site_begin (cr_min g) (map (cell_d cs) a) <=? x) && (x + nth c (c_width cs) 0 <=? site_end (cr_max g) (map (cell_d cs) b))
  then exists s1, Moves.place (abs_d cs ls) c i (last_or None a) x = Some s1 /\
                  deq (abs_d (place_res cs i c (last_or None a) (hd_or b None) x g pol) (upd ls i (a ++ c :: b))) s1
  else Moves.place (abs_d cs ls) c i (last_or None a) x = None.
Proof.
  intros S R Hn HRc G Hpol. destruct (rep_site_facts _ _ _ _ _ S R Hn) as (Hi & ND & Hcells & _ & _).
  pose proof (loose_not_in _ _ _ R HRc) as Hcnot.
  assert (Hc : (c < nb_cells cs)%nat) by (destruct S as (_ & _ & SR & _); apply nth_error_lt in HRc; lia).
  unfold Moves.place, abs_d. cbn [d_rows d_loose].
  pose proof (take_loose_loose cs c) as T.
  destruct (take_loose c (map (cell_d cs) (loose_ids cs))) as [[m l']|].
  2:{ unfold unplaced in T. rewrite HRc in T. apply Nat.ltb_lt in Hc. rewrite Hc in T. discriminate. }
  destruct T as (_ & _ & -> & Tl).
  rewrite (nth_error_mkrows (cell_d cs) _ _ _ _ _ G Hn). cbn [mkrow dr_cells dr_min dr_max dr_o].
  rewrite (split_site_rep (cell_d cs) a b (fun x => eq_refl) ND). cbn [cell_d p_w p_pol p_o p_id].
  destruct (_ && _); [|reflexivity].
  eexists. split; [reflexivity|].
  set (cs' := place_res cs i c (last_or None a) (hd_or b None) x g pol).
  assert (Pc : nth c (c_pol cs) pANY = pol) by (apply nth_error_nth; exact Hpol). rewrite Pc.
  assert (Fother : forall y, y <> c -> cell_d cs' y = cell_d cs y).
  { intros y Ny. unfold cell_d, cs', place_res, place_orient. cbn [c_x c_width c_pol c_orient]. f_equal.
    - rewrite nth_upd. destruct (Nat.eqb_spec c y); [congruence|reflexivity].
    - destruct (orient_eqb _ _); [reflexivity|]. rewrite nth_upd. destruct (Nat.eqb_spec c y); [congruence|reflexivity]. }
  assert (Fc : cell_d cs' c = {| p_id := c; p_x := x; p_w := nth c (c_width cs) 0; p_pol := pol;
                 p_o := if orient_eqb (cell_orientation_in_row pol (cr_o g)) oUNKNOWN then nth c (c_orient cs) oN
                        else cell_orientation_in_row pol (cr_o g) |}).
  { destruct S as (_ & _ & _ & SX & _ & SO & _). unfold cell_d, cs', place_res, place_orient. cbn [c_x c_width c_pol c_orient]. f_equal.
    - rewrite nth_upd, Nat.eqb_refl. replace (c <? length (c_x cs))%nat with true by (symmetry; apply Nat.ltb_lt; lia). reflexivity.
    - exact Pc.
    - destruct (orient_eqb _ _); [reflexivity|]. rewrite nth_upd, Nat.eqb_refl.
      replace (c <? length (c_orient cs))%nat with true by (symmetry; apply Nat.ltb_lt; lia). reflexivity. }
  split; cbn [d_rows d_loose abs_d].
  - change (c_rows cs') with (c_rows cs).
    rewrite <- (mkrows_upd (cell_d cs') (c_rows cs) ls i g (a ++ c :: b) G).
    rewrite (mkrows_ext (cell_d cs) (cell_d cs')).
    + f_equal. unfold mkrow, set_cells. cbn [dr_min dr_max dr_y dr_o]. f_equal.
      rewrite map_app. cbn [map]. rewrite Fc. f_equal; [|f_equal]; apply map_ext_in; intros y Hy; apply Fother; intros ->;
        apply (Hcnot i _ Hn); apply in_or_app; [left|right]; exact Hy.
    + intros j l y Hl Hy. apply Fother. intros ->. exact (Hcnot j l Hl Hy).
  - intros id. rewrite fid_loose, Tl, fid_loose. change (nb_cells cs') with (nb_cells cs).
    change (unplaced cs' id) with (unplaced (set_row cs (upd (c_row cs) c (Z.of_nat i))) id).
    rewrite unplaced_upd. rewrite (Nat.eqb_sym id c). destruct (Nat.eqb_spec c id) as [<-|N].
    + destruct S as (_ & _ & SR & _). replace (c <? length (c_row cs))%nat with true by (symmetry; apply Nat.ltb_lt; lia).
      replace (Z.of_nat i =? -1) with false by (symmetry; apply Z.eqb_neq; lia). rewrite andb_false_r. reflexivity.
    + rewrite Fother by congruence. reflexivity.
Qed.

Lemma predOk_spec cs i pred : predOk cs (Z.of_nat i) (enc pred) = true <->
  (pred = None \/ exists p, pred = Some p /\ nth_error (c_row cs) p = Some (Z.of_nat i)).
Proof.
  unfold predOk, cellRow. rewrite enc_eqb_m1. destruct pred as [p|]; cbn [enc orb].
  - rewrite getZ_nat. destruct (nth_error (c_row cs) p) as [r|] eqn:E.
    + rewrite Z.eqb_eq. split.
      * intros ->. right. exists p. split; [reflexivity|exact E].
      * intros [H|(p' & H1 & H2)]; [discriminate|]. injection H1 as <-. congruence.
    + split; [discriminate|]. intros [H|(p' & H1 & H2)]; [discriminate|]. injection H1 as <-. congruence.
  - split; [left; reflexivity|reflexivity].
Qed.

Lemma place_not_loose cs ls c row pred x : Sizes cs -> ((c <? nb_cells cs)%nat && unplaced cs c) = false ->
  MovesConcrete.place cs (Z.of_nat c) row pred x = None /\ forall i p, Moves.place (abs_d cs ls) c i p x = None.
Proof.
  intros S H. split.
  - unfold MovesConcrete.place, canPlace, isPlaced, cellRow. rewrite getZ_nat.
    destruct (nth_error (c_row cs) c) as [r|] eqn:E; [|reflexivity].
    unfold unplaced in H. rewrite E in H. apply nth_error_lt in E. destruct S as (_ & _ & SR & _).
    replace (c <? nb_cells cs)%nat with true in H by (symmetry; apply Nat.ltb_lt; lia). cbn [andb] in H. rewrite H. reflexivity.
  - intros i p. unfold Moves.place, abs_d. cbn [d_loose]. pose proof (take_loose_loose cs c) as T.
    destruct (take_loose c (map (cell_d cs) (loose_ids cs))) as [[m l']|]; [|reflexivity].
    destruct T as (T1 & T2 & _). apply Nat.ltb_lt in T1. rewrite T1, T2 in H. discriminate.
Qed.

Theorem place_sim_rep cs ls c i pred x : Sizes cs -> Rep cs ls -> predOk cs (Z.of_nat i) (enc pred) = true ->
  orel SimRep (MovesConcrete.place cs (Z.of_nat c) (Z.of_nat i) (enc pred) x) (Moves.place (abs_d cs ls) c i pred x).
Proof.
  intros S R PO. apply predOk_spec in PO.
  destruct ((c <? nb_cells cs)%nat && unplaced cs c) eqn:L.
  2:{ destruct (place_not_loose cs ls c (Z.of_nat i) (enc pred) x S L) as [-> H]. rewrite H. exact I. }
  apply andb_prop in L as [Hc L]. apply Nat.ltb_lt in Hc. unfold unplaced in L.
  destruct (nth_error (c_row cs) c) as [rc|] eqn:HRc; [|discriminate]. apply Z.eqb_eq in L. subst rc.
  pose proof R as (HL & _ & HC).
  destruct (nth_error ls i) as [l|] eqn:Hl.
  - (* the row exists *)
    assert (Hi : (i < nb_rows cs)%nat) by (rewrite <- HL; eapply nth_error_lt; exact Hl).
    destruct (nth_error (c_rows cs) i) as [g|] eqn:G; [|apply nth_error_None in G; unfold nb_rows in Hi; lia].
    destruct (nth_error (c_pol cs) c) as [pol|] eqn:Hpol; [|apply nth_error_None in Hpol; destruct S as (_ & _ & _ & _ & _ & _ & SPol & _); lia].
    destruct (rep_split_pred _ _ _ _ _ R Hl PO) as (a & b & -> & <- & _).
    destruct (rep_site_facts _ _ _ _ _ S R Hl) as (_ & ND & Hcells & HF & HN).
    pose proof (place_abs cs ls i a b c x g pol S R Hl HRc G Hpol) as PA.
    pose proof (canPlace_eq cs c (Z.of_nat i) (enc (last_or None a)) x _ _ _ HRc
                  (siteBegin_eq _ _ _ _ _ _ S R Hl G) (nth_error_nth_d (c_width cs) c 0 Hc) (siteEnd_eq _ _ _ _ _ _ S R Hl G)) as CP.
    destruct (_ && _).
    + destruct PA as (s1 & -> & D).
      rewrite (place_eq cs i c (last_or None a) (hd_or b None) x g pol); try assumption.
      * cbn [orel]. split; [apply sizes_place_res; exact S|]. eexists. split; [apply place_rep; eassumption|exact D].
      * intros z E. split; [|apply HN; exact E]. intros ->. apply last_or_none_in in E.
        apply (loose_not_in _ _ _ R HRc i _ Hl). apply in_or_app. left. exact E.
      * intros d E. apply hd_or_in in E. apply Hcells. apply in_or_app. right. exact E.
    + rewrite PA. unfold MovesConcrete.place. rewrite CP. exact I.
  - (* no such row *)
    assert (Hi : (nb_rows cs <= i)%nat) by (rewrite <- HL; apply nth_error_None; exact Hl).
    assert (A : Moves.place (abs_d cs ls) c i pred x = None).
    { unfold Moves.place, abs_d. cbn [d_rows d_loose]. rewrite nth_error_mkrows_none by (apply nth_error_None; exact Hi).
      destruct (take_loose _ _) as [[? ?]|]; reflexivity. }
    rewrite A. destruct PO as [->|(p & -> & Hp)].
    + unfold MovesConcrete.place, canPlace, isPlaced, cellRow, siteBegin. rewrite !getZ_nat, HRc. cbn [enc Z.eqb negb].
      replace (nth_error (c_rows cs) i) with (@None crow) by (symmetry; apply nth_error_None; exact Hi). exact I.
    + exfalso. destruct (HC _ _ Hp) as [(E & _)|(j & l & E & Hl' & _)]; [lia|].
      apply Nat2Z.inj in E. subst j. congruence.
Qed.

Theorem place_sim cs s c i pred x : Sim cs s -> predOk cs (Z.of_nat i) (enc pred) = true ->
  orel Sim (MovesConcrete.place cs (Z.of_nat c) (Z.of_nat i) (enc pred) x) (Moves.place s c i pred x).
Proof.
  intros H PO. apply SimRep_Sim in H as (S & ls & R & D). apply orel_SimRep_Sim.
  eapply orel_sim_deq; [exact (place_sim_rep cs ls c i pred x S R PO)|]. apply place_compat. exact D.
Qed.

(* when the caller obligation fails the abstract model refuses the operation *)
Lemma split_at_none_notin (f : nat -> pcell) p l : (forall x, p_id (f x) = x) -> ~ In p l -> split_site (Some p) (map f l) = None.
Proof. intros Hf H. cbn [split_site]. rewrite split_at_map_notin by assumption. reflexivity. Qed.

Theorem place_pre_false cs s c i pred x : Sim cs s -> predOk cs (Z.of_nat i) (enc pred) = false ->
  Moves.place s c i pred x = None.
Proof.
  intros H PO. apply SimRep_Sim in H as (S & ls & R & D).
  pose proof (place_compat _ _ c i pred x D) as C.
  assert (A : Moves.place (abs_d cs ls) c i pred x = None).
  { unfold Moves.place, abs_d. cbn [d_rows d_loose].
    destruct (take_loose _ _) as [[m l']|]; [|reflexivity].
    destruct (nth_error (mkrows (cell_d cs) (c_rows cs) ls) i) as [r|] eqn:E; [|reflexivity].
    destruct pred as [p|]; [|unfold predOk in PO; cbn in PO; discriminate].
    assert (exists g l, nth_error ls i = Some l /\ r = mkrow (cell_d cs) g l) as (g & l & Hl & ->).
    { destruct (nth_error (c_rows cs) i) as [g|] eqn:G; [|rewrite nth_error_mkrows_none in E by exact G; discriminate].
      destruct (nth_error ls i) as [l|] eqn:Hl.
      - exists g, l. rewrite (nth_error_mkrows _ _ _ _ _ _ G Hl) in E. injection E as <-. split; reflexivity.
      - destruct R as (HL & _). apply nth_error_None in Hl. apply nth_error_lt in G. unfold nb_rows in HL. lia. }
    cbn [mkrow dr_cells]. rewrite split_at_none_notin; [reflexivity|exact (fun x => eq_refl)|].
    intros Hin. pose proof (rep_row_of _ _ _ _ _ R Hl Hin) as E'.
    assert (predOk cs (Z.of_nat i) (enc (Some p)) = true) by (apply predOk_spec; right; exists p; split; [reflexivity|exact E']).
    congruence. }
  rewrite A in C. destruct (Moves.place s c i pred x); [contradiction|reflexivity].
Qed.

(* ====================================================================== *)
(* 8. the guards computed on the arrays are the abstract ones              *)
(* ====================================================================== *)
Lemma enc_eqb a b : (enc a =? enc b) = opt_nat_eqb a b.
Proof.
  destruct a as [x|], b as [y|]; cbn [enc opt_nat_eqb].
  - destruct (Nat.eqb_spec x y) as [->|N]; [apply Z.eqb_refl|apply Z.eqb_neq; lia].
  - apply Z.eqb_neq; lia.
  - apply Z.eqb_neq; lia.
  - reflexivity.
Qed.

Lemma pred_of_map (f : nat -> pcell) a : (forall x, p_id (f x) = x) -> pred_of (map f a) = last_or None a.
Proof.
  intros Hf. unfold pred_of. destruct (last_or_cases None a) as [[-> E]|(a0 & z & -> & E)]; rewrite E; [reflexivity|].
  rewrite map_app, rev_app_distr. cbn [map rev app]. rewrite Hf. reflexivity.
Qed.

Lemma abs_find_row cs ls i a c b : Sizes cs -> Rep cs ls -> nth_error ls i = Some (a ++ c :: b) ->
  exists g, nth_error (c_rows cs) i = Some g /\
    find_row (d_rows (abs_d cs ls)) c 0 =
      Some (i, mkrow (cell_d cs) g (a ++ c :: b), map (cell_d cs) a, cell_d cs c, map (cell_d cs) b).
Proof.
  intros S R Hn. destruct (rep_cell_facts _ _ _ _ _ _ S R Hn) as (Hi & ND & _).
  destruct (nth_error (c_rows cs) i) as [g|] eqn:G; [|apply nth_error_None in G; unfold nb_rows in Hi; lia].
  exists g. split; [reflexivity|]. unfold abs_d. cbn [d_rows].
  rewrite (find_row_mkrows (cell_d cs) (fun x => eq_refl) c g a b i (c_rows cs) ls 0 G Hn); [reflexivity| |].
  - intros H. apply NoDup_remove_2 in ND. apply ND, in_or_app. left. exact H.
  - intros j l Hj Hl Hin. assert (j = i); [|lia].
    eapply rep_cell_unique; try eassumption. apply in_or_app. right. left. reflexivity.
Qed.

Lemma abs_find_row_none cs ls c : (forall j l, nth_error ls j = Some l -> ~ In c l) ->
  find_row (d_rows (abs_d cs ls)) c 0 = None.
Proof. intros H. unfold abs_d. cbn [d_rows]. apply find_row_mkrows_none; [exact (fun x => eq_refl)|exact H]. Qed.

Lemma isPlaced_in cs ls i a c b : Sizes cs -> Rep cs ls -> nth_error ls i = Some (a ++ c :: b) ->
  isPlaced cs (Z.of_nat c) = Some true.
Proof.
  intros S R Hn. destruct (rep_cell_facts _ _ _ _ _ _ S R Hn) as (_ & _ & Hcells & _).
  destruct (Hcells c) as [_ E]; [apply in_or_app; right; left; reflexivity|].
  unfold isPlaced, cellRow. rewrite getZ_nat, E. replace (Z.of_nat i =? -1) with false by (symmetry; apply Z.eqb_neq; lia). reflexivity.
Qed.

Lemma isPlaced_notin cs ls c : Rep cs ls -> (forall j l, nth_error ls j = Some l -> ~ In c l) ->
  isPlaced cs (Z.of_nat c) = None \/ isPlaced cs (Z.of_nat c) = Some false.
Proof.
  intros R Hnot. destruct (rep_cell_cases cs ls c R) as [(i & a & b & Hn)|[_ [E|(E & _)]]].
  - exfalso. apply (Hnot i _ Hn). apply in_or_app. right. left. reflexivity.
  - left. unfold isPlaced, cellRow. rewrite getZ_nat, E. reflexivity.
  - right. unfold isPlaced, cellRow. rewrite getZ_nat, E. reflexivity.
Qed.

(* boundaryBefore / boundaryAfter of a placed cell = the abstract bounds_of *)
Theorem boundaryBefore_eq cs ls i a c b g : Sizes cs -> Rep cs ls -> nth_error ls i = Some (a ++ c :: b) ->
  nth_error (c_rows cs) i = Some g ->
  boundaryBefore cs (Z.of_nat c) = Some (site_begin (cr_min g) (map (cell_d cs) a)).
Proof.
  intros S R Hn G. unfold boundaryBefore. rewrite (isPlaced_in _ _ _ _ _ _ S R Hn). cbn [negb].
  destruct (rep_cell_facts _ _ _ _ _ _ S R Hn) as (_ & _ & Hcells & HP & _).
  destruct (Hcells c) as [_ E]; [apply in_or_app; right; left; reflexivity|].
  unfold cellPred, cellRow. rewrite !getZ_nat, HP, E.
  pose proof (siteBegin_eq cs ls i a (c :: b) g S R Hn G) as SB. unfold siteBegin in SB.
  destruct (enc (last_or None a) =? -1); [rewrite getZ_nat in *|]; exact SB.
Qed.

Theorem boundaryAfter_eq cs ls i a c b g : Sizes cs -> Rep cs ls -> nth_error ls i = Some (a ++ c :: b) ->
  nth_error (c_rows cs) i = Some g ->
  boundaryAfter cs (Z.of_nat c) = Some (site_end (cr_max g) (map (cell_d cs) b)).
Proof.
  intros S R Hn G. unfold boundaryAfter. rewrite (isPlaced_in _ _ _ _ _ _ S R Hn). cbn [negb].
  destruct (rep_cell_facts _ _ _ _ _ _ S R Hn) as (_ & _ & Hcells & _ & HN).
  destruct (Hcells c) as [_ E]; [apply in_or_app; right; left; reflexivity|].
  unfold cellNext, cellRow. rewrite !getZ_nat, HN, E, enc_eqb_m1.
  destruct b as [|d b']; cbn [hd_or map site_end enc].
  - rewrite getZ_nat, G. reflexivity.
  - unfold cellX. rewrite getZ_nat. destruct (Hcells d) as [Hd _]; [apply in_or_app; right; right; left; reflexivity|].
    destruct S as (_ & _ & _ & SX & _). rewrite (nth_error_nth_d (c_x cs) d 0) by lia. reflexivity.
Qed.

Theorem canPlace_abs cs ls i a b c x g : Sizes cs -> Rep cs ls -> nth_error ls i = Some (a ++ b) ->
  nth_error (c_row cs) c = Some (-1) -> nth_error (c_rows cs) i = Some g ->
  canPlace cs (Z.of_nat c) (Z.of_nat i) (enc (last_or None a)) x =
  Some ((site_begin (cr_min g) (map (cell_d cs) a) <=? x) && (x + p_w (cell_d cs c) <=? site_end (cr_max g) (map (cell_d cs) b))).
Proof.
  intros S R Hn HRc G.
  assert (Hc : (c < nb_cells cs)%nat) by (destruct S as (_ & _ & SR & _); apply nth_error_lt in HRc; lia).
  exact (canPlace_eq cs c (Z.of_nat i) (enc (last_or None a)) x _ _ _ HRc
          (siteBegin_eq _ _ _ _ _ _ S R Hn G) (nth_error_nth_d (c_width cs) c 0 Hc) (siteEnd_eq _ _ _ _ _ _ S R Hn G)).
Qed.

Lemma abs_nth_row cs ls i l g : nth_error (c_rows cs) i = Some g -> nth_error ls i = Some l ->
  nth_error (d_rows (abs_d cs ls)) i = Some (mkrow (cell_d cs) g l).
Proof. intros G Hl. unfold abs_d. cbn [d_rows]. apply nth_error_mkrows; assumption. Qed.

Lemma abs_nth_row_none cs ls i : Rep cs ls -> nth_error ls i = None -> nth_error (d_rows (abs_d cs ls)) i = None.
Proof.
  intros (HL & _) Hl. unfold abs_d. cbn [d_rows]. apply nth_error_mkrows_none. apply nth_error_None.
  apply nth_error_None in Hl. unfold nb_rows in HL. lia.
Qed.

Lemma rowAllowed_eq cs c g l pol : nth_error (c_pol cs) c = Some pol ->
  row_allowed (p_pol (cell_d cs c)) (mkrow (cell_d cs) g l) = rowAllowed pol g.
Proof. intros H. unfold row_allowed, rowAllowed. cbn [cell_d p_pol mkrow dr_o]. rewrite (nth_error_nth _ _ pANY H). reflexivity. Qed.

(* canInsert: under the caller obligation predOk *)
Theorem canInsert_eq cs ls c i pred : Sizes cs -> Rep cs ls -> predOk cs (Z.of_nat i) (enc pred) = true ->
  canInsert cs (Z.of_nat c) (Z.of_nat i) (enc pred) = can_insert (abs_d cs ls) c i pred.
Proof.
  intros S R PO. apply predOk_spec in PO. unfold can_insert, canInsert.
  destruct (rep_cell_cases cs ls c R) as [(i0 & a0 & b0 & Hn0)|[Hnot _]].
  2:{ rewrite (abs_find_row_none _ _ _ Hnot). destruct (isPlaced_notin _ _ _ R Hnot) as [->| ->]; reflexivity. }
  destruct (abs_find_row _ _ _ _ _ _ S R Hn0) as (g0 & G0 & ->). rewrite (isPlaced_in _ _ _ _ _ _ S R Hn0). cbn [negb].
  destruct (rep_cell_facts _ _ _ _ _ _ S R Hn0) as (Hi0 & ND0 & Hcells0 & HP0 & _).
  destruct (Hcells0 c) as [Hc HRc]; [apply in_or_app; right; left; reflexivity|].
  change (Z.of_nat c) with (enc (Some c)) at 1. rewrite enc_eqb. cbn [enc].
  unfold cellRow, cellPred. rewrite !getZ_nat, HRc, HP0.
  destruct (nth_error (c_pol cs) c) as [pol|] eqn:Hpol; [|apply nth_error_None in Hpol; destruct S as (_ & _ & _ & _ & _ & _ & SPol & _); lia].
  rewrite pred_of_map by exact (fun x => eq_refl).
  destruct (nth_error ls i) as [l|] eqn:Hl.
  - assert (Hi : (i < nb_rows cs)%nat) by (destruct R as (HL & _); rewrite <- HL; eapply nth_error_lt; exact Hl).
    destruct (nth_error (c_rows cs) i) as [g|] eqn:G; [|apply nth_error_None in G; unfold nb_rows in Hi; lia].
    rewrite (abs_nth_row _ _ _ _ _ G Hl). destruct (opt_nat_eqb (Some c) pred); [reflexivity|].
    assert (E : (if Z.of_nat i0 =? Z.of_nat i then Some (enc (last_or None a0) =? enc pred) else Some false) =
                Some (Nat.eqb i0 i && opt_nat_eqb (last_or None a0) pred)).
    { rewrite enc_eqb. destruct (Nat.eqb_spec i0 i) as [->|N]; [rewrite Z.eqb_refl; reflexivity|].
      replace (Z.of_nat i0 =? Z.of_nat i) with false by (symmetry; apply Z.eqb_neq; lia). reflexivity. }
    rewrite E. destruct (_ && _); [reflexivity|]. rewrite (rowAllowed_eq _ _ _ _ _ Hpol).
    destruct (negb (rowAllowed pol g)); [reflexivity|].
    destruct (rep_split_pred _ _ _ _ _ R Hl PO) as (a & b & -> & <- & _).
    destruct (rep_site_facts _ _ _ _ _ S R Hl) as (_ & ND & _).
    cbn [mkrow dr_cells dr_max dr_min]. rewrite (split_site_rep (cell_d cs) a b (fun x => eq_refl) ND).
    rewrite (siteEnd_eq _ _ _ _ _ _ S R Hl G), (siteBegin_eq _ _ _ _ _ _ S R Hl G).
    unfold cellWidth. rewrite getZ_nat, (nth_error_nth_d (c_width cs) c 0 Hc). reflexivity.
  - rewrite (abs_nth_row_none _ _ _ R Hl).
    assert (Hi : (nb_rows cs <= i)%nat) by (destruct R as (HL & _); rewrite <- HL; apply nth_error_None; exact Hl).
    assert (Npred : opt_nat_eqb (Some c) pred = false).
    { destruct PO as [->|(p & -> & Hp)]; [reflexivity|]. cbn [opt_nat_eqb]. apply Nat.eqb_neq. intros <-.
      rewrite HRc in Hp. injection Hp as Hp. lia. }
    rewrite Npred. replace (Z.of_nat i0 =? Z.of_nat i) with false by (symmetry; apply Z.eqb_neq; lia).
    replace (nth_error (c_rows cs) i) with (@None crow) by (symmetry; apply nth_error_None; exact Hi).
    reflexivity.
Qed.

(* ====================================================================== *)
(* 9. insert and swap                                                      *)
(* ====================================================================== *)
Ltac break_match :=
  repeat match goal with
         | |- context [match ?e with _ => _ end] => destruct e eqn:?; try discriminate
         | H : context [match ?e with _ => _ end] |- _ => destruct e eqn:?; try discriminate
         | H : Some _ = Some _ |- _ => injection H as H; try subst
         end.

Lemma unplace_row cs c cs' : MovesConcrete.unplace cs (Z.of_nat c) = Some cs' -> c_row cs' = upd (c_row cs) c (-1).
Proof.
  unfold MovesConcrete.unplace. rewrite setZ_nat. break_match; csimpl; intros [= <-]; reflexivity.
Qed.

Lemma place_row cs c i p x cs' : MovesConcrete.place cs (Z.of_nat c) (Z.of_nat i) p x = Some cs' ->
  c_row cs' = upd (c_row cs) c (Z.of_nat i).
Proof.
  unfold MovesConcrete.place. rewrite setZ_nat. break_match; csimpl; intros [= <-]; reflexivity.
Qed.

Lemma positionOnInsert_eq cs ls i a b c g : Sizes cs -> Rep cs ls -> nth_error ls i = Some (a ++ b) ->
  nth_error (c_rows cs) i = Some g -> (c < nb_cells cs)%nat ->
  positionOnInsert cs (Z.of_nat c) (Z.of_nat i) (enc (last_or None a)) =
  Some (Z.quot (site_end (cr_max g) (map (cell_d cs) b) - p_w (cell_d cs c) + site_begin (cr_min g) (map (cell_d cs) a)) 2).
Proof.
  intros S R Hl G Hc. unfold positionOnInsert.
  rewrite (siteEnd_eq _ _ _ _ _ _ S R Hl G), (siteBegin_eq _ _ _ _ _ _ S R Hl G).
  unfold cellWidth. rewrite getZ_nat, (nth_error_nth_d (c_width cs) c 0 Hc). reflexivity.
Qed.

Lemma predOk_upd_row cs cs' c v i pred : c_row cs' = upd (c_row cs) c v -> pred <> Some c ->
  predOk cs (Z.of_nat i) (enc pred) = true -> predOk cs' (Z.of_nat i) (enc pred) = true.
Proof.
  intros E N H. apply predOk_spec in H. apply predOk_spec. destruct H as [->|(p & -> & Hp)]; [left; reflexivity|].
  right. exists p. split; [reflexivity|]. rewrite E, upd_other by congruence. exact Hp.
Qed.

Theorem insert_sim_rep cs ls c i pred : Sizes cs -> Rep cs ls -> predOk cs (Z.of_nat i) (enc pred) = true ->
  orel SimRep (MovesConcrete.insert cs (Z.of_nat c) (Z.of_nat i) (enc pred)) (Moves.insert (abs_d cs ls) c i pred).
Proof.
  intros S R PO. unfold MovesConcrete.insert, Moves.insert. rewrite (canInsert_eq _ _ _ _ _ S R PO).
  destruct (can_insert (abs_d cs ls) c i pred) as [[|]|] eqn:CI; cbn [negb]; try exact I.
  unfold can_insert in CI.
  destruct (rep_cell_cases cs ls c R) as [(i0 & a0 & b0 & Hn0)|[Hnot _]].
  2:{ rewrite (abs_find_row_none _ _ _ Hnot) in CI. discriminate. }
  destruct (abs_find_row _ _ _ _ _ _ S R Hn0) as (g0 & G0 & F). rewrite F in *.
  destruct (nth_error ls i) as [l|] eqn:Hl.
  2:{ rewrite (abs_nth_row_none _ _ _ R Hl) in CI. discriminate. }
  assert (Hi : (i < nb_rows cs)%nat) by (destruct R as (HL & _); rewrite <- HL; eapply nth_error_lt; exact Hl).
  destruct (nth_error (c_rows cs) i) as [g|] eqn:G; [|apply nth_error_None in G; unfold nb_rows in Hi; lia].
  rewrite (abs_nth_row _ _ _ _ _ G Hl) in *.
  destruct (opt_nat_eqb (Some c) pred) eqn:Npred; [discriminate|]. clear CI.
  assert (Npred' : pred <> Some c). { intros ->. cbn in Npred. rewrite Nat.eqb_refl in Npred. discriminate. }
  pose proof PO as PO'. apply predOk_spec in PO'.
  destruct (rep_split_pred _ _ _ _ _ R Hl PO') as (a & b & -> & <- & _).
  destruct (rep_site_facts _ _ _ _ _ S R Hl) as (_ & ND & _).
  destruct (rep_cell_facts _ _ _ _ _ _ S R Hn0) as (_ & _ & Hcells0 & _).
  destruct (Hcells0 c) as [Hc _]; [apply in_or_app; right; left; reflexivity|].
  cbn [mkrow dr_cells dr_max dr_min]. rewrite (split_site_rep (cell_d cs) a b (fun x => eq_refl) ND).
  rewrite (positionOnInsert_eq _ _ _ _ _ _ _ S R Hl G Hc).
  pose proof (unplace_sim_rep cs ls c S R) as U.
  destruct (MovesConcrete.unplace cs (Z.of_nat c)) as [cs1|] eqn:U1, (Moves.unplace (abs_d cs ls) c) as [s1|]; cbn [orel] in U; try contradiction; [|exact I].
  apply orel_SimRep_Sim. apply place_sim; [apply SimRep_Sim; exact U|].
  eapply predOk_upd_row; [exact (unplace_row _ _ _ U1)|exact Npred'|exact PO].
Qed.

Theorem insert_sim cs s c i pred : Sim cs s -> predOk cs (Z.of_nat i) (enc pred) = true ->
  orel Sim (MovesConcrete.insert cs (Z.of_nat c) (Z.of_nat i) (enc pred)) (Moves.insert s c i pred).
Proof.
  intros H PO. apply SimRep_Sim in H as (S & ls & R & D). apply orel_SimRep_Sim.
  eapply orel_sim_deq; [exact (insert_sim_rep cs ls c i pred S R PO)|]. apply insert_compat. exact D.
Qed.

Lemma of_nat_eqb a b : (Z.of_nat a =? Z.of_nat b) = Nat.eqb a b.
Proof. destruct (Nat.eqb_spec a b) as [->|N]; [apply Z.eqb_refl|apply Z.eqb_neq; lia]. Qed.

(* the reads of a placed cell *)
Lemma placed_reads cs ls i a c b : Sizes cs -> Rep cs ls -> nth_error ls i = Some (a ++ c :: b) ->
  exists g pol, nth_error (c_rows cs) i = Some g /\ nth_error (c_pol cs) c = Some pol /\ (c < nb_cells cs)%nat /\
    nth_error (c_row cs) c = Some (Z.of_nat i) /\ nth_error (c_pred cs) c = Some (enc (last_or None a)) /\
    nth_error (c_next cs) c = Some (enc (hd_or b None)) /\
    nth_error (c_x cs) c = Some (p_x (cell_d cs c)) /\ nth_error (c_width cs) c = Some (p_w (cell_d cs c)).
Proof.
  intros S R Hn. destruct (rep_cell_facts _ _ _ _ _ _ S R Hn) as (Hi & _ & Hcells & HP & HN).
  destruct (Hcells c) as [Hc HR]; [apply in_or_app; right; left; reflexivity|].
  destruct (nth_error (c_rows cs) i) as [g|] eqn:G; [|apply nth_error_None in G; unfold nb_rows in Hi; lia].
  destruct (nth_error (c_pol cs) c) as [pol|] eqn:Hpol; [|apply nth_error_None in Hpol; destruct S as (_ & _ & _ & _ & _ & _ & SPol & _); lia].
  exists g, pol. repeat split; try assumption; cbn [cell_d p_x p_w]; apply nth_error_nth_d; [|exact Hc].
  destruct S as (_ & _ & _ & SX & _). lia.
Qed.

Theorem canSwap_eq cs ls c1 c2 : Sizes cs -> Rep cs ls ->
  canSwap cs (Z.of_nat c1) (Z.of_nat c2) = can_swap (abs_d cs ls) c1 c2.
Proof.
  intros S R. unfold can_swap, canSwap.
  destruct (rep_cell_cases cs ls c1 R) as [(i1 & a1 & b1 & Hn1)|[Hnot _]].
  2:{ rewrite (abs_find_row_none _ _ _ Hnot). destruct (isPlaced_notin _ _ _ R Hnot) as [->| ->]; reflexivity. }
  destruct (abs_find_row _ _ _ _ _ _ S R Hn1) as (g1 & G1 & ->). rewrite (isPlaced_in _ _ _ _ _ _ S R Hn1). cbn [negb].
  destruct (rep_cell_cases cs ls c2 R) as [(i2 & a2 & b2 & Hn2)|[Hnot _]].
  2:{ rewrite (abs_find_row_none _ _ _ Hnot). destruct (isPlaced_notin _ _ _ R Hnot) as [->| ->]; reflexivity. }
  destruct (abs_find_row _ _ _ _ _ _ S R Hn2) as (g2 & G2 & ->). rewrite (isPlaced_in _ _ _ _ _ _ S R Hn2). cbn [negb].
  rewrite of_nat_eqb. destruct (Nat.eqb c1 c2); [reflexivity|].
  destruct (placed_reads _ _ _ _ _ _ S R Hn1) as (g1' & pol1 & G1' & Hpol1 & Hc1 & HR1 & HP1 & _ & _ & HW1).
  destruct (placed_reads _ _ _ _ _ _ S R Hn2) as (g2' & pol2 & G2' & Hpol2 & Hc2 & HR2 & HP2 & _ & _ & HW2).
  rewrite G1 in G1'. injection G1' as <-. rewrite G2 in G2'. injection G2' as <-.
  unfold cellRow, cellPred, cellWidth. rewrite !getZ_nat, Hpol1, Hpol2, HR1, HR2, !getZ_nat, G1, G2, HP1, HP2, HW1, HW2.
  rewrite (rowAllowed_eq _ _ _ _ _ Hpol1), (rowAllowed_eq _ _ _ _ _ Hpol2).
  destruct (negb (rowAllowed pol1 g2)); [reflexivity|]. destruct (negb (rowAllowed pol2 g1)); [reflexivity|]. cbn [orb].
  rewrite !pred_of_map by exact (fun x => eq_refl).
  change (Z.of_nat c2) with (enc (Some c2)). change (Z.of_nat c1) with (enc (Some c1)). rewrite !enc_eqb.
  destruct (opt_nat_eqb (last_or None a1) (Some c2)); [reflexivity|].
  destruct (opt_nat_eqb (last_or None a2) (Some c1)); [reflexivity|]. cbn [orb bounds_of mkrow dr_min dr_max].
  cbn [enc]. rewrite (boundaryBefore_eq _ _ _ _ _ _ _ S R Hn1 G1), (boundaryBefore_eq _ _ _ _ _ _ _ S R Hn2 G2),
    (boundaryAfter_eq _ _ _ _ _ _ _ S R Hn1 G1), (boundaryAfter_eq _ _ _ _ _ _ _ S R Hn2 G2).
  reflexivity.
Qed.

Lemma depth_pred P c d p : depth P c d -> nth_error P c = Some (Z.of_nat p) -> exists d', d = S d' /\ depth P p d'.
Proof.
  intros D H. inversion D as [c' G|c' p' d' G G']; subst; rewrite H in G; injection G as G; [lia|].
  apply Nat2Z.inj in G. subst p'. exists d'. split; [reflexivity|exact G'].
Qed.

Lemma placed_depth cs ls i l c : Rep cs ls -> nth_error ls i = Some l -> In c l -> exists d, depth (c_pred cs) c d.
Proof.
  intros (_ & HR & _) Hl Hin. destruct (HR _ _ Hl) as (_ & HP & _).
  destruct (pred_chain_depth _ _ None O HP eq_refl c Hin) as [j Hj]. exists j. exact Hj.
Qed.

Lemma no_pred_cycle cs ls i1 a1 c1 b1 i2 a2 c2 b2 : Sizes cs -> Rep cs ls ->
  nth_error ls i1 = Some (a1 ++ c1 :: b1) -> nth_error ls i2 = Some (a2 ++ c2 :: b2) ->
  last_or None a1 = Some c2 -> last_or None a2 = Some c1 -> False.
Proof.
  intros S R H1 H2 E1 E2.
  destruct (rep_cell_facts _ _ _ _ _ _ S R H1) as (_ & _ & _ & HP1 & _).
  destruct (rep_cell_facts _ _ _ _ _ _ S R H2) as (_ & _ & _ & HP2 & _).
  rewrite E1 in HP1. rewrite E2 in HP2. cbn [enc] in HP1, HP2.
  destruct (placed_depth _ _ _ _ c1 R H1) as [d1 D1]; [apply in_or_app; right; left; reflexivity|].
  destruct (depth_pred _ _ _ _ D1 HP1) as (d2 & -> & D2).
  destruct (depth_pred _ _ _ _ D2 HP2) as (d3 & -> & D3).
  pose proof (depth_fun _ _ _ D1 _ D3). lia.
Qed.

Lemma pred_row_ok cs ls i a c b q : Sizes cs -> Rep cs ls -> nth_error ls i = Some (a ++ c :: b) ->
  last_or None a = Some q -> nth_error (c_row cs) q = Some (Z.of_nat i) /\ q <> c.
Proof.
  intros S R Hn E. destruct (rep_cell_facts _ _ _ _ _ _ S R Hn) as (_ & ND & Hcells & _).
  apply last_or_none_in in E. split; [apply Hcells; apply in_or_app; left; exact E|].
  intros ->. apply NoDup_remove_2 in ND. apply ND, in_or_app. left. exact E.
Qed.

Lemma predOk_rows cs' i pred : 
  (pred = None \/ exists p, pred = Some p /\ nth_error (c_row cs') p = Some (Z.of_nat i)) ->
  predOk cs' (Z.of_nat i) (enc pred) = true.
Proof. apply predOk_spec. Qed.

Lemma two_places cs2 s2 cA iA pA xA cB iB pB xB : Sim cs2 s2 -> predOk cs2 (Z.of_nat iA) (enc pA) = true ->
  (forall cs3, MovesConcrete.place cs2 (Z.of_nat cA) (Z.of_nat iA) (enc pA) xA = Some cs3 -> predOk cs3 (Z.of_nat iB) (enc pB) = true) ->
  orel Sim (do cs3 <- MovesConcrete.place cs2 (Z.of_nat cA) (Z.of_nat iA) (enc pA) xA; MovesConcrete.place cs3 (Z.of_nat cB) (Z.of_nat iB) (enc pB) xB)
           (match Moves.place s2 cA iA pA xA with Some s3 => Moves.place s3 cB iB pB xB | None => None end).
Proof.
  intros H PO1 PO2. pose proof (place_sim cs2 s2 cA iA pA xA H PO1) as P.
  destruct (MovesConcrete.place cs2 (Z.of_nat cA) (Z.of_nat iA) (enc pA) xA) as [cs3|] eqn:E,
           (Moves.place s2 cA iA pA xA) as [s3|]; cbn [orel] in P; try contradiction; [|exact I].
  apply place_sim; [exact P|]. apply PO2. reflexivity.
Qed.

Lemma opt_nat_eqb_true a b : opt_nat_eqb a b = true -> a = b.
Proof. destruct a, b; cbn; try discriminate; [|reflexivity]. intros H. apply Nat.eqb_eq in H. congruence. Qed.
Lemma opt_nat_eqb_false a b : opt_nat_eqb a b = false -> a <> b.
Proof. intros H ->. destruct b; cbn in H; [rewrite Nat.eqb_refl in H|]; discriminate. Qed.

Theorem swap_sim_rep cs ls c1 c2 : Sizes cs -> Rep cs ls ->
  orel SimRep (MovesConcrete.swap cs (Z.of_nat c1) (Z.of_nat c2)) (Moves.swap (abs_d cs ls) c1 c2).
Proof.
  intros S R. unfold MovesConcrete.swap, Moves.swap. rewrite (canSwap_eq _ _ _ _ S R).
  destruct (can_swap (abs_d cs ls) c1 c2) as [[|]|] eqn:CS; cbn [negb]; try exact I.
  unfold can_swap in CS.
  destruct (rep_cell_cases cs ls c1 R) as [(i1 & a1 & b1 & Hn1)|[Hnot _]].
  2:{ rewrite (abs_find_row_none _ _ _ Hnot) in CS. discriminate. }
  destruct (abs_find_row _ _ _ _ _ _ S R Hn1) as (g1 & G1 & F1). rewrite F1 in *.
  destruct (rep_cell_cases cs ls c2 R) as [(i2 & a2 & b2 & Hn2)|[Hnot _]].
  2:{ rewrite (abs_find_row_none _ _ _ Hnot) in CS. discriminate. }
  destruct (abs_find_row _ _ _ _ _ _ S R Hn2) as (g2 & G2 & F2). rewrite F2 in *. clear F1 F2.
  destruct (Nat.eqb_spec c1 c2) as [->|N12]; [discriminate|]. clear CS.
  destruct (placed_reads _ _ _ _ _ _ S R Hn1) as (g1' & pol1 & G1' & Hpol1 & Hc1 & HR1 & HP1 & _ & HX1 & HW1).
  destruct (placed_reads _ _ _ _ _ _ S R Hn2) as (g2' & pol2 & G2' & Hpol2 & Hc2 & HR2 & HP2 & _ & HX2 & HW2).
  rewrite G1 in G1'. injection G1' as <-. rewrite G2 in G2'. injection G2' as <-.
  (* the positions *)
  cbn [bounds_of mkrow dr_min dr_max]. rewrite !pred_of_map by exact (fun x => eq_refl).
  set (p1 := last_or None a1) in *. set (p2 := last_or None a2) in *.
  unfold positionsOnSwap, cellX, cellPred, cellRow, cellWidth. rewrite !getZ_nat, HX1, HX2, HP1, HP2, HR1, HR2, HW1, HW2.
  change (Z.of_nat c2) with (enc (Some c2)). change (Z.of_nat c1) with (enc (Some c1)). rewrite !enc_eqb.
  cbn [enc]. rewrite (boundaryBefore_eq _ _ _ _ _ _ _ S R Hn1 G1), (boundaryBefore_eq _ _ _ _ _ _ _ S R Hn2 G2),
    (boundaryAfter_eq _ _ _ _ _ _ _ S R Hn1 G1), (boundaryAfter_eq _ _ _ _ _ _ _ S R Hn2 G2).
  (* the two unplace steps *)
  assert (Htail : forall x1 x2,
    orel SimRep
      (do cs0 <- MovesConcrete.unplace cs (Z.of_nat c1);
       do cs3 <- MovesConcrete.unplace cs0 (Z.of_nat c2);
       if opt_nat_eqb p1 (Some c2)
       then do cs4 <- MovesConcrete.place cs3 (Z.of_nat c1) (Z.of_nat i2) (enc p2) x1; MovesConcrete.place cs4 (Z.of_nat c2) (Z.of_nat i1) (Z.of_nat c1) x2
       else if opt_nat_eqb p2 (Some c1)
       then do cs4 <- MovesConcrete.place cs3 (Z.of_nat c2) (Z.of_nat i1) (enc p1) x2; MovesConcrete.place cs4 (Z.of_nat c1) (Z.of_nat i2) (Z.of_nat c2) x1
       else do cs4 <- MovesConcrete.place cs3 (Z.of_nat c1) (Z.of_nat i2) (enc p2) x1; MovesConcrete.place cs4 (Z.of_nat c2) (Z.of_nat i1) (enc p1) x2)
      (match Moves.unplace (abs_d cs ls) c1 with
       | Some s1 => match Moves.unplace s1 c2 with
         | Some s2 =>
           if opt_nat_eqb p1 (Some c2)
           then match Moves.place s2 c1 i2 p2 x1 with Some s3 => Moves.place s3 c2 i1 (Some c1) x2 | None => None end
           else if opt_nat_eqb p2 (Some c1)
           then match Moves.place s2 c2 i1 p1 x2 with Some s3 => Moves.place s3 c1 i2 (Some c2) x1 | None => None end
           else match Moves.place s2 c1 i2 p2 x1 with Some s3 => Moves.place s3 c2 i1 p1 x2 | None => None end
         | None => None end
       | None => None end)).
  { intros x1 x2.
    pose proof (unplace_sim_rep cs ls c1 S R) as U1.
    destruct (MovesConcrete.unplace cs (Z.of_nat c1)) as [cs1|] eqn:E1, (Moves.unplace (abs_d cs ls) c1) as [s1|]; cbn [orel] in U1; try contradiction; [|exact I].
    apply SimRep_Sim in U1. pose proof (unplace_sim cs1 s1 c2 U1) as U2.
    destruct (MovesConcrete.unplace cs1 (Z.of_nat c2)) as [cs2|] eqn:E2, (Moves.unplace s1 c2) as [s2|]; cbn [orel] in U2; try contradiction; [|exact I].
    apply orel_SimRep_Sim.
    assert (R2 : c_row cs2 = upd (upd (c_row cs) c1 (-1)) c2 (-1)).
    { rewrite (unplace_row _ _ _ E2), (unplace_row _ _ _ E1). reflexivity. }
    assert (L2 : length (c_row cs2) = nb_cells cs) by (rewrite R2, !length_upd; destruct S as (_ & _ & SR & _); exact SR).
    assert (Keep : forall q i, q <> c1 -> q <> c2 -> nth_error (c_row cs) q = Some (Z.of_nat i) -> nth_error (c_row cs2) q = Some (Z.of_nat i)).
    { intros q i Hq1 Hq2 Hq. rewrite R2, !upd_other by congruence. exact Hq. }
    destruct (opt_nat_eqb p1 (Some c2)) eqn:B1; [|destruct (opt_nat_eqb p2 (Some c1)) eqn:B2].
    - (* c2 is the predecessor of c1 *)
      apply opt_nat_eqb_true in B1.
      assert (i1 = i2) as <-.
      { eapply (rep_cell_unique cs ls i1 i2 _ _ c2 R Hn1); [|exact Hn2|apply in_or_app; right; left; reflexivity].
        apply in_or_app. left. apply last_or_none_in. exact B1. }
      change (Z.of_nat c1) with (enc (Some c1)) at 2. apply two_places; [exact U2| |].
      + apply predOk_rows. destruct p2 as [q|] eqn:Ep2; [right|left; reflexivity]. exists q. split; [reflexivity|].
        destruct (pred_row_ok _ _ _ _ _ _ _ S R Hn2 Ep2) as [Hq Hq2]. apply Keep; try assumption.
        intros ->. exact (no_pred_cycle _ _ _ _ _ _ _ _ _ _ S R Hn1 Hn2 B1 Ep2).
      + intros cs3 E3. apply predOk_rows. right. exists c1. split; [reflexivity|].
        rewrite (place_row _ _ _ _ _ _ E3). apply upd_same. lia.
    - (* c1 is the predecessor of c2 *)
      apply opt_nat_eqb_true in B2. apply opt_nat_eqb_false in B1.
      assert (i1 = i2) as <-.
      { eapply (rep_cell_unique cs ls i1 i2 _ _ c1 R Hn1); [|exact Hn2|].
        - apply in_or_app. right. left. reflexivity.
        - apply in_or_app. left. apply last_or_none_in. exact B2. }
      change (Z.of_nat c2) with (enc (Some c2)) at 2. apply two_places; [exact U2| |].
      + apply predOk_rows. destruct p1 as [q|] eqn:Ep1; [right|left; reflexivity]. exists q. split; [reflexivity|].
        destruct (pred_row_ok _ _ _ _ _ _ _ S R Hn1 Ep1) as [Hq Hq1]. apply Keep; try assumption. congruence.
      + intros cs3 E3. apply predOk_rows. right. exists c2. split; [reflexivity|].
        rewrite (place_row _ _ _ _ _ _ E3). apply upd_same. lia.
    - apply opt_nat_eqb_false in B1, B2. apply two_places; [exact U2| |].
      + apply predOk_rows. destruct p2 as [q|] eqn:Ep2; [right|left; reflexivity]. exists q. split; [reflexivity|].
        destruct (pred_row_ok _ _ _ _ _ _ _ S R Hn2 Ep2) as [Hq Hq2]. apply Keep; try assumption. congruence.
      + intros cs3 E3. apply predOk_rows. destruct p1 as [q|] eqn:Ep1; [right|left; reflexivity]. exists q. split; [reflexivity|].
        destruct (pred_row_ok _ _ _ _ _ _ _ S R Hn1 Ep1) as [Hq Hq1].
        rewrite (place_row _ _ _ _ _ _ E3), upd_other by congruence. apply Keep; try assumption. congruence. }
  destruct (opt_nat_eqb p1 (Some c2)) eqn:B1; [|destruct (opt_nat_eqb p2 (Some c1)) eqn:B2]; apply Htail.
Qed.

Theorem swap_sim cs s c1 c2 : Sim cs s ->
  orel Sim (MovesConcrete.swap cs (Z.of_nat c1) (Z.of_nat c2)) (Moves.swap s c1 c2).
Proof.
  intros H. apply SimRep_Sim in H as (S & ls & R & D). apply orel_SimRep_Sim.
  eapply orel_sim_deq; [exact (swap_sim_rep cs ls c1 c2 S R)|]. apply swap_compat. exact D.
Qed.

Lemma split_site_pre_false cs ls i pred r : Sizes cs -> Rep cs ls -> predOk cs (Z.of_nat i) (enc pred) = false ->
  nth_error (d_rows (abs_d cs ls)) i = Some r -> split_site pred (dr_cells r) = None.
Proof.
  intros S R PO E. unfold abs_d in E. cbn [d_rows] in E.
  destruct pred as [p|]; [|unfold predOk in PO; cbn in PO; discriminate].
  assert (exists g l, nth_error ls i = Some l /\ r = mkrow (cell_d cs) g l) as (g & l & Hl & ->).
  { destruct (nth_error (c_rows cs) i) as [g|] eqn:G; [|rewrite nth_error_mkrows_none in E by exact G; discriminate].
    destruct (nth_error ls i) as [l|] eqn:Hl.
    - exists g, l. rewrite (nth_error_mkrows _ _ _ _ _ _ G Hl) in E. injection E as <-. split; reflexivity.
    - destruct R as (HL & _). apply nth_error_None in Hl. apply nth_error_lt in G. unfold nb_rows in HL. lia. }
  cbn [mkrow dr_cells]. apply split_at_none_notin; [exact (fun x => eq_refl)|].
  intros Hin. pose proof (rep_row_of _ _ _ _ _ R Hl Hin) as E'.
  assert (predOk cs (Z.of_nat i) (enc (Some p)) = true) by (apply predOk_spec; right; exists p; split; [reflexivity|exact E']).
  congruence.
Qed.

Theorem insert_pre_false cs s c i pred : Sim cs s -> predOk cs (Z.of_nat i) (enc pred) = false ->
  Moves.insert s c i pred = None.
Proof.
  intros H PO. apply SimRep_Sim in H as (S & ls & R & D).
  pose proof (insert_compat _ _ c i pred D) as C.
  assert (A : Moves.insert (abs_d cs ls) c i pred = None).
  { unfold Moves.insert. destruct (can_insert _ _ _ _) as [[|]|]; try reflexivity.
    destruct (find_row _ _ _) as [[[[[? ?] ?] ?] ?]|]; [|reflexivity].
    destruct (nth_error (d_rows (abs_d cs ls)) i) as [r|] eqn:E; [|reflexivity].
    rewrite (split_site_pre_false _ _ _ _ _ S R PO E). reflexivity. }
  rewrite A in C. destruct (Moves.insert s c i pred); [contradiction|reflexivity].
Qed.

(* ====================================================================== *)
(* 10. histories                                                           *)
(* ====================================================================== *)
Theorem apply_sim cs s o : Sim cs s -> cop_pre cs o = true -> orel Sim (apply_cop cs o) (apply_mop s o).
Proof.
  intros H Pre. destruct o as [c1 c2|c r p|c|c r p x]; cbn [apply_cop apply_mop cop_pre] in *.
  - apply swap_sim. exact H.
  - apply insert_sim; assumption.
  - apply unplace_sim. exact H.
  - apply place_sim; assumption.
Qed.

Theorem apply_pre_false cs s o : Sim cs s -> cop_pre cs o = false -> apply_mop s o = None.
Proof.
  intros H Pre. destruct o as [c1 c2|c r p|c|c r p x]; cbn [apply_mop cop_pre] in *; try discriminate.
  - eapply insert_pre_false; eassumption.
  - eapply place_pre_false; eassumption.
Qed.

Theorem step_sim cs s o : Sim cs s -> Sim (step_cop cs o) (step_mop s o).
Proof.
  intros H. unfold step_cop, step_mop. destruct (cop_pre cs o) eqn:Pre.
  - pose proof (apply_sim cs s o H Pre) as A.
    destruct (apply_cop cs o), (apply_mop s o); cbn [orel] in A; try contradiction; assumption.
  - rewrite (apply_pre_false cs s o H Pre). exact H.
Qed.

Theorem run_sim ops : forall cs s, Sim cs s -> Sim (run_cops cs ops) (run_mops s ops).
Proof.
  induction ops as [|o ops IH]; intros cs s H; cbn [run_cops run_mops fold_left]; [exact H|].
  apply IH. apply step_sim. exact H.
Qed.

Lemma Sim_abs cs s : WF cs -> abs cs = Some s -> Sim cs s.
Proof. intros W A. split; [exact W|]. exists s. split; [exact A|apply deq_refl]. Qed.

(* legality is preserved by every history of concrete operations *)
Theorem run_cops_legal ops cs s : WF cs -> abs cs = Some s -> Inv s ->
  WF (run_cops cs ops) /\ exists s', abs (run_cops cs ops) = Some s' /\ Inv s' /\ deq s' (run_mops s ops).
Proof.
  intros W A I. destruct (run_sim ops cs s (Sim_abs _ _ W A)) as (W' & s' & A' & D).
  split; [exact W'|]. exists s'. split; [exact A'|]. split; [|exact D].
  eapply deq_Inv; [apply deq_sym; exact D|]. apply run_mops_inv. exact I.
Qed.

(* ====================================================================== *)
(* 11. well-formedness, pointwise (what DetailedPlacement::check() looks at, plus reachability) *)
(* ====================================================================== *)
(* check() verifies: the array sizes; per row: first == -1 iff last == -1, cellRow(first) == row,
   cellPred(first) == -1, cellRow(last) == row, cellNext(last) == -1; per cell: the row number is
   in range, an unplaced cell has no pred/next, the pred/next of a placed cell are in the same row,
   a cell without pred is the first of its row, a cell without next the last.  It does NOT verify
   that cellNext(cellPred(c)) == c / cellPred(cellNext(c)) == c nor that every placed cell is
   reachable from the first cell of its row; WFp adds both (a detached cycle of zero-width cells
   passes check()). *)
Definition WFp (cs : cstate) : Prop :=
  Sizes cs /\
  (forall i f, nth_error (c_first cs) i = Some f ->
     (f = -1 /\ nth_error (c_last cs) i = Some (-1)) \/
     (exists fc lc, f = Z.of_nat fc /\ nth_error (c_last cs) i = Some (Z.of_nat lc) /\
        nth_error (c_row cs) fc = Some (Z.of_nat i) /\ nth_error (c_pred cs) fc = Some (-1) /\
        nth_error (c_row cs) lc = Some (Z.of_nat i) /\ nth_error (c_next cs) lc = Some (-1))) /\
  (forall c r, nth_error (c_row cs) c = Some r ->
     (r = -1 /\ nth_error (c_pred cs) c = Some (-1) /\ nth_error (c_next cs) c = Some (-1)) \/
     (exists i, r = Z.of_nat i /\ (i < nb_rows cs)%nat /\
        ((nth_error (c_pred cs) c = Some (-1) /\ nth_error (c_first cs) i = Some (Z.of_nat c)) \/
         (exists p, nth_error (c_pred cs) c = Some (Z.of_nat p) /\ nth_error (c_row cs) p = Some (Z.of_nat i) /\
                    nth_error (c_next cs) p = Some (Z.of_nat c))) /\
        ((nth_error (c_next cs) c = Some (-1) /\ nth_error (c_last cs) i = Some (Z.of_nat c)) \/
         (exists q, nth_error (c_next cs) c = Some (Z.of_nat q) /\ nth_error (c_row cs) q = Some (Z.of_nat i) /\
                    nth_error (c_pred cs) q = Some (Z.of_nat c))))) /\
  (* following cellPred_ from a placed cell reaches a cell without predecessor in finitely many steps *)
  (forall c i, nth_error (c_row cs) c = Some (Z.of_nat i) -> exists d, depth (c_pred cs) c d).

(* ---------- WF -> WFp ---------- *)
Lemma WF_WFp cs : WF cs -> WFp cs.
Proof.
  intros (S & ls & R). split; [exact S|]. pose proof R as (HL & HR & HC). split; [|split].
  - intros i f Hf.
    assert (Hi : (i < length ls)%nat) by (apply nth_error_lt in Hf; destruct S as (_ & _ & _ & _ & _ & _ & _ & SF & _); lia).
    destruct (nth_error ls i) as [l|] eqn:Hl; [|apply nth_error_None in Hl; lia].
    destruct (HR _ _ Hl) as (RR & RP & RN & RF & RLa). rewrite Hf in RF. injection RF as ->.
    destruct l as [|fc l']; [left; split; [reflexivity|exact RLa]|right].
    destruct (last_or_cases None (fc :: l')) as [[E _]|(a & lc & E & E')]; [discriminate|].
    exists fc, lc. rewrite E' in RLa. rewrite Forall_forall in RR. cbn [pred_chain] in RP.
    split; [reflexivity|]. split; [exact RLa|]. split; [apply RR; left; reflexivity|]. split; [apply RP|].
    rewrite E in *. split; [apply RR, in_or_app; right; left; reflexivity|].
    apply next_chain_app in RN as [_ RN]. apply RN.
  - intros c r Hr. destruct (HC _ _ Hr) as [H|(i & l & -> & Hl & Hin)]; [left; exact H|right].
    exists i. split; [reflexivity|]. apply in_split in Hin as (a & b & ->).
    destruct (rep_cell_facts _ _ _ _ _ _ S R Hl) as (Hi & ND & Hcells & HP & HN).
    destruct (HR _ _ Hl) as (_ & _ & _ & RF & RLa).
    split; [exact Hi|]. split.
    + destruct (last_or_cases None a) as [[-> E]|(a0 & p & -> & E)]; rewrite E in HP.
      * left. split; [exact HP|exact RF].
      * right. exists p. split; [exact HP|]. split; [apply Hcells, in_or_app; left; apply in_or_app; right; left; reflexivity|].
        destruct (rep_site_facts cs ls i (a0 ++ [p]) (c :: b) S R Hl) as (_ & _ & _ & _ & H). apply (H p). apply last_or_snoc.
    + destruct b as [|q b'].
      * left. split; [exact HN|]. rewrite RLa, last_or_snoc. reflexivity.
      * right. exists q. split; [exact HN|]. split; [apply Hcells, in_or_app; right; right; left; reflexivity|].
        assert (Hl' : nth_error ls i = Some ((a ++ [c]) ++ q :: b')) by (rewrite <- app_assoc; exact Hl).
        destruct (rep_cell_facts _ _ _ _ _ _ S R Hl') as (_ & _ & _ & HPq & _). rewrite last_or_snoc in HPq. exact HPq.
  - intros c i Hc. destruct (HC _ _ Hc) as [(E & _)|(j & l & E & Hl & Hin)]; [lia|].
    eapply placed_depth; eassumption.
Qed.

(* ---------- WFp -> WF: the row lists are rebuilt by following cellNext_ ---------- *)
Lemma wfp_seg_exists cs i : WFp cs -> forall fuel c0 p,
  nth_error (c_row cs) c0 = Some (Z.of_nat i) -> nth_error (c_pred cs) c0 = Some (enc p) ->
  exists l', Forall (fun c => nth_error (c_row cs) c = Some (Z.of_nat i)) (c0 :: l') /\
             pred_chain (c_pred cs) p (c0 :: l') /\
             (next_chain (c_next cs) (c0 :: l') None \/
              exists q, next_chain (c_next cs) (c0 :: l') (Some q) /\ length (c0 :: l') = S fuel /\
                        nth_error (c_row cs) q = Some (Z.of_nat i) /\
                        nth_error (c_pred cs) q = Some (enc (last_or None (c0 :: l')))).
Proof.
  intros (_ & _ & HC & _). induction fuel as [|f IH]; intros c0 p HR HP.
  - exists []. split; [constructor; [exact HR|constructor]|]. split; [cbn; split; [exact HP|exact I]|].
    destruct (HC _ _ HR) as [(E & _)|(j & E & _ & _ & [[HN _]|(q & HN & HRq & HPq)])]; [lia| |].
    + left. cbn. split; [exact HN|exact I].
    + right. exists q. apply Nat2Z.inj in E. subst j. cbn [next_chain hd_or enc length]. repeat split; assumption.
  - destruct (HC _ _ HR) as [(E & _)|(j & E & _ & _ & [[HN _]|(q & HN & HRq & HPq)])]; [lia| |].
    + exists []. split; [constructor; [exact HR|constructor]|]. split; [cbn; split; [exact HP|exact I]|].
      left. cbn. split; [exact HN|exact I].
    + apply Nat2Z.inj in E. subst j. destruct (IH q (Some c0) HRq HPq) as (l' & F & PC & NC).
      exists (q :: l'). split; [constructor; assumption|]. split; [cbn [pred_chain]; split; assumption|].
      destruct NC as [NC|(q' & NC & L & HRq' & HPq')].
      * left. cbn [next_chain hd_or]. split; [exact HN|exact NC].
      * right. exists q'. split; [cbn [next_chain hd_or]; split; [exact HN|exact NC]|].
        split; [cbn [length] in *; lia|]. split; [exact HRq'|exact HPq'].
Qed.

Lemma wfp_row_exists cs i : WFp cs -> (i < nb_rows cs)%nat ->
  exists l, row_rep cs i l /\ forall c, nth_error (c_row cs) c = Some (Z.of_nat i) -> In c l.
Proof.
  intros W Hi. pose proof W as (S & HRows & HC & HD).
  destruct (nth_error (c_first cs) i) as [f|] eqn:Hf.
  2:{ apply nth_error_None in Hf. destruct S as (_ & _ & _ & _ & _ & _ & _ & SF & _). lia. }
  assert (Reach : forall l, nth_error (c_first cs) i = Some (enc (hd_or l None)) ->
            next_chain (c_next cs) l None ->
            forall d c, depth (c_pred cs) c d -> nth_error (c_row cs) c = Some (Z.of_nat i) -> In c l).
  { intros l HF NC. induction d as [|d IH]; intros c D HRc.
    - inversion D as [c' HP|]; subst.
      destruct (HC _ _ HRc) as [(E & _)|(j & E & _ & [[_ HF']|(p & HP' & _)] & _)]; [lia| |rewrite HP in HP'; injection HP' as HP'; lia].
      apply Nat2Z.inj in E. subst j. rewrite HF in HF'. injection HF' as HF'.
      destruct l as [|x l']; cbn [hd_or enc] in HF'; [lia|]. apply Nat2Z.inj in HF'. subst x. left. reflexivity.
    - inversion D as [|c' p d' HP Dp]; subst.
      destruct (HC _ _ HRc) as [(E & _)|(j & E & _ & [[HP' _]|(p' & HP' & HRp & HNp)] & _)]; [lia|rewrite HP in HP'; injection HP' as HP'; lia|].
      apply Nat2Z.inj in E. subst j. rewrite HP in HP'. injection HP' as HP'. apply Nat2Z.inj in HP'. subst p'.
      pose proof (IH p Dp HRp) as Hin. apply in_split in Hin as (a & b & ->).
      apply next_chain_app in NC as [_ NC]. cbn [next_chain] in NC. destruct NC as [NC _]. rewrite HNp in NC. injection NC as NC.
      destruct b as [|x b']; cbn [hd_or enc] in NC; [lia|]. apply Nat2Z.inj in NC. subst x.
      apply in_or_app. right. right. left. reflexivity. }
  destruct (HRows _ _ Hf) as [(-> & HLa)|(fc & lc & -> & HLa & HRf & HPf & _)].
  - (* empty row *)
    exists []. split.
    + split; [constructor|]. split; [exact I|]. split; [exact I|]. split; [exact Hf|exact HLa].
    + intros c HRc. destruct (HD _ _ HRc) as [d D]. exact (Reach [] Hf I d c D HRc).
  - destruct (wfp_seg_exists cs i W (nb_cells cs) fc None HRf HPf) as (l' & F & PC & NC).
    set (l := fc :: l') in *.
    assert (NCN : next_chain (c_next cs) l None).
    { destruct NC as [NC|(q & NC & L & HRq & HPq)]; [exact NC|exfalso].
      assert (PC' : pred_chain (c_pred cs) None (l ++ [q])) by (apply pred_chain_app; split; [exact PC|cbn; split; [exact HPq|exact I]]).
      pose proof (pred_chain_nodup _ _ None O PC' eq_refl) as ND.
      assert (B : (length (l ++ [q]) <= nb_cells cs)%nat).
      { apply nodup_bounded_length; [exact ND|]. intros x Hx. destruct S as (_ & _ & SR & _).
        apply in_app_or in Hx as [Hx|[<-|[]]].
        - rewrite Forall_forall in F. apply F in Hx. apply nth_error_lt in Hx. lia.
        - apply nth_error_lt in HRq. lia. }
      rewrite app_length in B. cbn [length] in B. lia. }
    exists l. split.
    + split; [exact F|]. split; [exact PC|]. split; [exact NCN|]. split; [exact Hf|].
      destruct (last_or_cases None l) as [[E _]|(a & z & E & E')]; [discriminate|]. rewrite E'.
      rewrite E in NCN, F. apply next_chain_app in NCN as [_ NCN]. cbn in NCN. destruct NCN as [NCN _].
      rewrite Forall_forall in F. assert (HRz : nth_error (c_row cs) z = Some (Z.of_nat i)) by (apply F, in_or_app; right; left; reflexivity).
      destruct (HC _ _ HRz) as [(E0 & _)|(j & E0 & _ & _ & [[_ HL]|(q & HN' & _)])]; [lia| |rewrite NCN in HN'; injection HN' as HN'; lia].
      apply Nat2Z.inj in E0. subst j. exact HL.
    + intros c HRc. destruct (HD _ _ HRc) as [d D]. exact (Reach l Hf NCN d c D HRc).
Qed.

Lemma list_choice {A} (Q : nat -> A -> Prop) : forall m, (forall i, (i < m)%nat -> exists a, Q i a) ->
  exists l, length l = m /\ forall i a, nth_error l i = Some a -> Q i a.
Proof.
  induction m as [|m IH]; intros H.
  - exists []. split; [reflexivity|]. intros [|i] a; discriminate.
  - destruct IH as (l & L & HQ); [intros i Hi; apply H; lia|]. destruct (H m) as [a Ha]; [lia|].
    exists (l ++ [a]). split; [rewrite app_length; cbn; lia|]. intros i b Hb.
    destruct (Nat.lt_ge_cases i (length l)) as [Hi|Hi].
    + rewrite nth_error_app1 in Hb by exact Hi. apply HQ. exact Hb.
    + rewrite nth_error_app2 in Hb by exact Hi. destruct (i - length l)%nat as [|k] eqn:E; cbn in Hb.
      * injection Hb as <-. replace i with m by lia. exact Ha.
      * destruct k; discriminate.
Qed.

Theorem WFp_WF cs : WFp cs -> WF cs.
Proof.
  intros W. pose proof W as (S & _ & HC & _). split; [exact S|].
  destruct (list_choice (fun i l => row_rep cs i l /\ forall c, nth_error (c_row cs) c = Some (Z.of_nat i) -> In c l)
              (nb_rows cs) (fun i Hi => wfp_row_exists cs i W Hi)) as (ls & L & H).
  exists ls. split; [exact L|]. split; [intros i l Hl; apply (H i l Hl)|].
  intros c r Hr. destruct (HC _ _ Hr) as [E|(i & -> & Hi & _)]; [left; exact E|right].
  destruct (nth_error ls i) as [l|] eqn:Hl; [|apply nth_error_None in Hl; lia].
  exists i, l. split; [reflexivity|]. split; [exact Hl|]. apply (H i l Hl). exact Hr.
Qed.

Theorem WF_iff_WFp cs : WF cs <-> WFp cs.
Proof. split; [apply WF_WFp|apply WFp_WF]. Qed.

(* ====================================================================== *)
(* 12. arguments that are not indices: every operation fails (no default is ever read) *)
(* ====================================================================== *)
Lemma unplace_neg cs z : z < 0 -> MovesConcrete.unplace cs z = None.
Proof. intros H. unfold MovesConcrete.unplace, cellRow. rewrite getZ_neg by exact H. reflexivity. Qed.

Lemma place_neg_cell cs z row pred x : z < 0 -> MovesConcrete.place cs z row pred x = None.
Proof. intros H. unfold MovesConcrete.place, canPlace, isPlaced, cellRow. rewrite getZ_neg by exact H. reflexivity. Qed.

Lemma place_bad_pred cs c row pred x : pred < -1 -> MovesConcrete.place cs c row pred x = None.
Proof.
  intros H. unfold MovesConcrete.place, canPlace, siteBegin, cellX.
  replace (pred =? -1) with false by (symmetry; apply Z.eqb_neq; lia). rewrite (getZ_neg (c_x cs)) by lia.
  destruct (isPlaced cs c) as [[|]|]; reflexivity.
Qed.

Lemma insert_neg_cell cs z row pred : z < 0 -> MovesConcrete.insert cs z row pred = None.
Proof. intros H. unfold MovesConcrete.insert, canInsert, isPlaced, cellRow. rewrite getZ_neg by exact H. reflexivity. Qed.

Lemma swap_neg_cell cs z1 z2 : z1 < 0 \/ z2 < 0 -> MovesConcrete.swap cs z1 z2 = None.
Proof.
  intros H. unfold MovesConcrete.swap, canSwap, isPlaced, cellRow. destruct H as [H|H].
  - rewrite getZ_neg by exact H. reflexivity.
  - rewrite (getZ_neg (c_row cs) z2) by exact H. destruct (getZ (c_row cs) z1) as [r|]; [|reflexivity].
    destruct (negb (negb (r =? -1))); reflexivity.
Qed.

(* ====================================================================== *)
(* 13. the statements in terms of `abs` only (used by Properties_C02.v)     *)
(* ====================================================================== *)
Lemma WF_abs_d cs s : WF cs -> abs cs = Some s -> Sizes cs /\ exists ls, Rep cs ls /\ s = abs_d cs ls.
Proof.
  intros (S & ls & R) A. split; [exact S|]. exists ls. split; [exact R|].
  rewrite (abs_of_rep _ _ S R) in A. injection A as <-. reflexivity.
Qed.

Theorem unplace_commutes cs s c : WF cs -> abs cs = Some s ->
  match MovesConcrete.unplace cs (Z.of_nat c), Moves.unplace s c with
  | Some cs', Some s' => WF cs' /\ exists s'', abs cs' = Some s'' /\ deq s'' s'
  | None, None => True
  | _, _ => False
  end.
Proof. intros W A. exact (unplace_sim cs s c (Sim_abs cs s W A)). Qed.

Theorem place_commutes cs s c i pred x : WF cs -> abs cs = Some s -> predOk cs (Z.of_nat i) (enc pred) = true ->
  match MovesConcrete.place cs (Z.of_nat c) (Z.of_nat i) (enc pred) x, Moves.place s c i pred x with
  | Some cs', Some s' => WF cs' /\ exists s'', abs cs' = Some s'' /\ deq s'' s'
  | None, None => True
  | _, _ => False
  end.
Proof. intros W A PO. exact (place_sim cs s c i pred x (Sim_abs cs s W A) PO). Qed.

Theorem place_refused_without_predOk cs s c i pred x : WF cs -> abs cs = Some s ->
  predOk cs (Z.of_nat i) (enc pred) = false -> Moves.place s c i pred x = None.
Proof. intros W A PO. exact (place_pre_false cs s c i pred x (Sim_abs cs s W A) PO). Qed.

Theorem insert_commutes cs s c i pred : WF cs -> abs cs = Some s -> predOk cs (Z.of_nat i) (enc pred) = true ->
  match MovesConcrete.insert cs (Z.of_nat c) (Z.of_nat i) (enc pred), Moves.insert s c i pred with
  | Some cs', Some s' => WF cs' /\ exists s'', abs cs' = Some s'' /\ deq s'' s'
  | None, None => True
  | _, _ => False
  end.
Proof. intros W A PO. exact (insert_sim cs s c i pred (Sim_abs cs s W A) PO). Qed.

Theorem swap_commutes cs s c1 c2 : WF cs -> abs cs = Some s ->
  match MovesConcrete.swap cs (Z.of_nat c1) (Z.of_nat c2), Moves.swap s c1 c2 with
  | Some cs', Some s' => WF cs' /\ exists s'', abs cs' = Some s'' /\ deq s'' s'
  | None, None => True
  | _, _ => False
  end.
Proof. intros W A. exact (swap_sim cs s c1 c2 (Sim_abs cs s W A)). Qed.

Theorem concrete_refines_abstract ops cs s : WF cs -> abs cs = Some s ->
  WF (run_cops cs ops) /\ exists s', abs (run_cops cs ops) = Some s' /\ deq s' (run_mops s ops).
Proof. intros W A. exact (run_sim ops cs s (Sim_abs cs s W A)). Qed.

(* guards *)
Theorem canSwap_abs cs s c1 c2 : WF cs -> abs cs = Some s ->
  canSwap cs (Z.of_nat c1) (Z.of_nat c2) = can_swap s c1 c2.
Proof. intros W A. destruct (WF_abs_d _ _ W A) as (S & ls & R & ->). apply canSwap_eq; assumption. Qed.

Theorem canInsert_abs cs s c i pred : WF cs -> abs cs = Some s -> predOk cs (Z.of_nat i) (enc pred) = true ->
  canInsert cs (Z.of_nat c) (Z.of_nat i) (enc pred) = can_insert s c i pred.
Proof. intros W A PO. destruct (WF_abs_d _ _ W A) as (S & ls & R & ->). apply canInsert_eq; assumption. Qed.

(* a site of the abstract row, read back on the representation *)
Lemma abs_site_inv cs ls i r pred a b : Sizes cs -> Rep cs ls ->
  nth_error (d_rows (abs_d cs ls)) i = Some r -> split_site pred (dr_cells r) = Some (a, b) ->
  exists g la lb, nth_error (c_rows cs) i = Some g /\ nth_error ls i = Some (la ++ lb) /\ last_or None la = pred /\
    r = mkrow (cell_d cs) g (la ++ lb) /\ a = map (cell_d cs) la /\ b = map (cell_d cs) lb.
Proof.
  intros S R E Sp. unfold abs_d in E. cbn [d_rows] in E.
  assert (exists g l, nth_error (c_rows cs) i = Some g /\ nth_error ls i = Some l /\ r = mkrow (cell_d cs) g l) as (g & l & G & Hl & ->).
  { destruct (nth_error (c_rows cs) i) as [g|] eqn:G; [|rewrite nth_error_mkrows_none in E by exact G; discriminate].
    destruct (nth_error ls i) as [l|] eqn:Hl.
    - exists g, l. rewrite (nth_error_mkrows _ _ _ _ _ _ G Hl) in E. injection E as <-. repeat split; reflexivity.
    - destruct R as (HL & _). apply nth_error_None in Hl. apply nth_error_lt in G. unfold nb_rows in HL. lia. }
  cbn [mkrow dr_cells] in Sp. exists g.
  destruct pred as [p|].
  - destruct (in_dec Nat.eq_dec p l) as [Hin|Hnot].
    + apply in_split in Hin as (a0 & b0 & ->).
      assert (Hl' : nth_error ls i = Some ((a0 ++ [p]) ++ b0)) by (rewrite <- app_assoc; exact Hl).
      destruct (rep_site_facts _ _ _ _ _ S R Hl') as (_ & ND & _).
      pose proof (split_site_rep (cell_d cs) (a0 ++ [p]) b0 (fun x => eq_refl) ND) as Sp'.
      rewrite last_or_snoc, <- app_assoc in Sp'. cbn [app] in Sp'. rewrite Sp in Sp'. injection Sp' as -> ->.
      exists (a0 ++ [p]), b0. rewrite <- app_assoc. cbn [app]. repeat split; try reflexivity; try assumption. apply last_or_snoc.
    + rewrite split_at_none_notin in Sp by (try exact (fun x => eq_refl); exact Hnot). discriminate.
  - cbn [split_site] in Sp. injection Sp as <- <-. exists [], l. repeat split; try reflexivity; assumption.
Qed.

Theorem site_abs cs s i r pred a b : WF cs -> abs cs = Some s ->
  nth_error (d_rows s) i = Some r -> split_site pred (dr_cells r) = Some (a, b) ->
  siteBegin cs (Z.of_nat i) (enc pred) = Some (site_begin (dr_min r) a) /\
  siteEnd cs (Z.of_nat i) (enc pred) = Some (site_end (dr_max r) b).
Proof.
  intros W A E Sp. destruct (WF_abs_d _ _ W A) as (S & ls & R & ->).
  destruct (abs_site_inv _ _ _ _ _ _ _ S R E Sp) as (g & la & lb & G & Hl & <- & -> & -> & ->).
  cbn [mkrow dr_min dr_max]. split; [eapply siteBegin_eq|eapply siteEnd_eq]; eassumption.
Qed.

Theorem canPlace_abs_site cs s c m loose' i r pred a b x : WF cs -> abs cs = Some s ->
  take_loose c (d_loose s) = Some (m, loose') ->
  nth_error (d_rows s) i = Some r -> split_site pred (dr_cells r) = Some (a, b) ->
  canPlace cs (Z.of_nat c) (Z.of_nat i) (enc pred) x =
  Some ((site_begin (dr_min r) a <=? x) && (x + p_w m <=? site_end (dr_max r) b)).
Proof.
  intros W A T E Sp. destruct (WF_abs_d _ _ W A) as (S & ls & R & ->).
  destruct (abs_site_inv _ _ _ _ _ _ _ S R E Sp) as (g & la & lb & G & Hl & <- & -> & -> & ->).
  unfold abs_d in T. cbn [d_loose] in T. pose proof (take_loose_loose cs c) as TL. rewrite T in TL.
  destruct TL as (Hc & U & -> & _). unfold unplaced in U.
  destruct (nth_error (c_row cs) c) as [rc|] eqn:HRc; [|discriminate]. apply Z.eqb_eq in U. subst rc.
  cbn [mkrow dr_min dr_max]. eapply canPlace_abs; eassumption.
Qed.

Theorem boundaries_abs cs s c i r a m b : WF cs -> abs cs = Some s ->
  find_row (d_rows s) c 0 = Some (i, r, a, m, b) ->
  boundaryBefore cs (Z.of_nat c) = Some (fst (bounds_of r a b)) /\
  boundaryAfter cs (Z.of_nat c) = Some (snd (bounds_of r a b)).
Proof.
  intros W A F. destruct (WF_abs_d _ _ W A) as (S & ls & R & ->).
  destruct (rep_cell_cases cs ls c R) as [(i0 & a0 & b0 & Hn)|[Hnot _]].
  2:{ rewrite (abs_find_row_none _ _ _ Hnot) in F. discriminate. }
  destruct (abs_find_row _ _ _ _ _ _ S R Hn) as (g & G & F'). rewrite F' in F. injection F as <- <- <- <- <-.
  cbn [bounds_of fst snd mkrow dr_min dr_max]. split; [eapply boundaryBefore_eq|eapply boundaryAfter_eq]; eassumption.
Qed.

Theorem apply_mop_compat s1 s2 o : deq s1 s2 ->
  match apply_mop s1 o, apply_mop s2 o with
  | Some a, Some b => deq a b | None, None => True | _, _ => False end.
Proof.
  intros D. destruct o; cbn [apply_mop].
  - exact (swap_compat s1 s2 _ _ D).
  - exact (insert_compat s1 s2 _ _ _ D).
  - exact (unplace_compat s1 s2 _ D).
  - exact (place_compat s1 s2 _ _ _ _ D).
Qed.
