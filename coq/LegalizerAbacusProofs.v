(* Proofs about the RAW model of the Abacus pass of the legalizer (Legalizer.v:
   a_try / a_scan / a_place / abacus_state / a_fill / abacus_run), for every row
   list and every list of cells of positive width: each placed cell lies inside
   the row segment it was recorded in, on its bottom edge, with the segment's
   height; cells recorded in the same segment do not overlap; a cell is recorded
   at most once; the orientation given to a placed cell is the one
   get_orientation prescribes for that segment and it is never INVALID. *)
From Coq Require Import List ZArith Lia Bool.
Import ListNotations.
Require Import CV.Orient CV.FreeSpace CV.RowLeg CV.RowLegProofs CV.Circuit CV.Legalizer.
Local Open Scope Z_scope.

(* ------------------------------------------------------------------ *)
(* list plumbing *)

Lemma upd_length {A} (l : list A) i a : length (upd l i a) = length l.
Proof. revert i. induction l as [|x l IH]; intros [|i]; cbn [upd length]; try reflexivity. rewrite IH. reflexivity. Qed.

Lemma nth_error_upd_eq {A} (l : list A) i a : (i < length l)%nat -> nth_error (upd l i a) i = Some a.
Proof.
  revert i. induction l as [|x l IH]; intros [|i]; cbn [upd length nth_error]; try lia; try reflexivity.
  intros H. apply IH. lia.
Qed.

Lemma nth_error_upd_neq {A} (l : list A) i j a : i <> j -> nth_error (upd l i a) j = nth_error l j.
Proof.
  revert i j. induction l as [|x l IH]; intros [|i] [|j] H; cbn [upd nth_error]; try reflexivity; try lia.
  apply IH. lia.
Qed.

Lemma nth_error_upd_inv {A} (l : list A) i j a x :
  nth_error (upd l i a) j = Some x -> (j = i /\ x = a) \/ (j <> i /\ nth_error l j = Some x).
Proof.
  intros H. destruct (Nat.eq_dec i j) as [->|Hn].
  - left. split; [reflexivity|]. assert (j < length l)%nat.
    { rewrite <- (upd_length l j a). apply nth_error_Some. congruence. }
    rewrite nth_error_upd_eq in H by assumption. congruence.
  - right. rewrite nth_error_upd_neq in H by assumption. split; [congruence|exact H].
Qed.

Lemma nthZ_Some {A} (l : list A) i x :
  nthZ l i = Some x -> 0 <= i /\ nth_error l (Z.to_nat i) = Some x.
Proof. unfold nthZ. destruct (i <? 0) eqn:E; [discriminate|]. intros H. apply Z.ltb_ge in E. split; [lia|exact H]. Qed.

Lemma nthZ_of_nat {A} (l : list A) i : nthZ l (Z.of_nat i) = nth_error l i.
Proof. unfold nthZ. destruct (Z.of_nat i <? 0) eqn:E; [apply Z.ltb_lt in E; lia|]. rewrite Nat2Z.id. reflexivity. Qed.

Lemma nth_error_rev_inv {A} (l : list A) k x :
  nth_error (rev l) k = Some x -> (k < length l)%nat /\ nth_error l (length l - 1 - k) = Some x.
Proof.
  revert k. induction l as [|a l IH]; intros k; cbn [rev length].
  - destruct k; discriminate.
  - intros H. assert (Hk : (k < length (rev l ++ [a]))%nat) by (apply nth_error_Some; congruence).
    rewrite app_length, rev_length in Hk. cbn [length] in Hk.
    destruct (Nat.eq_dec k (length l)) as [->|Hn].
    + rewrite nth_error_app2 in H by (rewrite rev_length; lia).
      rewrite rev_length, Nat.sub_diag in H. cbn in H. split; [lia|].
      replace (S (length l) - 1 - length l)%nat with O by lia. exact H.
    + rewrite nth_error_app1 in H by (rewrite rev_length; lia).
      apply IH in H as [H1 H2]. split; [lia|].
      replace (S (length l) - 1 - k)%nat with (S (length l - 1 - k)) by lia. exact H2.
Qed.

Lemma In_combine_nth_error {A B} (l : list A) (l' : list B) a b :
  In (a, b) (combine l l') -> exists k, nth_error l k = Some a /\ nth_error l' k = Some b.
Proof.
  revert l'. induction l as [|x l IH]; intros [|y l']; cbn [combine In]; try tauto.
  intros [[= -> ->]|H].
  - exists O. split; reflexivity.
  - apply IH in H as (k & H1 & H2). exists (S k). split; assumption.
Qed.

Lemma Forall2_nth_error_l {A B} (P : A -> B -> Prop) l l' k a :
  Forall2 P l l' -> nth_error l k = Some a -> exists b, nth_error l' k = Some b /\ P a b.
Proof.
  intros H. revert k. induction H as [|x y l l' Hxy H IH]; intros [|k]; cbn [nth_error]; try discriminate.
  - intros [= <-]. exists y. split; [reflexivity|exact Hxy].
  - apply IH.
Qed.

(* ------------------------------------------------------------------ *)
(* the row legalizer: what a push does to the fields, legality read oldest-first *)

Lemma push_fields s w t :
  rbegin (fst (push s w t)) = rbegin s /\ rend (fst (push s w t)) = rend s /\
  widths (fst (push s w t)) = w :: widths s.
Proof.
  unfold push, get_displacement.
  destruct (pop_loop _ _ _ _ _ _ _ _) as [[[[q passed] slope] cur] cost]. cbn. repeat split.
Qed.

(* the positions returned by getPlacement (oldest first) against the widths oldest first *)
Lemma legal_rev_oldest_first b hi pl ws :
  Forall (fun w => 0 < w) ws -> legal_rev b hi pl ws ->
  (forall k x w, nth_error (rev pl) k = Some x -> nth_error (rev ws) k = Some w -> b <= x /\ x + w <= hi) /\
  (forall k k' x w x', (k < k')%nat -> nth_error (rev pl) k = Some x -> nth_error (rev ws) k = Some w ->
                       nth_error (rev pl) k' = Some x' -> x + w <= x').
Proof.
  intros Hpos Hl. destruct (legal_rev_pairwise _ _ _ _ Hpos Hl) as (Hlen & Hin & Hpair). split.
  - intros k x w Hx Hw. apply nth_error_rev_inv in Hx as [_ Hx]. apply nth_error_rev_inv in Hw as [_ Hw].
    rewrite <- Hlen in Hw. eapply Hin; eassumption.
  - intros k k' x w x' Hk Hx Hw Hx'.
    apply nth_error_rev_inv in Hx as [Hk1 Hx]. apply nth_error_rev_inv in Hw as [_ Hw].
    apply nth_error_rev_inv in Hx' as [Hk2 Hx']. rewrite <- Hlen in Hw.
    eapply (Hpair (length pl - 1 - k')%nat (length pl - 1 - k)%nat); try eassumption. lia.
Qed.

(* ------------------------------------------------------------------ *)
(* the invariant of the loop over the cells *)

Section Abacus.
Variable rows : list row.
Variable cells : list cell.

(* the row was acceptable for the cell when it was chosen *)
Definition fits (i : nat) (r : row) (c : cell) : Prop :=
  maxY (rr r) - minY (rr r) = ch c /\
  exists o, get_orientation rows c (Z.of_nat i) = Some o /\ o <> oINVALID.

Definition row_ok (i : nat) (r : row) (lg : rl) (rc : list nat) : Prop :=
  rbegin lg = minX (rr r) /\ rend lg = maxX (rr r) /\
  cp_ok (rbegin lg) (rend lg) (cpos lg) (widths lg) (used lg) /\ 0 <= used lg /\ sorted_q (bounds lg) /\
  Forall2 (fun ci w => exists c, nth_error cells ci = Some c /\ cw c = w /\ fits i r c) rc (rev (widths lg)).

Record AInv (legs : list rl) (rcs : list (list nat)) (n : nat) : Prop := {
  ai_len1 : length legs = length rows;
  ai_len2 : length rcs = length rows;
  ai_row : forall i r lg rc, nth_error rows i = Some r -> nth_error legs i = Some lg ->
                             nth_error rcs i = Some rc -> row_ok i r lg rc;
  ai_nodup : forall i rc, nth_error rcs i = Some rc -> NoDup rc;
  ai_lt : forall i rc ci, nth_error rcs i = Some rc -> In ci rc -> (ci < n)%nat;
  ai_uniq : forall i j rc rc' ci, nth_error rcs i = Some rc -> nth_error rcs j = Some rc' ->
                                  In ci rc -> In ci rc' -> i = j }.

Lemma row_ok_push i r lg rc ci c :
  row_ok i r lg rc -> nth_error cells ci = Some c -> fits i r c -> 0 < cw c ->
  cw c <= remaining_space lg ->
  row_ok i r (fst (push lg (cw c) (ctx c))) (rc ++ [ci]).
Proof.
  intros (Hb & He & Hcp & Hu & Hs & Hf) Hc Hfit Hw Hrem.
  assert (HI : Inv lg).
  { unfold Inv. unfold remaining_space in Hrem. repeat split; try assumption; lia. }
  pose proof (push_inv lg (cw c) (ctx c) HI Hw Hrem) as (Hcp' & _ & Hu' & Hs').
  destruct (push_fields lg (cw c) (ctx c)) as (Eb & Ee & Ew).
  unfold row_ok. rewrite Ew. repeat split; try assumption; try congruence.
  cbn [rev]. apply Forall2_app; [exact Hf|]. constructor; [|constructor].
  exists c. repeat split; try assumption. apply Hfit. apply Hfit.
Qed.

(* ---- the scan only ever selects a row that fits ---- *)
Definition good_row (legs : list rl) (c : cell) (b : Z) : Prop :=
  b = -1 \/
  exists r lg, nthZ rows b = Some r /\ nthZ legs b = Some lg /\
               maxY (rr r) - minY (rr r) = ch c /\ cw c <= remaining_space lg /\
               exists o, get_orientation rows c b = Some o /\ o <> oINVALID.

Lemma a_try_good legs c i st :
  good_row legs c (fst st) -> good_row legs c (fst (snd (a_try rows legs c i st))).
Proof.
  destruct st as [bestRow bestDist]. unfold a_try. cbn [fst snd]. intros Hg.
  destruct (nthZ rows i) as [r|] eqn:Er; [|exact Hg].
  destruct (nthZ legs i) as [lg|] eqn:El; [|exact Hg].
  destruct (negb (maxY (rr r) - minY (rr r) =? ch c)) eqn:Eh; [exact Hg|].
  destruct (negb (bestRow =? -1) && (bestDist <? cw c * Z.abs (minY (rr r) - cty c))); [exact Hg|].
  destruct (remaining_space lg <? cw c) eqn:Es; [exact Hg|].
  destruct (get_orientation rows c i) as [o|] eqn:Eo; [|exact Hg].
  destruct (orient_eqb o oINVALID) eqn:Ei; [exact Hg|].
  destruct ((bestRow =? -1) || (_ <? bestDist)); [|exact Hg].
  cbn [fst snd]. right. exists r, lg. repeat split; try assumption.
  - apply negb_false_iff, Z.eqb_eq in Eh. exact Eh.
  - apply Z.ltb_ge in Es. exact Es.
  - exists o. split; [exact Eo|]. intros ->. discriminate.
Qed.

Lemma a_scan_good legs c idx st :
  good_row legs c (fst st) -> good_row legs c (fst (a_scan rows legs c idx st)).
Proof.
  revert st. induction idx as [|i idx IH]; intros st Hg; cbn [a_scan]; [exact Hg|].
  pose proof (a_try_good legs c i st Hg) as Ht.
  destruct (a_try rows legs c i st) as [stop st']. cbn [snd] in Ht.
  destruct stop; [exact Ht|apply IH; exact Ht].
Qed.

(* ---- one cell ---- *)
Lemma a_place_inv legs rcs n c legs' rcs' b :
  AInv legs rcs n -> nth_error cells n = Some c -> 0 < cw c ->
  a_place rows legs rcs n c = (legs', rcs', b) -> AInv legs' rcs' (S n).
Proof.
  intros HI Hc Hw. unfold a_place.
  assert (Hweak : AInv legs rcs (S n)).
  { destruct HI. constructor; try assumption. intros i rc ci H1 H2. specialize (ai_lt0 i rc ci H1 H2). lia. }
  pose proof (a_scan_good legs c (rev (zrange 0 (closest_row rows (cty c))))
     (a_scan rows legs c (zrange (closest_row rows (cty c)) (Z.of_nat (length rows))) (-1, 9223372036854775807))) as Hg.
  destruct (a_scan rows legs c (rev _) _) as [bestRow bd]. cbn [fst] in Hg.
  destruct (bestRow =? -1) eqn:Eb; [intros [= <- <- <-]; exact Hweak|].
  destruct (nthZ legs bestRow) as [lg|] eqn:El; [|intros [= <- <- <-]; exact Hweak].
  destruct (nthZ rcs bestRow) as [rc|] eqn:Erc; [|intros [= <- <- <-]; exact Hweak].
  intros [= <- <- <-].
  assert (Hgood : good_row legs c bestRow).
  { apply Hg. apply a_scan_good. left. reflexivity. }
  destruct Hgood as [->|(r & lg0 & Hr & Hl0 & Hh & Hrem & o & Ho & Hoi)]; [discriminate|].
  rewrite El in Hl0. injection Hl0 as <-.
  apply nthZ_Some in Hr as [Hb0 Hr]. apply nthZ_Some in El as [_ El]. apply nthZ_Some in Erc as [_ Erc].
  set (bi := Z.to_nat bestRow) in *.
  assert (Hbi : Z.of_nat bi = bestRow) by (unfold bi; lia).
  assert (Hbl : (bi < length legs)%nat) by (apply nth_error_Some; congruence).
  assert (Hbr : (bi < length rcs)%nat) by (apply nth_error_Some; congruence).
  destruct HI as [L1 L2 Hrow Hnd Hlt Huq].
  constructor.
  - rewrite upd_length. exact L1.
  - rewrite upd_length. exact L2.
  - intros i r' lg' rc' Hr' Hl' Hrc'.
    apply nth_error_upd_inv in Hl' as [[-> ->]|[Hne Hl']].
    + rewrite nth_error_upd_eq in Hrc' by assumption. injection Hrc' as <-.
      rewrite Hr in Hr'. injection Hr' as <-.
      apply row_ok_push; try assumption.
      * eapply Hrow; eassumption.
      * split; [exact Hh|]. exists o. rewrite Hbi. split; assumption.
    + rewrite nth_error_upd_neq in Hrc' by congruence. eapply Hrow; eassumption.
  - intros i rc' Hrc'. apply nth_error_upd_inv in Hrc' as [[-> ->]|[Hne Hrc']].
    + pose proof (NoDup_rev (Hnd bi rc Erc)) as Hn. rewrite <- (rev_involutive (rc ++ [n])).
      apply NoDup_rev. rewrite rev_app_distr. cbn [rev app]. constructor.
      * rewrite <- in_rev. intros Hin. specialize (Hlt bi rc n Erc Hin). lia.
      * exact Hn.
    + eapply Hnd; eassumption.
  - intros i rc' ci Hrc' Hin. apply nth_error_upd_inv in Hrc' as [[-> ->]|[Hne Hrc']].
    + apply in_app_iff in Hin as [Hin|[<-|[]]]; [|lia]. specialize (Hlt bi rc ci Erc Hin). lia.
    + specialize (Hlt i rc' ci Hrc' Hin). lia.
  - intros i j rc1 rc2 ci H1 H2 I1 I2.
    apply nth_error_upd_inv in H1 as [[-> ->]|[Hn1 H1]]; apply nth_error_upd_inv in H2 as [[-> ->]|[Hn2 H2]].
    + reflexivity.
    + apply in_app_iff in I1 as [I1|[<-|[]]].
      * eapply Huq; eassumption.
      * specialize (Hlt j rc2 n H2 I2). lia.
    + apply in_app_iff in I2 as [I2|[<-|[]]].
      * eapply Huq; eassumption.
      * specialize (Hlt i rc1 n H1 I1). lia.
    + eapply Huq; eassumption.
Qed.

(* ---- the whole loop ---- *)
Lemma a_loop_inv cs : forall pre legs rcs,
  cells = pre ++ cs -> Forall (fun c => 0 < cw c) cs -> AInv legs rcs (length pre) ->
  forall legs' rcs' n', fold_left (a_step rows) cs (legs, rcs, length pre) = (legs', rcs', n') ->
  AInv legs' rcs' (length cells) /\ n' = length cells.
Proof.
  induction cs as [|c cs IH]; intros pre legs rcs Hsplit Hpos HI legs' rcs' n'; cbn [fold_left].
  - intros [= <- <- <-]. rewrite Hsplit, app_nil_r. split; [exact HI|reflexivity].
  - unfold a_step at 2. destruct (a_place rows legs rcs (length pre) c) as [[legs1 rcs1] b] eqn:Ep.
    inversion Hpos as [|? ? Hw Hpos']; subst.
    assert (Hc : nth_error (pre ++ c :: cs) (length pre) = Some c).
    { rewrite nth_error_app2 by lia. rewrite Nat.sub_diag. reflexivity. }
    rewrite <- Hsplit in Hc.
    pose proof (a_place_inv _ _ _ _ _ _ _ HI Hc Hw Ep) as HI1.
    replace (S (length pre)) with (length (pre ++ [c])) in * by (rewrite app_length; cbn; lia).
    apply IH; try assumption. rewrite <- app_assoc. exact Hsplit.
Qed.

End Abacus.

(* ------------------------------------------------------------------ *)
(* initial state *)
Lemma a_init_inv rows cells :
  AInv rows cells (map (fun r => rl_init (minX (rr r)) (maxX (rr r))) rows) (map (fun _ => @nil nat) rows) 0.
Proof.
  assert (Hnil : forall i rc, nth_error (map (fun _ : row => @nil nat) rows) i = Some rc -> rc = []).
  { intros i rc H. apply nth_error_In, in_map_iff in H as (? & <- & _). reflexivity. }
  constructor.
  - apply map_length.
  - apply map_length.
  - intros i r lg rc Hr Hl Hrc. apply Hnil in Hrc. subst rc.
    rewrite (map_nth_error _ _ _ Hr) in Hl. injection Hl as <-.
    unfold row_ok, rl_init; cbn. repeat split; try reflexivity; try lia. constructor.
  - intros i rc H. apply Hnil in H. subst rc. constructor.
  - intros i rc ci H Hin. apply Hnil in H. subst rc. destruct Hin.
  - intros i j rc rc' ci H _ Hin. apply Hnil in H. subst rc. destruct Hin.
Qed.

Lemma abacus_state_inv rows cells legs rcs n :
  Forall (fun c => 0 < cw c) cells -> abacus_state rows cells = (legs, rcs, n) ->
  AInv rows cells legs rcs (length cells).
Proof.
  intros Hpos H. unfold abacus_state in H.
  eapply (a_loop_inv rows cells cells [] _ _ eq_refl Hpos (a_init_inv rows cells)). exact H.
Qed.

(* ------------------------------------------------------------------ *)
(* the read-back *)
Section Fill.
Variable rows : list row.
Variable cells : list cell.

Lemma fold_write_length i r l : forall res, length (fold_left (a_write rows cells i r) l res) = length res.
Proof.
  induction l as [|[cj x] l IH]; intros res; cbn [fold_left]; [reflexivity|]. rewrite IH.
  unfold a_write. destruct (nth_error cells cj) as [c|]; [|reflexivity].
  destruct (get_orientation rows c i); [apply upd_length|reflexivity].
Qed.

Lemma a_fill_length rws : forall i lgs rcl res, length (a_fill rows cells i rws lgs rcl res) = length res.
Proof.
  induction rws as [|r rws IH]; intros i [|lg lgs] [|rc rcl] res; cbn [a_fill]; try reflexivity.
  rewrite IH. apply fold_write_length.
Qed.

Lemma fold_write_spec i r l : forall res ci v,
  nth_error (fold_left (a_write rows cells i r) l res) ci = Some (Some v) ->
  nth_error res ci = Some (Some v) \/
  exists x c o, In (ci, x) l /\ nth_error cells ci = Some c /\ get_orientation rows c i = Some o /\
                v = (x, minY (rr r), o).
Proof.
  induction l as [|[cj x] l IH]; intros res ci v; cbn [fold_left]; [tauto|].
  intros H. apply IH in H as [H|(x' & c & o & Hin & Hc & Ho & ->)].
  - unfold a_write in H. destruct (nth_error cells cj) as [c|] eqn:Ec; [|left; exact H].
    destruct (get_orientation rows c i) as [o|] eqn:Eo; [|left; exact H].
    apply nth_error_upd_inv in H as [[-> Hv]|[_ H]]; [|left; exact H].
    right. injection Hv as ->. exists x, c, o. repeat split; try assumption. left. reflexivity.
  - right. exists x', c, o. repeat split; try assumption. right. exact Hin.
Qed.

(* cell ci got value v from position k of row (r, lg, rc) with global index i *)
Definition written (i : Z) (r : row) (lg : rl) (rc : list nat) (ci : nat) (v : Z * Z * orient) : Prop :=
  exists k x c o, nth_error rc k = Some ci /\ nth_error (placement lg) k = Some x /\
                  nth_error cells ci = Some c /\ get_orientation rows c i = Some o /\ v = (x, minY (rr r), o).

Lemma a_fill_spec rws : forall i lgs rcl res ci v,
  nth_error (a_fill rows cells i rws lgs rcl res) ci = Some (Some v) ->
  nth_error res ci = Some (Some v) \/
  exists j r lg rc, nth_error rws j = Some r /\ nth_error lgs j = Some lg /\ nth_error rcl j = Some rc /\
                    written (i + Z.of_nat j) r lg rc ci v.
Proof.
  induction rws as [|r rws IH]; intros i [|lg lgs] [|rc rcl] res ci v; cbn [a_fill]; try tauto.
  intros H. apply IH in H as [H|(j & r' & lg' & rc' & H1 & H2 & H3 & H4)].
  - apply fold_write_spec in H as [H|(x & c & o & Hin & Hc & Ho & ->)]; [left; exact H|].
    right. exists O, r, lg, rc. cbn [nth_error]. repeat split; try reflexivity.
    apply In_combine_nth_error in Hin as (k & Hk1 & Hk2).
    exists k, x, c, o. rewrite Z.add_0_r. repeat split; assumption.
  - right. exists (S j), r', lg', rc'. cbn [nth_error]. repeat split; try assumption.
    replace (i + Z.of_nat (S j)) with (i + 1 + Z.of_nat j) by lia. exact H4.
Qed.
End Fill.

(* ------------------------------------------------------------------ *)
(* geometry of one row from its invariant *)
Section RowGeometry.
Variable rows : list row.
Variable cells : list cell.

Lemma row_ok_widths_pos i r lg rc : row_ok rows cells i r lg rc -> Forall (fun w => 0 < w) (widths lg).
Proof. intros (_ & _ & Hcp & _). eapply cp_ok_widths_pos; exact Hcp. Qed.

Lemma row_ok_legal i r lg rc : row_ok rows cells i r lg rc ->
  legal_rev (minX (rr r)) (maxX (rr r)) (placement_aux (cpos lg) (widths lg) (used lg) None) (widths lg).
Proof.
  intros (Hb & He & Hcp & _). rewrite <- Hb, <- He. eapply placement_aux_legal; [exact Hcp|reflexivity].
Qed.

Lemma row_cell_inside i r lg rc k ci x c :
  row_ok rows cells i r lg rc -> nth_error rc k = Some ci -> nth_error (placement lg) k = Some x ->
  nth_error cells ci = Some c ->
  fits rows i r c /\ minX (rr r) <= x /\ x + cw c <= maxX (rr r).
Proof.
  intros Hok Hk Hx Hc.
  pose proof (row_ok_widths_pos _ _ _ _ Hok) as Hpos. pose proof (row_ok_legal _ _ _ _ Hok) as Hleg.
  destruct Hok as (_ & _ & _ & _ & _ & Hf).
  destruct (Forall2_nth_error_l _ _ _ _ _ Hf Hk) as (w & Hw & c' & Hc' & Hcw & Hfit).
  rewrite Hc in Hc'. injection Hc' as <-.
  destruct (legal_rev_oldest_first _ _ _ _ Hpos Hleg) as [Hin _].
  unfold placement in Hx. specialize (Hin k x w Hx Hw). split; [exact Hfit|lia].
Qed.

Lemma row_cells_ordered i r lg rc k k' ci x x' c :
  row_ok rows cells i r lg rc -> (k < k')%nat -> nth_error rc k = Some ci ->
  nth_error (placement lg) k = Some x -> nth_error (placement lg) k' = Some x' ->
  nth_error cells ci = Some c -> x + cw c <= x'.
Proof.
  intros Hok Hlt Hk Hx Hx' Hc.
  pose proof (row_ok_widths_pos _ _ _ _ Hok) as Hpos. pose proof (row_ok_legal _ _ _ _ Hok) as Hleg.
  destruct Hok as (_ & _ & _ & _ & _ & Hf).
  destruct (Forall2_nth_error_l _ _ _ _ _ Hf Hk) as (w & Hw & c' & Hc' & Hcw & Hfit).
  rewrite Hc in Hc'. injection Hc' as <-.
  destruct (legal_rev_oldest_first _ _ _ _ Hpos Hleg) as [_ Hord].
  unfold placement in Hx, Hx'. rewrite Hcw. eapply Hord; eassumption.
Qed.
End RowGeometry.

(* ------------------------------------------------------------------ *)
(* the theorems about abacus_run *)

(* the per-segment cell lists (cell indices, insertion order) the loop ends with *)
Definition abacus_rowcells (rows0 : list row) (cells : list cell) : list (list nat) :=
  snd (fst (abacus_state (sort_rows rows0) cells)).
Definition abacus_rowlegs (rows0 : list row) (cells : list cell) : list rl :=
  fst (fst (abacus_state (sort_rows rows0) cells)).

(* cell c at (x,y) sits in segment r: same height, on its bottom edge, inside its x-range *)
Definition in_segment (r : row) (c : cell) (x y : Z) : Prop :=
  maxY (rr r) - minY (rr r) = ch c /\ y = minY (rr r) /\ minX (rr r) <= x /\ x + cw c <= maxX (rr r).

Definition widths_positive (cells : list cell) : Prop := Forall (fun c => 0 < cw c) cells.

Lemma abacus_run_unfold rows0 cells :
  abacus_run rows0 cells =
  a_fill (sort_rows rows0) cells 0 (sort_rows rows0) (abacus_rowlegs rows0 cells) (abacus_rowcells rows0 cells)
         (map (fun _ => @None (Z * Z * orient)) cells).
Proof.
  unfold abacus_run, abacus_rowlegs, abacus_rowcells.
  destruct (abacus_state (sort_rows rows0) cells) as [[legs rcs] n]. reflexivity.
Qed.

Lemma abacus_final_inv rows0 cells :
  widths_positive cells ->
  AInv (sort_rows rows0) cells (abacus_rowlegs rows0 cells) (abacus_rowcells rows0 cells) (length cells).
Proof.
  intros Hpos. unfold abacus_rowlegs, abacus_rowcells.
  destruct (abacus_state (sort_rows rows0) cells) as [[legs rcs] n] eqn:E. cbn [fst snd].
  eapply abacus_state_inv; eassumption.
Qed.

(* where the value of a placed cell comes from *)
Lemma abacus_placed_origin rows0 cells ci c x y o :
  nth_error cells ci = Some c ->
  nth_error (abacus_run rows0 cells) ci = Some (Some (x, y, o)) ->
  exists i r lg rc k,
    nth_error (sort_rows rows0) i = Some r /\ nth_error (abacus_rowlegs rows0 cells) i = Some lg /\
    nth_error (abacus_rowcells rows0 cells) i = Some rc /\ nth_error rc k = Some ci /\
    nth_error (placement lg) k = Some x /\ y = minY (rr r) /\
    get_orientation (sort_rows rows0) c (Z.of_nat i) = Some o.
Proof.
  intros Hc H. rewrite abacus_run_unfold in H.
  apply a_fill_spec in H as [H|(j & r & lg & rc & H1 & H2 & H3 & (k & x' & c' & o' & K1 & K2 & K3 & K4 & K5))].
  - apply nth_error_In, in_map_iff in H as (? & H & _). discriminate.
  - rewrite Hc in K3. injection K3 as <-. injection K5 as -> -> ->.
    exists j, r, lg, rc, k. cbn [Z.add] in K4. repeat split; assumption.
Qed.

Theorem abacus_rows_legal rows0 cells :
  widths_positive cells ->
  let rows := sort_rows rows0 in
  let rcs := abacus_rowcells rows0 cells in
  let res := abacus_run rows0 cells in
  length res = length cells /\ length rcs = length rows /\
  (* a cell is recorded at most once: once in a segment, and in one segment only *)
  (forall i rc, nth_error rcs i = Some rc -> NoDup rc) /\
  (forall i j rc rc' ci, nth_error rcs i = Some rc -> nth_error rcs j = Some rc' ->
                         In ci rc -> In ci rc' -> i = j) /\
  (* every placed cell is recorded in a segment of its height and lies inside it, on its bottom edge *)
  (forall ci c x y o, nth_error cells ci = Some c -> nth_error res ci = Some (Some (x, y, o)) ->
     exists i r rc, nth_error rows i = Some r /\ nth_error rcs i = Some rc /\ In ci rc /\ in_segment r c x y) /\
  (* two different cells recorded in the same segment have disjoint x-intervals *)
  (forall i rc ci cj c c' x y o x' y' o',
     nth_error rcs i = Some rc -> In ci rc -> In cj rc -> ci <> cj ->
     nth_error cells ci = Some c -> nth_error cells cj = Some c' ->
     nth_error res ci = Some (Some (x, y, o)) -> nth_error res cj = Some (Some (x', y', o')) ->
     x + cw c <= x' \/ x' + cw c' <= x).
Proof.
  intros Hpos rows rcs res. pose proof (abacus_final_inv rows0 cells Hpos) as HI.
  destruct HI as [L1 L2 Hrow Hnd Hlt Huq]. fold rows rcs in L1, L2, Hrow, Hnd, Hlt, Huq.
  split; [|split; [exact L2|split; [exact Hnd|split; [exact Huq|split]]]].
  - unfold res. rewrite abacus_run_unfold, a_fill_length. apply map_length.
  - intros ci c x y o Hc Hres.
    destruct (abacus_placed_origin _ _ _ _ _ _ _ Hc Hres) as (i & r & lg & rc & k & H1 & H2 & H3 & H4 & H5 & -> & H7).
    exists i, r, rc. split; [exact H1|]. split; [exact H3|]. split; [eapply nth_error_In; exact H4|].
    destruct (row_cell_inside _ _ _ _ _ _ _ _ _ _ (Hrow i r lg rc H1 H2 H3) H4 H5 Hc) as ((Hh & _) & Hx1 & Hx2).
    unfold in_segment. repeat split; assumption.
  - intros i rc ci cj c c' x y o x' y' o' Hrc Ii Ij Hne Hc Hc' Hres Hres'.
    destruct (abacus_placed_origin _ _ _ _ _ _ _ Hc Hres) as (i1 & r1 & lg1 & rc1 & k1 & A1 & A2 & A3 & A4 & A5 & _ & _).
    destruct (abacus_placed_origin _ _ _ _ _ _ _ Hc' Hres') as (i2 & r2 & lg2 & rc2 & k2 & B1 & B2 & B3 & B4 & B5 & _ & _).
    fold rows in A1, B1. fold rcs in A3, B3.
    assert (i1 = i) by (eapply Huq; [exact A3|exact Hrc|eapply nth_error_In; exact A4|exact Ii]). subst i1.
    assert (i2 = i) by (eapply Huq; [exact B3|exact Hrc|eapply nth_error_In; exact B4|exact Ij]). subst i2.
    rewrite A1 in B1. injection B1 as <-. rewrite A2 in B2. injection B2 as <-.
    rewrite Hrc in A3, B3. injection A3 as <-. injection B3 as <-.
    pose proof (Hrow i r1 lg1 rc A1 A2 Hrc) as Hok.
    destruct (Nat.lt_total k1 k2) as [Hlt12|[->|Hlt21]].
    + left. eapply row_cells_ordered; [exact Hok|exact Hlt12|exact A4|exact A5|exact B5|exact Hc].
    + congruence.
    + right. eapply row_cells_ordered; [exact Hok|exact Hlt21|exact B4|exact B5|exact A5|exact Hc'].
Qed.

(* the orientation get_orientation gives cell c in a segment of orientation (ro r):
   the table entry, or the cell's own when the table says UNKNOWN (= keep) *)
Definition seg_orientation (c : cell) (r : row) : orient :=
  let t := cell_orientation_in_row (cpol c) (ro r) in if orient_eqb t oUNKNOWN then cor c else t.

(* C04 for the Abacus pass: the orientation of a placed cell is the one the polarity
   prescribes in the segment it was recorded in; it is never INVALID; a cell without
   polarity keeps its own *)
Theorem abacus_orientation_valid rows0 cells :
  widths_positive cells ->
  let rows := sort_rows rows0 in
  let rcs := abacus_rowcells rows0 cells in
  forall ci c x y o, nth_error cells ci = Some c ->
    nth_error (abacus_run rows0 cells) ci = Some (Some (x, y, o)) ->
    exists i r rc, nth_error rows i = Some r /\ nth_error rcs i = Some rc /\ In ci rc /\
                   in_segment r c x y /\
                   get_orientation rows c (Z.of_nat i) = Some o /\ o <> oINVALID /\
                   (cpol c = pANY -> o = cor c) /\
                   (cell_orientation_in_row (cpol c) (ro r) <> oUNKNOWN ->
                    o = cell_orientation_in_row (cpol c) (ro r)) /\
                   o = seg_orientation c r.
Proof.
  intros Hpos rows rcs ci c x y o Hc Hres. pose proof (abacus_final_inv rows0 cells Hpos) as HI.
  destruct HI as [L1 L2 Hrow Hnd Hlt Huq].
  destruct (abacus_placed_origin _ _ _ _ _ _ _ Hc Hres) as (i & r & lg & rc & k & H1 & H2 & H3 & H4 & H5 & -> & H7).
  exists i, r, rc. split; [exact H1|]. split; [exact H3|]. split; [eapply nth_error_In; exact H4|].
  destruct (row_cell_inside _ _ _ _ _ _ _ _ _ _ (Hrow i r lg rc H1 H2 H3) H4 H5 Hc) as ((Hh & o' & Ho' & Hinv) & Hx1 & Hx2).
  fold rows in H7. unfold rows in Ho'. fold rows in Ho'. rewrite H7 in Ho'. injection Ho' as <-.
  split; [unfold in_segment; repeat split; assumption|]. split; [exact H7|]. split; [exact Hinv|].
  unfold get_orientation in H7. rewrite nthZ_of_nat in H7. fold rows in H1. rewrite H1 in H7.
  injection H7 as <-. split; [|split].
  - intros ->. reflexivity.
  - intros Hu. destruct (orient_eqb _ oUNKNOWN) eqn:E; [|reflexivity].
    apply orient_eqb_eq in E. contradiction.
  - reflexivity.
Qed.

(* the same against the table transcribed from the documentation (Circuit.prescribed):
   a polarised cell placed in a segment whose orientation is known gets exactly the
   documented orientation, and the segment is not a forbidden one *)
Lemma prescribed_of_table p r o :
  p <> pANY -> r <> oUNKNOWN -> o = cell_orientation_in_row p r -> o <> oINVALID ->
  prescribed p r = Some (Some o).
Proof. intros Hp Hr -> Hi. destruct p, r; cbn in *; congruence. Qed.

Theorem abacus_orientation_prescribed rows0 cells :
  widths_positive cells ->
  let rows := sort_rows rows0 in
  let rcs := abacus_rowcells rows0 cells in
  forall ci c x y o, nth_error cells ci = Some c ->
    nth_error (abacus_run rows0 cells) ci = Some (Some (x, y, o)) ->
    exists i r rc, nth_error rows i = Some r /\ nth_error rcs i = Some rc /\ In ci rc /\
                   in_segment r c x y /\
                   (cpol c = pANY -> o = cor c) /\
                   (cpol c <> pANY -> ro r <> oUNKNOWN ->
                    prescribed (cpol c) (ro r) = Some (Some o) /\ o <> oINVALID).
Proof.
  intros Hpos rows rcs ci c x y o Hc Hres.
  destruct (abacus_orientation_valid rows0 cells Hpos ci c x y o Hc Hres)
    as (i & r & rc & H1 & H2 & H3 & H4 & H5 & H6 & H7 & H8 & _).
  exists i, r, rc. split; [exact H1|]. split; [exact H2|]. split; [exact H3|]. split; [exact H4|].
  split; [exact H7|]. intros Hp Hr. split; [|exact H6].
  apply prescribed_of_table; try assumption. apply H8.
  destruct (cpol c), (ro r); cbn; congruence.
Qed.

Print Assumptions abacus_rows_legal.
Print Assumptions abacus_orientation_prescribed.
Print Assumptions abacus_orientation_valid.
