(* C13 -- the round budget  cubic_fuel n = n^3 + 2n + 1  that Ssp.v first gave updateTree's loop is NOT sufficient
   (Ssp.v now uses big_fuel).
   Witness: 12 sinks (sink 0 of capacity 5, sinks 1..11 of capacity 1), 11 sources of demand 1, costs below.
   Source i goes to sink a = 11 - i (the sinks fill in the order 11, 10, .., 1; each arrival makes a sink full and
   calls updateTree).  In the last call the moving costs are  a -> u : a - u - 2^(u-2)  for u > a (negative),
   a -> sink 0 : 4196 + a,  a -> u : 4307 for 0 < u < a.  The loop extracts the marked sink of smallest label;
   extracting u lowers the labels of ALL a < u below everything they had, so the sinks below u are re-extracted in
   the same pattern: 2^11 extractions + 1 final round = 2049 > 1753 = cubic_fuel 12.  (D. B. Johnson's 1973 example
   for Dijkstra's algorithm with negative arcs, realised as a reachable state of the solver.)
   The C++ (harness/transp.cpp) returns the optimal plan of cost 23628 on this input; with one more sink the number of
   rounds doubles (22 full sinks: 1 s; the costs stay below INT_MAX up to 28 full sinks). *)
From Coq Require Import List ZArith Lia Bool.
Import ListNotations.
Require Import CV.LpCert CV.Ssp CV.SspProofs CV.SspF.
Local Open Scope Z_scope.

Definition cex_pb : Pb :=
  mkPb [5; 1; 1; 1; 1; 1; 1; 1; 1; 1; 1; 1] [1; 1; 1; 1; 1; 1; 1; 1; 1; 1; 1]
    [[6355; 6354; 6353; 6352; 6351; 6350; 6349; 6348; 6347; 6346; 6345];
     [6455; 6455; 6455; 6455; 6455; 6455; 6455; 6455; 6455; 6455; 2148];
     [6455; 6455; 6455; 6455; 6455; 6455; 6455; 6455; 6455; 2148; 2146];
     [6455; 6455; 6455; 6455; 6455; 6455; 6455; 6455; 2148; 2145; 2144];
     [6455; 6455; 6455; 6455; 6455; 6455; 6455; 2148; 2143; 2142; 2141];
     [6455; 6455; 6455; 6455; 6455; 6455; 2148; 2139; 2138; 2137; 2136];
     [6455; 6455; 6455; 6455; 6455; 2148; 2131; 2130; 2129; 2128; 2127];
     [6455; 6455; 6455; 6455; 2148; 2115; 2114; 2113; 2112; 2111; 2110];
     [6455; 6455; 6455; 2148; 2083; 2082; 2081; 2080; 2079; 2078; 2077];
     [6455; 6455; 2148; 2019; 2018; 2017; 2016; 2015; 2014; 2013; 2012];
     [6455; 2148; 1891; 1890; 1889; 1888; 1887; 1886; 1885; 1884; 1883];
     [2148; 1635; 1634; 1633; 1632; 1631; 1630; 1629; 1628; 1627; 1626]].

Definition costs_in_range (pb : Pb) : bool :=
  forallb (forallb (fun c => (0 <=? c) && (c <? INT_MAX))) (costs pb).

Lemma costs_in_range_sound pb : costs_in_range pb = true -> forall j i, 0 <= cost pb j i < INT_MAX.
Proof.
  unfold costs_in_range, cost, get2. intros H j i. rewrite forallb_forall in H.
  destruct (Nat.lt_ge_cases j (length (costs pb))) as [Hj|Hj].
  - specialize (H _ (nth_In _ [] Hj)). rewrite forallb_forall in H.
    destruct (Nat.lt_ge_cases i (length (nth j (costs pb) []))) as [Hi|Hi].
    + specialize (H _ (nth_In _ 0 Hi)). apply andb_true_iff in H. destruct H as [H1 H2].
      apply Z.leb_le in H1. apply Z.ltb_lt in H2. lia.
    + rewrite (nth_overflow (nth j (costs pb) [])) by exact Hi. unfold INT_MAX. lia.
  - rewrite (nth_overflow (costs pb)) by exact Hj. destruct i; cbn; unfold INT_MAX; lia.
Qed.

Lemma tree_fuel_insufficient :
  check_pb cex_pb = true /\ (forall j i, 0 <= cost cex_pb j i < INT_MAX) /\
  total_demand cex_pb <= total_capacity cex_pb /\
  sspF cubic_fuel cex_pb = Fail (EFuel 483) /\
  ssp cex_pb =
    Ok (map (fun j => map (fun i => if (j + i =? 11)%nat then 1 else 0) (seq 0 11)) (seq 0 12)) /\
  cubic_fuel (nsnk cex_pb) = 1753%positive /\
  sspF (fun _ => 2048%positive) cex_pb = Fail (EFuel 483) /\
  sspF (fun _ => 2049%positive) cex_pb = ssp cex_pb.
Proof.
  split; [vm_compute; reflexivity|]. split; [apply costs_in_range_sound; vm_compute; reflexivity|].
  split; [vm_compute; discriminate|]. split; [vm_compute; reflexivity|]. split; [vm_compute; reflexivity|].
  split; [vm_compute; reflexivity|]. split; vm_compute; reflexivity.
Qed.
