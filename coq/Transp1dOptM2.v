(* C14 optimality, part M2: every plan X (matrix) of a sorted problem costs at least as much as the staircase plan
   with the same supplies and the same sink loads. *)
From Coq Require Import List ZArith Lia Bool Arith.
Import ListNotations.
Require Import CV.LpCert CV.Transp1dOptM1.
Local Open Scope Z_scope.

Lemma zsum_ge_term (f : nat -> Z) l j : (forall k, In k l -> 0 <= f k) -> In j l -> f j <= zsum f l.
Proof.
  induction l as [|a r IH]; intros Hn Hj; [contradiction|]. cbn [zsum].
  assert (0 <= zsum f r).
  { pose proof (zsum_le (fun _ => 0) f r (fun k Hk => Hn k (or_intror Hk))) as Q. rewrite zsum_zero in Q. exact Q. }
  assert (0 <= f a) by (apply Hn; left; reflexivity).
  destruct Hj as [->|Hj]; [lia|]. specialize (IH (fun k Hk => Hn k (or_intror Hk)) Hj). lia.
Qed.

Lemma zsum_snoc f a k : zsum f (seq a (S k)) = zsum f (seq a k) + f (a + k)%nat.
Proof.
  rewrite seq_S. induction (seq a k) as [|x r IH]; cbn [app zsum]; [lia|]. rewrite IH. lia.
Qed.

(* sum of the overlaps of [a,b) with the consecutive intervals [T_k, T_{k+1}) *)
Lemma ovl_tele (Tf : nat -> Z) a b : forall N, (forall j k, (j <= k)%nat -> (k <= N)%nat -> Tf j <= Tf k) ->
  zsum (fun k => Z.max 0 (Z.min b (Tf (k + 1)%nat) - Z.max a (Tf k))) (seq 0 N)
  = Z.max 0 (Z.min b (Tf N) - Z.max a (Tf 0%nat)).
Proof.
  induction N as [|N IH]; intros H.
  - cbn [seq zsum]. lia.
  - rewrite zsum_snoc, IH by (intros j k H1 H2; apply H; lia). cbn [Nat.add].
    pose proof (H 0%nat N ltac:(lia) ltac:(lia)). pose proof (H N (S N) ltac:(lia) ltac:(lia)).
    replace (N + 1)%nat with (S N) by lia. lia.
Qed.

Section Cheapest.
Variables (n m : nat) (u v Sc : nat -> Z) (X : nat -> nat -> Z).
Hypothesis Hu : forall i k, (i <= k)%nat -> (k < n)%nat -> u i <= u k.
Hypothesis Hv : forall j k, (j <= k)%nat -> (k < m)%nat -> v j <= v k.
Hypothesis HS : forall i k, (i <= k)%nat -> (k <= n)%nat -> Sc i <= Sc k.
Hypothesis HS0 : Sc 0%nat = 0.
Hypothesis Xpos : forall i j, (i < n)%nat -> (j < m)%nat -> 0 <= X i j.
Hypothesis Xrow : forall i, (i < n)%nat -> zsum (fun j => X i j) (seq 0 m) = Sc (i + 1)%nat - Sc i.

Definition ell (j : nat) : Z := zsum (fun i => X i j) (seq 0 n).
Definition Tl (j : nat) : Z := zsum ell (seq 0 j).

Lemma ell_nonneg j : (j < m)%nat -> 0 <= ell j.
Proof.
  intros Hj. unfold ell.
  assert (Q : zsum (fun _ => 0) (seq 0 n) <= zsum (fun i => X i j) (seq 0 n)).
  { apply zsum_le. intros i Hi. apply in_seq in Hi. apply Xpos; lia. }
  rewrite zsum_zero in Q. exact Q.
Qed.

Lemma Tl_S j : Tl (j + 1)%nat = Tl j + ell j.
Proof. unfold Tl. replace (j + 1)%nat with (S j) by lia. rewrite zsum_snoc. reflexivity. Qed.

Lemma Tl_mono : forall j k, (j <= k)%nat -> (k <= m)%nat -> Tl j <= Tl k.
Proof.
  intros j k. induction k as [|k IH]; intros H1 H2.
  - replace j with 0%nat by lia. lia.
  - destruct (Nat.eq_dec j (S k)) as [->|Hne]; [lia|]. specialize (IH ltac:(lia) ltac:(lia)).
    pose proof (Tl_S k) as E. replace (k + 1)%nat with (S k) in E by lia. pose proof (ell_nonneg k ltac:(lia)). lia.
Qed.

Lemma Sc_tele : forall k, (k <= n)%nat -> zsum (fun i => Sc (i + 1)%nat - Sc i) (seq 0 k) = Sc k.
Proof.
  induction k as [|k IH]; intros Hk; [cbn; lia|]. rewrite zsum_snoc, IH by lia. cbn [Nat.add].
  replace (k + 1)%nat with (S k) by lia. lia.
Qed.

Lemma Tl_m : Tl m = Sc n.
Proof.
  unfold Tl, ell. rewrite zsum_swap. rewrite (zsum_ext _ (fun i => Sc (i + 1)%nat - Sc i)).
  - apply Sc_tele. lia.
  - intros i Hi. apply in_seq in Hi. apply Xrow. lia.
Qed.

Notation NW := (nw Sc Tl).

Lemma nw_nonneg i j : 0 <= NW i j.
Proof. unfold nw. lia. Qed.

Lemma Tl_0 : Tl 0%nat = 0.
Proof. reflexivity. Qed.

Lemma nw_row i : (i < n)%nat -> zsum (fun j => NW i j) (seq 0 m) = Sc (i + 1)%nat - Sc i.
Proof.
  intros Hi. unfold nw. rewrite (ovl_tele Tl (Sc i) (Sc (i + 1)%nat) m Tl_mono). rewrite Tl_0, Tl_m.
  pose proof (HS 0%nat i ltac:(lia) ltac:(lia)). pose proof (HS i (i + 1)%nat ltac:(lia) ltac:(lia)).
  pose proof (HS (i + 1)%nat n ltac:(lia) ltac:(lia)). lia.
Qed.

Lemma nw_col j : (j < m)%nat -> zsum (fun i => NW i j) (seq 0 n) = Tl (j + 1)%nat - Tl j.
Proof.
  intros Hj. unfold nw.
  rewrite (zsum_ext _ (fun i => Z.max 0 (Z.min (Tl (j + 1)%nat) (Sc (i + 1)%nat) - Z.max (Tl j) (Sc i)))).
  - rewrite (ovl_tele Sc (Tl j) (Tl (j + 1)%nat) n HS). rewrite HS0, <- Tl_m.
    pose proof (Tl_mono 0%nat j ltac:(lia) ltac:(lia)). pose proof (Tl_mono j (j + 1)%nat ltac:(lia) ltac:(lia)).
    pose proof (Tl_mono (j + 1)%nat m ltac:(lia) ltac:(lia)). rewrite Tl_0 in *. lia.
  - intros i _. lia.
Qed.

Definition cabs (j i : nat) : Z := Z.abs (u i - v j).

Theorem nw_cheapest :
  cost (seq 0 n) (seq 0 m) cabs (fun j i => NW i j) <= cost (seq 0 n) (seq 0 m) cabs (fun j i => X i j).
Proof.
  destruct (stair_potential n m u v Sc Tl Hu Hv HS Tl_mono) as [Lip Tight].
  set (ph := phi_of (sg n m u v Sc Tl)) in *.
  set (K := zsum (fun j => Z.abs (ph (v j))) (seq 0 m)).
  assert (HK : forall j, (j < m)%nat -> 0 <= ph (v j) + K).
  { intros j Hj. pose proof (zsum_ge_term (fun j => Z.abs (ph (v j))) (seq 0 m) j) as Q. cbv beta in Q.
    specialize (Q ltac:(intros; lia) ltac:(apply in_seq; lia)). fold K in Q. lia. }
  apply (lp_cert_sound (seq 0 n) (seq 0 m) (fun i => Sc (i + 1)%nat - Sc i) (fun j => Tl (j + 1)%nat - Tl j) cabs
           (fun j i => NW i j) (fun i => ph (u i) + K) (fun j => ph (v j) + K) (fun j i => X i j)).
  - split; [|split].
    + intros i Hi. apply in_seq in Hi. unfold sent. apply nw_row. lia.
    + intros j Hj. apply in_seq in Hj. unfold load. rewrite nw_col by lia. lia.
    + intros i j _ _. apply nw_nonneg.
  - split.
    + intros j Hj. apply in_seq in Hj. apply HK. lia.
    + intros i j _ _. unfold cabs. specialize (Lip (u i) (v j)). lia.
  - split.
    + intros i j Hi Hj Hp. apply in_seq in Hi, Hj. unfold cabs. rewrite <- (Tight i j ltac:(lia) ltac:(lia) Hp). lia.
    + intros j Hj _. apply in_seq in Hj. unfold load. apply nw_col. lia.
  - split; [|split].
    + intros i Hi. apply in_seq in Hi. unfold sent. apply Xrow. lia.
    + intros j Hj. apply in_seq in Hj. unfold load. rewrite Tl_S. unfold ell. lia.
    + intros i j Hi Hj. apply in_seq in Hi, Hj. apply Xpos; lia.
Qed.
End Cheapest.
