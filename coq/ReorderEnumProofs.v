(* C05 / C02 -- the enumeration of the reordering pass: what every evaluated leaf looks like.
   Every leaf of Reorder.leaves_of is  leaf_of (chosen_of w gps)  for a list gps = (region, arrangement) over the
   regions in their order, the arrangements together a permutation of the registered cells, each arrangement
   within the width of its region (or empty). *)
From Coq Require Import List ZArith Lia Bool Permutation.
Import ListNotations.
Require Import CV.Orient CV.Hpwl CV.Moves CV.Optimiser CV.ShiftLp CV.DetailedValue CV.Reorder CV.ReorderGeomProofs.
Local Open Scope Z_scope.

(* ---------- std::next_permutation: every arrangement visited is a permutation ---------- *)
Lemma selects_perm l : forall x rest, In (x, rest) (selects l) -> Permutation l (x :: rest) /\ length l = S (length rest).
Proof.
  induction l as [|a t IH]; intros x rest; cbn [selects]; [intros []|].
  intros [[= <- <-]|H]; [split; [apply Permutation_refl|reflexivity]|].
  apply in_map_iff in H as ([y r] & [= <- <-] & Hin). destruct (IH y r Hin) as [P L]. cbn [fst snd]. split.
  - eapply perm_trans; [apply perm_skip; exact P|apply perm_swap].
  - cbn [length]. rewrite L. reflexivity.
Qed.

Lemma lex_perms_perm n : forall l p, length l = n -> In p (lex_perms n l) -> Permutation l p.
Proof.
  induction n as [|n IH]; intros l p Hl; cbn [lex_perms].
  - destruct l; [|discriminate]. intros [<-|[]]. constructor.
  - destruct l as [|a t]; [discriminate|]. intros H. apply in_flat_map in H as ([x rest] & Hs & Hp). cbn [fst snd] in Hp.
    apply in_map_iff in Hp as (p' & <- & Hp'). destruct (selects_perm (a :: t) x rest Hs) as [P L].
    eapply perm_trans; [exact P|]. apply perm_skip. apply IH; [|exact Hp']. rewrite Hl in L. lia.
Qed.

Lemma in_tl {A} (x : A) l : In x (tl l) -> In x l.
Proof. destruct l; [intros []|intros H; right; exact H]. Qed.

Lemma loop_perms_perm l p : In p (loop_perms l) -> Permutation l p.
Proof. intros H. apply in_tl in H. exact (lex_perms_perm _ l p eq_refl H). Qed.

Lemma alloc_perm w l p : Permutation l p -> alloc_width w l = alloc_width w p.
Proof.
  unfold alloc_width. induction 1; cbn [fold_right]; [reflexivity|rewrite IHPermutation; reflexivity|lia|congruence].
Qed.

(* ---------- the conditions runRegionChoice tests: width of the region, polarity of the cell against the row ---------- *)
Definition rok (d : dstate) (g : region) (c : nat) : Prop :=
  match nth_error (d_rows d) (rg_row g) with Some r => row_allowed (pol_of d c) r | None => false end = true.
Definition Wok (d : dstate) (g : region) (l : list nat) : Prop :=
  (l = [] \/ alloc_width (width_of d) l <= rg_width g) /\ forall c, In c l -> rok d g c.
Definition Wok' (d : dstate) (gp : region * list nat) : Prop := Wok d (fst gp) (snd gp).

(* gps0 follows regs: same regions, each arrangement one of those the loop visits *)
Definition follows (regs gps0 : list (region * list nat)) : Prop :=
  Forall2 (fun go gp => fst gp = fst go /\ In (snd gp) (loop_perms (snd go))) regs gps0.

Lemma order_leaves_spec w : forall regs chosen leaf, In leaf (order_leaves w regs chosen) ->
  exists gps0, follows regs gps0 /\ leaf = leaf_of (rev (chosen_of w gps0) ++ chosen).
Proof.
  induction regs as [|[g ord] rest IH]; intros chosen leaf; cbn [order_leaves].
  - intros [<-|[]]. exists []. split; [constructor|reflexivity].
  - intros H. apply in_flat_map in H as (p & Hp & Hl). destruct (IH _ _ Hl) as (gps0 & F & E).
    exists ((g, p) :: gps0). split; [constructor; [split; [reflexivity|exact Hp]|exact F]|].
    rewrite E. cbn [chosen_of map rev fst snd]. rewrite <- app_assoc. reflexivity.
Qed.

Lemma follows_fst regs gps0 : follows regs gps0 -> map fst gps0 = map fst regs.
Proof. induction 1 as [|go gp l l' [E _] _ IH]; cbn [map]; [reflexivity|rewrite E, IH; reflexivity]. Qed.

Lemma follows_cells regs gps0 : follows regs gps0 -> Permutation (flat_map snd gps0) (flat_map snd regs).
Proof.
  induction 1 as [|go gp l l' [_ P] _ IH]; cbn [flat_map]; [constructor|].
  apply Permutation_app; [apply Permutation_sym; apply loop_perms_perm; exact P|exact IH].
Qed.

Lemma follows_wok d regs gps0 : follows regs gps0 -> Forall (Wok' d) regs -> Forall (Wok' d) gps0.
Proof.
  induction 1 as [|go gp l l' [E P] _ IH]; intros F; [constructor|]. inversion F as [|? ? F1 F2]; subst.
  constructor; [|exact (IH F2)]. unfold Wok', Wok in *. rewrite E. apply loop_perms_perm in P. destruct F1 as [F1 F1'].
  split; [|intros c Hc; apply F1'; apply (Permutation_in _ (Permutation_sym P)); exact Hc].
  destruct F1 as [F1|F1]; [left; rewrite F1 in P; apply Permutation_nil in P; exact P|right; rewrite <- (alloc_perm _ _ _ P); exact F1].
Qed.

(* ---------- order_[i].push_back ---------- *)
Lemma length_push_at ord : forall i c, length (push_at ord i c) = length ord.
Proof. induction ord as [|l t IH]; intros [|i] c; cbn [push_at length]; try reflexivity. rewrite IH. reflexivity. Qed.

Lemma push_at_perm ord : forall i c, (i < length ord)%nat -> Permutation (concat (push_at ord i c)) (c :: concat ord).
Proof.
  induction ord as [|l t IH]; intros [|i] c Hi; cbn [length] in Hi; try lia; cbn [push_at concat].
  - rewrite <- app_assoc. cbn [app]. apply Permutation_sym. apply Permutation_middle.
  - eapply perm_trans; [apply Permutation_app_head; apply IH; lia|]. apply Permutation_sym. apply Permutation_middle.
Qed.

Lemma nth_push_at ord : forall i c l, nth_error ord i = Some l -> nth i (push_at ord i c) [] = l ++ [c].
Proof. induction ord as [|l0 t IH]; intros [|i] c l; cbn [nth_error push_at nth]; try discriminate; [intros [= ->]; reflexivity|apply IH]. Qed.

Lemma push_at_wok d c : forall rgs ord i g, Forall2 (Wok d) rgs ord -> nth_error rgs i = Some g ->
  (forall l, nth_error ord i = Some l -> Wok d g l -> Wok d g (l ++ [c])) -> Forall2 (Wok d) rgs (push_at ord i c).
Proof.
  induction rgs as [|g0 rgs IH]; intros ord i g F Hn Hw; [destruct i; discriminate|].
  inversion F as [|? l ? t F1 F2]; subst. destruct i as [|i]; cbn [nth_error push_at nth] in *.
  - injection Hn as <-. constructor; [apply Hw; [reflexivity|exact F1]|exact F2].
  - constructor; [exact F1|]. exact (IH t i g F2 Hn Hw).
Qed.

Lemma forall2_length {A B} (R : A -> B -> Prop) l l' : Forall2 R l l' -> length l = length l'.
Proof. induction 1; cbn [length]; congruence. Qed.

(* ---------- runRegionChoice ---------- *)
Lemma choice_leaves_spec d rgs : forall rem ord leaf, Forall2 (Wok d) rgs ord ->
  In leaf (choice_leaves d rgs rem ord) ->
  exists ord', Forall2 (Wok d) rgs ord' /\ Permutation (concat ord') (concat ord ++ rem) /\
               In leaf (order_leaves (width_of d) (rev (combine rgs ord')) []).
Proof.
  induction rem as [|c rem IH]; intros ord leaf F; cbn [choice_leaves].
  - intros H. exists ord. split; [exact F|]. split; [rewrite app_nil_r; apply Permutation_refl|exact H].
  - intros H. apply in_flat_map in H as (i & Hi & H). apply in_seq in Hi.
    destruct (nth_error rgs i) as [g|] eqn:Hn; [|destruct H].
    destruct (choice_ok d g (nth i (push_at ord i c) []) c) eqn:C; [|destruct H].
    unfold choice_ok in C. apply andb_true_iff in C as [C C2]. apply Z.leb_le in C.
    destruct (IH (push_at ord i c) leaf) as (ord' & F' & P' & L'); [|exact H|].
    + apply (push_at_wok d c rgs ord i g F Hn). intros l Hl [_ Wl]. rewrite (nth_push_at ord i c l Hl) in C.
      split; [right; exact C|]. intros c0 Hc0. apply in_app_or in Hc0 as [Hc0|[<-|[]]]; [exact (Wl c0 Hc0)|exact C2].
    + exists ord'. split; [exact F'|]. split; [|exact L'].
      eapply perm_trans; [exact P'|]. eapply perm_trans; [apply Permutation_app_tail; apply push_at_perm; rewrite <- (forall2_length _ _ _ F); lia|].
      cbn [app]. apply Permutation_middle.
Qed.

(* ---------- the leaves of the whole search ---------- *)
Lemma forall2_combine {A B} (R : A -> B -> Prop) l l' : Forall2 R l l' -> Forall (fun p => R (fst p) (snd p)) (combine l l').
Proof. induction 1; cbn [combine]; constructor; assumption. Qed.

Lemma map_fst_combine {A B} (l : list A) : forall (l' : list B), length l = length l' -> map fst (combine l l') = l.
Proof. induction l as [|a t IH]; intros [|b t'] H; cbn [length combine map] in *; try discriminate; [reflexivity|]. f_equal. apply IH. lia. Qed.
Lemma map_snd_combine {A B} (l : list A) : forall (l' : list B), length l = length l' -> map snd (combine l l') = l'.
Proof. induction l as [|a t IH]; intros [|b t'] H; cbn [length combine map] in *; try discriminate; [reflexivity|]. f_equal. apply IH. lia. Qed.

Lemma concat_nils {A B} (l : list A) : concat (map (fun _ => @nil B) l) = [].
Proof. induction l; cbn [map concat]; [reflexivity|assumption]. Qed.

Theorem leaves_shape d rgs leaf : In leaf (leaves_of d rgs) ->
  exists gps, leaf = leaf_of (chosen_of (width_of d) gps) /\ map fst gps = map fst rgs /\
    Permutation (concat (map snd gps)) (map p_id (registered rgs)) /\ Forall (Wok' d) gps.
Proof.
  unfold leaves_of. intros H. set (w := width_of d) in *. set (gs := map fst rgs) in *.
  assert (F0 : Forall2 (Wok d) gs (map (fun _ => []) rgs)).
  { unfold gs. clear H. induction rgs as [|e t IH]; cbn [map]; constructor; [split; [left; reflexivity|intros c []]|exact IH]. }
  destruct (choice_leaves_spec d gs _ _ leaf F0 H) as (ord' & F' & P' & L'). fold w in F', L'.
  destruct (order_leaves_spec w _ _ leaf L') as (gps0 & FO & E).
  pose proof (forall2_length _ _ _ F') as Len.
  exists (rev gps0). split; [rewrite E, app_nil_r; unfold chosen_of; rewrite map_rev; reflexivity|]. split; [|split].
  - rewrite map_rev, (follows_fst _ _ FO), map_rev, rev_involutive. apply map_fst_combine. exact Len.
  - rewrite <- flat_map_concat_map. eapply perm_trans; [apply Permutation_flat_map; apply Permutation_sym; apply Permutation_rev|].
    eapply perm_trans; [apply (follows_cells _ _ FO)|].
    eapply perm_trans; [apply Permutation_flat_map; apply Permutation_sym; apply Permutation_rev|].
    rewrite flat_map_concat_map, (map_snd_combine _ _ Len).
    eapply perm_trans; [exact P'|]. rewrite concat_nils. cbn [app]. apply Permutation_sym. apply sort_asc_perm.
  - apply Forall_rev. apply (follows_wok d _ _ FO). apply Forall_rev. exact (forall2_combine _ _ _ F').
Qed.

(* ---------- reading a leaf ---------- *)
Lemma leaf_cells_chain rowi w : forall p pred x, leaf_cells (chain_places rowi pred (pack w x p)) = p.
Proof.
  induction p as [|c t IH]; intros pred x; cbn [pack chain_places leaf_cells map]; [reflexivity|].
  unfold leaf_cells in IH. rewrite IH. reflexivity.
Qed.

Lemma leaf_cells_of w gps : leaf_cells (leaf_of (chosen_of w gps)) = concat (map snd gps).
Proof.
  induction gps as [|[g p] t IH]; [reflexivity|]. cbn [chosen_of map fst snd concat]. rewrite leaf_of_cons.
  unfold leaf_cells in *. rewrite map_app. fold (chosen_of w t). rewrite IH. f_equal. apply leaf_cells_chain.
Qed.

Lemma in_chain_places rowi c r pr x : forall ps pred, In (c, r, pr, x) (chain_places rowi pred ps) -> r = rowi /\ In (c, x) ps.
Proof.
  induction ps as [|[c0 x0] t IH]; intros pred; cbn [chain_places]; [intros []|].
  intros [[= <- <- _ <-]|H]; [split; [reflexivity|left; reflexivity]|]. destruct (IH _ H) as [E I]. split; [exact E|right; exact I].
Qed.

Lemma in_leaf_of chosen c r pr x : In (c, r, pr, x) (leaf_of chosen) ->
  exists g ps, In (g, ps) chosen /\ r = rg_row g /\ In (c, x) ps.
Proof.
  unfold leaf_of. intros H. apply in_flat_map in H as ([g ps] & Hin & H). cbn [fst snd] in H.
  apply in_chain_places in H as [E I]. exists g, ps. tauto.
Qed.

Lemma in_pack w c x : forall p x0, In (c, x) (pack w x0 p) -> In c p.
Proof. induction p as [|c0 t IH]; intros x0; cbn [pack]; [intros []|]. intros [[= <- _]|H]; [left; reflexivity|right; exact (IH _ H)]. Qed.

Lemma map_fst_pack w : forall p x0, map fst (pack w x0 p) = p.
Proof. induction p as [|c t IH]; intros x0; cbn [pack map fst]; [reflexivity|rewrite IH; reflexivity]. Qed.

(* every placement of a leaf puts the cell on a row its polarity allows, in one of the regions *)
Lemma leaf_rows_allowed d gps c r pr x : Forall (Wok' d) gps -> In (c, r, pr, x) (leaf_of (chosen_of (width_of d) gps)) ->
  match nth_error (d_rows d) r with Some row => row_allowed (pol_of d c) row | None => false end = true.
Proof.
  intros F H. apply in_leaf_of in H as (g & ps & Hin & -> & Hc). unfold chosen_of in Hin. apply in_map_iff in Hin as ([g' p] & [= <- <-] & Hgp).
  cbn [fst snd] in Hc. apply in_pack in Hc. rewrite Forall_forall in F. destruct (F _ Hgp) as [_ A]. exact (A c Hc).
Qed.
