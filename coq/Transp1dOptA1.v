(* C14 optimality, part A1: the event queue as a slope function; the cell-cost functions Gh / gc / fc. *)
From Coq Require Import List ZArith Lia Bool Arith.
Import ListNotations.
Require Import CV.LpCert CV.Transp1d CV.Transp1dProofs CV.Transp1dTerm CV.Transp1dCert CV.Transp1dOpt.
Local Open Scope Z_scope.

(* ---------------------------------------------------------------- sl *)
Lemma sl_insert e q x : sl (ev_insert e q) x = (if x <? fst e then snd e else 0) + sl q x.
Proof.
  induction q as [|y r IH]; cbn [ev_insert sl]; [reflexivity|].
  destruct (ev_le y e); cbn [sl]; [reflexivity|]. rewrite IH. lia.
Qed.

Lemma sl_above q x : (forall e, In e q -> fst e <= x) -> sl q x = 0.
Proof.
  induction q as [|y r IH]; intros H; cbn [sl]; [reflexivity|].
  rewrite IH by (intros e He; apply H; right; exact He).
  assert (fst y <= x) by (apply H; left; reflexivity).
  destruct (Z.ltb_spec x (fst y)); lia.
Qed.

Lemma pop_at_sl L : forall q s r, pop_at L q = (s, r) ->
  forall x, sl q x = (if x <? L then s else 0) + sl r x.
Proof.
  induction q as [|[p d] t IH]; intros s r E x; cbn [pop_at] in E.
  - inversion E; subst. cbn [sl]. destruct (x <? L); reflexivity.
  - destruct (Z.eqb_spec p L) as [->|Hne].
    + destruct (pop_at L t) as [s' r'] eqn:E'. inversion E; subst.
      cbn [sl fst snd]. rewrite (IH s' r eq_refl x). destruct (x <? L); lia.
    + inversion E; subst. destruct (x <? L); lia.
Qed.

Lemma fold_ins_sl (pos d : nat -> Z) x : 0 <= x -> forall js evs,
  sl (fold_left (fun evs j => if 0 <? pos j then ev_insert (pos j, d j) evs else evs) js evs) x
  = sl evs x + zsum (fun j => if x <? pos j then d j else 0) js.
Proof.
  intros Hx. induction js as [|j r IH]; intros evs; cbn [fold_left zsum]; [lia|].
  rewrite IH. destruct (Z.ltb_spec 0 (pos j)).
  - rewrite sl_insert. cbn [fst snd]. lia.
  - destruct (Z.ltb_spec x (pos j)); lia.
Qed.

Definition conv (q : list event) : Prop := forall x, sl q (x + 1) <= sl q x.

Lemma conv_mono q : conv q -> forall x y, x <= y -> sl q y <= sl q x.
Proof.
  intros C x y Hxy. replace y with (x + Z.of_nat (Z.to_nat (y - x))) by lia.
  induction (Z.to_nat (y - x)) as [|k IH]; [replace (x + Z.of_nat 0) with x by lia; lia|].
  replace (x + Z.of_nat (S k)) with (x + Z.of_nat k + 1) by lia. specialize (C (x + Z.of_nat k)). lia.
Qed.

(* ---------------------------------------------------------------- zsum helpers *)
Lemma zsum_app f l1 l2 : zsum f (l1 ++ l2) = zsum f l1 + zsum f l2.
Proof. induction l1 as [|a l IH]; cbn [app zsum]; [lia|]. rewrite IH. lia. Qed.

Lemma zsum_seq_S f a n : zsum f (seq a (S n)) = zsum f (seq a n) + f (a + n)%nat.
Proof. rewrite seq_S, zsum_app. cbn [zsum]. lia. Qed.

(* ---------------------------------------------------------------- cell costs *)
Section Costs.
Variable P : sprob.
Hypothesis W : wf_sprob P.
Notation m := (n_snk P).
Notation D := (Dx P).

Lemma D_le j k : (j <= k)%nat -> (k <= m)%nat -> D j <= D k.
Proof. apply Dx_mono. exact W. Qed.

Lemma gc_in_sink i j y : (j < m)%nat -> D j <= y < D (j + 1) -> gc P i y = cost P i j.
Proof.
  intros Hj Hy. unfold gc, Gh.
  assert (Hm : D (j + 1) <= D m) by (apply D_le; lia).
  rewrite !Z.max_l by lia.
  match goal with |- ?a + _ - (?b + _) = _ => enough (E : a - b = cost P i j) by lia end.
  rewrite <- zsum_minus.
  rewrite (zsum_single _ (seq 0 m) j); [|apply seq_NoDup|apply in_seq; lia|].
  - rewrite <- Z.mul_sub_distr_l.
    replace (Z.max 0 (Z.min (y + 1) (D (j + 1)) - D j) - Z.max 0 (Z.min y (D (j + 1)) - D j)) with 1 by lia. lia.
  - intros k Hk Hne. apply in_seq in Hk. rewrite <- Z.mul_sub_distr_l.
    assert (D k <= D (k + 1)) by (apply D_le; lia).
    destruct (Nat.lt_ge_cases k j) as [Hlt|Hge].
    + assert (D (k + 1) <= D j) by (apply D_le; lia).
      replace (Z.max 0 (Z.min (y + 1) (D (k + 1)) - D k) - Z.max 0 (Z.min y (D (k + 1)) - D k)) with 0 by lia. lia.
    + assert (D (j + 1) <= D k) by (apply D_le; lia).
      replace (Z.max 0 (Z.min (y + 1) (D (k + 1)) - D k) - Z.max 0 (Z.min y (D (k + 1)) - D k)) with 0 by lia. lia.
Qed.

Lemma gc_beyond i y : D m <= y -> gc P i y = cost P i (m - 1).
Proof.
  intros Hy. unfold gc, Gh.
  rewrite !Z.max_r by lia.
  match goal with |- ?a + _ - (?b + _) = _ => enough (E : a - b = 0) by lia end.
  rewrite <- zsum_minus. apply zsum_all_zero. intros k Hk. apply in_seq in Hk.
  rewrite <- Z.mul_sub_distr_l.
  assert (D (k + 1) <= D m) by (apply D_le; lia).
  replace (Z.max 0 (Z.min (y + 1) (D (k + 1)) - D k) - Z.max 0 (Z.min y (D (k + 1)) - D k)) with 0 by lia. lia.
Qed.

(* the sink that owns a cell *)
Lemma sink_of_cell y : 0 <= y < D m -> exists j, (j < m)%nat /\ D j <= y < D (j + 1).
Proof.
  intros Hy. pose proof (Dx_0 P W) as H0.
  assert (G : forall k, (k <= m)%nat -> y < D k -> exists j, (j < k)%nat /\ D j <= y < D (j + 1)).
  { induction k as [|k IH]; intros Hk Hlt; [lia|].
    destruct (Z.lt_ge_cases y (D k)) as [Hc|Hc].
    - destruct (IH ltac:(lia) Hc) as (j & Hj & Hb). exists j. split; [lia|exact Hb].
    - exists k. replace (k + 1)%nat with (S k) by lia. split; [lia|lia]. }
  destruct (G m (le_n _) ltac:(lia)) as (j & Hj & Hb). exists j. auto.
Qed.

Lemma fc_step i x : fc P i x - fc P i (x + 1) = gc P i (Sx P i + x) - gc P i (Sx P (i + 1) + x).
Proof. unfold fc, gc. replace (Sx P (i + 1) + (x + 1)) with (Sx P (i + 1) + x + 1) by lia.
  replace (Sx P i + (x + 1)) with (Sx P i + x + 1) by lia. lia. Qed.
End Costs.
