(* C14 optimality, part A1: the event queue as a slope function; the cell-cost functions Gh / gc / fc. *)
From Coq Require Import List ZArith Lia Bool Arith.
Import ListNotations.
Require Import CV.LpCert CV.Transp1d CV.Transp1dProofs CV.Transp1dTerm CV.Transp1dCert CV.Transp1dOpt.
Local Open Scope Z_scope.

(* ---------------------------------------------------------------- sl *)
Lemma sl_insert e q x : sl (ev_insert e q) x = (if x <? fst e then snd e else 0) + sl q x.
Proof.
  induction q as [|y r IH]; cbn [ev_insert sl]; [reflexivity|].
  destruct (ev_le y e); cbn [sl]; [reflexivity|]. rewrite IH. lia.
Qed.

Lemma sl_above q x : (forall e, In e q -> fst e <= x) -> sl q x = 0.
Proof.
  induction q as [|y r IH]; intros H; cbn [sl]; [reflexivity|].
  rewrite IH by (intros e He; apply H; right; exact He).
  assert (fst y <= x) by (apply H; left; reflexivity).
  destruct (Z.ltb_spec x (fst y)); lia.
Qed.

Lemma pop_at_sl L : forall q s r, pop_at L q = (s, r) ->
  forall x, sl q x = (if x <? L then s else 0) + sl r x.
Proof.
  induction q as [|[p d] t IH]; intros s r E x; cbn [pop_at] in E.
  - inversion E; subst. cbn [sl]. destruct (x <? L); reflexivity.
  - destruct (Z.eqb_spec p L) as [->|Hne].
    + destruct (pop_at L t) as [s' r'] eqn:E'. inversion E; subst.
      cbn [sl fst snd]. rewrite (IH s' r eq_refl x). destruct (x <? L); lia.
    + inversion E; subst. destruct (x <? L); lia.
Qed.

Lemma fold_ins_sl (pos d : nat -> Z) x : 0 <= x -> forall js evs,
  sl (fold_left (fun evs j => if 0 <? pos j then ev_insert (pos j, d j) evs else evs) js evs) x
  = sl evs x + zsum (fun j => if x <? pos j then d j else 0) js.
Proof.
  intros Hx. induction js as [|j r IH]; intros evs; cbn [fold_left zsum]; [lia|].
  rewrite IH. destruct (Z.ltb_spec 0 (pos j)).
  - rewrite sl_insert. cbn [fst snd]. lia.
  - destruct (Z.ltb_spec x (pos j)); lia.
Qed.

Definition conv (q : list event) : Prop := forall x, sl q (x + 1) <= sl q x.

Lemma conv_mono q : conv q -> forall x y, x <= y -> sl q y <= sl q x.
Proof.
  intros C x y Hxy. replace y with (x + Z.of_nat (Z.to_nat (y - x))) by lia.
  induction (Z.to_nat (y - x)) as [|k IH]; [replace (x + Z.of_nat 0) with x by lia; lia|].
  replace (x + Z.of_nat (S k)) with (x + Z.of_nat k + 1) by lia. specialize (C (x + Z.of_nat k)). lia.
Qed.

(* ---------------------------------------------------------------- zsum helpers *)
Lemma zsum_app f l1 l2 : zsum f (l1 ++ l2) = zsum f l1 + zsum f l2.
Proof. induction l1 as [|a l IH]; cbn [app zsum]; [lia|]. rewrite IH. lia. Qed.

Lemma zsum_seq_S f a n : zsum f (seq a (S n)) = zsum f (seq a n) + f (a + n)%nat.
Proof. rewrite seq_S, zsum_app. cbn [zsum]. lia. Qed.

(* ---------------------------------------------------------------- cell costs *)
Section Costs.
Variable P : sprob.
Hypothesis W : wf_sprob P.
Notation m := (n_snk P).
Notation D := (Dx P).

Lemma D_le j k : (j <= k)%nat -> (k <= m)%nat -> D j <= D k.
Proof. apply Dx_mono. exact W. Qed.

Lemma gc_in_sink i j y : (j < m)%nat -> D j <= y < D (j + 1) -> gc P i y = cost P i j.
Proof.
  intros Hj Hy. unfold gc, Gh.
  assert (Hm : D (j + 1) <= D m) by (apply D_le; lia).
  rewrite !Z.max_l by lia.
  match goal with |- ?a + _ - (?b + _) = _ => enough (E : a - b = cost P i j) by lia end.
  rewrite <- zsum_minus.
  rewrite (zsum_single _ (seq 0 m) j); [|apply seq_NoDup|apply in_seq; lia|].
  - rewrite <- Z.mul_sub_distr_l.
    replace (Z.max 0 (Z.min (y + 1) (D (j + 1)) - D j) - Z.max 0 (Z.min y (D (j + 1)) - D j)) with 1 by lia. lia.
  - intros k Hk Hne. apply in_seq in Hk. rewrite <- Z.mul_sub_distr_l.
    assert (D k <= D (k + 1)) by (apply D_le; lia).
    destruct (Nat.lt_ge_cases k j) as [Hlt|Hge].
    + assert (D (k + 1) <= D j) by (apply D_le; lia).
      replace (Z.max 0 (Z.min (y + 1) (D (k + 1)) - D k) - Z.max 0 (Z.min y (D (k + 1)) - D k)) with 0 by lia. lia.
    + assert (D (j + 1) <= D k) by (apply D_le; lia).
      replace (Z.max 0 (Z.min (y + 1) (D (k + 1)) - D k) - Z.max 0 (Z.min y (D (k + 1)) - D k)) with 0 by lia. lia.
Qed.

Lemma gc_beyond i y : D m <= y -> gc P i y = cost P i (m - 1).
Proof.
  intros Hy. unfold gc, Gh.
  rewrite !Z.max_r by lia.
  match goal with |- ?a + _ - (?b + _) = _ => enough (E : a - b = 0) by lia end.
  rewrite <- zsum_minus. apply zsum_all_zero. intros k Hk. apply in_seq in Hk.
  rewrite <- Z.mul_sub_distr_l.
  assert (D (k + 1) <= D m) by (apply D_le; lia).
  replace (Z.max 0 (Z.min (y + 1) (D (k + 1)) - D k) - Z.max 0 (Z.min y (D (k + 1)) - D k)) with 0 by lia. lia.
Qed.

(* the sink that owns a cell *)
Lemma sink_of_cell y : 0 <= y < D m -> exists j, (j < m)%nat /\ D j <= y < D (j + 1).
Proof.
  intros Hy. pose proof (Dx_0 P W) as H0.
  assert (G : forall k, (k <= m)%nat -> y < D k -> exists j, (j < k)%nat /\ D j <= y < D (j + 1)).
  { induction k as [|k IH]; intros Hk Hlt; [lia|].
    destruct (Z.lt_ge_cases y (D k)) as [Hc|Hc].
    - destruct (IH ltac:(lia) Hc) as (j & Hj & Hb). exists j. split; [lia|exact Hb].
    - exists k. replace (k + 1)%nat with (S k) by lia. split; [lia|lia]. }
  destruct (G m (le_n _) ltac:(lia)) as (j & Hj & Hb). exists j. auto.
Qed.

Lemma fc_step i x : fc P i x - fc P i (x + 1) = gc P i (Sx P i + x) - gc P i (Sx P (i + 1) + x).
Proof. unfold fc, gc. replace (Sx P (i + 1) + (x + 1)) with (Sx P (i + 1) + x + 1) by lia.
  replace (Sx P i + (x + 1)) with (Sx P i + x + 1) by lia. lia. Qed.
End Costs.

(* ---------------------------------------------------------------- running minimum *)
Lemma minupto_le f : forall n k, (k <= n)%nat -> minupto f n <= f (Z.of_nat k).
Proof.
  induction n as [|n IH]; intros k Hk; cbn [minupto].
  - replace k with O by lia. cbn. lia.
  - destruct (Nat.eq_dec k (S n)) as [->|Hne]; [lia|]. specialize (IH k ltac:(lia)). lia.
Qed.

Lemma minupto_attained f : forall n, exists k, (k <= n)%nat /\ minupto f n = f (Z.of_nat k).
Proof.
  induction n as [|n (k & Hk & E)]; cbn [minupto].
  - exists O. split; [lia|reflexivity].
  - destruct (Z.le_gt_cases (minupto f n) (f (Z.of_nat (S n)))).
    + exists k. split; [lia|]. rewrite Z.min_l by lia. exact E.
    + exists (S n). split; [lia|]. rewrite Z.min_r by lia. reflexivity.
Qed.

Lemma chain_up f L T : (forall x, L <= x -> x + 1 <= T -> f x <= f (x + 1)) ->
  forall k, L + Z.of_nat k <= T -> f L <= f (L + Z.of_nat k).
Proof.
  intros H. induction k as [|k IH]; intros Hk; [replace (L + Z.of_nat 0) with L by lia; lia|].
  specialize (IH ltac:(lia)). specialize (H (L + Z.of_nat k) ltac:(lia) ltac:(lia)).
  replace (L + Z.of_nat (S k)) with (L + Z.of_nat k + 1) by lia. lia.
Qed.

Lemma minupto_valley f L T : 0 <= L ->
  (forall x, 0 <= x < L -> f (x + 1) <= f x) ->
  (forall x, L <= x -> x + 1 <= T -> f x <= f (x + 1)) ->
  forall n, Z.of_nat n <= T -> minupto f n = f (Z.min (Z.of_nat n) L).
Proof.
  intros HL Hdn Hup. induction n as [|n IH]; intros Hn; cbn [minupto].
  - replace (Z.min (Z.of_nat 0) L) with 0 by lia. reflexivity.
  - rewrite IH by lia. destruct (Z.le_gt_cases (Z.of_nat (S n)) L) as [Hc|Hc].
    + replace (Z.min (Z.of_nat n) L) with (Z.of_nat n) by lia.
      replace (Z.min (Z.of_nat (S n)) L) with (Z.of_nat (S n)) by lia.
      specialize (Hdn (Z.of_nat n) ltac:(lia)). replace (Z.of_nat n + 1) with (Z.of_nat (S n)) in Hdn by lia. lia.
    + replace (Z.min (Z.of_nat n) L) with L by lia. replace (Z.min (Z.of_nat (S n)) L) with L by lia.
      pose proof (chain_up f L T Hup (Z.to_nat (Z.of_nat (S n) - L)) ltac:(lia)) as Cu.
      replace (L + Z.of_nat (Z.to_nat (Z.of_nat (S n) - L))) with (Z.of_nat (S n)) in Cu by lia. lia.
Qed.

(* ---------------------------------------------------------------- more on folds and sums *)
Lemma fold_ins_sl_gen (pos d : nat -> Z) x : forall js evs,
  sl (fold_left (fun evs j => if 0 <? pos j then ev_insert (pos j, d j) evs else evs) js evs) x
  = sl evs x + zsum (fun j => if (0 <? pos j) && (x <? pos j) then d j else 0) js.
Proof.
  induction js as [|j r IH]; intros evs; cbn [fold_left zsum]; [lia|].
  rewrite IH. destruct (Z.ltb_spec 0 (pos j)); cbn [andb].
  - rewrite sl_insert. cbn [fst snd]. lia.
  - lia.
Qed.

Lemma zsum_seq_ind (h : nat -> Z) b0 : forall N e, (e <= N)%nat ->
  zsum h (seq b0 (e - b0)) = zsum (fun j => if Nat.leb b0 j && Nat.ltb j e then h j else 0) (seq 0 N).
Proof.
  induction N as [|N IH]; intros e He.
  - replace (e - b0)%nat with O by lia. reflexivity.
  - rewrite zsum_seq_S. cbn [Nat.add].
    destruct (Nat.eq_dec e (S N)) as [->|Hne].
    + destruct (Nat.le_gt_cases b0 N) as [Hb|Hb].
      * replace (S N - b0)%nat with (S (N - b0)) by lia. rewrite zsum_seq_S.
        replace (b0 + (N - b0))%nat with N by lia.
        rewrite (IH N (le_n _)).
        destruct (Nat.leb_spec b0 N); [|lia]. destruct (Nat.ltb_spec N (S N)); [|lia]. cbn [andb].
        f_equal. apply zsum_ext. intros j Hj. apply in_seq in Hj.
        destruct (Nat.ltb_spec j N); destruct (Nat.ltb_spec j (S N)); try lia; reflexivity.
      * replace (S N - b0)%nat with O by lia. cbn [seq zsum].
        destruct (Nat.leb_spec b0 N); [lia|]. cbn [andb].
        rewrite zsum_all_zero; [lia|]. intros j Hj. apply in_seq in Hj. destruct (Nat.leb_spec b0 j); [lia|reflexivity].
    + rewrite (IH e ltac:(lia)). destruct (Nat.ltb_spec N e); [lia|]. rewrite andb_false_r. lia.
Qed.

(* telescoping sum from a threshold *)
Lemma zsum_tele (A : nat -> Z) lb : forall N, (lb <= N)%nat ->
  zsum (fun j => if Nat.leb lb j then A (j + 1)%nat - A j else 0) (seq 0 N) = A N - A lb.
Proof.
  induction N as [|N IH]; intros H.
  - replace lb with O by lia. cbn. lia.
  - rewrite zsum_seq_S. cbn [Nat.add]. destruct (Nat.eq_dec lb (S N)) as [->|Hne].
    + destruct (Nat.leb_spec (S N) N); [lia|].
      rewrite zsum_all_zero; [lia|]. intros j Hj. apply in_seq in Hj. destruct (Nat.leb_spec (S N) j); [lia|reflexivity].
    + rewrite IH by lia. destruct (Nat.leb_spec lb N); [|lia]. replace (N + 1)%nat with (S N) by lia. lia.
Qed.

Lemma first_idx_before f : forall l k, (k < first_idx f l)%nat -> f (zn l k) = false.
Proof.
  induction l as [|y r IH]; intros k Hk; cbn [first_idx] in Hk; [lia|].
  destruct (f y) eqn:E; [lia|]. destruct k as [|k]; [exact E|]. unfold zn. cbn [nth]. apply (IH k). lia.
Qed.

Lemma first_idx_at f : forall l, (first_idx f l < length l)%nat -> f (zn l (first_idx f l)) = true.
Proof.
  induction l as [|y r IH]; intros H; cbn [first_idx length] in *; [lia|].
  destruct (f y) eqn:E; [exact E|]. unfold zn. cbn [nth]. apply IH. lia.
Qed.
