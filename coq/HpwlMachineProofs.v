(* C07: every C++-typed intermediate of Circuit::hpwl and of the incremental net model (HpwlMachine.v) fits its
   type on the supported magnitude range. *)
From Coq Require Import List ZArith Lia Bool.
Import ListNotations.
Require Import CV.Orient CV.Hpwl CV.HpwlProofs CV.RowLegMachine CV.HpwlMachine.
Local Open Scope Z_scope.

Lemma h32 v : -2147483648 <= v < 2147483648 -> fits (I32, v).
Proof. intros H. exact H. Qed.
Lemma h64 v : -9223372036854775808 <= v < 9223372036854775808 -> fits (I64, v).
Proof. intros H. exact H. Qed.

Lemma nth_dom {A} (P : A -> Prop) l d n : Forall P l -> P d -> P (nth n l d).
Proof.
  intros Hl Hd. destruct (nth_in_or_default n l d) as [H|H]; [|rewrite H; exact Hd].
  rewrite Forall_forall in Hl. exact (Hl _ H).
Qed.

Definition irange (v : Z) : Prop := -2147483648 <= v <= 2147483647.

(* extents of non-empty bounded lists *)
Lemma extent_bounds l L : l <> [] -> Forall (fun v => - L <= v <= L) l -> L <= 2147483647 ->
  - L <= fmin l /\ fmin l <= fmax l /\ fmax l <= L /\ 0 <= extent l <= 2 * L.
Proof.
  intros Hne Hl HL. rewrite Forall_forall in Hl.
  assert (Hb : bounded l) by (intros x Hx; specialize (Hl x Hx); unfold INT_MIN, INT_MAX; lia).
  destruct (fmin_is_min l Hne Hb) as [I1 M1]. destruct (fmax_is_max l Hne Hb) as [I2 M2].
  pose proof (Hl _ I1). pose proof (Hl _ I2). pose proof (M2 _ I1). unfold extent. lia.
Qed.

(* ---------- Circuit::hpwl ---------- *)
Lemma pin_range cells p : Forall hcell_dom cells -> hpin_dom cells p ->
  -12582912 <= pin_px cells p <= 12582912 /\ -12582912 <= pin_py cells p <= 12582912.
Proof.
  intros Hc Hp. unfold pin_px, pin_py. unfold hpin_dom in Hp. cbn zeta in Hp.
  assert (Hd : hcell_dom (nth (pc p) cells dcell)) by (apply nth_dom; [exact Hc|unfold hcell_dom, dcell; cbn; lia]).
  destruct Hd as [Hx Hy]. lia.
Qed.

Lemma pin_fits cells base i p mnx mxx mny mxy :
  Forall hcell_dom cells -> hpin_dom cells p -> 0 <= base -> 0 <= i -> base + i + 1 < 2147483648 ->
  irange mnx -> irange mxx -> irange mny -> irange mxy ->
  Forall fits (pin_vals cells base i p mnx mxx mny mxy).
Proof.
  intros Hc Hp Hb Hi Hbi R1 R2 R3 R4. pose proof (pin_range cells p Hc Hp) as [Px Py].
  unfold pin_vals. unfold hpin_dom, pin_x_offset, pin_y_offset in Hp. cbn zeta in Hp.
  set (c := nth (pc p) cells dcell) in *. unfold irange in *.
  set (px := pin_px cells p) in *. set (py := pin_py cells p) in *. clearbody px py.
  apply Forall_app. split; [constructor; [apply h32; lia|constructor]|].
  apply Forall_app. split; [destruct (x_flipped (ho c)); [constructor; [apply h32; lia|constructor]|constructor]|].
  apply Forall_app. split; [constructor; [apply h32; lia|constructor]|].
  apply Forall_app. split; [destruct (y_flipped (ho c)); [constructor; [apply h32; lia|constructor]|constructor]|].
  repeat (constructor; [apply h32; lia|]). constructor.
Qed.

Lemma net_pins_fits cells base : forall pins i mnx mxx mny mxy,
  Forall hcell_dom cells -> Forall (hpin_dom cells) pins ->
  0 <= base -> 0 <= i -> base + i + Z.of_nat (length pins) < 2147483648 ->
  irange mnx -> irange mxx -> irange mny -> irange mxy ->
  Forall fits (net_pins_vals cells base i pins mnx mxx mny mxy).
Proof.
  induction pins as [|p r IH]; intros i mnx mxx mny mxy Hc Hp Hb Hi Hbi R1 R2 R3 R4; cbn [net_pins_vals]; [constructor|].
  inversion Hp as [|? ? Hp1 Hp2]; subst. cbn [length] in Hbi. rewrite Nat2Z.inj_succ in Hbi.
  pose proof (pin_range cells p Hc Hp1) as [Px Py].
  apply Forall_app. split; [apply pin_fits; try assumption; lia|].
  apply IH; try assumption; try lia; unfold irange in *; lia.
Qed.

Lemma net_hpwl_bound cells net : Forall hcell_dom cells -> Forall (hpin_dom cells) net ->
  0 <= net_hpwl cells net <= 50331648.
Proof.
  intros Hc Hp. unfold net_hpwl. destruct net as [|p r]; [lia|].
  set (net := p :: r) in *.
  assert (Fx : Forall (fun v => - 12582912 <= v <= 12582912) (map (pin_px cells) net)).
  { apply Forall_forall. intros v Hv. apply in_map_iff in Hv as (q & <- & Hq).
    rewrite Forall_forall in Hp. apply (pin_range cells q Hc (Hp _ Hq)). }
  assert (Fy : Forall (fun v => - 12582912 <= v <= 12582912) (map (pin_py cells) net)).
  { apply Forall_forall. intros v Hv. apply in_map_iff in Hv as (q & <- & Hq).
    rewrite Forall_forall in Hp. apply (pin_range cells q Hc (Hp _ Hq)). }
  assert (Nx : map (pin_px cells) net <> []) by (subst net; discriminate).
  assert (Ny : map (pin_py cells) net <> []) by (subst net; discriminate).
  pose proof (extent_bounds _ 12582912 Nx Fx ltac:(lia)) as (_ & _ & _ & Ex).
  pose proof (extent_bounds _ 12582912 Ny Fy ltac:(lia)) as (_ & _ & _ & Ey).
  lia.
Qed.

Lemma net_fits cells base net acc :
  Forall hcell_dom cells -> Forall (hpin_dom cells) net ->
  0 <= base -> base + Z.of_nat (length net) < 2147483648 ->
  0 <= acc <= 2147483648 * 50331648 ->
  Forall fits (net_vals cells base net acc).
Proof.
  intros Hc Hp Hb Hbn Hacc. unfold net_vals. constructor; [apply h32; lia|].
  destruct net as [|p r]; [constructor|]. set (net := p :: r) in *.
  assert (Fx : Forall (fun v => - 12582912 <= v <= 12582912) (map (pin_px cells) net)).
  { apply Forall_forall. intros v Hv. apply in_map_iff in Hv as (q & <- & Hq).
    rewrite Forall_forall in Hp. apply (pin_range cells q Hc (Hp _ Hq)). }
  assert (Fy : Forall (fun v => - 12582912 <= v <= 12582912) (map (pin_py cells) net)).
  { apply Forall_forall. intros v Hv. apply in_map_iff in Hv as (q & <- & Hq).
    rewrite Forall_forall in Hp. apply (pin_range cells q Hc (Hp _ Hq)). }
  assert (Nx : map (pin_px cells) net <> []) by (subst net; discriminate).
  assert (Ny : map (pin_py cells) net <> []) by (subst net; discriminate).
  pose proof (extent_bounds _ 12582912 Nx Fx ltac:(lia)) as (_ & _ & _ & Ex).
  pose proof (extent_bounds _ 12582912 Ny Fy ltac:(lia)) as (_ & _ & _ & Ey).
  apply Forall_app. split.
  - apply net_pins_fits; try assumption; unfold irange, INT_MAX, INT_MIN; lia.
  - repeat (constructor; [first [apply h32; lia | apply h64; lia]|]). constructor.
Qed.

Lemma nets_fits cells : forall nets k base acc,
  Forall hcell_dom cells -> Forall (Forall (hpin_dom cells)) nets ->
  0 <= base -> base + Z.of_nat (length (concat nets)) < 2147483648 ->
  0 <= k -> k + Z.of_nat (length nets) < 2147483648 ->
  0 <= acc -> acc + Z.of_nat (length nets) * 50331648 <= 2147483648 * 50331648 ->
  Forall fits (nets_vals cells k base acc nets) /\
  acc <= fold_left (fun a net => a + net_hpwl cells net) nets acc <= acc + Z.of_nat (length nets) * 50331648.
Proof.
  induction nets as [|net r IH]; intros k base acc Hc Hp Hb Hbn Hk Hkn Ha Han; cbn [nets_vals fold_left].
  - split; [constructor|cbn [length]; lia].
  - inversion Hp as [|? ? Hp1 Hp2]; subst.
    cbn [concat] in Hbn. rewrite app_length, Nat2Z.inj_add in Hbn.
    cbn [length] in Hkn, Han |- *. rewrite Nat2Z.inj_succ in Hkn, Han |- *.
    pose proof (net_hpwl_bound cells net Hc Hp1) as Hh.
    destruct (IH (k + 1) (base + Z.of_nat (length net)) (acc + net_hpwl cells net) Hc Hp2) as [F B]; try lia.
    split; [|lia].
    apply Forall_app. split; [apply net_fits; try assumption; lia|].
    apply Forall_app. split; [repeat (constructor; [apply h32; lia|]); constructor|exact F].
Qed.

Theorem hpwl_no_overflow cells nets : hpwl_dom cells nets -> Forall fits (hpwl_vals cells nets).
Proof.
  intros (Hc & Hp & Hpins & Hnets). unfold hpwl_vals.
  destruct (nets_fits cells nets 0 0 0 Hc Hp) as [F B]; try lia.
  apply Forall_app. split; [exact F|]. unfold hpwl. constructor; [apply h64; lia|constructor].
Qed.

(* the bound carried by the accumulator: the value is at most nets * 2 * 25165824 (two extents of at most 3*2^23) *)
Theorem hpwl_value_bound cells nets : hpwl_dom cells nets ->
  0 <= hpwl cells nets <= Z.of_nat (length nets) * 50331648.
Proof.
  intros (Hc & Hp & Hpins & Hnets). destruct (nets_fits cells nets 0 0 0 Hc Hp) as [_ B]; try lia. unfold hpwl. lia.
Qed.

(* the raw-data domain implies the oriented-offset domain *)
Lemma hpin_raw_dom_ok cells p : hpin_raw_dom cells p -> hpin_dom cells p.
Proof.
  unfold hpin_raw_dom, hpin_dom, pin_x_offset, pin_y_offset, placed_width, placed_height. cbn zeta.
  set (c := nth (pc p) cells dcell). intros (H1 & H2 & H3 & H4).
  destruct (is_turn (ho c)), (x_flipped (ho c)), (y_flipped (ho c)); lia.
Qed.

(* ---------- IncrNetModel ---------- *)
Lemma ipin_range pos p : ipos_dom pos -> -16777216 <= snd p <= 16777216 -> -25165824 <= ipin_pos pos p <= 25165824.
Proof.
  intros Hpos Hp. unfold ipin_pos.
  assert (-8388608 <= nth (fst p) pos 0 <= 8388608) by (apply (nth_dom (fun v => -8388608 <= v <= 8388608)); [exact Hpos|lia]).
  lia.
Qed.

Lemma mm_pins_fits pos : forall pins mn mx,
  ipos_dom pos -> Forall (fun p => -16777216 <= snd p <= 16777216) pins -> irange mn -> irange mx ->
  Forall fits (mm_pins_vals pos pins mn mx).
Proof.
  induction pins as [|p r IH]; intros mn mx Hpos Hp R1 R2; cbn [mm_pins_vals]; [constructor|].
  inversion Hp as [|? ? Hp1 Hp2]; subst. pose proof (ipin_range pos p Hpos Hp1) as Hv.
  set (v := ipin_pos pos p) in *. clearbody v. unfold irange in *.
  apply Forall_app. split; [repeat (constructor; [apply h32; lia|]); constructor|].
  apply IH; try assumption; unfold irange; lia.
Qed.

Lemma net_minmax_ok pos net : ipos_dom pos -> net <> [] -> Forall (fun p => -16777216 <= snd p <= 16777216) net ->
  mm_ok (net_minmax pos net).
Proof.
  intros Hpos Hne Hp. unfold net_minmax, mm_ok. cbn [fst snd].
  assert (F : Forall (fun v => - 25165824 <= v <= 25165824) (map (ipin_pos pos) net)).
  { apply Forall_forall. intros v Hv. apply in_map_iff in Hv as (q & <- & Hq).
    rewrite Forall_forall in Hp. apply (ipin_range pos q Hpos (Hp _ Hq)). }
  assert (Hne' : map (ipin_pos pos) net <> []) by (destruct net; [congruence|discriminate]).
  pose proof (extent_bounds _ 25165824 Hne' F ltac:(lia)). lia.
Qed.

Lemma sum_widths_bound mm : Forall mm_ok mm -> 0 <= sum_widths mm <= Z.of_nat (length mm) * 50331648.
Proof.
  induction 1 as [|m mm (H1 & H2 & H3) _ IH]; cbn [sum_widths fold_right length]; [lia|].
  fold (sum_widths mm). rewrite Nat2Z.inj_succ. lia.
Qed.

Lemma value_vals_fits : forall mm acc, Forall mm_ok mm ->
  0 <= acc -> acc + Z.of_nat (length mm) * 50331648 <= 2147483648 * 50331648 ->
  Forall fits (value_vals mm acc).
Proof.
  induction mm as [|m mm IH]; intros acc Hmm Ha Hb; cbn [value_vals]; [constructor|].
  inversion Hmm as [|? ? (H1 & H2 & H3) Hmm']; subst. cbn [length] in Hb. rewrite Nat2Z.inj_succ in Hb.
  apply Forall_app. split; [repeat (constructor; [first [apply h32; lia | apply h64; lia]|]); constructor|].
  apply IH; [exact Hmm'|lia|lia].
Qed.

Theorem build_no_overflow pos nets :
  ipos_dom pos -> inets_dom nets -> Forall fits (build_vals pos nets) /\ incr_dom (incr_build pos nets).
Proof.
  intros Hpos [Hn Hlen].
  assert (Hmm : Forall mm_ok (map (net_minmax pos) nets)).
  { apply Forall_forall. intros m Hm. apply in_map_iff in Hm as (net & <- & Hnet).
    rewrite Forall_forall in Hn. destruct (Hn _ Hnet) as [Hne Hp]. apply net_minmax_ok; assumption. }
  split.
  - unfold build_vals. apply Forall_app. split.
    + apply Forall_forall. intros v Hv. apply in_concat in Hv as (l & Hl & Hv). apply in_map_iff in Hl as (net & <- & Hnet).
      rewrite Forall_forall in Hn. destruct (Hn _ Hnet) as [_ Hp].
      pose proof (mm_pins_fits pos net INT_MAX INT_MIN Hpos Hp) as F. rewrite Forall_forall in F.
      apply F; [unfold irange, INT_MAX; lia|unfold irange, INT_MIN; lia|exact Hv].
    + apply value_vals_fits; [exact Hmm|lia|rewrite map_length; lia].
  - unfold incr_dom, incr_build. cbn [ipos inets iminmax ivalue]. split; [exact Hpos|]. split; [split; assumption|].
    split; [apply map_length|]. split; [exact Hmm|reflexivity].
Qed.

Lemma Forall_hupd {A} (P : A -> Prop) l i a : Forall P l -> P a -> Forall P (upd l i a).
Proof.
  revert i. induction l as [|x l IH]; intros i Hl Ha; cbn [upd]; [constructor|].
  inversion Hl; subst. destruct i; constructor; try assumption. apply IH; assumption.
Qed.

Lemma Forall_nth_error {A} (P : A -> Prop) l k x : Forall P l -> nth_error l k = Some x -> P x.
Proof. intros H E. apply nth_error_In in E. rewrite Forall_forall in H. exact (H _ E). Qed.

Lemma recompute_facts s i : incr_dom s -> Forall fits (recompute_vals s i) /\ incr_dom (recompute_net s i).
Proof.
  intros (Hpos & [Hn Hlen] & Hl & Hmm & Hv). unfold recompute_vals, recompute_net.
  destruct (nth_error (inets s) i) as [pins|] eqn:E1; [|split; [constructor|repeat split; assumption]].
  destruct (nth_error (iminmax s) i) as [old|] eqn:E2; [|split; [constructor|repeat split; assumption]].
  destruct (Forall_nth_error _ _ _ _ Hn E1) as [Hne Hp].
  pose proof (Forall_nth_error _ _ _ _ Hmm E2) as (O1 & O2 & O3).
  pose proof (net_minmax_ok (ipos s) pins Hpos Hne Hp) as Hnw. assert (Hnw' := Hnw). destruct Hnw' as (N1 & N2 & N3).
  pose proof (sum_widths_bound _ Hmm) as Hsum. rewrite Hl in Hsum.
  set (nw := net_minmax (ipos s) pins) in *. clearbody nw.
  split.
  - apply Forall_app. split; [apply mm_pins_fits; try assumption; unfold irange, INT_MAX, INT_MIN; lia|].
    repeat (constructor; [first [apply h32; lia | apply h64; lia]|]). constructor.
  - unfold incr_dom. cbn [ipos inets iminmax ivalue]. split; [exact Hpos|]. split; [split; assumption|].
    split; [rewrite length_upd; exact Hl|]. split; [apply Forall_hupd; assumption|].
    rewrite (sum_widths_upd _ _ _ _ E2). lia.
Qed.

Lemma recompute_loop_facts : forall ids s, incr_dom s ->
  Forall fits (recompute_loop_vals ids s) /\ incr_dom (fold_left recompute_net ids s).
Proof.
  induction ids as [|i ids IH]; intros s Hs; cbn [recompute_loop_vals fold_left]; [split; [constructor|exact Hs]|].
  destruct (recompute_facts s i Hs) as [F D]. destruct (IH _ D) as [F' D'].
  split; [apply Forall_app; split; assumption|exact D'].
Qed.

Theorem update_no_overflow s c p : incr_dom s -> -8388608 <= p <= 8388608 ->
  Forall fits (update_vals s c p) /\ incr_dom (update_cell_pos s c p).
Proof.
  intros (Hpos & Hn & Hl & Hmm & Hv) Hp. unfold update_vals, update_cell_pos.
  set (s1 := {| ipos := upd (ipos s) c p; inets := inets s; iminmax := iminmax s; ivalue := ivalue s |}).
  assert (D1 : incr_dom s1).
  { unfold incr_dom, s1. cbn [ipos inets iminmax ivalue]. split; [apply Forall_hupd; [exact Hpos|exact Hp]|]. split; [exact Hn|]. split; [exact Hl|]. split; [exact Hmm|exact Hv]. }
  destruct (recompute_loop_facts (cell_net_ids (inets s) c) s1 D1) as [F D].
  split; [constructor; [apply h32; lia|exact F]|exact D].
Qed.

(* every history of position updates from a state of the domain (e.g. a freshly built model) *)
Theorem incr_history_no_overflow : forall ups s,
  incr_dom s -> Forall (fun u => -8388608 <= snd u <= 8388608) ups ->
  Forall fits (updates_vals s ups) /\ incr_dom (apply_updates s ups).
Proof.
  induction ups as [|[c p] ups IH]; intros s Hs Hu; cbn [updates_vals apply_updates fold_left]; [split; [constructor|exact Hs]|].
  inversion Hu as [|? ? Hu1 Hu2]; subst. cbn [fst snd] in *.
  destruct (update_no_overflow s c p Hs Hu1) as [F D]. destruct (IH _ D Hu2) as [F' D'].
  split; [apply Forall_app; split; assumption|exact D'].
Qed.

(* ---------- non-vacuity and sanity ---------- *)
Definition ex_hcells : list hcell :=
  [ {| hx := -4194304; hy := -4194304; hw := 4194304; hh := 4194304; ho := oN |};
    {| hx := 4194304; hy := 4194304; hw := 4194304; hh := 4194304; ho := oS |};
    {| hx := 0; hy := 0; hw := 10; hh := 20; ho := oW |} ].
Definition ex_net : list hpin :=
  [ {| pc := 0; pxo := -8388608; pyo := -8388608 |};     (* oN: offsets as given: pin at (-3*2^22, -3*2^22) *)
    {| pc := 1; pxo := -4194304; pyo := -4194304 |};     (* oS: width - offs = 2^23: pin at (3*2^22, 3*2^22) *)
    {| pc := 2; pxo := 3; pyo := 4 |} ].                 (* oW: turned and x-flipped *)
Definition ex_nets : list (list hpin) := repeat ex_net 43 ++ [[]].

Lemma ex_hpwl_dom : hpwl_dom ex_hcells ex_nets.
Proof.
  split; [repeat constructor; vm_compute; discriminate|].
  split; [|split; vm_compute; reflexivity].
  apply Forall_app. split; [|repeat constructor].
  apply Forall_forall. intros net Hn. apply repeat_spec in Hn. subst net.
  repeat constructor; vm_compute; discriminate.
Qed.

(* the domain is inhabited at its upper end (cells at +-2^22, oriented offsets +-2^23, a flipped and a turned
   cell, an empty net); the result is the expected one *)
Example hpwl_nonvacuous :
  hpwl_dom ex_hcells ex_nets /\ hpwl ex_hcells ex_nets = 43 * 50331648 /\
  length (hpwl_vals ex_hcells ex_nets) = 1466%nat.
Proof. split; [exact ex_hpwl_dom|]. split; vm_compute; reflexivity. Qed.

(* sanity: the accumulator is a long long for a reason -- on this in-domain input its final value does not fit int *)
Example hpwl_int_accumulator_would_overflow :
  hpwl_dom ex_hcells ex_nets /\
  exists v, In (I64, v) (hpwl_vals ex_hcells ex_nets) /\ ~ fits (I32, v).
Proof.
  split; [exact ex_hpwl_dom|]. exists (hpwl ex_hcells ex_nets). split.
  - unfold hpwl_vals. apply in_or_app. right. left. reflexivity.
  - vm_compute. intros [_ H]. discriminate H.
Qed.

Definition ex_ipos : list Z := [8388608; -8388608].
Definition ex_inets : list (list ipin) := repeat [(0%nat, 16777216); (1%nat, -16777216)] 43.
Definition ex_ups : list (nat * Z) := [(0%nat, -8388608); (1%nat, 8388608); (0%nat, 8388608)].

Lemma ex_incr_dom : ipos_dom ex_ipos /\ inets_dom ex_inets.
Proof.
  split; [repeat constructor; vm_compute; discriminate|].
  split; [|vm_compute; reflexivity].
  apply Forall_forall. intros net Hn. apply repeat_spec in Hn. subst net.
  split; [discriminate|repeat constructor; vm_compute; discriminate].
Qed.

Example incr_nonvacuous :
  ipos_dom ex_ipos /\ inets_dom ex_inets /\ Forall (fun u => -8388608 <= snd u <= 8388608) ex_ups /\
  ivalue (incr_build ex_ipos ex_inets) = 43 * 50331648 /\
  ivalue (apply_updates (incr_build ex_ipos ex_inets) ex_ups) = 43 * 33554432 /\
  (length (build_vals ex_ipos ex_inets) + length (updates_vals (incr_build ex_ipos ex_inets) ex_ups) = 1637)%nat.
Proof.
  split; [exact (proj1 ex_incr_dom)|]. split; [exact (proj2 ex_incr_dom)|].
  split; [repeat constructor; vm_compute; discriminate|].
  split; [vm_compute; reflexivity|]. split; vm_compute; reflexivity.
Qed.

(* sanity: value_ does not fit int on this in-domain model *)
Example incr_int_value_would_overflow :
  ipos_dom ex_ipos /\ inets_dom ex_inets /\
  exists v, In (I64, v) (build_vals ex_ipos ex_inets) /\ ~ fits (I32, v).
Proof.
  split; [exact (proj1 ex_incr_dom)|]. split; [exact (proj2 ex_incr_dom)|].
  exists (43 * 50331648). split.
  - vm_compute. repeat (try (left; reflexivity); right).
  - vm_compute. intros [_ H]. discriminate H.
Qed.

(* sanity of the domain: IncrNetModelBuilder::addNet drops nets of fewer than two pins, and that is what protects
   computeValue: for an EMPTY net the sentinel bounds give INT_MIN - INT_MAX, which is not an int *)
Example incr_empty_net_would_overflow :
  exists v, In (I32, v) (build_vals [0] [[]]) /\ ~ fits (I32, v).
Proof.
  exists (INT_MIN - INT_MAX). split; [vm_compute; left; reflexivity|]. vm_compute. intros [H _]. apply H. reflexivity.
Qed.
