(* C02 -- every outcome of DetailedPlacer::place with all its tests (InternalChecksPlace.place_entry) on the C01 domain *)
From Coq Require Import List ZArith QArith Lia Bool.
Import ListNotations.
Require Import CV.Params CV.ParamsProofs CV.CellOrder CV.CellOrderProofs.
Require Import CV.Orient CV.FreeSpace CV.Circuit CV.Hpwl CV.Moves CV.Legalizer CV.LegalizerProofs CV.LegalizerSoundProofs.
Require Import CV.DetailedInit CV.DetailedExport CV.DetailedValue CV.DetailedValueProofs CV.DetailedRun CV.DetailedRunCircuitProofs CV.DetailedRunShiftProofs.
Require Import CV.ReviewGaps1 CV.ReviewGaps1Proofs.
Require Import CV.InternalChecks CV.InternalChecksEntry CV.InternalChecksProofs CV.InternalChecksDetailed CV.InternalChecksDetailedProofs CV.InternalChecksPlace.
Local Open Scope Z_scope.

(* DetailedPlacerParameters::check of Params.v (C19) implies the reading of it the closed model of run() uses *)
Lemma params_ok_of P : check_coloquinte P = None -> params_ok (dparams_of P) = true.
Proof.
  unfold check_coloquinte, coloquinte_tests. rewrite !first_fail_app.
  destruct (first_fail (global_tests (cp_global P))); [discriminate|].
  destruct (first_fail (legalization_tests (cp_legalization P))); [discriminate|].
  unfold detailed_tests, params_ok, dparams_of. cbn [first_fail DetailedRun.dp_nbPasses DetailedRun.dp_localSearchNbNeighbours
    DetailedRun.dp_localSearchNbRows DetailedRun.dp_shiftNbRows DetailedRun.dp_shiftMaxNbCells DetailedRun.dp_reorderingNbRows
    DetailedRun.dp_reorderingMaxNbCells].
  set (d := cp_detailed P).
  destruct (Z.ltb_spec (Params.dp_nbPasses d) 0); [discriminate|].
  destruct (Z.ltb_spec (Params.dp_localSearchNbNeighbours d) 0); [discriminate|].
  destruct (Z.ltb_spec (Params.dp_localSearchNbRows d) 0); [discriminate|].
  destruct (Z.leb_spec (Params.dp_shiftNbRows d) 0); [discriminate|].
  destruct (Z.ltb_spec (Params.dp_shiftMaxNbCells d) 0); [discriminate|].
  destruct (Z.leb_spec (Params.dp_reorderingNbRows d) 0); [discriminate|].
  destruct (Z.ltb_spec (Params.dp_reorderingMaxNbCells d) 0); [discriminate|]. intros _.
  repeat (apply andb_true_intro; split); first [apply Z.leb_le|apply Z.ltb_lt]; lia.
Qed.

Lemma call_of_Forall {A} (f : A -> chk_res) l : Forall (fun a => f a = CPass) l -> call f l = CPass.
Proof. intros H. apply call_pass. rewrite Forall_forall in H. exact H. Qed.

(* THE restatement of c02_place_detailed_closed_returns_legal from the circuit given to placeDetailed: the only ways
   DetailedPlacer::place can stop are the parameter check (C19), a failed legalization (C01: NoRow / NotAllPlaced), a rejected or
   missing answer of lemon (oracle) -- the callback protocol (C10) is outside the model --; otherwise every circuit a callback
   sees and the final one are legal and carry the frame of the legalized circuit.  No internal test fails, none reads out of
   bounds, the constructor accepts the legalized circuit *)
Theorem place_entry_outcomes P c0 nets answers rh : std_design c0 rh ->
  match place_entry P c0 nets answers with
  | PlParams m => check_coloquinte P = Some m
  | PlLegalize r => check_coloquinte P = None /\
                    ((r = LcNoRow /\ legalize_real (order_params_of P) c0 = LegNoRow) \/
                     (r = LcNotAllPlaced /\ legalize_real (order_params_of P) c0 = LegNotAllPlaced))
  | PlRun e => check_coloquinte P = None /\ (e = EOracle \/ e = ERecord)
  | PlOk c' exs _ => check_coloquinte P = None /\
                     exists c, legalize_real (order_params_of P) c0 = LegOk c /\ legal c /\
                               legal c' /\ frame c c' rh /\ Forall (fun e => legal e /\ frame c e rh) exs
  | PlConstruct _ => False
  | PlCheck _ => False
  | PlUB => False
  end.
Proof.
  intros SD. unfold place_entry. pose proof (legalize_entry_outcomes P c0 rh SD) as HE.
  destruct (legalize_entry P c0) as [m|[c| | |e|]]; try exact HE; try contradiction; try (destruct HE as (H1 & H2); split; [exact H1|tauto]).
  destruct HE as (HP & Hreal & HL & _).
  destruct (legalize_then_from_circuit c0 _ c rh SD Hreal) as (SDc & _ & d0 & Hs & _).
  rewrite Hs.
  destruct (place_detailed_checked c rh nets SDc HL (dparams_of P) answers d0 Hs (params_ok_of P HP)) as (H0 & Hrun). cbn zeta in Hrun.
  rewrite H0.
  destruct (run_passes_c (dparams_of P) answers _) as [[[s' ex] rest]|e].
  - destruct Hrun as (Hall & _ & L' & F' & Fex). rewrite (call_of_Forall _ _ Hall).
    split; [exact HP|]. exists c. split; [exact Hreal|]. split; [exact HL|]. split; [exact L'|]. split; [exact F'|].
    rewrite Forall_map. exact Fex.
  - destruct Hrun as (Hor & _). split; [exact HP|exact Hor].
Qed.
