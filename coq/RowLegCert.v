(* A dual certificate for the ordered single-row problem

     minimise  sum_i w_i * |x_i - t_i|
     s.t.      b <= x_1,  x_i + w_i <= x_(i+1),  x_n + w_n <= e

   and a checker [cert_ok] whose success is proved to imply optimality of the
   given positions among ALL legal placements (any number of cells, any
   integers).  Multipliers lambda_i >= 0 of the chain constraints are not
   searched for: the checker propagates, from the last cell to the first, the
   interval of admissible values of the multiplier in front of each cell. *)
From Coq Require Import List ZArith Lia Bool.
Import ListNotations.
Local Open Scope Z_scope.

Record ccell := { cw : Z; ct : Z; cx : Z }.   (* width, target, position *)

Definition cost_at (c : ccell) (z : Z) : Z := cw c * Z.abs (z - ct c).
Fixpoint cost_own (cs : list ccell) : Z :=
  match cs with [] => 0 | c :: r => cost_at c (cx c) + cost_own r end.
Fixpoint cost_of (cs : list ccell) (zs : list Z) : Z :=
  match cs, zs with c :: r, z :: zs' => cost_at c z + cost_of r zs' | _, _ => 0 end.

(* legal competitor: zs ordered, non-overlapping, inside [lo, e) *)
Fixpoint legal_from (lo e : Z) (cs : list ccell) (zs : list Z) : Prop :=
  match cs, zs with
  | c :: r, z :: zs' => lo <= z /\ legal_from (z + cw c) e r zs'
  | [], [] => lo <= e
  | _, _ => False
  end.

(* interval [lo, hi] or [lo, +oo) *)
Definition itv := (Z * option Z)%type.
Definition in_itv (i : itv) (l : Z) : Prop :=
  fst i <= l /\ match snd i with None => True | Some h => l <= h end.
Definition itv_nonempty (i : itv) : bool :=
  match snd i with None => true | Some h => fst i <=? h end.

(* admissible multipliers of the constraint "prev <= position of the first cell
   of cs" (prev = end of the previous cell, or the segment begin) *)
Fixpoint adm (e prev : Z) (cs : list ccell) : option itv :=
  match cs with
  | [] => if prev =? e then Some (0, None)
          else if prev <? e then Some (0, Some 0) else None
  | c :: r =>
    if (cx c <? prev) || (cw c <? 0) then None else
    match adm e (cx c + cw c) r with
    | None => None
    | Some (lo, hi) =>
      (* subgradients of w*|x - t| at x *)
      let '(glo, ghi) :=
          if ct c <? cx c then (cw c, cw c)
          else if cx c <? ct c then (- cw c, - cw c) else (- cw c, cw c) in
      let lo' := Z.max 0 (lo + glo) in
      let hi' := match hi with None => None | Some h => Some (h + ghi) end in
      (* complementary slackness: a gap in front of the cell forces 0 *)
      let hi'' := if prev <? cx c
                  then Some (match hi' with None => 0 | Some h => Z.min h 0 end) else hi' in
      if itv_nonempty (lo', hi'') then Some (lo', hi'') else None
    end
  end.

Definition cert_ok (b e : Z) (cs : list ccell) : bool :=
  match adm e b cs with Some _ => true | None => false end.

Lemma adm_legal e prev cs i : adm e prev cs = Some i -> legal_from prev e cs (map cx cs).
Proof.
  revert prev i. induction cs as [|c r IH]; intros prev i; cbn [adm legal_from map].
  - destruct (Z.eqb_spec prev e); [lia|]. destruct (Z.ltb_spec prev e); [lia|discriminate].
  - destruct (_ || _) eqn:E; [discriminate|]. apply orb_false_iff in E as [E1 E2].
    apply Z.ltb_ge in E1. destruct (adm e (cx c + cw c) r) as [[lo hi]|] eqn:A; [|discriminate].
    intros _. split; [lia|]. eapply IH; exact A.
Qed.

Lemma subgradient w t x z g :
  0 <= w ->
  (if t <? x then g = w else if x <? t then g = - w else - w <= g <= w) ->
  w * Z.abs (z - t) - w * Z.abs (x - t) >= g * (z - x).
Proof.
  intros Hw Hg. destruct (Z.ltb_spec t x); [subst g|destruct (Z.ltb_spec x t); [subst g|]]; nia.
Qed.

Lemma adm_nonempty e prev cs lo h : adm e prev cs = Some (lo, Some h) -> lo <= h.
Proof.
  destruct cs as [|c r]; cbn [adm].
  - destruct (_ =? _); [discriminate|]. destruct (_ <? _); intros [= <- <-]; lia.
  - destruct (_ || _); [discriminate|]. destruct (adm e _ r) as [[lo' hi']|]; [|discriminate].
    destruct (if ct c <? cx c then _ else _) as [glo ghi].
    match goal with |- (if itv_nonempty ?iv then _ else _) = _ -> _ => remember iv as v eqn:Ev end.
    destruct (itv_nonempty v) eqn:NE; [|discriminate]. intros [= ->].
    unfold itv_nonempty in NE. cbn [fst snd] in NE. apply Z.leb_le in NE. exact NE.
Qed.

Lemma adm_sound e cs : forall prev i l,
  adm e prev cs = Some i -> in_itv i l ->
  0 <= l /\
  forall zprev zs, legal_from zprev e cs zs ->
    cost_of cs zs - cost_own cs >= l * (zprev - prev).
Proof.
  induction cs as [|c r IH]; intros prev i l; cbn [adm].
  - destruct (Z.eqb_spec prev e) as [->|Hne].
    + intros [= <-] [Hl _]. cbn in Hl. split; [lia|]. intros zprev [|z zs]; cbn; [|tauto]. nia.
    + destruct (Z.ltb_spec prev e); [|discriminate]. intros [= <-] [Hl Hh]. cbn in Hl, Hh.
      assert (l = 0) by lia. subst l. split; [lia|]. intros zprev [|z zs]; cbn; [|tauto]. lia.
  - destruct (_ || _) eqn:E; [discriminate|]. apply orb_false_iff in E as [E1 E2].
    apply Z.ltb_ge in E1, E2.
    destruct (adm e (cx c + cw c) r) as [[lo hi]|] eqn:A; [|discriminate].
    set (gs := if ct c <? cx c then (cw c, cw c)
               else if cx c <? ct c then (- cw c, - cw c) else (- cw c, cw c)).
    destruct gs as [glo ghi] eqn:G.
    match goal with |- (if itv_nonempty ?iv then _ else _) = _ -> _ => destruct (itv_nonempty iv) eqn:NE end;
      [|discriminate].
    intros [= <-] [Hlo Hhi]. cbn [fst snd] in Hlo, Hhi.
    assert (Hl0 : 0 <= l) by lia. split; [exact Hl0|].
    assert (Hg : glo <= ghi /\ (if ct c <? cx c then glo = cw c /\ ghi = cw c
                 else if cx c <? ct c then glo = - cw c /\ ghi = - cw c
                      else glo = - cw c /\ ghi = cw c)).
    { subst gs. destruct (ct c <? cx c); [inversion G; lia|].
      destruct (cx c <? ct c); inversion G; lia. }
    destruct Hg as [Hgle Hgs].
    (* slackness *)
    assert (Hslack : l * (cx c - prev) = 0).
    { destruct (Z.ltb_spec prev (cx c)).
      - destruct hi as [h|]; cbn in Hhi; assert (l = 0) by lia; subst l; lia.
      - assert (cx c = prev) by lia. nia. }
    (* l <= hi + ghi *)
    assert (Hup : match hi with None => True | Some h => l <= h + ghi end).
    { destruct hi as [h|]; [|exact I]. destruct (prev <? cx c); cbn in Hhi; lia. }
    (* lo <= hi: the interval of the tail was nonempty; follows from soundness data *)
    set (li := Z.max lo (l - ghi)).
    assert (Hli : in_itv (lo, hi) li).
    { unfold in_itv, li; cbn [fst snd]. split; [lia|]. destruct hi as [h|]; [|exact I].
      assert (lo <= h).
      { eapply adm_nonempty; exact A. }
      lia. }
    destruct (IH _ _ li A Hli) as [Hli0 Htail].
    intros zprev [|z zs]; cbn [legal_from]; [tauto|]. intros [Hz Hleg].
    specialize (Htail (z + cw c) zs Hleg). cbn [cost_of cost_own].
    set (g := l - li).
    assert (Hgr : glo <= g <= ghi) by (unfold g, li; lia).
    pose proof (subgradient (cw c) (ct c) (cx c) z g E2) as Hsub.
    assert (Hsub' : cw c * Z.abs (z - ct c) - cw c * Z.abs (cx c - ct c) >= g * (z - cx c)).
    { apply Hsub. destruct (ct c <? cx c); [lia|]. destruct (cx c <? ct c); lia. }
    unfold cost_at. 
    replace (z + cw c - (cx c + cw c)) with (z - cx c) in Htail by lia.
    assert (Hkey : g * (z - cx c) + li * (z - cx c) = l * (z - cx c)) by (unfold g; ring).
    assert (Hdec : l * (z - cx c) = l * (z - zprev) + l * (zprev - prev) - l * (cx c - prev)) by ring.
    assert (0 <= l * (z - zprev)) by nia.
    lia.
Qed.

(* main theorem: a successful check proves legality and optimality *)
Theorem cert_ok_sound b e cs :
  cert_ok b e cs = true ->
  legal_from b e cs (map cx cs) /\
  forall zs, legal_from b e cs zs -> cost_own cs <= cost_of cs zs.
Proof.
  unfold cert_ok. destruct (adm e b cs) as [[lo hi]|] eqn:A; [|discriminate]. intros _. split.
  - eapply adm_legal; exact A.
  - intros zs Hz.
    assert (Hne : in_itv (lo, hi) lo).
    { unfold in_itv; cbn [fst snd]. split; [lia|]. destruct hi as [h|]; [|exact I].
      eapply adm_nonempty; exact A. }
    destruct (adm_sound e cs b (lo, hi) lo A Hne) as [_ H]. specialize (H b zs Hz). lia.
Qed.

Lemma cost_own_of cs : cost_own cs = cost_of cs (map cx cs).
Proof. induction cs as [|c r IH]; cbn; [reflexivity|]. rewrite IH. reflexivity. Qed.
