(* C14 -- one-dimensional transportation is optimal and its rounding is memory-safe.
   Statements only; every proof is `exact <lemma>`.  Model: Transp1d.v, a line-by-line model of
   src/place_global/transportation_1d.cpp WITH the F11 repair (fix: commit ef60904 on /repo main), tied to the code by the
   exact correspondence run of ./check C14 (solve() triples and assign() vector equal on every case).
   Labels: [F] proved for all inputs, [B] bounded (finite domain in the statement, vm_compute), [P] partial,
   [R] refuted for the faithful model of the UNCHANGED code (finding F11). *)
From Coq Require Import List ZArith Lia Bool.
Import ListNotations.
Require Import CV.LpCert CV.Transp1d CV.Transp1dProofs CV.Transp1dTerm CV.Transp1dCert
               CV.Transp1dBoundedA CV.Transp1dBoundedB CV.Transp1dBoundedC CV.Transp1dBoundedD
               CV.Transp1dOpt CV.Transp1dOptM5 CV.Transp1dOptProofs.
Local Open Scope Z_scope.

(* [F] Invariants of the positions p left by run() (push loop + flushPositions) on every sorted problem with positive
   supplies/demands and total supply <= total demand: one position per source, source intervals
   [S_i+p_i, S_{i+1}+p_i) of positive length, ordered and disjoint (p non-decreasing), inside [0, D_m). *)
Theorem c14_run_positions :
  forall P p, wf_sprob P -> run P = Some p -> length p = n_src P /\ geom P p.
Proof. exact run_geom. Qed.

(* [F] run() terminates: the fuel of the model's `while` loop always suffices (so the model never hides a
   non-terminating C++ loop behind a default), and solve()/assign() answer on every input accepted by check(). *)
Theorem c14_run_terminates : forall P, wf_sprob P -> exists p, run P = Some p.
Proof. exact run_terminates. Qed.
Theorem c14_solve_total : forall pb, check pb = None -> exists sol, solve pb = Ok sol.
Proof. exact solve_total. Qed.
Theorem c14_assign_total : forall pb, check pb = None -> exists r, assign pb = Ok r.
Proof. exact assign_total. Qed.

(* [F] Plan validity, all inputs (unsorted, duplicate positions, zero supplies and demands): every triple of the
   plan returned by solve() names a source and a sink of the problem with a positive quantity, every supply is met
   exactly, no demand is exceeded. *)
Theorem c14_plan_valid : forall pb sol, solve pb = Ok sol -> valid_plan pb sol.
Proof. exact solve_valid. Qed.

(* [F] Rounded assignment, all inputs: one entry per source of the ORIGINAL problem (sources without supply
   included); whenever some sink has positive demand, every entry is a sink of the problem with positive demand.
   PRESUPPOSITION: the second clause is proved only under `exists j, 0 < d_j`.  On instances whose demands are all
   zero (inside the quantifier and the exhaustive boxes) it is FALSE for model and C++ alike: `T1 0 1 1 0 0 0 0`
   gives assign = [0] and sink 0 has demand 0; with no sink at all the entry 0 names a non-existent sink.  The
   oracle skips the clause there. *)
Theorem c14_assign_shape :
  forall pb r, assign pb = Ok r ->
  length r = nb_sources pb /\
  ((exists j, (j < nb_sinks pb)%nat /\ 0 < zn (pb_d pb) j) ->
   forall i, (i < nb_sources pb)%nat -> (nn r i < nb_sinks pb)%nat /\ 0 < zn (pb_d pb) (nn r i)).
Proof. exact assign_spec. Qed.

(* [F] A source that the plan of solve() does not split (all its triples go to one sink j) is assigned to j itself
   (stronger than the statement's "or another sink at the same position"). *)
Theorem c14_assign_unsplit :
  forall pb sol r, solve pb = Ok sol -> assign pb = Ok r ->
  forall i j a, In (i, j, a) sol -> (forall j' a', In (i, j', a') sol -> j' = j) -> nn r i = j.
Proof. exact assign_unsplit. Qed.

(* [F] Memory clause, repaired code, for the TWO functions computeAssignment and convertAssignmentBack only (the sorter
   constructor incl. the F11 repair's snkSort[k-1] / idleSink[i], convert, run / push and flushPositions still read
   through the nth / zn defaults: no out-of-bounds statement is made about them; ASan without _GLIBCXX_ASSERTIONS
   cannot see over-reads inside reserved capacity).  computeAssignment and convertAssignmentBack are modelled with explicit array
   sizes: every read (p, S, s, D, srcOrder, snkOrder, a) and every write (ret) is option-valued and an access outside
   the array makes assign answer Err EOOB.  It never does, for ANY input. *)
Theorem c14_no_oob : forall pb, assign pb <> Err EOOB.
Proof. exact assign_no_oob. Qed.

(* [R] Memory clause, UNCHANGED code (transportation_1d.cpp at ccd26f6: `ret.resize(a.size())` indexed by original
   source index): an input accepted by check() on which the result is written out of bounds.  Finding F11;
   witness u={0,0,0} v={5} s={0,0,2} d={2} (reproduced on the C++ under ASan before the repair; /repo main carries the
   fix ef60904, so ./check C14 no longer replays it: the driver's T1U mode is not called; historical). *)
Theorem c14_no_oob_unfixed_refuted : exists pb, check pb = None /\ assign_unfixed pb = Err EOOB.
Proof. exact (ex_intro _ f11_witness assign_unfixed_oob). Qed.

(* [F] Soundness of the optimality certificate (LP duality, LpCert.lp_cert_sound), all inputs: a plan accepted by
   the checker -- with whatever potentials the untrusted cert_of proposes -- is valid and has minimum total cost
   sum a*|u_i - v_j| among ALL valid plans of the problem.  ./check C14 evaluates check_plan on the C++ plans. *)
Theorem c14_certificate_sound :
  forall pb sol, check_plan pb sol = true ->
  valid_plan pb sol /\ forall sol', valid_plan pb sol' -> plan_cost pb sol <= plan_cost pb sol'.
Proof. exact check_plan_sound. Qed.

(* [F] MAIN CLAUSE, all inputs, no size bound: the plan returned by solve() has minimum total distance cost
   sum a*|u_i - v_j| among ALL valid plans of the problem -- for every input accepted by check() (unsorted, duplicate
   positions, zero supplies and demands, slack demand).  Proof (Transp1dOptA1..A6, M1..M5, F1, F2, Transp1dOptProofs):
   value-function invariant of the event sweep (the flushed positions attain the optimum Vf of the position problem),
   and a lower bound Vf for every feasible plan (Kantorovich potential of the staircase plan with the same sink loads +
   dynamic programming over the sources with the best-window lemma). *)
Theorem c14_optimal :
  forall pb sol, solve pb = Ok sol ->
  forall sol', valid_plan pb sol' -> plan_cost pb sol <= plan_cost pb sol'.
Proof. exact solve_optimal. Qed.

(* [F] The same on the sorted problem handed to Transportation1dSolver: the cost of the positions computed by run()
   (each source a contiguous block of the cumulative-demand axis) is at most the cost of every feasible plan X
   (X i j >= 0, row sums = supplies, column sums <= demands). *)
Theorem c14_run_optimal :
  forall P p X, wf_sprob P -> sorted_sprob P -> run P = Some p -> feasible_mat P X ->
  pos_cost P 0 p <= mat_cost P X.
Proof. exact run_optimal. Qed.

(* (superseded by c14_optimal, kept) *)
(* [P, checked-model form, superseded] Optimality of solve() in the form "whenever the model's plan passes the checker"
   (validated per run on every correspondence case).  The unconditional statement
     forall pb sol, solve pb = Ok sol -> forall sol', valid_plan pb sol' -> plan_cost pb sol <= plan_cost pb sol'
   IS proved above: c14_optimal.  Bounded versions (cross-checks by computation) follow. *)
Theorem c14_optimal_partial :
  forall pb sol, solve_checked pb = Some sol ->
  solve pb = Ok sol /\ valid_plan pb sol /\ forall sol', valid_plan pb sol' -> plan_cost pb sol <= plan_cost pb sol'.
Proof. exact solve_checked_sound. Qed.

(* [B] Bounded optimality: for EVERY problem of four explicit finite boxes (all position/supply/demand vectors over
   the given value sets, unsorted, duplicates and zeros included) that passes check(), solve() returns a valid plan
   of minimum cost.  box A: 1..3 sources x 1..3 sinks, positions 0..2, supplies 0..1, demands 0..1;
   box B: 1..2 x 1..2, positions 0..3, supplies 0..3, demands 0..3; box C: 1..4 x 1..2, positions 0..1, supplies 0..2,
   demands 0..3; box D: 1..3 x 1..3, positions 0..1, supplies 0..2, demands 0..2. *)
Theorem c14_optimal_bounded_a :
  forall pb, in_box 3 3 [0;1;2] [0;1] [0;1] pb -> check pb = None ->
  exists sol, solve pb = Ok sol /\ valid_plan pb sol /\ forall sol', valid_plan pb sol' -> plan_cost pb sol <= plan_cost pb sol'.
Proof. exact (box_optimal _ _ _ _ _ box_a_ok). Qed.
Theorem c14_optimal_bounded_b :
  forall pb, in_box 2 2 [0;1;2;3] [0;1;2;3] [0;1;2;3] pb -> check pb = None ->
  exists sol, solve pb = Ok sol /\ valid_plan pb sol /\ forall sol', valid_plan pb sol' -> plan_cost pb sol <= plan_cost pb sol'.
Proof. exact (box_optimal _ _ _ _ _ box_b_ok). Qed.
Theorem c14_optimal_bounded_c :
  forall pb, in_box 4 2 [0;1] [0;1;2] [0;1;2;3] pb -> check pb = None ->
  exists sol, solve pb = Ok sol /\ valid_plan pb sol /\ forall sol', valid_plan pb sol' -> plan_cost pb sol <= plan_cost pb sol'.
Proof. exact (box_optimal _ _ _ _ _ box_c_ok). Qed.
Theorem c14_optimal_bounded_d :
  forall pb, in_box 3 3 [0;1] [0;1;2] [0;1;2] pb -> check pb = None ->
  exists sol, solve pb = Ok sol /\ valid_plan pb sol /\ forall sol', valid_plan pb sol' -> plan_cost pb sol <= plan_cost pb sol'.
Proof. exact (box_optimal _ _ _ _ _ box_d_ok). Qed.

(* non-vacuity: an unsorted instance with duplicate positions, a zero supply, a zero demand and slack; the plan splits
   source 0 over two sinks, the idle source 2 gets the closest sink of positive demand, the checker accepts *)
Definition c14_example : prob := {| pb_u := [7; 1; 4; 1]; pb_v := [6; 0; 6; 3]; pb_s := [3; 2; 0; 1]; pb_d := [2; 2; 0; 4] |}.
Example c14_nonvacuous :
  check c14_example = None /\
  solve c14_example = Ok [(1%nat, 1%nat, 2); (3%nat, 3%nat, 1); (0%nat, 3%nat, 1); (0%nat, 0%nat, 2)] /\
  assign c14_example = Ok [0; 1; 3; 3]%nat /\
  solve_checked c14_example <> None /\
  wf_sprob (convert (mk_sorter c14_example) c14_example) /\
  in_box 4 4 [0;1;3;4;6;7] [0;1;2;3] [0;2;4] c14_example.
Proof.
  split; [vm_compute; reflexivity|]. split; [vm_compute; reflexivity|]. split; [vm_compute; reflexivity|].
  split; [vm_compute; discriminate|]. split; [apply convert_wf, check_none; vm_compute; reflexivity|].
  unfold in_box. cbn. intuition lia.
Qed.
(* non-vacuity of c14_optimal: on the instance above another VALID plan is strictly more expensive than solve()'s *)
Example c14_optimal_nonvacuous :
  let alt := [(1%nat, 3%nat, 2); (3%nat, 1%nat, 1); (0%nat, 3%nat, 1); (0%nat, 0%nat, 2)] in
  valid_plan c14_example alt /\
  (forall sol, solve c14_example = Ok sol -> plan_cost c14_example sol = 10) /\ plan_cost c14_example alt = 11.
Proof.
  cbv zeta. split; [apply valid_planb_correct; vm_compute; reflexivity|]. split; [|vm_compute; reflexivity].
  intros sol H. destruct c14_nonvacuous as (_ & E & _). rewrite E in H. inversion H; subst. vm_compute. reflexivity.
Qed.
(* non-vacuity of the certificate theorem: the checker rejects a valid but non-optimal plan and accepts the optimal one *)
Example c14_certificate_discriminates :
  let pb := {| pb_u := [0; 10]; pb_v := [0; 10]; pb_s := [1; 1]; pb_d := [1; 1] |} in
  valid_plan pb [(0%nat, 1%nat, 1); (1%nat, 0%nat, 1)] /\ check_plan pb [(0%nat, 1%nat, 1); (1%nat, 0%nat, 1)] = false /\
  check_plan pb [(0%nat, 0%nat, 1); (1%nat, 1%nat, 1)] = true.
Proof.
  cbv zeta. split; [apply valid_planb_correct; vm_compute; reflexivity|]. split; vm_compute; reflexivity.
Qed.

Print Assumptions c14_run_positions.
Print Assumptions c14_run_terminates.
Print Assumptions c14_solve_total.
Print Assumptions c14_assign_total.
Print Assumptions c14_plan_valid.
Print Assumptions c14_assign_shape.
Print Assumptions c14_assign_unsplit.
Print Assumptions c14_no_oob.
Print Assumptions c14_no_oob_unfixed_refuted.
Print Assumptions c14_certificate_sound.
Print Assumptions c14_optimal.
Print Assumptions c14_run_optimal.
Print Assumptions c14_optimal_partial.
Print Assumptions c14_optimal_bounded_a.
Print Assumptions c14_optimal_bounded_b.
Print Assumptions c14_optimal_bounded_c.
Print Assumptions c14_optimal_bounded_d.
