(* Model of DetailedPlacement::fromIspdCircuit(const Circuit&) and of the DetailedPlacement
   constructor it calls (src/place_detailed/detailed_placement.cpp), line by line, with the C++
   exceptions as errors.  The result is the abstract row structure of Moves.v (what rowCells()
   returns for each row, with the cell positions, widths, polarities and orientations).

   fromIspdCircuit:
     rowHeight = nbRows() > 0 ? circuit.rowHeight() : 0    (throws: different heights; before the
                                                            repair da3fc07 of finding F20 also: no row,
                                                            kept as from_circuit_orig)
     widths[c] = -1                  if the cell is fixed
               = -1, placement(c) added to `obstacles`     if placedHeight(c) != rowHeight
               = placedWidth(c)      otherwise
     DetailedPlacement(circuit.computeRows(obstacles), widths, cellX_, cellY_, cellOrientation_,
                       cellRowPolarity_, {0..n-1})
   constructor:
     std::sort of the rows by (minY, minX)   (not stable: ties -- two segments with the same corner --
                                              are in unspecified order; modelled by the stable sort)
     for every cell i with width != -1 (isIgnored), in index order:
       it  = std::upper_bound(rows, (x,x,y,y), same comparison)      [first row after the point]
       it == begin                     -> throw "No row found for the cell"
       row = it - 1; rect = rows_[row]
       rect.minY != y                  -> throw "Found row doesn't have the right y"
       rect.minX > x                   -> throw "Found row starts after the cell"
       rect.maxX < x + width[i]        -> throw "Found row ends before the cell"
       rowToCells[row].push_back(i)
     std::sort of every rowToCells[row] by posX  (not stable; modelled by the stable sort: cells
                                              with equal x of positive width throw below in any order)
     for every row, consecutive cells c1 c2: cellX[c1] + cellWidth[c1] > cellX[c2]
                                       -> throw "Overlap between cells"
     check():  the sizes / pointer consistency tests cannot fail on the arrays just built (the
               arrays themselves are the subject of MovesConcrete.v); what is modelled is what it
               tests about positions -- first cell of a row not before row.minX, every cell not
               overlapping its predecessor, last cell not beyond row.maxX -- and about orientations:
               expected = cellOrientationInRow(pol, row orientation);
               expected != UNKNOWN && orientation != expected
                                       -> throw "Cell orientation seems incompatible with its row"
   The ignored cells (width -1) are not part of the abstract state (d_loose = []). *)
From Coq Require Import List ZArith Lia Bool.
Import ListNotations.
Require Import CV.Orient CV.FreeSpace CV.Circuit CV.Moves.
Require CV.Legalizer.
Local Open Scope Z_scope.

Inductive dp_error :=
| ENoRows                      (* Circuit::rowHeight: no row has been defined *)
| ERowHeights                  (* Circuit::rowHeight: rows of different heights *)
| ENoRowFound (cell : nat)
| EWrongY (cell : nat)
| ERowStartsAfter (cell : nat)
| ERowEndsBefore (cell : nat)
| EOverlap                     (* constructor: "Overlap between cells" *)
| ECheckGeometry               (* check(): overlap with the predecessor/successor, element out of the row *)
| ECheckOrientation.           (* check(): cell orientation incompatible with its row *)

Inductive result (A : Type) := DOk (a : A) | DErr (e : dp_error).
Arguments DOk {A} a.
Arguments DErr {A} e.

(* Circuit::placedWidth / placedHeight *)
Definition placed_w (k : ccell) : Z := if is_turn (c_o k) then c_h k else c_w k.
Definition placed_h (k : ccell) : Z := if is_turn (c_o k) then c_w k else c_h k.

(* ---------- fromIspdCircuit ---------- *)
Record dcell := { dc_w : Z; dc_x : Z; dc_y : Z; dc_o : orient; dc_pol : polarity }.

Definition dp_width (rh : Z) (k : ccell) : Z :=
  if c_fixed k then -1 else if negb (placed_h k =? rh) then -1 else placed_w k.

Definition dcell_of (rh : Z) (k : ccell) : dcell :=
  {| dc_w := dp_width rh k; dc_x := c_x k; dc_y := c_y k; dc_o := c_o k; dc_pol := c_pol k |}.

Definition dp_obstacles (rh : Z) (cs : list ccell) : list rect :=
  flat_map (fun k => if c_fixed k then [] else if negb (placed_h k =? rh) then [placement_of k] else []) cs.

(* circuit.computeRows(obstacles) *)
Definition dp_rows (c : circuit) (rh : Z) : list row :=
  compute_rows (rows c) (dp_obstacles rh (cells c)) (map (fun k => (placement_of k, c_fixed k, c_obs k)) (cells c)).

(* ---------- constructor ---------- *)
(* the comparison of the sort, applied to the point Rectangle(x, x, y, y) on the left *)
Definition val_lt (x y : Z) (b : rect) : bool := (y <? minY b) || ((y =? minY b) && (x <? minX b)).

(* std::upper_bound on the sorted rows, minus one: the row just before the first row that is after
   the point (None when the first row already is: it == begin) *)
Fixpoint row_before (rws : list row) (x y : Z) (i : nat) (prev : option (nat * row)) : option (nat * row) :=
  match rws with
  | [] => prev
  | r :: t => if val_lt x y (rr r) then prev else row_before t x y (S i) (Some (i, r))
  end.

Definition locate (rws : list row) (i : nat) (d : dcell) : result nat :=
  match row_before rws (dc_x d) (dc_y d) 0 None with
  | None => DErr (ENoRowFound i)
  | Some (rowi, r) =>
    if negb (minY (rr r) =? dc_y d) then DErr (EWrongY i)
    else if dc_x d <? minX (rr r) then DErr (ERowStartsAfter i)
    else if maxX (rr r) <? dc_x d + dc_w d then DErr (ERowEndsBefore i)
    else DOk rowi
  end.

Definition pcell_of (i : nat) (d : dcell) : pcell :=
  {| p_id := i; p_x := dc_x d; p_w := dc_w d; p_pol := dc_pol d; p_o := dc_o d |}.

(* the loop over the cells: (row, cell) in index order; the first exception wins *)
Fixpoint locate_all (rws : list row) (i : nat) (ds : list dcell) : result (list (nat * pcell)) :=
  match ds with
  | [] => DOk []
  | d :: t =>
    if dc_w d =? -1 then locate_all rws (S i) t
    else match locate rws i d with
         | DErr e => DErr e
         | DOk rowi => match locate_all rws (S i) t with
                       | DErr e => DErr e
                       | DOk l => DOk ((rowi, pcell_of i d) :: l)
                       end
         end
  end.

(* sort of a row's cells by x *)
Fixpoint insert_x (c : pcell) (l : list pcell) : list pcell :=
  match l with
  | [] => [c]
  | a :: l' => if p_x a <? p_x c then a :: insert_x c l' else c :: l
  end.
Definition sort_x (l : list pcell) : list pcell := fold_right insert_x [] l.

(* rowToCells[row], sorted *)
Definition row_cells (asg : list (nat * pcell)) (rowi : nat) : list pcell :=
  sort_x (map snd (filter (fun p => Nat.eqb (fst p) rowi) asg)).

Definition mk_drow (r : row) (l : list pcell) : drow :=
  {| dr_min := minX (rr r); dr_max := maxX (rr r); dr_y := minY (rr r); dr_o := ro r; dr_cells := l |}.

Fixpoint build_rows (rws : list row) (j : nat) (asg : list (nat * pcell)) : list drow :=
  match rws with
  | [] => []
  | r :: t => mk_drow r (row_cells asg j) :: build_rows t (S j) asg
  end.

(* "Overlap between cells" *)
Fixpoint no_overlap (l : list pcell) : bool :=
  match l with
  | a :: ((b :: _) as t) => (p_x a + p_w a <=? p_x b) && no_overlap t
  | _ => true
  end.

(* check(): positions.  lo = row.minX for the first cell, end of the predecessor otherwise *)
Fixpoint check_chain (lo hi : Z) (l : list pcell) : bool :=
  match l with
  | [] => true
  | c :: t => (lo <=? p_x c) && (match t with [] => p_x c + p_w c <=? hi | _ => true end)
              && check_chain (p_x c + p_w c) hi t
  end.

(* check(): orientations *)
Definition check_orient (rowo : orient) (c : pcell) : bool :=
  let e := cell_orientation_in_row (p_pol c) rowo in
  orient_eqb e oUNKNOWN || orient_eqb (p_o c) e.

Definition construct (rws0 : list row) (ds : list dcell) : result dstate :=
  let rws := Legalizer.sort_rows rws0 in
  match locate_all rws 0 ds with
  | DErr e => DErr e
  | DOk asg =>
    let drs := build_rows rws 0 asg in
    if negb (forallb (fun r => no_overlap (dr_cells r)) drs) then DErr EOverlap
    else if negb (forallb (fun r => check_chain (dr_min r) (dr_max r) (dr_cells r)) drs) then DErr ECheckGeometry
    else if negb (forallb (fun r => forallb (check_orient (dr_o r)) (dr_cells r)) drs) then DErr ECheckOrientation
    else DOk {| d_rows := drs; d_loose := [] |}
  end.

(* the CURRENT code (since /repo commit da3fc07, repair of finding F20):
     int rowHeight = circuit.nbRows() > 0 ? circuit.rowHeight() : 0;
   without rows the constructor receives no row; every non-ignored cell (movable, placed height 0)
   then throws "No row found for the cell" *)
Definition from_circuit (c : circuit) : result dstate :=
  match rows c with
  | [] => construct (dp_rows c 0) (map (dcell_of 0) (cells c))
  | _ => match row_height c with
         | None => DErr ERowHeights
         | Some rh => construct (dp_rows c rh) (map (dcell_of rh) (cells c))
         end
  end.

(* the code BEFORE da3fc07: `int rowHeight = circuit.rowHeight();` unconditionally, which throws
   on a circuit without rows (finding F20) *)
Definition from_circuit_orig (c : circuit) : result dstate :=
  match rows c with
  | [] => DErr ENoRows
  | _ => match row_height c with
         | None => DErr ERowHeights
         | Some rh => construct (dp_rows c rh) (map (dcell_of rh) (cells c))
         end
  end.
