(* C14 optimality, part A4: the events pushed at the beginning of push(i) (pushNewSourceEvents, pushNewSinkEvents). *)
From Coq Require Import List ZArith Lia Bool Arith.
Import ListNotations.
Require Import CV.LpCert CV.Transp1d CV.Transp1dProofs CV.Transp1dTerm CV.Transp1dCert CV.Transp1dOpt
               CV.Transp1dOptA1 CV.Transp1dOptA2 CV.Transp1dOptA3.
Local Open Scope Z_scope.

Section Events.
Variable P : sprob.
Hypothesis W : wf_sprob P.
Hypothesis So : sorted_sprob P.
Notation n := (n_src P).
Notation m := (n_snk P).
Notation D := (Dx P).
Notation c := (cost P).

(* a cell is left of the end of sink j iff its own sink is <= j *)
Lemma cell_lt_iff y lb j : (lb < m)%nat -> (j < m)%nat -> D lb <= y < D (lb + 1) -> (y < D (j + 1) <-> (lb <= j)%nat).
Proof.
  intros Hlb Hj Hy. split.
  - intros H. destruct (Nat.lt_ge_cases j lb) as [Hlt|Hge]; [|exact Hge].
    assert (D (j + 1) <= D lb) by (apply D_le; [exact W|lia|lia]). lia.
  - intros H. assert (D (lb + 1) <= D (j + 1)) by (apply D_le; [exact W|lia|lia]). lia.
Qed.

Lemma src_events i1 s : (S i1 < n)%nat -> 0 <= lp s -> EvOK (lp s) (ev s) -> (lo s < m)%nat -> conv (ev s) ->
  D (lo s) <= Sx P (S i1) + lp s -> Sx P (S i1) + lp s <= D (lo s + 1) ->
  let s2 := push_new_source_events P (S i1) s in
  EvOK (lp s) (ev s2) /\ conv (ev s2) /\
  (forall x lb, 0 <= x < lp s -> (lb < m)%nat -> D lb <= Sx P (S i1) + x < D (lb + 1) ->
     sl (ev s2) x = sl (ev s) x + (c i1 (lo s) - c i1 lb) - (c (S i1) (lo s) - c (S i1) lb)).
Proof.
  intros Hi Hlp OK Hlo Cv Hd Hb. cbn [push_new_source_events]. cbv zeta. cbn [ev].
  set (b0 := Nat.pred (upper_bound (sv P) (zn (su P) i1))).
  set (e := Nat.min (lower_bound (sv P) (zn (su P) (S i1))) (lo s)).
  set (posf := fun j : nat => D (j + 1) - Sx P (S i1)).
  set (df := fun j : nat => delta P i1 j).
  change (fold_left _ (seq b0 (e - b0)) (ev s))
    with (fold_left (fun evs j => if 0 <? posf j then ev_insert (posf j, df j) evs else evs) (seq b0 (e - b0)) (ev s)).
  assert (Hsl := fun x => fold_ins_sl_gen posf df x (seq b0 (e - b0)) (ev s)).
  assert (Hdn : forall j, In j (seq b0 (e - b0)) -> 0 <= df j).
  { intros j Hj. apply in_seq in Hj. subst df. cbv beta. apply delta_nonneg; [exact So|lia|subst e; lia]. }
  split; [|split].
  - destruct (fold_ins_spec posf df (lp s) (seq b0 (e - b0)) (ev s) OK) as [F1 _]; [|exact F1].
    intros j Hj. apply in_seq in Hj. subst posf. cbv beta.
    assert (D (j + 1) <= D (lo s)) by (apply D_le; [exact W|subst e; lia|lia]). lia.
  - intros x. rewrite !Hsl. pose proof (Cv x).
    assert (zsum (fun j => if (0 <? posf j) && (x + 1 <? posf j) then df j else 0) (seq b0 (e - b0))
            <= zsum (fun j => if (0 <? posf j) && (x <? posf j) then df j else 0) (seq b0 (e - b0))); [|lia].
    apply zsum_le. intros j Hj. specialize (Hdn j Hj).
    destruct (0 <? posf j); cbn [andb]; [|lia].
    destruct (Z.ltb_spec (x + 1) (posf j)); destruct (Z.ltb_spec x (posf j)); lia.
  - intros x lb Hx Hlb Hy. rewrite Hsl.
    match goal with |- _ + ?z = _ => enough (E : z = (c i1 (lo s) - c i1 lb) - (c (S i1) (lo s) - c (S i1) lb)) by lia end.
    assert (Hlblo : (lb <= lo s)%nat).
    { apply (cell_lt_iff (Sx P (S i1) + x) lb (lo s) Hlb Hlo Hy). lia. }
    rewrite (zsum_seq_ind _ b0 (lo s) e ltac:(subst e; lia)).
    set (A := fun j : nat => c i1 j - c (S i1) j).
    rewrite (zsum_ext _ (fun j => if Nat.leb lb j then A (j + 1)%nat - A j else 0)).
    + rewrite zsum_tele by exact Hlblo. subst A. cbv beta. lia.
    + intros j Hj. apply in_seq in Hj.
      assert (Ed : df j = A (j + 1)%nat - A j).
      { subst df A. cbv beta. unfold delta. replace (i1 + 1)%nat with (S i1) by lia. lia. }
      assert (Hiff := cell_lt_iff (Sx P (S i1) + x) lb j Hlb ltac:(lia) Hy).
      destruct (Nat.leb_spec b0 j) as [Hb0|Hb0]; [destruct (Nat.ltb_spec j e) as [He|He]|]; cbn [andb].
      * subst posf. cbv beta. destruct (Nat.leb_spec lb j) as [Hl|Hl].
        -- destruct (Z.ltb_spec 0 (D (j + 1) - Sx P (S i1))); [|lia].
           destruct (Z.ltb_spec (Sx P (S i1) + x) (D (j + 1))) as [H1|H1]; [|lia].
           destruct (Z.ltb_spec x (D (j + 1) - Sx P (S i1))); [|lia]. cbn [andb]. exact Ed.
        -- destruct (Z.ltb_spec x (D (j + 1) - Sx P (S i1))); [lia|]. rewrite andb_false_r. reflexivity.
      * (* j >= e: right of u_i *)
        destruct (Nat.leb_spec lb j); [|reflexivity]. rewrite <- Ed. subst df. cbv beta. symmetry.
        assert (Hlbd : (lower_bound (sv P) (zn (su P) (S i1)) <= j)%nat) by (subst e; lia).
        apply delta_zero_right; [exact So|lia|lia|]. replace (i1 + 1)%nat with (S i1) by lia.
        unfold lower_bound in *.
        pose proof (first_idx_at (fun y => zn (su P) (S i1) <=? y) (sv P) ltac:(unfold n_snk in *; lia)) as Fa.
        cbv beta in Fa. apply Z.leb_le in Fa.
        pose proof (v_le P So _ j Hlbd ltac:(lia)). lia.
      * (* j < b0: left of u_{i-1} *)
        destruct (Nat.leb_spec lb j); [|reflexivity]. rewrite <- Ed. subst df. cbv beta. symmetry.
        apply delta_zero_left; [exact So|lia|lia|].
        pose proof (first_idx_before (fun y => zn (su P) i1 <? y) (sv P) (j + 1)%nat) as Fb.
        unfold upper_bound in b0. specialize (Fb ltac:(subst b0; lia)). cbv beta in Fb. apply Z.ltb_ge in Fb. exact Fb.
Qed.

Lemma tele_range (B : nat -> Z) lb : forall k l0,
  zsum (fun l => if Nat.leb lb l then B (l + 1)%nat - B l else 0) (seq l0 k)
  = B (Nat.max (l0 + k) (Nat.max l0 lb)) - B (Nat.max l0 lb).
Proof.
  induction k as [|k IH]; intros l0.
  - cbn [seq zsum]. replace (Nat.max (l0 + 0) (Nat.max l0 lb)) with (Nat.max l0 lb) by lia. lia.
  - rewrite zsum_seq_S, IH. destruct (Nat.leb_spec lb (l0 + k)) as [H|H].
    + replace (Nat.max (l0 + k) (Nat.max l0 lb)) with (l0 + k)%nat by lia.
      replace (Nat.max (l0 + S k) (Nat.max l0 lb)) with (l0 + k + 1)%nat by lia. lia.
    + replace (Nat.max (l0 + k) (Nat.max l0 lb)) with (Nat.max l0 lb) by lia.
      replace (Nat.max (l0 + S k) (Nat.max l0 lb)) with (Nat.max l0 lb) by lia. lia.
Qed.

Lemma snk_events i s o1 : (i < n)%nat -> 0 <= lp s -> EvOK (lp s) (ev s) -> (lo s < m)%nat -> conv (ev s) -> OS P i o1 ->
  let s4 := push_new_sink_events P i o1 s in
  lp s4 = lp s /\ lo s4 = Nat.max (lo s) o1 /\ os s4 = os s /\ EvOK (lp s) (ev s4) /\ conv (ev s4) /\
  (forall x lb, 0 <= x < lp s -> (lb < m)%nat -> D lb <= Sx P i + x < D (lb + 1) -> (lb <= Nat.max (lo s) o1)%nat ->
     sl (ev s4) x = sl (ev s) x + c i (Nat.max (lo s) lb) - c i (Nat.max (lo s) o1)).
Proof.
  intros Hi Hlp OK Hlo Cv Ho. unfold push_new_sink_events. destruct (Nat.leb_spec o1 (lo s)) as [Hle|Hgt]; cbv zeta.
  - replace (Nat.max (lo s) o1) with (lo s) by lia.
    split; [reflexivity|]. split; [reflexivity|]. split; [reflexivity|]. split; [exact OK|]. split; [exact Cv|].
    intros x lb _ _ _ Hl. replace (Nat.max (lo s) lb) with (lo s) by lia. lia.
  - cbn [lp lo os ev]. replace (Nat.max (lo s) o1) with o1 by lia.
    set (posf := fun l : nat => Z.min (D (l + 1) - Sx P i) (lp s)).
    set (df := fun l : nat => c i l - c i (l + 1)).
    change (fold_left _ (seq (lo s) (o1 - lo s)) (ev s))
      with (fold_left (fun evs j => if 0 <? posf j then ev_insert (posf j, df j) evs else evs) (seq (lo s) (o1 - lo s)) (ev s)).
    assert (Hsl := fun x => fold_ins_sl_gen posf df x (seq (lo s) (o1 - lo s)) (ev s)).
    destruct Ho as (Hom & Hol & Hor).
    assert (Hdn : forall j, In j (seq (lo s) (o1 - lo s)) -> 0 <= df j).
    { intros j Hj. apply in_seq in Hj. subst df. cbv beta. specialize (Hol j ltac:(lia)). lia. }
    split; [reflexivity|]. split; [reflexivity|]. split; [reflexivity|]. split; [|split].
    + destruct (fold_ins_spec posf df (lp s) (seq (lo s) (o1 - lo s)) (ev s) OK) as [F1 _]; [|exact F1].
      intros j _. subst posf. cbv beta. lia.
    + intros x. rewrite !Hsl. pose proof (Cv x).
      assert (zsum (fun j => if (0 <? posf j) && (x + 1 <? posf j) then df j else 0) (seq (lo s) (o1 - lo s))
              <= zsum (fun j => if (0 <? posf j) && (x <? posf j) then df j else 0) (seq (lo s) (o1 - lo s))); [|lia].
      apply zsum_le. intros j Hj. specialize (Hdn j Hj).
      destruct (0 <? posf j); cbn [andb]; [|lia].
      destruct (Z.ltb_spec (x + 1) (posf j)); destruct (Z.ltb_spec x (posf j)); lia.
    + intros x lb Hx Hlb Hy Hl. rewrite Hsl.
      match goal with |- _ + ?z = _ => enough (E : z = c i (Nat.max (lo s) lb) - c i o1) by lia end.
      set (B := fun l : nat => - c i l).
      rewrite (zsum_ext _ (fun l => if Nat.leb lb l then B (l + 1)%nat - B l else 0)).
      * rewrite tele_range. replace (Nat.max (lo s + (o1 - lo s)) (Nat.max (lo s) lb)) with o1 by lia. subst B. cbv beta. lia.
      * intros l Hl'. apply in_seq in Hl'.
        assert (Hiff := cell_lt_iff (Sx P i + x) lb l Hlb ltac:(lia) Hy).
        subst posf df B. cbv beta.
        destruct (Nat.leb_spec lb l) as [H1|H1].
        -- destruct (Z.ltb_spec 0 (Z.min (D (l + 1) - Sx P i) (lp s))); [|lia].
           destruct (Z.ltb_spec x (Z.min (D (l + 1) - Sx P i) (lp s))); [|lia]. cbn [andb]. lia.
        -- destruct (Z.ltb_spec x (Z.min (D (l + 1) - Sx P i) (lp s))); [lia|]. rewrite andb_false_r. reflexivity.
Qed.
End Events.
